/-
  C08 — helper lemmas for `Gotree/Proofs/C08.lean`.  Core Lean only.
-/
import Gotree.Lemmas.C08Canon
import Gotree.Spec.C08

namespace Gotree.C08.Canon
open Gotree Gotree.C08 List

/-! ## Layer 0: set algebra on duplicate-free lists -/

section SetAlg
variable {α : Type} [BEq α] [LawfulBEq α]

def diffG (a b : List α) : List α := a.filter fun x => !b.contains x
def interG (a b : List α) : List α := a.filter fun x => b.contains x

theorem length_inter_add_diff (a b : List α) : a.length = (interG a b).length + (diffG a b).length := by
  unfold interG diffG
  rw [← countP_eq_length_filter, ← countP_eq_length_filter]
  have := length_eq_countP_add_countP (fun x => b.contains x) (l := a)
  rw [this]
  congr 1
  apply countP_congr
  intro x _
  simp

theorem inter_perm_comm {a b : List α} (ha : a.Nodup) (hb : b.Nodup) : interG a b ~ interG b a := by
  unfold interG
  rw [perm_ext_iff_of_nodup (ha.sublist filter_sublist) (hb.sublist filter_sublist)]
  intro x
  simp only [mem_filter, contains_iff_mem]
  exact ⟨fun h => ⟨h.2, h.1⟩, fun h => ⟨h.2, h.1⟩⟩

theorem length_inter_comm {a b : List α} (ha : a.Nodup) (hb : b.Nodup) :
    (interG a b).length = (interG b a).length := (inter_perm_comm ha hb).length_eq

/-- replacing a list by a permutation of it changes neither operand's role -/
theorem inter_perm {a a' b b' : List α} (h : a ~ a') (hb : b ~ b') : interG a b ~ interG a' b' := by
  unfold interG
  have : (fun x => b.contains x) = (fun x => b'.contains x) := by
    funext x; simp only [contains_eq_mem]; congr 1; exact propext hb.mem_iff
  rw [this]; exact h.filter _

theorem diff_perm {a a' b b' : List α} (h : a ~ a') (hb : b ~ b') : diffG a b ~ diffG a' b' := by
  unfold diffG
  have : (fun x => !b.contains x) = (fun x => !b'.contains x) := by
    funext x; simp only [contains_eq_mem]; congr 2; exact propext hb.mem_iff
  rw [this]; exact h.filter _

end SetAlg

theorem diffL_eq (a b : List (List String)) : diffL a b = diffG a b := rfl
theorem interL_eq (a b : List (List String)) : interL a b = interG a b := rfl

/-! ## Layer 1: the Spec's split list under `keysNodup` -/

theorem insertU_fresh (s : USplit) (acc : List USplit) (h : ∀ x ∈ acc, x.side ≠ s.side) :
    insertU s acc = acc ++ [s] := by
  induction acc with
  | nil => rfl
  | cons x r ih =>
    have hx : x.side ≠ s.side := h x (by simp)
    have hx' : (x.side == s.side) = false := by simpa using hx
    simp only [insertU, hx', cons_append]
    rw [ih (fun y hy => h y (by simp [hy]))]
    simp

theorem foldl_insertU_fresh (all : List String) (l : List SplitE) (acc : List USplit)
    (hn : (l.map fun s => canonSide all s.below).Nodup)
    (hd : ∀ x ∈ acc, ∀ s ∈ l, x.side ≠ canonSide all s.below) :
    l.foldl (fun acc s => insertU ⟨canonSide all s.below, s.e.len, s.e.sup⟩ acc) acc
      = acc ++ l.map (usOf all) := by
  induction l generalizing acc with
  | nil => simp
  | cons s r ih =>
    simp only [foldl_cons, map_cons]
    rw [insertU_fresh _ _ (fun x hx => hd x hx s (by simp))]
    have hn' : canonSide all s.below ∉ r.map (fun s => canonSide all s.below) ∧
        (r.map fun s => canonSide all s.below).Nodup := nodup_cons.mp hn
    rw [ih _ hn'.2]
    · simp [usOf]
    · intro x hx s' hs'
      rcases mem_append.mp hx with hx | hx
      · exact hd x hx s' (by simp [hs'])
      · simp only [mem_singleton] at hx
        subst hx
        intro heq
        apply hn'.1
        simp only [mem_map]
        exact ⟨s', hs', heq.symm⟩

theorem usplitsAll_perm (t : T) (h : keysNodup t = true) :
    t.usplitsAll ~ t.splits.map (usOf t.tipNames) := by
  unfold T.usplitsAll
  simp only
  refine (mergeSort_perm _ _).trans ?_
  have hn : (t.splits.map fun s => canonSide t.tipNames s.below).Nodup := by
    simpa [keysNodup] using h
  rw [foldl_insertU_fresh t.tipNames t.splits [] hn (by simp)]
  simp

theorem counted_true (e : SplitE) : counted true e = true := by simp [counted]
theorem counted_false (e : SplitE) : counted false e = !e.tip := by simp [counted]

/-- under `keysNodup` and `classOK` the splits that count are, up to order, the
    branches that the code counts -/
theorem U_perm (t : T) (tips : Bool) (h1 : keysNodup t = true) (h2 : classOK t = true) :
    U tips t ~ (t.splits.filter (counted tips)).map (usOf t.tipNames) := by
  cases tips with
  | true =>
    have : t.splits.filter (counted true) = t.splits := by
      apply filter_eq_self.mpr; intro a _; exact counted_true a
    simp only [U, if_true, this]
    exact usplitsAll_perm t h1
  | false =>
    simp only [U, T.usplits]
    refine ((usplitsAll_perm t h1).filter _).trans ?_
    rw [filter_map]
    apply Perm.of_eq
    congr 1
    apply filter_congr
    intro s hs
    have := (all_eq_true.mp h2) s hs
    simp only [beq_iff_eq] at this
    show decide (2 ≤ lightSize t.tipNames (canonSide t.tipNames s.below)) = counted false s
    rw [counted_false, this]
    by_cases hl : lightSize t.tipNames (canonSide t.tipNames s.below) ≤ 1
    · have : ¬ 2 ≤ lightSize t.tipNames (canonSide t.tipNames s.below) := by omega
      simp [hl, this]
    · have : 2 ≤ lightSize t.tipNames (canonSide t.tipNames s.below) := by omega
      simp [hl, this]

theorem S_perm (t : T) (tips : Bool) (h1 : keysNodup t = true) (h2 : classOK t = true) :
    S tips t ~ (t.splits.filter (counted tips)).map (fun s => canonSide t.tipNames s.below) := by
  unfold S
  refine ((U_perm t tips h1 h2).map _).trans ?_
  simp [usOf, Function.comp_def]

theorem S_nodup (t : T) (tips : Bool) (h1 : keysNodup t = true) (h2 : classOK t = true) :
    (S tips t).Nodup := by
  refine (S_perm t tips h1 h2).symm.nodup ?_
  have hn : (t.splits.map fun s => canonSide t.tipNames s.below).Nodup := by
    simpa [keysNodup] using h1
  exact hn.sublist (filter_sublist.map _)

/-! ## Layer 3: the index -/

theorem lookup_put_self (k : List String) (v : Info) (ix : Index) : (put k v ix).lookup k = some v := by
  induction ix with
  | nil => simp [put]
  | cons p r ih =>
    obtain ⟨k', v'⟩ := p
    by_cases h : k' = k
    · subst h; simp [put]
    · have h1 : (k' == k) = false := by simpa using h
      have h2 : (k == k') = false := by simpa using (fun e => h e.symm)
      simp [put, h1, lookup, h2, ih]

theorem lookup_put_other (k k2 : List String) (v : Info) (ix : Index) (h : k2 ≠ k) :
    (put k v ix).lookup k2 = ix.lookup k2 := by
  induction ix with
  | nil =>
    simp [put, h]
  | cons p r ih =>
    obtain ⟨k', v'⟩ := p
    by_cases h1 : k' = k
    · subst h1
      have : (k2 == k') = false := by simpa using h
      simp [put, lookup, this]
    · have h1' : (k' == k) = false := by simpa using h1
      simp only [put, h1', Bool.false_eq_true, if_false, lookup_cons]
      rw [ih]

theorem lookup_buildFrom_notin (all : List String) (l : List SplitE) (i : Nat) (ix : Index) (k : List String)
    (h : k ∉ l.map (key all)) : (buildFrom all l i ix).lookup k = ix.lookup k := by
  induction l generalizing i ix with
  | nil => rfl
  | cons s r ih =>
    simp only [map_cons, mem_cons, not_or] at h
    simp only [buildFrom]
    rw [ih _ _ h.2, lookup_put_other _ _ _ _ h.1]

/-- a key is found iff some branch put it -/
theorem value_isSome_iff (all : List String) (l : List SplitE) (i : Nat) (ix : Index) (k : List String) :
    (value (buildFrom all l i ix) k).isSome = true ↔ k ∈ l.map (key all) ∨ (ix.lookup k).isSome = true := by
  induction l generalizing i ix with
  | nil => simp [buildFrom, value]
  | cons s r ih =>
    simp only [buildFrom, map_cons, mem_cons]
    rw [ih]
    by_cases hk : k = key all s
    · subst hk; simp [lookup_put_self]
    · rw [lookup_put_other _ _ _ _ hk]
      constructor
      · rintro (h | h)
        · exact Or.inl (Or.inr h)
        · exact Or.inr h
      · rintro ((h | h) | h)
        · exact absurd h hk
        · exact Or.inl h
        · exact Or.inr h

theorem value_buildIndex_isSome (all : List String) (l : List SplitE) (k : List String) :
    (value (buildIndex all l) k).isSome = true ↔ k ∈ l.map (key all) := by
  unfold buildIndex
  rw [value_isSome_iff]
  simp [lookup]

/-- with distinct keys, the value found for the key of a branch carries that branch's length -/
theorem value_buildFrom_len (all : List String) (l : List SplitE) (i : Nat) (ix : Index) (s : SplitE)
    (hn : (l.map (key all)).Nodup) (hs : s ∈ l) :
    ((value (buildFrom all l i ix) (key all s)).map (·.len)) = some s.e.len := by
  induction l generalizing i ix with
  | nil => cases hs
  | cons s0 r ih =>
    have hn' : key all s0 ∉ r.map (key all) ∧ (r.map (key all)).Nodup := nodup_cons.mp hn
    simp only [buildFrom]
    by_cases hk : key all s = key all s0
    · have hs0 : s.e.len = s0.e.len := by
        rcases mem_cons.mp hs with h | h
        · rw [h]
        · exfalso; apply hn'.1; rw [← hk]; exact mem_map.mpr ⟨s, h, rfl⟩
      unfold value
      rw [hk, lookup_buildFrom_notin _ _ _ _ _ hn'.1, lookup_put_self, hs0]
      rfl
    · rcases mem_cons.mp hs with h | h
      · exact absurd (by rw [h]) hk
      · exact ih _ _ hn'.2 h

/-! ## Layer 4: the loops in closed form -/

/-- the lookup of one compared branch -/
def okE (idx : Index) (all : List String) (e : SplitE) : Bool :=
  if !e.tip then (value idx (key all e)).isSome else true

theorem cmpLoop_noSC (idx : Index) (all : List String) (tips : Bool) (l : List SplitE) (st : LoopSt) :
    cmpLoop idx all tips false l st =
      ⟨st.total2 + l.countP (counted tips),
       st.common + l.countP (fun e => okE idx all e && counted tips e),
       st.same && l.all (okE idx all)⟩ := by
  induction l generalizing st with
  | nil => simp [cmpLoop]
  | cons e r ih =>
    have hk : (if (!e.tip) = true then (value idx (key all e)).isSome else true) = okE idx all e := rfl
    simp only [cmpLoop, Bool.and_false, Bool.false_eq_true, if_false, hk]
    rw [ih]
    simp only [countP_cons, all_cons]
    cases okE idx all e <;> cases counted tips e <;> simp <;> omega

/-- with the shortcut: the same flag, and the same totals whenever the flag is set -/
theorem cmpLoop_SC (idx : Index) (all : List String) (tips : Bool) (l : List SplitE) (st : LoopSt) :
    (cmpLoop idx all tips true l st).same = (st.same && l.all (okE idx all)) ∧
    ((cmpLoop idx all tips true l st).same = true →
       (cmpLoop idx all tips true l st).total2 = st.total2 + l.countP (counted tips)) := by
  induction l generalizing st with
  | nil => simp [cmpLoop]
  | cons e r ih =>
    have hk : (if (!e.tip) = true then (value idx (key all e)).isSome else true) = okE idx all e := rfl
    simp only [cmpLoop, Bool.and_true, hk]
    cases hok : okE idx all e with
    | true =>
      simp only [Bool.not_true, Bool.false_eq_true, if_false]
      obtain ⟨h1, h2⟩ := ih ⟨if counted tips e = true then st.total2 + 1 else st.total2,
        if (true && counted tips e) = true then st.common + 1 else st.common, st.same && true⟩
      constructor
      · rw [h1]; simp [all_cons, hok]
      · intro h; rw [h2 h]; simp only [countP_cons]; split <;> omega
    | false =>
      simp [all_cons, hok]

/-! ## Names: unique tips, same taxa, order of strings -/

theorem eraseDups_len (n : Nat) : ∀ (l : List String), l.length = n →
    l.eraseDups.length ≤ l.length ∧ (l.eraseDups.length = l.length → l.Nodup) := by
  induction n using Nat.strongRecOn with
  | _ n ih =>
    intro l hl
    cases l with
    | nil => simp
    | cons a as =>
      rw [eraseDups_cons]
      have hf : (as.filter (fun b => !b == a)).length ≤ as.length := length_filter_le _ _
      have hfn : (as.filter (fun b => !b == a)).length < n := by simp at hl; omega
      obtain ⟨h1, h2⟩ := ih _ hfn (as.filter (fun b => !b == a)) rfl
      simp only [length_cons]
      constructor
      · omega
      · intro heq
        have e1 : (as.filter (fun b => !b == a)).eraseDups.length = (as.filter (fun b => !b == a)).length := by omega
        have e2 : (as.filter (fun b => !b == a)).length = as.length := by omega
        have hall := length_filter_eq_length_iff.mp e2
        have hfe : as.filter (fun b => !b == a) = as := filter_eq_self.mpr hall
        have hnd := h2 e1
        rw [hfe] at hnd
        refine nodup_cons.mpr ⟨?_, hnd⟩
        intro hm
        have := hall a hm
        simp at this

theorem nodup_of_uniqueTips (t : T) (h : t.uniqueTips = true) : t.tipNames.Nodup := by
  unfold T.uniqueTips at h
  exact (eraseDups_len _ _ rfl).2 (by simpa using h)

theorem perm_of_sameTaxa (r c : T) (h : sameTaxa r c = true) (hr : r.tipNames.Nodup) (hc : c.tipNames.Nodup) :
    r.tipNames ~ c.tipNames := by
  rw [perm_ext_iff_of_nodup hr hc]
  unfold sameTaxa at h
  simp only [Bool.and_eq_true, all_eq_true, contains_iff_mem] at h
  exact fun a => ⟨h.1 a, h.2 a⟩

theorem sameTaxa_of_perm (r c : T) (h : r.tipNames ~ c.tipNames) : sameTaxa r c = true := by
  unfold sameTaxa
  simp only [Bool.and_eq_true, all_eq_true, contains_iff_mem]
  exact ⟨fun a ha => h.mem_iff.mp ha, fun a ha => h.mem_iff.mpr ha⟩

theorem filter_contains_perm {a a' : List String} (h : a ~ a') (b : List String) :
    b.filter a.contains = b.filter a'.contains := by
  apply filter_congr
  intro x _
  simp only [contains_eq_mem]
  congr 1
  exact propext h.mem_iff

theorem lightSize_perm {a a' : List String} (h : a ~ a') (k : List String) : lightSize a k = lightSize a' k := by
  unfold lightSize
  rw [filter_contains_perm h, h.length_eq]

theorem str_le_of_lt {a b : String} (h : a < b) : a ≤ b := String.not_lt.mp (String.lt_asymm h)

theorem foldl_min_spec (r : List String) (a : String) :
    let m := r.foldl (fun m x => if x < m then x else m) a
    (m = a ∨ m ∈ r) ∧ m ≤ a ∧ ∀ x ∈ r, m ≤ x := by
  induction r generalizing a with
  | nil => simp
  | cons x r ih =>
    simp only [foldl_cons]
    obtain ⟨h1, h2, h3⟩ := ih (if x < a then x else a)
    have ha : (if x < a then x else a) ≤ a := by
      split
      · exact str_le_of_lt ‹_›
      · exact String.le_refl _
    have hx : (if x < a then x else a) ≤ x := by
      split
      · exact String.le_refl _
      · exact String.not_lt.mp ‹_›
    refine ⟨?_, String.le_trans h2 ha, ?_⟩
    · rcases h1 with h1 | h1
      · rw [h1]
        split
        · exact Or.inr (by simp)
        · exact Or.inl rfl
      · exact Or.inr (by simp [h1])
    · intro y hy
      rcases mem_cons.mp hy with hy | hy
      · rw [hy]; exact String.le_trans h2 hx
      · exact h3 y hy

theorem minS_spec {l : List String} {m : String} (h : minS l = some m) : m ∈ l ∧ ∀ x ∈ l, m ≤ x := by
  cases l with
  | nil => simp [minS] at h
  | cons a r =>
    simp only [minS, Option.some.injEq] at h
    obtain ⟨h1, h2, h3⟩ := foldl_min_spec r a
    rw [h] at h1 h2 h3
    refine ⟨?_, ?_⟩
    · rcases h1 with h1 | h1
      · simp [h1]
      · simp [h1]
    · intro x hx
      rcases mem_cons.mp hx with hx | hx
      · rw [hx]; exact h2
      · exact h3 x hx

theorem minS_perm {l l' : List String} (h : l ~ l') : minS l = minS l' := by
  cases hl : minS l with
  | none =>
    cases l with
    | nil => rw [← h.nil_eq]; rfl
    | cons a r => simp [minS] at hl
  | some m =>
    cases hl' : minS l' with
    | none =>
      cases l' with
      | nil => rw [h.eq_nil] at hl; simp [minS] at hl
      | cons a r => simp [minS] at hl'
    | some m' =>
      obtain ⟨h1, h2⟩ := minS_spec hl
      obtain ⟨h1', h2'⟩ := minS_spec hl'
      congr 1
      exact String.le_antisymm (h2 m' (h.mem_iff.mpr h1')) (h2' m (h.mem_iff.mp h1))

theorem sortS_pairwise (l : List String) : (sortS l).Pairwise (fun a b => decide (a ≤ b) = true) := by
  unfold sortS
  apply pairwise_mergeSort
  · intro a b c h1 h2
    simp only [decide_eq_true_eq] at *
    exact String.le_trans h1 h2
  · intro a b
    simp only [Bool.or_eq_true, decide_eq_true_eq]
    exact String.le_total a b

theorem sortS_perm_self (l : List String) : sortS l ~ l := mergeSort_perm _ _

theorem sortS_perm {l l' : List String} (h : l ~ l') : sortS l = sortS l' := by
  apply Perm.eq_of_pairwise (le := fun a b => decide (a ≤ b) = true) _ (sortS_pairwise l) (sortS_pairwise l')
  · exact (sortS_perm_self l).trans (h.trans (sortS_perm_self l').symm)
  · intro a b _ _ h1 h2
    simp only [decide_eq_true_eq] at h1 h2
    exact String.le_antisymm h1 h2

theorem canonSide_perm {a a' : List String} (h : a ~ a') (b : List String) : canonSide a b = canonSide a' b := by
  unfold canonSide
  simp only
  rw [filter_contains_perm h, minS_perm h]
  cases minS a' with
  | none => rfl
  | some m =>
    simp only
    split
    · apply sortS_perm
      unfold complS
      exact h.filter _
    · rfl

/-! ## Layer 5: assembling `compare` -/

theorem good_parts {t : T} (h : good t = true) :
    t.uniqueTips = true ∧ t.tipNames ≠ [] ∧ keysNodup t = true ∧ classOK t = true ∧ tipSplitsOK t = true := by
  unfold good at h
  simp only [Bool.and_eq_true, Bool.not_eq_true', isEmpty_eq_false_iff] at h
  exact ⟨h.1.1.1.1, h.1.1.1.2, h.1.1.2, h.1.2, h.2⟩

theorem reinitOk_of_good {t : T} (h : good t = true) : reinitOk t = true := by
  obtain ⟨h1, h2, _⟩ := good_parts h
  unfold reinitOk
  simp only [Bool.and_eq_true, h1, true_and, bne_iff_ne, ne_eq, length_eq_zero_iff]
  exact h2

theorem compareTipIndexes_of_perm {a b : List String} (h : a ~ b) (ha : a ≠ []) : compareTipIndexes a b = true := by
  unfold compareTipIndexes
  have hb : b ≠ [] := fun e => ha (by rw [e] at h; exact h.eq_nil)
  simp only [Bool.and_eq_true, bne_iff_ne, ne_eq, length_eq_zero_iff, beq_iff_eq, all_eq_true, contains_iff_mem]
  exact ⟨⟨⟨ha, hb⟩, h.length_eq⟩, fun x hx => h.mem_iff.mp hx⟩

/-- a tally of the hits equals the tally of the candidates iff every element is a hit,
    provided the non-candidates are hits -/
theorem all_iff_countP_eq {α : Type} (p q : α → Bool) (l : List α) (h : ∀ e ∈ l, q e = false → p e = true) :
    l.countP (fun e => p e && q e) ≤ l.countP q ∧
    (l.all p = true ↔ l.countP (fun e => p e && q e) = l.countP q) := by
  induction l with
  | nil => simp
  | cons a r ih =>
    obtain ⟨h1, h2⟩ := ih (fun e he => h e (by simp [he]))
    have ha := h a (by simp)
    simp only [countP_cons, all_cons, Bool.and_eq_true]
    cases hp : p a <;> cases hq : q a <;> simp_all <;> omega

/-- the lookup of a counted compared branch succeeds iff its split is a split of the reference that counts -/
theorem okE_iff_mem (r c : T) (tips : Bool) (hT : sameTaxa r c = true) (hr : good r = true) (hc : good c = true)
    (e : SplitE) (he : e ∈ c.splits) (hcnt : counted tips e = true) :
    okE (buildIndex r.tipNames r.splits) c.tipNames e = (S tips r).contains (canonSide c.tipNames e.below) := by
  obtain ⟨hr1, _, hr3, hr4, hr5⟩ := good_parts hr
  obtain ⟨hc1, _, hc3, hc4, hc5⟩ := good_parts hc
  have hperm := perm_of_sameTaxa r c hT (nodup_of_uniqueTips r hr1) (nodup_of_uniqueTips c hc1)
  have hmemS : ∀ k, (S tips r).contains k = true ↔
      k ∈ (r.splits.filter (counted tips)).map (fun s => canonSide r.tipNames s.below) := by
    intro k; rw [contains_iff_mem]; exact (S_perm r tips hr3 hr4).mem_iff
  rw [Bool.eq_iff_iff, hmemS]
  unfold okE
  cases htip : e.tip with
  | false =>
    simp only [Bool.not_false, if_true]
    rw [value_buildIndex_isSome]
    constructor
    · intro hm
      obtain ⟨s, hs, hk⟩ := mem_map.mp hm
      refine mem_map.mpr ⟨s, mem_filter.mpr ⟨hs, ?_⟩, hk⟩
      -- `s` cannot be a tip branch: its split is non-trivial
      have h1 := (all_eq_true.mp hc4) e he
      have h2 := (all_eq_true.mp hr4) s hs
      simp only [beq_iff_eq] at h1 h2
      rw [htip] at h1
      have h3 : ¬ lightSize c.tipNames (canonSide c.tipNames e.below) ≤ 1 := by
        intro hle; simp [hle] at h1
      have hk' : canonSide r.tipNames s.below = canonSide c.tipNames e.below := hk
      rw [← hk', ← lightSize_perm hperm] at h3
      have : s.tip = false := by rw [h2]; simp [h3]
      simp [counted, this]
    · intro hm
      obtain ⟨s, hs, hk⟩ := mem_map.mp hm
      exact mem_map.mpr ⟨s, (mem_filter.mp hs).1, hk⟩
  | true =>
    simp only [Bool.not_true, Bool.false_eq_true, if_false, true_iff]
    have htips : tips = true := by
      cases tips with
      | true => rfl
      | false => simp [counted, htip] at hcnt
    subst htips
    -- the tip branch of `c` is `{x} | rest`; `r` has the same tip
    have h1 := (all_eq_true.mp (Bool.and_eq_true_iff.mp hc5).2) e he
    simp only [htip, Bool.not_true, Bool.false_or] at h1
    have h2 := all_eq_true.mp (Bool.and_eq_true_iff.mp hr5).1
    cases hb : e.below with
    | nil => simp [hb] at h1
    | cons x rest =>
      cases rest with
      | cons _ _ => simp [hb] at h1
      | nil =>
        simp only [hb, contains_iff_mem] at h1
        have hx : x ∈ r.tipNames := hperm.mem_iff.mpr h1
        have h3 := h2 x hx
        obtain ⟨s, hs, hs2⟩ := any_eq_true.mp h3
        simp only [Bool.and_eq_true, beq_iff_eq] at hs2
        refine mem_map.mpr ⟨s, mem_filter.mpr ⟨hs, counted_true s⟩, ?_⟩
        show canonSide r.tipNames s.below = canonSide c.tipNames [x]
        rw [hs2.2, canonSide_perm hperm]

theorem not_counted_okE (idx : Index) (all : List String) (tips : Bool) (e : SplitE)
    (h : counted tips e = false) : okE idx all e = true := by
  cases tips <;> cases ht : e.tip <;> simp_all [counted, okE]

/-- number of successful counted lookups = |C ∩ R| -/
theorem common_eq (r c : T) (tips : Bool) (hT : sameTaxa r c = true) (hr : good r = true) (hc : good c = true) :
    c.splits.countP (fun e => okE (buildIndex r.tipNames r.splits) c.tipNames e && counted tips e)
      = (interG (S tips c) (S tips r)).length := by
  obtain ⟨_, _, hc3, hc4, _⟩ := good_parts hc
  have e1 : c.splits.countP (fun e => okE (buildIndex r.tipNames r.splits) c.tipNames e && counted tips e)
      = ((c.splits.filter (counted tips)).filter
          (fun e => (S tips r).contains (canonSide c.tipNames e.below))).length := by
    rw [countP_eq_length_filter, filter_filter]
    congr 1
    apply filter_congr
    intro e he
    cases hcnt : counted tips e with
    | false => simp
    | true =>
      rw [okE_iff_mem r c tips hT hr hc e he hcnt]
  rw [e1]
  have e2 : (interG ((c.splits.filter (counted tips)).map (fun s => canonSide c.tipNames s.below)) (S tips r)).length
      = ((c.splits.filter (counted tips)).filter
          (fun e => (S tips r).contains (canonSide c.tipNames e.below))).length := by
    unfold interG
    rw [filter_map, length_map]
    rfl
  rw [← e2]
  exact (inter_perm (S_perm c tips hc3 hc4).symm (Perm.refl _)).length_eq

theorem S_length (t : T) (tips : Bool) (ht : good t = true) :
    (S tips t).length = t.splits.countP (counted tips) := by
  obtain ⟨_, _, h3, h4, _⟩ := good_parts ht
  rw [(S_perm t tips h3 h4).length_eq, length_map, countP_eq_length_filter]

/-- ★ core of `compare_counts`: the record of `Compare` (no shortcut) is the set algebra of the split sets -/
theorem compare_noSC_of_good (r c : T) (tips : Bool) (hT : sameTaxa r c = true)
    (hr : good r = true) (hc : good c = true) :
    compare r c tips false =
      .ok ⟨((diffL (S tips r) (S tips c)).length : Int), ((interL (S tips r) (S tips c)).length : Int),
           ((diffL (S tips c) (S tips r)).length : Int), sameSplits r c tips⟩ := by
  obtain ⟨hr1, hr2, hr3, hr4, _⟩ := good_parts hr
  obtain ⟨hc1, _, hc3, hc4, _⟩ := good_parts hc
  have hperm := perm_of_sameTaxa r c hT (nodup_of_uniqueTips r hr1) (nodup_of_uniqueTips c hc1)
  have h1 := reinitOk_of_good hr
  have h2 := reinitOk_of_good hc
  have h3 := compareTipIndexes_of_perm hperm hr2
  unfold compare
  simp only [h1, h2, h3, Bool.not_true, Bool.false_eq_true, if_false]
  rw [cmpLoop_noSC]
  simp only [Nat.zero_add, Bool.true_and]
  have hR := S_length r tips hr
  have hC := S_length c tips hc
  have hco := common_eq r c tips hT hr hc
  have hall := all_iff_countP_eq (okE (buildIndex r.tipNames r.splits) c.tipNames) (counted tips) c.splits
    (fun e _ hq => not_counted_okE _ _ tips e hq)
  have e1 := length_inter_add_diff (S tips r) (S tips c)
  have e2 := length_inter_add_diff (S tips c) (S tips r)
  have e3 := length_inter_comm (S_nodup r tips hr3 hr4) (S_nodup c tips hc3 hc4)
  rw [diffL_eq, diffL_eq, interL_eq]
  refine congrArg Res.ok ?_
  simp only [Stats.mk.injEq]
  refine ⟨by omega, by omega, by omega, ?_⟩
  rw [Bool.eq_iff_iff]
  unfold sameSplits
  rw [diffL_eq, diffL_eq]
  simp only [Bool.and_eq_true, beq_iff_eq, isEmpty_iff, hall.2, ← length_eq_zero_iff]
  omega

/-! ## Sametree, shortcut, swap -/

/-- the identity flag of a record -/
def flag : Res Stats → Res Bool
  | .ok s => .ok s.same
  | .err => .err
  | .refErr => .refErr

/-- the shortcut never changes the identity flag -/
theorem compare_shortcut_flag (r c : T) (tips : Bool) :
    flag (compare r c tips true) = flag (compare r c tips false) := by
  unfold compare
  cases h1 : reinitOk r <;> cases h2 : reinitOk c <;>
    cases h3 : compareTipIndexes r.tipNames c.tipNames <;> simp [flag]
  obtain ⟨e1, e2⟩ := cmpLoop_SC (buildIndex r.tipNames r.splits) c.tipNames tips c.splits ⟨0, 0, true⟩
  rw [cmpLoop_noSC]
  simp only [Nat.zero_add, Bool.true_and] at e1 e2 ⊢
  cases hall : c.splits.all (okE (buildIndex r.tipNames r.splits) c.tipNames) with
  | false => rw [hall] at e1; simp [e1]
  | true =>
    rw [hall] at e1
    rw [e1, e2 e1]

/-- model level, no hypothesis: without the shortcut the flag is set exactly when both
    "only" counts are zero -/
theorem compare_same_iff_zero (r c : T) (tips : Bool) (st : Stats)
    (h : compare r c tips false = .ok st) : st.same = true ↔ st.tree1 = 0 ∧ st.tree2 = 0 := by
  unfold compare at h
  cases h1 : reinitOk r <;> cases h2 : reinitOk c <;>
    cases h3 : compareTipIndexes r.tipNames c.tipNames <;> simp [h1, h2, h3] at h
  rw [cmpLoop_noSC] at h
  simp only [Nat.zero_add, Bool.true_and] at h
  have hall := all_iff_countP_eq (okE (buildIndex r.tipNames r.splits) c.tipNames) (counted tips) c.splits
    (fun e _ hq => not_counted_okE _ _ tips e hq)
  rw [← h]
  simp only [Bool.and_eq_true, beq_iff_eq, hall.2]
  omega

/-! ## Taxon check -/

theorem perm_of_subset_length : ∀ {a b : List String}, a.Nodup → b.Nodup → (∀ x ∈ a, x ∈ b) →
    a.length = b.length → a ~ b
  | [], b, _, _, _, hl => by
    have : b = [] := length_eq_zero_iff.mp (by simpa using hl.symm)
    rw [this]
  | x :: a', b, ha, hb, hs, hl => by
    have ha' := nodup_cons.mp ha
    have hx : x ∈ b := hs x (by simp)
    have hsub : ∀ y ∈ a', y ∈ b.erase x := by
      intro y hy
      have hne : y ≠ x := fun e => ha'.1 (e ▸ hy)
      exact (mem_erase_of_ne hne).mpr (hs y (by simp [hy]))
    have hlen : a'.length = (b.erase x).length := by
      rw [length_erase_of_mem hx]; simp at hl; omega
    have ih := perm_of_subset_length ha'.2 (hb.erase x) hsub hlen
    exact (ih.cons x).trans (perm_cons_erase hx).symm

theorem sameTaxa_of_compareTipIndexes (r c : T) (hr : r.uniqueTips = true) (hc : c.uniqueTips = true)
    (h : compareTipIndexes r.tipNames c.tipNames = true) : sameTaxa r c = true := by
  unfold compareTipIndexes at h
  simp only [Bool.and_eq_true, beq_iff_eq, all_eq_true, contains_iff_mem] at h
  exact sameTaxa_of_perm r c
    (perm_of_subset_length (nodup_of_uniqueTips r hr) (nodup_of_uniqueTips c hc) h.2 h.1.2)

theorem compareTipIndexes_false (r c : T) (hr : r.uniqueTips = true) (hc : c.uniqueTips = true)
    (h : sameTaxa r c = false) : compareTipIndexes r.tipNames c.tipNames = false := by
  cases h' : compareTipIndexes r.tipNames c.tipNames with
  | false => rfl
  | true => rw [sameTaxa_of_compareTipIndexes r c hr hc h'] at h; cases h

theorem sameTaxa_symm (r c : T) (h : sameTaxa r c = true) : sameTaxa c r = true := by
  unfold sameTaxa at *
  rw [Bool.and_comm]; exact h

/-! ## Invariance: only the split sets matter -/

theorem perm_of_sameSplits (a b : T) (tips : Bool) (ha : good a = true) (hb : good b = true)
    (h : sameSplits a b tips = true) : S tips a ~ S tips b := by
  obtain ⟨_, _, ha3, ha4, _⟩ := good_parts ha
  obtain ⟨_, _, hb3, hb4, _⟩ := good_parts hb
  rw [perm_ext_iff_of_nodup (S_nodup a tips ha3 ha4) (S_nodup b tips hb3 hb4)]
  unfold sameSplits diffL at h
  simp only [Bool.and_eq_true, isEmpty_iff, filter_eq_nil_iff, Bool.not_eq_true', Bool.not_eq_false,
    contains_iff_mem] at h
  exact fun x => ⟨h.1 x, h.2 x⟩

end Gotree.C08.Canon
