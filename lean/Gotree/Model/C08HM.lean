/-
  C08 — `tree.Compare` / `tree.CompareWeighted` through the real index machinery:
  `ReinitIndexes` as modelled by C04 (`C04.reinit`: tip ranks, bitsets, tip counts and
  additive hashes of every branch, for an arbitrary name hash `H`) and `EdgeIndex` as the
  C04 model of `hashmap.HashMap` (buckets chosen by `Edge.HashCode`, `HashEquals` =
  `EqualOrComplement` inside the bucket, rehash under an arbitrary policy).  An index
  out of range is the explicit outcome `panic`.

  `Proofs/C08.lean` (`compareHM_eq`, `compareWeightedHM_eq`) shows, with C04's refinement
  lemmas, that these return the records of `compare` / `compareWeighted` of Model/C08.lean
  for every `H`, every policy and all inputs.  Core Lean only.
-/
import Gotree.Model.C04
import Gotree.Model.C04HM
import Gotree.Model.C08

namespace Gotree.C08
open Gotree

/-- outcome of a run through the hash map -/
inductive HOut (α : Type) where
  | res (r : Res α)
  | panic
  deriving Repr, BEq, DecidableEq

abbrev EMap := C04.HM C04.EdgeIdx Info

/-- `Edge.HashCode` -/
def ehash (e : C04.EdgeIdx) : UInt64 := e.hashCode
/-- `Edge.HashEquals` -/
def eeqv (a b : C04.EdgeIdx) : Bool := a.equals b

/-- `for i, e := range edges { index.PutEdgeValue(e, i, e.Length()) }` -/
def putAll (policy : Nat → Nat → Bool) : List (C04.EdgeIdx × SplitE) → Nat → EMap → Option EMap
  | [], _, m => some m
  | (k, s) :: r, i, m =>
    match m.put ehash eeqv policy k ⟨i, s.e.len⟩ with
    | none => none
    | some m' => putAll policy r (i + 1) m'

/-- `NewEdgeIndex(uint64(len(edges)*2), 0.75)` filled with the branches -/
def buildHM (policy : Nat → Nat → Bool) (idx : List C04.EdgeIdx) (splits : List SplitE) : Option EMap :=
  putAll policy (idx.zip splits) 0 (C04.HM.new (2 * splits.length))

/-- the loop of `Compare` over the branches of the compared tree, lookups in the hash map -/
def cmpLoopHM (index : EMap) (tips sc : Bool) : List (C04.EdgeIdx × SplitE) → LoopSt → Option LoopSt
  | [], st => some st
  | (k, e2) :: rest, st =>
    let total2 := if counted tips e2 then st.total2 + 1 else st.total2
    match (if !e2.tip then (index.get ehash eeqv k).map Option.isSome else some true) with
    | none => none
    | some ok =>
      if !ok && sc then some ⟨total2, st.common, false⟩
      else
        cmpLoopHM index tips sc rest
          ⟨total2, if ok && counted tips e2 then st.common + 1 else st.common, st.same && ok⟩

/-- one record of `Compare`, through `ReinitIndexes` and the hash map -/
def compareHM (H : String → UInt64) (policy : Nat → Nat → Bool) (r c : T) (tips sc : Bool) : HOut Stats :=
  match C04.reinit H r with
  | .err _ => .res .refErr
  | .ok (_, ridx) =>
    match buildHM policy ridx r.splits with
    | none => .panic
    | some index =>
      let total := r.splits.countP (counted tips)
      match C04.reinit H c with
      | .err _ => .res .err
      | .ok (_, cidx) =>
        -- `if inerr = refTree.CompareTipIndexes(treeV.Tree); inerr == nil {` (since fix e41ab42)
        if !compareTipIndexes r.tipNames c.tipNames then .res .err else
        match cmpLoopHM index tips sc (cidx.zip c.splits) ⟨0, 0, true⟩ with
        | none => .panic
        | some st =>
          .res (.ok ⟨(total : Int) - st.common, st.common, (st.total2 : Int) - st.common,
                     st.same && st.total2 == total⟩)

/-- `Compare` as it was before fix e41ab42 (`err == nil` tested where `inerr` was meant): the loop
    runs on a tree with other taxa too, then the record carries `Err` -/
def compareHMFallthrough (H : String → UInt64) (policy : Nat → Nat → Bool) (r c : T) (tips sc : Bool) : HOut Stats :=
  match C04.reinit H r with
  | .err _ => .res .refErr
  | .ok (_, ridx) =>
    match buildHM policy ridx r.splits with
    | none => .panic
    | some index =>
      let total := r.splits.countP (counted tips)
      match C04.reinit H c with
      | .err _ => .res .err
      | .ok (_, cidx) =>
        -- algo.go: `if inerr = refTree.CompareTipIndexes(treeV.Tree); err == nil {` tests the outer
        -- `err` (nil here) instead of `inerr`: the loop runs on trees with other taxa too (bitsets
        -- of another width are looked up), and the record then carries both the counts and `Err`;
        -- a caller may only look at `Err`.
        match cmpLoopHM index tips sc (cidx.zip c.splits) ⟨0, 0, true⟩ with
        | none => .panic
        | some st =>
          if !compareTipIndexes r.tipNames c.tipNames then .res .err else
          .res (.ok ⟨(total : Int) - st.common, st.common, (st.total2 : Int) - st.common,
                     st.same && st.total2 == total⟩)

/-- first loop of `CompareWeighted` -/
def wLoop1HM (refIdx : EMap) (tips sc : Bool) :
    List (C04.EdgeIdx × SplitE) → Bool → Option (List Rat × List Rat × Bool)
  | [], same => some ([], [], same)
  | (k, e) :: rest, same =>
    if counted tips e then
      match refIdx.get ehash eeqv k with
      | none => none
      | some (some info) =>
        if info.len != e.e.len && sc then some ([], [], false)
        else
          match wLoop1HM refIdx tips sc rest (same && info.len == e.e.len) with
          | none => none
          | some (co, cp, s) => some ((info.len - e.e.len) :: co, cp, s)
      | some none =>
        if sc then some ([], [], false)
        else
          match wLoop1HM refIdx tips sc rest false with
          | none => none
          | some (co, cp, s) => some (co, e.e.len :: cp, s)
    else wLoop1HM refIdx tips sc rest same

/-- second loop of `CompareWeighted` -/
def wLoop2HM (compIdx : EMap) (tips sc : Bool) :
    List (C04.EdgeIdx × SplitE) → Bool → Option (List Rat × Bool)
  | [], same => some ([], same)
  | (k, e) :: rest, same =>
    if counted tips e then
      match compIdx.get ehash eeqv k with
      | none => none
      | some (some _) => wLoop2HM compIdx tips sc rest same
      | some none =>
        if sc then some ([], false)
        else
          match wLoop2HM compIdx tips sc rest false with
          | none => none
          | some (rf, s) => some (e.e.len :: rf, s)
    else wLoop2HM compIdx tips sc rest same

def compareWeightedHM (H : String → UInt64) (policy : Nat → Nat → Bool) (r c : T) (tips sc : Bool) : HOut WStats :=
  match C04.reinit H r with
  | .err _ => .res .refErr
  | .ok (_, ridx) =>
    match buildHM policy ridx r.splits with
    | none => .panic
    | some refIdx =>
      match C04.reinit H c with
      | .err _ => .res .err
      | .ok (_, cidx) =>
        match buildHM policy cidx c.splits with
        | none => .panic
        | some compIdx =>
          if !compareTipIndexes r.tipNames c.tipNames then .res .err else
          match wLoop1HM refIdx tips sc (cidx.zip c.splits) true with
          | none => .panic
          | some (co, cp, s1) =>
            match wLoop2HM compIdx tips sc (ridx.zip r.splits) s1 with
            | none => .panic
            | some (rf, s2) => .res (.ok ⟨rf, cp, co, s2⟩)

/-- `CompareWeighted` before fix e41ab42: both loops run whatever the taxon check said -/
def compareWeightedHMFallthrough (H : String → UInt64) (policy : Nat → Nat → Bool) (r c : T) (tips sc : Bool) : HOut WStats :=
  match C04.reinit H r with
  | .err _ => .res .refErr
  | .ok (_, ridx) =>
    match buildHM policy ridx r.splits with
    | none => .panic
    | some refIdx =>
      match C04.reinit H c with
      | .err _ => .res .err
      | .ok (_, cidx) =>
        match buildHM policy cidx c.splits with
        | none => .panic
        | some compIdx =>
          -- (same slip as in `Compare`: both loops run whatever `CompareTipIndexes` said)
          match wLoop1HM refIdx tips sc (cidx.zip c.splits) true with
          | none => .panic
          | some (co, cp, s1) =>
            match wLoop2HM compIdx tips sc (ridx.zip r.splits) s1 with
            | none => .panic
            | some (rf, s2) =>
              if !compareTipIndexes r.tipNames c.tipNames then .res .err else .res (.ok ⟨rf, cp, co, s2⟩)

end Gotree.C08
