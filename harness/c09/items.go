package c09

// Round 7: tree.Consensus on the channel it really reads.  An item of the channel is a tree or an
// error record (Trees.Err != nil, what utils.ReadMultiTrees delivers for an unreadable tree):
//
//	C09.items  kind  cutoff  floorGo  items|  class  resultdump  consumed  shape  raw
//
// `items`: every item followed by '|': the α dump of a tree, or '!' + the escaped message of an
// error record.  `consumed` = number of items Consensus has taken from the (buffered) channel when
// it returns (library runs; "-" for CLI runs), `shape` = what cmd/consensus.go wrote: "ok" when a
// successful run printed exactly one '\n'-terminated line ending in ';' and a failing run left a message on the
// error stream, otherwise a description ("-" for library runs).  `raw` = the escaped text a successful CLI run
// wrote, without its final newline ("-" otherwise): compared token by token with the Newick text of the literal model.
import (
	"errors"
	"fmt"
	"os"
	"strconv"
	"strings"
	"time"

	"verifharness/core"

	"github.com/evolbioinfo/gotree/io/newick"
	"github.com/evolbioinfo/gotree/tree"
)

// item of a collection: a tree (N != nil) or an error record with message Msg
type item struct {
	N   *core.N
	Msg string
}

func dumpItems(its []item) string {
	var b strings.Builder
	for _, it := range its {
		if it.N != nil {
			b.WriteString(it.N.Dump())
		} else {
			b.WriteString("!" + core.Escape(it.Msg))
		}
		b.WriteByte('|')
	}
	return b.String()
}

func parseItems(s string) []item {
	var its []item
	for _, d := range strings.Split(strings.TrimSuffix(s, "|"), "|") {
		if strings.TrimSpace(d) == "" {
			continue
		}
		if strings.HasPrefix(d, "!") {
			m, err := core.Unescape(d[1:])
			if err != nil {
				panic(err)
			}
			its = append(its, item{Msg: m})
			continue
		}
		n, err := core.ParseDump(d)
		if err != nil {
			panic(err)
		}
		its = append(its, item{N: n})
	}
	return its
}

func countTrees(its []item) int {
	k := 0
	for _, it := range its {
		if it.N != nil {
			k++
		}
	}
	return k
}

// runLibItems feeds tree.Consensus a buffered channel holding every item.
func runLibItems(its []item, cutoff float64) (class, res string, consumed int) {
	ch := make(chan tree.Trees, len(its)+1)
	for i, it := range its {
		if it.N == nil {
			ch <- tree.Trees{Err: errors.New(it.Msg), Id: i}
			continue
		}
		t, err := core.Build(it.N)
		if err != nil {
			panic(err)
		}
		ch <- tree.Trees{Tree: t, Id: i}
	}
	close(ch)
	var cons *tree.Tree
	var err error
	p, msg := core.Safe(func() { cons, err = tree.Consensus(ch, cutoff) })
	consumed = len(its) - len(ch)
	if p {
		return "panic:" + core.Escape(msg), "", consumed
	}
	if err != nil {
		for _, it := range its {
			if it.N == nil && err.Error() == it.Msg {
				return "err:input:" + core.Escape(it.Msg), "", consumed
			}
		}
		return classify(err), "", consumed
	}
	back, wf := core.Alpha(cons)
	if !wf.OK() {
		return "malformed:" + core.Escape(strings.Join(wf.Problems, ";")), "", consumed
	}
	return "ok", back.Dump(), consumed
}

// unreadable tree texts for the CLI: each one makes the Newick reader deliver an error record and NO tree
// (a text with a readable prefix such as "(a,b))(;" is delivered as a tree followed by a record: C13's business)
var badNewicks = []string{"(a,b;", "(a,(b,c);", "(a:1:2:3:4,b);", "(zz,(a,b);", "(a,b,(c,d);"}

// runCLIItems pushes the items through `gotree compute consensus`; an error record becomes a line
// that the Newick reader cannot parse.  mode as in runCLI (Nexus is not used here).
func runCLIItems(c *core.Ctx, its []item, ftext string, mode int) (class, res, shape, raw string) {
	var b strings.Builder
	for _, it := range its {
		if it.N == nil {
			b.WriteString(it.Msg)
			b.WriteByte('\n')
			continue
		}
		t, err := core.Build(it.N)
		if err != nil {
			panic(err)
		}
		b.WriteString(t.Newick())
		b.WriteByte('\n')
	}
	args := []string{"compute", "consensus"}
	stdin := ""
	if mode&cliStdin != 0 {
		stdin = b.String()
	} else {
		args = append(args, "-i", c.TmpFile(b.String()))
	}
	outfile := ""
	if mode&cliOut != 0 {
		outfile = c.TmpFile("")
		args = append(args, "-o", outfile)
	}
	if ftext != "" {
		args = append(args, "-f", ftext)
	}
	r := c.RunCLI(stdin, 30*time.Second, args...)
	if r.Timeout {
		return "timeout", "", "-", "-"
	}
	if r.Exit != 0 {
		// (the root command prints the error once more on the standard output: not this command's business)
		shape = "ok"
		if strings.TrimSpace(r.Stderr) == "" {
			shape = "no-message-on-error"
		}
		switch {
		case strings.Contains(r.Stderr, "min frequency"):
			return "err:range", "", shape, "-"
		case strings.Contains(r.Stderr, "same set of tips"):
			return "err:taxa", "", shape, "-"
		case strings.Contains(r.Stderr, "invalid argument"):
			return "err:flag", "", shape, "-"
		case strings.Contains(r.Stderr, "panic:") || strings.Contains(r.Stderr, "goroutine "):
			return "panic:cli", "", shape, "-"
		}
		return "err:input:" + core.Escape(firstLine(r.Stderr)), "", shape, "-"
	}
	out := r.Stdout
	if mode&cliOut != 0 {
		data, err := os.ReadFile(outfile)
		if err != nil {
			return "malformed:no-output-file", "", "-", "-"
		}
		if r.Stdout != "" {
			return "malformed:stdout-not-empty-with-o", "", "-", "-"
		}
		out = string(data)
	}
	shape = "ok"
	if !strings.HasSuffix(out, "\n") || strings.Count(out, "\n") != 1 || !strings.HasSuffix(strings.TrimSuffix(out, "\n"), ";") {
		shape = "not-one-line:" + core.Escape(fmt.Sprintf("%d bytes, %d newlines", len(out), strings.Count(out, "\n")))
	}
	t, err := newick.NewParser(strings.NewReader(strings.TrimSpace(out))).Parse()
	if err != nil {
		return "malformed:unparsable-output", "", shape, "-"
	}
	back, wf := core.Alpha(t)
	if !wf.OK() {
		return "malformed:" + core.Escape(strings.Join(wf.Problems, ";")), "", shape, "-"
	}
	return "ok", back.Dump(), shape, core.Escape(strings.TrimSuffix(out, "\n"))
}

func emitItems(c *core.Ctx, kind string, its []item, cutoff float64) {
	n := countTrees(its)
	if strings.HasPrefix(kind, "cli") {
		if c.Gotree == "" {
			return
		}
		mode := 0
		if strings.Contains(kind, "-stdin") {
			mode |= cliStdin
		}
		if strings.Contains(kind, "-out") {
			mode |= cliOut
		}
		class, res, shape, raw := runCLIItems(c, its, strconv.FormatFloat(cutoff, 'g', -1, 64), mode)
		c.Emit("C09.items", kind, core.Rat(cutoff), fmt.Sprint(floorGo(cutoff, n)), dumpItems(its), class, res, "-", shape, raw)
		return
	}
	class, res, consumed := runLibItems(its, cutoff)
	c.Emit("C09.items", kind, core.Rat(cutoff), fmt.Sprint(floorGo(cutoff, n)), dumpItems(its), class, res, fmt.Sprint(consumed), "-", "-")
}

// genItems: a collection with error records at random places (before every tree, between two
// trees, after the last one, several of them), sometimes together with a tree that bears a
// differing taxon (before or after the record: the first obstacle decides), sometimes with a
// threshold outside the range (the range check comes first), sometimes with no record at all.
func genItems(c *core.Ctx, cli bool) {
	g := c.G
	funny = false
	ns, o := collection(g)
	n := len(ns)
	cutoff := 0.5 + float64(g.Intn(33))/64
	kind := "lib-items"
	if cli {
		kind = "cli-items"
		if g.Chance(0.5) {
			kind += "-stdin"
		}
		if g.Chance(0.4) {
			kind += "-out"
		}
	}
	if g.Chance(0.1) {
		cutoff = []float64{0.25, 1.5, 0, 2}[g.Intn(4)]
		kind += "-range"
	}
	if g.Chance(0.2) { // a differing taxon in one tree
		i := g.Intn(n)
		tips := ns[i].TipNames()
		if g.Chance(0.5) {
			renameTip(ns[i], tips[g.Intn(len(tips))], "zz")
		} else {
			e := core.NewE()
			e.Len = g.Length(&o)
			ns[i].Kids = append(ns[i].Kids, &core.N{Name: "zz", E: e})
		}
		kind += "-taxa"
	}
	nbad := []int{0, 1, 1, 1, 1, 2, 3}[g.Intn(7)]
	if cli && g.Chance(0.5) { // a clean run: the text written by cmd/consensus.go is compared with the literal model's
		nbad = 0
	}
	var its []item
	for _, t := range ns {
		its = append(its, item{N: t})
	}
	for k := 0; k < nbad; k++ {
		pos := g.Intn(len(its) + 1)
		switch g.Intn(4) {
		case 0:
			pos = 0
		case 1:
			pos = len(its)
		}
		msg := fmt.Sprintf("verif-input-error-%d", k)
		if cli {
			msg = badNewicks[g.Intn(len(badNewicks))]
		}
		its = append(its[:pos], append([]item{{Msg: msg}}, its[pos:]...)...)
	}
	if nbad == 0 {
		kind += "-clean"
	}
	emitItems(c, kind, its, cutoff)
}

func replayItems(c *core.Ctx, f []string) {
	cutoff, err := core.ParseRat(f[2])
	if err != nil {
		panic(err)
	}
	emitItems(c, f[1], parseItems(f[4]), cutoff)
}
