// Package c14: distance matrices and length-threshold clusters.
package c14

import (
	"fmt"
	"math/big"
	"sort"
	"strings"
	"time"

	"verifharness/core"

	"github.com/evolbioinfo/gotree/tree"
)

var metricNames = []string{"brlen", "boots", "none"}

func names(ns []*tree.Node) []string {
	out := make([]string, len(ns))
	for i, n := range ns {
		out[i] = n.Name()
	}
	return out
}

func opts(g *core.G) core.TreeOpts {
	o := core.DefaultOpts()
	o.Lengths = 2
	o.Supports = 2
	if g.Chance(0.2) {
		o.Singles = 0.15
	}
	if g.Chance(0.1) {
		o.MinTips, o.MaxTips = 2, 3
	}
	return o
}

func metricIndex(s string) int {
	for i, m := range metricNames {
		if m == s {
			return i
		}
	}
	return 0
}

// Replay re-executes the requests of a corpus / replay file on the real code.
func Replay(c *core.Ctx, lines []string) {
	for _, l := range lines {
		f := strings.Split(l, "\t")
		switch {
		case f[0] == "C14.matrix" && len(f) >= 3:
			n, err := core.ParseDump(f[2])
			if err != nil {
				panic(err)
			}
			doMatrix(c, false, metricIndex(f[1]), n)
		case f[0] == "C14.cut" && len(f) >= 3:
			n, err := core.ParseDump(f[2])
			if err != nil {
				panic(err)
			}
			thr, _ := core.ParseRat(f[1])
			doCut(c, false, thr, n)
		case f[0] == "C14.avg" && len(f) >= 3:
			var ns []*core.N
			for _, d := range strings.Split(strings.TrimSuffix(f[2], "|"), "|") {
				n, err := core.ParseDump(d)
				if err != nil {
					panic(err)
				}
				ns = append(ns, n)
			}
			doAvg(c, metricIndex(f[1]), ns)
		}
	}
}

// Run generates the cases of C14.
func Run(c *core.Ctx) {
	if c.Arg != "" {
		Replay(c, core.ReadRequests(c.Arg))
		return
	}
	n := c.Scale(600, 20000)
	for i := 0; i < n; i++ {
		switch {
		case i%3 == 0:
			matrixCase(c, false)
		case i%3 == 1:
			cutCase(c, false)
		default:
			avgCase(c)
		}
	}
	if c.Gotree != "" {
		m := c.Scale(30, 600)
		for i := 0; i < m; i++ {
			if i%2 == 0 {
				matrixCase(c, true)
			} else {
				cutCase(c, true)
			}
		}
	}
}

// rootAtTip re-presents the tree with one of the root's leaf children as the root: a root
// with a single neighbour that is itself a tip (what `Reroot` on a tip's branch, `UnRoot` on a
// cherry or reading "(a,(b,c));" rooted at a leaf produce).  Returns n unchanged when the root
// has no leaf child or would leave a single-child inner node.
func rootAtTip(g *core.G, n *core.N) *core.N {
	if len(n.Kids) < 3 {
		return n
	}
	var idx []int
	for i, k := range n.Kids {
		if len(k.Kids) == 0 {
			idx = append(idx, i)
		}
	}
	if len(idx) == 0 {
		return n
	}
	i := idx[g.Intn(len(idx))]
	leaf := n.Kids[i]
	inner := &core.N{Name: n.Name, Comments: n.Comments, PPos: 0, E: leaf.E}
	inner.Kids = append(inner.Kids, n.Kids[:i]...)
	inner.Kids = append(inner.Kids, n.Kids[i+1:]...)
	return &core.N{Name: leaf.Name, Comments: leaf.Comments, Kids: []*core.N{inner}}
}

func matrixCase(c *core.Ctx, cli bool) {
	o := opts(c.G)
	if cli {
		o.Singles = 0
		o.MinTips = 3
	}
	n, _ := c.G.Tree(o)
	if !cli && c.G.Chance(0.12) {
		n = rootAtTip(c.G, n)
	}
	metric := c.G.Intn(3)
	doMatrix(c, cli, metric, n)
}

func doMatrix(c *core.Ctx, cli bool, metric int, n *core.N) {
	t, err := core.Build(n)
	if err != nil {
		panic(err)
	}
	if cli {
		file := c.TmpFile(t.Newick() + "\n")
		mname := map[int]string{0: "brlen", 1: "boot", 2: "none"}[metric]
		r := c.RunCLI("", 20*time.Second, "matrix", "-i", file, "-m", mname)
		tips, mat, ok := parsePhylip(r.Stdout)
		if r.Exit != 0 || !ok {
			c.Emit("C14.matrix", metricNames[metric], n.Dump(), "CLIFAIL,", "")
			return
		}
		c.Emit("C14.matrix", metricNames[metric], n.Dump(), core.StrList(tips), mat)
		return
	}
	var mat [][]float64
	var tips []*tree.Node
	if p, msg := core.Safe(func() { mat, tips = t.ToDistanceMatrix(metric) }); p {
		c.Emit("C14.matrix", metricNames[metric], n.Dump(), "PANIC,"+core.Escape(msg)+",", "")
		return
	}
	c.Emit("C14.matrix", metricNames[metric], n.Dump(), core.StrList(names(tips)), core.RatMatrix(mat))
}

// parsePhylip reads the output of `gotree matrix` into exact rationals.
func parsePhylip(s string) ([]string, string, bool) {
	lines := strings.Split(strings.TrimRight(s, "\n"), "\n")
	if len(lines) < 1 {
		return nil, "", false
	}
	var tips []string
	var b strings.Builder
	for _, l := range lines[1:] {
		f := strings.Split(l, "\t")
		tips = append(tips, f[0])
		for _, v := range f[1:] {
			r := new(big.Rat)
			if _, ok := r.SetString(v); !ok {
				return nil, "", false
			}
			b.WriteString(r.RatString())
			b.WriteByte(',')
		}
		b.WriteByte(';')
	}
	return tips, b.String(), true
}

func avgCase(c *core.Ctx) {
	o := opts(c.G)
	o.Singles = 0
	o.MinTips = 3
	k := 1 + c.G.Intn(4)
	first, _ := c.G.Tree(o)
	ns := []*core.N{first}
	ntips := len(first.TipNames())
	mismatch := c.G.Chance(0.15)
	for i := 1; i < k; i++ {
		o2 := o
		o2.MinTips, o2.MaxTips = ntips, ntips
		if mismatch && i == k-1 {
			o2.TipPrefix = "u"
		}
		x, _ := c.G.Tree(o2)
		ns = append(ns, x)
	}
	metric := c.G.Intn(3)
	doAvg(c, metric, ns)
}

func doAvg(c *core.Ctx, metric int, ns []*core.N) {
	ch := make(chan tree.Trees, len(ns))
	for i, n := range ns {
		t, err := core.Build(n)
		if err != nil {
			panic(err)
		}
		ch <- tree.Trees{Tree: t, Id: i}
	}
	close(ch)
	var mat [][]float64
	var tips []*tree.Node
	var err error
	if p, msg := core.Safe(func() { mat, tips, err = tree.AvgDistanceMatrix(metric, ch) }); p {
		c.Emit("C14.avg", metricNames[metric], core.Dumps(ns), "panic:"+core.Escape(msg), "", "")
		return
	}
	if err != nil {
		c.Emit("C14.avg", metricNames[metric], core.Dumps(ns), "err", "", "")
		return
	}
	c.Emit("C14.avg", metricNames[metric], core.Dumps(ns), "ok", core.StrList(names(tips)), core.RatMatrix(mat))
}

func cutCase(c *core.Ctx, cli bool) {
	o := opts(c.G)
	o.Lengths = 2
	if cli {
		o.Singles = 0
		o.MinTips = 3
	}
	n, _ := c.G.Tree(o)
	if !cli && c.G.Chance(0.15) {
		n = rootAtTip(c.G, n)
	}
	// threshold drawn from the values present (ties), or in between
	var lens []float64
	var rec func(x *core.N)
	rec = func(x *core.N) {
		for _, k := range x.Kids {
			if k.E.Len >= 0 {
				lens = append(lens, k.E.Len)
			}
			rec(k)
		}
	}
	rec(n)
	thr := float64(c.G.Intn(o.LenMax)) / float64(o.LenDenom)
	if len(lens) > 0 && c.G.Chance(0.6) {
		thr = lens[c.G.Intn(len(lens))]
		if c.G.Chance(0.3) {
			thr += 1.0 / 16
		}
	}
	doCut(c, cli, thr, n)
}

func doCut(c *core.Ctx, cli bool, thr float64, n *core.N) {
	t, err := core.Build(n)
	if err != nil {
		panic(err)
	}
	if cli {
		file := c.TmpFile(t.Newick() + "\n")
		r := c.RunCLI("", 20*time.Second, "brlen", "cut", "-i", file, "-l", fmt.Sprintf("%v", thr))
		if r.Exit != 0 {
			c.Emit("C14.cut", core.Rat(thr), n.Dump(), "clifail", "")
			return
		}
		var bags [][]string
		for _, l := range strings.Split(strings.TrimRight(r.Stdout, "\n"), "\n") {
			f := strings.Split(l, "\t")
			if len(f) == 3 {
				bags = append(bags, strings.Split(f[2], ","))
			}
		}
		c.Emit("C14.cut", core.Rat(thr), n.Dump(), "ok", core.StrLists(bags))
		return
	}
	var bags []*tree.TipBag
	if p, msg := core.Safe(func() { bags, err = t.CutEdgesMaxLength(thr) }); p {
		c.Emit("C14.cut", core.Rat(thr), n.Dump(), "panic:"+core.Escape(msg), "")
		return
	}
	if err != nil {
		c.Emit("C14.cut", core.Rat(thr), n.Dump(), "err", "")
		return
	}
	var out [][]string
	for _, b := range bags {
		nm := names(b.Tips())
		sort.Strings(nm)
		out = append(out, nm)
	}
	c.Emit("C14.cut", core.Rat(thr), n.Dump(), "ok", core.StrLists(out))
}
