/-
  C03 — the shape of the table regenerated from the source by harness/c03/extract.go
  (`vh gen-tables` → Gotree/Gen/C03Source.lean).  Core Lean only.

  One row per reviewed function of package tree: which functions of the package it calls
  (accessors left out), which fields of Node / Edge / Tree it assigns directly, and which
  comparisons of a number of neighbours with an integer literal it makes (normalised to
  `== != >= <=` with the literal on the right).  These are facts the hand-written models of
  Model/C03.lean and Model/C03Ops.lean silently assume; `source_facts_check` (Proofs/C03.lean)
  re-decides on every run that they still hold of the working tree.
-/
namespace Gotree.C03

structure FnFacts where
  fn : String                      -- "Receiver.name"
  found : Bool                     -- the function still exists under that name
  calls : List String              -- sorted set
  writes : List String             -- sorted set
  degTests : List (String × Int)   -- sorted set
  deriving DecidableEq, Repr

/-- the row of a function (`none` when it is not in the table) -/
def factsOf (tbl : List FnFacts) (fn : String) : Option FnFacts := tbl.find? (·.fn == fn)

/-- the five enumerations with their recursions, and the two writers: the functions through which
    the property OBSERVES the tree -/
def observers : List String :=
  ["Tree.Edges", "Tree.edgesRecur", "Tree.InternalEdges", "Tree.internalEdgesRecur", "Tree.TipEdges",
   "Tree.tipEdgesRecur", "Tree.Nodes", "Tree.nodesRecur", "Tree.Tips", "Tree.tipsRecur", "Node.Tip", "Node.Nneigh",
   "Tree.Rooted", "Node.Newick", "Tree.Newick"]

/-- an observer assigns no field of the tree -/
def observersPure (tbl : List FnFacts) : Bool :=
  observers.all fun f => match factsOf tbl f with
    | some r => r.found && r.writes.isEmpty
    | none => false

/-- each enumeration goes through its OWN recursion only (defect F8: `internalEdgesRecur` continued
    through `edgesRecur`) -/
def recursionsClosed (tbl : List FnFacts) : Bool :=
  [("Tree.Edges", "edgesRecur"), ("Tree.edgesRecur", "edgesRecur"),
   ("Tree.InternalEdges", "internalEdgesRecur"), ("Tree.internalEdgesRecur", "internalEdgesRecur"),
   ("Tree.TipEdges", "tipEdgesRecur"), ("Tree.tipEdgesRecur", "tipEdgesRecur"),
   ("Tree.Nodes", "nodesRecur"), ("Tree.nodesRecur", "nodesRecur"),
   ("Tree.Tips", "tipsRecur"), ("Tree.tipsRecur", "tipsRecur")].all fun p =>
    match factsOf tbl p.1 with
    | some r => r.calls == [p.2]
    | none => false

/-- the degree constants the models use: a tip has ONE neighbour, a rooted tree's root TWO, RerootFirst
    looks for THREE, Resolve works on nodes with at least FOUR, single nodes have TWO, Reroot refuses
    nodes with at most ONE, the recursions of the branch enumerations descend below nodes with at
    least TWO -/
def degreeConstants (tbl : List FnFacts) : Bool :=
  [("Node.Tip", [("==", (1 : Int))]), ("Tree.Rooted", [("==", 2)]), ("Tree.RerootFirst", [("==", 3)]),
   ("Tree.resolveRecur", [(">=", 4)]), ("Tree.removeSingleNodesRecur", [("==", 2)]),
   ("Tree.Reroot", [("<=", 1)]), ("Tree.reroot_nocheck", [("<=", 1)]),
   ("Tree.edgesRecur", [(">=", 2)]), ("Tree.internalEdgesRecur", [(">=", 2)]), ("Tree.tipEdgesRecur", [(">=", 2)]),
   ("Node.Newick", [(">=", 1), (">=", 2)]), ("Tree.RemoveEdges", [("==", 2)])].all fun p =>
    match factsOf tbl p.1 with
    | some r => r.degTests == p.2
    | none => false

end Gotree.C03
