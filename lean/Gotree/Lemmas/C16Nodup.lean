/-
  C16 — the enumeration never returns the same topology twice (helper lemmas).

  Canonical form of a tree seen from its root: the family of leaf sets below its branches
  (`belowFam`).  Two families are the same topology when each member of one is, as a set, a
  member of the other (`FamEq`, the Prop twin of Spec's `famEq`).
-/
import Gotree.Lemmas.C16Shape

namespace Gotree.C16
open Gotree

/-! ### leaf sets below the branches -/

mutual
def belowsT : T → List (List String)
  | .node _ _ ks => belowsL ks
def belowsL : Kids → List (List String)
  | [] => []
  | (_, t) :: r => t.leaves :: (belowsT t ++ belowsL r)
end

mutual
theorem belowsT_eq : ∀ (t : T), belowsT t = t.splitsBelow.map (·.below)
  | .node d p ks => by simp only [belowsT, T.splitsBelow]; exact belowsL_eq ks
theorem belowsL_eq : ∀ (ks : Kids), belowsL ks = (splitsL ks).map (·.below)
  | [] => rfl
  | (e, t) :: r => by simp only [belowsL, splitsL, List.map_cons, List.map_append, belowsT_eq t, belowsL_eq r]
end

theorem belowFam_eq (t : T) : belowFam t = belowsL t.kids := by
  simp [belowFam, T.splits, belowsL_eq]

theorem leaves_ne_nil : ∀ (t : T), t.leaves ≠ []
  | .node d p [] => by simp [T.leaves]
  | .node d p ((e, t) :: r) => by
    rw [leaves_node_cons]; simp only [leavesL]
    intro h
    exact leaves_ne_nil t (List.append_eq_nil_iff.mp h).1

/- every member of the family lies inside the leaves -/
mutual
theorem belowsT_sub : ∀ (t : T) (S : List String), S ∈ belowsT t → ∀ y ∈ S, y ∈ t.leaves
  | .node d p [], S, h => by simp [belowsT, belowsL] at h
  | .node d p ((e, t) :: r), S, h => by
    rw [leaves_node_cons]
    exact belowsL_sub ((e, t) :: r) S h
theorem belowsL_sub : ∀ (ks : Kids) (S : List String), S ∈ belowsL ks → ∀ y ∈ S, y ∈ leavesL ks
  | [], S, h => by simp [belowsL] at h
  | (e, t) :: r, S, h => by
    intro y hy
    simp only [belowsL, List.mem_cons, List.mem_append] at h
    simp only [leavesL, List.mem_append]
    rcases h with rfl | h | h
    · exact Or.inl hy
    · exact Or.inl (belowsT_sub t S h y hy)
    · exact Or.inr (belowsL_sub r S h y hy)
end

mutual
theorem belowsT_ne_nil : ∀ (t : T) (S : List String), S ∈ belowsT t → S ≠ []
  | .node d p ks, S, h => belowsL_ne_nil ks S h
theorem belowsL_ne_nil : ∀ (ks : Kids) (S : List String), S ∈ belowsL ks → S ≠ []
  | [], S, h => by simp [belowsL] at h
  | (e, t) :: r, S, h => by
    simp only [belowsL, List.mem_cons, List.mem_append] at h
    rcases h with rfl | h | h
    · exact leaves_ne_nil t
    · exact belowsT_ne_nil t S h
    · exact belowsL_ne_nil r S h
end

/-! ### what a graft does to the family, seen after erasing the new tip -/

theorem filter_ne_self (x : String) (l : List String) (h : x ∉ l) : l.filter (· != x) = l := by
  apply List.filter_eq_self.mpr
  intro a ha
  simp only [bne_iff_ne, ne_eq]
  intro hax; exact h (hax ▸ ha)

theorem graft_leaves (x : String) (l0 l1 l2 : Rat) (e : EdgeD) (c : T) :
    (graftLen x l0 l1 l2 (e, c)).2.leaves = x :: c.leaves := by
  rw [graftLen_eq]; simp [T.leaves, leavesL, T.leaf]

theorem graft_belows (x : String) (l0 l1 l2 : Rat) (e : EdgeD) (c : T) :
    belowsT (graftLen x l0 l1 l2 (e, c)).2 = [x] :: c.leaves :: belowsT c := by
  rw [graftLen_eq]; simp [belowsT, belowsL, T.leaves, T.leaf]

mutual
theorem leaves_applyAt_filter (x : String) (l0 l1 l2 : Rat) : ∀ (t : T) (k : Nat), k < numEdges t → x ∉ t.leaves →
    ((applyAt (graftLen x l0 l1 l2) k t).leaves).filter (· != x) = t.leaves
  | .node d p ks, k, h, hx => by
    simp only [applyAt, numEdges] at *
    have hp := numEdgesL_pos_length ks (by omega)
    rw [leaves_node_of_pos _ _ _ hp] at hx ⊢
    rw [leaves_node_of_pos _ _ _ (by rw [applyAtL_length]; exact hp)]
    exact leavesL_applyAtL_filter x l0 l1 l2 ks k h hx
theorem leavesL_applyAtL_filter (x : String) (l0 l1 l2 : Rat) : ∀ (ks : Kids) (k : Nat), k < numEdgesL ks →
    x ∉ leavesL ks → (leavesL (applyAtL (graftLen x l0 l1 l2) k ks)).filter (· != x) = leavesL ks
  | [], k, h, _ => by simp [numEdgesL] at h
  | (e, t) :: r, k, h, hx => by
    simp only [leavesL, List.mem_append, not_or] at hx
    unfold applyAtL
    split
    · cases hg : graftLen x l0 l1 l2 (e, t) with
      | mk e' t' =>
        have hl := graft_leaves x l0 l1 l2 e t
        rw [hg] at hl; simp only at hl
        simp only [leavesL, hl, List.filter_append, List.filter_cons, bne_self_eq_false, Bool.false_eq_true, if_false,
          filter_ne_self x _ hx.1, filter_ne_self x _ hx.2]
    · split
      · rename_i h1 h2
        simp only [leavesL, List.filter_append, leaves_applyAt_filter x l0 l1 l2 t (k - 1) h2 hx.1,
          filter_ne_self x _ hx.2]
      · rename_i h1 h2
        simp only [numEdgesL] at h
        simp only [leavesL, List.filter_append, filter_ne_self x _ hx.1,
          leavesL_applyAtL_filter x l0 l1 l2 r (k - 1 - numEdges t) (by omega) hx.2]
end

theorem belowsT_filter (x : String) (t : T) (hx : x ∉ t.leaves) (S : List String) (h : S ∈ belowsT t) :
    S.filter (· != x) = S :=
  filter_ne_self x S (fun hm => hx (belowsT_sub t S h x hm))

theorem belowsL_filter (x : String) (ks : Kids) (hx : x ∉ leavesL ks) (S : List String) (h : S ∈ belowsL ks) :
    S.filter (· != x) = S :=
  filter_ne_self x S (fun hm => hx (belowsL_sub ks S h x hm))

/- (i) every old member is the trace of a new member -/
mutual
theorem belowsT_graft_old (x : String) (l0 l1 l2 : Rat) : ∀ (t : T) (k : Nat), k < numEdges t → x ∉ t.leaves →
    ∀ S ∈ belowsT t, ∃ S' ∈ belowsT (applyAt (graftLen x l0 l1 l2) k t), S'.filter (· != x) = S
  | .node d p ks, k, h, hx, S, hS => by
    simp only [applyAt, numEdges, belowsT] at *
    have hp := numEdgesL_pos_length ks (by omega)
    rw [leaves_node_of_pos _ _ _ hp] at hx
    exact belowsL_graft_old x l0 l1 l2 ks k h hx S hS
theorem belowsL_graft_old (x : String) (l0 l1 l2 : Rat) : ∀ (ks : Kids) (k : Nat), k < numEdgesL ks → x ∉ leavesL ks →
    ∀ S ∈ belowsL ks, ∃ S' ∈ belowsL (applyAtL (graftLen x l0 l1 l2) k ks), S'.filter (· != x) = S
  | [], k, h, _, _, _ => by simp [numEdgesL] at h
  | (e, t) :: r, k, h, hx, S, hS => by
    simp only [leavesL, List.mem_append, not_or] at hx
    simp only [belowsL, List.mem_cons, List.mem_append] at hS
    unfold applyAtL
    split
    · cases hg : graftLen x l0 l1 l2 (e, t) with
      | mk e' t' =>
        have hl := graft_leaves x l0 l1 l2 e t
        have hb := graft_belows x l0 l1 l2 e t
        rw [hg] at hl hb; simp only at hl hb
        simp only [belowsL, hl, hb, List.mem_cons, List.mem_append]
        rcases hS with rfl | hS | hS
        · exact ⟨x :: t.leaves, Or.inl rfl, by simp [filter_ne_self x _ hx.1]⟩
        · exact ⟨S, Or.inr (Or.inl (Or.inr (Or.inr hS))), belowsT_filter x t hx.1 S hS⟩
        · exact ⟨S, Or.inr (Or.inr hS), belowsL_filter x r hx.2 S hS⟩
    · split
      · rename_i h1 h2
        simp only [belowsL, List.mem_cons, List.mem_append]
        rcases hS with rfl | hS | hS
        · exact ⟨_, Or.inl rfl, leaves_applyAt_filter x l0 l1 l2 t (k - 1) h2 hx.1⟩
        · obtain ⟨S', hS', hf⟩ := belowsT_graft_old x l0 l1 l2 t (k - 1) h2 hx.1 S hS
          exact ⟨S', Or.inr (Or.inl hS'), hf⟩
        · exact ⟨S, Or.inr (Or.inr hS), belowsL_filter x r hx.2 S hS⟩
      · rename_i h1 h2
        simp only [numEdgesL] at h
        simp only [belowsL, List.mem_cons, List.mem_append]
        rcases hS with rfl | hS | hS
        · exact ⟨_, Or.inl rfl, filter_ne_self x _ hx.1⟩
        · exact ⟨S, Or.inr (Or.inl hS), belowsT_filter x t hx.1 S hS⟩
        · obtain ⟨S', hS', hf⟩ := belowsL_graft_old x l0 l1 l2 r (k - 1 - numEdges t) (by omega) hx.2 S hS
          exact ⟨S', Or.inr (Or.inr hS'), hf⟩
end

/- (ii) every new member leaves, after erasing the new tip, nothing or an old member -/
mutual
theorem belowsT_graft_new (x : String) (l0 l1 l2 : Rat) : ∀ (t : T) (k : Nat), k < numEdges t → x ∉ t.leaves →
    ∀ S' ∈ belowsT (applyAt (graftLen x l0 l1 l2) k t), S'.filter (· != x) = [] ∨ S'.filter (· != x) ∈ belowsT t
  | .node d p ks, k, h, hx, S, hS => by
    simp only [applyAt, numEdges, belowsT] at *
    have hp := numEdgesL_pos_length ks (by omega)
    rw [leaves_node_of_pos _ _ _ hp] at hx
    exact belowsL_graft_new x l0 l1 l2 ks k h hx S hS
theorem belowsL_graft_new (x : String) (l0 l1 l2 : Rat) : ∀ (ks : Kids) (k : Nat), k < numEdgesL ks → x ∉ leavesL ks →
    ∀ S' ∈ belowsL (applyAtL (graftLen x l0 l1 l2) k ks), S'.filter (· != x) = [] ∨ S'.filter (· != x) ∈ belowsL ks
  | [], k, h, _, _, _ => by simp [numEdgesL] at h
  | (e, t) :: r, k, h, hx, S, hS => by
    simp only [leavesL, List.mem_append, not_or] at hx
    unfold applyAtL at hS
    split at hS
    · cases hg : graftLen x l0 l1 l2 (e, t) with
      | mk e' t' =>
        have hl := graft_leaves x l0 l1 l2 e t
        have hb := graft_belows x l0 l1 l2 e t
        rw [hg] at hl hb hS; simp only at hl hb
        simp only [belowsL, hl, hb, List.mem_cons, List.mem_append] at hS
        simp only [belowsL, List.mem_cons, List.mem_append]
        rcases hS with rfl | (rfl | rfl | hS) | hS
        · right; left; simp [filter_ne_self x _ hx.1]
        · left; simp
        · right; left; exact filter_ne_self x _ hx.1
        · right; right; left; rw [belowsT_filter x t hx.1 S hS]; exact hS
        · right; right; right; rw [belowsL_filter x r hx.2 S hS]; exact hS
    · split at hS
      · rename_i h1 h2
        simp only [belowsL, List.mem_cons, List.mem_append] at hS ⊢
        rcases hS with rfl | hS | hS
        · right; left; exact leaves_applyAt_filter x l0 l1 l2 t (k - 1) h2 hx.1
        · rcases belowsT_graft_new x l0 l1 l2 t (k - 1) h2 hx.1 S hS with h0 | h0
          · left; exact h0
          · right; right; left; exact h0
        · right; right; right; rw [belowsL_filter x r hx.2 S hS]; exact hS
      · rename_i h1 h2
        simp only [numEdgesL] at h
        simp only [belowsL, List.mem_cons, List.mem_append] at hS ⊢
        rcases hS with rfl | hS | hS
        · right; left; exact filter_ne_self x _ hx.1
        · right; right; left; rw [belowsT_filter x t hx.1 S hS]; exact hS
        · rcases belowsL_graft_new x l0 l1 l2 r (k - 1 - numEdges t) (by omega) hx.2 S hS with h0 | h0
          · left; exact h0
          · right; right; right; exact h0
end

/-! ### equality of families, pruning back -/

def SetEq (a b : List String) : Prop := ∀ y, y ∈ a ↔ y ∈ b

def FamEq (A B : List (List String)) : Prop :=
  (∀ a ∈ A, ∃ b ∈ B, SetEq a b) ∧ (∀ b ∈ B, ∃ a ∈ A, SetEq a b)

theorem setEq_iff (a b : List String) : setEq a b = true ↔ SetEq a b := by
  unfold setEq SetEq
  simp only [Bool.and_eq_true, List.all_eq_true, List.contains_eq_mem, decide_eq_true_eq]
  constructor
  · intro h y; exact ⟨h.1 y, h.2 y⟩
  · intro h; exact ⟨fun y hy => (h y).mp hy, fun y hy => (h y).mpr hy⟩

theorem famEq_iff (A B : List (List String)) : famEq A B = true ↔ FamEq A B := by
  unfold famEq FamEq
  simp only [Bool.and_eq_true, List.all_eq_true, List.any_eq_true, setEq_iff]
  constructor
  · intro h
    refine ⟨h.1, fun b hb => ?_⟩
    obtain ⟨a, ha, hab⟩ := h.2 b hb
    exact ⟨a, ha, fun y => (hab y).symm⟩
  · intro h
    refine ⟨h.1, fun b hb => ?_⟩
    obtain ⟨a, ha, hab⟩ := h.2 b hb
    exact ⟨a, ha, fun y => (hab y).symm⟩

theorem SetEq.filter {a b : List String} (h : SetEq a b) (x : String) :
    SetEq (a.filter (· != x)) (b.filter (· != x)) := by
  intro y; simp only [List.mem_filter, h y]

theorem SetEq.ne_nil {a b : List String} (h : SetEq a b) (ha : a ≠ []) : b ≠ [] := by
  obtain ⟨y, hy⟩ := List.exists_mem_of_ne_nil a ha
  exact List.ne_nil_of_mem ((h y).mp hy)

theorem SetEq.symm {a b : List String} (h : SetEq a b) : SetEq b a := fun y => (h y).symm

/-- one direction of the pruning: members of `belows t₁` are found in `belows t₂` -/
theorem prune_half (x : String) (l0 l1 l2 : Rat) (ks1 ks2 : Kids) (k1 k2 : Nat)
    (h1 : k1 < numEdgesL ks1) (h2 : k2 < numEdgesL ks2) (hx1 : x ∉ leavesL ks1) (hx2 : x ∉ leavesL ks2)
    (h : ∀ a ∈ belowsL (applyAtL (graftLen x l0 l1 l2) k1 ks1),
      ∃ b ∈ belowsL (applyAtL (graftLen x l0 l1 l2) k2 ks2), SetEq a b) :
    ∀ a ∈ belowsL ks1, ∃ b ∈ belowsL ks2, SetEq a b := by
  intro a ha
  obtain ⟨a', ha', hfa⟩ := belowsL_graft_old x l0 l1 l2 ks1 k1 h1 hx1 a ha
  obtain ⟨b', hb', hab⟩ := h a' ha'
  have hne : a ≠ [] := belowsL_ne_nil ks1 a ha
  have hse : SetEq a (b'.filter (· != x)) := hfa ▸ hab.filter x
  rcases belowsL_graft_new x l0 l1 l2 ks2 k2 h2 hx2 b' hb' with h0 | h0
  · exact absurd h0 (hse.ne_nil hne)
  · exact ⟨_, h0, hse⟩

theorem prune_back (x : String) (l0 l1 l2 : Rat) (ks1 ks2 : Kids) (k1 k2 : Nat)
    (h1 : k1 < numEdgesL ks1) (h2 : k2 < numEdgesL ks2) (hx1 : x ∉ leavesL ks1) (hx2 : x ∉ leavesL ks2)
    (h : FamEq (belowsL (applyAtL (graftLen x l0 l1 l2) k1 ks1)) (belowsL (applyAtL (graftLen x l0 l1 l2) k2 ks2))) :
    FamEq (belowsL ks1) (belowsL ks2) := by
  refine ⟨prune_half x l0 l1 l2 ks1 ks2 k1 k2 h1 h2 hx1 hx2 h.1, ?_⟩
  intro b hb
  have := prune_half x l0 l1 l2 ks2 ks1 k2 k1 h2 h1 hx2 hx1
    (fun b' hb' => by obtain ⟨a', ha', hab⟩ := h.2 b' hb'; exact ⟨a', ha', hab.symm⟩) b hb
  obtain ⟨a, ha, hab⟩ := this
  exact ⟨a, ha, hab.symm⟩

/-! ### the leaf set below the k-th branch -/

mutual
def belowAtT (k : Nat) : T → List String
  | .node _ _ ks => belowAtL k ks
def belowAtL (k : Nat) : Kids → List String
  | [] => []
  | (_, t) :: r =>
    if k = 0 then t.leaves
    else if k - 1 < numEdges t then belowAtT (k - 1) t
    else belowAtL (k - 1 - numEdges t) r
end

mutual
theorem belowAtT_mem : ∀ (t : T) (k : Nat), k < numEdges t → belowAtT k t ∈ belowsT t
  | .node d p ks, k, h => by
    simp only [belowAtT, belowsT, numEdges] at *; exact belowAtL_mem ks k h
theorem belowAtL_mem : ∀ (ks : Kids) (k : Nat), k < numEdgesL ks → belowAtL k ks ∈ belowsL ks
  | [], k, h => by simp [numEdgesL] at h
  | (e, t) :: r, k, h => by
    unfold belowAtL
    simp only [belowsL, List.mem_cons, List.mem_append]
    split
    · exact Or.inl rfl
    · split
      · rename_i h1 h2; exact Or.inr (Or.inl (belowAtT_mem t (k - 1) h2))
      · rename_i h1 h2
        simp only [numEdgesL] at h
        exact Or.inr (Or.inr (belowAtL_mem r (k - 1 - numEdges t) (by omega)))
end

theorem belowAtT_sub (t : T) (k : Nat) (h : k < numEdges t) : ∀ y ∈ belowAtT k t, y ∈ t.leaves :=
  belowsT_sub t _ (belowAtT_mem t k h)

theorem belowAtL_sub (ks : Kids) (k : Nat) (h : k < numEdgesL ks) : ∀ y ∈ belowAtL k ks, y ∈ leavesL ks :=
  belowsL_sub ks _ (belowAtL_mem ks k h)

theorem belowAtT_ne_nil (t : T) (k : Nat) (h : k < numEdges t) : belowAtT k t ≠ [] :=
  belowsT_ne_nil t _ (belowAtT_mem t k h)

theorem belowAtL_ne_nil (ks : Kids) (k : Nat) (h : k < numEdgesL ks) : belowAtL k ks ≠ [] :=
  belowsL_ne_nil ks _ (belowAtL_mem ks k h)

/- the upper half of the grafted branch carries the new tip and what was below -/
mutual
theorem graft_mem_T (x : String) (l0 l1 l2 : Rat) : ∀ (t : T) (k : Nat), k < numEdges t →
    (x :: belowAtT k t) ∈ belowsT (applyAt (graftLen x l0 l1 l2) k t)
  | .node d p ks, k, h => by
    simp only [belowAtT, belowsT, numEdges, applyAt] at *; exact graft_mem_L x l0 l1 l2 ks k h
theorem graft_mem_L (x : String) (l0 l1 l2 : Rat) : ∀ (ks : Kids) (k : Nat), k < numEdgesL ks →
    (x :: belowAtL k ks) ∈ belowsL (applyAtL (graftLen x l0 l1 l2) k ks)
  | [], k, h => by simp [numEdgesL] at h
  | (e, t) :: r, k, h => by
    unfold belowAtL applyAtL
    split
    · cases hg : graftLen x l0 l1 l2 (e, t) with
      | mk e' t' =>
        have hl := graft_leaves x l0 l1 l2 e t
        rw [hg] at hl; simp only at hl
        simp only [belowsL, hl, List.mem_cons, true_or]
    · split
      · rename_i h1 h2
        simp only [belowsL, List.mem_cons, List.mem_append]
        exact Or.inr (Or.inl (graft_mem_T x l0 l1 l2 t (k - 1) h2))
      · rename_i h1 h2
        simp only [numEdgesL] at h
        simp only [belowsL, List.mem_cons, List.mem_append]
        exact Or.inr (Or.inr (graft_mem_L x l0 l1 l2 r (k - 1 - numEdges t) (by omega)))
end

/- every member that contains the new tip is the new tip alone or contains what was below branch k -/
mutual
theorem graft_above_T (x : String) (l0 l1 l2 : Rat) : ∀ (t : T) (k : Nat), k < numEdges t → x ∉ t.leaves →
    ∀ S ∈ belowsT (applyAt (graftLen x l0 l1 l2) k t), x ∈ S → S = [x] ∨ ∀ y ∈ belowAtT k t, y ∈ S
  | .node d p ks, k, h, hx, S, hS, hxS => by
    simp only [belowAtT, belowsT, numEdges, applyAt] at *
    have hp := numEdgesL_pos_length ks (by omega)
    rw [leaves_node_of_pos _ _ _ hp] at hx
    exact graft_above_L x l0 l1 l2 ks k h hx S hS hxS
theorem graft_above_L (x : String) (l0 l1 l2 : Rat) : ∀ (ks : Kids) (k : Nat), k < numEdgesL ks → x ∉ leavesL ks →
    ∀ S ∈ belowsL (applyAtL (graftLen x l0 l1 l2) k ks), x ∈ S → S = [x] ∨ ∀ y ∈ belowAtL k ks, y ∈ S
  | [], k, h, _, _, _, _ => by simp [numEdgesL] at h
  | (e, t) :: r, k, h, hx, S, hS, hxS => by
    simp only [leavesL, List.mem_append, not_or] at hx
    unfold applyAtL at hS
    unfold belowAtL
    split at hS
    · rename_i h0
      simp only [h0, if_true]
      cases hg : graftLen x l0 l1 l2 (e, t) with
      | mk e' t' =>
        have hl := graft_leaves x l0 l1 l2 e t
        have hb := graft_belows x l0 l1 l2 e t
        rw [hg] at hl hb hS; simp only at hl hb
        simp only [belowsL, hl, hb, List.mem_cons, List.mem_append] at hS
        rcases hS with rfl | (rfl | rfl | hS) | hS
        · right; intro y hy; exact List.mem_cons_of_mem _ hy
        · left; rfl
        · exact absurd hxS hx.1
        · exact absurd (belowsT_sub t S hS x hxS) hx.1
        · exact absurd (belowsL_sub r S hS x hxS) hx.2
    · rename_i h0
      simp only [h0, if_false]
      split at hS
      · rename_i h2
        simp only [h2, if_true]
        simp only [belowsL, List.mem_cons, List.mem_append] at hS
        rcases hS with rfl | hS | hS
        · right; intro y hy
          have hy' := belowAtT_sub t (k - 1) h2 y hy
          exact (leaves_applyAt _ x (graftLen_leaves x l0 l1 l2) t (k - 1) h2).symm.subset (List.mem_cons_of_mem _ hy')
        · exact graft_above_T x l0 l1 l2 t (k - 1) h2 hx.1 S hS hxS
        · exact absurd (belowsL_sub r S hS x hxS) hx.2
      · rename_i h2
        simp only [h2, if_false]
        simp only [numEdgesL] at h
        simp only [belowsL, List.mem_cons, List.mem_append] at hS
        rcases hS with rfl | hS | hS
        · exact absurd hxS hx.1
        · exact absurd (belowsT_sub t S hS x hxS) hx.1
        · exact graft_above_L x l0 l1 l2 r (k - 1 - numEdges t) (by omega) hx.2 S hS hxS
end

/-! ### different branches of a binary tree with distinct leaves have different leaf sets -/

theorem not_setEq_of_disjoint (a b : List String) (A B : List String) (ha : a ≠ [])
    (hA : ∀ y ∈ a, y ∈ A) (hB : ∀ y ∈ b, y ∈ B) (hd : ∀ y, y ∈ A → y ∈ B → False) : ¬ SetEq a b := by
  intro h
  obtain ⟨y, hy⟩ := List.exists_mem_of_ne_nil a ha
  exact hd y (hA y hy) (hB y ((h y).mp hy))

theorem not_setEq_symm {a b : List String} (h : ¬ SetEq a b) : ¬ SetEq b a := fun h' => h h'.symm

theorem nodup_append_disjoint {a b : List String} (h : (a ++ b).Nodup) : ∀ y, y ∈ a → y ∈ b → False := by
  intro y ha hb
  rw [List.nodup_append] at h
  exact h.2.2 y ha y hb rfl

/-- below a branch of a binary subtree some leaf of the subtree is missing -/
theorem belowAtT_strict (t : T) (k : Nat) (hk : k < numEdges t) (hb : t.binaryBelow = true) (hn : t.leaves.Nodup) :
    ∃ y ∈ t.leaves, y ∉ belowAtT k t := by
  cases t with
  | node d p ks =>
    simp only [T.binaryBelow, Bool.and_eq_true, Bool.or_eq_true, beq_iff_eq] at hb
    simp only [numEdges] at hk
    have hp := numEdgesL_pos_length ks (by omega)
    have h2 : ks.length = 2 := by rcases hb.1 with h0 | h2 <;> omega
    match ks, h2 with
    | [(e1, a), (e2, b)], _ =>
      rw [leaves_node_cons] at hn ⊢
      simp only [leavesL, List.append_nil] at hn ⊢
      have hdis := nodup_append_disjoint hn
      simp only [belowAtT]
      unfold belowAtL
      split
      · obtain ⟨y, hy⟩ := List.exists_mem_of_ne_nil _ (leaves_ne_nil b)
        exact ⟨y, List.mem_append_right _ hy, fun h => hdis y h hy⟩
      · split
        · rename_i h0 h1
          obtain ⟨y, hy⟩ := List.exists_mem_of_ne_nil _ (leaves_ne_nil b)
          exact ⟨y, List.mem_append_right _ hy, fun h => hdis y (belowAtT_sub a (k - 1) h1 y h) hy⟩
        · rename_i h0 h1
          obtain ⟨y, hy⟩ := List.exists_mem_of_ne_nil _ (leaves_ne_nil a)
          refine ⟨y, List.mem_append_left _ hy, fun h => ?_⟩
          have hk2 : k - 1 - numEdges a < numEdgesL [(e2, b)] := by simp only [numEdgesL] at hk ⊢; omega
          have := belowAtL_sub [(e2, b)] _ hk2 y h
          simp only [leavesL, List.append_nil] at this
          exact hdis y hy this

mutual
theorem belowAtT_inj : ∀ (t : T) (k1 k2 : Nat), t.binaryBelow = true → t.leaves.Nodup →
    k1 < numEdges t → k2 < numEdges t → k1 ≠ k2 → ¬ SetEq (belowAtT k1 t) (belowAtT k2 t)
  | .node d p ks, k1, k2, hb, hn, h1, h2, hne => by
    simp only [T.binaryBelow, Bool.and_eq_true] at hb
    simp only [numEdges] at h1 h2
    have hp := numEdgesL_pos_length ks (by omega)
    rw [leaves_node_of_pos _ _ _ hp] at hn
    simp only [belowAtT]
    exact belowAtL_inj ks k1 k2 hb.2 hn h1 h2 hne
theorem belowAtL_inj : ∀ (ks : Kids) (k1 k2 : Nat), binaryL ks = true → (leavesL ks).Nodup →
    k1 < numEdgesL ks → k2 < numEdgesL ks → k1 ≠ k2 → ¬ SetEq (belowAtL k1 ks) (belowAtL k2 ks)
  | [], k1, _, _, _, h1, _, _ => by simp [numEdgesL] at h1
  | (e, t) :: r, k1, k2, hb, hn, h1, h2, hne => by
    simp only [binaryL, Bool.and_eq_true] at hb
    simp only [leavesL] at hn
    have hdis := nodup_append_disjoint hn
    have hnt : t.leaves.Nodup := (List.nodup_append.mp hn).1
    have hnr : (leavesL r).Nodup := (List.nodup_append.mp hn).2.1
    simp only [numEdgesL] at h1 h2
    unfold belowAtL
    by_cases a0 : k1 = 0
    · simp only [a0, if_true]
      by_cases b0 : k2 = 0
      · omega
      · simp only [b0, if_false]
        by_cases bt : k2 - 1 < numEdges t
        · simp only [bt, if_true]
          obtain ⟨y, hy, hny⟩ := belowAtT_strict t (k2 - 1) bt hb.1 hnt
          intro h; exact hny ((h y).mp hy)
        · simp only [bt, if_false]
          exact not_setEq_of_disjoint _ _ t.leaves (leavesL r) (leaves_ne_nil t) (fun y h => h)
            (belowAtL_sub r _ (by omega)) hdis
    · simp only [a0, if_false]
      by_cases at' : k1 - 1 < numEdges t
      · simp only [at', if_true]
        by_cases b0 : k2 = 0
        · simp only [b0, if_true]
          obtain ⟨y, hy, hny⟩ := belowAtT_strict t (k1 - 1) at' hb.1 hnt
          intro h; exact hny ((h y).mpr hy)
        · simp only [b0, if_false]
          by_cases bt : k2 - 1 < numEdges t
          · simp only [bt, if_true]
            exact belowAtT_inj t (k1 - 1) (k2 - 1) hb.1 hnt at' bt (by omega)
          · simp only [bt, if_false]
            exact not_setEq_of_disjoint _ _ t.leaves (leavesL r) (belowAtT_ne_nil t _ at') (belowAtT_sub t _ at')
              (belowAtL_sub r _ (by omega)) hdis
      · simp only [at', if_false]
        have hk1 : k1 - 1 - numEdges t < numEdgesL r := by omega
        by_cases b0 : k2 = 0
        · simp only [b0, if_true]
          exact not_setEq_symm (not_setEq_of_disjoint _ _ t.leaves (leavesL r) (leaves_ne_nil t) (fun y h => h)
            (belowAtL_sub r _ hk1) hdis)
        · simp only [b0, if_false]
          by_cases bt : k2 - 1 < numEdges t
          · simp only [bt, if_true]
            exact not_setEq_symm (not_setEq_of_disjoint _ _ t.leaves (leavesL r) (belowAtT_ne_nil t _ bt)
              (belowAtT_sub t _ bt) (belowAtL_sub r _ hk1) hdis)
          · simp only [bt, if_false]
            exact belowAtL_inj r _ _ hb.2 hnr hk1 (by omega) (by omega)
end

/-- grafting the same new tip on two different branches of the same tree gives two different families -/
theorem graft_branch_inj (x : String) (l0 l1 l2 : Rat) (ks : Kids) (k1 k2 : Nat) (hb : binaryL ks = true)
    (hn : (leavesL ks).Nodup) (hx : x ∉ leavesL ks) (h1 : k1 < numEdgesL ks) (h2 : k2 < numEdgesL ks)
    (h : FamEq (belowsL (applyAtL (graftLen x l0 l1 l2) k1 ks)) (belowsL (applyAtL (graftLen x l0 l1 l2) k2 ks))) :
    k1 = k2 := by
  apply Classical.byContradiction
  intro hne
  have half : ∀ (ka kb : Nat), ka < numEdgesL ks → kb < numEdgesL ks →
      (∀ a ∈ belowsL (applyAtL (graftLen x l0 l1 l2) ka ks),
        ∃ b ∈ belowsL (applyAtL (graftLen x l0 l1 l2) kb ks), SetEq a b) →
      ∀ y ∈ belowAtL kb ks, y ∈ belowAtL ka ks := by
    intro ka kb ha hb' hsub y hy
    obtain ⟨b, hbm, hab⟩ := hsub _ (graft_mem_L x l0 l1 l2 ks ka ha)
    have hxb : x ∈ b := (hab x).mp (List.mem_cons_self)
    rcases graft_above_L x l0 l1 l2 ks kb hb' hx b hbm hxb with hbx | hsup
    · -- b = [x]: impossible, something else than x is below branch ka
      exfalso
      obtain ⟨z, hz⟩ := List.exists_mem_of_ne_nil _ (belowAtL_ne_nil ks ka ha)
      have : z ∈ b := (hab z).mp (List.mem_cons_of_mem _ hz)
      rw [hbx, List.mem_singleton] at this
      exact hx (this ▸ belowAtL_sub ks ka ha z hz)
    · have : y ∈ x :: belowAtL ka ks := (hab y).mpr (hsup y hy)
      rcases List.mem_cons.mp this with rfl | h'
      · exact absurd (belowAtL_sub ks kb hb' _ hy) hx
      · exact h'
  have s1 := half k1 k2 h1 h2 h.1
  have s2 := half k2 k1 h2 h1 (fun b hb' => by obtain ⟨a, ha, hab⟩ := h.2 b hb'; exact ⟨a, ha, hab.symm⟩)
  exact belowAtL_inj ks k1 k2 hb hn h1 h2 hne (fun y => ⟨s2 y, s1 y⟩)

/-! ### the enumeration -/

mutual
theorem clone_belowsT : ∀ (t : T), belowsT (clone t) = belowsT t
  | .node d p ks => by simp only [clone, belowsT]; exact cloneL_belowsL ks
theorem cloneL_belowsL : ∀ (ks : Kids), belowsL (cloneL ks) = belowsL ks
  | [] => rfl
  | (e, t) :: r => by simp only [cloneL, belowsL, clone_leaves t, clone_belowsT t, cloneL_belowsL r]
end

/-- the names are pairwise different up to `N` -/
def InjTo (nm : Nat → String) (N : Nat) : Prop := ∀ i j, i < N → j < N → nm i = nm j → i = j

theorem namesUpTo_nodup (nm : Nat → String) (N n : Nat) (hinj : InjTo nm N) (hn : n ≤ N) : (namesUpTo nm n).Nodup := by
  unfold namesUpTo List.Nodup
  rw [List.pairwise_map]
  refine List.Pairwise.imp_of_mem ?_ (List.nodup_range (n := n))
  intro a b ha hb hab h
  exact hab (hinj a b (by have := List.mem_range.mp ha; omega) (by have := List.mem_range.mp hb; omega) h)

theorem next_not_mem (nm : Nat → String) (N n : Nat) (hinj : InjTo nm N) (hn : n < N) : nm n ∉ namesUpTo nm n := by
  unfold namesUpTo
  intro h
  obtain ⟨i, hi, he⟩ := List.mem_map.mp h
  have hi' := List.mem_range.mp hi
  have := hinj i n (by omega) hn he
  omega

theorem TI.nodup {nm : Nat → String} {deg total : Nat} {t : T} (h : TI nm deg total t) (N : Nat) (hinj : InjTo nm N)
    (hN : total ≤ N) : (leavesL t.kids).Nodup :=
  h.leaves.nodup_iff.mpr (namesUpTo_nodup nm N total hinj hN)

theorem TI.fresh {nm : Nat → String} {deg total : Nat} {t : T} (h : TI nm deg total t) (N : Nat) (hinj : InjTo nm N)
    (hN : total < N) : nm total ∉ leavesL t.kids :=
  fun hm => next_not_mem nm N total hinj hN (h.leaves.subset hm)

theorem numEdges_kids (t : T) : numEdges t = numEdgesL t.kids := by cases t; simp [numEdges]

/-- pruning the last `f` tips: equal families at the leaves of the recursion come from equal
    families at its start -/
theorem rec_prune (nm : Nat → String) (N : Nat) (hinj : InjTo nm N) (deg : Nat) :
    ∀ (f : Nat) (t1 t2 : T) (total : Nat), total + f ≤ N → TI nm deg total t1 → TI nm deg total t2 →
    ∀ u1 ∈ allTopoRaw nm f t1 total, ∀ u2 ∈ allTopoRaw nm f t2 total,
      FamEq (belowsL u1.kids) (belowsL u2.kids) → FamEq (belowsL t1.kids) (belowsL t2.kids)
  | 0, t1, t2, total, _, _, _, u1, hu1, u2, hu2, h => by
    simp only [allTopoRaw, List.mem_singleton] at hu1 hu2
    subst hu1; subst hu2
    exact h
  | f + 1, t1, t2, total, hN, h1, h2, u1, hu1, u2, hu2, h => by
    simp only [allTopoRaw, List.mem_flatMap, List.mem_range] at hu1 hu2
    obtain ⟨k1, hk1, hu1'⟩ := hu1
    obtain ⟨k2, hk2, hu2'⟩ := hu2
    have ih := rec_prune nm N hinj deg f _ _ (total + 1) (by omega) (TI_graft nm deg total t1 k1 hk1 h1)
      (TI_graft nm deg total t2 k2 hk2 h2) u1 hu1' u2 hu2' h
    rw [applyAt_kids, applyAt_kids] at ih
    rw [numEdges_kids] at hk1 hk2
    exact prune_back _ NIL NIL NIL t1.kids t2.kids k1 k2 hk1 hk2 (h1.fresh N hinj (by omega)) (h2.fresh N hinj (by omega)) ih

theorem rec_pairwise (nm : Nat → String) (N : Nat) (hinj : InjTo nm N) (deg : Nat) :
    ∀ (f : Nat) (t : T) (total : Nat), total + f ≤ N → TI nm deg total t →
    (allTopoRaw nm f t total).Pairwise (fun a b => ¬ FamEq (belowsL a.kids) (belowsL b.kids))
  | 0, t, total, _, _ => by simp [allTopoRaw]
  | f + 1, t, total, hN, h => by
    simp only [allTopoRaw]
    rw [List.pairwise_flatMap]
    refine ⟨fun k hk => rec_pairwise nm N hinj deg f _ (total + 1) (by omega)
      (TI_graft nm deg total t k (List.mem_range.mp hk) h), ?_⟩
    refine List.Pairwise.imp_of_mem ?_ (List.pairwise_lt_range (n := numEdges t))
    intro k1 k2 hk1 hk2 hlt u1 hu1 u2 hu2 hfe
    have hk1' := List.mem_range.mp hk1
    have hk2' := List.mem_range.mp hk2
    have h12 := rec_prune nm N hinj deg f _ _ (total + 1) (by omega) (TI_graft nm deg total t k1 hk1' h)
      (TI_graft nm deg total t k2 hk2' h) u1 hu1 u2 hu2 hfe
    rw [applyAt_kids, applyAt_kids] at h12
    rw [numEdges_kids] at hk1' hk2'
    have := graft_branch_inj _ NIL NIL NIL t.kids k1 k2 h.bin (h.nodup N hinj (by omega)) (h.fresh N hinj (by omega))
      hk1' hk2' h12
    omega

theorem pairwiseDistinct_iff : ∀ (l : List (List (List String))),
    pairwiseDistinct l = true ↔ l.Pairwise (fun A B => ¬ FamEq A B)
  | [] => by simp [pairwiseDistinct]
  | a :: r => by
    simp only [pairwiseDistinct, Bool.and_eq_true, List.all_eq_true, Bool.not_eq_true', List.pairwise_cons,
      pairwiseDistinct_iff r]
    constructor
    · intro h
      refine ⟨fun b hb hf => ?_, h.2⟩
      have := h.1 b hb
      rw [(famEq_iff a b).mpr hf] at this
      cases this
    · intro h
      refine ⟨fun b hb => ?_, h.2⟩
      cases hfe : famEq a b with
      | false => rfl
      | true => exact absurd ((famEq_iff a b).mp hfe) (h.1 b hb)

/-! ### the unrooted view: a split is a leaf set or its complement -/

/-- `b` is the complement of `a` among `all` -/
def CompEq (all a b : List String) : Prop := ∀ y ∈ all, (y ∈ a ↔ y ∉ b)

/-- same set of splits: every member of one family is, as a set, a member of the other or the
    complement of a member of the other -/
def USame (all : List String) (A B : List (List String)) : Prop :=
  (∀ a ∈ A, ∃ b ∈ B, SetEq a b ∨ CompEq all a b) ∧ (∀ b ∈ B, ∃ a ∈ A, SetEq a b ∨ CompEq all a b)

/-- no member holds two of the three start tips `a b c` (each member lies in one of the three
    subtrees of the start node) -/
def Q3 (a b c : String) (A : List (List String)) : Prop :=
  ∀ S ∈ A, ¬ (a ∈ S ∧ b ∈ S) ∧ ¬ (a ∈ S ∧ c ∈ S) ∧ ¬ (b ∈ S ∧ c ∈ S)

theorem famEq_of_uSame (a b c : String) (all : List String) (A B : List (List String)) (h1 : a ∈ all) (h2 : b ∈ all)
    (h3 : c ∈ all) (qA : Q3 a b c A) (qB : Q3 a b c B) (h : USame all A B) : FamEq A B := by
  constructor
  · intro x hx
    obtain ⟨y, hy, hab | hab⟩ := h.1 x hx
    · exact ⟨y, hy, hab⟩
    · exfalso
      have qa := qA x hx
      have qb := qB y hy
      have c1 := hab _ h1; have c2 := hab _ h2; have c3 := hab _ h3
      by_cases a1 : a ∈ x <;> by_cases a2 : b ∈ x <;> by_cases a3 : c ∈ x <;>
        simp_all
  · intro y hy
    obtain ⟨x, hx, hab | hab⟩ := h.2 y hy
    · exact ⟨x, hx, hab⟩
    · exfalso
      have qa := qA x hx
      have qb := qB y hy
      have c1 := hab _ h1; have c2 := hab _ h2; have c3 := hab _ h3
      by_cases a1 : a ∈ x <;> by_cases a2 : b ∈ x <;> by_cases a3 : c ∈ x <;>
        simp_all

theorem Q3_graft (a b c : String) (x : String) (l0 l1 l2 : Rat) (ks : Kids) (k : Nat) (hk : k < numEdgesL ks)
    (hx : x ∉ leavesL ks) (x1 : a ≠ x) (x2 : b ≠ x) (x3 : c ≠ x) (q : Q3 a b c (belowsL ks)) :
    Q3 a b c (belowsL (applyAtL (graftLen x l0 l1 l2) k ks)) := by
  intro S hS
  have key : ∀ (u v : String), u ≠ x → v ≠ x → u ∈ S → v ∈ S →
      ∃ S0 ∈ belowsL ks, u ∈ S0 ∧ v ∈ S0 := by
    intro u v hu hv huS hvS
    have fa : u ∈ S.filter (· != x) := by simp [List.mem_filter, huS, hu]
    have fb : v ∈ S.filter (· != x) := by simp [List.mem_filter, hvS, hv]
    rcases belowsL_graft_new x l0 l1 l2 ks k hk hx S hS with h0 | h0
    · rw [h0] at fa; simp at fa
    · exact ⟨_, h0, fa, fb⟩
  refine ⟨fun h => ?_, fun h => ?_, fun h => ?_⟩
  · obtain ⟨S0, hS0, ha, hb⟩ := key _ _ x1 x2 h.1 h.2; exact (q S0 hS0).1 ⟨ha, hb⟩
  · obtain ⟨S0, hS0, ha, hb⟩ := key _ _ x1 x3 h.1 h.2; exact (q S0 hS0).2.1 ⟨ha, hb⟩
  · obtain ⟨S0, hS0, ha, hb⟩ := key _ _ x2 x3 h.1 h.2; exact (q S0 hS0).2.2 ⟨ha, hb⟩

theorem rec_Q3 (nm : Nat → String) (N : Nat) (hinj : InjTo nm N) (deg : Nat) :
    ∀ (f : Nat) (t : T) (total : Nat), 3 ≤ total → total + f ≤ N → TI nm deg total t →
    Q3 (nm 0) (nm 1) (nm 2) (belowsL t.kids) →
    ∀ u ∈ allTopoRaw nm f t total, Q3 (nm 0) (nm 1) (nm 2) (belowsL u.kids)
  | 0, t, total, _, _, _, q, u, hu => by
    simp only [allTopoRaw, List.mem_singleton] at hu
    subst hu; exact q
  | f + 1, t, total, h3, hN, h, q, u, hu => by
    simp only [allTopoRaw, List.mem_flatMap, List.mem_range] at hu
    obtain ⟨k, hk, hu'⟩ := hu
    refine rec_Q3 nm N hinj deg f _ (total + 1) (by omega) (by omega) (TI_graft nm deg total t k hk h) ?_ u hu'
    rw [applyAt_kids]
    rw [numEdges_kids] at hk
    exact Q3_graft _ _ _ _ NIL NIL NIL t.kids k hk (h.fresh N hinj (by omega))
      (fun e => by have := hinj 0 total (by omega) (by omega) e; omega)
      (fun e => by have := hinj 1 total (by omega) (by omega) e; omega)
      (fun e => by have := hinj 2 total (by omega) (by omega) e; omega) q

/-- the names of the enumeration are pairwise different: `Tip1 …`, or the caller's when those are -/
theorem topoName_inj (names : List String) (n : Nat) (hn : names = [] ∨ (names.length = n ∧ names.Nodup)) :
    InjTo (topoName names) n := by
  intro i j hi hj h
  rcases hn with rfl | ⟨hl, hnd⟩
  · simp only [topoName, List.isEmpty_nil, if_true] at h
    have := tipName_inj h; omega
  · have hne : names.isEmpty = false := by
      cases names with
      | nil => simp at hl; omega
      | cons a r => rfl
    simp only [topoName, hne, Bool.false_eq_true, if_false] at h
    have hi' : i < names.length := by omega
    have hj' : j < names.length := by omega
    rw [List.getD_eq_getElem?_getD, List.getD_eq_getElem?_getD, List.getElem?_eq_getElem hi', List.getElem?_eq_getElem hj'] at h
    simp only [Option.getD_some] at h
    have hp := (List.pairwise_iff_getElem (R := (· ≠ ·))).mp hnd
    rcases Nat.lt_trichotomy i j with hlt | heq | hgt
    · exact absurd h (hp i j hi' hj' hlt)
    · exact heq
    · exact absurd h.symm (hp j i hj' hi' hgt)

/-! ### from the backtracking trees to the returned ones -/

theorem SetEq.refl (a : List String) : SetEq a a := fun _ => Iff.rfl

/-- adding to both families a member that is the same set keeps them equal -/
theorem FamEq.cons {A B : List (List String)} (h : FamEq A B) (x y : List String) (hxy : SetEq x y) :
    FamEq (x :: A) (y :: B) := by
  constructor
  · intro a ha
    rcases List.mem_cons.mp ha with rfl | ha'
    · exact ⟨y, List.mem_cons_self, hxy⟩
    · obtain ⟨b, hb, hab⟩ := h.1 a ha'; exact ⟨b, List.mem_cons_of_mem _ hb, hab⟩
  · intro b hb
    rcases List.mem_cons.mp hb with rfl | hb'
    · exact ⟨x, List.mem_cons_self, hxy⟩
    · obtain ⟨a, ha, hab⟩ := h.2 b hb'; exact ⟨a, List.mem_cons_of_mem _ ha, hab⟩

/-- the family of the returned tree, from the family of the backtracking tree: the same (unrooted),
    or without the set of all tips carried by the branch above the root (rooted) -/
theorem belows_out (nm : Nat → String) (rooted : Bool) (total : Nat) (v : T)
    (h : TI nm (if rooted then 1 else 3) total v) (h2 : 2 ≤ total) :
    belowsL v.kids = (if rooted then [leavesL v.kids] else []) ++ belowsL (dropStem (clone v)).kids := by
  cases rooted with
  | false =>
    simp only [Bool.false_eq_true, if_false] at h ⊢
    have hk : (clone v).kids.length = 3 := by rw [clone_kids, cloneL_length]; exact h.deg
    rw [dropStem_of_three _ hk, clone_kids, cloneL_belowsL]; rfl
  | true =>
    simp only [if_true] at h ⊢
    obtain ⟨d, p, e, dn, pn, a, b, rfl⟩ := TI_one_shape nm total v h h2
    obtain ⟨ea, ta⟩ := a
    obtain ⟨eb, tb⟩ := b
    simp [clone, cloneL, dropStem, belowsL, belowsT, leavesL, T.leaves, clone_leaves, clone_belowsT]

/-- pairwise different families of the backtracking trees give pairwise different families of the
    returned trees -/
theorem out_pairwise (nm : Nat → String) (rooted : Bool) (total : Nat) (l : List T)
    (hl : ∀ v ∈ l, TI nm (if rooted then 1 else 3) total v) (h2 : 2 ≤ total)
    (hp : l.Pairwise (fun a b => ¬ FamEq (belowsL a.kids) (belowsL b.kids))) :
    (l.map (fun v => dropStem (clone v))).Pairwise (fun a b => ¬ FamEq (belowsL a.kids) (belowsL b.kids)) := by
  rw [List.pairwise_map]
  refine List.Pairwise.imp_of_mem ?_ hp
  intro a b ha hb hne hfe
  apply hne
  rw [belows_out nm rooted total a (hl a ha) h2, belows_out nm rooted total b (hl b hb) h2]
  cases rooted with
  | false => simpa using hfe
  | true =>
    simp only [if_true, List.singleton_append]
    refine FamEq.cons hfe _ _ ?_
    intro y
    exact ((hl a ha).leaves.trans (hl b hb).leaves.symm).mem_iff

end Gotree.C16
