/-
  C12 — the concrete ACR and ASR tip slices of an unambiguous alignment column ARE a pair of
  codings in the sense of Lemmas/C12Recode.lean: the ACR alphabet (sorted, without duplicates)
  injects into A C G T - *.
-/
import Gotree.Lemmas.C12Recode

namespace Gotree.C12
open Gotree

/- ## the alphabet is strictly sorted, hence without duplicates -/

def StrictSorted : List String → Prop
  | [] => True
  | x :: r => (∀ y ∈ r, x < y) ∧ StrictSorted r

theorem lt_of_not_lt_ne {s x : String} (h1 : ¬ s < x) (h2 : ¬ s = x) : x < s := by
  apply Classical.byContradiction
  intro h3
  exact h2 (String.le_antisymm (String.not_lt.mp h3) (String.not_lt.mp h1))

theorem insertSorted_sorted (s : String) : ∀ l : List String, StrictSorted l → StrictSorted (insertSorted s l)
  | [], _ => by simp [insertSorted, StrictSorted]
  | x :: r, h => by
    unfold insertSorted
    split
    · rename_i hlt
      refine ⟨?_, h⟩
      intro y hy
      cases hy with
      | head => exact hlt
      | tail _ hy' => exact String.lt_trans hlt (h.1 y hy')
    · split
      · exact h
      · rename_i h1 h2
        refine ⟨?_, insertSorted_sorted s r h.2⟩
        intro y hy
        rcases (mem_insertSorted s y r).mp hy with e | hy'
        · subst e; exact lt_of_not_lt_ne h1 h2
        · exact h.1 y hy'

theorem foldl_insert_sorted : ∀ (vals acc : List String), StrictSorted acc →
    StrictSorted (vals.foldl (fun acc s => insertSorted s acc) acc)
  | [], acc, h => by simpa using h
  | v :: r, acc, h => by
    simp only [List.foldl_cons]
    exact foldl_insert_sorted r _ (insertSorted_sorted v acc h)

theorem alphabet_sorted (vals : List String) : StrictSorted (alphabet vals) :=
  foldl_insert_sorted vals [] trivial

/- ## positions in a duplicate-free list -/

theorem indexOf_cons (x s : String) (r : List String) :
    indexOf (x :: r) s = if x = s then 0 else indexOf r s + 1 := by
  unfold indexOf
  rw [List.findIdx_cons]
  by_cases h : x = s
  · simp [h]
  · have hb : (x == s) = false := by simp [h]
    simp [hb, h]

theorem getD_indexOf : ∀ (l : List String) (s : String), s ∈ l → l.getD (indexOf l s) "" = s
  | [], _, h => by simp at h
  | x :: r, s, h => by
    rw [indexOf_cons]
    by_cases hx : x = s
    · simp [hx]
    · have : s ∈ r := by
        cases h with
        | head => exact absurd rfl hx
        | tail _ h' => exact h'
      simp only [hx, if_false, List.getD_cons_succ]
      exact getD_indexOf r s this

theorem indexOf_getD_sorted : ∀ (l : List String), StrictSorted l → ∀ a, a < l.length →
    indexOf l (l.getD a "") = a
  | [], _, a, h => by simp at h
  | x :: r, hs, 0, _ => by simp [indexOf_cons]
  | x :: r, hs, a + 1, h => by
    simp only [List.getD_cons_succ]
    rw [indexOf_cons]
    have hlt : a < r.length := by simpa using h
    have hmem : r.getD a "" ∈ r := by
      rw [List.getD_eq_getElem?_getD, List.getElem?_eq_getElem hlt]
      simp
    have hne : ¬ x = r.getD a "" := by
      intro e
      have := hs.1 _ hmem
      rw [← e] at this
      exact String.lt_irrefl x this
    simp only [hne, if_false]
    rw [indexOf_getD_sorted r hs.2 a hlt]

theorem getD_mem : ∀ (l : List String) (a : Nat), a < l.length → l.getD a "" ∈ l := by
  intro l a h
  rw [List.getD_eq_getElem?_getD, List.getElem?_eq_getElem h]
  simp

/- ## one alignment column -/

def plainChars : List Char := ['A', 'C', 'G', 'T', '-']

/-- the tip/state map ACR is given for column `j` -/
def colMap (m : List (String × String)) (j : Nat) : List (String × String) :=
  m.map fun kv => (kv.1, String.singleton (kv.2.toList.getD j ' '))

/-- every sequence has an unambiguous character at column `j` -/
def plainCol (m : List (String × String)) (j : Nat) : Bool :=
  m.all fun kv => plainChars.contains (kv.2.toList.getD j ' ')

theorem lookup_cons (kv : String × String) (r : List (String × String)) (n : String) :
    lookup (kv :: r) n = if kv.1 == n then some kv.2 else lookup r n := by
  unfold lookup
  rw [List.find?_cons]
  cases h : kv.1 == n <;> simp

theorem lookup_colMap (j : Nat) (n sq : String) : ∀ (m : List (String × String)), lookup m n = some sq →
    lookup (colMap m j) n = some (String.singleton (sq.toList.getD j ' '))
  | [], h => by simp [lookup] at h
  | kv :: r, h => by
    rw [lookup_cons] at h
    have hc : colMap (kv :: r) j = (kv.1, String.singleton (kv.2.toList.getD j ' ')) :: colMap r j := by
      simp [colMap]
    rw [hc, lookup_cons]
    cases hk : kv.1 == n with
    | true =>
      simp only [hk, if_true, Option.some.injEq] at h
      subst h; simp
    | false =>
      simp only [hk] at h
      simpa using lookup_colMap j n sq r (by simpa using h)

theorem lookup_plain (m : List (String × String)) (j : Nat) (n sq : String) (h : lookup m n = some sq)
    (hp : plainCol m j = true) : sq.toList.getD j ' ' ∈ plainChars := by
  unfold lookup at h
  cases hf : m.find? (·.1 == n) with
  | none => simp [hf] at h
  | some kv =>
    simp only [hf, Option.map_some, Option.some.injEq] at h
    subst h
    have hm := List.mem_of_find?_eq_some hf
    simp only [plainCol, List.all_eq_true] at hp
    have := hp kv hm
    simpa using this

/-- the values of the column map are one-character strings over `A C G T -` -/
theorem colMap_vals (m : List (String × String)) (j : Nat) (hp : plainCol m j = true) (st : String)
    (h : st ∈ (colMap m j).map (·.2)) : ∃ c, c ∈ plainChars ∧ st = String.singleton c := by
  simp only [colMap, List.map_map, List.mem_map, Function.comp] at h
  obtain ⟨kv, hkv, e⟩ := h
  simp only [plainCol, List.all_eq_true] at hp
  exact ⟨_, by simpa using hp kv hkv, e.symm⟩

/-- position of a plain character in A C G T - * (whatever the value of `asrNonIupacFixedInRepo`) -/
theorem plain_facts (c : Char) (h : c ∈ plainChars) :
    indexOf asrAlphabet (String.singleton c) < 6 ∧
    asrAlphabet.getD (indexOf asrAlphabet (String.singleton c)) "" = String.singleton c ∧
    asrCodes c = [indexOf asrAlphabet (String.singleton c)] := by
  simp only [plainChars, List.mem_cons, List.mem_nil_iff, or_false] at h
  rcases h with h | h | h | h | h <;> subst h <;> decide

/- ## the two codings of a column -/

/-- ACR state index → ASR state index -/
def colEnc (alpha : List String) (a : Nat) : Nat := indexOf asrAlphabet (alpha.getD a "")

/-- ASR state index → ACR state index (0 for the characters that do not occur) -/
def colDec (alpha : List String) (b : Nat) : Nat :=
  if indexOf alpha (asrAlphabet.getD b "") < alpha.length then indexOf alpha (asrAlphabet.getD b "") else 0

theorem col_entry (m : List (String × String)) (j : Nat) (hp : plainCol m j = true) (a : Nat)
    (ha : a < (alphabet ((colMap m j).map (·.2))).length) :
    ∃ c, c ∈ plainChars ∧ (alphabet ((colMap m j).map (·.2))).getD a "" = String.singleton c := by
  have hmem := getD_mem _ a ha
  rw [mem_alphabet] at hmem
  exact colMap_vals m j hp _ hmem

theorem col_coding (m : List (String × String)) (j : Nat) (hp : plainCol m j = true)
    (hk : 0 < (alphabet ((colMap m j).map (·.2))).length) :
    Coding (alphabet ((colMap m j).map (·.2))).length 6
      (colEnc (alphabet ((colMap m j).map (·.2)))) (colDec (alphabet ((colMap m j).map (·.2)))) := by
  refine ⟨?_, ?_, ?_⟩
  · intro a ha
    obtain ⟨c, hc, he⟩ := col_entry m j hp a ha
    simp only [colEnc, he]
    exact (plain_facts c hc).1
  · intro b _
    unfold colDec
    split
    · assumption
    · exact hk
  · intro a ha
    obtain ⟨c, hc, he⟩ := col_entry m j hp a ha
    have hidx := indexOf_getD_sorted _ (alphabet_sorted ((colMap m j).map (·.2))) a ha
    simp only [colEnc, colDec, he, (plain_facts c hc).2.1]
    rw [he] at hidx
    simp [hidx, ha]

theorem col_rel (m : List (String × String)) (j : Nat) (hp : plainCol m j = true) (n sq : String)
    (hl : lookup m n = some sq) :
    Rel 6 (colEnc (alphabet ((colMap m j).map (·.2)))) (colDec (alphabet ((colMap m j).map (·.2))))
      (acrTipVec (colMap m j) (alphabet ((colMap m j).map (·.2))) n) (asrTipVec m j n) := by
  have hc := lookup_plain m j n sq hl hp
  have hlc := lookup_colMap j n sq m hl
  intro b hb
  simp only [asrTipVec, hl, acrTipVec, hlc]
  generalize sq.toList.getD j ' ' = c at *
  generalize halpha : alphabet ((colMap m j).map (·.2)) = alpha at *
  obtain ⟨hi6, hget, hiu⟩ := plain_facts c hc
  have hmem : String.singleton c ∈ alpha := by
    rw [← halpha]; exact (mem_alphabet _ _).mpr (lookup_mem _ n _ hlc)
  have hia := indexOf_lt _ _ hmem
  have hga := getD_indexOf _ _ hmem
  have hdlt : colDec alpha b < alpha.length := by
    unfold colDec; split
    · assumption
    · omega
  simp only [at_tab, hb, if_true, hiu, hdlt]
  by_cases hbi : b = indexOf asrAlphabet (String.singleton c)
  · -- the tip's own character
    have hdec : colDec alpha b = indexOf alpha (String.singleton c) := by
      simp only [colDec, hbi, hget, hia, if_true]
    have henc : colEnc alpha (colDec alpha b) = b := by
      rw [hdec]; simp only [colEnc, hga]; exact hbi.symm
    have hl1 : ([indexOf asrAlphabet (String.singleton c)].contains b) = true := by
      simp [hbi]
    rw [hdec] at henc
    simp only [if_true, hdec, hl1, henc]
  · have hl0 : ([indexOf asrAlphabet (String.singleton c)].contains b) = false := by
      simp only [List.contains_cons, List.contains_nil, Bool.or_false, beq_eq_false_iff_ne, ne_eq]
      exact hbi
    simp only [hl0]
    by_cases henc : colEnc alpha (colDec alpha b) = b
    · simp only [henc, if_true]
      by_cases hd : colDec alpha b = indexOf alpha (String.singleton c)
      · exfalso
        rw [hd] at henc
        simp only [colEnc, hga] at henc
        exact hbi henc.symm
      · simp [hd]
    · simp [henc]

end Gotree.C12
