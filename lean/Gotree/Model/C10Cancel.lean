/-
  C10 — the `*support.Supporter` of `support.FBP` / `support.TBE` (support/supporter.go):
  `progress` (read by `Progress()`, incremented once per finished bootstrap tree:
  fbp.go:92 `sup.IncrementProgress()`, tbe.go:297) and `stop` (`Cancel()` / `Canceled()`,
  tested at the head of every iteration: fbp.go:57, tbe.go:208 `if sup.Canceled() { break }`).

  The environment of one call (what harness/c10/cancel.go does with the real code): the counter
  holds `p0` when the call starts, the bootstrap trees are handed over one by one on an
  unbuffered channel, and `Cancel()` is called as soon as `Progress()` has reached `cancelAt`
  (before the next tree is handed over).  `Canceled()` seen by the loop is therefore
  `cancelAt ≤ progress`.  One-worker semantics, as Model/C10.lean.
  Core Lean only (linked into the driver).
-/
import Gotree.Model.C10

namespace Gotree.C10
open Gotree

/-- fbp.go:54-93, the worker loop with its Supporter: ((foundBoot, ntrees, error?), progress) -/
def fbpLoopS (r : T) (cancelAt : Nat) : List T → List Nat → Nat → Nat → (List Nat × Nat × Bool) × Nat
  | [], c, n, pr => ((c, n, false), pr)
  | b :: bs, c, n, pr =>
    if cancelAt ≤ pr then ((c, n, false), pr)                  -- `if sup.Canceled() { break }`
    else if !reinitOk b then ((c, n, true), pr)                -- `seterr(inerr); return`
    else if !compareTips r b then ((c, n, true), pr)
    else fbpLoopS r cancelAt bs (fbpCount r.tipNames (fbpIndex b) r.splits c) (n + 1) (pr + 1)

/-- `support.FBP(reftree, boottrees, cpus, sup)`: (outcome, `sup.Progress()` afterwards) -/
def fbpS (r : T) (bs : List T) (p0 cancelAt : Nat) : Out (List Rat) × Nat :=
  if !reinitOk r then (.err, p0) else
  match fbpLoopS r cancelAt bs (r.splits.map fun _ => 0) 0 p0 with
  | ((_, _, true), pr) => (.err, pr)
  | ((c, n, false), pr) =>
    if n == 0 && r.splits.any (supported (ntips r)) then (.nan, pr) else
    (.ok (List.zipWith (fun (s : SplitE) (k : Nat) => if supported (ntips r) s then ((k : Nat) : Rat) / ((n : Nat) : Rat) else s.e.sup) r.splits c), pr)

/-- tbe.go:207-298, the loop over the bootstrap trees with its Supporter -/
def tbeLoopS (r : T) (cancelAt : Nat) : List T → List Rat → Nat → Nat → Out (List Rat × Nat) × Nat
  | [], sups, nboot, pr => (.ok (sups, nboot), pr)
  | b :: bs, sups, nboot, pr =>
    if cancelAt ≤ pr then (.ok (sups, nboot), pr)              -- `if sup.Canceled() { break }`
    else if !reinitOk b then (.err, pr)
    else if !compareTips r b then (.err, pr)
    else if idPanic r b then (.panic, pr)
    else tbeLoopS r cancelAt bs (List.zipWith (tbeEdge r b) r.splits sups) (nboot + 1) (pr + 1)

/-- `refTree.ReinitIndexes()` then `support.TBE(…, sup)`: (outcome, `sup.Progress()` afterwards) -/
def tbeS (r : T) (bs : List T) (p0 cancelAt : Nat) : Out (List Rat) × Nat :=
  if !reinitOk r then (.err, p0) else
  match tbeLoopS r cancelAt bs (r.splits.map fun _ => NIL) 0 p0 with
  | (.ok (sups, nboot), pr) => (.ok (List.zipWith (normalize (ntips r) nboot) r.splits sups), pr)
  | (.err, pr) => (.err, pr)
  | (.panic, pr) => (.panic, pr)
  | (.nan, pr) => (.nan, pr)

/-- the trees that count before the first one that is refused -/
def goodPrefix (r : T) : List T → Nat
  | [] => 0
  | b :: bs => if reinitOk b && compareTips r b then goodPrefix r bs + 1 else 0

end Gotree.C10
