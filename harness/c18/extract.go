// Table (c) of DESIGN §4.1 for property C18, regenerated from the working tree
// of the repository on every run:
//
//   - every `range` statement whose operand has map type (go/types, source
//     importer) in the non-test code of every package of the repository, with
//     file, enclosing declaration, and a fingerprint of the normalised source
//     of the loop AND of the statements after it (in the same block) that use
//     what the loop wrote (so that "collect the keys, then sort" is one site:
//     editing the sort makes a new site);
//   - the other sources of order / address / clock dependence: time.Now & co,
//     rand.Seed / rand.NewSource, os.Getpid, %p and pointer-valued arguments of
//     fmt calls, reflect map iteration, runtime.NumCPU, `go` statements.
//
// Packages `draw`, `download`, `upload` are listed with scope "excluded"
// (graphical output / network access, DESIGN §3.7): they are reviewed, not proved.
//
// Output: <out>/C18Sites.lean.  Std-lib only.
package c18

import (
	"bytes"

	gotreecmd "github.com/evolbioinfo/gotree/cmd"
	"github.com/spf13/cobra"

	"crypto/sha256"
	"fmt"
	"go/ast"
	"go/build"
	"go/importer"
	"go/parser"
	"go/printer"
	"go/token"
	"go/types"
	"os"
	"path/filepath"
	"sort"
	"strings"
)

const extractorVersion = "c18-extract-14+prerun1"

var excludedPkgs = map[string]string{
	"draw":     "graphical output",
	"download": "network access",
	"upload":   "network access",
}

type siteRec struct {
	Key, File, Fn, Operand, Scope, Kind, Guard string
	Line                                       int
}

func normSrc(fset *token.FileSet, n ast.Node) string {
	var b bytes.Buffer
	printer.Fprint(&b, fset, n) // comments are not attached to sub-nodes: they are not printed
	// the verification hook `VerifYield()` (an empty function without the build tag `verif`, a
	// scheduling point with it) is not part of a fingerprint: its call statements are dropped
	var lines []string
	for _, l := range strings.Split(b.String(), "\n") {
		t := strings.TrimSpace(l)
		if t == "tree.VerifYield()" || t == "VerifYield()" {
			continue
		}
		lines = append(lines, l)
	}
	return strings.Join(strings.Fields(strings.Join(lines, "\n")), " ")
}

func hash12(parts ...string) string {
	h := sha256.New()
	for _, p := range parts {
		h.Write([]byte(p))
		h.Write([]byte{0})
	}
	return fmt.Sprintf("%x", h.Sum(nil))[:12]
}

func leanStr(s string) string {
	var b strings.Builder
	b.WriteByte('"')
	for _, r := range s {
		switch {
		case r == '"':
			b.WriteString("\\\"")
		case r == '\\':
			b.WriteString("\\\\")
		case r == '\n':
			b.WriteString("\\n")
		case r == '\t':
			b.WriteString("\\t")
		case r < 32 || r > 126:
			b.WriteString("?")
		default:
			b.WriteRune(r)
		}
	}
	b.WriteByte('"')
	return b.String()
}

func rootIdent(e ast.Expr) *ast.Ident {
	for {
		switch x := e.(type) {
		case *ast.Ident:
			return x
		case *ast.IndexExpr:
			e = x.X
		case *ast.SelectorExpr:
			e = x.X
		case *ast.StarExpr:
			e = x.X
		case *ast.ParenExpr:
			e = x.X
		case *ast.SliceExpr:
			e = x.X
		case *ast.UnaryExpr:
			e = x.X
		default:
			return nil
		}
	}
}

// objects declared outside [lo,hi) that the statement writes (assignment, ++/--, delete, method call receiver)
func writtenOutside(info *types.Info, body ast.Node, lo, hi token.Pos) map[types.Object]bool {
	out := map[types.Object]bool{}
	add := func(e ast.Expr) {
		id := rootIdent(e)
		if id == nil {
			return
		}
		obj := info.Uses[id]
		if obj == nil {
			obj = info.Defs[id]
		}
		if obj == nil {
			return
		}
		if _, isVar := obj.(*types.Var); !isVar {
			return
		}
		if obj.Pos() >= lo && obj.Pos() < hi {
			return
		}
		out[obj] = true
	}
	ast.Inspect(body, func(n ast.Node) bool {
		switch x := n.(type) {
		case *ast.AssignStmt:
			for _, l := range x.Lhs {
				add(l)
			}
		case *ast.IncDecStmt:
			add(x.X)
		case *ast.CallExpr:
			if id, ok := x.Fun.(*ast.Ident); ok && id.Name == "delete" && len(x.Args) > 0 {
				add(x.Args[0])
			}
			if sel, ok := x.Fun.(*ast.SelectorExpr); ok {
				if s := info.Selections[sel]; s != nil { // a method call: the receiver may be modified
					add(sel.X)
				}
			}
		}
		return true
	})
	return out
}

func mentions(info *types.Info, n ast.Node, objs map[types.Object]bool) bool {
	found := false
	ast.Inspect(n, func(x ast.Node) bool {
		if id, ok := x.(*ast.Ident); ok {
			if o := info.Uses[id]; o != nil && objs[o] {
				found = true
			}
		}
		return !found
	})
	return found
}

func stmtList(n ast.Node) []ast.Stmt {
	switch x := n.(type) {
	case *ast.BlockStmt:
		return x.List
	case *ast.CaseClause:
		return x.Body
	case *ast.CommClause:
		return x.Body
	}
	return nil
}

func declName(d ast.Decl) string {
	switch x := d.(type) {
	case *ast.FuncDecl:
		if x.Recv != nil && len(x.Recv.List) > 0 {
			t := x.Recv.List[0].Type
			if s, ok := t.(*ast.StarExpr); ok {
				t = s.X
			}
			if id, ok := t.(*ast.Ident); ok {
				return id.Name + "." + x.Name.Name
			}
		}
		return x.Name.Name
	case *ast.GenDecl:
		for _, s := range x.Specs {
			if vs, ok := s.(*ast.ValueSpec); ok && len(vs.Names) > 0 {
				return vs.Names[0].Name
			}
			if ts, ok := s.(*ast.TypeSpec); ok {
				return ts.Name.Name
			}
		}
	}
	return "?"
}

var sourceFuncs = map[string]string{
	"time.Now":                      "clock",
	"time.Since":                    "clock",
	"time.Until":                    "clock",
	"math/rand.Seed":                "seed",
	"math/rand.NewSource":           "seed",
	"math/rand.New":                 "seed",
	"os.Getpid":                     "pid",
	"os.Getppid":                    "pid",
	"os.Hostname":                   "host",
	"runtime.NumCPU":                "ncpu",
	"runtime.GOMAXPROCS":            "ncpu",
	"runtime.NumGoroutine":          "ncpu",
	"os.TempDir":                    "tmp",
	"os.CreateTemp":                 "tmp",
	"os.MkdirTemp":                  "tmp",
	"io/ioutil.TempFile":            "tmp",
	"io/ioutil.TempDir":             "tmp",
	"(reflect.Value).MapKeys":       "reflectmap",
	"(reflect.Value).MapRange":      "reflectmap",
	"crypto/rand.Read":              "seed",
	"(reflect.Value).Pointer":       "address",
	"(reflect.Value).UnsafeAddr":    "address",
	"(reflect.Value).UnsafePointer": "address",
	"os.Getenv":                     "env",
	"os.LookupEnv":                  "env",
	"os.Environ":                    "env",
}

var fmtFuncs = map[string]bool{
	"fmt.Sprintf": true, "fmt.Fprintf": true, "fmt.Printf": true, "fmt.Errorf": true,
	"fmt.Sprint": true, "fmt.Fprint": true, "fmt.Print": true,
	"fmt.Sprintln": true, "fmt.Fprintln": true, "fmt.Println": true,
	"log.Printf": true, "log.Print": true, "log.Println": true, "log.Fatalf": true, "log.Fatal": true,
}

func isAddressy(t types.Type, stringer, errT *types.Interface) bool {
	return addressy(t, stringer, errT, 0)
}

// a value whose default formatting shows a memory address: pointers (fmt prints &{…} only for a
// top-level pointer to struct; nested ones are printed as addresses), channels, functions,
// unsafe pointers, and slices / maps / arrays / structs that contain one
func addressy(t types.Type, stringer, errT *types.Interface, depth int) bool {
	if t == nil || depth > 3 {
		return false
	}
	if types.Implements(t, errT) || (stringer != nil && types.Implements(t, stringer)) {
		return false
	}
	switch u := t.Underlying().(type) {
	case *types.Pointer:
		if depth == 0 {
			if _, ok := u.Elem().Underlying().(*types.Struct); ok {
				// &{…}: the fields decide
				return addressy(u.Elem(), stringer, errT, depth+1)
			}
		}
		return true
	case *types.Chan, *types.Signature:
		return true
	case *types.Basic:
		return u.Kind() == types.UnsafePointer || u.Kind() == types.Uintptr
	case *types.Slice:
		return addressy(u.Elem(), stringer, errT, depth+1)
	case *types.Array:
		return addressy(u.Elem(), stringer, errT, depth+1)
	case *types.Map:
		return addressy(u.Elem(), stringer, errT, depth+1) || addressy(u.Key(), stringer, errT, depth+1)
	case *types.Struct:
		for i := 0; i < u.NumFields(); i++ {
			if addressy(u.Field(i).Type(), stringer, errT, depth+1) {
				return true
			}
		}
	}
	return false
}

// Extract computes the two tables.
func Extract(repo string) (sites, sources []siteRec, typeErrs []string, err error) {
	sites, sources, typeErrs, _, err = ExtractAll(repo)
	return
}

// ExtractAll also returns the files that are only built with the tag `verif` (hook code).
func ExtractAll(repo string) (sites, sources []siteRec, typeErrs []string, hooks []string, err error) {
	cwd, _ := os.Getwd()
	if e := os.Chdir(repo); e != nil {
		return nil, nil, nil, nil, e
	}
	defer os.Chdir(cwd)
	var dirs []string
	filepath.Walk(repo, func(p string, fi os.FileInfo, e error) error {
		if e != nil {
			return nil
		}
		if fi.IsDir() {
			b := filepath.Base(p)
			if p != repo && (strings.HasPrefix(b, ".") || b == "docs" || b == "tests" || b == "images" || b == "testdata" || b == "vendor") {
				return filepath.SkipDir
			}
			dirs = append(dirs, p)
		}
		return nil
	})
	sort.Strings(dirs)
	fset := token.NewFileSet()
	imp := importer.ForCompiler(fset, "source", nil)
	ctx := build.Default
	ctx.BuildTags = append(ctx.BuildTags, "verif")
	ctx.CgoEnabled = false
	plain := build.Default // a normal build: without the tag
	plain.CgoEnabled = false
	hookFile := map[string]bool{}

	for _, dir := range dirs {
		rel, _ := filepath.Rel(repo, dir)
		ents, _ := os.ReadDir(dir)
		var files []*ast.File
		for _, e := range ents {
			n := e.Name()
			if e.IsDir() || !strings.HasSuffix(n, ".go") || strings.HasSuffix(n, "_test.go") {
				continue
			}
			if ok, _ := ctx.MatchFile(dir, n); !ok {
				continue
			}
			if ok, _ := plain.MatchFile(dir, n); !ok {
				// only built with the tag `verif`: verification hook code, not part of a normal build
				hookFile[filepath.ToSlash(filepath.Join(rel, n))] = true
			}
			f, perr := parser.ParseFile(fset, filepath.Join(dir, n), nil, parser.ParseComments)
			if perr != nil {
				typeErrs = append(typeErrs, rel+": "+perr.Error())
				continue
			}
			files = append(files, f)
		}
		if len(files) == 0 {
			continue
		}
		scope := "core"
		top := strings.Split(filepath.ToSlash(rel), "/")[0]
		if _, ex := excludedPkgs[top]; ex {
			scope = "excluded"
		}
		info := &types.Info{Types: map[ast.Expr]types.TypeAndValue{}, Uses: map[*ast.Ident]types.Object{},
			Defs: map[*ast.Ident]types.Object{}, Selections: map[*ast.SelectorExpr]*types.Selection{}}
		conf := types.Config{Importer: imp, Error: func(e error) {
			if len(typeErrs) < 20 {
				msg := e.Error()
				msg = strings.TrimPrefix(msg, repo+"/")
				typeErrs = append(typeErrs, msg)
			}
		}}
		path := "github.com/evolbioinfo/gotree"
		if rel != "." {
			path += "/" + filepath.ToSlash(rel)
		}
		conf.Check(path, fset, files, info)

		for _, f := range files {
			fname, _ := filepath.Rel(repo, fset.Position(f.Pos()).Filename)
			fname = filepath.ToSlash(fname)
			fscope := scope
			if hookFile[fname] {
				fscope = "hook"
			}
			for _, d := range f.Decls {
				s1, s2 := scanDecl(fset, info, d, fname, fscope)
				sites = append(sites, s1...)
				sources = append(sources, s2...)
			}
		}
	}
	sort.SliceStable(sites, func(i, j int) bool {
		if sites[i].File != sites[j].File {
			return sites[i].File < sites[j].File
		}
		return sites[i].Line < sites[j].Line
	})
	sort.SliceStable(sources, func(i, j int) bool {
		if sources[i].File != sources[j].File {
			return sources[i].File < sources[j].File
		}
		return sources[i].Line < sources[j].Line
	})
	for f := range hookFile {
		hooks = append(hooks, f)
	}
	sort.Strings(hooks)
	return
}

func repoHash(repo string) string {
	h := sha256.New()
	h.Write([]byte(extractorVersion))
	filepath.Walk(repo, func(p string, fi os.FileInfo, e error) error {
		if e != nil {
			return nil
		}
		if fi.IsDir() {
			if p != repo && strings.HasPrefix(filepath.Base(p), ".") {
				return filepath.SkipDir
			}
			return nil
		}
		if strings.HasSuffix(p, ".go") || filepath.Base(p) == "go.mod" {
			rel, _ := filepath.Rel(repo, p)
			b, _ := os.ReadFile(p)
			h.Write([]byte(rel))
			h.Write([]byte{0})
			h.Write(b)
			h.Write([]byte{0})
		}
		return nil
	})
	return fmt.Sprintf("%x", h.Sum(nil))[:24]
}

// the runnable commands of the live command tree (cmd.RootCmd of the repository the harness is built against)
func liveCommands() []string {
	var out []string
	var walk func(c *cobra.Command)
	walk = func(c *cobra.Command) {
		for _, sub := range c.Commands() {
			if sub.Name() == "help" || sub.Name() == "completion" || strings.HasPrefix(sub.Name(), "__") {
				continue
			}
			if sub.Runnable() {
				out = append(out, strings.TrimPrefix(sub.CommandPath(), "gotree "))
			}
			walk(sub)
		}
	}
	walk(gotreecmd.RootCmd)
	sort.Strings(out)
	return out
}

// cobra runs only the NEAREST persistent pre-run hook of a command (no EnableTraverseRunHooks in this repository):
// a parent command that defines one hides the root's, which is where --seed reaches rand.Seed.
// Live command tree: every runnable command whose nearest hook is not the root's, with the owner of that hook.
func preRunHidden() [][2]string {
	var out [][2]string
	var walk func(c *cobra.Command)
	walk = func(c *cobra.Command) {
		for _, sub := range c.Commands() {
			if sub.Name() == "help" || sub.Name() == "completion" || strings.HasPrefix(sub.Name(), "__") {
				continue
			}
			if sub.Runnable() {
				for p := sub; p != nil; p = p.Parent() {
					if p.PersistentPreRun != nil || p.PersistentPreRunE != nil {
						if p != gotreecmd.RootCmd {
							out = append(out, [2]string{strings.TrimPrefix(sub.CommandPath(), "gotree "), strings.TrimPrefix(p.CommandPath(), "gotree ")})
						}
						break
					}
				}
			}
			walk(sub)
		}
	}
	walk(gotreecmd.RootCmd)
	sort.Slice(out, func(i, j int) bool { return out[i][0] < out[j][0] })
	return out
}

// Source: the cobra.Command literals of package cmd that set PersistentPreRun / PersistentPreRunE:
// (file, first word of Use, "true" when the hook's body calls RootCmd.PersistentPreRun itself)
func preRunHooks(repo string) [][3]string {
	var out [][3]string
	ents, _ := os.ReadDir(filepath.Join(repo, "cmd"))
	fset := token.NewFileSet()
	for _, e := range ents {
		n := e.Name()
		if !strings.HasSuffix(n, ".go") || strings.HasSuffix(n, "_test.go") {
			continue
		}
		f, err := parser.ParseFile(fset, filepath.Join(repo, "cmd", n), nil, 0)
		if err != nil {
			continue
		}
		ast.Inspect(f, func(x ast.Node) bool {
			cl, ok := x.(*ast.CompositeLit)
			if !ok {
				return true
			}
			use := ""
			var hooks []ast.Expr
			for _, el := range cl.Elts {
				kv, ok := el.(*ast.KeyValueExpr)
				if !ok {
					continue
				}
				k, ok := kv.Key.(*ast.Ident)
				if !ok {
					continue
				}
				if k.Name == "Use" {
					if bl, ok := kv.Value.(*ast.BasicLit); ok {
						use = strings.Fields(strings.Trim(bl.Value, "\"`") + " ")[0]
					}
				}
				if k.Name == "PersistentPreRun" || k.Name == "PersistentPreRunE" {
					hooks = append(hooks, kv.Value)
				}
			}
			for _, h := range hooks {
				calls := false
				ast.Inspect(h, func(y ast.Node) bool {
					if ce, ok := y.(*ast.CallExpr); ok {
						if se, ok := ce.Fun.(*ast.SelectorExpr); ok && (se.Sel.Name == "PersistentPreRun" || se.Sel.Name == "PersistentPreRunE") {
							if id, ok := se.X.(*ast.Ident); ok && id.Name == "RootCmd" {
								calls = true
							}
						}
					}
					return true
				})
				out = append(out, [3]string{"cmd/" + n, use, fmt.Sprint(calls)})
			}
			return true
		})
	}
	sort.Slice(out, func(i, j int) bool { return out[i][0]+out[i][1] < out[j][0]+out[j][1] })
	return out
}

var repoOfRender string

// files of cmd/ whose code mentions the identifier rootCpus (the value of -t)
func cpuFiles(repo string) []string {
	var out []string
	ents, _ := os.ReadDir(filepath.Join(repo, "cmd"))
	fset := token.NewFileSet()
	for _, e := range ents {
		n := e.Name()
		if !strings.HasSuffix(n, ".go") || strings.HasSuffix(n, "_test.go") || n == "root.go" {
			continue
		}
		f, err := parser.ParseFile(fset, filepath.Join(repo, "cmd", n), nil, 0)
		if err != nil {
			continue
		}
		found := false
		ast.Inspect(f, func(x ast.Node) bool {
			if id, ok := x.(*ast.Ident); ok && id.Name == "rootCpus" {
				found = true
			}
			return !found
		})
		if found {
			out = append(out, "cmd/"+n)
		}
	}
	sort.Strings(out)
	return out
}

func render(sites, sources []siteRec, typeErrs []string, hooks []string, depSites, depSources []siteRec, depNotes []string) string {
	var b strings.Builder
	b.WriteString("-- GENERATED by harness/c18/extract.go (vh gen-tables) from the working tree of the repository; do not edit.\n")
	b.WriteString("-- Table (c) of DESIGN §4.1: every `range` over a map in non-test code, and the other sources of\n")
	b.WriteString("-- order / address / clock dependence.  key = file:declaration:fingerprint#ordinal (no line number).\n")
	b.WriteString("namespace Gotree.Gen.C18Sites\n\n")
	b.WriteString("structure Site where\n  key : String\n  kind : String\n  file : String\n  fn : String\n  line : Nat\n  operand : String\n  scope : String\n  guard : String\n  deriving Repr, BEq\n\n")
	w := func(name string, l []siteRec) {
		fmt.Fprintf(&b, "def %s : List Site := [", name)
		for i, s := range l {
			if i > 0 {
				b.WriteString(",")
			}
			fmt.Fprintf(&b, "\n  ⟨%s, %s, %s, %s, %d, %s, %s, %s⟩", leanStr(s.Key), leanStr(s.Kind), leanStr(s.File), leanStr(s.Fn), s.Line, leanStr(s.Operand), leanStr(s.Scope), leanStr(s.Guard))
		}
		b.WriteString("]\n\n")
	}
	w("sites", sites)
	w("sources", sources)
	b.WriteString("def typeErrors : List String := [")
	for i, e := range typeErrs {
		if i > 0 {
			b.WriteString(",")
		}
		b.WriteString("\n  " + leanStr(e))
	}
	b.WriteString("]\n\n-- files built only with the tag `verif` (verification hooks; not part of a normal build): scope \"hook\"\n")
	b.WriteString("def hookFiles : List String := [")
	for i, e := range hooks {
		if i > 0 {
			b.WriteString(", ")
		}
		b.WriteString(leanStr(e))
	}
	b.WriteString("]\n\n-- goalign, gostats, bitset (module cache), the part reachable from the repository's code (calls through an interface reach\n-- every method of that name): scope \"dep\"\n")
	w("depSites", depSites)
	w("depSources", depSources)
	b.WriteString("-- the runnable commands of the live cmd.RootCmd (the root console, help and completion left out)\n")
	b.WriteString("def commands : List String := [")
	for i, e := range liveCommands() {
		if i > 0 {
			b.WriteString(", ")
		}
		b.WriteString(leanStr(e))
	}
	b.WriteString("]\n\n")
	b.WriteString("-- files of package cmd (other than root.go) that read the thread count `rootCpus`\ndef cpuFiles : List String := [")
	for i, e := range cpuFiles(repoOfRender) {
		if i > 0 {
			b.WriteString(", ")
		}
		b.WriteString(leanStr(e))
	}
	b.WriteString("]\n\n")
	b.WriteString("-- the dependency packages that were loaded and scanned\ndef depPackages : List String := [")
	for i, e := range lastDepPkgs {
		if i > 0 {
			b.WriteString(", ")
		}
		b.WriteString(leanStr(e))
	}
	b.WriteString("]\n\n")
	b.WriteString("def depNotes : List String := [")
	for i, e := range depNotes {
		if i > 0 {
			b.WriteString(", ")
		}
		b.WriteString(leanStr(e))
	}
	b.WriteString("]\n\n")
	b.WriteString("-- live command tree: runnable commands whose NEAREST persistent pre-run hook is not the root's (command, owner of the hook)\ndef preRunHidden : List (String × String) := [")
	for i, e := range preRunHidden() {
		if i > 0 {
			b.WriteString(", ")
		}
		b.WriteString("(" + leanStr(e[0]) + ", " + leanStr(e[1]) + ")")
	}
	b.WriteString("]\n\n-- source: cobra.Command literals of package cmd with a persistent pre-run hook (file, Use, the hook calls RootCmd.PersistentPreRun)\ndef preRunHooks : List (String × String × Bool) := [")
	for i, e := range preRunHooks(repoOfRender) {
		if i > 0 {
			b.WriteString(", ")
		}
		b.WriteString("(" + leanStr(e[0]) + ", " + leanStr(e[1]) + ", " + e[2] + ")")
	}
	b.WriteString("]\n\nend Gotree.Gen.C18Sites\n")
	return b.String()
}

// GenTables writes <out>/C18Sites.lean (cached under <verif>/.build by content hash of the repository's Go files).
func GenTables(repo, out string) error {
	repo, _ = filepath.Abs(repo)
	out, _ = filepath.Abs(out)
	target := filepath.Join(out, "C18Sites.lean")
	cacheDir := filepath.Join(out, "..", "..", "..", ".build", "c18cache")
	os.MkdirAll(cacheDir, 0755)
	cache := filepath.Join(cacheDir, repoHash(repo)+".lean")
	var content string
	if b, err := os.ReadFile(cache); err == nil {
		content = string(b)
	} else {
		sites, sources, terrs, hooks, err := ExtractAll(repo)
		if err != nil {
			return err
		}
		repoOfRender = repo
		ds, dso, dn := ExtractDeps(repo)
		content = render(sites, sources, terrs, hooks, ds, dso, dn)
		os.WriteFile(cache, []byte(content), 0644)
	}
	if old, err := os.ReadFile(target); err == nil && string(old) == content {
		return nil
	}
	return os.WriteFile(target, []byte(content), 0644)
}

// scanDecl lists the map-range sites and the other sources of one top-level declaration.
func scanDecl(fset *token.FileSet, info *types.Info, d ast.Decl, fname, fscope string) (sites, sources []siteRec) {
	stringer, errT := fmtIfaces()
	dn := declName(d)
	var stack []ast.Node
	seen := map[string]int{}
	// conditions of the enclosing if / for / switch / case headers (the guard path)
	guards := func() string {
		var g []string
		for i := 0; i < len(stack); i++ {
			switch y := stack[i].(type) {
			case *ast.IfStmt:
				g = append(g, "if "+normSrc(fset, y.Cond))
			case *ast.ForStmt:
				if y.Cond != nil {
					g = append(g, "for "+normSrc(fset, y.Cond))
				}
			case *ast.SwitchStmt:
				if y.Tag != nil {
					g = append(g, "switch "+normSrc(fset, y.Tag))
				}
			case *ast.CaseClause:
				for _, e := range y.List {
					g = append(g, "case "+normSrc(fset, e))
				}
			}
		}
		return strings.Join(g, " | ")
	}
	mk := func(kind string, n ast.Node, fp string, operand string) siteRec {
		base := fname + ":" + dn + ":" + kind + ":" + fp
		seen[base]++
		key := fmt.Sprintf("%s:%s:%s#%d", fname, dn, fp, seen[base])
		if kind != "maprange" {
			key = kind + ":" + key
		}
		return siteRec{Key: key, File: fname, Fn: dn, Operand: operand, Scope: fscope, Kind: kind, Line: fset.Position(n.Pos()).Line, Guard: guards()}
	}
	enclosingStmt := func() ast.Node {
		for i := len(stack) - 1; i >= 0; i-- {
			if s, ok := stack[i].(ast.Stmt); ok {
				if _, isBlock := s.(*ast.BlockStmt); !isBlock {
					return s
				}
			}
			if s, ok := stack[i].(*ast.ValueSpec); ok {
				return s
			}
		}
		return nil
	}
	ast.Inspect(d, func(n ast.Node) bool {
		if n == nil {
			stack = stack[:len(stack)-1]
			return true
		}
		switch x := n.(type) {
		case *ast.RangeStmt:
			tv, ok := info.Types[x.X]
			isMap := false
			if ok && tv.Type != nil {
				_, isMap = tv.Type.Underlying().(*types.Map)
			}
			if !ok || tv.Type == nil {
				// untyped operand (type error nearby): must not go unnoticed
				sites = append(sites, mk("maprange", x, "UNTYPED-"+hash12(normSrc(fset, x)), normSrc(fset, x.X)))
			} else if isMap {
				// tail: following siblings that use what the loop wrote
				var tail []string
				if len(stack) > 0 {
					sibs := stmtList(stack[len(stack)-1])
					w := writtenOutside(info, x.Body, x.Pos(), x.End())
					after := false
					for _, s := range sibs {
						if s == ast.Stmt(x) {
							after = true
							continue
						}
						if after && len(w) > 0 && mentions(info, s, w) {
							tail = append(tail, normSrc(fset, s))
						}
					}
				}
				fp := hash12(append([]string{normSrc(fset, x)}, tail...)...)
				sites = append(sites, mk("maprange", x, fp, normSrc(fset, x.X)))
			}
		case *ast.SelectStmt:
			if x.Body != nil && len(x.Body.List) >= 2 {
				sources = append(sources, mk("select", x, hash12(normSrc(fset, x)), "select"))
			}
		case *ast.SelectorExpr:
			if id, ok := x.X.(*ast.Ident); ok {
				if pn, ok := info.Uses[id].(*types.PkgName); ok && pn.Imported().Path() == "unsafe" {
					st := enclosingStmt()
					if st == nil {
						st = x
					}
					sources = append(sources, mk("address", x, hash12(normSrc(fset, st), guards()), "unsafe."+x.Sel.Name))
				}
			}
		case *ast.GoStmt:
			sources = append(sources, mk("goroutine", x, hash12(normSrc(fset, x)), "go")) // body fingerprinted (VerifYield() calls dropped): an edited goroutine re-opens its review
		case *ast.BasicLit:
			if x.Kind == token.STRING && strings.Contains(x.Value, "%p") {
				st := enclosingStmt()
				if st == nil {
					st = x
				}
				sources = append(sources, mk("pointerfmt", x, hash12(normSrc(fset, st), guards()), "%p"))
			}
		case *ast.CallExpr:
			var fn *types.Func
			switch fx := x.Fun.(type) {
			case *ast.SelectorExpr:
				fn, _ = info.Uses[fx.Sel].(*types.Func)
			case *ast.Ident:
				fn, _ = info.Uses[fx].(*types.Func)
			}
			if fn != nil {
				full := fn.FullName()
				if kind, ok := sourceFuncs[full]; ok {
					st := enclosingStmt()
					if st == nil {
						st = x
					}
					sources = append(sources, mk(kind, x, hash12(normSrc(fset, st), guards()), full))
				}
				if fmtFuncs[full] {
					for ai, a := range x.Args {
						if ai == 0 && strings.HasPrefix(fn.Name(), "F") {
							continue // the io.Writer
						}
						if tv, ok := info.Types[a]; ok && isAddressy(tv.Type, stringer, errT) && !tv.IsNil() {
							sources = append(sources, mk("pointerarg", x, hash12(normSrc(fset, x)), normSrc(fset, a)))
						}
					}
				}
			}
		}
		stack = append(stack, n)
		return true
	})
	return
}

var cachedStringer, cachedErrT *types.Interface

func fmtIfaces() (*types.Interface, *types.Interface) {
	if cachedStringer == nil {
		cachedErrT = types.Universe.Lookup("error").Type().Underlying().(*types.Interface)
		strSig := types.NewSignatureType(nil, nil, nil, nil, types.NewTuple(types.NewVar(token.NoPos, nil, "", types.Typ[types.String])), false)
		cachedStringer = types.NewInterfaceType([]*types.Func{types.NewFunc(token.NoPos, nil, "String", strSig)}, nil)
		cachedStringer.Complete()
	}
	return cachedStringer, cachedErrT
}

// SelfTest runs the extractor on a small synthetic package that contains one instance of every
// construct it is supposed to find, and returns the kinds found (sorted), so that a silent failure
// of the trusted extractor (importer, type information) shows up as a broken tie on every run.
func SelfTest(tmp string) (string, error) {
	dir := filepath.Join(tmp, "c18selftest")
	os.RemoveAll(dir)
	if err := os.MkdirAll(filepath.Join(dir, "p"), 0755); err != nil {
		return "", err
	}
	defer os.RemoveAll(dir)
	os.WriteFile(filepath.Join(dir, "go.mod"), []byte("module selftest\n\ngo 1.21\n"), 0644)
	src := `package p

import (
	"fmt"
	"math/rand"
	"os"
	"reflect"
	"sort"
	"time"
	"unsafe"
)

type T struct{ m map[string]int }

type U struct{ p *T }

func (t *T) Keys() []string {
	var ks []string
	for k := range t.m {
		ks = append(ks, k)
	}
	sort.Strings(ks)
	return ks
}

func F(m map[int]string, s []int, ch chan int, q *T) {
	for _, v := range m {
		fmt.Println(v)
	}
	for range s {
	}
	fmt.Printf("%p\\n", q)
	fmt.Println(q)
	fmt.Println(U{q}, []*T{q})
	fmt.Fprintln(os.Stderr, "x")
	if len(s) == 0 {
		rand.Seed(time.Now().UnixNano())
	}
	_ = os.Getpid()
	_ = reflect.ValueOf(m).MapKeys()
	_ = unsafe.Pointer(q)
	go func() { ch <- 1 }()
	select {
	case <-ch:
	case ch <- 2:
	}
}
`
	os.WriteFile(filepath.Join(dir, "p", "p.go"), []byte(src), 0644)
	sites, sources, terrs, err := Extract(dir)
	if err != nil {
		return "", err
	}
	var kinds []string
	for _, s := range sites {
		kinds = append(kinds, s.Kind+"@"+s.Fn)
	}
	for _, s := range sources {
		g := ""
		if s.Guard != "" {
			g = "[" + s.Guard + "]"
		}
		kinds = append(kinds, s.Kind+"@"+s.Fn+g)
	}
	for _, e := range terrs {
		kinds = append(kinds, "TYPEERROR:"+e)
	}
	sort.Strings(kinds)
	return strings.Join(kinds, " "), nil
}
