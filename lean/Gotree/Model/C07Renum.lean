/-
  C07 — the renumbering the harness does between the steps of a history (`renumber` in harness/c07/seq.go:
  `for i, e := range t.Edges() { e.SetId(i) }`): branch ids 0, 1, 2 … in `Edges()` order (pre-order).
  Go identifies a branch by its pointer; the model by its id, and `Resolve` makes branches without id — so a
  history "resolve, then collapse" needs fresh ids in the model too.  Core Lean only.
-/
import Gotree.Model.C07

namespace Gotree.C07
open Gotree

mutual
def renumT (n : Nat) : T → T × Nat
  | .node d p k => ((T.node d p (renumL n k).1), (renumL n k).2)
def renumL (n : Nat) : Kids → Kids × Nat
  | [] => ([], n)
  | (e, c) :: r =>
    (({ e with id := (n : Int) }, (renumT (n + 1) c).1) :: (renumL (renumT (n + 1) c).2 r).1,
      (renumL (renumT (n + 1) c).2 r).2)
end

def renumber (t : T) : T := (renumT 0 t).1

end Gotree.C07
