/-
  C07 — the Spec oracle (Spec/C07.lean: `collapseOK`, `resolveOK`, the Bool predicates the driver
  evaluates on the implementation's own output) follows from what the theorems say about the
  model.  This file relates the Spec's own traversal (`ents`) to the observation list.
-/
import Gotree.Lemmas.C07Proof
import Gotree.Lemmas.C07Spec
import Gotree.Lemmas.C07USplits
import Gotree.Spec.C07

namespace Gotree.C07
open Gotree

/- ## multisets as lists -/

theorem msub_of_perm {α : Type} [BEq α] [LawfulBEq α] : ∀ (l₁ l₂ : List α), l₁.Perm l₂ → msub l₁ l₂ = true
  | [], _, _ => rfl
  | x :: r, l₂, h => by
    have hx : x ∈ l₂ := h.subset List.mem_cons_self
    have hr : r.Perm (l₂.erase x) := by
      have := h.erase x
      rwa [List.erase_cons_head] at this
    simp only [msub, Bool.and_eq_true]
    exact ⟨List.contains_iff_mem.mpr hx, msub_of_perm r _ hr⟩

theorem msub_append_of_perm {α : Type} [BEq α] [LawfulBEq α] : ∀ (l₁ ex l₂ : List α), l₂.Perm (l₁ ++ ex) → msub l₁ l₂ = true
  | [], _, _, _ => rfl
  | x :: r, ex, l₂, h => by
    have hx : x ∈ l₂ := h.symm.subset (by simp)
    have hr : (l₂.erase x).Perm (r ++ ex) := by
      have := h.erase x
      rwa [List.cons_append, List.erase_cons_head] at this
    simp only [msub, Bool.and_eq_true]
    exact ⟨List.contains_iff_mem.mpr hx, msub_append_of_perm r ex _ hr⟩

theorem mdiff_perm_append {α : Type} [BEq α] [LawfulBEq α] : ∀ (m ex l : List α), l.Perm (m ++ ex) → (mdiff l m).Perm ex
  | [], _, _, h => by simpa [mdiff] using h
  | x :: r, ex, l, h => by
    have hr : (l.erase x).Perm (r ++ ex) := by
      have := h.erase x
      rwa [List.cons_append, List.erase_cons_head] at this
    simp only [mdiff]
    exact mdiff_perm_append r ex _ hr

theorem mdiff_of_perm {α : Type} [BEq α] [LawfulBEq α] (l m : List α) (h : l.Perm m) : mdiff l m = [] := by
  have := mdiff_perm_append m [] l (by simpa using h)
  exact this.eq_nil

/- ## the Spec's traversal and the observation list -/

abbrev FB := List String × Nat

/-- canonical side and topological depth: the order-independent view the oracle uses -/
def FF (all : List String) (l : List String) : FB := (canonSide all l, lightSize all l)

theorem FF_permInv (all : List String) : PermInv (FF all) :=
  pair_permInv _ _ (canonSide_permInv all) (lightSize_permInv all)

/-- all the oracle reads of an entry, except the "hangs off the root" flag -/
abbrev Tup := List String × Rat × Rat × Bool × String × Nat × Int

def Ent.tup (e : Ent) : Tup := (e.side, e.len, e.sup, e.tip, e.name, e.depth, e.id)

def obsTup (x : Obs FB) : Tup := (x.1.1, x.2.1.len, x.2.1.sup, x.2.2.1, x.2.2.2.name, x.1.2, x.2.1.id)

mutual
theorem entsT_tup (all : List String) : ∀ c : T, (entsT all c).map Ent.tup = (obsT (FF all) c).map obsTup
  | .node d p k => by
    have := entsL_tup all false false k
    simp only [entsT, obsT]; exact this
theorem entsL_tup (all : List String) (top pd : Bool) :
    ∀ k : Kids, (entsL all top false pd k).map Ent.tup = (obsL (FF all) k).map obsTup
  | [] => by simp [entsL, obsL]
  | (e, c) :: r => by
    have h1 := entsT_tup all c
    have h2 := entsL_tup all top pd r
    simp only [entsL, obsL, List.map_cons, List.map_append, h1, h2]
    congr 1
    simp [Ent.tup, obsTup, FF, T.name]
end

theorem ents_tup (all : List String) (t : T) (h1 : t.kids.length ≠ 1) :
    (ents all t).map Ent.tup = (obsT (FF all) t).map obsTup := by
  unfold ents
  have : (t.kids.length == 1) = false := by simpa using h1
  rw [this, obsT_kids]
  exact entsL_tup all true _ t.kids

def keyT (u : Tup) : Key := (u.1, u.2.1, u.2.2.1, u.2.2.2.2.1)

theorem key_tup (e : Ent) : e.key = keyT e.tup := rfl

def holdsT : Crit → Tup → Bool
  | .len l, u => decide (u.2.1 ≤ l)
  | .sup s, u => u.2.2.1 != NIL && decide (u.2.2.1 < s)
  | .depth mn mx, u => decide (mn ≤ (u.2.2.2.2.2.1 : Int)) && decide ((u.2.2.2.2.2.1 : Int) ≤ mx)
  | .ids l, u => l.contains u.2.2.2.2.2.2

theorem holds_tup (c : Crit) (e : Ent) : c.holds e = holdsT c e.tup := by cases c <;> rfl

/-- the criterion on an observed branch -/
def critV : Crit → FB × EdgeD × Bool → Bool
  | .len l, y => decide (y.2.1.len ≤ l)
  | .sup s, y => y.2.1.sup != NIL && decide (y.2.1.sup < s)
  | .depth mn mx, y => decide (mn ≤ (y.1.2 : Int)) && decide ((y.1.2 : Int) ≤ mx)
  | .ids l, y => l.contains y.2.1.id

theorem holdsT_obsTup (c : Crit) (x : Obs FB) : holdsT c (obsTup x) = critV c (x.1, x.2.1, x.2.2.1) := by
  cases c <;> rfl

end Gotree.C07

namespace Gotree.C07
open Gotree

/- ## the code's topological depth is the Spec's `lightSize` -/

mutual
theorem below_sub_T : ∀ (c : T), ∀ s ∈ c.splitsBelow, ∀ x ∈ s.below, x ∈ c.leaves
  | .node d p k => by
    intro s hs x hx
    have hk : k ≠ [] := by intro h; subst h; simp [T.splitsBelow, splitsL] at hs
    rw [leaves_node, if_neg hk]
    exact below_sub_L k s (by simpa [T.splitsBelow] using hs) x hx
theorem below_sub_L : ∀ (k : Kids), ∀ s ∈ splitsL k, ∀ x ∈ s.below, x ∈ leavesL k
  | [] => by intro s hs; simp [splitsL] at hs
  | (e, c) :: r => by
    intro s hs x hx
    simp only [splitsL, List.mem_cons, List.mem_append] at hs
    simp only [leavesL, List.mem_append]
    rcases hs with rfl | hs | hs
    · exact Or.inl hx
    · exact Or.inl (below_sub_T c s hs x hx)
    · exact Or.inr (below_sub_L r s hs x hx)
end

theorem lightSize_eq_topoDepth (t : T) (s : SplitE) (hs : s ∈ t.splits) :
    lightSize t.tipNames s.below = topoDepth t.tipNames.length s := by
  unfold lightSize topoDepth
  have hall : ∀ x ∈ s.below, t.tipNames.contains x = true := by
    intro x hx
    have := below_sub_L t.kids s hs x hx
    unfold T.tipNames
    simp [this]
  have : s.below.filter t.tipNames.contains = s.below := List.filter_eq_self.mpr hall
  simp only [this]
  exact Nat.min_comm _ _

end Gotree.C07

namespace Gotree.C07
open Gotree

/- ## the resolve oracle -/

theorem resolve_kids_one (t t' : T) (draws : List Nat) (h : resolve t draws = some t') :
    (t'.kids.length == 1) = (t.kids.length == 1) := by
  have h' := resolve_some t draws t' h
  cases t with
  | node d p k =>
    obtain ⟨k1, ds1, hk, hn⟩ := resolveT_unfold true d p k draws t' [] h'
    obtain ⟨_, hlen, _⟩ := resolveL_spec (fun _ => ()) permInv_unit k draws k1 ds1 hk
    obtain ⟨_, _, _, _, _, hcount⟩ := resolveNode_spec (fun _ => ()) true d p k1 ds1 t' [] hn
    simp only [if_true, Nat.add_zero] at hcount
    simp only [T.kids_node]
    split at hcount
    · rw [hcount, hlen]
    · have : ¬ k1.length ≤ 3 := by assumption
      have e1 : (t'.kids.length == 1) = false := by simp; omega
      have e2 : (k.length == 1) = false := by simp; omega
      rw [e1, e2]

def keyR (y : ObsR FB) : Key := (y.1.1, y.2.1, y.2.2.1, y.2.2.2.2.2.name)

def ktR (y : ObsR FB) : Key × Bool := (keyR y, y.2.2.2.2.1)

theorem ents_keys (all : List String) (t : T) (h1 : t.kids.length ≠ 1) :
    (ents all t).map Ent.key = (RT (FF all) t).map keyR := by
  have := ents_tup all t h1
  have h2 : (ents all t).map Ent.key = ((ents all t).map Ent.tup).map keyT := by
    rw [List.map_map]; rfl
  rw [h2, this]
  unfold RT
  rw [List.map_map, List.map_map]; rfl

theorem ents_kts (all : List String) (t : T) (h1 : t.kids.length ≠ 1) :
    (ents all t).map (fun e => (e.key, e.tip)) = (RT (FF all) t).map ktR := by
  have := ents_tup all t h1
  have h2 : (ents all t).map (fun e => (e.key, e.tip)) = ((ents all t).map Ent.tup).map (fun u => (keyT u, u.2.2.2.1)) := by
    rw [List.map_map]; rfl
  rw [h2, this]
  unfold RT
  rw [List.map_map, List.map_map]; rfl

/-- The resolve oracle accepts every tree `a` on the same tips and root whose observed branch list
    is that of `b` plus added branches, with equal distances, and binary when it has to be. -/
theorem resolveOK_of_obs (b a : T) (hb1 : b.kids.length ≠ 1) (ha1 : a.kids.length ≠ 1)
    (htips : a.tipNames.Perm b.tipNames) (hname : a.d = b.d)
    (ex : List (ObsR FB)) (hnew : ∀ x ∈ ex, IsNew x)
    (hobs : (RT (FF b.tipNames) a).Perm (RT (FF b.tipNames) b ++ ex))
    (hdist : ∀ x y : String, a.dist x y = b.dist x y)
    (hbin : b.noSingle = true → 2 ≤ b.kids.length → a.binary = true)
    (hdeg3 : deg3 a = true) :
    resolveOK b a = true := by
  unfold resolveOK
  simp only
  rw [ents_keys _ b hb1, ents_keys _ a ha1, ents_kts _ b hb1, ents_kts _ a ha1]
  have h1 : (sortS a.tipNames == sortS b.tipNames) = true := by
    rw [sortS_perm_eq htips]; exact beq_self_eq_true _
  have h2 : (a.name == b.name) = true := by
    unfold T.name; rw [hname]; exact beq_self_eq_true _
  have h3 : msub ((RT (FF b.tipNames) b).map keyR) ((RT (FF b.tipNames) a).map keyR) = true := by
    apply msub_append_of_perm _ (ex.map keyR)
    rw [← List.map_append]; exact hobs.map keyR
  have h4 : ((mdiff ((RT (FF b.tipNames) a).map ktR) ((RT (FF b.tipNames) b).map ktR)).all
      fun x => x.1.2.1 == 0 && x.1.2.2.1 == NIL && !x.2) = true := by
    have hp : (mdiff ((RT (FF b.tipNames) a).map ktR) ((RT (FF b.tipNames) b).map ktR)).Perm (ex.map ktR) := by
      apply mdiff_perm_append
      rw [← List.map_append]; exact hobs.map ktR
    rw [hp.all_eq]
    rw [List.all_eq_true]
    intro x hx
    obtain ⟨y, hy, rfl⟩ := List.mem_map.mp hx
    obtain ⟨e1, e2, _, e4, _⟩ := hnew y hy
    simp [ktR, keyR, e1, e2, e4]
  have h5 : (a.distMatrix == b.distMatrix) = true := by
    have : a.distMatrix = b.distMatrix := by
      unfold T.distMatrix
      simp only [sortS_perm_eq htips, hdist]
    rw [this]; exact beq_self_eq_true _
  have h6 : (!(b.noSingle && decide (2 ≤ b.kids.length)) || a.binary) = true := by
    by_cases hc : b.noSingle = true ∧ 2 ≤ b.kids.length
    · rw [hbin hc.1 hc.2]; simp
    · have : (b.noSingle && decide (2 ≤ b.kids.length)) = false := by
        rw [Bool.and_eq_false_iff]
        by_cases hn : b.noSingle = true
        · right; simpa using fun h => hc ⟨hn, h⟩
        · left; simpa using hn
      rw [this]; rfl
  have h7 : (!(b.noSingle && b.kids.length == 1) || binaryL a.kids) = true := by
    have : (b.kids.length == 1) = false := by simpa using hb1
    simp [this]
  simp only [h1, h2, h3, h4, h5, h6, h7, hdeg3, Bool.and_self]

end Gotree.C07

namespace Gotree.C07
open Gotree

mutual
theorem entsT_root (all : List String) : ∀ (c : T), ∀ e ∈ entsT all c, e.root = false
  | .node d p k => by
    intro e he
    exact entsL_root all _ k e (by simpa [entsT] using he)
theorem entsL_root (all : List String) (pd : Bool) : ∀ (k : Kids), ∀ e ∈ entsL all false false pd k, e.root = false
  | [] => by intro e he; simp [entsL] at he
  | (ed, c) :: r => by
    intro e he
    simp only [entsL, List.mem_cons, List.mem_append] at he
    rcases he with rfl | he | he
    · rfl
    · exact entsT_root all c e he
    · exact entsL_root all pd r e he
end

/- below the root branches no branch is protected -/
mutual
theorem entsT_prot (all : List String) : ∀ (c : T), ∀ e ∈ entsT all c, e.prot = false
  | .node d p k => by
    intro e he
    exact entsL_prot all k e (by simpa [entsT] using he)
theorem entsL_prot (all : List String) : ∀ (k : Kids), ∀ e ∈ entsL all false false false k, e.prot = false
  | [] => by intro e he; simp [entsL] at he
  | (ed, c) :: r => by
    intro e he
    simp only [entsL, List.mem_cons, List.mem_append] at he
    rcases he with rfl | he | he
    · rfl
    · exact entsT_prot all c e he
    · exact entsL_prot all r e he
end

end Gotree.C07
