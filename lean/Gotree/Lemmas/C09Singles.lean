/-
  C09 — `RemoveSingleNodes` (model: `removeSingles`) keeps the leaves and the set of
  clades of a tree: the bridge to the Spec for input trees with single-child nodes.
-/
import Gotree.Lemmas.C09BridgeLen

namespace Gotree.C09
open Gotree

/-- the two split lists have the same clades (sets of tips below a branch) -/
def SameClades (L L' : List SplitE) : Prop :=
  (∀ s ∈ L, ∃ s' ∈ L', s'.below = s.below) ∧ (∀ s' ∈ L', ∃ s ∈ L, s.below = s'.below)

theorem SameClades.append {a a' b b' : List SplitE} (h1 : SameClades a a') (h2 : SameClades b b') :
    SameClades (a ++ b) (a' ++ b') := by
  constructor
  · intro s hs
    rcases List.mem_append.1 hs with h | h
    · obtain ⟨s', h', e⟩ := h1.1 s h; exact ⟨s', List.mem_append_left _ h', e⟩
    · obtain ⟨s', h', e⟩ := h2.1 s h; exact ⟨s', List.mem_append_right _ h', e⟩
  · intro s hs
    rcases List.mem_append.1 hs with h | h
    · obtain ⟨s', h', e⟩ := h1.2 s h; exact ⟨s', List.mem_append_left _ h', e⟩
    · obtain ⟨s', h', e⟩ := h2.2 s h; exact ⟨s', List.mem_append_right _ h', e⟩

mutual
theorem removeSinglesT_spec (e : EdgeD) : ∀ t : T,
    (removeSinglesT e t).2.leaves = t.leaves ∧ SameClades (blk (e, t)) (blk (removeSinglesT e t))
  | .node d p k => by
    obtain ⟨hl, hc, hlen⟩ := removeSinglesL_spec k
    unfold removeSinglesT
    cases k with
    | nil =>
      show (T.node d p []).leaves = (T.node d p []).leaves ∧
        SameClades (blk (e, T.node d p [])) (blk (e, T.node d p []))
      exact ⟨rfl, fun s hs => ⟨s, hs, rfl⟩, fun s hs => ⟨s, hs, rfl⟩⟩
    | cons a b =>
      have hk : (a :: b) ≠ [] := by simp
      have hk' : removeSinglesL (a :: b) ≠ [] := by
        intro h; rw [h] at hlen; simp at hlen
      rw [blk_node _ _ _ _ hk]
      split
      · rename_i ec c heq
        rw [heq] at hl hc
        have hcl : c.leaves = leavesL (a :: b) := by
          have h0 : leavesL [(ec, c)] = c.leaves := by
            cases c with
            | node dc pc kc => cases kc <;> simp [leavesL, T.leaves]
          exact h0.symm.trans hl
        have hb : blk (ec, c) = splitsL [(ec, c)] := by
          rw [splitsL_cons]; show _ = _ ++ []; rw [List.append_nil]
        refine ⟨by simp only [T.leaves]; exact hcl, ?_, ?_⟩
        · intro s hs
          rcases List.mem_cons.1 hs with rfl | hs
          · exact ⟨⟨c.leaves, _, c.isLeaf⟩, List.mem_cons_self, hcl⟩
          · obtain ⟨s', hs', e'⟩ := hc.1 s hs
            rw [← hb] at hs'
            unfold blk at hs' ⊢
            rcases List.mem_cons.1 hs' with rfl | hs'
            · exact ⟨⟨c.leaves, _, c.isLeaf⟩, List.mem_cons_self, e'⟩
            · exact ⟨s', List.mem_cons_of_mem _ hs', e'⟩
        · intro s' hs'
          unfold blk at hs'
          rcases List.mem_cons.1 hs' with rfl | hs'
          · exact ⟨⟨leavesL (a :: b), e, false⟩, List.mem_cons_self, hcl.symm⟩
          · obtain ⟨s, hs, e'⟩ := hc.2 s' (by rw [← hb]; unfold blk; exact List.mem_cons_of_mem _ hs')
            exact ⟨s, List.mem_cons_of_mem _ hs, e'⟩
      · rw [blk_node _ _ _ _ hk']
        refine ⟨by rw [leaves_node_ne _ _ _ hk', leaves_node_ne _ _ _ hk, hl], ?_, ?_⟩
        · intro s hs
          rcases List.mem_cons.1 hs with rfl | hs
          · exact ⟨_, List.mem_cons_self, hl⟩
          · obtain ⟨s', hs', e'⟩ := hc.1 s hs
            exact ⟨s', List.mem_cons_of_mem _ hs', e'⟩
        · intro s' hs'
          rcases List.mem_cons.1 hs' with rfl | hs'
          · exact ⟨_, List.mem_cons_self, hl.symm⟩
          · obtain ⟨s, hs, e'⟩ := hc.2 s' hs'
            exact ⟨s, List.mem_cons_of_mem _ hs, e'⟩
theorem removeSinglesL_spec : ∀ k : Kids,
    leavesL (removeSinglesL k) = leavesL k ∧ SameClades (splitsL k) (splitsL (removeSinglesL k)) ∧
    (removeSinglesL k).length = k.length
  | [] => ⟨rfl, ⟨fun s hs => ⟨s, hs, rfl⟩, fun s hs => ⟨s, hs, rfl⟩⟩, rfl⟩
  | (e, t) :: r => by
    obtain ⟨h1, h2⟩ := removeSinglesT_spec e t
    obtain ⟨i1, i2, i3⟩ := removeSinglesL_spec r
    unfold removeSinglesL
    refine ⟨?_, ?_, by simp [i3]⟩
    · rw [leavesL_cons, leavesL_cons, h1, i1]
    · rw [splitsL_cons, splitsL_cons]
      exact SameClades.append h2 i2
end

theorem removeSingles_spec (t : T) :
    (removeSingles t).tipNames = t.tipNames ∧ SameClades t.splits (removeSingles t).splits ∧
    (removeSingles t).kids.length = t.kids.length := by
  cases t with
  | node d p k =>
    obtain ⟨h1, h2, h3⟩ := removeSinglesL_spec k
    refine ⟨?_, h2, h3⟩
    show (T.node d p (removeSinglesL k)).tipNames = (T.node d p k).tipNames
    unfold T.tipNames
    simp only [T.kids_node, T.name, T.d_node, h1, h3]
    first | rfl | skip

theorem hasBip_of_sameClades {tips : List String} {L L' : List SplitE} (h : SameClades L L') (k : List String) :
    HasBip tips L k ↔ HasBip tips L' k := by
  unfold HasBip
  constructor
  · rintro ⟨s, hs, hss⟩
    obtain ⟨s', hs', e⟩ := h.1 s hs
    exact ⟨s', hs', by rw [e]; exact hss⟩
  · rintro ⟨s', hs', hss⟩
    obtain ⟨s, hs, e⟩ := h.2 s' hs'
    exact ⟨s, hs, by rw [e]; exact hss⟩

/-- the bipartitions of a tree are those of its normal form -/
theorem hasBip_norm (t : T) (k : List String) (hnd : t.tipNames.Nodup) :
    HasBip t.tipNames t.splits k ↔ HasBip t.tipNames (norm t).splits k := by
  obtain ⟨h1, h2, _⟩ := removeSingles_spec t
  rw [hasBip_of_sameClades h2 k]
  have := hasBip_unroot (removeSingles t) k (by rw [h1]; exact hnd)
  rw [h1] at this
  exact this

/-- one tree, single-child nodes allowed: the Spec's membership test is the model's -/
theorem spec_has_iff_norm (univ taxa : List String) (t : T) (k : List String)
    (hk : k.Nodup) (hnd : t.tipNames.Nodup) (hne : t.tipNames ≠ []) (htaxa : taxa.Nodup)
    (hmem : ∀ x, x ∈ t.tipNames ↔ x ∈ taxa) (hut : ∀ a, a ∈ univ ↔ a ∈ taxa) :
    t.usplitsAll.any (·.side == canonSide taxa k) = hasSplit univ (norm t) (bits univ k) := by
  rw [Bool.eq_iff_iff, usplitsAll_any, hasSplit_iff]
  have hmu : ∀ a, a ∈ t.tipNames ↔ a ∈ univ := fun a => (hmem a).trans (hut a).symm
  have h1 : (∃ s ∈ t.splits, canonSide t.tipNames s.below = canonSide taxa k) ↔ HasBip t.tipNames t.splits k := by
    unfold HasBip
    constructor
    · rintro ⟨s, hs, h⟩
      refine ⟨s, hs, ?_⟩
      have hsnd : s.below.Nodup := (below_sublist_L t.kids s hs).nodup (leavesL_nodup_of_tipNames hnd)
      exact (canonSide_eq_iff t.tipNames taxa s.below k hnd htaxa hmem hne hsnd hk).1 h
    · rintro ⟨s, hs, h⟩
      refine ⟨s, hs, ?_⟩
      have hsnd : s.below.Nodup := (below_sublist_L t.kids s hs).nodup (leavesL_nodup_of_tipNames hnd)
      exact (canonSide_eq_iff t.tipNames taxa s.below k hnd htaxa hmem hne hsnd hk).2 h
  rw [h1, hasBip_norm t k hnd]
  unfold HasBip
  constructor
  · rintro ⟨s, hs, h⟩
    exact ⟨s, hs, (eqc_bits_iff univ k s.below).2 (SameSide.of_mem_iff hmu h)⟩
  · rintro ⟨s, hs, h⟩
    exact ⟨s, hs, SameSide.of_mem_iff (fun a => (hmu a).symm) ((eqc_bits_iff univ k s.below).1 h)⟩

/-- the Spec's count of a canonical side is the model's count of the bitset
    (single-child nodes allowed) -/
theorem spec_count_eq_norm (ts : List T) (k : List String) (hk : k.Nodup)
    (hnd : ∀ t ∈ ts, t.tipNames.Nodup) (hne : ∀ t ∈ ts, t.tipNames ≠ [])
    (hmem : ∀ t ∈ ts, ∀ x, x ∈ t.tipNames ↔ x ∈ C09S.taxa ts)
    (hut : ∀ a, a ∈ univOf ts ↔ a ∈ C09S.taxa ts) (htaxa : (C09S.taxa ts).Nodup) :
    C09S.count ts (canonSide (C09S.taxa ts) k) = count ts (bits (univOf ts) k) := by
  unfold C09S.count count countM trees
  rw [← List.countP_eq_length_filter, List.countP_map]
  apply List.countP_congr
  intro t ht
  have := spec_has_iff_norm (univOf ts) (C09S.taxa ts) t k hk (hnd t ht) (hne t ht) htaxa (hmem t ht) hut
  simp only [Function.comp]
  rw [this]

/-- the tips of the normal form are those of the tree -/
theorem norm_tipNames_perm (t : T) (h3 : 3 ≤ (norm t).kids.length) : (norm t).tipNames.Perm t.tipNames := by
  obtain ⟨h1, _, _⟩ := removeSingles_spec t
  have := unroot_tipNames_perm (removeSingles t) h3
  rw [h1] at this
  exact this

/-- for a collection of the domain the hypotheses of `spec_count_eq_norm` hold -/
theorem bridge_hyps_norm (ts : List T) (hd : Dom ts) :
    (∀ t ∈ ts, t.tipNames.Nodup) ∧ (∀ t ∈ ts, t.tipNames ≠ []) ∧
    (∀ t ∈ ts, ∀ x, x ∈ t.tipNames ↔ x ∈ C09S.taxa ts) ∧
    (∀ a, a ∈ univOf ts ↔ a ∈ C09S.taxa ts) ∧ (C09S.taxa ts).Nodup := by
  obtain ⟨t0, r, rfl⟩ : ∃ t0 r, ts = t0 :: r := by
    cases ts with
    | nil => exact absurd rfl hd.ne
    | cons a b => exact ⟨a, b, rfl⟩
  have hu : ∀ t ∈ t0 :: r, norm t ∈ trees (t0 :: r) := fun t ht => List.mem_map.2 ⟨t, ht, rfl⟩
  have hperm : ∀ t ∈ t0 :: r, (norm t).tipNames.Perm t.tipNames :=
    fun t ht => norm_tipNames_perm t (hd.deg _ (hu t ht))
  have hutn : ∀ t ∈ t0 :: r, (norm t).tipNames = leavesL (norm t).kids := fun t ht =>
    tipNames_eq_leaves _ (by have := hd.deg _ (hu t ht); omega)
  have hnd : ∀ t ∈ t0 :: r, t.tipNames.Nodup := fun t ht =>
    (hperm t ht).nodup_iff.1 (by rw [hutn t ht]; exact hd.nodup _ (hu t ht))
  have hmem0 : ∀ t ∈ t0 :: r, ∀ x, x ∈ t.tipNames ↔ x ∈ leavesL (norm t0).kids := fun t ht x => by
    rw [← (hperm t ht).mem_iff, hutn t ht]
    exact (hd.same _ (hu t ht)).mem_iff
  have htaxa : ∀ x, x ∈ C09S.taxa (t0 :: r) ↔ x ∈ leavesL (norm t0).kids := hmem0 t0 (by simp)
  refine ⟨hnd, ?_, ?_, ?_, hnd t0 (by simp)⟩
  · intro t ht h
    have h3 := hd.deg _ (hu t ht)
    have hl := leavesL_len (norm t).kids
    have : (leavesL (norm t).kids).length = 0 := by
      rw [← hutn t ht, (hperm t ht).length_eq, h]; rfl
    omega
  · intro t ht x
    rw [hmem0 t ht, htaxa]
  · intro a
    show a ∈ sortN (norm t0).tipNames ↔ _
    rw [(sortN_perm _).mem_iff, hutn t0 (by simp), htaxa]

end Gotree.C09
