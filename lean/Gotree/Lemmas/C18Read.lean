/-
  C18 — lemmas about the line readers of Model/C18Read.lean (core Lean only, no Mathlib).
-/
import Gotree.Lemmas.C18
import Gotree.Model.C18Read

namespace Gotree.C18

/-- a map built line by line with `m[k] = v` has distinct keys -/
theorem readLoop_nodupKeys (entry : String → Option (String × String)) :
    ∀ (lines : List String) (nl : Nat) (m r : List (String × String)), nodupKeys m = true →
      readLoop entry nl m lines = .ok r → nodupKeys r = true
  | [], _, m, r, hm, h => by
    simp only [readLoop, Except.ok.injEq] at h
    subst h; exact hm
  | line :: rest, nl, m, r, hm, h => by
    simp only [readLoop] at h
    cases he : entry line with
    | none => simp [he] at h
    | some kv =>
      obtain ⟨k, v⟩ := kv
      simp only [he] at h
      exact readLoop_nodupKeys entry rest _ _ r (nodupKeys_put m k v hm) h

theorem lastBinding_cons (entry : String → Option (String × String)) (line : String) (rest : List String)
    (init : Option String) (k : String) :
    lastBinding entry (line :: rest) init k =
      lastBinding entry rest (match entry line with
        | some (a, b) => if a == k then some b else init
        | none => init) k := by
  unfold lastBinding
  rw [List.foldl_cons]
  cases entry line <;> rfl

/-- what the built map answers = the last line of the file that binds the key (else what was there before) -/
theorem readLoop_get (entry : String → Option (String × String)) :
    ∀ (lines : List String) (nl : Nat) (m r : List (String × String)),
      readLoop entry nl m lines = .ok r → ∀ k, get r k = lastBinding entry lines (get m k) k
  | [], _, m, r, h, k => by
    simp only [readLoop, Except.ok.injEq] at h
    subst h; simp [lastBinding]
  | line :: rest, nl, m, r, h, k => by
    simp only [readLoop] at h
    cases he : entry line with
    | none => simp [he] at h
    | some kv =>
      obtain ⟨a, b⟩ := kv
      simp only [he] at h
      rw [readLoop_get entry rest _ _ r h k, lastBinding_cons, he, get_put]

/-- an error names the first line that has not exactly two columns (1-based when started at 1) -/
theorem readLoop_error (entry : String → Option (String × String)) :
    ∀ (lines : List String) (nl : Nat) (m : List (String × String)) (n : Nat),
      readLoop entry nl m lines = .error n →
        nl ≤ n ∧ ((lines.drop (n - nl)).head?.bind entry = none ∧ (lines.drop (n - nl)).head?.isSome) ∧
          ∀ i, i < n - nl → ((lines.drop i).head?.bind entry).isSome
  | [], _, _, _, h => by simp [readLoop] at h
  | line :: rest, nl, m, n, h => by
    simp only [readLoop] at h
    cases he : entry line with
    | none =>
      simp only [he, Except.error.injEq] at h
      subst h
      simp [he]
    | some kv =>
      obtain ⟨a, b⟩ := kv
      simp only [he] at h
      have ih := readLoop_error entry rest (nl + 1) _ n h
      have hlt : nl < n := by omega
      have hd : n - nl = (n - (nl + 1)) + 1 := by omega
      refine ⟨by omega, ?_, ?_⟩
      · rw [hd, List.drop_succ_cons]; exact ih.2.1
      · intro i hi
        cases i with
        | zero => simp [he]
        | succ j =>
          rw [List.drop_succ_cons]
          exact ih.2.2 j (by omega)

/-! ## RenameAuto: the name map is only looked up and extended -/

theorem renameAutoLoop_nodupKeys (internals tips : Bool) (length : Nat) :
    ∀ (nodes : List (String × Bool)) (i : Nat) (acc : List String) (curid : Nat) (nm : List (String × String))
      (names : List String) (c : Nat) (m : List (String × String)), nodupKeys nm = true →
      renameAutoLoop internals tips length i nodes acc curid nm = .ok names c m → nodupKeys m = true
  | [], _, _, _, nm, _, _, m, hn, h => by
    rw [renameAutoLoop] at h
    injection h with _ _ h3
    rw [← h3]; exact hn
  | (name, isTip) :: r, i, acc, curid, nm, names, c, m, hn, h => by
    rw [renameAutoLoop] at h
    by_cases hc : ((tips && isTip) || (internals && !isTip)) = true
    · rw [if_pos hc] at h
      cases hg : get nm (autoKey i name isTip) with
      | some newname =>
        rw [hg] at h
        exact renameAutoLoop_nodupKeys internals tips length r _ _ _ _ names c m hn h
      | none =>
        rw [hg] at h
        by_cases hl : ((autoName (autoPrefix isTip) length curid).length != length) = true
        · rw [if_pos hl] at h
          injection h
        · rw [if_neg hl] at h
          exact renameAutoLoop_nodupKeys internals tips length r _ _ _ _ names c m (nodupKeys_put _ _ _ hn) h
    · rw [if_neg hc] at h
      exact renameAutoLoop_nodupKeys internals tips length r _ _ _ _ names c m hn h

theorem renameAuto_nodupKeys (internals tips : Bool) (length : Nat) (nodes : List (String × Bool)) (curid : Nat)
    (nm : List (String × String)) (names : List String) (c : Nat) (m : List (String × String))
    (hn : nodupKeys nm = true) (h : renameAuto internals tips length nodes curid nm = .ok names c m) :
    nodupKeys m = true := by
  unfold renameAuto at h
  cases hl : renameAutoLoop internals tips length 0 nodes [] curid nm with
  | ok names' c' m' =>
    rw [hl] at h
    simp only at h
    split at h
    · injection h
    · injection h with _ _ h3
      rw [← h3]
      exact renameAutoLoop_nodupKeys internals tips length nodes 0 [] curid nm names' c' m' hn hl
  | idTooLong a b => rw [hl] at h; simp only at h; injection h
  | dupTips => rw [hl] at h; simp only at h; injection h

theorem renameAutoMap_nodupKeys (internals tips : Bool) (length : Nat) :
    ∀ (trees : List (List (String × Bool))) (curid : Nat) (nm m : List (String × String)), nodupKeys nm = true →
      renameAutoMap internals tips length trees curid nm = some m → nodupKeys m = true
  | [], _, nm, m, hn, h => by
    rw [renameAutoMap] at h
    injection h with h
    rw [← h]; exact hn
  | t :: r, curid, nm, m, hn, h => by
    rw [renameAutoMap] at h
    cases hr : renameAuto internals tips length t curid nm with
    | ok names c m' =>
      rw [hr] at h
      exact renameAutoMap_nodupKeys internals tips length r c m' m
        (renameAuto_nodupKeys internals tips length t curid nm names c m' hn hr) h
    | idTooLong a b => rw [hr] at h; simp at h
    | dupTips => rw [hr] at h; simp at h

/-- the map file of the `--auto` path is `nameMapLines` of the final map -/
theorem renameAutoTrees_snd (internals tips : Bool) (length : Nat) :
    ∀ (trees : List (List (String × Bool))) (curid : Nat) (nm : List (String × String)) (out : List (List String)),
      (renameAutoTrees internals tips length trees curid nm out).2 =
        (renameAutoMap internals tips length trees curid nm).map nameMapLines
  | [], _, _, _ => by simp [renameAutoTrees, renameAutoMap]
  | t :: r, curid, nm, out => by
    rw [renameAutoTrees, renameAutoMap]
    cases hr : renameAuto internals tips length t curid nm with
    | ok names c m => simp only; exact renameAutoTrees_snd internals tips length r c m _
    | idTooLong a b => simp
    | dupTips => simp

end Gotree.C18
