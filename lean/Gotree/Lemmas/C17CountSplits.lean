/-
  C17 — the number of non-trivial splits of a binary tree is at most the number of its
  branches whose lower end is not a tip (a tip branch defines a trivial split).
-/
import Gotree.Lemmas.C17Canon
import Gotree.Lemmas.C17OneSplit

namespace Gotree.C17
open Gotree

/-- the tips below a tip branch: one name -/
theorem tip_entry_singleton : ∀ (k : Kids), ∀ s ∈ splitsL k, s.tip = true → ∃ x, s.below = [x] := by
  have main : ∀ (t : T), ∀ s ∈ splitsL t.kids, s.tip = true → ∃ x, s.below = [x] := by
    intro t
    induction t using T.induct with
    | h d p k ih =>
      simp only [T.kids_node]
      have : ∀ (r : Kids), (∀ et ∈ r, et ∈ k) → ∀ s ∈ splitsL r, s.tip = true → ∃ x, s.below = [x] := by
        intro r
        induction r with
        | nil => intro _ s hs; simp [splitsL] at hs
        | cons et r ihr =>
          obtain ⟨e, c⟩ := et
          intro hsub s hs htip
          rw [splitsL_cons] at hs
          simp only [List.mem_cons, List.mem_append] at hs
          rcases hs with rfl | hs | hs
          · simp only at htip
            obtain ⟨dc, pc, kc⟩ := c
            cases kc with
            | nil => exact ⟨dc.name, by simp [T.leaves]⟩
            | cons _ _ => simp [T.isLeaf] at htip
          · exact ih (e, c) (hsub _ (by simp)) s (by simpa [splitsBelow_eq] using hs) htip
          · exact ihr (fun et het => hsub et (by simp [het])) s hs htip
      exact this k (fun _ h => h)
  intro k
  exact main (.node default 0 k)

theorem length_le_one_of {α : Type} {l : List α} {a : α} (hn : l.Nodup) (h : ∀ b ∈ l, b = a) : l.length ≤ 1 := by
  match l, hn, h with
  | [], _, _ => simp
  | [_], _, _ => simp
  | x :: y :: r, hn, h =>
    have hx := h x (by simp)
    have hy := h y (by simp)
    simp only [List.nodup_cons, List.mem_cons, not_or] at hn
    exact absurd (hx.trans hy.symm) hn.1.1

/-- a side with one taxon is trivial -/
theorem lightSize_singleton {all : List String} (ha : all.Nodup) (x : String) :
    lightSize all (canonSide all [x]) ≤ 1 := by
  cases hm : minS all with
  | none =>
    have : all = [] := minS_eq_none.1 hm
    subst this
    unfold lightSize
    have : (canonSide [] [x]).filter ([] : List String).contains = [] := by
      apply List.filter_eq_nil_iff.2
      intro a _
      simp
    rw [this]
    simp
  | some m =>
    have hmem := mem_canonSide (X := [x]) hm
    have hY := canonSide_nodup (X := [x]) ha (by simp)
    have hsub : ∀ z ∈ canonSide all [x], z ∈ all := fun z hz => ((hmem z).mp hz).1
    have hfil : (canonSide all [x]).filter all.contains = canonSide all [x] :=
      List.filter_eq_self.2 (fun z hz => by simpa using hsub z hz)
    have hlen := length_split ha hY hsub
    unfold lightSize
    rw [hfil]
    show min (canonSide all [x]).length (all.length - (canonSide all [x]).length) ≤ 1
    by_cases hmx : m = x
    · -- the side is everything but `x`: its complement has at most one member
      have : (all.filter fun z => !(canonSide all [x]).contains z).length ≤ 1 := by
        apply length_le_one_of (ha.sublist List.filter_sublist) (a := x)
        intro b hb
        simp only [List.mem_filter, Bool.not_eq_true', List.contains_eq_mem, decide_eq_false_iff_not, hmem] at hb
        obtain ⟨hb1, hb2⟩ := hb
        apply Classical.byContradiction
        intro hne
        apply hb2
        refine ⟨hb1, ?_⟩
        simp [hne, hmx]
      omega
    · have : (canonSide all [x]).length ≤ 1 := by
        apply length_le_one_of hY (a := x)
        intro b hb
        have := ((hmem b).mp hb).2
        simp only [List.mem_singleton] at this
        exact this.mpr hmx
      omega

/-- at most as many non-trivial splits as branches whose lower end is not a tip -/
theorem usplitSet_length_le (t : T) (hu : t.tipNames.Nodup) : t.usplitSet.length ≤ t.internalEdges.length := by
  have h1 : t.internalEdges.length = ((t.splits.filter (fun s => !s.tip)).map fun s => canonSide t.tipNames s.below).length := by
    simp [T.internalEdges]
  rw [h1]
  apply List.Nodup.length_le_of_subset (usplitSet_nodup t)
  intro a ha
  obtain ⟨⟨s, hs, heq⟩, hl⟩ := (mem_usplitSet t a).mp ha
  simp only [List.mem_map, List.mem_filter, Bool.not_eq_eq_eq_not, Bool.not_true]
  refine ⟨s, ⟨hs, ?_⟩, heq⟩
  cases htip : s.tip with
  | false => rfl
  | true =>
    exfalso
    obtain ⟨x, hx⟩ := tip_entry_singleton t.kids s (by simpa [T.splits] using hs) htip
    rw [hx] at heq
    have := lightSize_singleton hu x
    rw [heq] at this
    omega

end Gotree.C17
