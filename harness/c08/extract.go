package c08

import (
	"bytes"
	"fmt"
	"go/ast"
	"go/parser"
	"go/printer"
	"go/token"
	"os"
	"path/filepath"
	"strconv"
	"strings"
)

// GenTables regenerates <out>/C08Glue.lean from the working tree: the facts about
// cmd/comparetrees.go (flags, and in source order every tree.* call, fmt.Printf and map-cell
// assignment of RunE with the flag tests on its path) that the Lean model of the command
// interprets, and the facts about tree/algo.go, tree/tree.go, tree/edge.go (comparison
// operators, index calls, the positional stats records, NIL_LENGTH) that the model of the
// library functions follows.  Theorem glue_check of Proofs/C08.lean re-decides that the table
// equals the one the model was written from.
func GenTables(repo, out string) error {
	fset := token.NewFileSet()
	parse := func(rel string) (*ast.File, error) {
		return parser.ParseFile(fset, filepath.Join(repo, rel), nil, 0)
	}
	txt := func(n ast.Node) string {
		var b bytes.Buffer
		printer.Fprint(&b, fset, n)
		return strings.Join(strings.Fields(b.String()), " ")
	}
	q := func(s string) string { // a Lean string literal
		r := strings.NewReplacer("\\", "\\\\", "\"", "\\\"", "\n", "\\n", "\t", "\\t")
		return "\"" + r.Replace(s) + "\""
	}
	qs := func(l []string) string {
		o := make([]string, len(l))
		for i, s := range l {
			o[i] = q(s)
		}
		return "[" + strings.Join(o, ", ") + "]"
	}

	// ---- cmd/comparetrees.go
	cf, err := parse("cmd/comparetrees.go")
	if err != nil {
		return err
	}
	flagVars := map[string]bool{}
	var flags []string
	var runE *ast.FuncLit
	ast.Inspect(cf, func(n ast.Node) bool {
		switch x := n.(type) {
		case *ast.KeyValueExpr:
			if k, ok := x.Key.(*ast.Ident); ok && k.Name == "RunE" {
				if fl, ok := x.Value.(*ast.FuncLit); ok && runE == nil {
					runE = fl
				}
			}
		case *ast.CallExpr:
			sel, ok := x.Fun.(*ast.SelectorExpr)
			if !ok || (sel.Sel.Name != "BoolVar" && sel.Sel.Name != "BoolVarP") || !strings.HasPrefix(txt(sel.X), "compareTreesCmd.") {
				return true
			}
			a := x.Args
			v := strings.TrimPrefix(txt(a[0]), "&")
			name, _ := strconv.Unquote(txt(a[1]))
			short, dflt := "", txt(a[2])
			if sel.Sel.Name == "BoolVarP" {
				short, _ = strconv.Unquote(txt(a[2]))
				dflt = txt(a[3])
			}
			flagVars[v] = true
			flags = append(flags, fmt.Sprintf("⟨%s, %s, %s, %s⟩", q(name), q(short), q(v), q(dflt)))
		}
		return true
	})
	if runE == nil {
		return fmt.Errorf("c08: RunE of compare trees not found")
	}
	delete(flagVars, "compareTips") // an argument, never a test
	var events []string
	type cond struct {
		v string
		b bool
	}
	pathStr := func(p []cond) string {
		o := make([]string, len(p))
		for i, c := range p {
			o[i] = fmt.Sprintf("(%s, %v)", q(c.v), c.b)
		}
		return "[" + strings.Join(o, ", ") + "]"
	}
	// an argument: a sum of identifiers / selectors, a map cell, or anything else as text
	var summands func(e ast.Expr) ([]string, bool)
	summands = func(e ast.Expr) ([]string, bool) {
		switch x := e.(type) {
		case *ast.Ident, *ast.SelectorExpr:
			return []string{txt(x)}, true
		case *ast.ParenExpr:
			return summands(x.X)
		case *ast.BinaryExpr:
			if x.Op == token.ADD {
				l, ok1 := summands(x.X)
				r, ok2 := summands(x.Y)
				return append(l, r...), ok1 && ok2
			}
		}
		return nil, false
	}
	arg := func(e ast.Expr) string {
		if ix, ok := e.(*ast.IndexExpr); ok {
			return ".cell " + q(txt(ix.X))
		}
		if l, ok := summands(e); ok {
			return ".sum " + qs(l)
		}
		return ".other " + q(txt(e))
	}
	pieces := func(f string) string {
		var out []string
		lit := ""
		rs := []rune(f)
		for i := 0; i < len(rs); i++ {
			if rs[i] == '%' && i+1 < len(rs) && rs[i+1] != '%' {
				if lit != "" {
					out = append(out, ".lit "+q(lit))
					lit = ""
				}
				out = append(out, fmt.Sprintf(".verb '%c'", rs[i+1]))
				i++
			} else {
				lit += string(rs[i])
			}
		}
		if lit != "" {
			out = append(out, ".lit "+q(lit))
		}
		return "[" + strings.Join(out, ", ") + "]"
	}
	event := func(p []cond, kind, text string, args []ast.Expr) {
		a := make([]string, len(args))
		for i, e := range args {
			a[i] = arg(e)
		}
		f := "[]"
		if kind == "printf" {
			f = pieces(text)
		}
		events = append(events, fmt.Sprintf("⟨%s, %s, %s, %s, [%s]⟩", pathStr(p), q(kind), q(text), f, strings.Join(a, ", ")))
	}
	// calls / assignments inside one statement that is not itself a block
	scan := func(p []cond, n ast.Node) {
		ast.Inspect(n, func(m ast.Node) bool {
			switch x := m.(type) {
			case *ast.BlockStmt, *ast.FuncLit:
				return false
			case *ast.CallExpr:
				if sel, ok := x.Fun.(*ast.SelectorExpr); ok {
					switch txt(sel.X) {
					case "tree":
						event(p, "call", sel.Sel.Name, x.Args)
					case "fmt":
						if sel.Sel.Name == "Printf" && len(x.Args) > 0 {
							f, _ := strconv.Unquote(txt(x.Args[0]))
							event(p, "printf", f, x.Args[1:])
						}
					}
				}
			case *ast.AssignStmt:
				if len(x.Lhs) == 1 && len(x.Rhs) == 1 {
					if ix, ok := x.Lhs[0].(*ast.IndexExpr); ok {
						event(p, "assign", txt(ix.X), x.Rhs)
					}
				}
			}
			return true
		})
	}
	terminates := func(b *ast.BlockStmt) bool {
		if len(b.List) == 0 {
			return false
		}
		_, ok := b.List[len(b.List)-1].(*ast.ReturnStmt)
		return ok
	}
	var walk func(p []cond, list []ast.Stmt)
	var walkIf func(p []cond, s *ast.IfStmt) (string, bool)
	walkIf = func(p []cond, s *ast.IfStmt) (string, bool) {
		if s.Init != nil {
			scan(p, s.Init)
		}
		v := txt(s.Cond)
		isFlag := flagVars[v]
		pt, pf := p, p
		if isFlag {
			pt = append(append([]cond{}, p...), cond{v, true})
			pf = append(append([]cond{}, p...), cond{v, false})
		}
		walk(pt, s.Body.List)
		switch e := s.Else.(type) {
		case *ast.BlockStmt:
			walk(pf, e.List)
		case *ast.IfStmt:
			walkIf(pf, e)
		}
		return v, isFlag && terminates(s.Body)
	}
	walk = func(p []cond, list []ast.Stmt) {
		for _, st := range list {
			switch s := st.(type) {
			case *ast.IfStmt:
				if v, term := walkIf(p, s); term {
					p = append(append([]cond{}, p...), cond{v, false})
				}
			case *ast.ForStmt:
				walk(p, s.Body.List)
			case *ast.RangeStmt:
				walk(p, s.Body.List)
			case *ast.BlockStmt:
				walk(p, s.List)
			default:
				scan(p, st)
			}
		}
	}
	walk(nil, runE.Body.List)

	// ---- the library functions
	var comparisons, calls, records, consts []string
	structs := map[string][]string{}
	funcs := map[string]*ast.FuncDecl{}
	for _, rel := range []string{"tree/algo.go", "tree/tree.go", "tree/edge.go"} {
		f, err := parse(rel)
		if err != nil {
			return err
		}
		for _, d := range f.Decls {
			switch x := d.(type) {
			case *ast.FuncDecl:
				if x.Body != nil {
					if _, dup := funcs[x.Name.Name]; !dup || x.Recv != nil {
						funcs[x.Name.Name] = x
					}
				}
			case *ast.GenDecl:
				for _, sp := range x.Specs {
					switch y := sp.(type) {
					case *ast.TypeSpec:
						if st, ok := y.Type.(*ast.StructType); ok {
							for _, fl := range st.Fields.List {
								for _, nm := range fl.Names {
									structs[y.Name.Name] = append(structs[y.Name.Name], nm.Name)
								}
							}
						}
					case *ast.ValueSpec:
						for i, nm := range y.Names {
							if nm.Name == "NIL_LENGTH" && i < len(y.Values) {
								consts = append(consts, fmt.Sprintf("(%s, %s)", q(nm.Name), q(txt(y.Values[i]))))
							}
						}
					}
				}
			}
		}
	}
	cmpOps := map[token.Token]bool{token.LSS: true, token.LEQ: true, token.GTR: true, token.GEQ: true, token.EQL: true, token.NEQ: true}
	// Names do not matter: inside a group of expressions (the comparisons of one function, the
	// arguments of one call, the fields of one record) the receiver is printed `recv`, the
	// parameters `p0, p1, …` and every other variable declared inside the function `v0, v1, …` in
	// the order of first appearance in the group.
	newRenamer := func(fd *ast.FuncDecl) func(ast.Node) string {
		names := map[*ast.Object]string{}
		if fd.Recv != nil {
			for _, f := range fd.Recv.List {
				for _, nm := range f.Names {
					if nm.Obj != nil {
						names[nm.Obj] = "recv"
					}
				}
			}
		}
		k := 0
		for _, f := range fd.Type.Params.List {
			for _, nm := range f.Names {
				if nm.Obj != nil {
					names[nm.Obj] = fmt.Sprintf("p%d", k)
				}
				k++
			}
		}
		nv := 0
		return func(n ast.Node) string {
			type saved struct {
				id  *ast.Ident
				old string
			}
			var sv []saved
			ast.Inspect(n, func(m ast.Node) bool {
				id, ok := m.(*ast.Ident)
				if !ok || id.Obj == nil || id.Obj.Kind != ast.Var || id.Obj.Pos() < fd.Pos() || id.Obj.Pos() > fd.End() {
					return true
				}
				nm, seen := names[id.Obj]
				if !seen {
					nm = fmt.Sprintf("v%d", nv)
					nv++
					names[id.Obj] = nm
				}
				sv = append(sv, saved{id, id.Name})
				id.Name = nm
				return true
			})
			out := txt(n)
			for _, x := range sv {
				x.id.Name = x.old
			}
			return out
		}
	}
	for _, fn := range []string{"Compare", "lengthOrZero", "CompareWeighted", "CompareTipIndexes", "FindEdge"} {
		fd := funcs[fn]
		if fd == nil {
			return fmt.Errorf("c08: function %s not found", fn)
		}
		cmpName := newRenamer(fd)
		opnd := func(e ast.Expr) string {
			neg := false
			x := e
			if u, ok := x.(*ast.UnaryExpr); ok && u.Op == token.SUB {
				neg, x = true, u.X
			}
			if l, ok := x.(*ast.BasicLit); ok && l.Kind == token.INT {
				v := l.Value
				if neg {
					v = "-" + v
				}
				return "(.lit (" + v + "))"
			}
			return "(.var " + q(cmpName(e)) + ")"
		}
		ast.Inspect(fd.Body, func(n ast.Node) bool {
			switch x := n.(type) {
			case *ast.BinaryExpr:
				if cmpOps[x.Op] && txt(x.X) != "nil" && txt(x.Y) != "nil" {
					comparisons = append(comparisons, fmt.Sprintf("⟨%s, %s, %s, %s⟩", q(fn), opnd(x.X), q(x.Op.String()), opnd(x.Y)))
				}
			case *ast.CallExpr:
				name := ""
				switch f := x.Fun.(type) {
				case *ast.Ident:
					name = f.Name
				case *ast.SelectorExpr:
					name = f.Sel.Name
				}
				if (fn == "Compare" || fn == "CompareWeighted") && (name == "NewEdgeIndex" || name == "PutEdgeValue" || name == "Value") {
					ren := newRenamer(fd)
					a := make([]string, len(x.Args))
					for i, e := range x.Args {
						a[i] = ren(e)
					}
					if name == "NewEdgeIndex" {
						a = a[len(a)-1:] // the load factor (the initial capacity is not something the model depends on)
					}
					calls = append(calls, fmt.Sprintf("(%s, %s, %s)", q(fn), q(name), qs(a)))
				}
			case *ast.CompositeLit:
				tn := txt(x.Type)
				fields := structs[tn]
				if (tn == "BipartitionStats" || tn == "WeightedBipartitionStats") && len(fields) > 0 {
					// (field, expression) in the declaration order of the fields, positional or keyed
					vals := map[string]ast.Expr{}
					for i, e := range x.Elts {
						if kv, ok := e.(*ast.KeyValueExpr); ok {
							vals[txt(kv.Key)] = kv.Value
						} else if i < len(fields) {
							vals[fields[i]] = e
						}
					}
					ren := newRenamer(fd)
					var prs []string
					for _, f := range fields {
						if e, ok := vals[f]; ok {
							prs = append(prs, fmt.Sprintf("(%s, %s)", q(f), q(ren(e))))
						}
					}
					records = append(records, fmt.Sprintf("(%s, [%s])", q(fn), strings.Join(prs, ", ")))
				}
			}
			return true
		})
	}

	var b strings.Builder
	b.WriteString("-- GENERATED by harness/c08/extract.go (vh gen-tables) from cmd/comparetrees.go, tree/algo.go, tree/tree.go, tree/edge.go; do not edit\n")
	b.WriteString("import Gotree.Model.C08Cli\n\nnamespace Gotree.Gen.C08Glue\nopen Gotree.C08\n\n")
	list := func(name, typ string, rows []string) {
		fmt.Fprintf(&b, "def %s : %s := [\n  %s]\n\n", name, typ, strings.Join(rows, ",\n  "))
	}
	list("flags", "List FlagRow", flags)
	list("events", "List Event", events)
	list("comparisons", "List Cmp", comparisons)
	list("calls", "List (String × String × List String)", calls)
	list("records", "List (String × List (String × String))", records)
	list("consts", "List (String × String)", consts)
	b.WriteString("def glue : Glue := ⟨flags, events, ⟨comparisons, calls, records, consts⟩⟩\n\nend Gotree.Gen.C08Glue\n")
	path := filepath.Join(out, "C08Glue.lean")
	if old, err := os.ReadFile(path); err == nil && string(old) == b.String() {
		return nil // unchanged: keep the time stamp (no rebuild)
	}
	return os.WriteFile(path, []byte(b.String()), 0644)
}
