/-
  Driver handler of C13 (format conversions and reader entry points).

  Case lines (fields tab-separated; texts percent-escaped):
    C13.chain  fmt via dumps wres text xml mrecs first
        fmt   ∈ nexus | nexustr | nexus1 | phyloxml | newick     (writer used)
        via   ∈ lib | cli
        dumps   the input trees, each followed by "|"
        wres    ok | err | panic:…          (writer outcome)
        text    the document the implementation wrote
        xml     (phyloxml) its element tree as read by encoding/xml's tokenizer; "BAD" if not XML
        mrecs   records of ReadMultiTrees on that text:  id:ok:dump| … id:err:|
        first   result of ReadTreeReader on that text:   ok:dump | err: | skip
    C13.multi  layout items text mrecs first
        items   the file's content in order: T<dump>| for a well-formed tree, B| for a broken one
    C13.doc    fmt text xml mrecs first          (a hand-made / mutated document; no expected trees)
    C13.ns     dump nsdoc text mrecs first       (Nextstrain JSON made from the tree)
-/
import Driver.Proto
import Gotree.Spec.C13
import Gotree.Model.C13Codec

namespace Gotree.Driver.C13
open Gotree Gotree.Driver Gotree.C13

def env : Env := ⟨c01Go, goNum⟩

def parseOut (kind dump : String) : Option Out :=
  match kind with
  | "ok" => (T.undump dump).map Out.ok
  | "err" => some .err
  | _ => none

/-- `id:ok:dump|id:err:|` -/
def parseRecs (s : String) : Option (List Rec) :=
  (splitTerm "|" s).mapM fun item =>
    match item.splitOn ":" with
    | [i, k, d] => (match i.toNat?, parseOut k d with
                    | some n, some o => some ⟨n, o⟩
                    | _, _ => none)
    | _ => none

/-- `ok:dump` | `err:` ; `skip` and `panic:…` are handled by the caller -/
def parseFirst (s : String) : Option Out :=
  match s.splitOn ":" with
  | [k, d] => parseOut k d
  | _ => none

def showOut : Out → String
  | .ok t => "ok:" ++ t.dump
  | .err => "err:"

def showRecs (l : List Rec) : String := joinTerm "|" (l.map fun r => toString r.id ++ ":" ++ showOut r.out)

def recsKeptEq : List Rec → List Rec → Bool
  | [], [] => true
  | a :: r, b :: s => a.id == b.id && a.out.keptEq b.out && recsKeptEq r s
  | _, _ => false

def recsExactEq : List Rec → List Rec → Bool
  | [], [] => true
  | a :: r, b :: s => a.id == b.id && a.out.beq b.out && recsExactEq r s
  | _, _ => false

/- element tree tokens: `<tag` `@key=val` `"text` `>` -/
mutual
def parseXml : Nat → List String → Option (Px.Xml × List String)
  | 0, _ => none
  | fuel + 1, tok :: r =>
    if tok.front == '"' then (unescape (dropFirst tok)).map fun s => (.text s, r)
    else if tok.front == '<' then
      match unescape (dropFirst tok) with
      | none => none
      | some tag =>
        match parseXmlKids fuel r [] [] with
        | some ((attrs, kids), r') => some (.elem tag attrs kids, r')
        | none => none
    else none
  | _ + 1, [] => none
def parseXmlKids : Nat → List String → List (String × String) → List Px.Xml → Option ((List (String × String) × List Px.Xml) × List String)
  | 0, _, _, _ => none
  | _ + 1, [], _, _ => none
  | fuel + 1, tok :: r, attrs, kids =>
    if tok == ">" then some ((attrs.reverse, kids.reverse), r)
    else if tok.front == '@' then
      match (dropFirst tok).splitOn "=" with
      | [k, v] => (match unescape k, unescape v with
                   | some k', some v' => parseXmlKids fuel r ((k', v') :: attrs) kids
                   | _, _ => none)
      | _ => none
    else
      match parseXml fuel (tok :: r) with
      | some (x, r') => parseXmlKids fuel r' attrs (x :: kids)
      | none => none
end

/- Nextstrain document tokens: `(` `n<name>` `<div>` kids… `)` -/
mutual
def parseNsNode : Nat → List String → Option (Ns.Node × List String)
  | 0, _ => none
  | fuel + 1, "(" :: nm :: dv :: r =>
    if nm.front != 'n' then none else
    match unescape (dropFirst nm), parseRat? dv with
    | some name, some div =>
      (match parseNsKids fuel r [] with
       | some (ks, r') => some (.mk name div ks, r')
       | none => none)
    | _, _ => none
  | _ + 1, _ => none
def parseNsKids : Nat → List String → List Ns.Node → Option (List Ns.Node × List String)
  | 0, _, _ => none
  | _ + 1, ")" :: r, acc => some (acc.reverse, r)
  | fuel + 1, toks, acc =>
    match parseNsNode fuel toks with
    | some (n, r) => parseNsKids fuel r (n :: acc)
    | none => none
end

/-- `BAD` = the JSON did not decode or its version is not "v2" -/
def parseNs (s : String) : Option (Option Ns.Node) :=
  if s == "BAD" then some none else
  let toks := splitToks s
  match parseNsNode (toks.length + 1) toks with
  | some (n, []) => some (some n)
  | _ => none

def parseXmlDoc (s : String) : Option (Option Px.Xml) :=
  if s == "BAD" || s == "" then some none else
  let toks := splitToks s
  match parseXml (toks.length + 1) toks with
  | some (x, []) => some (some x)
  | _ => none

mutual
def xmlEq : Px.Xml → Px.Xml → Bool
  | .text a, .text b => a == b
  | .elem t a k, .elem t' a' k' => t == t' && a == a' && xmlEqL k k'
  | _, _ => false
def xmlEqL : List Px.Xml → List Px.Xml → Bool
  | [], [] => true
  | x :: r, y :: s => xmlEq x y && xmlEqL r s
  | _, _ => false
end

/-- drop the attributes of the document element (name-space declarations are not modelled) -/
def dropRootAttrs : Px.Xml → Px.Xml
  | .elem t _ k => .elem t [] k
  | x => x

mutual
def anyMultif : T → Bool
  | .node _ _ k => k.length > 2 && false || anyMultifL k
def anyMultifL : Kids → Bool
  | [] => false
  | (_, t) :: r => t.kids.length > 2 || anyMultif t || anyMultifL r
end

def treeTags (ts : List T) : List String :=
  let edges := ts.flatMap T.edges
  tagIf (ts.any T.rooted) "rooted" ++ tagIf (ts.any fun t => !t.rooted) "unrooted" ++
  tagIf (ts.any fun t => t.kids.length > 3 || anyMultif t) "multif" ++
  tagIf (edges.any (·.len == 0)) "zerolen" ++ tagIf (edges.any (·.len == NIL)) "nolen" ++
  tagIf (edges.any fun e => e.len != NIL && e.len != 0) "haslen" ++
  tagIf (edges.any (·.sup != NIL)) "hassup" ++ tagIf (ts.any fun t => t.name != "") "rootname" ++
  tagIf (ts.any fun t => t.kids.any fun et => et.2.isLeaf) "tipatroot"

/-- hypothesis of `first_eq_head` for Newick: the first tree is on its own lines and the line breaks
    inside it come right after a delimiter (see Spec) -/
def firstHyp (doc : Txt) : Bool := newickFirstHyp doc

/-- instance of the stream law `parse_prefix` on a text: if no '[' precedes the first ';', the parser's
    answer on the whole text is its answer on the text cut right after that ';' -/
def lawPrefixHolds (C : NewickCodec) (text : Txt) : Bool :=
  let a := text.takeWhile (· != ';')
  if a.length == text.length || a.contains '[' then true
  else (match C.parse text, C.parse (a ++ [';']) with
        | some x, some y => x == y
        | none, none => true
        | _, _ => false)

/-- instance of the stream law `parse_ws_skip`: under the hypothesis of `first_eq_head` the line breaks
    before the first ';' can be removed without changing the parser's answer -/
def lawWsHolds (C : NewickCodec) (text : Txt) : Bool :=
  if !newickFirstHyp text then true else
  let a := text.takeWhile (· != ';')
  let flat := a.filter (fun c => c != '\n' && c != '\r') ++ text.drop a.length
  (match C.parse text, C.parse flat with
   | some x, some y => x == y
   | none, none => true
   | _, _ => false)

def docOf (fmt : String) (text : Txt) (xml : Option Px.Xml) : Option Doc :=
  match fmt with
  | "newick" => some (.newick text)
  | "nexus" | "nexustr" | "nexus1" => some (.nexus text)
  | "phyloxml" => some (.phyloxml xml)
  | _ => none

/-- the model's document for the same trees -/
def modelText (fmt : String) (ts : List T) : Txt :=
  let its := (List.range ts.length).zip ts
  match fmt with
  | "newick" => joinMap (fun x => x.toList) (ts.map fun t => String.ofList (c01Go.write t ++ ['\n']))
  | "nexus" => writeNexus c01Go false its
  | "nexustr" => writeNexus c01Go true its
  | "nexus1" => (match ts with | t :: _ => treeNexus c01Go t | [] => [])
  | _ => Px.render goNum ts

/-- compare the model's readers with the implementation's on one document; returns extra tags or a verdict -/
def tieReaders (doc : Doc) (mrecs : List Rec) (first : Option Out) (tags : List String) : Verdict :=
  match readMulti env doc, readFirst env doc with
  | some mm, some mf =>
    if !recsKeptEq mm mrecs then ⟨.tie, tags, "model multi-reader records: " ++ showRecs mm⟩
    else match first with
      | some f => if mf.keptEq f then ⟨.pass, tagIf (recsExactEq mm mrecs) "exact-eq" ++ tags, ""⟩
                  else ⟨.tie, tags, "model first-tree reader: " ++ showOut mf⟩
      | none => ⟨.pass, tagIf (recsExactEq mm mrecs) "exact-eq" ++ tags, ""⟩
  | _, _ => ⟨.pass, "model-unsupported" :: tags, ""⟩

def handle (op : String) (f : List String) : Verdict :=
  match op, f with
  | "chain", [fmt, via, dumps, wres, text, xml, mrecsS, firstS] =>
    match (splitTerm "|" dumps).mapM T.undump, unescape text, parseXmlDoc xml, parseRecs mrecsS with
    | some ts, some textS, some xdoc, some mrecs =>
      let text := textS.toList
      let first : Option Out := parseFirst firstS
      if firstS != "skip" && first.isNone && !firstS.startsWith "panic" then bad "C13.chain first" else
      let isNexus := fmt == "nexus" || fmt == "nexustr" || fmt == "nexus1"
      let wf := WF13list ts
      let hyp := wf && (!isNexus || sameTaxa ts)
      -- open finding F60: a repeated node name under a translate table
      let f60 := isF60 (fmt == "nexustr") ts mrecs
      let lawPW := ts.all fun t => match c01Go.parse (c01Go.write t) with
        | some u => sameKept u t
        | none => false
      let textOK := ts.all fun t => treeTextOK (c01Go.write t)
      let tags := tagIf lawPW "law-parse-write" ++ tagIf (isNexus && textOK) "tree-text-ok" ++
        tagIf (isNexus && nexusStateOK ts) "nexus-state-ok" ++ tagIf (ts.all tipsOK) "tips-ok" ++
        tagIf (fmt == "nexus" && lawPW && textOK && ts.all tipsOK && sameTaxa ts) "hyp-nexus-roundtrip-plain" ++
        tagIf (fmt == "nexustr" && nexusTrStateOK ts &&
          (writtenList (enumFrom 0 ts) {}).all (fun w =>
            (match c01Go.parse (c01Go.write w.2) with | some u => sameKept u w.2 | none => false) &&
            treeTextOK (c01Go.write w.2))) "hyp-nexus-roundtrip-translate" ++
        tagIf (isNexus && ts.all innerNamesDistinct) "inner-names-distinct" ++
        tagIf (fmt == "phyloxml" && ts.all (pxOK fun _ => true)) "hyp-phyloxml-roundtrip" ++
        [fmt, via] ++ tagIf wf "wf13" ++ tagIf (sameTaxa ts) "sametaxa" ++ tagIf hyp "hyp" ++
        tagIf (ts.length ≥ 2) "nontrivial" ++ treeTags ts
      -- oracle on the implementation's own output
      if firstS.startsWith "panic" || wres.startsWith "panic" then ⟨.oracle, tags, "panic: " ++ wres ++ " " ++ firstS⟩
      else if hyp && wres != "ok" then ⟨.oracle, tags, "writer failed on well-formed trees"⟩
      else if hyp && !(recsAre (if fmt == "nexus1" then ts.take 1 else ts) mrecs 0) then
        ⟨.oracle, tagIf f60 "f60-region" ++ tags, (if f60 then "class=NexusTranslateDuplicateNodeNames " else "") ++
          "conversion chain: the trees read back differ from the trees written (shape/names/lengths/supports), or a tree is missing"⟩
      else if isNexus && fmt != "nexus1" && wres == "ok" && ts.all (fun t => t.tipNames.all labelOK) && !(taxaBlockOK ts text) then
        ⟨.oracle, tags, "Nexus taxa block: TAXLABELS / NTAX are not the tips of all the trees"⟩
      else if first.isSome && !(firstIsHead (first.getD .err) mrecs) then
        ⟨.oracle, tags, "first-tree reader differs from the head of the multi-tree reader"⟩
      else if wres != "ok" then ⟨.pass, ("writer-" ++ wres) :: tags, ""⟩
      else
        -- correspondence
        let mtext := modelText fmt ts
        let tags := tagIf (mtext == text) "text-eq" ++ tags
        let xtag := match fmt, xdoc with
          | "phyloxml", some x => tagIf (xmlEq (dropRootAttrs x) (Px.encode goNum ts)) "xml-eq"
          | _, _ => []
        match docOf fmt text xdoc, docOf fmt mtext (some (Px.encode goNum ts)) with
        | some d, some dm =>
          (match tieReaders d mrecs first (xtag ++ tags) with
           | ⟨.pass, tg, _⟩ =>
             -- the model's writer followed by the model's reader
             (match readMulti env dm with
              | some mm => if recsKeptEq mm mrecs then ⟨.pass, tg, ""⟩ else ⟨.tie, tg, "model writer+reader records: " ++ showRecs mm⟩
              | none => ⟨.pass, "model-unsupported-w" :: tg, ""⟩)
           | v => v)
        | _, _ => bad "C13.chain fmt"
    | _, _, _, _ => bad "C13.chain fields"
  | "multi", [layout, itemsS, text, mrecsS, firstS] =>
    let items? : Option (List (Option T)) := (splitTerm "|" itemsS).mapM fun it =>
      if it == "B" then some none else if it.front == 'T' then (T.undump (dropFirst it)).map some else none
    match items?, unescape text, parseRecs mrecsS with
    | some items, some textS, some mrecs =>
      let text := textS.toList
      let first : Option Out := parseFirst firstS
      if first.isNone && !firstS.startsWith "panic" && !mrecsS.startsWith "panic" then bad "C13.multi first" else
      let good := items.filterMap id
      let wf := good.all WF13
      let fh := firstHyp text
      -- trees that do not end a line are outside the property's domain: tagged, correspondence only
      let outside := (layout.splitOn ",").any fun l => l == "sameline" || l == "cr-only"
      let tags := (layout.splitOn ",").filter (· != "") ++ tagIf wf "wf13" ++ tagIf fh "first-hyp" ++
        tagIf (items.length ≥ 2) "nontrivial" ++ tagIf (items.any Option.isNone) "broken" ++ treeTags good
      if firstS.startsWith "panic" || mrecsS.startsWith "panic" then ⟨.oracle, tags, "panic: " ++ firstS⟩
      else if wf && !outside && !(recsExpected items mrecs 0) then
        ⟨.oracle, tags, "multi-tree file: a tree is skipped / out of order / wrong identifier, or an error is not reported"⟩
      else if fh && !(firstIsHead (first.getD .err) mrecs) then
        ⟨.oracle, tags, "first-tree reader differs from the head of the multi-tree reader"⟩
      else if !(lawPrefixHolds c01Go text) || !(lawWsHolds c01Go text) then
        ⟨.tie, tags, "a Newick stream law (parse_prefix / parse_ws_skip) fails for the model codec on this text"⟩
      else tieReaders (.newick text) mrecs first ("stream-laws-ok" :: tags)
    | _, _, _ => bad "C13.multi fields"
  | "doc", [fmt, text, xml, mrecsS, firstS] =>
    match unescape text, parseXmlDoc xml, parseRecs mrecsS with
    | some textS, some xdoc, some mrecs =>
      let first : Option Out := parseFirst firstS
      if first.isNone && !firstS.startsWith "panic" then bad "C13.doc first" else
      let tags := [fmt, "doc"] ++ tagIf (mrecs.any fun r => !r.out.isOk) "err-record" ++ tagIf (mrecs.length ≥ 2) "nontrivial"
      if firstS.startsWith "panic" then ⟨.oracle, tags, "panic: " ++ firstS⟩
      else if fmt != "newick" && !(firstIsHead (first.getD .err) mrecs) then
        ⟨.oracle, tags, "first-tree reader differs from the head of the multi-tree reader"⟩
      else match docOf fmt textS.toList xdoc with
        | some d => tieReaders d mrecs first tags
        | none => bad "C13.doc fmt"
    | _, _, _ => bad "C13.doc fields"
  | "ns", [kind, dump, nsd, _text, mrecsS, firstS] =>
    match T.undump dump, parseNs nsd, parseRecs mrecsS with
    | some t, some nd, some mrecs =>
      let first : Option Out := parseFirst firstS
      if first.isNone && !firstS.startsWith "panic" then bad "C13.ns first" else
      let tags := ["nextstrain", kind] ++ tagIf (kind == "ok") "nontrivial" ++ treeTags [t]
      if firstS.startsWith "panic" || mrecsS.startsWith "panic" then ⟨.oracle, tags, "panic: " ++ firstS⟩
      else if kind == "ok" && !(recsAre [t] mrecs 0) then
        ⟨.oracle, tags, "Nextstrain: the tree read differs from the tree the document describes (shape/names/lengths)"⟩
      else if kind != "ok" && mrecs.any (·.out.isOk) then ⟨.oracle, tags, "Nextstrain: a broken document is delivered as a tree"⟩
      else if !(firstIsHead (first.getD .err) mrecs) then
        ⟨.oracle, tags, "first-tree reader differs from the head of the multi-tree reader"⟩
      else tieReaders (.nextstrain nd) mrecs first tags
    | _, _, _ => bad "C13.ns fields"
  | _, _ => bad ("C13: unknown op " ++ op)

end Gotree.Driver.C13
