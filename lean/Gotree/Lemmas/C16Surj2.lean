/-
  C16 — exhaustiveness of the enumeration, from the backtracking trees to the returned ones.
-/
import Gotree.Lemmas.C16Surj
import Gotree.Lemmas.C04Idx

namespace Gotree.C16
open Gotree

/-- a leaf set below a branch is never the whole tip set -/
theorem member_not_full (t : T) (a F : List String) (ha : a ∈ belowsL t.kids) (hF : F.Nodup)
    (hlen : F.length = t.tipNames.length) : ¬ SetEq a F := by
  intro h
  rw [belowsL_eq] at ha
  obtain ⟨s, hs, rfl⟩ := List.mem_map.mp ha
  have hp := (C04.below_proper t s (by simpa [T.splits] using hs)).2
  have hsub : F ⊆ s.below := fun y hy => (h y).mpr hy
  have := hF.length_le_of_subset hsub
  omega

theorem famEq_strip {A B : List (List String)} {F F' : List String} (h : FamEq (F :: A) (F' :: B))
    (hA : ∀ a ∈ A, ¬ SetEq a F') (hB : ∀ b ∈ B, ¬ SetEq F b) : FamEq A B := by
  constructor
  · intro a ha
    obtain ⟨y, hy, hay⟩ := h.1 a (List.mem_cons_of_mem _ ha)
    rcases List.mem_cons.mp hy with rfl | hy'
    · exact absurd hay (hA a ha)
    · exact ⟨y, hy', hay⟩
  · intro b hb
    obtain ⟨x, hx, hxb⟩ := h.2 b (List.mem_cons_of_mem _ hb)
    rcases List.mem_cons.mp hx with rfl | hx'
    · exact absurd hxb (hB b hb)
    · exact ⟨x, hx', hxb⟩

/-- unrooted: every binary tree on the names, seen from the node joining the first three of them, has
    the family of leaf sets of one of the returned trees -/
theorem exhaustive_unrooted_lemma (nm : Nat → String) (n : Nat) (hinj : InjTo nm n) (h3 : 3 ≤ n) (t : T)
    (hdeg : t.kids.length = 3) (hbin : binaryL t.kids = true) (hleaves : (leavesL t.kids).Perm (namesUpTo nm n))
    (hq : Q3 (nm 0) (nm 1) (nm 2) (belowsL t.kids)) :
    ∃ t' ∈ allTopoRec nm (n - 3) (topoInit nm false).1 3, FamEq (belowsL t.kids) (belowsL t'.kids) := by
  have e : (topoInit nm false).2 + (n - 3) = n := by simp [topoInit]; omega
  have hTI : TI nm (if false = true then 1 else 3) ((topoInit nm false).2 + (n - 3)) t := by
    rw [e]; exact ⟨hbin, by simpa using hdeg, hleaves⟩
  obtain ⟨v, hv, hiso⟩ := raw_surj nm n hinj false (n - 3) (by omega) t hTI (fun _ => hq)
  have hvTI := allTopoRaw_wf nm 3 _ _ _ (TI_init nm false) v hv
  rw [e] at hvTI
  refine ⟨dropStem (clone v), ?_, ?_⟩
  · rw [allTopoRec_eq_map]; exact List.mem_map.mpr ⟨v, hv, rfl⟩
  · have hb := belows_out nm false n v hvTI (by omega)
    simp only [Bool.false_eq_true, if_false, List.nil_append] at hb
    rw [← hb]
    exact IsoL.famEq hiso

/-- rooted: every rooted binary tree on the names has the clade family of one of the returned trees -/
theorem exhaustive_rooted_lemma (nm : Nat → String) (n : Nat) (hinj : InjTo nm n) (h2 : 2 ≤ n) (t : T)
    (hdeg : t.kids.length = 2) (hbin : binaryL t.kids = true) (hleaves : (leavesL t.kids).Perm (namesUpTo nm n)) :
    ∃ t' ∈ allTopoRec nm (n - 1) (topoInit nm true).1 1, FamEq (belowsL t.kids) (belowsL t'.kids) := by
  have e : (topoInit nm true).2 + (n - 1) = n := by simp [topoInit]; omega
  -- put the tree under a start node
  let s : T := .node newNodeD 0 [(EdgeD.blank, .node t.d 0 t.kids)]
  have hpos : 0 < t.kids.length := by omega
  have hsl : leavesL s.kids = leavesL t.kids := by
    simp only [s, T.kids_node, leavesL, List.append_nil]
    exact leaves_node_of_pos _ _ _ hpos
  have hTI : TI nm (if true = true then 1 else 3) ((topoInit nm true).2 + (n - 1)) s := by
    rw [e]
    refine ⟨?_, rfl, by rw [hsl]; exact hleaves⟩
    simp [s, binaryL, T.binaryBelow, hdeg, hbin]
  obtain ⟨v, hv, hiso⟩ := raw_surj nm n hinj true (n - 1) (by omega) s hTI (fun hh => by cases hh)
  have hvTI := allTopoRaw_wf nm 1 _ _ _ (TI_init nm true) v hv
  rw [e] at hvTI
  have hout := topo_out nm true n v hvTI h2
  simp only [if_true] at hout
  refine ⟨dropStem (clone v), ?_, ?_⟩
  · rw [allTopoRec_eq_map]; exact List.mem_map.mpr ⟨v, hv, rfl⟩
  · have hb := belows_out nm true n v hvTI h2
    simp only [if_true, List.singleton_append] at hb
    have hfam := IsoL.famEq hiso
    have hs : belowsL s.kids = leavesL t.kids :: belowsL t.kids := by
      simp only [s, T.kids_node, belowsL, belowsT, List.append_nil]
      rw [leaves_node_of_pos _ _ _ hpos]
    rw [hs, hb] at hfam
    have hnames : (namesUpTo nm n).Nodup := namesUpTo_nodup nm n n hinj (Nat.le_refl n)
    have hFt : (leavesL t.kids).Nodup := hleaves.nodup_iff.mpr hnames
    have hFv : (leavesL v.kids).Nodup := hvTI.leaves.nodup_iff.mpr hnames
    have htn : t.tipNames = leavesL t.kids := by simp [T.tipNames, hdeg]
    have hun : (dropStem (clone v)).tipNames = leavesL (dropStem (clone v)).kids := by
      simp [T.tipNames, hout.2.1]
    apply famEq_strip hfam
    · intro a ha
      apply member_not_full t a _ ha hFv
      rw [htn, hvTI.leaves.length_eq, hleaves.length_eq]
    · intro b hb' hse
      refine member_not_full (dropStem (clone v)) b _ hb' hFt ?_ hse.symm
      rw [hout.2.2.length_eq, hleaves.length_eq]

end Gotree.C16
