/-
  C03 — the REVIEWED source facts (hand-kept copy of the table harness/c03/extract.go regenerates into
  Gotree/Gen/C03Source.lean).  Each row was read against tree/tree.go, tree/node.go, tree/edge.go,
  tree/algo.go and tree/rearrange.go of /repo at 6a194b0 and is what the models assume:

  * the five enumerations go through their own recursion only and assign no field (Model/C03.lean
    transliterates them as pure functions of the tree value);
  * `Tip` is "exactly one neighbour", `Rooted` "the root has exactly two", the branch recursions descend
    below nodes with at least two neighbours (`isTipAt`, `T.rooted`, `edgesLoop` …);
  * the pointer helpers write exactly `neigh`/`br` (addChild, delNeighbor, unconnectNode), `left`/`right`
    (setLeft, setRight, Inverse), `root` (SetRoot, Reroot, reroot_nocheck, removeTip);
  * which helper each anchored edit goes through (e.g. Reroot = root store + ReorderEdges +
    ReinitInternalIndexes; ReorderEdges = Inverse + itself; NNI = NodeIndex look-ups, Inverse, setLeft/setRight
    and stores through Neigh()/Edges()).

  A change of the source that alters a row makes `source_facts_check` fail: the row has to be re-read,
  the model adapted if needed, and this copy updated.
-/
import Gotree.Model.C03Table

namespace Gotree.C03

def reviewedFacts : List FnFacts := [
  ⟨"Tree.Edges", true, ["edgesRecur"], [], []⟩,
  ⟨"Tree.edgesRecur", true, ["edgesRecur"], [], [(">=", 2)]⟩,
  ⟨"Tree.InternalEdges", true, ["internalEdgesRecur"], [], []⟩,
  ⟨"Tree.internalEdgesRecur", true, ["internalEdgesRecur"], [], [(">=", 2)]⟩,
  ⟨"Tree.TipEdges", true, ["tipEdgesRecur"], [], []⟩,
  ⟨"Tree.tipEdgesRecur", true, ["tipEdgesRecur"], [], [(">=", 2)]⟩,
  ⟨"Tree.Nodes", true, ["nodesRecur"], [], []⟩,
  ⟨"Tree.nodesRecur", true, ["nodesRecur"], [], []⟩,
  ⟨"Tree.Tips", true, ["tipsRecur"], [], []⟩,
  ⟨"Tree.tipsRecur", true, ["tipsRecur"], [], []⟩,
  ⟨"Node.Tip", true, [], [], [("==", 1)]⟩,
  ⟨"Node.Nneigh", true, [], [], []⟩,
  ⟨"Tree.Rooted", true, [], [], [("==", 2)]⟩,
  ⟨"Node.Newick", true, ["Newick"], [], [(">=", 1), (">=", 2)]⟩,
  ⟨"Tree.Newick", true, ["Newick", "String"], [], []⟩,
  ⟨"Node.addChild", true, [], ["br", "neigh"], []⟩,
  ⟨"Node.delNeighbor", true, ["NodeIndex"], ["br", "neigh"], []⟩,
  ⟨"Tree.ConnectNodes", true, ["addChild", "setLeft", "setRight"], [], []⟩,
  ⟨"Edge.setLeft", true, [], ["left"], []⟩,
  ⟨"Edge.setRight", true, [], ["right"], []⟩,
  ⟨"Edge.Inverse", true, [], ["left", "right"], []⟩,
  ⟨"Tree.delNode", true, [], ["bitset", "br", "left", "neigh", "right"], []⟩,
  ⟨"Tree.unconnectNode", true, [], ["br", "neigh"], []⟩,
  ⟨"Tree.SetRoot", true, [], ["root"], []⟩,
  ⟨"Tree.Reroot", true, ["Nodes", "ReinitInternalIndexes", "ReorderEdges"], ["root"], [("<=", 1)]⟩,
  ⟨"Tree.reroot_nocheck", true, ["ReorderEdges"], ["root"], [("<=", 1)]⟩,
  ⟨"Tree.ReorderEdges", true, ["Inverse", "ReorderEdges"], [], []⟩,
  ⟨"Tree.RerootFirst", true, ["Nodes", "Reroot"], [], [("==", 3)]⟩,
  ⟨"Tree.UnRoot", true, ["ConnectNodes", "ReinitIndexes", "Rooted", "SetLength", "SetRoot", "SetSupport", "delNeighbor", "delNode"], [], []⟩,
  ⟨"Tree.RemoveTips", true, ["ReinitInternalIndexes", "Rooted", "Tips", "UpdateTipIndex", "removeTip"], [], [("!=", 1)]⟩,
  ⟨"Tree.removeTip", true, ["ConnectNodes", "SetLength", "SetRoot", "SetSupport", "delNeighbor", "delNode"], ["neigh", "root"], [("!=", 1), ("==", 1), ("==", 2), (">=", 2)]⟩,
  ⟨"Tree.RemoveEdges", true, ["NodeIndex", "ReinitInternalIndexes", "SetLength", "addChild", "delNeighbor", "unconnectNode"], ["left", "neigh"], [("==", 2)]⟩,
  ⟨"Tree.Resolve", true, ["ReinitInternalIndexes", "resolveRecur"], [], []⟩,
  ⟨"Tree.resolveRecur", true, ["ConnectNodes", "SetLength", "SetPValue", "SetSupport", "delNeighbor", "resolveRecur"], [], [(">=", 4)]⟩,
  ⟨"Tree.RemoveSingleNodes", true, ["ReinitInternalIndexes", "removeSingleNodesRecur"], [], []⟩,
  ⟨"Tree.removeSingleNodesRecur", true, ["NodeIndex", "SetLength", "addChild", "delNeighbor", "removeSingleNodesRecur", "unconnectNode"], ["left", "neigh", "right", "support"], [("==", 2)]⟩,
  ⟨"Tree.GraftTipOnEdge", true, ["EdgeIndex", "SetLength", "addChild", "setLeft", "setRight"], ["br", "neigh"], []⟩,
  ⟨"Tree.GraftTreeOnTip", true, ["NodeIndex", "ParentEdge", "TipNode", "UpdateTipIndex", "addChild", "setRight"], ["neigh"], []⟩,
  ⟨"Tree.InsertIdenticalTip", true, ["ConnectNodes", "EdgeIndex", "ExistsTip", "NodeIndex", "Parent", "ParentEdge", "SetLength", "SetName", "addChild", "setLeft", "setRight"], ["br", "neigh", "tipIndex", "tipid"], [(">=", 2)]⟩,
  ⟨"Tree.Merge", true, ["ConnectNodes", "ReinitIndexes", "Rooted", "SetRoot"], [], []⟩,
  ⟨"Tree.Clone", true, ["CopyNode", "SetRoot", "UpdateTipIndex", "copyTreeRecur"], [], []⟩,
  ⟨"Tree.copyTreeRecur", true, ["ConnectNodes", "CopyEdge", "CopyNode", "copyTreeRecur"], [], []⟩,
  ⟨"Tree.SubTree", true, ["CopyNode", "ReinitIndexes", "SetRoot", "copyTreeRecur"], [], []⟩,
  ⟨"Tree.SortNeighborsByTips", true, ["sortNeighbors"], [], []⟩,
  ⟨"Tree.sortNeighbors", true, ["sortNeighbors"], ["br", "neigh"], []⟩,
  ⟨"Tree.RotateInternalNodes", true, ["Nodes", "RotateNeighbors"], [], []⟩,
  ⟨"Node.RotateNeighbors", true, [], ["br", "neigh"], []⟩,
  ⟨"Tree.AddBipartition", true, ["ConnectNodes", "SetLength", "SetPValue", "SetSupport", "delNeighbor"], [], []⟩,
  ⟨"Tree.CollapseClade", true, ["LeastCommonAncestorRooted", "NodeIndex", "Parent", "ParentEdge", "SetName", "SetRoot", "UpdateTipIndex", "addChild", "delNeighbor", "setRight"], ["neigh"], []⟩,
  ⟨"nni.Apply", true, ["Inverse", "NodeIndex", "setLeft", "setRight"], ["br", "neigh"], []⟩,
  ⟨"nni.Undo", true, ["Inverse", "NodeIndex", "setLeft", "setRight"], ["br", "neigh"], []⟩
]


end Gotree.C03
