/-
  C07 — from the branch observation list to the unrooted split map `T.usplitsAll` of
  Spec/Splits.lean, through the shared library Lemmas/C05Splits.lean (owner C05, read-only).
-/
import Gotree.Lemmas.C07Proof
import Gotree.Lemmas.C07Spec
import Gotree.Lemmas.C05Splits

namespace Gotree.C07
open Gotree

/-- the unrooted split map (Spec/Splits: canonical sides, equal sides fused, sorted) of a list of
    unrooted branches; `T.usplitsAll t = usplitsOfU (t.splits.map (toU t.tipNames))` -/
def usplitsOfU (l : List USplit) : List USplit := (ufoldU l []).mergeSort uLe

theorem usplitsAll_eq_ofU (t : T) : t.usplitsAll = usplitsOfU (t.splits.map (toU t.tipNames)) :=
  T.usplitsAll_eq t

theorem usplitsOfU_perm {l₁ l₂ : List USplit} (h : l₁.Perm l₂) (hg : GoodU l₂) :
    (usplitsOfU l₁).Perm (usplitsOfU l₂) := by
  unfold usplitsOfU
  refine (List.mergeSort_perm _ _).trans (List.Perm.trans ?_ (List.mergeSort_perm _ _).symm)
  exact ufoldU_perm h (GoodU.of_perm h hg) [] (by simp [SidesNodup]) (by intro x hx; cases hx)

/-- a tree whose branch list, read as unrooted branches over the taxa of `t`, is a rearrangement of
    `l` has the split map of `l` -/
theorem usplitsAll_perm_list {t u : T} (l : List USplit) (hall : u.tipNames.Perm t.tipNames)
    (hs : (u.splits.map (toU t.tipNames)).Perm l) (hg : GoodU l) :
    u.usplitsAll.Perm (usplitsOfU l) := by
  rw [usplitsAll_eq_ofU, toU_perm_all hall]
  exact usplitsOfU_perm hs hg

end Gotree.C07

namespace Gotree.C07
open Gotree

/-- Resolve keeps the tip names, the root included when it is a tip -/
theorem resolve_tipNames (t t' : T) (draws : List Nat) (h : resolve t draws = some t') :
    t'.tipNames.Perm t.tipNames := by
  have h' := resolve_some t draws t' h
  cases t with
  | node d p k =>
    obtain ⟨k1, ds1, hk, hn⟩ := resolveT_unfold true d p k draws t' [] h'
    obtain ⟨hl1, hlen, _⟩ := resolveL_spec (fun _ => ()) permInv_unit k draws k1 ds1 hk
    obtain ⟨hd, _, hlv, _, _, hcount⟩ := resolveNode_spec (fun _ => ()) true d p k1 ds1 t' [] hn
    simp only [if_true, Nat.add_zero] at hcount
    unfold T.tipNames
    have hname : t'.name = (T.node d p k).name := by unfold T.name; rw [hd]; rfl
    have hone : (t'.kids.length == 1) = ((T.node d p k).kids.length == 1) := by
      simp only [T.kids_node]
      split at hcount
      · rw [hcount, hlen]
      · have : ¬ k1.length ≤ 3 := by assumption
        have e1 : (t'.kids.length == 1) = false := by simp; omega
        have e2 : (k.length == 1) = false := by simp; omega
        rw [e1, e2]
    rw [hone, hname]
    exact (List.Perm.refl _).append (hlv.trans hl1)

/-- reading an observed branch (canonical side first) as an unrooted branch -/
def toUR {γ : Type} (x : ObsR (List String × γ)) : USplit := ⟨x.1.1, x.2.1, x.2.2.1⟩

theorem splits_toU_eq_RT {γ : Type} (all : List String) (g : List String → γ) (t : T) :
    t.splits.map (toU all) = (RT (fun l => (canonSide all l, g l)) t).map toUR := by
  have h := splitsL_obs (fun l => (canonSide all l, g l)) t.kids
  have e1 : t.splits.map (toU all) =
      ((splitsL t.kids).map (fun s => ((canonSide all s.below, g s.below), s.e, s.tip))).map
        (fun y => (⟨y.1.1, y.2.1.len, y.2.1.sup⟩ : USplit)) := by
    rw [List.map_map]; rfl
  rw [e1, h, RT_kids]
  unfold RL
  rw [List.map_map, List.map_map]
  rfl

end Gotree.C07
