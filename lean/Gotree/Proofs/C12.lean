/-
  C12 — parsimony reconstruction is optimal: the property theorems.
  Everything is about the model functions the driver runs against the Go code
  (`runChar`, `upN`, `down`, `acctran`, `deltran` of Model/C12.lean); optimality is
  measured against ALL labellings (`LT`, `fits`, `changes` of Spec/C12.lean).
-/
import Gotree.Lemmas.C12Subdiv
import Gotree.Lemmas.C12Sites
import Gotree.Lemmas.C12Fmt
import Gotree.Lemmas.C12RM

namespace Gotree.C12
open Gotree

theorem runChar_steps (k : Nat) (tv : String → Vec) (algo : Algo) (t : T) (hr : rootOk t = true) :
    (runChar k tv algo t).1 = upN k tv t := by
  have : ¬ t.kids.length = 1 := by
    simp only [rootOk, decide_eq_true_eq] at hr; omega
  simp [runChar, this]

/-- ★ The number of steps reported by the up-pass (any degree, any number of states) is a lower
    bound for the number of changes of EVERY labelling that respects the tip sets, and some
    labelling attains it. -/
theorem uppass_optimal (k : Nat) (tv : String → Vec) (algo : Algo) (t : T)
    (hk : 0 < k) (hr : rootOk t = true) (ht : tipsOk k tv t = true) :
    (∀ l : LT, fits k tv t l = true → (runChar k tv algo t).1 ≤ l.changes) ∧
    ∃ l : LT, fits k tv t l = true ∧ l.changes = (runChar k tv algo t).1 := by
  have hne : t.kids ≠ [] := by
    intro h; simp [rootOk, h] at hr
  have hs := tipsOk_spec k tv t ht
  have he : (runChar k tv algo t).1 = minCost k tv t := by
    rw [runChar_steps k tv algo t hr]
    exact upN_eq_minCost k tv hk t hne (fun n hn => (hs n hn).1)
  rw [he]
  exact ⟨fun l hl => minCost_le k tv t hne l hl,
         minCost_attained k tv hk t hne (fun n hn => (hs n hn).2)⟩

/-- the reported steps are the Sankoff minimum the oracle computes -/
theorem steps_eq_minCost (k : Nat) (tv : String → Vec) (algo : Algo) (t : T)
    (hk : 0 < k) (hr : rootOk t = true) (ht : tipsOk k tv t = true) :
    (runChar k tv algo t).1 = minCost k tv t := by
  have hne : t.kids ≠ [] := by
    intro h; simp [rootOk, h] at hr
  rw [runChar_steps k tv algo t hr]
  exact upN_eq_minCost k tv hk t hne (fun n hn => (tipsOk_spec k tv t ht n hn).1)

/-- ★ The plain down-pass reports, at every inner node `v`, EXACTLY the states that occur at `v`
    in some most parsimonious labelling of the whole tree. -/
theorem downpass_exact (k : Nat) (tv : String → Vec) (t : T)
    (hk : 0 < k) (hr : rootOk t = true) (ht : tipsOk k tv t = true)
    (v : List Nat) (hin : innerAt t v = true) (vec : Vec)
    (hget : (runAlgo k tv .downpass t).get v = some vec) (s : Nat) (hs : s < k) :
    vec.at s ≠ 0 ↔
      ∃ l : LT, fits k tv t l = true ∧ l.changes = minCost k tv t ∧ l.get v = some s := by
  have hne : t.kids ≠ [] := by
    intro h; simp [rootOk, h] at hr
  have hsp := tipsOk_spec k tv t ht
  have hl01 : ∀ n ∈ t.leaves, leaf01 k tv n := by
    match t, hne with
    | .node d p (x :: xs), _ => intro n hn; rw [leaves_node_cons] at hn; exact (hsp n hn).1
  have hlne : ∀ n ∈ t.leaves, leafNonempty k tv n := by
    match t, hne with
    | .node d p (x :: xs), _ => intro n hn; rw [leaves_node_cons] at hn; exact (hsp n hn).2
  have hsub : (sub t v).isSome = true := by
    simp only [innerAt] at hin
    cases h : sub t v with
    | none => simp [h, innerOpt] at hin
    | some c => rfl
  -- the Sankoff slice at v
  have htot := tot_get k tv t (vzero k) v hsub
  cases htv : (totA k tv (vzero k) t).get v with
  | none => simp [htv] at htot
  | some tot =>
  have hA := down_tot k tv hk t (vzero k) none (fun t _ => at_vzero k t) hl01 v vec tot hget htv hin
  have hLB := tot_lb k tv t (vzero k) v tot
  have hAT := tot_att k tv hk t hlne (vzero k) v tot
  -- every entry is at least the minimum
  have hge : ∀ s', s' < k → minCost k tv t ≤ tot.at s' := by
    intro s' hs'
    obtain ⟨l, hf, _, hc⟩ := hAT s' hs' htv hin
    have := minCost_le k tv t hne l hf
    simp only [at_vzero] at hc
    omega
  constructor
  · intro hv
    have hmin := (hA s hs).mp hv
    obtain ⟨lo, hfo, hco⟩ := minCost_attained k tv hk t hne (fun n hn => (hsp n hn).2)
    obtain ⟨s0, hs0, hg0⟩ := fits_get k tv t lo v hfo hsub
    have h1 := hLB lo s0 hfo hg0 htv hin
    have h2 := hmin s0 hs0
    have h3 := hge s hs
    obtain ⟨l, hf, hg, hc⟩ := hAT s hs htv hin
    simp only [at_vzero] at hc h1
    exact ⟨l, hf, by omega, hg⟩
  · intro ⟨l, hf, hc, hg⟩
    have h1 := hLB l s hf hg htv hin
    simp only [at_vzero] at h1
    exact (hA s hs).mpr (fun t' ht' => by have := hge t' ht'; omega)

/-- The ORACLE's per-node optimal sets are what they are meant to be.  The second Sankoff pass `totA`
    (Spec; the driver reports a state `s` at an inner node `v` as optimal iff the slice entry equals `minCost`)
    characterises the most parsimonious labellings: the entry of `s` at `v` equals the minimum iff some most
    parsimonious labelling of the whole tree puts `s` at `v`. -/
theorem totA_exact (k : Nat) (tv : String → Vec) (t : T)
    (hk : 0 < k) (hr : rootOk t = true) (ht : tipsOk k tv t = true)
    (v : List Nat) (hin : innerAt t v = true) (tot : Vec)
    (hget : (totA k tv (vzero k) t).get v = some tot) (s : Nat) (hs : s < k) :
    tot.at s = minCost k tv t ↔
      ∃ l : LT, fits k tv t l = true ∧ l.changes = minCost k tv t ∧ l.get v = some s := by
  have hne : t.kids ≠ [] := by
    intro h; simp [rootOk, h] at hr
  have hsp := tipsOk_spec k tv t ht
  have hlne : ∀ n ∈ t.leaves, leafNonempty k tv n := by
    match t, hne with
    | .node d p (x :: xs), _ => intro n hn; rw [leaves_node_cons] at hn; exact (hsp n hn).2
  constructor
  · intro he
    obtain ⟨l, hf, hg, hc⟩ := tot_att k tv hk t hlne (vzero k) v tot s hs hget hin
    simp only [at_vzero] at hc
    exact ⟨l, hf, by omega, hg⟩
  · intro ⟨l, hf, hc, hg⟩
    have h1 := tot_lb k tv t (vzero k) v tot l s hf hg hget hin
    simp only [at_vzero] at h1
    obtain ⟨l', hf', _, hc'⟩ := tot_att k tv hk t hlne (vzero k) v tot s hs hget hin
    have h2 := minCost_le k tv t hne l' hf'
    simp only [at_vzero] at hc'
    omega

/-- DELTRAN is sound node by node: every state it reports at an inner node occurs there in some
    most parsimonious labelling (it only removes states from the down-pass sets). -/
theorem deltran_sound (k : Nat) (tv : String → Vec) (t : T)
    (hk : 0 < k) (hr : rootOk t = true) (ht : tipsOk k tv t = true)
    (v : List Nat) (hin : innerAt t v = true) (vec : Vec)
    (hget : (runAlgo k tv .deltran t).get v = some vec) (s : Nat) (hs : s < k) (hne : vec.at s ≠ 0) :
    ∃ l : LT, fits k tv t l = true ∧ l.changes = minCost k tv t ∧ l.get v = some s := by
  have hne' : t.kids ≠ [] := by
    intro h; simp [rootOk, h] at hr
  have hsp := tipsOk_spec k tv t ht
  have hl01 : ∀ n ∈ t.leaves, leaf01 k tv n := by
    match t, hne' with
    | .node d p (x :: xs), _ => intro n hn; rw [leaves_node_cons] at hn; exact (hsp n hn).1
  have hsub : (sub t v).isSome = true := by
    simp only [innerAt] at hin
    cases h : sub t v with
    | none => simp [h, innerOpt] at hin
    | some c => rfl
  have hd := down_get k tv t none v hsub
  cases hdv : (down k tv none t).get v with
  | none => simp [hdv] at hd
  | some vec0 =>
    have h0 := deltran_sub k (down k tv none t) none (fun _ e => by cases e)
      (down_flat k tv t hl01 none) v vec0 vec hdv hget s hs hne
    exact (downpass_exact k tv t hk hr ht v hin vec0 hdv s hs).mp h0

/-- ACCTRAN is sound: every state it reports at an inner node occurs there in some most
    parsimonious labelling of the whole tree. -/
theorem acctran_sound (k : Nat) (tv : String → Vec) (t : T)
    (hk : 0 < k) (hr : rootOk t = true) (ht : tipsOk k tv t = true)
    (v : List Nat) (hin : innerAt t v = true) (vec : Vec)
    (hget : (runAlgo k tv .acctran t).get v = some vec) (s : Nat) (hs : s < k) (hne : vec.at s ≠ 0) :
    ∃ l : LT, fits k tv t l = true ∧ l.changes = minCost k tv t ∧ l.get v = some s := by
  have hsp := tipsOk_spec k tv t ht
  match t, hr, hsp, hin, hget with
  | .node dt pt [], hr, _, _, _ => simp [rootOk] at hr
  | .node dt pt (x :: xs), hr, hsp, hin, hget =>
    simp only [T.kids_node] at hsp
    have hl01 : ∀ n ∈ leavesL (x :: xs), leaf01 k tv n := fun n hn => (hsp n hn).1
    have hlne : ∀ n ∈ (T.node dt pt (x :: xs)).leaves, leafNonempty k tv n := by
      intro n hn; rw [leaves_node_cons] at hn; exact (hsp n hn).2
    have hl' : ∀ et ∈ x :: xs, ∀ n ∈ et.2.leaves, leaf01 k tv n :=
      fun et het n hn => hl01 n (leaves_mem_kids (x :: xs) et het n hn)
    obtain ⟨_, hiff⟩ := node_min k tv hk (x :: xs)
      (fun et het i hi => upS_le_one k tv et.2 (hl' et het) i hi)
      (fun et het s hs => key k tv hk et.2 (hl' et het) s hs)
    -- the root's reported set and its second-pass slice
    have hroot : ParOK k (minCost k tv (.node dt pt (x :: xs))) (upS k tv (.node dt pt (x :: xs)))
        (vadd k (fL k tv (x :: xs)) (vzero k)) := by
      obtain ⟨hms, hmax⟩ := argTo_fst (sumL k tv (x :: xs)).at k hk
      refine ⟨fun i hi => upS_le_one k tv _ (by intro n hn; rw [leaves_node_cons] at hn; exact hl01 n hn) i hi,
        ⟨_, hms, by simp only [upS, cp, at_tab, hms, if_true, hmax]; simp⟩, ?_, ?_⟩
      · intro p hp hpne
        have : (sumL k tv (x :: xs)).at p = maxTo (sumL k tv (x :: xs)).at k := by
          simp only [upS, cp, at_tab, hp, if_true] at hpne
          split at hpne <;> simp_all
        have := (hiff p hp).mp this
        simp only [at_vadd, at_vzero, hp, if_true, minCost, T.kids_node]
        omega
      · intro t' ht'
        have := minOver_le k (fL k tv (x :: xs)).at t' ht'
        simp only [at_vadd, at_vzero, ht', if_true, minCost, T.kids_node]
        omega
    have hsub : (sub (.node dt pt (x :: xs)) v).isSome = true := by
      simp only [innerAt] at hin
      cases h : sub (.node dt pt (x :: xs)) v with
      | none => simp [h, innerOpt] at hin
      | some c => rfl
    have htot := tot_get k tv (.node dt pt (x :: xs)) (vzero k) v hsub
    cases htv : (totA k tv (vzero k) (.node dt pt (x :: xs))).get v with
    | none => simp [htv] at htot
    | some tot =>
      have hopt : tot.at s = minCost k tv (.node dt pt (x :: xs)) := by
        match v, hin, hget, htv with
        | [], _, hget, htv =>
          simp only [runAlgo] at hget
          rw [acctran_upA_cons] at hget
          simp only [A.get, Option.some.injEq] at hget
          simp only [totA, A.get, Option.some.injEq] at htv
          subst hget; subst htv
          exact hroot.hopt s hs hne
        | i :: q, hin, hget, htv =>
          simp only [runAlgo] at hget
          rw [acctran_upA_cons] at hget
          simp only [A.get] at hget
          simp only [totA, A.get] at htv
          exact acc_list k tv hk _ (x :: xs) (fun et _ => acc_tree k tv hk _ et.2) hl01
            (vzero k) (vzero k) _ _ hroot
            (fun t' ht' => by simp only [at_vadd, at_vzero, ht', if_true]; omega)
            i q vec tot hget htv (by simpa [innerAt, sub] using hin) s hs hne
      obtain ⟨l, hf, hg, hc⟩ := tot_att k tv hk (.node dt pt (x :: xs)) hlne (vzero k) v tot s hs htv hin
      simp only [at_vzero] at hc
      exact ⟨l, hf, by omega, hg⟩

/-- When ACCTRAN reports exactly one state at every node (tips included), the labelling it
    spells out respects the tip sets and is itself most parsimonious. -/
theorem unambiguous_optimal_acctran (k : Nat) (tv : String → Vec) (t : T)
    (hk : 0 < k) (hr : rootOk t = true) (ht : tipsOk k tv t = true)
    (hall : allSingle k (runAlgo k tv .acctran t).flat = true) :
    fits k tv t (labelOf t ((runAlgo k tv .acctran t).flat.map (hd k))).1 = true ∧
    (labelOf t ((runAlgo k tv .acctran t).flat.map (hd k))).1.changes = minCost k tv t := by
  have hsp := tipsOk_spec k tv t ht
  match t, hr, hsp, hall with
  | .node dt pt [], hr, _, _ => simp [rootOk] at hr
  | .node dt pt (x :: xs), hr, hsp, hall =>
    simp only [T.kids_node] at hsp
    have hl01 : ∀ n ∈ leavesL (x :: xs), leaf01 k tv n := fun n hn => (hsp n hn).1
    have hl' : ∀ et ∈ x :: xs, ∀ n ∈ et.2.leaves, leaf01 k tv n :=
      fun et het n hn => hl01 n (leaves_mem_kids (x :: xs) et het n hn)
    obtain ⟨_, hiff⟩ := node_min k tv hk (x :: xs)
      (fun et het i hi => upS_le_one k tv et.2 (hl' et het) i hi)
      (fun et het s hs => key k tv hk et.2 (hl' et het) s hs)
    simp only [runAlgo] at hall ⊢
    rw [acctran_upA_cons] at hall ⊢
    simp only [A.flat, allSingle, List.all_cons, Bool.and_eq_true, beq_iff_eq] at hall
    obtain ⟨hS1, hrest⟩ := hall
    have hS := isSingle_of k _ hS1
    have hS01 : Set01 k (upS k tv (.node dt pt (x :: xs))) :=
      fun i hi => upS_le_one k tv _ (by intro n hn; rw [leaves_node_cons] at hn; exact hl01 n hn) i hi
    have hlist := unamb_list k tv (x :: xs) (fun et _ => unamb_tree k tv hk et.2) hl01 _ _ [] hS hS01 hrest
    simp only [List.append_nil] at hlist
    have hmin0 : ∀ x0, x0 < k → (upS k tv (.node dt pt (x :: xs))).at x0 ≠ 0 →
        (fL k tv (x :: xs)).at x0 = minOver k (fL k tv (x :: xs)).at := by
      intro x0 hx0 hne
      apply (hiff x0 hx0).mp
      simp only [upS, cp, at_tab, hx0, if_true] at hne
      split at hne <;> simp_all
    have hmin := hmin0 _ hS.1 ((hS.2 _ hS.1).mpr rfl)
    simp only [A.flat, List.map_cons, labelOf, List.headD_cons, List.drop_succ_cons,
      List.drop_zero, LT.changes, minCost, T.kids_node]
    exact ⟨by simp [fits, hS.1, hlist.2.1], by rw [hlist.2.2, hmin]⟩

/-- Tip states are never altered by the plain down-pass nor by DELTRAN: the slice of a leaf is
    the slice it was given (any tip set, ambiguous or not). -/
theorem tips_unaltered (k : Nat) (tv : String → Vec) (t : T) (algo : Algo)
    (ha : algo = .downpass ∨ algo = .deltran)
    (v : List Nat) (d : NodeD) (pp : Nat) (hleaf : sub t v = some (.node d pp [])) :
    (runAlgo k tv algo t).get v = some (tv d.name) := by
  have h1 := down_leaf_sub k tv t none v d pp hleaf
  cases ha with
  | inl h => subst h; exact A.get_of_sub _ v _ h1
  | inr h =>
    subst h
    exact A.get_of_sub _ v _ (deltran_leaf k (down k tv none t) none v (tv d.name) h1)

/-- Tip states are never altered, by any of the algorithms and for any tip set (IUPAC ambiguity included):
    since fix a20daad ACCTRAN, too, leaves the slice of a leaf as it was given. -/
theorem tips_unaltered_all (k : Nat) (tv : String → Vec) (t : T) (algo : Algo)
    (v : List Nat) (d : NodeD) (pp : Nat) (hleaf : sub t v = some (.node d pp [])) :
    (runAlgo k tv algo t).get v = some (tv d.name) := by
  cases algo with
  | downpass => exact tips_unaltered k tv t .downpass (Or.inl rfl) v d pp hleaf
  | deltran => exact tips_unaltered k tv t .deltran (Or.inr rfl) v d pp hleaf
  | acctran => exact A.get_of_sub _ v _ (acctran_leaf_sub k tv t none v d pp hleaf)
  | none =>
    -- the up-pass slice of a leaf is its tip slice: ACCTRAN's sub-lemma with the identity
    have : ∀ (c : T) (p : List Nat), sub c p = some (.node d pp []) → (upA k tv c).get p = some (tv d.name) := by
      intro c
      induction c using T.induct with
      | h d0 p0 ks ih =>
        intro p h
        match ks, ih, p, h with
        | [], _, [], h =>
          simp only [sub, Option.some.injEq, T.node.injEq] at h
          obtain ⟨h1, _, _⟩ := h; subst h1; simp [upA, upAL, upS, A.get]
        | [], _, i :: q, h => simp [sub, subL] at h
        | x :: xs, _, [], h => simp [sub] at h
        | x :: xs, ih, i :: q, h =>
          simp only [sub] at h
          simp only [upA, A.get]
          have hlist : ∀ (ks : Kids), (∀ et ∈ ks, ∀ (p : List Nat), sub et.2 p = some (.node d pp []) →
              (upA k tv et.2).get p = some (tv d.name)) → ∀ i, subL ks i q = some (.node d pp []) →
              A.getL (upAL k tv ks) i q = some (tv d.name) := by
            intro ks
            induction ks with
            | nil => intro _ i h; simp [subL] at h
            | cons z zs ihz =>
              intro hz i h
              match z, i, h with
              | (e, c), 0, h =>
                simp only [subL] at h
                simp only [upAL, A.getL]
                exact hz (e, c) (List.mem_cons_self ..) q h
              | (e, c), i + 1, h =>
                simp only [subL] at h
                simp only [upAL, A.getL]
                exact ihz (fun et het => hz et (List.mem_cons_of_mem _ het)) i h
          exact hlist (x :: xs) ih i h
    exact this t v hleaf

/-- one re-rooting step (the root moves to an inner child): same number of steps, and the
    hypotheses carry over to the re-rooted tree -/
theorem steps_moveRoot (k : Nat) (tv : String → Vec) (algo : Algo) (t : T)
    (hk : 0 < k) (hr : rootOk t = true) (ht : tipsOk k tv t = true) (i : Nat) (p : List Nat)
    (hp : okPath t (i :: p) = true) :
    (runChar k tv algo (moveRoot t i)).1 = (runChar k tv algo t).1 ∧
    rootOk (moveRoot t i) = true ∧ tipsOk k tv (moveRoot t i) = true ∧ okPath (moveRoot t i) p = true := by
  simp only [okPath, Bool.and_eq_true] at hp
  obtain ⟨hi, hp'⟩ := hp
  have hlen : 2 ≤ t.kids.length := by simpa [rootOk] using hr
  cases hki : t.kids[i]? with
  | none => simp [hki] at hi
  | some et =>
    match et, hki with
    | (e, .node d pp []), hki => simp [hki] at hi
    | (e, .node d pp (x :: xs)), hki =>
      have hr' : rootOk (moveRoot t i) = true := by
        match t, hki with
        | .node dt pt ks, hki =>
          simp only [T.kids_node] at hki
          rw [moveRoot_eq dt pt ks i e d pp (x :: xs) hki]
          simp [rootOk]
      have ht' := tipsOk_moveRoot k tv t ht i e d pp (x :: xs) hki hlen
      refine ⟨?_, hr', ht', hp'⟩
      rw [steps_eq_minCost k tv algo (moveRoot t i) hk hr' ht', steps_eq_minCost k tv algo t hk hr ht]
      exact minCost_moveRoot k tv hk t hlen (fun n hn => (tipsOk_spec k tv t ht n hn).2) i e d pp x xs hki

/-- The number of steps does not depend on the root: re-rooting on any inner node (along any
    path of inner nodes) leaves the reported number of steps unchanged. -/
theorem steps_root_invariant (k : Nat) (tv : String → Vec) (algo : Algo) (hk : 0 < k) :
    ∀ (p : List Nat) (t : T), rootOk t = true → tipsOk k tv t = true → okPath t p = true →
    (runChar k tv algo (rerootPath t p)).1 = (runChar k tv algo t).1
  | [], t, _, _, _ => by simp [rerootPath]
  | i :: p, t, hr, ht, hp => by
    obtain ⟨h1, hr', ht', hp'⟩ := steps_moveRoot k tv algo t hk hr ht i p hp
    simp only [rerootPath]
    rw [steps_root_invariant k tv algo hk p (moveRoot t i) hr' ht' hp', h1]

/-- A node with one child inserted on any branch (`subdivide`) changes neither the number of steps nor the
    hypotheses. -/
theorem steps_subdivide (k : Nat) (tv : String → Vec) (algo : Algo) (t : T) (q : List Nat)
    (hk : 0 < k) (hr : rootOk t = true) (ht : tipsOk k tv t = true) :
    (runChar k tv algo (subdivide t q)).1 = (runChar k tv algo t).1 ∧
    rootOk (subdivide t q) = true ∧ tipsOk k tv (subdivide t q) = true := by
  have hr' : rootOk (subdivide t q) = true := by
    match t, q, hr with
    | t, [], hr => simpa [subdivide] using hr
    | .node d p ks, i :: q, hr =>
      simp only [subdivide, rootOk, T.kids_node, subdivideL_length] at hr ⊢
      exact hr
  have ht' : tipsOk k tv (subdivide t q) = true := by
    match t, q, ht with
    | t, [], ht => simpa [subdivide] using ht
    | .node d p ks, i :: q, ht =>
      simp only [subdivide, tipsOk, T.kids_node, leavesL_subdivide] at ht ⊢
      exact ht
  refine ⟨?_, hr', ht'⟩
  rw [steps_eq_minCost k tv algo _ hk hr' ht', steps_eq_minCost k tv algo t hk hr ht]
  exact minCost_subdivide k tv hk t q

/-- Rooting ON A BRANCH: insert a node on the branch above the node addressed by `q`, then move the root there
    (or anywhere else along inner nodes): the reported number of steps is that of the original tree. -/
theorem steps_root_on_branch (k : Nat) (tv : String → Vec) (algo : Algo) (t : T) (q p : List Nat)
    (hk : 0 < k) (hr : rootOk t = true) (ht : tipsOk k tv t = true)
    (hp : okPath (subdivide t q) p = true) :
    (runChar k tv algo (rerootPath (subdivide t q) p)).1 = (runChar k tv algo t).1 := by
  obtain ⟨h1, hr', ht'⟩ := steps_subdivide k tv algo t q hk hr ht
  rw [steps_root_invariant k tv algo hk p (subdivide t q) hr' ht' hp, h1]

/-- When DELTRAN reports exactly one state at every node, the labelling it spells out respects the
    tip sets and is itself most parsimonious. -/
theorem unambiguous_optimal_deltran (k : Nat) (tv : String → Vec) (t : T)
    (hk : 0 < k) (hr : rootOk t = true) (ht : tipsOk k tv t = true)
    (hall : allSingle k (runAlgo k tv .deltran t).flat = true) :
    fits k tv t (labelOf t ((runAlgo k tv .deltran t).flat.map (hd k))).1 = true ∧
    (labelOf t ((runAlgo k tv .deltran t).flat.map (hd k))).1.changes = minCost k tv t := by
  have hsp := tipsOk_spec k tv t ht
  match t, hr, hsp, hall with
  | .node dt pt [], hr, _, _ => simp [rootOk] at hr
  | .node dt pt (x :: xs), hr, hsp, hall =>
    simp only [T.kids_node] at hsp
    have hl01 : ∀ n ∈ leavesL (x :: xs), leaf01 k tv n := fun n hn => (hsp n hn).1
    have hl' : ∀ et ∈ x :: xs, ∀ n ∈ et.2.leaves, leaf01 k tv n :=
      fun et het n hn => hl01 n (leaves_mem_kids (x :: xs) et het n hn)
    obtain ⟨_, hiff⟩ := node_min k tv hk (x :: xs)
      (fun et het i hi => upS_le_one k tv et.2 (hl' et het) i hi)
      (fun et het s hs => key k tv hk et.2 (hl' et het) s hs)
    simp only [runAlgo, down, downL, deltran, A.flat, allSingle, List.all_cons, Bool.and_eq_true, beq_iff_eq] at hall
    obtain ⟨hS1, hrest⟩ := hall
    have hS := isSingle_of k _ hS1
    have hS01 : Set01 k (cp k (sumL k tv (x :: xs))) := cp_01 k _
    have hmin0 : ∀ x0, x0 < k → (cp k (sumL k tv (x :: xs))).at x0 ≠ 0 →
        (fL k tv (x :: xs)).at x0 = minOver k (fL k tv (x :: xs)).at := by
      intro x0 hx0 hne
      apply (hiff x0 hx0).mp
      simp only [cp, at_tab, hx0, if_true] at hne
      split at hne <;> simp_all
    have hmin := hmin0 _ hS.1 ((hS.2 _ hS.1).mpr rfl)
    have hlist := del_list k tv hk (minOver k (fL k tv (x :: xs)).at) (x :: xs)
      (fun et _ => del_tree k tv hk _ et.2) hl01 (vzero k) none (fun t _ => at_vzero k t)
      (vzero k) (vzero k) 0 (by intro t _; simp [at_vzero])
      (cp k (sumL k tv (x :: xs))) (vadd k (fL k tv (x :: xs)) (vzero k)) _ hS hS01
      (by simp only [at_vadd, at_vzero, hS.1, if_true]; omega)
      (by intro t ht
          have := minOver_le k (fL k tv (x :: xs)).at t ht
          simp only [at_vadd, at_vzero, ht, if_true]; omega)
      (by intro t ht; simp only [at_vadd, at_vzero, ht, if_true]; omega)
      [] (by simpa only [downL, allSingle] using hrest)
    simp only [List.append_nil, downL] at hlist
    simp only [runAlgo, down, downL, deltran, A.flat, List.map_cons, labelOf, List.headD_cons, List.drop_succ_cons,
      List.drop_zero, LT.changes, minCost, T.kids_node]
    exact ⟨by simp [fits, hS.1, hlist.2.1], by rw [hlist.2.2, hmin]⟩

/-- When the plain down-pass reports exactly one state at every node, the labelling it spells out
    respects the tip sets and is itself most parsimonious (it is then the only optimal labelling). -/
theorem unambiguous_optimal_downpass (k : Nat) (tv : String → Vec) (t : T)
    (hk : 0 < k) (hr : rootOk t = true) (ht : tipsOk k tv t = true)
    (hall : allSingle k (runAlgo k tv .downpass t).flat = true) :
    fits k tv t (labelOf t ((runAlgo k tv .downpass t).flat.map (hd k))).1 = true ∧
    (labelOf t ((runAlgo k tv .downpass t).flat.map (hd k))).1.changes = minCost k tv t := by
  have hne : t.kids ≠ [] := by
    intro h; simp [rootOk, h] at hr
  have hsp := tipsOk_spec k tv t ht
  obtain ⟨lo, hfo, hco⟩ := minCost_attained k tv hk t hne (fun n hn => (hsp n hn).2)
  have hag : ∀ p s vec, lo.get p = some s → (down k tv none t).get p = some vec → hd k vec = s := by
    intro p s vec hl hdn
    have hsub := down_get_sub k tv t none p (by simp [hdn])
    have hsingle : (members k vec).length = 1 := by
      have hm := A.get_mem_flat _ p vec hdn
      simp only [allSingle, List.all_eq_true, beq_iff_eq] at hall
      exact hall vec hm
    obtain ⟨_, _, h3⟩ := single_spec k vec hsingle
    obtain ⟨s', hs', hg'⟩ := fits_get k tv t lo p hfo hsub
    have hss : s' = s := by rw [hl] at hg'; exact (Option.some.inj hg').symm
    subst hss
    cases hc : sub t p with
    | none => simp [hc] at hsub
    | some c' =>
      match c', hc with
      | .node d pp [], hc =>
        have h1 := tips_unaltered k tv t .downpass (Or.inl rfl) p d pp hc
        have hv : vec = tv d.name := by
          have : (runAlgo k tv .downpass t).get p = some vec := hdn
          rw [h1] at this; exact (Option.some.inj this).symm
        have h2 := fits_leaf k tv t lo p d pp s' hfo hc hl
        rw [← hv] at h2
        exact (h3 s' hs' h2).symm
      | .node d pp (y :: ys), hc =>
        have hin : innerAt t p = true := by simp [innerAt, hc, innerOpt]
        have h2 := (downpass_exact k tv t hk hr ht p hin vec hdn s' hs').mpr ⟨lo, hfo, hco, hl⟩
        exact (h3 s' hs' h2).symm
  have hlab := label_eq k tv t none lo [] hfo hag
  simp only [List.append_nil] at hlab
  show fits k tv t (labelOf t ((down k tv none t).flat.map (hd k))).1 = true ∧
    (labelOf t ((down k tv none t).flat.map (hd k))).1.changes = minCost k tv t
  rw [hlab]
  exact ⟨hfo, hco⟩

/-- ASR vs ACR, step counts.  The same character coded over two alphabets — `k1` states with tip
    slices `tv1` (ACR: the sorted distinct states of the column) and `k2` states with tip slices `tv2`
    (ASR: A C G T - *) — such that `enc` maps tip states of the first coding to tip states of the
    second and `dec` does the converse: both runs report the same number of steps, whatever the
    algorithms. -/
theorem asr_sitewise_steps (k1 k2 : Nat) (tv1 tv2 : String → Vec) (enc dec : Nat → Nat)
    (algo1 algo2 : Algo) (t : T) (hk1 : 0 < k1) (hk2 : 0 < k2) (hr : rootOk t = true)
    (ht1 : tipsOk k1 tv1 t = true) (ht2 : tipsOk k2 tv2 t = true)
    (henc : ∀ s, s < k1 → enc s < k2) (hdec : ∀ s, s < k2 → dec s < k1)
    (h12 : ∀ n ∈ leavesL t.kids, TipMap k1 tv1 tv2 enc n)
    (h21 : ∀ n ∈ leavesL t.kids, TipMap k2 tv2 tv1 dec n) :
    (runChar k2 tv2 algo2 t).1 = (runChar k1 tv1 algo1 t).1 := by
  have hne : t.kids ≠ [] := by
    intro h; simp [rootOk, h] at hr
  rw [steps_eq_minCost k2 tv2 algo2 t hk2 hr ht2, steps_eq_minCost k1 tv1 algo1 t hk1 hr ht1]
  have a := minCost_le_of_map k1 k2 tv1 tv2 enc hk1 henc t hne h12 (fun n hn => (tipsOk_spec k1 tv1 t ht1 n hn).2)
  have b := minCost_le_of_map k2 k1 tv2 tv1 dec hk2 hdec t hne h21 (fun n hn => (tipsOk_spec k2 tv2 t ht2 n hn).2)
  omega

/-- the annotated trees computed over two codings related by an injection correspond slice by slice -/
theorem runAlgo_relA (k1 k2 : Nat) (enc dec : Nat → Nat) (tv1 tv2 : String → Vec) (algo : Algo) (t : T)
    (C : Coding k1 k2 enc dec) (hk1 : 0 < k1) (hr : rootOk t = true) (ht1 : tipsOk k1 tv1 t = true)
    (hl : ∀ n ∈ leavesL t.kids, Rel k2 enc dec (tv1 n) (tv2 n)) :
    RelA k2 enc dec (runAlgo k1 tv1 algo t) (runAlgo k2 tv2 algo t) := by
  have hsp := tipsOk_spec k1 tv1 t ht1
  have hne : t.kids ≠ [] := by
    intro h; simp [rootOk, h] at hr
  have hlen : t.kids.length ≠ 1 := by
    simp only [rootOk, decide_eq_true_eq] at hr; omega
  have hlr : LeavesRel k1 k2 enc dec tv1 tv2 t.leaves := by
    match t, hne, hl, hsp with
    | .node d p (x :: xs), _, hl, hsp =>
      intro n hn; rw [leaves_node_cons] at hn
      obtain ⟨a, ha, hne⟩ := (hsp n hn).2
      exact ⟨hl n hn, a, ha, hne⟩
  have hdown := down_rel C hk1 t none none (by simp [RelOpt]) (fun _ e => by cases e) (fun _ => hlen) hlr
  have hup := upA_rel C hk1 t hlr
  cases algo with
  | downpass => exact hdown
  | deltran => exact deltran_rel C _ _ none none (by simp [RelOpt]) hdown
  | acctran => exact acctran_rel C _ _ none none (by simp [RelOpt]) hup
  | none => exact hup

/-- ASR agrees site by site with ACR.  One character coded over two alphabets: `k1` states with tip
    slices `tv1` (ACR: the sorted distinct states of the column) and `k2` states with tip slices `tv2`
    (ASR: A C G T - *), `enc` an injection of the first into the second (`dec ∘ enc = id`) that carries
    every tip slice over (`Rel`: equal on the image, 0 elsewhere).  Then, for each of the algorithms,
    every slice of the second run is the transported slice of the first run — in particular a state
    outside the first alphabet is never reported — and the numbers of steps are equal. -/
theorem asr_sitewise (k1 k2 : Nat) (enc dec : Nat → Nat) (tv1 tv2 : String → Vec) (algo : Algo) (t : T)
    (C : Coding k1 k2 enc dec) (hk1 : 0 < k1) (hr : rootOk t = true) (ht1 : tipsOk k1 tv1 t = true)
    (hl : ∀ n ∈ leavesL t.kids, Rel k2 enc dec (tv1 n) (tv2 n)) :
    (∀ (v : List Nat) (vec1 vec2 : Vec), (runAlgo k1 tv1 algo t).get v = some vec1 →
        (runAlgo k2 tv2 algo t).get v = some vec2 →
        ∀ b, b < k2 → vec2.at b = if enc (dec b) = b then vec1.at (dec b) else 0) ∧
    (runChar k2 tv2 algo t).1 = (runChar k1 tv1 algo t).1 := by
  have hsp := tipsOk_spec k1 tv1 t ht1
  have hne : t.kids ≠ [] := by
    intro h; simp [rootOk, h] at hr
  have hlen : t.kids.length ≠ 1 := by
    simp only [rootOk, decide_eq_true_eq] at hr; omega
  have hlr : LeavesRel k1 k2 enc dec tv1 tv2 t.leaves := by
    match t, hne, hl, hsp with
    | .node d p (x :: xs), _, hl, hsp =>
      intro n hn; rw [leaves_node_cons] at hn
      obtain ⟨a, ha, hne⟩ := (hsp n hn).2
      exact ⟨hl n hn, a, ha, hne⟩
  constructor
  · -- the slices
    intro v vec1 vec2 h1 h2
    exact RelA.get k2 enc dec _ _ (runAlgo_relA k1 k2 enc dec tv1 tv2 algo t C hk1 hr ht1 hl) v vec1 vec2 h1 h2
  · -- the steps
    have hk2 : 0 < k2 := by have := C.henc 0 hk1; omega
    have ht2 : tipsOk k2 tv2 t = true := by
      simp only [tipsOk, List.all_eq_true, Bool.and_eq_true, List.any_eq_true, decide_eq_true_eq, List.mem_range]
      intro n hn
      obtain ⟨h01, a, ha, hane⟩ := hsp n hn
      constructor
      · intro b hb
        rw [hl n hn b hb]
        split
        · exact h01 _ (C.hdec b hb)
        · omega
      · exact ⟨enc a, C.henc a ha, by rw [(hl n hn).at_enc C a ha]; exact hane⟩
    refine asr_sitewise_steps k1 k2 tv1 tv2 enc dec algo algo t hk1 hk2 hr ht1 ht2 C.henc C.hdec ?_ ?_
    · intro n hn s hs hne'
      rw [(hl n hn).at_enc C s hs]; exact hne'
    · intro n hn s hs hne'
      rw [hl n hn s hs] at hne'
      split at hne'
      · exact hne'
      · exact absurd rfl hne'

/-- ASR agrees site by site with ACR, for the concrete entry points.  On an alignment whose column
    `j` is unambiguous (`A C G T -` only), the per-site run of `asr` (alphabet A C G T - *, slices
    `asrTipVec m j`) and the run of `acr` on that column (`colMap m j`: its own sorted alphabet, slices
    `acrTipVec`) report the same number of steps, and every slice of the ASR run is the slice of the ACR
    run transported along the injection `colEnc` of the column's alphabet into A C G T - *. -/
theorem asr_sitewise_column (t : T) (m : List (String × String)) (j : Nat) (algo : Algo)
    (hr : rootOk t = true) (hall : (t.tipNames.all fun n => (lookup m n).isSome) = true)
    (hp : plainCol m j = true) :
    (runChar 6 (asrTipVec m j) algo t).1 =
      (runChar (alphabet ((colMap m j).map (·.2))).length
        (acrTipVec (colMap m j) (alphabet ((colMap m j).map (·.2)))) algo t).1 ∧
    ∀ (v : List Nat) (vec1 vec2 : Vec),
      (runAlgo (alphabet ((colMap m j).map (·.2))).length
        (acrTipVec (colMap m j) (alphabet ((colMap m j).map (·.2)))) algo t).get v = some vec1 →
      (runAlgo 6 (asrTipVec m j) algo t).get v = some vec2 →
      ∀ b, b < 6 → vec2.at b =
        if colEnc (alphabet ((colMap m j).map (·.2))) (colDec (alphabet ((colMap m j).map (·.2))) b) = b
        then vec1.at (colDec (alphabet ((colMap m j).map (·.2))) b) else 0 := by
  have hlen : ¬ t.kids.length = 1 := by
    simp only [rootOk, decide_eq_true_eq] at hr; omega
  have hnames : t.tipNames = leavesL t.kids := by simp [T.tipNames, hlen]
  have hall' : (t.tipNames.all fun n => (lookup (colMap m j) n).isSome) = true := by
    simp only [List.all_eq_true] at hall ⊢
    intro n hn
    cases hl : lookup m n with
    | none => have := hall n hn; simp [hl] at this
    | some sq => simp [lookup_colMap j n sq m hl]
  obtain ⟨hk, ht1⟩ := acr_hyps t (colMap m j) hr hall'
  have C := col_coding m j hp hk
  have hl : ∀ n ∈ leavesL t.kids, Rel 6 (colEnc (alphabet ((colMap m j).map (·.2))))
      (colDec (alphabet ((colMap m j).map (·.2))))
      (acrTipVec (colMap m j) (alphabet ((colMap m j).map (·.2))) n) (asrTipVec m j n) := by
    intro n hn
    rw [← hnames] at hn
    simp only [List.all_eq_true] at hall
    cases hlk : lookup m n with
    | none => have := hall n hn; simp [hlk] at this
    | some sq => exact col_rel m j hp n sq hlk
  have h := asr_sitewise _ 6 _ _ _ (asrTipVec m j) algo t C hk hr ht1 hl
  exact ⟨h.2, h.1⟩

/-- the `j`-th entry of the step list of `asr` is the step count of the per-site run, and the step
    count of `acr` is that of its run: with `asr_sitewise_column`, ASR's steps at an unambiguous
    site are ACR's steps on that column -/
theorem asr_acr_steps (t : T) (m : List (String × String)) (len j : Nat) (algo : Algo) (oa : AsrOut) (oc : AcrOut)
    (hr : rootOk t = true) (hj : j < len) (hp : plainCol m j = true)
    (ha : asr t m len algo = some oa) (hc : acr t (colMap m j) algo = some oc) :
    oa.steps.getD j 0 = oc.steps := by
  have hlen : ¬ t.kids.length = 1 := by
    simp only [rootOk, decide_eq_true_eq] at hr; omega
  have hlook : lookedUp t = t.tipNames := by simp [lookedUp, hlen]
  unfold asr at ha
  unfold acr at hc
  rw [hlook] at ha hc
  cases halg : (algo == Algo.none) with
  | true => simp [halg] at ha
  | false =>
    cases hall : (t.tipNames.all fun n => (lookup m n).isSome) with
    | false => simp [halg, hall] at ha
    | true =>
      cases hall2 : (t.tipNames.all fun n => (lookup (colMap m j) n).isSome) with
      | false => simp [hall2] at hc
      | true =>
        simp only [halg, hall, hall2, Bool.not_true, Bool.false_eq_true, if_false, Option.some.injEq] at ha hc
        have h1 : oa.steps.getD j 0 = (runChar 6 (asrTipVec m j) algo t).1 := by
          rw [← ha]
          simp [List.getD_eq_getElem?_getD, List.getElem?_append_left, hj]
        have h2 : oc.steps = (runChar (alphabet ((colMap m j).map (·.2))).length
            (acrTipVec (colMap m j) (alphabet ((colMap m j).map (·.2)))) algo t).1 := by
          rw [← hc]
        rw [h1, h2]
        exact (asr_sitewise_column t m j algo hr hall hp).1

/-- … and the state NAMES written for every node (pre-order) are the same sets: `asr`'s output for an
    unambiguous site and `acr`'s output for that column agree node by node. -/
theorem asr_acr_sets (t : T) (m : List (String × String)) (len j : Nat) (algo : Algo) (oa : AsrOut) (oc : AcrOut)
    (hr : rootOk t = true) (hj : j < len) (hp : plainCol m j = true)
    (ha : asr t m len algo = some oa) (hc : acr t (colMap m j) algo = some oc) :
    SameSets oc.sets (oa.sets.getD j []) := by
  have hlen : ¬ t.kids.length = 1 := by
    simp only [rootOk, decide_eq_true_eq] at hr; omega
  have hlook : lookedUp t = t.tipNames := by simp [lookedUp, hlen]
  have hnames : t.tipNames = leavesL t.kids := by simp [T.tipNames, hlen]
  unfold asr at ha
  unfold acr at hc
  rw [hlook] at ha hc
  cases halg : (algo == Algo.none) with
  | true => simp [halg] at ha
  | false =>
    cases hall : (t.tipNames.all fun n => (lookup m n).isSome) with
    | false => simp [halg, hall] at ha
    | true =>
      cases hall2 : (t.tipNames.all fun n => (lookup (colMap m j) n).isSome) with
      | false => simp [hall2] at hc
      | true =>
        simp only [halg, hall, hall2, Bool.not_true, Bool.false_eq_true, if_false, Option.some.injEq] at ha hc
        obtain ⟨hk, ht1⟩ := acr_hyps t (colMap m j) hr hall2
        have C := col_coding m j hp hk
        have hl : ∀ n ∈ leavesL t.kids, Rel 6 (colEnc (alphabet ((colMap m j).map (·.2))))
            (colDec (alphabet ((colMap m j).map (·.2))))
            (acrTipVec (colMap m j) (alphabet ((colMap m j).map (·.2))) n) (asrTipVec m j n) := by
          intro n hn
          rw [← hnames] at hn
          simp only [List.all_eq_true] at hall
          cases hlk : lookup m n with
          | none => have := hall n hn; simp [hlk] at this
          | some sq => exact col_rel m j hp n sq hlk
        have hrel := runAlgo_relA _ 6 _ _ _ (asrTipVec m j) algo t C hk hr ht1 hl
        have hflat := RelA.flat _ _ hrel
        have hsets := sameSets_of_rel m j hp hk _ _ hflat
        have h1 : oa.sets.getD j [] = (runAlgo 6 (asrTipVec m j) algo t).flat.map (stateNames asrAlphabet) := by
          rw [← ha]
          simp [List.getD_eq_getElem?_getD, hj, runChar, hlen]
        have h2 : oc.sets = (runAlgo (alphabet ((colMap m j).map (·.2))).length
            (acrTipVec (colMap m j) (alphabet ((colMap m j).map (·.2)))) algo t).flat.map
              (stateNames (alphabet ((colMap m j).map (·.2)))) := by
          rw [← hc]
          simp [runChar, hlen]
        rw [h1, h2]
        exact hsets

/-- ASR vs ACR, state sets of the plain down-pass (partial: states of the first coding only).
    With `dec (enc a) = a`, state `a` is reported at an inner node by the run over the first coding
    iff `enc a` is reported there by the run over the second. -/
theorem asr_sitewise_downpass_tipmap (k1 k2 : Nat) (tv1 tv2 : String → Vec) (enc dec : Nat → Nat)
    (t : T) (hk1 : 0 < k1) (hk2 : 0 < k2) (hr : rootOk t = true)
    (ht1 : tipsOk k1 tv1 t = true) (ht2 : tipsOk k2 tv2 t = true)
    (henc : ∀ s, s < k1 → enc s < k2) (hdec : ∀ s, s < k2 → dec s < k1)
    (hinv : ∀ s, s < k1 → dec (enc s) = s)
    (h12 : ∀ n ∈ leavesL t.kids, TipMap k1 tv1 tv2 enc n)
    (h21 : ∀ n ∈ leavesL t.kids, TipMap k2 tv2 tv1 dec n)
    (v : List Nat) (hin : innerAt t v = true) (vec1 vec2 : Vec)
    (hg1 : (runAlgo k1 tv1 .downpass t).get v = some vec1)
    (hg2 : (runAlgo k2 tv2 .downpass t).get v = some vec2) (a : Nat) (ha : a < k1) :
    vec2.at (enc a) ≠ 0 ↔ vec1.at a ≠ 0 := by
  have hne : t.kids ≠ [] := by
    intro h; simp [rootOk, h] at hr
  have hl12 : ∀ n ∈ t.leaves, TipMap k1 tv1 tv2 enc n := by
    match t, hne, h12 with
    | .node d p (x :: xs), _, h12 => intro n hn; rw [leaves_node_cons] at hn; exact h12 n hn
  have hl21 : ∀ n ∈ t.leaves, TipMap k2 tv2 tv1 dec n := by
    match t, hne, h21 with
    | .node d p (x :: xs), _, h21 => intro n hn; rw [leaves_node_cons] at hn; exact h21 n hn
  have hle12 := minCost_le_of_map k1 k2 tv1 tv2 enc hk1 henc t hne h12 (fun n hn => (tipsOk_spec k1 tv1 t ht1 n hn).2)
  have hle21 := minCost_le_of_map k2 k1 tv2 tv1 dec hk2 hdec t hne h21 (fun n hn => (tipsOk_spec k2 tv2 t ht2 n hn).2)
  rw [downpass_exact k2 tv2 t hk2 hr ht2 v hin vec2 hg2 (enc a) (henc a ha),
      downpass_exact k1 tv1 t hk1 hr ht1 v hin vec1 hg1 a ha]
  constructor
  · intro ⟨l, hf, hc, hg⟩
    refine ⟨l.map dec, fits_map k2 k1 tv2 tv1 dec hdec t l hl21 hf, ?_, ?_⟩
    · have h1 := LT.changes_map_le dec l
      have h2 := minCost_le k1 tv1 t hne (l.map dec) (fits_map k2 k1 tv2 tv1 dec hdec t l hl21 hf)
      omega
    · rw [LT.get_map, hg]; simp [hinv a ha]
  · intro ⟨l, hf, hc, hg⟩
    refine ⟨l.map enc, fits_map k1 k2 tv1 tv2 enc henc t l hl12 hf, ?_, ?_⟩
    · have h1 := LT.changes_map_le enc l
      have h2 := minCost_le k2 tv2 t hne (l.map enc) (fits_map k1 k2 tv1 tv2 enc henc t l hl12 hf)
      omega
    · rw [LT.get_map, hg]; simp

/-- The ACR entry point (`ParsimonyAcr`: alphabet = sorted distinct states of the map, one state
    per tip): whenever it accepts, the reported number of steps is optimal — no hypothesis on the
    tip states is left, every assignment of states to the tips is covered. -/
theorem acr_optimal (t : T) (m : List (String × String)) (algo : Algo) (out : AcrOut)
    (hr : rootOk t = true) (h : acr t m algo = some out) :
    (∀ l : LT, fits (alphabet (m.map (·.2))).length (acrTipVec m (alphabet (m.map (·.2)))) t l = true →
      out.steps ≤ l.changes) ∧
    ∃ l : LT, fits (alphabet (m.map (·.2))).length (acrTipVec m (alphabet (m.map (·.2)))) t l = true ∧
      l.changes = out.steps := by
  have hlen : ¬ t.kids.length = 1 := by
    simp only [rootOk, decide_eq_true_eq] at hr; omega
  have hlook : lookedUp t = t.tipNames := by simp [lookedUp, hlen]
  unfold acr at h
  rw [hlook] at h
  cases hall : (t.tipNames.all fun n => (lookup m n).isSome) with
  | false => simp [hall] at h
  | true =>
    simp only [hall, Bool.not_true, Bool.false_eq_true, if_false, Option.some.injEq] at h
    obtain ⟨hk, ht⟩ := acr_hyps t m hr hall
    have hsteps : out.steps = (runChar (alphabet (m.map (·.2))).length (acrTipVec m (alphabet (m.map (·.2)))) algo t).1 := by
      rw [← h]
    rw [hsteps]
    exact uppass_optimal _ _ algo t hk hr ht

/-- The returned name→states map (`buildInternalNamesToStatesMap`) says nothing else than the node
    comments: every entry is (name, or pre-order number when unnamed, of a node that is not a Go tip;
    the set of state names written at that node). -/
theorem acr_map_sound (t : T) (m : List (String × String)) (algo : Algo) (out : AcrOut)
    (h : acr t m algo = some out) (kv : String × List String) (hkv : kv ∈ out.map) :
    ∃ i, i < t.nodeNames.length ∧ (goTipFlags t).getD i false = false ∧
      kv.1 = (if t.nodeNames.getD i "" != "" then t.nodeNames.getD i "" else toString i) ∧
      kv.2 = out.sets.getD i [] := by
  unfold acr at h
  split at h
  · simp at h
  · simp only [Option.some.injEq] at h
    subst h
    simp only [] at hkv
    rcases mem_foldl_insertKV kv _ [] hkv with h' | h'
    · rw [List.mem_filterMap] at h'
      obtain ⟨i, hi, he⟩ := h'
      rw [List.mem_range] at hi
      refine ⟨i, hi, ?_⟩
      by_cases hf : (goTipFlags t).getD i false = true
      · rw [if_pos hf] at he; cases he
      · rw [if_neg hf] at he
        have hkv' := Option.some.inj he
        refine ⟨by simpa using hf, ?_, ?_⟩
        · rw [← hkv']
        · rw [← hkv']
    · cases h'

/-- The ASR entry point (`ParsimonyAsr`, nucleotides), PARTIAL: on every site whose characters are keys
    of `align.IupacCode` (upper-case IUPAC codes and `-`, hypothesis `iupacCol`) the reported number of
    steps is optimal for the tip sets "any of these states".  The full statement — for every character
    goalign accepts in a nucleotide alignment — is FALSE for the code as it is: `asr_noniupac_fails`
    (open known finding F59, AsrNonIupacCharEmptySet). -/
theorem asr_optimal_partial (t : T) (m : List (String × String)) (len j : Nat) (algo : Algo) (oa : AsrOut)
    (hr : rootOk t = true) (hj : j < len) (hp : iupacCol m j = true)
    (ha : asr t m len algo = some oa) :
    (∀ l : LT, fits 6 (asrTipVec m j) t l = true → oa.steps.getD j 0 ≤ l.changes) ∧
    ∃ l : LT, fits 6 (asrTipVec m j) t l = true ∧ l.changes = oa.steps.getD j 0 := by
  have hlen : ¬ t.kids.length = 1 := by
    simp only [rootOk, decide_eq_true_eq] at hr; omega
  have hlook : lookedUp t = t.tipNames := by simp [lookedUp, hlen]
  unfold asr at ha
  rw [hlook] at ha
  cases halg : (algo == Algo.none) with
  | true => simp [halg] at ha
  | false =>
    cases hall : (t.tipNames.all fun n => (lookup m n).isSome) with
    | false => simp [halg, hall] at ha
    | true =>
      simp only [halg, hall, Bool.not_true, Bool.false_eq_true, if_false, Option.some.injEq] at ha
      have h1 : oa.steps.getD j 0 = (runChar 6 (asrTipVec m j) algo t).1 := by
        rw [← ha]
        simp [List.getD_eq_getElem?_getD, List.getElem?_append_left, hj]
      rw [h1]
      exact uppass_optimal 6 _ algo t (by omega) hr (asr_hyps t m j hr hall hp)

/-- The ASR entry point on a PROTEIN alignment (`align.ALL_AMINO` = `X` expanded to the 20 amino
    acids, `-` and `*` states of their own): on every site made of amino acids, `-`, `*` and `X`
    the reported number of steps is optimal. -/
theorem asrProt_optimal (t : T) (m : List (String × String)) (len j : Nat) (algo : Algo) (oa : AsrOut)
    (hr : rootOk t = true) (hj : j < len) (hp : aaCol m j = true)
    (ha : asrProt t m len algo = some oa) :
    (∀ l : LT, fits 22 (aaTipVec m j) t l = true → oa.steps.getD j 0 ≤ l.changes) ∧
    ∃ l : LT, fits 22 (aaTipVec m j) t l = true ∧ l.changes = oa.steps.getD j 0 := by
  have hlen : ¬ t.kids.length = 1 := by
    simp only [rootOk, decide_eq_true_eq] at hr; omega
  have hlook : lookedUp t = t.tipNames := by simp [lookedUp, hlen]
  unfold asrProt at ha
  rw [hlook] at ha
  cases halg : (algo == Algo.none) with
  | true => simp [halg] at ha
  | false =>
    cases hall : (t.tipNames.all fun n => (lookup m n).isSome) with
    | false => simp [halg, hall] at ha
    | true =>
      simp only [halg, hall, Bool.not_true, Bool.false_eq_true, if_false, Option.some.injEq] at ha
      have h1 : oa.steps.getD j 0 = (runChar 22 (aaTipVec m j) algo t).1 := by
        rw [← ha]
        simp [List.getD_eq_getElem?_getD, List.getElem?_append_left, hj]
      rw [h1]
      exact uppass_optimal 22 _ algo t (by omega) hr (asrProt_hyps t m j hr hall hp)

/- ## the random-resolution option (`randomResolve = true`), draws = an arbitrary stream `st` -/

/-- With random resolution the reported number of steps is still the minimum (whatever the draws). -/
theorem random_steps_optimal (k : Nat) (tv : String → Vec) (algo : Algo) (t : T) (st : List Nat)
    (hk : 0 < k) (hr : rootOk t = true) (ht : tipsOk k tv t = true) :
    (∀ l : LT, fits k tv t l = true → (runCharR k tv algo t st).1 ≤ l.changes) ∧
    ∃ l : LT, fits k tv t l = true ∧ l.changes = (runCharR k tv algo t st).1 := by
  have h := uppass_optimal k tv algo t hk hr ht
  rw [runChar_steps k tv algo t hr] at h
  have hlen : ¬ t.kids.length = 1 := by
    simp only [rootOk, decide_eq_true_eq] at hr; omega
  have he : (runCharR k tv algo t st).1 = upN k tv t := by simp [runCharR, hlen]
  rw [he]
  exact h

/-- DOWNPASS / DELTRAN with random resolution: every state reported at an inner node occurs there in
    some most parsimonious labelling (whatever the draws). -/
theorem random_down_deltran_sound (k : Nat) (tv : String → Vec) (t : T) (st : List Nat) (algo : Algo)
    (halgo : algo = .downpass ∨ algo = .deltran)
    (hk : 0 < k) (hr : rootOk t = true) (ht : tipsOk k tv t = true)
    (v : List Nat) (hin : innerAt t v = true) (vec : Vec)
    (hget : (runAlgoR k tv algo t st).1.get v = some vec) (s : Nat) (hs : s < k) (hne : vec.at s ≠ 0) :
    ∃ l : LT, fits k tv t l = true ∧ l.changes = minCost k tv t ∧ l.get v = some s := by
  have hne' : t.kids ≠ [] := by
    intro h; simp [rootOk, h] at hr
  have hsp := tipsOk_spec k tv t ht
  have hl01 : ∀ n ∈ t.leaves, leaf01 k tv n := by
    match t, hne' with
    | .node d p (x :: xs), _ => intro n hn; rw [leaves_node_cons] at hn; exact (hsp n hn).1
  have hsub : (sub t v).isSome = true := by
    simp only [innerAt] at hin
    cases h : sub t v with
    | none => simp [h, innerOpt] at hin
    | some c => rfl
  have hd := down_get k tv t none v hsub
  cases hdv : (down k tv none t).get v with
  | none => simp [hdv] at hd
  | some vec0 =>
    have h0 : vec0.at s ≠ 0 := by
      rcases halgo with e | e
      · subst e
        exact resolveA_sub k (down k tv none t) st v vec0 vec hdv hget s hs hne
      · subst e
        exact deltranR_sub k (down k tv none t) none st (fun _ e => by cases e)
          (down_flat k tv t hl01 none) v vec0 vec hdv hget s hs hne
    exact (downpass_exact k tv t hk hr ht v hin vec0 hdv s hs).mp h0

theorem random_acctran_sound (k : Nat) (tv : String → Vec) (t : T) (st : List Nat)
    (hk : 0 < k) (hr : rootOk t = true) (ht : tipsOk k tv t = true)
    (v : List Nat) (hin : innerAt t v = true) (vec : Vec)
    (hget : (runAlgoR k tv .acctran t st).1.get v = some vec) (s : Nat) (hs : s < k) (hne : vec.at s ≠ 0) :
    ∃ l : LT, fits k tv t l = true ∧ l.changes = minCost k tv t ∧ l.get v = some s := by
  have hsp := tipsOk_spec k tv t ht
  match t, hr, hsp, hin, hget with
  | .node dt pt [], hr, _, _, _ => simp [rootOk] at hr
  | .node dt pt ((e0, c0) :: xs), hr, hsp, hin, hget =>
    simp only [T.kids_node] at hsp
    have hl01 : ∀ n ∈ leavesL ((e0, c0) :: xs), leaf01 k tv n := fun n hn => (hsp n hn).1
    have hlne : ∀ n ∈ (T.node dt pt ((e0, c0) :: xs)).leaves, leafNonempty k tv n := by
      intro n hn; rw [leaves_node_cons] at hn; exact (hsp n hn).2
    have hl' : ∀ et ∈ (e0, c0) :: xs, ∀ n ∈ et.2.leaves, leaf01 k tv n :=
      fun et het n hn => hl01 n (leaves_mem_kids ((e0, c0) :: xs) et het n hn)
    obtain ⟨_, hiff⟩ := node_min k tv hk ((e0, c0) :: xs)
      (fun et het i hi => upS_le_one k tv et.2 (hl' et het) i hi)
      (fun et het s hs => key k tv hk et.2 (hl' et het) s hs)
    -- the root's reported set and its second-pass slice
    have hroot : ParOK k (minCost k tv (.node dt pt ((e0, c0) :: xs))) (upS k tv (.node dt pt ((e0, c0) :: xs)))
        (vadd k (fL k tv ((e0, c0) :: xs)) (vzero k)) := by
      obtain ⟨hms, hmax⟩ := argTo_fst (sumL k tv ((e0, c0) :: xs)).at k hk
      refine ⟨fun i hi => upS_le_one k tv _ (by intro n hn; rw [leaves_node_cons] at hn; exact hl01 n hn) i hi,
        ⟨_, hms, by simp only [upS, cp, at_tab, hms, if_true, hmax]; simp⟩, ?_, ?_⟩
      · intro p hp hpne
        have : (sumL k tv ((e0, c0) :: xs)).at p = maxTo (sumL k tv ((e0, c0) :: xs)).at k := by
          simp only [upS, cp, at_tab, hp, if_true] at hpne
          split at hpne <;> simp_all
        have := (hiff p hp).mp this
        simp only [at_vadd, at_vzero, hp, if_true, minCost, T.kids_node]
        omega
      · intro t' ht'
        have := minOver_le k (fL k tv ((e0, c0) :: xs)).at t' ht'
        simp only [at_vadd, at_vzero, ht', if_true, minCost, T.kids_node]
        omega
    have hsub : (sub (.node dt pt ((e0, c0) :: xs)) v).isSome = true := by
      simp only [innerAt] at hin
      cases h : sub (.node dt pt ((e0, c0) :: xs)) v with
      | none => simp [h, innerOpt] at hin
      | some c => rfl
    have htot := tot_get k tv (.node dt pt ((e0, c0) :: xs)) (vzero k) v hsub
    cases htv : (totA k tv (vzero k) (.node dt pt ((e0, c0) :: xs))).get v with
    | none => simp [htv] at htot
    | some tot =>
      have hopt : tot.at s = minCost k tv (.node dt pt ((e0, c0) :: xs)) := by
        match v, hin, hget, htv with
        | [], _, hget, htv =>
          simp only [runAlgoR, upA, upAL, acctranR, A.get, Option.some.injEq] at hget
          simp only [totA, A.get, Option.some.injEq] at htv
          subst hget; subst htv
          exact (parOK_resolve k _ _ _ st hroot).hopt s hs hne
        | i :: q, hin, hget, htv =>
          simp only [runAlgoR, upA, upAL, acctranR, A.get] at hget
          simp only [totA, A.get] at htv
          exact accR_list k tv _ ((e0, c0) :: xs) (fun et _ => accR_tree k tv hk _ et.2) hl01
            (vzero k) (vzero k) _ _ _ (parOK_resolve k _ _ _ st hroot)
            (fun t' ht' => by simp only [at_vadd, at_vzero, ht', if_true]; omega)
            i q vec tot (by simpa only [upAL] using hget) htv (by simpa [innerAt, sub] using hin) s hs hne
      obtain ⟨l, hf, hg, hc⟩ := tot_att k tv hk (.node dt pt ((e0, c0) :: xs)) hlne (vzero k) v tot s hs htv hin
      simp only [at_vzero] at hc
      exact ⟨l, hf, by omega, hg⟩

/- ## the command-line glue (`cmd/acr.go`) -/

/-- The states file reader of `gotree acr`: a file with one line `name<TAB or comma>state` per entry
    (no tab or comma inside names and states) is read as exactly the map it describes — entries taken in
    order, a later line for the same name replacing an earlier one. -/
theorem states_file_roundtrip (es : List Entry) (h : ∀ e ∈ es, e.ok) :
    parseTipStates (es.map Entry.line) [] = some (es.foldl (fun acc e => insertKV (e.name, e.state) acc) []) :=
  parseTipStates_render es [] h

/-- … and a line that does not have exactly two columns, anywhere in the file, makes `acrCli` fail
    before any tree is looked at (whatever the trees and the — known — algorithm). -/
theorem states_file_bad (pre : List Entry) (bad : String) (post : List String) (algoS : String) (trees : List T)
    (hpre : ∀ e ∈ pre, e.ok) (hbad : (splitCols bad.toList).length ≠ 2) (halgo : (cliAlgo algoS).isSome = true) :
    (match acrCli algoS (pre.map Entry.line ++ bad :: post) trees with
     | .fail 0 => true
     | _ => false) = true := by
  unfold acrCli
  cases ha : cliAlgo algoS with
  | none => simp [ha] at halgo
  | some a => simp [parseTipStates_bad pre bad post [] hpre hbad]

example : (⟨"t0", '\t', "A"⟩ : Entry).ok :=
  ⟨Or.inl rfl, by unfold cleanChars; decide, by unfold cleanChars; decide⟩

example : (splitCols "a,b,c".toList).length ≠ 2 ∧ (splitCols "".toList).length ≠ 2 := by decide

/- ## a tree rooted at a tip (finding ParsimonyRootIsTip) -/

theorem rootOk_rootAtNeighbour (t : T) (h : tipRooted t = true) : rootOk (rootAtNeighbour t) = true := by
  match t, h with
  | .node d p [(e, .node dc pc [])], h => simp [tipRooted] at h
  | .node d p [(e, .node dc pc (x :: xs))], _ => simp [rootAtNeighbour, rootOk]
  | .node d p [], h => simp [tipRooted] at h
  | .node d p (_ :: _ :: _), h => simp [tipRooted] at h

/-- For the property a tree rooted at a tip is the same tree seen from the root's neighbour (`rootAtNeighbour t`,
    which is `moveRoot t 0`; the old root is one of its tips).  The steps computed from there — what `runChar` returns
    as soon as the switch `rootTipFixedInRepo` follows the proposed fix — are optimal. -/
theorem root_is_tip_fixed_optimal (k : Nat) (tv : String → Vec) (algo : Algo) (t : T)
    (hk : 0 < k) (htr : tipRooted t = true) (ht : tipsOk k tv (rootAtNeighbour t) = true) :
    (rootTipFixedInRepo = true → runChar k tv algo t = runCharAtNeighbour k tv algo t) ∧
    (∀ l : LT, fits k tv (rootAtNeighbour t) l = true → (runCharAtNeighbour k tv algo t).1 ≤ l.changes) ∧
    ∃ l : LT, fits k tv (rootAtNeighbour t) l = true ∧ l.changes = (runCharAtNeighbour k tv algo t).1 := by
  have hr := rootOk_rootAtNeighbour t htr
  refine ⟨?_, ?_⟩
  · intro hfix
    have hlen : t.kids.length = 1 := by
      match t, htr with
      | .node d p [(e, c)], _ => rfl
      | .node d p [], h => simp [tipRooted] at h
      | .node d p (_ :: _ :: _), h => simp [tipRooted] at h
    simp [runChar, hlen, hfix, htr]
  · have h := uppass_optimal k tv algo (rootAtNeighbour t) hk hr ht
    rw [runChar_steps k tv algo _ hr] at h
    exact h

def tipRootedWitness : T :=
  .node ⟨"r", []⟩ 0 [(EdgeD.blank, .node ⟨"", []⟩ 0 [(EdgeD.blank, T.leaf "a"), (EdgeD.blank, T.leaf "b"), (EdgeD.blank, T.leaf "c")])]

def tipRootedStates : String → Vec
  | "a" => [1, 0, 0] | "b" => [0, 1, 0] | "c" => [0, 0, 1] | _ => [1, 0, 0]

/-- Negative theorem, finding ParsimonyRootIsTip: on `((a,b,c))r;` with states A, B, C and r = A the pinned
    behaviour reports 0 steps and leaves every node but the root without state, while 2 changes are needed. -/
theorem root_is_tip_pinned_fails :
    tipRooted tipRootedWitness = true ∧
    runCharRootTipPinned 3 tipRootedStates tipRootedWitness = (0, [[1, 0, 0], [0, 0, 0], [0, 0, 0], [0, 0, 0], [0, 0, 0]]) ∧
    minCost 3 tipRootedStates (rootAtNeighbour tipRootedWitness) = 2 ∧
    tipsOk 3 tipRootedStates (rootAtNeighbour tipRootedWitness) = true ∧
    (runCharAtNeighbour 3 tipRootedStates .downpass tipRootedWitness).1 = 2 ∧
    rootAtNeighbour tipRootedWitness == moveRoot tipRootedWitness 0 := by
  decide

/- ## finding AsrNonIupacCharEmptySet (asr/parsimony.go:88), as a theorem about the model -/

def starTree : T :=
  .node ⟨"", []⟩ 0 [(EdgeD.blank, T.leaf "t0"), (EdgeD.blank, T.leaf "t1"), (EdgeD.blank, T.leaf "t2")]

/-- the column `?`, `N`, `T` as the code (and the model, `iupac`) reads it: `?` has NO state -/
def colAsCode : String → Vec
  | "t0" => tab 6 fun i => if (iupac '?').contains i then 1 else 0
  | "t1" => tab 6 fun i => if (iupac 'N').contains i then 1 else 0
  | _ => tab 6 fun i => if (iupac 'T').contains i then 1 else 0

/-- the same column as the property reads it: `?` = unknown = any nucleotide -/
def colAsMeant : String → Vec
  | "t0" => tab 6 fun i => if (specIupac '?').contains i then 1 else 0
  | "t1" => tab 6 fun i => if (specIupac 'N').contains i then 1 else 0
  | _ => tab 6 fun i => if (specIupac 'T').contains i then 1 else 0

/-- Negative theorem (the excluded region of `uppass_optimal` is `tipsOk`: every tip set non-empty).
    On the star tree with the column `? N T` the model — like `gotree asr` — reports 1 step, while
    no change at all is needed when `?` is read as "any nucleotide"; the hypothesis `tipsOk` fails
    precisely because the code gives `?` (and lower case letters, `X`, `U`, `O`, `.`) the empty set. -/
theorem asr_noniupac_fails :
    (runChar 6 colAsCode .downpass starTree).1 = 1 ∧ minCost 6 colAsMeant starTree = 0 ∧
    tipsOk 6 colAsCode starTree = false ∧ tipsOk 6 colAsMeant starTree = true ∧
    iupac 'a' = [] ∧ iupac 'U' = [] ∧ iupac 'X' = [] := by
  decide

/-- ACCTRAN leaves a tip that carries ONE state unaltered (the case of ACR and of unambiguous
    alignments).  For an ambiguous tip ACCTRAN writes the intersection with the parent's set, i.e. it
    narrows the tip: that case is outside the property's quantifier and is tagged by the driver. -/
theorem tips_unaltered_acctran (k : Nat) (tv : String → Vec) (t : T)
    (hr : rootOk t = true) (ht : tipsOk k tv t = true)
    (v : List Nat) (d : NodeD) (pp : Nat) (hleaf : sub t v = some (.node d pp []))
    (x : Nat) (hx : IsSingle k (tv d.name) x) (vec : Vec)
    (hget : (runAlgo k tv .acctran t).get v = some vec) (i : Nat) (hi : i < k) :
    vec.at i ≠ 0 ↔ (tv d.name).at i ≠ 0 := by
  have hne : t.kids ≠ [] := by
    intro h; simp [rootOk, h] at hr
  have hsp := tipsOk_spec k tv t ht
  have hl01 : ∀ n ∈ t.leaves, leaf01 k tv n := by
    match t, hne with
    | .node d p (x :: xs), _ => intro n hn; rw [leaves_node_cons] at hn; exact (hsp n hn).1
  obtain ⟨q, hq, hvec⟩ := acc_leaf k tv t none (fun _ e => by cases e) hl01 v d pp vec hleaf hget
  have hd01 : Set01 k (tv d.name) := by
    have hmem : d.name ∈ t.leaves := by
      -- the leaf addressed by v is one of the leaves of t
      have : ∀ (c : T) (p : List Nat) (d : NodeD) (pp : Nat), sub c p = some (.node d pp []) → d.name ∈ c.leaves := by
        intro c
        induction c using T.induct with
        | h d0 p0 ks ih =>
          intro p d pp h
          match ks, ih, p, h with
          | [], _, [], h =>
            simp only [sub, Option.some.injEq, T.node.injEq] at h
            obtain ⟨h1, _, _⟩ := h; subst h1; simp [T.leaves]
          | [], _, i :: q, h => simp [sub, subL] at h
          | y :: ys, _, [], h => simp [sub] at h
          | y :: ys, ih, i :: q, h =>
            simp only [sub] at h
            rw [leaves_node_cons]
            have hlist : ∀ (ks : Kids), (∀ et ∈ ks, ∀ (p : List Nat) (d : NodeD) (pp : Nat),
                sub et.2 p = some (.node d pp []) → d.name ∈ et.2.leaves) →
                ∀ i, subL ks i q = some (.node d pp []) → d.name ∈ leavesL ks := by
              intro ks
              induction ks with
              | nil => intro _ i h; simp [subL] at h
              | cons z zs ihz =>
                intro hz i h
                match z, i, h with
                | (e, c), 0, h =>
                  simp only [subL] at h
                  simp only [leavesL, List.mem_append]
                  exact Or.inl (hz (e, c) (List.mem_cons_self ..) q d pp h)
                | (e, c), i + 1, h =>
                  simp only [subL] at h
                  simp only [leavesL, List.mem_append]
                  exact Or.inr (ihz (fun et het => hz et (List.mem_cons_of_mem _ het)) i h)
            exact hlist (y :: ys) ih i h
      exact this t v d pp hleaf
    exact hl01 d.name hmem
  subst hvec
  match q, hq with
  | none, _ => exact Iff.rfl
  | some pv, hq => exact inter_single_tip k (tv d.name) pv x hx hd01 (hq pv rfl) i hi

/-- ACCTRAN at a tip with ANY tip set (IUPAC ambiguity): what is written is a non-empty subset of the
    tip's own states — a state the tip does not allow is never reported (this is what the oracle checks
    on ambiguous alignments, where the code narrows the tip to its intersection with the parent's set). -/
theorem acctran_tip_subset (k : Nat) (tv : String → Vec) (t : T)
    (hr : rootOk t = true) (ht : tipsOk k tv t = true)
    (v : List Nat) (d : NodeD) (pp : Nat) (hleaf : sub t v = some (.node d pp []))
    (hmem : d.name ∈ leavesL t.kids) (vec : Vec)
    (hget : (runAlgo k tv .acctran t).get v = some vec) :
    (∀ i, i < k → vec.at i ≠ 0 → (tv d.name).at i ≠ 0) ∧ ∃ i, i < k ∧ vec.at i ≠ 0 := by
  have hne : t.kids ≠ [] := by
    intro h; simp [rootOk, h] at hr
  have hsp := tipsOk_spec k tv t ht
  have hl01 : ∀ n ∈ t.leaves, leaf01 k tv n := by
    match t, hne with
    | .node d p (x :: xs), _ => intro n hn; rw [leaves_node_cons] at hn; exact (hsp n hn).1
  obtain ⟨q, hq, hvec⟩ := acc_leaf k tv t none (fun _ e => by cases e) hl01 v d pp vec hleaf hget
  obtain ⟨h01, i0, hi0, hne0⟩ := hsp d.name hmem
  subst hvec
  match q, hq with
  | none, _ => exact ⟨fun i _ h => h, i0, hi0, hne0⟩
  | some pv, hq =>
    refine ⟨fun i hi h => inter_sub k (tv d.name) pv (hq pv rfl) i hi h, ?_⟩
    show ∃ i, i < k ∧ (inter k (tv d.name) pv).at i ≠ 0
    rcases inter_cases k (tv d.name) pv with ⟨⟨j, hj, hgt⟩, heq⟩ | ⟨_, heq⟩
    · refine ⟨j, hj, ?_⟩
      rw [heq, at_tab]
      simp only [hj, if_true, at_vadd]
      have : (tv d.name).at j + pv.at j > 1 := hgt
      simp [this]
    · rw [heq]; exact ⟨i0, hi0, hne0⟩

/-- with `--algo none` (up-pass only) every leaf keeps its tip slice -/
theorem tips_unaltered_none (k : Nat) (tv : String → Vec) (d : NodeD) (pp : Nat) :
    upA k tv (.node d pp []) = .node (tv d.name) [] := by
  simp [upA, upAL, upS]

/-- the column `R A A` (R = A or G) on the star tree -/
def colRAA : String → Vec
  | "t0" => [1, 0, 1, 0, 0, 0]
  | _ => [1, 0, 0, 0, 0, 0]

/-- Repaired finding AcctranAmbiguousTipNarrowed (fix a20daad in asr/parsimony.go), as a theorem about the
    PINNED variant `acctranPinned` (tip children intersected with their parent): on the star tree with the column
    `R A A` the ambiguous tip `R` = {A,G} was written as `A`; the model of the code as it is now keeps `{A,G}`,
    like the plain down-pass and DELTRAN. -/
theorem acctran_pinned_fails :
    (acctranPinned 6 none (upA 6 colRAA starTree)).get [0] = some [1, 0, 0, 0, 0, 0] ∧
    colRAA "t0" = [1, 0, 1, 0, 0, 0] ∧
    (runAlgo 6 colRAA .acctran starTree).get [0] = some (colRAA "t0") ∧
    (runAlgo 6 colRAA .downpass starTree).get [0] = some (colRAA "t0") ∧
    (runAlgo 6 colRAA .deltran starTree).get [0] = some (colRAA "t0") ∧
    tipsOk 6 colRAA starTree = true := by
  decide

/- the hypotheses are satisfiable on a non-trivial tree: ((a,b,c),d,(e,f)) with a polytomy,
   three states, an ambiguous tip -/
def exTree : T :=
  .node ⟨"", []⟩ 0 [
    (EdgeD.blank, .node ⟨"", []⟩ 0 [(EdgeD.blank, T.leaf "a"), (EdgeD.blank, T.leaf "b"), (EdgeD.blank, T.leaf "c")]),
    (EdgeD.blank, T.leaf "d"),
    (EdgeD.blank, .node ⟨"", []⟩ 0 [(EdgeD.blank, T.leaf "e"), (EdgeD.blank, T.leaf "f")])]

def exTv : String → Vec
  | "a" => [1, 0, 0] | "b" => [0, 1, 0] | "c" => [0, 0, 1] | "d" => [1, 1, 0] | "e" => [0, 0, 1] | _ => [0, 1, 0]

example : rootOk exTree = true ∧ tipsOk 3 exTv exTree = true ∧ (runChar 3 exTv .downpass exTree).1 = 3 := by
  decide

example : (sub exTree [0, 1]).map (fun c => (c.name, c.kids.length)) = some ("b", 0) ∧ (runAlgo 3 exTv .deltran exTree).get [0, 1] = some (exTv "b") := by
  decide

example : okPath exTree [0] = true ∧ (runChar 3 exTv .acctran (rerootPath exTree [0])).1 = 3 := by
  decide

/- rooting on the branch above tip `b` (path [0,1]): the new node is reached by the same path -/
example : okPath (subdivide exTree [0, 1]) [0, 1] = true ∧
    (rerootPath (subdivide exTree [0, 1]) [0, 1]).kids.length = 2 ∧
    (runChar 3 exTv .acctran (rerootPath (subdivide exTree [0, 1]) [0, 1])).1 = 3 := by
  decide

def exTv2 : String → Vec
  | "d" => [0, 1, 0] | n => exTv n

example : tipsOk 3 exTv2 exTree = true ∧ allSingle 3 (runAlgo 3 exTv2 .downpass exTree).flat = true := by decide

example : allSingle 3 (runAlgo 3 exTv2 .deltran exTree).flat = true := by decide

example : allSingle 3 (runAlgo 3 exTv2 .acctran exTree).flat = true := by decide

/- one alignment column A/G coded as ACR does (alphabet [A, G]) and as ASR does (A C G T - *) -/
def exCol1 : String → Vec
  | "a" => [1, 0] | "b" => [0, 1] | "c" => [0, 1] | "d" => [1, 0] | "e" => [0, 1] | _ => [1, 0]
def exCol2 : String → Vec
  | "a" => [1, 0, 0, 0, 0, 0] | "b" => [0, 0, 1, 0, 0, 0] | "c" => [0, 0, 1, 0, 0, 0]
  | "d" => [1, 0, 0, 0, 0, 0] | "e" => [0, 0, 1, 0, 0, 0] | _ => [1, 0, 0, 0, 0, 0]
def exEnc : Nat → Nat | 0 => 0 | _ => 2
def exDec : Nat → Nat | 2 => 1 | _ => 0

example : tipsOk 2 exCol1 exTree = true ∧ tipsOk 6 exCol2 exTree = true ∧
    (∀ s, s < 2 → exEnc s < 6) ∧ (∀ s, s < 6 → exDec s < 2) ∧ (∀ s, s < 2 → exDec (exEnc s) = s) ∧
    (∀ n ∈ leavesL exTree.kids, TipMap 2 exCol1 exCol2 exEnc n) ∧
    (∀ n ∈ leavesL exTree.kids, TipMap 6 exCol2 exCol1 exDec n) ∧
    (runChar 6 exCol2 .deltran exTree).1 = 3 := by
  decide

example : (∀ n ∈ leavesL exTree.kids, ∀ b, b < 6 →
    (exCol2 n).at b = if exEnc (exDec b) = b then (exCol1 n).at (exDec b) else 0) := by
  decide

/- an alignment with the unambiguous column 1 (`G G G A - A`): the hypotheses of
   `asr_sitewise_column` / `asr_acr_steps` hold -/
def exAln : List (String × String) :=
  [("a", "AG"), ("b", "RG"), ("c", "CG"), ("d", "CA"), ("e", "C-"), ("f", "NA")]

example : iupacCol exAln 0 = true := by decide

/- the wrappers accept the example (hypotheses `asr … = some _`, `acr … = some _` of `asr_acr_steps`,
   `asr_acr_sets`, `acr_optimal`, `asr_optimal_partial` are satisfiable) -/
example : (asr exTree exAln 2 .deltran).isSome = true ∧ (acr exTree (colMap exAln 1) .deltran).isSome = true ∧
    ((asr exTree exAln 2 .deltran).map fun o => o.steps) = some [2, 2, 0] ∧
    ((acr exTree (colMap exAln 1) .deltran).map fun o => o.steps) = some 2 := by decide

example : aaCol [("a", "MX"), ("b", "L-"), ("c", "L*")] 1 = true ∧ aaCodes 'X' = List.range 20 ∧ aaCodes 'V' = [19] := by
  decide

example : plainCol exAln 1 = true ∧ (exTree.tipNames.all fun n => (lookup exAln n).isSome) = true := by decide

example : innerAt exTree [0] = true ∧ (runAlgo 3 exTv .downpass exTree).get [0] = some [0, 1, 0] := by
  decide

/- ## random resolution never changes the step counts (multi-site ASR in lockstep included) -/

/-- ★ random resolution (`randomResolve = true`, any stream of draws, any number of sites) leaves the step counts
    of ParsimonyAsr untouched: they are those of the deterministic run, hence optimal wherever those are
    (`asr_optimal_partial`); the two runs also fail on the same inputs. -/
theorem asr_random_steps (t : T) (m : List (String × String)) (len : Nat) (algo : Algo) (st : List Nat) :
    (asrR t m len algo st).map (·.steps) = (asr t m len algo).map (·.steps) := by
  unfold asrR asr
  by_cases ha : (algo == Algo.none) = true
  · simp [ha]
  · by_cases hm : (!((lookedUp t).all fun n => (lookup m n).isSome)) = true
    · simp [ha, hm]
    · simp only [ha, hm, if_false, Bool.false_eq_true]
      by_cases h1 : (t.kids.length == 1) = true
      · by_cases h2 : (rootTipFixedInRepo && tipRooted t) = true
        · simp [h1, h2, runChar, runCharAtNeighbour, List.map_map, Function.comp_def]
        · simp [h1, h2, runChar, runCharRootTipPinned, List.map_map, Function.comp_def]
      · simp [h1, runChar, List.map_map, Function.comp_def]

/-- the same for ParsimonyAcr: the steps of a run with random resolution are those of the run without -/
theorem acr_random_steps (t : T) (m : List (String × String)) (algo : Algo) (st : List Nat) :
    (acrR t m algo st).map (·.steps) = (acr t m algo).map (·.steps) := by
  unfold acrR acr
  by_cases hm : (!((lookedUp t).all fun n => (lookup m n).isSome)) = true
  · simp [hm]
  · simp only [hm, if_false, Bool.false_eq_true, Option.map_some]
    congr 1
    unfold runCharR runChar
    by_cases h1 : (t.kids.length == 1) = true
    · by_cases h2 : (rootTipFixedInRepo && tipRooted t) = true
      · simp [h1, h2, runCharAtNeighbour]
      · simp [h1, h2, runCharRootTipPinned]
    · simp [h1]

/- ## random resolution of several sites in lockstep: the resolved sets -/

/-- ★ lockstep = site by site (Lemmas/C12RM.lean): at every site, the random second stage of ParsimonyAsr on the whole
    alignment is the single-character run of that site on some stream of draws -/
theorem asr_random_lockstep (te : T) (m : List (String × String)) (len : Nat) (algo : Algo) (st : List Nat) (j : Nat)
    (ha : algo ≠ .none) (hj : j < len) :
    ∃ st', (asrRAM te m len algo st).1.site j = (runAlgoR 6 (asrTipVec m j) algo te st').1 :=
  asrRAM_site te m len algo st j ha hj

/-- ★ ParsimonyAsr with random resolution, any number of sites, any draws, the three algorithms: every state left at
    an inner node `v` of site `j` occurs there in some most parsimonious labelling of that site -/
theorem asr_random_sets_sound (te : T) (m : List (String × String)) (len : Nat) (algo : Algo) (st : List Nat) (j : Nat)
    (ha : algo ≠ .none) (hj : j < len)
    (hr : rootOk te = true) (ht : tipsOk 6 (asrTipVec m j) te = true)
    (v : List Nat) (hin : innerAt te v = true) (vec : Vec)
    (hget : ((asrRAM te m len algo st).1.site j).get v = some vec) (s : Nat) (hs : s < 6) (hne : vec.at s ≠ 0) :
    ∃ l : LT, fits 6 (asrTipVec m j) te l = true ∧ l.changes = minCost 6 (asrTipVec m j) te ∧ l.get v = some s := by
  obtain ⟨st', h⟩ := asrRAM_site te m len algo st j ha hj
  rw [h] at hget
  cases algo with
  | none => exact absurd rfl ha
  | downpass => exact random_down_deltran_sound 6 _ te st' .downpass (Or.inl rfl) (by decide) hr ht v hin vec hget s hs hne
  | deltran => exact random_down_deltran_sound 6 _ te st' .deltran (Or.inr rfl) (by decide) hr ht v hin vec hget s hs hne
  | acctran => exact random_acctran_sound 6 _ te st' (by decide) hr ht v hin vec hget s hs hne

/- the hypotheses of `asr_random_sets_sound` on the example alignment (two sites, IUPAC codes at site 0) -/
example : (((asrRAM exTree exAln 2 .deltran [5, 7, 11]).1.site 0).get []).isSome = true ∧ innerAt exTree [] = true ∧
    rootOk exTree = true ∧ tipsOk 6 (asrTipVec exAln 0) exTree = true ∧ tipsOk 6 (asrTipVec exAln 1) exTree = true := by decide

/- ## The text left on the tree (Model/C12Fmt.lean: assignStatesToTree, assignSequencesToTree) and the driver's readers -/

/-- ★ `assignSequencesToTree`, model level: for an alphabet of one-character names without braces, the comment
    written for a node whose sites hold the slices `vs` is read back by the driver's reader as exactly the
    per-site state names of the model — any number of sites, any slices (the empty set is written `*`). -/
theorem asr_comment_roundtrip (chars : List Char) (hb : noBrace chars) (vs : List Vec) :
    readSeqSets (asrComment (vs.map (stateNames (chars.map String.singleton)))) =
      some (vs.map (stateNames (chars.map String.singleton))) := by
  -- every site: a non-empty list of one-character names without brace
  have key : ∀ v ∈ vs, ∃ cs : List Char, stateNames (chars.map String.singleton) v = cs.map String.singleton ∧
      cs ≠ [] ∧ noBrace cs := by
    intro v _
    obtain ⟨cs, h1, h2⟩ := singles_of (fun c => c ≠ '{' ∧ c ≠ '}') (stateNames (chars.map String.singleton) v) (by
      intro n hn
      rcases stateNames_mem _ _ n hn with e | e
      · exact ⟨'*', by rw [e]; decide, by decide⟩
      · obtain ⟨c, hc, rfl⟩ := List.mem_map.mp e
        exact ⟨c, rfl, hb c hc⟩)
    refine ⟨cs, h1, ?_, h2⟩
    intro e; subst e
    exact stateNames_ne_nil _ v (by simpa using h1)
  -- collect the characters site by site
  have : ∃ sites : List (List Char), vs.map (stateNames (chars.map String.singleton)) = sites.map (·.map String.singleton) ∧
      ∀ s ∈ sites, s ≠ [] ∧ noBrace s := by
    clear hb
    induction vs with
    | nil => exact ⟨[], rfl, by simp⟩
    | cons v r ih =>
      obtain ⟨cs, h1, h2, h3⟩ := key v (by simp)
      obtain ⟨sites, hs, hall⟩ := ih (fun x hx => key x (by simp [hx]))
      exact ⟨cs :: sites, by simp [h1, hs], by
        intro s hs'
        rcases List.mem_cons.mp hs' with e | e
        · exact e ▸ ⟨h2, h3⟩
        · exact hall s e⟩
  obtain ⟨sites, hs, hall⟩ := this
  rw [hs]
  have hc : (sites.map (·.map String.singleton)).map (fun names => names.flatMap String.toList) = sites := by
    simp [List.map_map, Function.comp_def, flatMap_singletons]
  simp only [readSeqSets, asrComment, hc, String.toList_ofList, readSeqChars_render sites hall, List.reverse_nil,
    List.nil_append, Option.map_some]

/-- the two alphabets of ParsimonyAsr hold no brace: the hypothesis of `asr_comment_roundtrip` for the code's alphabets -/
theorem asr_alphabets_no_brace :
    asrAlphabet = ['A', 'C', 'G', 'T', '-', '*'].map String.singleton ∧ aaAlphabet = aaChars.map String.singleton ∧
    (['A', 'C', 'G', 'T', '-', '*'].all fun c => c != '{' && c != '}') = true ∧
    (aaChars.all fun c => c != '{' && c != '}') = true := by decide

/-- ★ `assignStatesToTree`, model level: the comment written for state names without `|` is read back as those names
    (in the order written); `*` stands for the empty set. -/
theorem acr_comment_roundtrip (names : List String) (hne : names ≠ []) (h : ∀ n ∈ names, noSep '|' n.toList) :
    readAcrComment (acrComment names) = names := by
  simp only [readAcrComment, acrComment, acrCommentChars, String.toList_ofList]
  rw [splitChars_join '|' (names.map String.toList) (by simpa using hne) (by
    intro n hn
    obtain ⟨m, hm, rfl⟩ := List.mem_map.mp hn
    exact h m hm)]
  simp [List.map_map, Function.comp_def]

example : acrComment ["A", "s10"] = "A|s10" ∧ readAcrComment "A|s10" = ["A", "s10"] ∧
    asrComment [["A"], ["A", "G"], ["*"]] = "A{AG}*" ∧ readSeqSets "A{AG}*" = some [["A"], ["A", "G"], ["*"]] ∧
    asrCommentsAfter ["old"] [["T"]] = ["old", "T"] ∧ acrCommentsAfter ["old"] ["B"] = ["B"] := by decide

/- ## The table regenerated from the source (Gotree/Gen/C12Sites.lean, written by harness/c12/extract.go on every
   run) against the facts the model is written from (Lemmas/C12Sites.lean).  When one of these decisions fails the
   check reports the theorem as broken and still runs the oracle on the code's output to look for a failing input. -/

/-- the integers behind ALGO_DELTRAN … ALGO_NONE in both packages are the ones the harness passes -/
theorem algoConstsCheck : Gen.C12.algoConsts = expectedConsts := by decide

/-- the `switch algo` of ParsimonyAcr and ParsimonyAsr, case by case -/
theorem dispatchCheck : Gen.C12.dispatch = expectedDispatch := by decide

/-- ★ read off the regenerated table, the passes each constant selects ARE the model's `runAlgo` (ASR: no case
    for ALGO_NONE, the default clause is an error); the only pass that is never random is DELTRAN's down-pass -/
theorem dispatch_runAlgo (k : Nat) (tv : String → Vec) (t : T) (algo : Algo) :
    interp Gen.C12.dispatch "acr" (algoConst algo) k tv t = some (runAlgo k tv algo t) ∧
    interp Gen.C12.dispatch "asr" (algoConst algo) k tv t = (if algo = .none then none else some (runAlgo k tv algo t)) ∧
    neverRandom Gen.C12.dispatch = [("acr", "ALGO_DELTRAN", "parsimonyDOWNPASS"), ("asr", "ALGO_DELTRAN", "parsimonyDOWNPASS")] := by
  rw [dispatchCheck]
  cases algo <;> refine ⟨?_, ?_, ?_⟩ <;> first | rfl | decide

set_option maxRecDepth 100000 in
/-- selection predicates (each comparison evaluated on probes), stored constants and counters of every pass
    function, in source order -/
theorem skeletonCheck : skelSig Gen.C12.skeleton = skelSig expectedSkeleton ∧ entrySig Gen.C12.entry = entrySig expectedEntry := by
  decide

/-- the comparison is semantic: equivalent spellings of a predicate or of a constant are the same row, a different
    predicate is not -/
example : atomSig ("_", ">", "1") = atomSig ("_", ">=", "2") ∧ atomSig ("_", ">", "1") = atomSig ("1", "<", "_") ∧
    atomSig ("_", "<", "_") = atomSig ("_", ">", "_") ∧ atomSig ("_", ":=", "0.0") = atomSig ("_", ":=", "0") ∧
    atomSig ("_", ">=", "1") = atomSig ("_", ">", "0") ∧ atomSig ("_", ">", "1") ≠ atomSig ("_", ">=", "1") ∧
    atomSig ("_", ">", "_") ≠ atomSig ("_", ">=", "_") := by decide

/-- cmd/acr.go, cmd/asr.go: `--algo` literals → constants agree with `cliAlgoL`, compared after `strings.ToLower`;
    what the default clause does (acr: logs and returns nil; asr: sets err); flag defaults; the library call -/
theorem cliCheck :
    cliAlgosOk Gen.C12.cliAlgos Gen.C12.flagDefaults = true ∧
    Gen.C12.cliTag = [("acr", "strings.ToLower(parsimonyAlgo)"), ("asr", "strings.ToLower(parsimonyAlgo)")] ∧
    Gen.C12.cliDefault = expectedCliDefault ∧ Gen.C12.flagDefaults = expectedFlagDefaults ∧
    Gen.C12.cliCalls = expectedCliCalls := by decide

set_option maxRecDepth 100000 in
/-- the model's `iupac` is `align.IupacCode` read through the alphabet of ParsimonyAsr, on all 256 bytes -/
theorem iupacCheck :
    ((List.range 256).all fun b => iupac (Char.ofNat b) == genIupac b) = true ∧
    asrAlphabet = (genAlphabet Gen.C12.nucAlphabet).map (fun b => String.singleton (Char.ofNat b)) := by decide

set_option maxRecDepth 100000 in
/-- the model's `aaCodes` is the protein branch of the up-pass (ALL_AMINO expanded), on all 256 bytes -/
theorem aaCodesCheck :
    ((List.range 256).all fun b => aaCodes (Char.ofNat b) == genAaCodes b) = true ∧
    aaChars = (genAlphabet Gen.C12.aminoAlphabet).map Char.ofNat := by decide

end Gotree.C12
