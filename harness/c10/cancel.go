package c10

// The *support.Supporter of support.FBP / support.TBE (support/supporter.go): its progress counter
// and its Cancel().  One C10.cancel case = one call of the real function with a Supporter whose
// counter already holds p0, the bootstrap trees handed over one by one on an UNBUFFERED channel,
// and Cancel() called as soon as Progress() has reached p0+k (before tree number k is handed
// over; k = 0: cancelled before the call; k >= number of trees: never cancelled).  Reported:
// outcome, annotated reference, Progress() afterwards.  Model: Gotree/Model/C10Cancel.lean.

import (
	"fmt"
	"strings"
	"time"

	"verifharness/core"

	"github.com/evolbioinfo/gotree/support"
	"github.com/evolbioinfo/gotree/tree"
)

type cancelReq struct {
	kind    string // fbp | tbe
	threads int
	k       int
	p0      int
	delay   int // k < 0 (asynchronous): Cancel() is called after this many microseconds, wherever the call is by then
	ref     *core.N
	boots   []*core.N
}

func (q cancelReq) kField() string {
	if q.k < 0 {
		return fmt.Sprintf("async%d", q.delay)
	}
	return fmt.Sprint(q.k)
}

func (q cancelReq) arg() string {
	return fmt.Sprintf("%s;%d;%s;%d", q.kind, q.threads, q.kField(), q.p0)
}

func parseCancelArg(a string, ref *core.N, boots []*core.N) cancelReq {
	q := cancelReq{kind: "fbp", threads: 1, ref: ref, boots: boots}
	f := strings.Split(a, ";")
	if len(f) == 4 {
		q.kind = f[0]
		fmt.Sscanf(f[1], "%d", &q.threads)
		if strings.HasPrefix(f[2], "async") {
			q.k = -1
			fmt.Sscanf(f[2][5:], "%d", &q.delay)
		} else {
			fmt.Sscanf(f[2], "%d", &q.k)
		}
		fmt.Sscanf(f[3], "%d", &q.p0)
	}
	return q
}

// inprocCancel runs the real code; the result's `after` is "progress@dump".
func inprocCancel(q cancelReq) result {
	t := build(q.ref)
	sup := support.NewSupporter()
	for i := 0; i < q.p0; i++ {
		sup.IncrementProgress()
	}
	if q.k == 0 {
		sup.Cancel()
	}
	ch := make(chan tree.Trees) // unbuffered: the producer decides when each tree is handed over
	done := make(chan struct{})
	go func() {
		defer close(ch)
		for i, b := range q.boots {
			if q.k > 0 && i == q.k {
				// the k first trees are finished (or will never be: a refused tree, deadline)
				deadline := time.Now().Add(5 * time.Second)
				for sup.Progress() < q.p0+q.k && time.Now().Before(deadline) {
					select {
					case <-done:
						return
					default:
						time.Sleep(20 * time.Microsecond)
					}
				}
				sup.Cancel()
			}
			bt := build(b)
			select {
			case ch <- tree.Trees{Tree: bt, Id: i}:
			case <-done:
				return
			}
		}
	}()
	if q.k < 0 {
		// asynchronous: the cancellation arrives at some moment of the call, in the middle of a tree as well
		go func() {
			select {
			case <-time.After(time.Duration(q.delay) * time.Microsecond):
				sup.Cancel()
			case <-done:
			}
		}()
	}
	out, _ := guarded(func() error {
		if q.kind == "fbp" {
			return support.FBP(t, ch, q.threads, sup)
		}
		if err := t.ReinitIndexes(); err != nil {
			return err
		}
		_, err := support.TBE(t, ch, q.threads, false, false, false, 0.3, nil, sup)
		return err
	})
	close(done)
	r := finish(out, t)
	r.after = fmt.Sprintf("%d@%s", sup.Progress(), r.after)
	return r
}

func runCancel(q cancelReq) (out, after, prog string) {
	var r result
	if useChild {
		r = callChildArg("CANCEL", q.arg(), q.ref, q.boots)
	} else {
		r = inprocCancel(q)
	}
	f := strings.SplitN(r.after, "@", 2)
	if len(f) == 2 {
		return r.out, f[1], f[0]
	}
	return r.out, "", "-1"
}

func doCancel(c *core.Ctx, q cancelReq) {
	out, after, prog := runCancel(q)
	c.Emit("C10.cancel", q.kind, fmt.Sprint(q.threads), q.kField(), fmt.Sprint(q.p0), q.ref.Dump(), core.Dumps(q.boots),
		out, after, prog)
}

func cancelCase(c *core.Ctx) {
	g := c.G
	saved := smallFirst
	smallFirst = g.Chance(0.4)
	funnyOKLib = true
	ref := refTree(c)
	funnyOKLib = false
	smallFirst = saved
	q := cancelReq{kind: []string{"fbp", "tbe"}[g.Intn(2)], threads: 1, ref: ref, p0: []int{0, 0, 1, 3, 7}[g.Intn(5)]}
	if g.Chance(0.25) {
		q.threads = threadChoices[g.Intn(len(threadChoices))]
	}
	n := 2 + g.Intn(5)
	for i := 0; i < n; i++ {
		q.boots = append(q.boots, bootTree(c, ref))
	}
	q.k = g.Intn(n + 2)
	if g.Chance(0.25) {
		// a tree on other taxa: after the cancellation point it is never looked at; before it, it is refused
		// (with several FBP workers only after the point: the others would wait for a progress that never comes)
		lo := 0
		if q.kind == "fbp" && q.threads > 1 {
			lo = q.k
		}
		if lo < n {
			spoilTaxa(g, q.boots[lo+g.Intn(n-lo)])
		}
	}
	doCancel(c, q)
}

// cancelAsyncCase: Cancel() after a random delay, 20..60 trees: it lands before the call, between two trees, in the
// middle of a tree or after the last one.  Judged on the number of trees the call itself reports as finished
// (Progress() - p0): the supports must be the definitions over exactly those first trees.  FBP with one worker
// (with several the finished trees are not a prefix), TBE with any number.
func cancelAsyncCase(c *core.Ctx) {
	g := c.G
	saved := smallFirst
	smallFirst = g.Chance(0.3)
	ref := refTree(c)
	smallFirst = saved
	q := cancelReq{kind: []string{"fbp", "tbe"}[g.Intn(2)], threads: 1, ref: ref, k: -1, p0: []int{0, 0, 2}[g.Intn(3)]}
	if q.kind == "tbe" && g.Chance(0.3) {
		q.threads = threadChoices[g.Intn(len(threadChoices))]
	}
	var variants []*core.N
	for v := 2 + g.Intn(3); v > 0; v-- {
		variants = append(variants, bootTree(c, ref))
	}
	for n := 20 + g.Intn(40); n > 0; n-- {
		q.boots = append(q.boots, variants[g.Intn(len(variants))])
	}
	q.delay = g.Intn(4000)
	doCancel(c, q)
}
