/-
  C05 — the hypothesis `keysOK` (the printing by which the split list is sorted tells the sides apart)
  holds for every tree whose tip names are non-empty and free of ',' (round 5, audit B2/A8).  The
  rendering lemmas are those of `Lemmas/C06Literal.lean`, copied so that this file does not depend on
  another property's file.
-/
import Gotree.Lemmas.C05StrictRm
import Gotree.Lemmas.C05Clade
namespace Gotree.C05
open Gotree


/-- a tip name the rendering can delimit: non-empty and free of ',' -/
def goodName (x : String) : Prop := x ≠ "" ∧ ',' ∉ x.toList

def renderTail (xs : List String) : List Char := xs.flatMap fun y => ',' :: ' ' :: y.toList

def render : List String → List Char
  | [] => ['[', ']']
  | x :: xs => '[' :: (x.toList ++ renderTail xs) ++ [']']

theorem foldl_toList (xs : List String) (init : String) :
    (xs.foldl (fun l r => l ++ ", " ++ toString r) init).toList = init.toList ++ renderTail xs := by
  induction xs generalizing init with
  | nil => simp [renderTail]
  | cons y ys ih =>
    simp only [List.foldl_cons, ih, String.toList_append, renderTail, List.flatMap_cons]
    have : (", " : String).toList = [',', ' '] := rfl
    have h2 : (toString y : String) = y := rfl
    rw [this, h2]
    simp [List.append_assoc]

theorem toString_toList (l : List String) : (toString l).toList = render l := by
  show (List.toString l).toList = render l
  match l with
  | [] => rfl
  | [x] =>
    simp only [List.toString, render, renderTail, String.toList_append, List.flatMap_nil, List.append_nil]
    have h1 : ("[" : String).toList = ['['] := rfl
    have h2 : ("]" : String).toList = [']'] := rfl
    have h3 : (toString x : String) = x := rfl
    rw [h1, h2, h3]; rfl
  | x :: y :: ys =>
    simp only [List.toString, render, String.toList_push, foldl_toList, String.toList_append]
    have h1 : ("[" : String).toList = ['['] := rfl
    have h3 : (toString x : String) = x := rfl
    rw [h1, h3]; simp [List.append_assoc]

/-- `p` is empty or starts with ',' -/
def CommaStart (p : List Char) : Prop := p = [] ∨ ∃ r, p = ',' :: r

theorem split_unique : ∀ (u v p q : List Char), ',' ∉ u → ',' ∉ v → CommaStart p → CommaStart q →
    u ++ p = v ++ q → u = v ∧ p = q
  | [], [], p, q, _, _, _, _, h => ⟨rfl, by simpa using h⟩
  | [], c :: v, p, q, _, hv, hp, _, h => by
    simp only [List.nil_append, List.cons_append] at h
    rcases hp with rfl | ⟨r, rfl⟩
    · cases h
    · injection h with h1 _
      exact absurd (h1 ▸ List.mem_cons_self) hv
  | c :: u, [], p, q, hu, _, _, hq, h => by
    simp only [List.nil_append, List.cons_append] at h
    rcases hq with rfl | ⟨r, rfl⟩
    · cases h
    · injection h with h1 _
      exact absurd (h1 ▸ List.mem_cons_self) hu
  | c :: u, c' :: v, p, q, hu, hv, hp, hq, h => by
    simp only [List.cons_append] at h
    injection h with h1 h2
    have := split_unique u v p q (fun m => hu (List.mem_cons_of_mem _ m)) (fun m => hv (List.mem_cons_of_mem _ m)) hp hq h2
    exact ⟨by rw [h1, this.1], this.2⟩

theorem renderTail_commaStart (xs : List String) : CommaStart (renderTail xs) := by
  cases xs with
  | nil => exact Or.inl rfl
  | cons y ys => exact Or.inr ⟨' ' :: (y.toList ++ renderTail ys), by simp [renderTail]⟩

theorem renderTail_inj : ∀ (xs ys : List String), (∀ x ∈ xs, ',' ∉ x.toList) → (∀ y ∈ ys, ',' ∉ y.toList) →
    renderTail xs = renderTail ys → xs = ys
  | [], [], _, _, _ => rfl
  | [], y :: ys, _, _, h => by simp [renderTail] at h
  | x :: xs, [], _, _, h => by simp [renderTail] at h
  | x :: xs, y :: ys, hx, hy, h => by
    have h' : x.toList ++ renderTail xs = y.toList ++ renderTail ys := by
      simpa [renderTail] using h
    obtain ⟨e1, e2⟩ := split_unique _ _ _ _ (hx x (by simp)) (hy y (by simp))
      (renderTail_commaStart xs) (renderTail_commaStart ys) h'
    rw [String.toList_inj.1 e1,
      renderTail_inj xs ys (fun z hz => hx z (by simp [hz])) (fun z hz => hy z (by simp [hz])) e2]

theorem render_inj (a b : List String) (ha : ∀ x ∈ a, goodName x) (hb : ∀ x ∈ b, goodName x)
    (h : render a = render b) : a = b := by
  have hlen : ∀ (x : String) (xs : List String), goodName x → 3 ≤ (render (x :: xs)).length := by
    intro x xs hx
    have : x.toList ≠ [] := fun h0 => hx.1 (String.toList_inj.1 (by simpa using h0))
    have : 1 ≤ x.toList.length := List.length_pos_iff.2 this
    simp [render]; omega
  match a, b, ha, hb, h with
  | [], [], _, _, _ => rfl
  | [], y :: ys, _, hb, h =>
    have := hlen y ys (hb y (by simp)); rw [← h] at this; simp [render] at this
  | x :: xs, [], ha, _, h =>
    have := hlen x xs (ha x (by simp)); rw [h] at this; simp [render] at this
  | x :: xs, y :: ys, ha, hb, h =>
    simp only [render, List.cons_append, List.cons.injEq, true_and] at h
    have h' := List.append_cancel_right h
    obtain ⟨e1, e2⟩ := split_unique _ _ _ _ (ha x (by simp)).2 (hb y (by simp)).2
      (renderTail_commaStart xs) (renderTail_commaStart ys) h'
    rw [String.toList_inj.1 e1, renderTail_inj xs ys (fun z hz => (ha z (by simp [hz])).2)
      (fun z hz => (hb z (by simp [hz])).2) e2]

/-- the rendering of sides is injective on lists of names that are non-empty and free of ',' -/
theorem toString_sides_inj (a b : List String) (ha : ∀ x ∈ a, goodName x) (hb : ∀ x ∈ b, goodName x)
    (h : toString a = toString b) : a = b :=
  render_inj a b ha hb (by rw [← toString_toList, ← toString_toList, h])


theorem canonSide_subset' (all side : List String) : ∀ x ∈ canonSide all side, x ∈ all := by
  intro x hx
  unfold canonSide at hx
  have hs : ∀ y ∈ sortS (side.filter all.contains), y ∈ all := by
    intro y hy
    have := (List.mem_filter.1 ((sortS_perm _).mem_iff.1 hy)).2
    simpa using this
  cases hm : minS all with
  | none => rw [hm] at hx; exact hs x hx
  | some m =>
    rw [hm] at hx
    simp only at hx
    split at hx
    · exact (List.mem_filter.1 ((sortS_perm _).mem_iff.1 hx)).1
    · exact hs x hx

/-- `keysOK` from a condition on the names alone -/
theorem keysOK_of_plainNames (t : T) (h : plainNames t = true) : keysOK t = true := by
  have hg : ∀ x ∈ t.tipNames, goodName x := by
    intro x hx
    have := List.all_eq_true.1 h x hx
    simpa [goodName] using this
  have hside : ∀ a ∈ t.usplitsAll.map (·.side), ∀ x ∈ a, goodName x := by
    intro a ha x hx
    obtain ⟨s, _, rfl⟩ := (mem_usplitsAll_sides t a).1 ha
    exact hg x (canonSide_subset' _ _ x hx)
  have hn := usplitsAll_sidesNodup t
  unfold keysOK
  simp only [decide_eq_true_eq]
  have : (t.usplitsAll.map fun s => toString s.side) = (t.usplitsAll.map (·.side)).map toString := by simp
  rw [this]
  unfold List.Nodup at hn ⊢
  rw [List.pairwise_map]
  exact hn.imp_of_mem (fun {a b} ha hb hab e => hab (toString_sides_inj a b (hside a ha) (hside b hb) e))

end Gotree.C05
