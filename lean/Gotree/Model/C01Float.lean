/-
  C01 — the text/number boundary (DESIGN §3.2).

  Public names (stable; C02 and C13 import them):

    Gotree.Newick.Codec        data of a float codec: `fmt`, `isFloat`, `parse`   (what the model functions take)
    Gotree.Newick.FloatCodec   `Codec` + the domain `dom` + the three laws as FIELDS (what the theorems take)
    Gotree.Newick.goCodec      executable `Codec` transcribing what the Go code gets from `strconv`:
                                 isFloat s  ⇔  strconv.ParseFloat(s,64) returns err == nil
                                 parse s    =  the float64 value (as its exact rational), `none` when it is NaN/±Inf
                                 fmt x      =  strconv.FormatFloat(x,'f',-1,64) for a float64-valued x
                               (its agreement with strconv is checked on every run by the C01.float stream)

  Core Lean only (linked into the driver).
-/
import Gotree.Model.Core

namespace Gotree.Newick

/-- What the Newick code gets from `strconv`, as data. -/
structure Codec where
  /-- `strconv.FormatFloat(x,'f',-1,64)` -/
  fmt : Rat → List Char
  /-- `strconv.ParseFloat(s,64)` has `err == nil` -/
  isFloat : List Char → Bool
  /-- the value `ParseFloat` returns when `err == nil`; `none` = NaN / ±Inf (not representable in `EdgeD`) -/
  parse : List Char → Option Rat

/-- Characters that may not occur in the text of a number: Newick metacharacters, the blanks of the
    lexer, and the `/` that separates support and p-value. -/
def numClean (c : Char) : Bool :=
  !(c == '(' || c == ')' || c == '[' || c == ']' || c == ',' || c == ':' || c == ';' ||
    c == ' ' || c == '\t' || c == '\n' || c == '\r' || c == '/')

/-- A codec together with the set `dom` of values it represents and the three laws of DESIGN §3.2
    (plus `isFloat_noSlash`, which the proof of the `support/p-value` label turned out to need).
    No axiom: every theorem takes a `FloatCodec` as a parameter. -/
structure FloatCodec extends Codec where
  dom : Rat → Bool
  fmt_clean : ∀ x, dom x = true → fmt x ≠ [] ∧ (fmt x).all numClean = true
  fmt_isFloat : ∀ x, dom x = true → isFloat (fmt x) = true
  parse_fmt : ∀ x, dom x = true → parse (fmt x) = some x
  /-- (fourth law, needed for `support/p-value` labels) a float literal contains no `/` -/
  isFloat_noSlash : ∀ l, isFloat l = true → l.all (fun c => c != '/') = true

/- ## The executable Go-like codec -/

def pow2 (n : Nat) : Nat := 2 ^ n
def pow10 (n : Nat) : Nat := 10 ^ n

/-- `x * 2^e` -/
def scale2 (x : Rat) (e : Int) : Rat :=
  if e ≥ 0 then x * ((pow2 e.toNat : Nat) : Rat) else x / ((pow2 (-e).toNat : Nat) : Rat)

/-- `x * 10^e` -/
def scale10 (x : Rat) (e : Int) : Rat :=
  if e ≥ 0 then x * ((pow10 e.toNat : Nat) : Rat) else x / ((pow10 (-e).toNat : Nat) : Rat)

/-- round half to even -/
def roundHalfEven (x : Rat) : Int :=
  let f := x.floor
  let r := x - (f : Rat)
  if r < (1 : Rat) / 2 then f
  else if r > (1 : Rat) / 2 then f + 1
  else if f % 2 == 0 then f else f + 1

/-- binary exponent `e` with `2^52 ≤ x / 2^e < 2^53`, but at least `-1074` (sub-normals); `x > 0`. -/
def binExp (x : Rat) : Int :=
  let k : Int := (Nat.log2 x.num.natAbs : Int) - (Nat.log2 x.den : Int)   -- log2 x ∈ (k-1, k+1)
  let lo : Rat := ((pow2 52 : Nat) : Rat)
  let hi : Rat := ((pow2 53 : Nat) : Rat)
  let pick (e : Int) : Bool := lo ≤ scale2 x (-e) && scale2 x (-e) < hi
  let e := if pick (k - 53) then k - 53 else if pick (k - 52) then k - 52 else k - 51
  if e < -1074 then -1074 else e

/-- Nearest float64 (as an exact rational) of a rational; `none` on overflow (|result| ≥ 2^1024). -/
def roundF64 (x : Rat) : Option Rat :=
  if x == 0 then some 0 else
  let a := if x < 0 then -x else x
  let e := binExp a
  let m := roundHalfEven (scale2 a (-e))
  let r := scale2 (m : Rat) e
  if r ≥ ((pow2 1024 : Nat) : Rat) then none
  else some (if x < 0 then -r else r)

/-- is the rational exactly a float64 value -/
def isF64 (x : Rat) : Bool := roundF64 x == some x

/- ### reading (strconv.ParseFloat) -/

def lower (c : Char) : Char := if 'A' ≤ c ∧ c ≤ 'Z' then Char.ofNat (c.toNat + 32) else c

def decDigit? (c : Char) : Option Nat := if '0' ≤ c ∧ c ≤ '9' then some (c.toNat - 48) else none
def hexDigit? (c : Char) : Option Nat :=
  if '0' ≤ c ∧ c ≤ '9' then some (c.toNat - 48)
  else if 'a' ≤ lower c ∧ lower c ≤ 'f' then some ((lower c).toNat - 87) else none

inductive FRes | bad | fin (q : Rat) | nonfin
  deriving Repr, BEq

/-- `underscoreOK` of strconv/atoi.go, applied to the whole literal. -/
def underscoreOK (s : List Char) : Bool :=
  let s := match s with
    | '-' :: r => r
    | '+' :: r => r
    | _ => s
  let (hex, body, saw0) : Bool × List Char × Char :=
    match s with
    | '0' :: c :: r =>
      if lower c == 'b' || lower c == 'o' || lower c == 'x' then (lower c == 'x', r, '0') else (false, s, '^')
    | _ => (false, s, '^')
  let rec go (hex : Bool) : List Char → Char → Bool
    | [], saw => saw != '_'
    | c :: r, saw =>
      if (decDigit? c).isSome || (hex && (hexDigit? c).isSome) then go hex r '0'
      else if c == '_' then (if saw != '0' then false else go hex r '_')
      else if saw == '_' then false
      else go hex r '!'
  go hex body saw0

/-- mantissa state of `readFloat` -/
structure Mant where
  digits : Nat := 0        -- all digits read, as an integer in the base
  frac : Nat := 0          -- number of digits after the point
  sawdot : Bool := false
  sawdigits : Bool := false
  underscores : Bool := false

/-- the digit loop of `readFloat`; returns the state and the unread rest -/
def readMant (base16 : Bool) : List Char → Mant → Mant × List Char
  | [], m => (m, [])
  | c :: r, m =>
    if c == '_' then readMant base16 r { m with underscores := true }
    else if c == '.' then
      if m.sawdot then (m, c :: r) else readMant base16 r { m with sawdot := true }
    else
      match (if base16 then hexDigit? c else decDigit? c) with
      | some d =>
        readMant base16 r { m with sawdigits := true, digits := m.digits * (if base16 then 16 else 10) + d,
                                   frac := if m.sawdot then m.frac + 1 else m.frac }
      | none => (m, c :: r)

/-- exponent digits: `e` is capped as in Go (`if e < 10000 { e = e*10 + digit }`) -/
def readExpDigits : List Char → Nat → Bool → Nat × Bool × List Char
  | [], e, u => (e, u, [])
  | c :: r, e, u =>
    if c == '_' then readExpDigits r e true
    else match decDigit? c with
      | some d => readExpDigits r (if e < 10000 then e * 10 + d else e) u
      | none => (e, u, c :: r)

def numDecDigits (n : Nat) : Nat := (Nat.toDigits 10 n).length

/-- `strconv.ParseFloat(s, 64)`: `bad` = an error is returned (syntax or range). -/
def goParseFloat (s : List Char) : FRes :=
  -- special()
  let ls := s.map lower
  let unsigned := match ls with
    | '+' :: r => r
    | '-' :: r => r
    | _ => ls
  if unsigned == "inf".toList || unsigned == "infinity".toList then .nonfin
  else if ls == "nan".toList then .nonfin
  else
  -- readFloat
  let (neg, s1) : Bool × List Char := match s with
    | '+' :: r => (false, r)
    | '-' :: r => (true, r)
    | _ => (false, s)
  let (base16, s2) : Bool × List Char := match s1 with
    | '0' :: x :: c :: r => if lower x == 'x' then (true, c :: r) else (false, s1)
    | _ => (false, s1)
  let (m, s3) := readMant base16 s2 {}
  if !m.sawdigits then .bad else
  -- exponent
  let expChar := if base16 then 'p' else 'e'
  let eres : Option (Int × Bool × List Char) :=
    match s3 with
    | c :: r =>
      if lower c == expChar then
        match r with
        | [] => none
        | sc :: r' =>
          let (esign, r2) : Int × List Char := if sc == '+' then (1, r') else if sc == '-' then (-1, r') else (1, sc :: r')
          match r2 with
          | d :: _ =>
            if (decDigit? d).isSome then
              let (e, u, r3) := readExpDigits r2 0 false
              some (esign * (e : Int), u, r3)
            else none
          | [] => none
      else if base16 then none else some (0, false, s3)
    | [] => if base16 then none else some (0, false, [])
  match eres with
  | none => .bad
  | some (e, u, rest) =>
    if !rest.isEmpty then .bad
    else if (m.underscores || u) && !underscoreOK s then .bad
    else if m.digits == 0 then .fin 0
    else
      let v : Option Rat :=
        if base16 then
          let ex : Int := e - 4 * (m.frac : Int)
          let mag : Int := (Nat.log2 m.digits : Int) + ex
          if mag > 1030 then none
          else if mag < -1100 then some 0
          else roundF64 (scale2 ((m.digits : Nat) : Rat) ex)
        else
          let ex : Int := e - (m.frac : Int)
          let mag : Int := (numDecDigits m.digits : Int) + ex
          if mag > 311 then none
          else if mag < -330 then some 0
          else roundF64 (scale10 ((m.digits : Nat) : Rat) ex)
      match v with
      | none => .bad                      -- ±Inf with ErrRange: err != nil
      | some q => .fin (if neg then -q else q)

/- ### writing (strconv.FormatFloat(x,'f',-1,64)) -/

/-- decimal order `d` of `x > 0`: `10^(d-1) ≤ x < 10^d` (found from an estimate, fixed up by at most
    `fuel` steps each way; the estimate is within 2). -/
def decOrder (x : Rat) : Int :=
  let k : Int := (Nat.log2 x.num.natAbs : Int) - (Nat.log2 x.den : Int)
  let d0 : Int := (k * 30103) / 100000
  let rec up : Nat → Int → Int
    | 0, d => d
    | f + 1, d => if scale10 1 d ≤ x then up f (d + 1) else d          -- need x < 10^d
  let rec down : Nat → Int → Int
    | 0, d => d
    | f + 1, d => if x < scale10 1 (d - 1) then down f (d - 1) else d  -- need 10^(d-1) ≤ x
  down 8 (up 8 d0)

def natDigits (n : Nat) : List Char := Nat.toDigits 10 n

/-- render `N * 10^p` (`N > 0`) in plain positional notation, no exponent, no trailing zeros. -/
def renderFixed : Nat → Nat → Int → List Char
  | 0, n, p => natDigits n ++ (if p ≥ 0 then List.replicate p.toNat '0' else [])
  | fuel + 1, n, p =>
    if n % 10 == 0 && n != 0 && p < 0 then renderFixed fuel (n / 10) (p + 1)
    else
      let ds := natDigits n
      if p ≥ 0 then ds ++ List.replicate p.toNat '0'
      else
        let k := (-p).toNat
        if ds.length > k then ds.take (ds.length - k) ++ '.' :: ds.drop (ds.length - k)
        else '0' :: '.' :: (List.replicate (k - ds.length) '0' ++ ds)

/-- shortest decimal that reads back as the float64 `x > 0` (closest to `x` among the shortest). -/
def shortest (x : Rat) : Nat × Int :=
  let d := decOrder x
  let rec go : Nat → Nat → Nat × Int
    | 0, n =>                                 -- 17 digits always suffice; fall back to them
      let p : Int := d - (n : Int)
      ((roundHalfEven (scale10 x (-p))).toNat, p)
    | fuel + 1, n =>
      let p : Int := d - (n : Int)
      let y := scale10 x (-p)
      let lo := y.floor.toNat
      let hi := lo + 1
      let okLo := lo != 0 && roundF64 (scale10 ((lo : Nat) : Rat) p) == some x
      let okHi := roundF64 (scale10 ((hi : Nat) : Rat) p) == some x
      let dLo := y - ((lo : Nat) : Rat)
      let dHi := ((hi : Nat) : Rat) - y
      if okLo && okHi then (if dLo < dHi then (lo, p) else if dHi < dLo then (hi, p) else (if lo % 2 == 0 then (lo, p) else (hi, p)))
      else if okLo then (lo, p)
      else if okHi then (hi, p)
      else go fuel (n + 1)
  go 17 1

def goFormatFloat (x : Rat) : List Char :=
  if x == 0 then ['0'] else
  let a := if x < 0 then -x else x
  let (n, p) := shortest a
  (if x < 0 then ['-'] else []) ++ renderFixed 400 n p

/-- The executable codec used by the driver. -/
def goCodec : Codec where
  fmt := goFormatFloat
  isFloat s := match goParseFloat s with | .bad => false | _ => true
  parse s := match goParseFloat s with | .fin q => some q | _ => none

end Gotree.Newick
