/-
  C06 — trees whose root is itself a tip (one neighbour): `RemoveTips` with the
  proposed repair of `removeTip` (`removeTipProposed`) still returns the induced subtree,
  whether the tip root is kept or removed.  First, `Ind K` (split list with data) implies
  `RootEff K` (splits and path lengths), so that one relation suffices here.
  Core Lean only.
-/
import Gotree.Lemmas.C06DataSpec

namespace Gotree.C06
open Gotree Gotree.C14

theorem sep_of_sameSplit {K : List String} {s s' : SplitE} (h : sameSplit K s.below s'.below)
    (a b : String) (ha : a ∈ K) (hb : b ∈ K) : s.sep a b = s'.sep a b := by
  rcases h with e | e
  · have e1 := e a ha; have e2 := e b hb
    simp only [SplitE.sep, List.contains_eq_mem]
    by_cases m1 : a ∈ s'.below <;> by_cases m2 : b ∈ s'.below <;> simp_all
  · exact sep_compl e a b ha hb

theorem RootEff.refl (K : List String) (L : List SplitE) : RootEff K L L :=
  ⟨fun _ _ _ _ _ => rfl, fun h => h, fun s hs => ⟨s, hs, sameSplit.rfl' _ _⟩,
    fun s hs _ _ => ⟨s, hs, sameSplit.rfl' _ _⟩⟩

theorem RootEff.append {K : List String} {A A' B B' : List SplitE} (h : RootEff K A A') (g : RootEff K B B') :
    RootEff K (A ++ B) (A' ++ B') := by
  refine ⟨fun hl a b ha hb => ?_, fun hl s' hs' => ?_, fun s' hs' => ?_, fun s hs h1 h2 => ?_⟩
  · rw [distW_append, distW_append,
      h.dist (fun s hs => hl s (List.mem_append_left _ hs)) a b ha hb,
      g.dist (fun s hs => hl s (List.mem_append_right _ hs)) a b ha hb]
  · rcases List.mem_append.1 hs' with m | m
    · exact h.lens (fun s hs => hl s (List.mem_append_left _ hs)) s' m
    · exact g.lens (fun s hs => hl s (List.mem_append_right _ hs)) s' m
  · rcases List.mem_append.1 hs' with m | m
    · obtain ⟨s, hs, e⟩ := h.back s' m; exact ⟨s, List.mem_append_left _ hs, e⟩
    · obtain ⟨s, hs, e⟩ := g.back s' m; exact ⟨s, List.mem_append_right _ hs, e⟩
  · rcases List.mem_append.1 hs with m | m
    · obtain ⟨s', hs', e⟩ := h.fwd s m h1 h2; exact ⟨s', List.mem_append_left _ hs', e⟩
    · obtain ⟨s', hs', e⟩ := g.fwd s m h1 h2; exact ⟨s', List.mem_append_right _ hs', e⟩

/-- the relation with data implies the one about splits and path lengths -/
theorem ind_rootEff {K : List String} {L L' : List SplitE} (h : Ind K L L') : RootEff K L L' := by
  induction h with
  | refl L => exact RootEff.refl K L
  | trans _ _ ih1 ih2 => exact RootEff.trans (fun a ha => ha) ih1 ih2
  | append _ _ ih1 ih2 => exact RootEff.append ih1 ih2
  | swap A B => exact RootEff.swap K A B
  | single s s' _ _ h he =>
    have hs : sameSplit K s.below s'.below := Or.inl h
    refine ⟨fun _ a b ha hb => ?_, fun hl t ht => ?_, fun t ht => ?_, fun t ht _ _ => ?_⟩
    · simp [distW_cons, distW_nil, sep_of_sameSplit hs a b ha hb, he]
    · simp at ht; subst ht; rw [he]; exact hl s (by simp)
    · simp at ht; subst ht; exact ⟨s, by simp, hs.symm'⟩
    · simp at ht; subst ht; exact ⟨s', by simp, hs.symm'⟩
  | drop A h =>
    refine ⟨fun _ a b ha hb => ?_, fun _ t ht => (by cases ht), fun t ht => (by cases ht), fun s hs h1 _ => ?_⟩
    · rw [distW_nil, distW_both_out]
      · intro s hs; exact h s hs a ha
      · intro s hs; exact h s hs b hb
    · obtain ⟨a, ha, hm⟩ := h1
      exact absurd hm (h s hs a ha)
  | dropTop hc _ h => exact RootEff.dropTop hc [] h
  | fuse s1 s2 s' _ _ _ h1 h2 b _ he =>
    refine ⟨fun hl a c ha hc => ?_, fun _ t ht => ?_, fun t ht => ?_, fun t ht _ _ => ?_⟩
    · have l1 := hl s1 (by simp)
      have l2 := hl s2 (by simp)
      have hw : s'.e.lenOr0 = s1.e.lenOr0 + s2.e.lenOr0 := by
        rcases he with he | he
        · rw [he, fuse_lenOr0 l1 l2]
        · rw [he, fuse_lenOr0 l2 l1, Rat.add_comm]
      simp only [distW_cons, distW_nil, sep_of_sameSplit h1 a c ha hc, sep_of_sameSplit h2 a c ha hc, hw]
      split <;> simp [Rat.add_zero]
    · simp at ht; subst ht
      rcases he with he | he <;> rw [he] <;> exact fuse_lenOK _ _ _
    · simp at ht; subst ht; exact ⟨s1, by simp, h1.symm'⟩
    · simp at ht
      rcases ht with rfl | rfl
      · exact ⟨s', by simp, h1.symm'⟩
      · exact ⟨s', by simp, h2.symm'⟩

end Gotree.C06
