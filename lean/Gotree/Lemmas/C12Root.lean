/-
  C12 — the minimum does not depend on the root: `minCost (moveRoot t i) = minCost t`.
  Route: the Sankoff vector of the new root is pointwise the second-pass slice (`totA`) of
  child `i` in the old tree, and the minimum of every second-pass slice is `minCost`.
-/
import Gotree.Lemmas.C12Sound

namespace Gotree.C12
open Gotree

section root
variable (k : Nat) (tv : String → Vec)

/-- the minimum of the second-pass slice of any inner node is the global minimum -/
theorem tot_min (hk : 0 < k) (t : T) (hne : t.kids ≠ [])
    (hlne : ∀ n ∈ leavesL t.kids, leafNonempty k tv n)
    (v : List Nat) (hin : innerAt t v = true) (tot : Vec)
    (htv : (totA k tv (vzero k) t).get v = some tot) :
    minOver k tot.at = minCost k tv t := by
  have hlne' : ∀ n ∈ t.leaves, leafNonempty k tv n := by
    match t, hne, hlne with
    | .node d p (x :: xs), _, hlne => intro n hn; rw [leaves_node_cons] at hn; exact hlne n hn
  have hsub : (sub t v).isSome = true := by
    simp only [innerAt] at hin
    cases h : sub t v with
    | none => simp [h, innerOpt] at hin
    | some c => rfl
  have hge : ∀ s', s' < k → minCost k tv t ≤ tot.at s' := by
    intro s' hs'
    obtain ⟨l, hf, _, hc⟩ := tot_att k tv hk t hlne' (vzero k) v tot s' hs' htv hin
    have := minCost_le k tv t hne l hf
    simp only [at_vzero] at hc
    omega
  obtain ⟨lo, hfo, hco⟩ := minCost_attained k tv hk t hne hlne
  obtain ⟨s0, hs0, hg0⟩ := fits_get k tv t lo v hfo hsub
  have h1 := tot_lb k tv t (vzero k) v tot lo s0 hfo hg0 htv hin
  simp only [at_vzero] at h1
  obtain ⟨s1, hs1, he1⟩ := minOver_attained k hk tot.at
  have h2 := minOver_le k tot.at s0 hs0
  have h3 := hge s1 hs1
  omega

theorem fL_append (s : Nat) (hs : s < k) : ∀ (a b : Kids),
    (fL k tv (a ++ b)).at s = (fL k tv a).at s + (fL k tv b).at s
  | [], b => by simp [fL, at_vzero]
  | (e, c) :: r, b => by
    have ih := fL_append s hs r b
    simp only [List.cons_append, fL, at_vadd, hs, if_true]
    omega

theorem through_congr (hk : 0 < k) (R R' : Vec) (h : ∀ t, t < k → R.at t = R'.at t) (s : Nat) :
    (through k R).at s = (through k R').at s := by
  simp only [through, at_tab]
  split
  · exact minOver_congr k hk _ _ (fun t ht => by rw [h t ht])
  · rfl

/-- the second-pass slice of child `i` of a node, read off `totL` -/
theorem totL_root : ∀ (ks : Kids) (U pre : Vec) (i : Nat) (e : EdgeD) (d : NodeD) (pp : Nat) (x : EdgeD × T) (xs : Kids),
    ks[i]? = some (e, .node d pp (x :: xs)) →
    ∃ R tot, A.getL (totL k tv U pre ks) i [] = some tot ∧
      (∀ s, s < k → tot.at s = (fL k tv (x :: xs)).at s + (through k R).at s) ∧
      (∀ t, t < k → R.at t = U.at t + pre.at t + (fL k tv (ks.eraseIdx i)).at t)
  | [], _, _, _, _, _, _, _, _, h => by simp at h
  | (e0, c0) :: rest, U, pre, 0, e, d, pp, x, xs, h => by
    simp only [List.getElem?_cons_zero, Option.some.injEq, Prod.mk.injEq] at h
    obtain ⟨_, hc⟩ := h
    subst hc
    refine ⟨vadd k U (vadd k pre (fL k tv rest)),
      vadd k (fL k tv (x :: xs)) (through k (vadd k U (vadd k pre (fL k tv rest)))),
      by simp only [totL, A.getL, totA, A.get], ?_, ?_⟩
    · intro s hs; simp only [at_vadd, hs, if_true]
    · intro t ht; simp only [at_vadd, ht, if_true, List.eraseIdx_zero, List.tail_cons]; omega
  | (e0, c0) :: rest, U, pre, i + 1, e, d, pp, x, xs, h => by
    simp only [List.getElem?_cons_succ] at h
    obtain ⟨R, tot, hg, h1, h2⟩ := totL_root rest U (vadd k pre (gv k tv c0)) i e d pp x xs h
    refine ⟨R, tot, by simpa only [totL, A.getL] using hg, h1, ?_⟩
    intro t ht
    have := h2 t ht
    simp only [at_vadd, ht, if_true] at this
    simp only [List.eraseIdx_cons_succ, fL, at_vadd, ht, if_true]
    omega

theorem subL_root : ∀ (ks : Kids) (i : Nat) (et : EdgeD × T), ks[i]? = some et → subL ks i [] = some et.2
  | [], _, _, h => by simp at h
  | (e0, c0) :: rest, 0, et, h => by
    simp only [List.getElem?_cons_zero, Option.some.injEq] at h
    subst h; simp [subL, sub]
  | (e0, c0) :: rest, i + 1, et, h => by
    simp only [List.getElem?_cons_succ] at h
    simp only [subL]; exact subL_root rest i et h

theorem leaves_eraseIdx : ∀ (ks : Kids) (i : Nat) (n : String), n ∈ leavesL (ks.eraseIdx i) → n ∈ leavesL ks
  | [], _, _, h => by simpa using h
  | (e0, c0) :: rest, 0, n, h => by
    simp only [List.eraseIdx_zero, List.tail_cons] at h
    simp only [leavesL, List.mem_append]; exact Or.inr h
  | (e0, c0) :: rest, i + 1, n, h => by
    simp only [List.eraseIdx_cons_succ, leavesL, List.mem_append] at h
    simp only [leavesL, List.mem_append]
    cases h with
    | inl h => exact Or.inl h
    | inr h => exact Or.inr (leaves_eraseIdx rest i n h)

theorem leavesL_append : ∀ (a b : Kids), leavesL (a ++ b) = leavesL a ++ leavesL b
  | [], b => by simp [leavesL]
  | (e, c) :: r, b => by simp [leavesL, leavesL_append r b]

theorem moveRoot_eq (dt : NodeD) (pt : Nat) (ks : Kids) (i : Nat) (e : EdgeD) (d : NodeD) (pp : Nat) (cks : Kids)
    (hi : ks[i]? = some (e, .node d pp cks)) :
    moveRoot (.node dt pt ks) i = .node d 0 (cks ++ [(e, .node dt 0 (ks.eraseIdx i))]) := by
  simp [moveRoot, hi]

theorem minCost_moveRoot (hk : 0 < k) (t : T) (hlen : 2 ≤ t.kids.length)
    (hlne : ∀ n ∈ leavesL t.kids, leafNonempty k tv n)
    (i : Nat) (e : EdgeD) (d : NodeD) (pp : Nat) (x : EdgeD × T) (xs : Kids)
    (hi : t.kids[i]? = some (e, .node d pp (x :: xs))) :
    minCost k tv (moveRoot t i) = minCost k tv t := by
  match t, hlen, hlne, hi with
  | .node dt pt [], hlen, _, _ => simp at hlen
  | .node dt pt (y :: ys), hlen, hlne, hi =>
    simp only [T.kids_node] at hlen hlne hi
    rw [moveRoot_eq dt pt (y :: ys) i e d pp (x :: xs) hi]
    obtain ⟨R, tot, hg, h1, h2⟩ := totL_root k tv (y :: ys) (vzero k) (vzero k) i e d pp x xs hi
    have hget : (totA k tv (vzero k) (.node dt pt (y :: ys))).get [i] = some tot := by
      simpa only [totA, A.get] using hg
    have hin : innerAt (.node dt pt (y :: ys)) [i] = true := by
      simp [innerAt, sub, subL_root (y :: ys) i _ hi, innerOpt]
    have hmin := tot_min k tv hk (.node dt pt (y :: ys)) (by simp) hlne [i] hin tot hget
    rw [← hmin]
    simp only [minCost, T.kids_node]
    apply minOver_congr k hk
    intro s hs
    rw [fL_append k tv s hs, h1 s hs]
    -- the old root, now a child
    have hilt : i < (y :: ys).length := by
      cases hlt : (y :: ys)[i]? with
      | none => simp [hlt] at hi
      | some _ => exact (List.getElem?_eq_some_iff.mp hlt).1
    have hlen' : ((y :: ys).eraseIdx i).length = (y :: ys).length - 1 := List.length_eraseIdx_of_lt hilt
    cases her : (y :: ys).eraseIdx i with
    | nil => simp only [her, List.length_nil, List.length_cons] at hlen' hlen; omega
    | cons z zs =>
      rw [her] at h2
      have hthr := through_congr k hk (fL k tv (z :: zs)) R
        (fun t ht => by have := h2 t ht; simp only [at_vzero] at this; omega) s
      simp only [fL, gv, at_vadd, hs, if_true, at_vzero]
      simp only [fL] at hthr
      omega

theorem tipsOk_moveRoot (t : T) (ht : tipsOk k tv t = true)
    (i : Nat) (e : EdgeD) (d : NodeD) (pp : Nat) (cks : Kids)
    (hi : t.kids[i]? = some (e, .node d pp cks)) (hlen : 2 ≤ t.kids.length) :
    tipsOk k tv (moveRoot t i) = true := by
  match t, ht, hi, hlen with
  | .node dt pt ks, ht, hi, hlen =>
    simp only [T.kids_node] at hi hlen
    rw [moveRoot_eq dt pt ks i e d pp cks hi]
    simp only [tipsOk, T.kids_node, List.all_eq_true] at ht ⊢
    intro n hn
    apply ht n
    rw [leavesL_append] at hn
    simp only [List.mem_append] at hn
    have hmem : (e, T.node d pp cks) ∈ ks := List.mem_of_getElem? hi
    cases hn with
    | inl h =>
      match cks, h with
      | [], h => simp [leavesL] at h
      | c :: cs, h =>
        exact leaves_mem_kids ks _ hmem n (by rw [leaves_node_cons]; exact h)
    | inr h =>
      have hilt : i < ks.length := by
        cases hlt : ks[i]? with
        | none => simp [hlt] at hi
        | some _ => exact (List.getElem?_eq_some_iff.mp hlt).1
      have hlen' : (ks.eraseIdx i).length = ks.length - 1 := List.length_eraseIdx_of_lt hilt
      cases her : ks.eraseIdx i with
      | nil => simp only [her, List.length_nil] at hlen'; omega
      | cons z zs =>
        simp only [leavesL, her, List.append_nil] at h
        rw [leaves_node_cons, ← her] at h
        exact leaves_eraseIdx ks i n h

end root

end Gotree.C12
