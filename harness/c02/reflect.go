package c02

// The decoded PhyloXML / Nextstrain documents as the harness sees them: its OWN structures.  The generator of
// decoders.go builds them, and what encoding/xml / encoding/json made of an input in the code's structures is
// converted to them by REFLECTION (field names only: a value that becomes a pointer, a slice of values that
// becomes a slice of pointers, … does not stop the harness from compiling, so such a refactoring is still
// executed and judged by the oracle).  A nil pointer where a structure is expected reads as the zero structure —
// what the value-typed field held before.

import (
	"fmt"
	"reflect"
	"strings"

	"verifharness/core"
)

type pxC struct {
	Name, Sci, Code string
	Len, Conf       *float64
	Kids            []*pxC
}

type pxP struct {
	Rooted bool
	Root   *pxC
}

type pxD struct {
	Phylos []pxP
}

type nsN struct {
	Name                   string
	Div                    float64
	Country, Accession, Aa string
	Date                   float64
	Kids                   []*nsN
}

type nsD struct {
	Version string
	Tree    *nsN
}

// deref follows pointers and interfaces; a nil one gives the invalid Value.
func deref(v reflect.Value) reflect.Value {
	for v.IsValid() && (v.Kind() == reflect.Ptr || v.Kind() == reflect.Interface) {
		if v.IsNil() {
			return reflect.Value{}
		}
		v = v.Elem()
	}
	return v
}

// fld follows a path of field names, dereferencing on the way; invalid when something is missing or nil.
func fld(v reflect.Value, path ...string) reflect.Value {
	for _, name := range path {
		v = deref(v)
		if !v.IsValid() || v.Kind() != reflect.Struct {
			return reflect.Value{}
		}
		v = v.FieldByName(name)
	}
	return v
}

func strOf(v reflect.Value) string {
	v = deref(v)
	if v.IsValid() && v.Kind() == reflect.String {
		return v.String()
	}
	return ""
}

func boolOf(v reflect.Value) bool {
	v = deref(v)
	return v.IsValid() && v.Kind() == reflect.Bool && v.Bool()
}

func floatOf(v reflect.Value) float64 {
	v = deref(v)
	if v.IsValid() && (v.Kind() == reflect.Float64 || v.Kind() == reflect.Float32) {
		return v.Float()
	}
	return 0
}

// optFloatOf: an optional number (a *float64 in the code: nil = absent)
func optFloatOf(v reflect.Value) *float64 {
	if !v.IsValid() {
		return nil
	}
	d := deref(v)
	if !d.IsValid() || (d.Kind() != reflect.Float64 && d.Kind() != reflect.Float32) {
		return nil
	}
	f := d.Float()
	return &f
}

func elemsOf(v reflect.Value) []reflect.Value {
	v = deref(v)
	if !v.IsValid() || (v.Kind() != reflect.Slice && v.Kind() != reflect.Array) {
		return nil
	}
	out := make([]reflect.Value, v.Len())
	for i := range out {
		out[i] = v.Index(i)
	}
	return out
}

func pxCladeFromReal(v reflect.Value) *pxC {
	c := &pxC{
		Name: strOf(fld(v, "Name")),
		Sci:  strOf(fld(v, "Tax", "ScientificName")),
		Code: strOf(fld(v, "Tax", "Code")),
		Len:  optFloatOf(fld(v, "BranchLength")),
		Conf: optFloatOf(fld(v, "Confidence")),
	}
	for _, k := range elemsOf(fld(v, "Clades")) {
		c.Kids = append(c.Kids, pxCladeFromReal(k))
	}
	return c
}

// pxFromReal converts a decoded *phyloxml.PhyloXML.
func pxFromReal(px interface{}) *pxD {
	d := &pxD{}
	for _, ph := range elemsOf(fld(reflect.ValueOf(px), "Phylogenies")) {
		d.Phylos = append(d.Phylos, pxP{Rooted: boolOf(fld(ph, "Rooted")), Root: pxCladeFromReal(fld(ph, "Root"))})
	}
	return d
}

func nsNodeFromReal(v reflect.Value) *nsN {
	n := &nsN{
		Name:      strOf(fld(v, "Name")),
		Div:       floatOf(fld(v, "Attributes", "Divergence")),
		Country:   strOf(fld(v, "Attributes", "Country", "Value")),
		Accession: strOf(fld(v, "Attributes", "Accession")),
		Aa:        strOf(fld(v, "BranchAttr", "Labels", "Aa")),
		Date:      floatOf(fld(v, "Attributes", "Date", "Value")),
	}
	for _, k := range elemsOf(fld(v, "Children")) {
		n.Kids = append(n.Kids, nsNodeFromReal(k))
	}
	return n
}

// nsFromReal converts a decoded *nextstrain.Nextstrain.
func nsFromReal(ns interface{}) *nsD {
	v := reflect.ValueOf(ns)
	return &nsD{Version: strOf(fld(v, "Version")), Tree: nsNodeFromReal(fld(v, "Tree"))}
}

// encPx serialises a decoded PhyloXML document for the driver.
func encPx(px *pxD) string {
	optRat := func(p *float64) string {
		if p == nil {
			return "-"
		}
		return core.Rat(*p)
	}
	var sb strings.Builder
	sb.WriteString("X")
	var rec func(c *pxC)
	rec = func(c *pxC) {
		if c == nil {
			c = &pxC{}
		}
		fmt.Fprintf(&sb, "( n%s s%s c%s l%s f%s ", core.Escape(c.Name), core.Escape(c.Sci), core.Escape(c.Code), optRat(c.Len), optRat(c.Conf))
		for _, k := range c.Kids {
			rec(k)
		}
		sb.WriteString(") ")
	}
	for i := range px.Phylos {
		rec(px.Phylos[i].Root)
		sb.WriteString("|")
	}
	return sb.String()
}

// encNs serialises a decoded Nextstrain document for the driver.
func encNs(ns *nsD) string {
	var sb strings.Builder
	sb.WriteString("V" + core.Escape(ns.Version) + " ")
	var rec func(c *nsN)
	rec = func(c *nsN) {
		if c == nil {
			c = &nsN{}
		}
		cm := nsComment(c)
		if cm == "" {
			cm = "-"
		} else {
			cm = "k" + core.Escape(cm)
		}
		fmt.Fprintf(&sb, "( n%s d%s %s ", core.Escape(c.Name), core.Rat(c.Div), cm)
		for _, k := range c.Kids {
			rec(k)
		}
		sb.WriteString(") ")
	}
	rec(ns.Tree)
	return sb.String()
}

// nsComment rebuilds the annotation comment of nextstrain.cladeToTree (string surgery only).
func nsComment(c *nsN) string {
	clean := func(s string) string {
		s = strings.Replace(s, ":", ".", -1)
		s = strings.Replace(s, " ", "", -1)
		return strings.Replace(s, ",", "-", -1)
	}
	var parts []string
	if c.Aa != "" {
		parts = append(parts, "mutations="+clean(c.Aa))
	}
	if c.Accession != "" {
		parts = append(parts, "accession="+clean(c.Accession))
	}
	if c.Country != "" {
		parts = append(parts, "country="+clean(c.Country))
	}
	if c.Date != 0.0 {
		parts = append(parts, "date="+fmt.Sprintf("%f", c.Date))
	}
	if len(parts) == 0 {
		return ""
	}
	return "&" + strings.Join(parts, ",")
}
