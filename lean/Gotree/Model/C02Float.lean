/-
  C02 — model of `strconv.ParseInt(s, 10, 64)` and `strconv.ParseFloat(s, 64)` as the
  lexers use them: *whether* the literal is accepted (this decides NUMERIC / IDENT and
  therefore the control flow of the parsers), and the exact value of the resulting
  float64 (correct rounding to nearest-even, sub-normals, overflow = range error).
  `strconv` itself is trusted (DESIGN §7); this transcription is compared with the real
  functions on an adversarial literal stream by the correspondence (`C02.lit`).
-/
namespace Gotree.C02

def isDigit (c : Char) : Bool := '0' ≤ c && c ≤ '9'
def digitVal (c : Char) : Nat := c.toNat - 48
def lowerA (c : Char) : Char := if 'A' ≤ c && c ≤ 'Z' then Char.ofNat (c.toNat + 32) else c
def isHexLetter (c : Char) : Bool := 'a' ≤ lowerA c && lowerA c ≤ 'f'
def hexVal (c : Char) : Nat := if isDigit c then digitVal c else (lowerA c).toNat - 87

/- ## ParseInt(s, 10, 64) -/

def digitsVal : List Char → Nat → Option Nat
  | [], acc => some acc
  | c :: r, acc => if isDigit c then digitsVal r (acc * 10 + digitVal c) else none

/-- `strconv.ParseInt(s, 10, 64)`: `none` = error (syntax or range). -/
def parseInt (s : List Char) : Option Int :=
  let (neg, body) : Bool × List Char :=
    match s with
    | '+' :: r => (false, r)
    | '-' :: r => (true, r)
    | _ => (false, s)
  match body with
  | [] => none
  | _ =>
    match digitsVal body 0 with
    | none => none
    | some n =>
      if neg then (if n ≤ 9223372036854775808 then some (-(n : Int)) else none)
      else (if n ≤ 9223372036854775807 then some (n : Int) else none)

/- ## ParseFloat(s, 64) -/

/-- value of an accepted literal -/
inductive FVal | fin (q : Rat) | nonfinite
  deriving Repr, Inhabited, BEq

def commonPrefixCI : List Char → List Char → Nat
  | a :: r, b :: p => if lowerA a == b then 1 + commonPrefixCI r p else 0
  | _, _ => 0

/-- `special`: number of characters of a leading inf / infinity / nan (0 = none) -/
def specialLen (s : List Char) : Nat :=
  let inf (t : List Char) : Nat :=
    let n := commonPrefixCI t "infinity".toList
    let n := if 3 < n && n < 8 then 3 else n
    if n == 3 || n == 8 then n else 0
  match s with
  | '+' :: r => if inf r == 0 then 0 else 1 + inf r
  | '-' :: r => if inf r == 0 then 0 else 1 + inf r
  | 'i' :: _ => inf s
  | 'I' :: _ => inf s
  | 'n' :: _ => if commonPrefixCI s "nan".toList == 3 then 3 else 0
  | 'N' :: _ => if commonPrefixCI s "nan".toList == 3 then 3 else 0
  | _ => 0

/-- `underscoreOK` (after the optional sign has been removed by the caller) -/
def underscoreOKgo (hex : Bool) : List Char → Char → Bool
  | [], saw => saw != '_'
  | c :: r, saw =>
    if isDigit c || (hex && isHexLetter c) then underscoreOKgo hex r '0'
    else if c == '_' then (if saw != '0' then false else underscoreOKgo hex r '_')
    else if saw == '_' then false
    else underscoreOKgo hex r '!'

def underscoreOK (s : List Char) : Bool :=
  let s := match s with | '+' :: r => r | '-' :: r => r | _ => s
  match s with
  | '0' :: x :: r =>
    if lowerA x == 'b' || lowerA x == 'o' || lowerA x == 'x' then underscoreOKgo (lowerA x == 'x') r '0'
    else underscoreOKgo false s '^'
  | _ => underscoreOKgo false s '^'

/-- the mantissa scan of `readFloat` -/
structure Mant where
  mant : Nat := 0
  nd : Nat := 0          -- digits seen
  dp : Nat := 0          -- digits before the point
  sawdot : Bool := false
  sawdigits : Bool := false
  underscores : Bool := false

def scanMant (hex : Bool) : List Char → Mant → Mant × List Char
  | [], m => (m, [])
  | c :: r, m =>
    if c == '_' then scanMant hex r { m with underscores := true }
    else if c == '.' then
      (if m.sawdot then (m, c :: r) else scanMant hex r { m with sawdot := true, dp := m.nd })
    else if isDigit c then
      scanMant hex r { m with sawdigits := true, nd := m.nd + 1, mant := m.mant * (if hex then 16 else 10) + digitVal c }
    else if hex && isHexLetter c then
      scanMant hex r { m with sawdigits := true, nd := m.nd + 1, mant := m.mant * 16 + hexVal c }
    else (m, c :: r)

/-- exponent digits (underscores allowed, value capped like Go's `e < 10000`) -/
def scanExp : List Char → Nat → Bool → Nat × Bool × List Char
  | [], e, u => (e, u, [])
  | c :: r, e, u =>
    if c == '_' then scanExp r e true
    else if isDigit c then scanExp r (if e < 10000 then e * 10 + digitVal c else e) u
    else (e, u, c :: r)

def pow2 (n : Nat) : Nat := 1 <<< n

/-- nearest float64 (ties to even) of num/den > 0, as an exact rational;
    `none` = overflow (ParseFloat's range error). -/
def roundF64 (num den : Nat) : Option Rat :=
  if num == 0 || den == 0 then some 0 else
  -- k with 2^k ≤ num/den < 2^(k+1)
  let k0 : Int := (Nat.log2 num : Int) - (Nat.log2 den : Int)
  let ge (k : Int) : Bool := if k ≥ 0 then den * pow2 k.toNat ≤ num else den ≤ num * pow2 (-k).toNat
  let k : Int := if ge k0 then (if ge (k0 + 1) then k0 + 1 else k0) else k0 - 1
  let e : Int := if k - 52 < -1074 then -1074 else k - 52
  -- value / 2^e = n / d
  let n := if e ≥ 0 then num else num * pow2 (-e).toNat
  let d := if e ≥ 0 then den * pow2 e.toNat else den
  let q := n / d
  let r := n % d
  let q := if 2 * r > d || (2 * r == d && q % 2 == 1) then q + 1 else q
  -- overflow: q·2^e ≥ 2^1024
  if e ≥ 0 && q * pow2 e.toNat ≥ pow2 1024 then none
  else some (if e ≥ 0 then ((q * pow2 e.toNat : Nat) : Rat) else mkRat (q : Int) (pow2 (-e).toNat))

def neg? (b : Bool) (q : Rat) : Rat := if b then -q else q

/-- `strconv.ParseFloat(s, 64)`: `none` = error (syntax, or range on overflow). -/
def parseFloat (s : List Char) : Option FVal :=
  match s with
  | [] => none
  | _ =>
  if specialLen s != 0 then (if specialLen s == s.length then some .nonfinite else none) else
  let (neg, body) : Bool × List Char :=
    match s with
    | '+' :: r => (false, r)
    | '-' :: r => (true, r)
    | _ => (false, s)
  let (hex, body) : Bool × List Char :=
    match body with
    | '0' :: x :: y :: r => if lowerA x == 'x' then (true, y :: r) else (false, body)
    | _ => (false, body)
  let (m, rest) := scanMant hex body {}
  if !m.sawdigits then none else
  let dp := if m.sawdot then m.dp else m.nd
  -- exponent
  let expChar := if hex then 'p' else 'e'
  let exp? : Option (Int × Bool × List Char) :=
    match rest with
    | c :: r =>
      if lowerA c == expChar then
        match r with
        | [] => none
        | _ =>
          let (eneg, r2) : Bool × List Char :=
            match r with
            | '+' :: t => (false, t)
            | '-' :: t => (true, t)
            | _ => (false, r)
          match r2 with
          | d :: _ =>
            if isDigit d then
              let (e, u, r3) := scanExp r2 0 false
              some ((if eneg then -(e : Int) else (e : Int)), u, r3)
            else none
          | [] => none
      else if hex then none else some (0, false, rest)
    | [] => if hex then none else some (0, false, [])
  match exp? with
  | none => none
  | some (e, u, rest2) =>
    if rest2 != [] then none else
    if (m.underscores || u) && !underscoreOK s then none else
    if m.mant == 0 then some (.fin 0) else
    if hex then
      -- value = mant · 2^(4·(dp − nd) + e)
      let e2 : Int := 4 * ((dp : Int) - (m.nd : Int)) + e
      if e2 > 1100 then none
      else if e2 < -1200 - 4 * (m.nd : Int) then some (.fin 0)
      else
        match (if e2 ≥ 0 then roundF64 (m.mant * pow2 e2.toNat) 1 else roundF64 m.mant (pow2 (-e2).toNat)) with
        | none => none
        | some q => some (.fin (neg? neg q))
    else
      let e10 : Int := (dp : Int) - (m.nd : Int) + e
      let ndig : Int := (Nat.log2 m.mant / 3 : Nat)   -- crude upper bound of the digit count
      if e10 > 320 then none
      else if e10 + ndig + 2 < -340 then some (.fin 0)
      else
        match (if e10 ≥ 0 then roundF64 (m.mant * 10 ^ e10.toNat) 1 else roundF64 m.mant (10 ^ (-e10).toNat)) with
        | none => none
        | some q => some (.fin (neg? neg q))

def isFloat (s : List Char) : Bool := (parseFloat s).isSome

end Gotree.C02
