/-
  C02 — total model of the Nexus scanner and parser (io/nexus/nexus_lexer.go,
  nexus_parser.go: Parse, parseTaxa, parseTrees, parseTranslationTable, parseData,
  parseUnsupportedCommand / Key / Block, consumeComment).

  * `Scanner.Scan()` does not depend on the parser (one mode, `unscan` is never
    called in this package), so the input is first cut into tokens (`tokens`, by
    well-founded recursion on the remaining input: every scan consumes at least one
    character).
  * Every call site of `scanIgnoreWhitespace` in the parser is a control point
    (`Ctl`); `step` is what the code does with the token it gets there.  The parser
    is the fold of `deliver` over the token list — structural recursion, so no loop
    can run forever while there is input — followed by the delivery of the EOF token
    the scanner returns forever at the end of the input (`atEOF`): three deliveries
    reach a halted state from EVERY control point (theorem `eof_halts`), which is
    "every loop leaves on EOF".  The variant before fix 214ace7 (F3) stays in the
    comment loop forever (`runPinned … = .outOfFuel`).
  * `[]rune(lit4)[0]` is an explicit panic when the literal is empty.
-/
import Gotree.Model.C02Newick

namespace Gotree.C02.Nexus
open Gotree Gotree.C02

inductive Tok
  | illegal | eof | ws | ident | numeric | openbrack | closebrack | endofcommand | endofline | comma
  | nexus | equal | begin_ | data | taxa | taxlabels | trees | tree | translate
  | dimensions | ntax | nchar | format | datatype | missing | gap | matrix | end_
  deriving DecidableEq, Repr, Inhabited

def isWs (c : Char) : Bool := c == ' ' || c == '\t'
def isIdent (c : Char) : Bool :=
  c != '[' && c != ']' && c != ';' && c != '=' && c != '\r' && c != '\n' && c != ',' && !isWs c

/-- `unicode.ToUpper` as far as it can produce an ASCII letter -/
def goUpper (c : Char) : Char :=
  if 'a' ≤ c && c ≤ 'z' then Char.ofNat (c.toNat - 32)
  else if c.toNat == 0x131 then 'I' else if c.toNat == 0x17F then 'S' else c

/-- `unicode.ToLower` as far as it can produce an ASCII letter -/
def goLower (c : Char) : Char :=
  if 'A' ≤ c && c ≤ 'Z' then Char.ofNat (c.toNat + 32)
  else if c.toNat == 0x130 then 'i' else if c.toNat == 0x212A then 'k' else c

/-- the end of `scanIdent`: NUMERIC if `ParseInt` accepts, else keyword or IDENT -/
def classify (lit : List Char) : Tok :=
  if (parseInt lit).isSome then .numeric else
  match String.ofList (lit.map goUpper) with
  | "#NEXUS" => .nexus | "BEGIN" => .begin_ | "DATA" => .data | "CHARACTERS" => .data
  | "TAXA" => .taxa | "TAXLABELS" => .taxlabels | "TREES" => .trees | "TREE" => .tree
  | "TRANSLATE" => .translate | "DIMENSIONS" => .dimensions | "NTAX" => .ntax | "NCHAR" => .nchar
  | "FORMAT" => .format | "DATATYPE" => .datatype | "MISSING" => .missing | "GAP" => .gap
  | "MATRIX" => .matrix | "END" => .end_
  | _ => .ident

structure Token where
  tok : Tok
  lit : List Char
  deriving Inhabited

structure Scanned where
  t : Token
  rest : List Char

/-- `scanIdent` when the first rune `c` is taken unconditionally -/
def identFrom (c : Char) (cs : List Char) : Scanned :=
  let lit := c :: cs.takeWhile isIdent
  ⟨⟨classify lit, lit⟩, cs.dropWhile isIdent⟩

/-- `Scanner.Scan()` on a non-empty input `c :: cs` -/
def scan1 (c : Char) (cs : List Char) : Scanned :=
  if isWs c then ⟨⟨.ws, c :: cs.takeWhile isWs⟩, cs.dropWhile isWs⟩
  else if c == '\n' then ⟨⟨.endofline, []⟩, cs⟩
  else if c == '\r' then
    match cs with
    | [] => ⟨⟨classify [rep], [rep]⟩, []⟩           -- read() = eof; WriteRune(-1) writes U+FFFD
    | c2 :: r => if c2 == '\n' then ⟨⟨.endofline, []⟩, r⟩ else identFrom c2 r   -- "\r without \n": unread, scanIdent
  else if c == '[' then ⟨⟨.openbrack, [c]⟩, cs⟩
  else if c == ']' then ⟨⟨.closebrack, [c]⟩, cs⟩
  else if c == ';' then ⟨⟨.endofcommand, [c]⟩, cs⟩
  else if c == '=' then ⟨⟨.equal, [c]⟩, cs⟩
  else if c == ',' then ⟨⟨.comma, [c]⟩, cs⟩
  else identFrom c cs

theorem identFrom_rest_le (c : Char) (cs : List Char) : (identFrom c cs).rest.length ≤ cs.length :=
  Newick.length_dropWhile_le' isIdent cs

theorem scan1_rest_le (c : Char) (cs : List Char) : (scan1 c cs).rest.length ≤ cs.length := by
  have h1 := Newick.length_dropWhile_le' isWs cs
  have h2 := identFrom_rest_le c cs
  unfold scan1
  split
  · exact h1
  split
  · exact Nat.le_refl _
  split
  · cases cs with
    | nil => exact Nat.le_refl _
    | cons c2 r =>
      simp only
      split
      · simp
      · have := identFrom_rest_le c2 r
        simp only [List.length_cons]; omega
  repeat' split
  all_goals first | exact Nat.le_refl _ | exact h2

/-- the whole input as tokens (the scanner then returns EOF forever) -/
def tokens : List Char → List Token
  | [] => []
  | c :: cs => (scan1 c cs).t :: tokens (scan1 c cs).rest
termination_by l => l.length
decreasing_by
  have := scan1_rest_le c cs
  simp only [List.length_cons]; omega

/- ## parser state -/

/-- what `Parse` keeps from the blocks, and the `translationTable` field of the parser -/
structure Acc where
  taxantax : Int := 0
  taxlabels : Option (List String) := none        -- keys of the map, distinct
  hasData : Bool := false
  names : List String := []
  seqs : List (String × List Char) := []          -- the map name ↦ sequence
  nchar : Int := 0
  ntax : Int := 0
  datatype : List Char := "dna".toList
  missing : Char := '*'
  gap : Char := '-'
  hasTrees : Bool := false
  treenames : List (List Char) := []
  treestrings : List (List Char) := []
  translation : Option (List (String × String)) := none
  deriving Inhabited

/-- locals of `parseTaxa` -/
structure TaxaL where
  ntax : Int := -1
  labels : List String := []
  deriving Inhabited

/-- locals of `parseTrees` -/
structure TreesL where
  names : List (List Char) := []
  strings : List (List Char) := []
  deriving Inhabited

/-- locals of `parseData` -/
structure DataL where
  names : List String := []
  seqs : List (String × List Char) := []
  nchar : Int := -1
  ntax : Int := -1
  datatype : List Char := "dna".toList
  missing : Char := '*'
  gap : Char := '-'
  deriving Inhabited

/-- control points: one per call of `scanIgnoreWhitespace` (and the one `scanIgnoreWhitespaceAndEOL`) -/
inductive Ctl
  | expectNexus | main | mainComment | mainAfterComment | beginName | beginSemi (blk : Tok)
  -- parseTaxa
  | tHead (l : TaxaL) | tEndSemi (l : TaxaL) | tDim (l : TaxaL) | tDimNtaxEq (l : TaxaL) | tDimNtaxVal (l : TaxaL) (bad : Bool)
  | tDimKeyEq (l : TaxaL) | tDimKeyVal (l : TaxaL) | tLabels (l : TaxaL) | tComment (l : TaxaL) | tUnsup (l : TaxaL)
  -- parseTrees / parseTranslationTable
  | rHead (l : TreesL) | rEndSemi (l : TreesL) | rTr (l : TreesL) (tbl : List (String × String))
  | rTrVal (l : TreesL) (tbl : List (String × String)) (key : List Char)
  | rTrSep (l : TreesL) (tbl : List (String × String)) (key value : List Char)
  | rTrComment (l : TreesL) (tbl : List (String × String))
  | rTreeName (l : TreesL) | rTreeEq (l : TreesL) (name : List Char) | rTreeFirst (l : TreesL) (name : List Char)
  | rTreeComment (l : TreesL) (name : List Char) | rTreeSkip (l : TreesL) (name : List Char)
  | rTreeAcc (l : TreesL) (name acc : List Char) | rComment (l : TreesL) | rUnsup (l : TreesL)
  -- parseData
  | dHead (l : DataL) | dEndSemi (l : DataL) | dDim (l : DataL)
  | dDimNtaxEq (l : DataL) | dDimNtaxVal (l : DataL) (bad : Bool) | dDimNcharEq (l : DataL) | dDimNcharVal (l : DataL) (bad : Bool)
  | dDimKeyEq (l : DataL) | dDimKeyVal (l : DataL)
  | dFmt (l : DataL) | dFmtDtEq (l : DataL) | dFmtDtVal (l : DataL) (bad : Bool)
  | dFmtMsEq (l : DataL) | dFmtMsVal (l : DataL) (bad : Bool) | dFmtGapEq (l : DataL) | dFmtGapVal (l : DataL) (bad : Bool)
  | dFmtKeyEq (l : DataL) | dFmtKeyVal (l : DataL)
  | dMat (l : DataL) | dMatSeq (l : DataL) (name seq : List Char) | dComment (l : DataL) | dUnsup (l : DataL)
  -- parseUnsupportedBlock
  | uHead | uEndSemi
  deriving Inhabited

/-- why the machine stopped -/
inductive Halt
  | err (msg : String)
  | panic (msg : String)
  | done               -- the main loop of `Parse` left on EOF
  deriving Inhabited

structure St where
  ctl : Ctl := .expectNexus
  acc : Acc := {}
  skipped : Bool := false      -- scanIgnoreWhitespace has already skipped its one WS token
  halt : Option Halt := none
  deriving Inhabited

def St.fail (s : St) (m : String) : St := { s with halt := some (.err m) }
def St.go (s : St) (c : Ctl) : St := { s with ctl := c }

def utf8Len : List Char → Nat
  | [] => 0
  | c :: r => c.utf8Size + utf8Len r

def mapSet (m : List (String × α)) (k : String) (v : α) : List (String × α) :=
  if m.any (·.1 == k) then m.map (fun kv => if kv.1 == k then (k, v) else kv) else m ++ [(k, v)]

def addLabel (l : List String) (k : String) : List String := if l.contains k then l else l ++ [k]

/-- `addseq` -/
def addseq (l : DataL) (seq name : List Char) : DataL :=
  let n := String.ofList name
  match l.seqs.lookup n with
  | none => { l with names := l.names ++ [n], seqs := l.seqs ++ [(n, seq)] }
  | some old => { l with seqs := mapSet l.seqs n (old ++ seq) }

/-- behaviours before the fixes, for the negative theorems -/
structure Pins where
  f3 : Bool := false    -- consumeComment does not return on EOF
  f4 : Bool := false    -- MISSING= / GAP= index the literal unconditionally

/-- `consumeComment` loop body, shared by the five call sites: where to go on `]` -/
def commentStep (pins : Pins) (s : St) (t : Token) (onClose : Ctl) : St :=
  if t.tok = .closebrack then s.go onClose
  else if t.tok = .eof || t.tok = .illegal then
    (if pins.f3 then s else s.fail "Unmatched bracket")     -- pinned: `err` is set but the loop goes on
  else s

/-- `parseUnsupportedCommand` loop body -/
def unsupStep (s : St) (t : Token) (onEnd : Ctl) : St :=
  match t.tok with
  | .illegal => s.fail "found illegal token"
  | .eof => s.fail "End of file within a command (no;)"
  | .endofcommand => s.go onEnd
  | _ => s

/-- `for tok4 != ENDOFCOMMAND { … }` of `case TREE` with the current token.  `acc` is the tree string
    read so far REVERSED (`tree += lit4` is a cons of the reversed literal: linear instead of quadratic) -/
def treeAccum (s : St) (l : TreesL) (name acc : List Char) (t : Token) : St :=
  if t.tok = .endofcommand then
    s.go (.rHead { l with names := l.names ++ [name], strings := l.strings ++ [acc.reverse] })
  else if t.tok ≠ .ident && t.tok ≠ .openbrack && t.tok ≠ .closebrack && t.tok ≠ .comma && t.tok ≠ .equal && t.tok ≠ .numeric then
    s.fail "Expecting a tree after 'TREE name ='"
  else s.go (.rTreeAcc l name (t.lit.reverse ++ acc))

/-- `missing = []rune(lit4)[0]` / `gap = …` with the checks around it -/
def singleChar (pins : Pins) (s : St) (bad : Bool) (t : Token) (set : Char → Ctl) : St :=
  -- bad: tok3 != EQUAL (err set, stopformat); tok4 != IDENT: err set
  let e1 := bad || t.tok ≠ .ident
  if pins.f4 then
    match t.lit with
    | [] => { s with halt := some (.panic "index out of range [0] with length 0") }
    | c :: _ => if e1 || utf8Len t.lit ≠ 1 then s.fail "Expecting a single character" else s.go (set c)
  else if utf8Len t.lit ≠ 1 then s.fail "Expecting a single character"
  else
    match t.lit with
    | [] => { s with halt := some (.panic "index out of range [0] with length 0") }
    | c :: _ => if e1 then s.fail "Expecting '=' / an identifier" else s.go (set c)

/-- what the code does with the token obtained at control point `s.ctl` -/
def step (pins : Pins) (s : St) (t : Token) : St :=
  match s.ctl with
  | .expectNexus => if t.tok ≠ .nexus then s.fail "expected #NEXUS" else s.go .main
  | .main =>
    match t.tok with
    | .illegal => s.fail "found illegal token"
    | .eof => { s with halt := some .done }
    | .endofline => s
    | .openbrack => s.go .mainComment
    | .begin_ => s.go .beginName
    | _ => s
  | .mainComment => commentStep pins s t .mainAfterComment
  | .mainAfterComment => if t.tok = .begin_ then s.go .beginName else s.go .main
  | .beginName => s.go (.beginSemi t.tok)
  | .beginSemi blk =>
    if t.tok ≠ .endofcommand then s.fail "expected ;"
    else match blk with
      | .taxa => s.go (.tHead {})
      | .trees => s.go (.rHead {})
      | .data => s.go (.dHead {})
      | _ => s.go .uHead
  -- ---------------------------------------------------------------- parseTaxa
  | .tHead l =>
    match t.tok with
    | .endofline => s
    | .illegal => s.fail "found illegal token"
    | .eof => s.fail "End of file within a TAXA block (no END;)"
    | .end_ => s.go (.tEndSemi l)
    | .dimensions => s.go (.tDim l)
    | .taxlabels => s.go (.tLabels l)
    | .openbrack => s.go (.tComment l)
    | _ => s.go (.tUnsup l)
  | .tEndSemi l =>
    if t.tok ≠ .endofcommand then s.fail "End token without ;"
    else { s with ctl := .main, acc := { s.acc with taxantax := l.ntax, taxlabels := some l.labels } }
  | .tDim l =>
    match t.tok with
    | .endofcommand => s.go (.tHead l)
    | .ntax => s.go (.tDimNtaxEq l)
    | _ => s.go (.tDimKeyEq l)
  | .tDimNtaxEq l => s.go (.tDimNtaxVal l (t.tok ≠ .equal))
  | .tDimNtaxVal l bad =>
    match parseInt t.lit with
    | none => s.fail "Expecting Integer value after 'NTAX='"
    | some v => if bad || t.tok ≠ .numeric then s.go (.tHead { l with ntax := v }) else s.go (.tDim { l with ntax := v })
  | .tDimKeyEq l => if t.tok ≠ .equal then s.fail "Expecting '=' after key" else s.go (.tDimKeyVal l)
  | .tDimKeyVal l => if t.tok ≠ .ident && t.tok ≠ .numeric then s.fail "Expecting an identifier after key=" else s.go (.tDim l)
  | .tLabels l =>
    match t.tok with
    | .endofline => s
    | .endofcommand => s.go (.tHead l)
    | .ident | .numeric => s.go (.tLabels { l with labels := addLabel l.labels (String.ofList t.lit) })
    | _ => s.fail "Unknown token in taxlabel list"
  | .tComment l => commentStep pins s t (.tHead l)
  | .tUnsup l => unsupStep s t (.tHead l)
  -- ---------------------------------------------------------------- parseTrees
  | .rHead l =>
    match t.tok with
    | .endofline => s
    | .illegal => s.fail "found illegal token"
    | .eof => s.fail "End of file within a TREES block (no END;)"
    | .end_ => s.go (.rEndSemi l)
    | .translate => s.go (.rTr l [])
    | .tree => s.go (.rTreeName l)
    | .openbrack => s.go (.rComment l)
    | _ => s.go (.rUnsup l)
  | .rEndSemi l =>
    if t.tok ≠ .endofcommand then s.fail "End token without ;"
    else
      -- the trees of every TREES block are kept (82a8873): appended to those of the blocks before
      { s with ctl := .main, acc := { s.acc with hasTrees := true, treenames := s.acc.treenames ++ l.names,
                                                  treestrings := s.acc.treestrings ++ l.strings } }
  | .rTr l tbl =>
    match t.tok with
    | .ident | .numeric => s.go (.rTrVal l tbl t.lit)
    | .endofline => s
    | .comma => s
    | .illegal => s.fail "found illegal token"
    | .eof => s.fail "End of file within a TRANSLATE block (no END;)"
    | .endofcommand => { s with ctl := .rHead l, acc := { s.acc with translation := some tbl } }
    | .openbrack => s.go (.rTrComment l tbl)
    | _ => s.fail "Unsupported token in TRANSLATE command"
  | .rTrVal l tbl key =>
    if t.tok ≠ .ident && t.tok ≠ .numeric then s.fail "TRANSLATE block: Expecting value name here"
    else s.go (.rTrSep l tbl key t.lit)
  | .rTrSep l tbl key value =>
    if t.tok ≠ .comma && t.tok ≠ .endofcommand && t.tok ≠ .endofline then s.fail "TRANSLATE block: Expecting , or ; after key value"
    else
      let tbl := mapSet tbl (String.ofList key) (String.ofList value)
      if t.lit = [';'] then { s with ctl := .rHead l, acc := { s.acc with translation := some tbl } }
      else s.go (.rTr l tbl)
  | .rTrComment l tbl => commentStep pins s t (.rTr l tbl)
  | .rTreeName l =>
    if t.tok ≠ .ident && t.tok ≠ .numeric then s.fail "Expecting a tree name after TREE" else s.go (.rTreeEq l t.lit)
  | .rTreeEq l name => if t.tok ≠ .equal then s.fail "Expecting '=' after tree name" else s.go (.rTreeFirst l name)
  | .rTreeFirst l name =>
    if t.tok = .openbrack then s.go (.rTreeComment l name) else treeAccum s l name [] t
  | .rTreeComment l name => commentStep pins s t (.rTreeSkip l name)
  | .rTreeSkip l name =>
    -- scanIgnoreWhitespaceAndEOL: `for tok == WS || tok == ENDOFLINE`
    if t.tok = .ws || t.tok = .endofline then s else treeAccum s l name [] t
  | .rTreeAcc l name acc => treeAccum s l name acc t
  | .rComment l => commentStep pins s t (.rHead l)
  | .rUnsup l => unsupStep s t (.rHead l)
  -- ---------------------------------------------------------------- parseData
  | .dHead l =>
    match t.tok with
    | .endofline => s
    | .illegal => s.fail "found illegal token"
    | .eof => s.fail "End of file within a TAXA block (no END;)"
    | .end_ => s.go (.dEndSemi l)
    | .dimensions => s.go (.dDim l)
    | .format => s.go (.dFmt l)
    | .matrix => s.go (.dMat l)
    | .openbrack => s.go (.dComment l)
    | _ => s.go (.dUnsup l)
  | .dEndSemi l =>
    if t.tok ≠ .endofcommand then s.fail "End token without ;"
    else { s with ctl := .main, acc := { s.acc with hasData := true, names := l.names, seqs := l.seqs, nchar := l.nchar,
                                                      ntax := l.ntax, datatype := l.datatype, missing := l.missing, gap := l.gap } }
  | .dDim l =>
    match t.tok with
    | .endofcommand => s.go (.dHead l)
    | .ntax => s.go (.dDimNtaxEq l)
    | .nchar => s.go (.dDimNcharEq l)
    | _ => s.go (.dDimKeyEq l)
  | .dDimNtaxEq l => s.go (.dDimNtaxVal l (t.tok ≠ .equal))
  | .dDimNtaxVal l bad =>
    match parseInt t.lit with
    | none => s.fail "Expecting Integer value after 'NTAX='"
    | some v => if bad || t.tok ≠ .numeric then s.go (.dHead { l with ntax := v }) else s.go (.dDim { l with ntax := v })
  | .dDimNcharEq l => s.go (.dDimNcharVal l (t.tok ≠ .equal))
  | .dDimNcharVal l bad =>
    match parseInt t.lit with
    | none => s.fail "Expecting Integer value after 'NCHAR='"
    | some v => if bad || t.tok ≠ .numeric then s.go (.dHead { l with nchar := v }) else s.go (.dDim { l with nchar := v })
  | .dDimKeyEq l => if t.tok ≠ .equal then s.fail "Expecting '=' after key" else s.go (.dDimKeyVal l)
  | .dDimKeyVal l => if t.tok ≠ .ident && t.tok ≠ .numeric then s.fail "Expecting an identifier after key=" else s.go (.dDim l)
  | .dFmt l =>
    match t.tok with
    | .endofcommand => s.go (.dHead l)
    | .datatype => s.go (.dFmtDtEq l)
    | .missing => s.go (.dFmtMsEq l)
    | .gap => s.go (.dFmtGapEq l)
    | _ => s.go (.dFmtKeyEq l)
  | .dFmtDtEq l => s.go (.dFmtDtVal l (t.tok ≠ .equal))
  | .dFmtDtVal l bad =>
    if t.tok ≠ .ident then s.fail "Expecting identifier after 'DATATYPE='"
    else if bad then s.fail "Expecting '=' after DATATYPE"
    else s.go (.dFmt { l with datatype := t.lit })
  | .dFmtMsEq l => s.go (.dFmtMsVal l (t.tok ≠ .equal))
  | .dFmtMsVal l bad => singleChar pins s bad t (fun c => .dFmt { l with missing := c })
  | .dFmtGapEq l => s.go (.dFmtGapVal l (t.tok ≠ .equal))
  | .dFmtGapVal l bad => singleChar pins s bad t (fun c => .dFmt { l with gap := c })
  | .dFmtKeyEq l => if t.tok ≠ .equal then s.fail "Expecting '=' after key" else s.go (.dFmtKeyVal l)
  | .dFmtKeyVal l => if t.tok ≠ .ident && t.tok ≠ .numeric then s.fail "Expecting an identifier after key=" else s.go (.dFmt l)
  | .dMat l =>
    match t.tok with
    | .ident => s.go (.dMatSeq l t.lit [])
    | .endofline => s
    | .endofcommand => s.go (.dHead l)
    | _ => s.fail "Expecting sequence identifier in Matrix block"
  | .dMatSeq l name seq =>
    match t.tok with
    | .ident => s.go (.dMatSeq l name (seq ++ t.lit))
    | .endofline => s.go (.dMat (addseq l seq name))
    | _ => s.fail "Expecting sequence after sequence identifier"
  | .dComment l => commentStep pins s t (.dHead l)
  | .dUnsup l => unsupStep s t (.dHead l)
  -- ---------------------------------------------------------------- parseUnsupportedBlock
  | .uHead =>
    match t.tok with
    | .illegal => s.fail "found illegal token"
    | .eof => s.fail "End of file within a block (no END;)"
    | .end_ => s.go .uEndSemi
    | _ => s
  | .uEndSemi => if t.tok ≠ .endofcommand then s.fail "End token without ;" else s.go .main

/-- control points that read with `p.scan()` directly -/
def rawCtl : Ctl → Bool
  | .rTreeSkip _ _ => true
  | _ => false

/-- one token of the scanner reaches the parser (`scanIgnoreWhitespace` skips ONE WS token) -/
def deliver (pins : Pins) (s : St) (t : Token) : St :=
  if s.halt.isSome then s
  else if t.tok = .ws && !rawCtl s.ctl && !s.skipped then { s with skipped := true }
  else step pins { s with skipped := false } t

def eofTok : Token := ⟨.eof, []⟩

/-- at the end of the input the scanner returns EOF for ever: three deliveries are enough
    (theorem `eof_halts`) -/
def atEOF (pins : Pins) (s : St) : St := deliver pins (deliver pins (deliver pins s eofTok) eofTok) eofTok

/-- the token loop of `Parse` -/
def runToks (pins : Pins) (ts : List Token) : St := atEOF pins (ts.foldl (deliver pins) {})

/-- fuel-bounded delivery of EOF, for the divergence theorem of the pinned variant -/
def eofFuel (pins : Pins) : Nat → St → Option Halt
  | 0, _ => none                                    -- out of fuel
  | n + 1, s => match s.halt with
    | some h => some h
    | none => eofFuel pins n (deliver pins s eofTok)

/- ## after the loop -/

/-- one tree of the Nexus structure -/
structure NTree where
  name : String
  tree : T
  nonfinite : Bool

/-- `Tree.Nodes()` names in order, for `NewNodeIndex` -/
def hasDupNonEmpty : List String → Bool
  | [] => false
  | a :: r => (a != "" && r.contains a) || hasDupNonEmpty r

/- `Tree.Rename(namemap)`: every node whose name is a key gets the value -/
mutual
def renameT (m : List (String × String)) : T → T
  | .node d p k => .node { d with name := (m.lookup d.name).getD d.name } p (renameL m k)
def renameL (m : List (String × String)) : Kids → Kids
  | [] => []
  | (e, t) :: r => (e, renameT m t) :: renameL m r
end

/-- the loop over `treestrings` at the end of `Parse`.  `np` is the Newick parser. -/
def buildTrees (np : List Char → Res Newick.Parsed) (a : Acc) :
    List (List Char) → List (List Char) → Nat → Res (List NTree)
  | [], _, _ => .ok []
  | _ :: _, [], _ => .panic "index out of range: treenames[i]"
  | s :: ss, n :: ns, i =>
    match np (s ++ [';']) with
    | .panic m => .panic m
    | .err m => .err m
    | .ok p =>
      -- Rename: NewNodeIndex fails on two nodes with the same non-empty name, UpdateTipIndex on two tips
      let renamed : Res T :=
        match a.translation with
        | none => .ok p.tree
        | some m =>
          if hasDupNonEmpty p.tree.nodeNames then .err "NewNodeIndex error: several nodes with the same name"
          else
            let t := renameT m p.tree
            if hasDup t.tipNames then .err "Cannot create a tip index when several tips have the same name" else .ok t
      match renamed with
      | .panic m => .panic m
      | .err m => .err m
      | .ok t =>
        let chk : Option String :=
          match a.taxlabels with
          | none => none
          | some labels =>
            if t.tipNames.any (fun x => !labels.contains x) then some "Taxa name in the tree is not defined in the TAXLABELS block"
            else none    -- 6a194b0: a tree may bear a subset of the taxa of the TAXA block
        match chk with
        | some m => .err m
        | none =>
          match buildTrees np a ss ns (i + 1) with
          | .ok rest => .ok (⟨String.ofList n, t, p.nonfinite⟩ :: rest)
          | .err m => .err m
          | .panic m => .panic m

/-- the alignment part of the end of `Parse` (goalign: AlphabetFromString, AddSequence, Iterate) -/
def checkAlign (a : Acc) : Option String :=
  if !a.hasData then none else
  let dt := String.ofList (a.datatype.map goLower)
  if !(dt == "dna" || dt == "rna" || dt == "nucleotide" || dt == "protein") then some "Unknown datatype" else
  if (a.names.length : Int) ≠ a.ntax && a.ntax ≠ -1 then some "Number of taxa in alignment does not correspond to definition" else
  let lens := a.names.map fun n => utf8Len ((a.seqs.lookup n).getD [])
  if lens.any (fun l => (l : Int) ≠ a.nchar && a.nchar ≠ -1) then some "Number of character in sequence does not correspond to definition" else
  (match lens with
   | [] => none
   | l0 :: r => if r.any (· ≠ l0) then some "Sequence does not have same length as other sequences" else none) |>.orElse fun _ =>
  match a.taxlabels with
  | none => none
  | some labels =>
    if a.names.any (fun n => !labels.contains n) then some "Sequence name in the alignment is not defined in the TAXLABELS block"
    else if a.names.length ≠ labels.length then some "Some taxa names defined in TAXLABELS are not present in the alignment"
    else none

/-- the end of `Parse`, after the token loop -/
def finalize (np : List Char → Res Newick.Parsed) (a : Acc) : Res (List NTree) :=
  let nlabels : Int := match a.taxlabels with | none => 0 | some l => l.length
  if a.taxantax ≠ -1 && a.taxantax ≠ nlabels then .err "Number of defined taxa in TAXLABELS/DIMENSIONS is different from length of taxa list"
  else if a.gap ≠ '-' || a.missing ≠ '*' then .err "We only accept - gaps && * missing so far"
  else match checkAlign a with
    | some m => .err m
    | none => if a.hasTrees then buildTrees np a a.treestrings a.treenames 0 else .ok []

/-- outcome of the Nexus parser.  `hang` = the machine is not halted after the EOF deliveries
    (impossible for the current code: theorem `nexus_total`). -/
inductive PRes
  | ok (trees : List NTree)
  | err (msg : String)
  | panic (msg : String)
  | hang

def ofState (np : List Char → Res Newick.Parsed) (s : St) : PRes :=
  match s.halt with
  | none => .hang
  | some (.err m) => .err m
  | some (.panic m) => .panic m
  | some .done =>
    match finalize np s.acc with
    | .ok ts => .ok ts
    | .err m => .err m
    | .panic m => .panic m

/-- `nexus.NewParser(r).Parse()` on the decoded input -/
def parseCharsWith (pins : Pins) (np : List Char → Res Newick.Parsed) (cs : List Char) : PRes :=
  ofState np (runToks pins (tokens cs))

def parseChars (cs : List Char) : PRes := parseCharsWith {} Newick.parseChars cs

def parse (b : List UInt8) : PRes := parseChars (decodeLossy b)

end Gotree.C02.Nexus
