import Driver.Proto
import Gotree.Spec.C14

namespace Gotree.Driver.C14
open Gotree Gotree.Driver Gotree.C14

def parseMetric : String → Option Metric
  | "brlen" => some .brlen | "boots" => some .boots | "none" => some .none | _ => none

/-- |a-b| within one rounding of b (a single float64 division on exact operands) -/
def approx (a b : Rat) : Bool := (if a ≥ b then a - b else b - a) * (4503599627370496 : Rat) ≤ (if b ≥ 0 then b else -b)

def canonBags (b : List (List String)) : List (List String) :=
  (b.map sortStrings).mergeSort (fun x y => decide (showStrList x ≤ showStrList y))

def handle (op : String) (f : List String) : Verdict :=
  match op, f with
  | "matrix", [ms, dump, itips, imat] =>
    match parseMetric ms, T.undump dump, parseStrList itips, parseRatMatrix imat with
    | some m, some t, some tips, some mat =>
      let uniq := t.tipNames.eraseDups.length == t.tipNames.length
      let (mt, mm) := matrix m t
      let tags := tagIf uniq "uniq" ++ tagIf (mat.any (·.any (· != 0))) "nontrivial" ++ tagIf t.rooted "rooted" ++
        tagIf (t.kids.length == 1) "roottip"
      if !uniq then ⟨.pass, "skip-dupnames" :: tags, ""⟩
      else if !(matrixOK m t tips mat) then ⟨.oracle, tags, "matrix differs from path sums"⟩
      else if mt != tips || mm != mat then ⟨.tie, tags, "model matrix " ++ showRatMatrix mm⟩
      else ⟨.pass, tags, ""⟩
    | _, _, _, _ => bad "C14.matrix fields"
  | "avg", [ms, dumps, res, itips, imat] =>
    match parseMetric ms, (splitTerm "|" dumps).mapM T.undump, parseStrList itips, parseRatMatrix imat with
    | some m, some ts, some tips, some mat =>
      let sameTaxa := match ts with
        | [] => true
        | t :: r => r.all fun u => sortNames u.tipNames == sortNames t.tipNames
      let tags := tagIf sameTaxa "sametaxa" ++ tagIf (ts.length ≥ 2) "nontrivial"
      -- oracle: entrywise mean of the specs
      let expect : Option (List String × List (List Rat)) :=
        match ts with
        | [] => some ([], [])
        | t :: _ =>
          if !sameTaxa then none else
          let names := sortNames t.tipNames
          some (names, names.map fun a => names.map fun b =>
            (ts.map fun u => if a == b then 0 else pathSum m u a b).sum / ((ts.length : Nat) : Rat))
      let eqM (x y : List (List Rat)) : Bool :=
        x.length == y.length && (List.zipWith (fun r s => r.length == s.length && (List.zipWith approx r s).all id) x y).all id
      match expect, res with
      | none, "err" =>
        (match avgMatrix m ts with
         | none => ⟨.pass, "rejected" :: tags, ""⟩
         | some _ => ⟨.tie, tags, "model accepts differing taxa"⟩)
      | none, _ => ⟨.oracle, tags, "differing taxa not rejected"⟩
      | some _, "err" => ⟨.oracle, tags, "same taxa rejected"⟩
      | some (en, em), _ =>
        if en != tips || !(eqM mat em) then ⟨.oracle, tags, "average differs from the entrywise mean"⟩ else
        match avgMatrix m ts with
        | some (mn, mm) => if mn == tips && eqM mat mm then ⟨.pass, tags, ""⟩ else ⟨.tie, tags, "model avg " ++ showRatMatrix mm⟩
        | none => ⟨.tie, tags, "model rejects"⟩
    | _, _, _, _ => bad "C14.avg fields"
  | "cut", [thrs, dump, res, ibags] =>
    match parseRat? thrs, T.undump dump, parseStrLists ibags with
    | some thr, some t, some bags =>
      let uniq := t.tipNames.eraseDups.length == t.tipNames.length
      let tags := tagIf uniq "uniq" ++ tagIf (bags.length ≥ 2) "nontrivial" ++
        tagIf (t.edges.any (·.len == thr)) "tie-threshold" ++ tagIf t.rooted "rooted"
      if !uniq then ⟨.pass, "skip-dupnames" :: tags, ""⟩
      else if res != "ok" then ⟨.oracle, tags, "cut failed on a tree with unique tips"⟩
      else if !(cutOK thr t bags) then ⟨.oracle, tags, "bags are not the components of short branches"⟩
      else if canonBags (cut thr t) != canonBags bags then ⟨.tie, tags, "model bags " ++ showStrLists (cut thr t)⟩
      else ⟨.pass, tags, ""⟩
    | _, _, _ => bad "C14.cut fields"
  | _, _ => bad ("C14: unknown op " ++ op)

end Gotree.Driver.C14
