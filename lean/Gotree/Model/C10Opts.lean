/-
  C10 — `support.TBE` with its three output options (`computeavgtaxa` = --moved-taxa,
  `computeperbranchtaxa` = --per-branches, `outrawtree` = --out-raw): the outcome.

  Since 833ceab (F96) the block that closes every bootstrap tree (tbe.go:276-283) runs under
  `if computeavgtaxa`, like the allocation of `movedspecies` / `movedspeciestmp` (tbe.go:176): the
  options decide what is logged, never the supports (`tbeOpts`).  Before, it ran under
  `if computeavgtaxa || computeperbranchtaxa` and wrote `movedspeciestmp[t.TipIndex()] = 0` for every
  tip: with --per-branches alone the first accepted bootstrap tree ended in an index panic
  (`tbeOptsPinned`; found in round 7 by the option-combination cases C10.logx).
  Core Lean only.
-/
import Gotree.Model.C10

namespace Gotree.C10
open Gotree

/-- `refTree.ReinitIndexes()` then `support.TBE(reftree, trees, cpu, raw, avg, perBranch, …)` -/
def tbeOpts (_avg _perBranch : Bool) (r : T) (bs : List T) : Out (List Rat) := tbe r bs

/-- before 833ceab -/
def tbeOptsPinned (avg perBranch : Bool) (r : T) (bs : List T) : Out (List Rat) :=
  if perBranch && !avg then
    if !reinitOk r then .err else
    match bs with
    | [] => tbe r []
    | b :: _ =>
      if !reinitOk b then .err
      else if !compareTips r b then .err
      else .panic      -- `sumNbClosestBranches[e.Id()]` (idPanic) or, at the latest, tbe.go:281
  else tbe r bs

/- ## where the two commands write (cmd/computesupport.go PersistentPreRunE, classical.go, booster.go) -/

/-- `supportOutFile != "stdout" && supportOutFile != "-"` → a file is created, else `os.Stdout`;
    `sel` = default | - | stdout | file (what was given to `-o` / `-r`; `none` = `-r` not given) -/
def toStdout (sel : String) : Bool := sel == "default" || sel == "stdout" || sel == "-"

/-- the trees on the standard output, in order: `booster` writes the raw tree (when `-r` was given)
    BEFORE the annotated reference (booster.go:91-94); `classical` has no raw tree -/
def stdoutItems (tbeCmd : Bool) (outSel rawSel : String) : List String :=
  (if tbeCmd && rawSel != "none" && toStdout rawSel then ["raw"] else []) ++
  (if toStdout outSel then ["sup"] else [])

def outFileItems (outSel : String) : List String := if toStdout outSel then [] else ["sup"]

def rawFileItems (tbeCmd : Bool) (rawSel : String) : List String :=
  if tbeCmd && rawSel != "none" && !toStdout rawSel then ["raw"] else []

/-- `writeLogClassical` / `writeLogBooster` and the closing line: the first six lines of the log and
    its last one (the two lines that carry the clock are given by their prefix); `cpus` is `-t` as
    it was given (the clamp to one thread happens inside FBP / TBE) -/
def logHeaderOK (tbeCmd : Bool) (intree boots outArg : String) (cpus : Int) (lines : List String) : Bool :=
  match lines with
  | [l0, l1, l2, l3, l4, l5, last] =>
    l0 == (if tbeCmd then "BOOSTER Support" else "Classical Support") &&
    l1.startsWith (if tbeCmd then "Date        : " else "Start       : ") &&
    l2 == "Input tree  : " ++ intree && l3 == "Boot trees  : " ++ boots &&
    l4 == "Output tree : " ++ outArg && l5 == "CPUs        : " ++ toString cpus &&
    last.startsWith "End         : "
  | _ => false

/-- what lies between the head and the closing line of the log: nothing in a `-l` file (no table was asked
    for); on the standard error, `TBE`'s progress messages `CPU : %02d - Bootstrap tree %d\r` (tbe.go:219, one
    per bootstrap tree, `cpu` after the clamp to one thread, the ids the reader gave: 0, 1, …); `FBP` has none.
    (`--silent` is declared in cmd/computesupport.go but read nowhere: it changes nothing.) -/
def progressLines (tbeCmd : Bool) (logSel : String) (cpus : Int) (n : Nat) : List String :=
  if tbeCmd && logSel == "stderr" then
    let c := atLeastOne cpus
    (List.range n).map fun i => "CPU : " ++ (if c < 10 then "0" else "") ++ toString c ++ " - Bootstrap tree " ++ toString i
  else []

end Gotree.C10
