/-
  C13 — the label state of the Nexus writer's loop (`addTips`, `stepState`, `stateLoop`):
  keys of the map = labels of the slice (up to order), without repetition, = the tips seen so far.
-/
import Gotree.Lemmas.C13Nex

namespace Gotree.C13
open Gotree

def keys (s : WState) : List String := s.map.map (·.1)

theorem lookup_none_iff (m : List (String × String)) (k : String) : lookup m k = none ↔ k ∉ m.map (·.1) := by
  induction m with
  | nil => simp [lookup]
  | cons x r ih =>
    obtain ⟨a, b⟩ := x
    simp only [lookup, List.map_cons, List.mem_cons, not_or]
    by_cases h : a = k
    · simp [h]
    · have : (a == k) = false := by simpa using h
      simp only [this, Bool.false_eq_true, if_false, ih]
      exact ⟨fun h' => ⟨fun e => h e.symm, h'⟩, fun h' => h'.2⟩

theorem hasDup_false_iff (l : List String) : hasDup l = false ↔ l.Nodup := by
  induction l with
  | nil => simp [hasDup]
  | cons a r ih =>
    simp only [hasDup, Bool.or_eq_false_iff, List.nodup_cons, ih]
    simp

theorem insertS_perm (a : String) (l : List String) : (insertS a l).Perm (a :: l) := by
  induction l with
  | nil => exact List.Perm.refl _
  | cons b r ih =>
    simp only [insertS]
    split
    · exact List.Perm.refl _
    · exact (List.Perm.cons b ih).trans (List.Perm.swap a b r)

theorem sortStr_perm (l : List String) : (sortStr l).Perm l := by
  induction l with
  | nil => exact List.Perm.refl _
  | cons a r ih => exact (insertS_perm a (sortStr r)).trans (List.Perm.cons a ih)

/-- the invariant of the writer's label state -/
structure Inv (s : WState) : Prop where
  perm : s.slice.Perm (keys s)
  nodup : (keys s).Nodup

theorem inv_empty : Inv {} := ⟨List.Perm.refl _, List.nodup_nil⟩

theorem addTips_spec (tips : List String) (s : WState) (h : Inv s) :
    Inv (addTips tips s) ∧ (∀ x, x ∈ keys (addTips tips s) ↔ x ∈ keys s ∨ x ∈ tips) := by
  induction tips generalizing s with
  | nil => exact ⟨h, by simp [addTips]⟩
  | cons tip r ih =>
    simp only [addTips]
    split
    · rename_i v hl
      have hin : tip ∈ keys s := by
        apply Decidable.byContradiction
        intro hc
        have := (lookup_none_iff s.map tip).2 hc
        rw [this] at hl; cases hl
      obtain ⟨h1, h2⟩ := ih s h
      refine ⟨h1, fun x => ?_⟩
      rw [h2 x]
      simp only [List.mem_cons]
      constructor
      · rintro (hx | hx)
        · exact Or.inl hx
        · exact Or.inr (Or.inr hx)
      · rintro (hx | hx | hx)
        · exact Or.inl hx
        · exact Or.inl (hx ▸ hin)
        · exact Or.inr hx
    · rename_i hl
      have hnin : tip ∉ keys s := (lookup_none_iff s.map tip).1 hl
      have hinv : Inv { map := s.map ++ [(tip, toString s.nb)], slice := s.slice ++ [tip], nb := s.nb + 1 } := by
        refine ⟨?_, ?_⟩
        · simp only [keys, List.map_append, List.map_cons, List.map_nil]
          exact List.Perm.append_right _ h.perm
        · simp only [keys, List.map_append, List.map_cons, List.map_nil]
          rw [List.nodup_append]
          refine ⟨h.nodup, by simp, ?_⟩
          intro a ha b hb
          simp at hb
          rintro rfl
          exact hnin (hb ▸ ha)
      obtain ⟨h1, h2⟩ := ih _ hinv
      refine ⟨h1, fun x => ?_⟩
      rw [h2 x]
      simp only [keys, List.map_append, List.map_cons, List.map_nil, List.mem_append, List.mem_cons,
        List.not_mem_nil, or_false]
      constructor
      · rintro ((hx | hx) | hx)
        · exact Or.inl hx
        · exact Or.inr (Or.inl hx)
        · exact Or.inr (Or.inr hx)
      · rintro (hx | hx | hx)
        · exact Or.inl (Or.inl hx)
        · exact Or.inl (Or.inr hx)
        · exact Or.inr hx

theorem stepState_spec (s : WState) (t : T) (h : Inv s) :
    Inv (stepState s t) ∧ (∀ x, x ∈ keys (stepState s t) ↔ x ∈ keys s ∨ x ∈ t.tipNames) := by
  obtain ⟨h1, h2⟩ := addTips_spec t.tipNames s h
  refine ⟨⟨?_, ?_⟩, ?_⟩
  · simp only [stepState, keys]
    exact (sortStr_perm _).trans h1.perm
  · simpa [stepState, keys] using h1.nodup
  · simpa [stepState, keys] using h2

theorem stateLoop_spec (its : List (Nat × T)) (s : WState) (h : Inv s) :
    Inv (stateLoop its s) ∧
      (∀ x, x ∈ keys (stateLoop its s) ↔ x ∈ keys s ∨ ∃ it ∈ its, x ∈ it.2.tipNames) := by
  induction its generalizing s with
  | nil => exact ⟨h, by simp [stateLoop]⟩
  | cons it r ih =>
    obtain ⟨h1, h2⟩ := stepState_spec s it.2 h
    obtain ⟨h3, h4⟩ := ih _ h1
    refine ⟨h3, fun x => ?_⟩
    simp only [stateLoop]
    rw [h4 x, h2 x]
    simp only [List.mem_cons, exists_eq_or_imp]
    constructor
    · rintro ((hx | hx) | hx)
      · exact Or.inl hx
      · exact Or.inr (Or.inl hx)
      · exact Or.inr (Or.inr hx)
    · rintro (hx | hx | hx)
      · exact Or.inl (Or.inl hx)
      · exact Or.inl (Or.inr hx)
      · exact Or.inr hx

theorem mem_enumFrom (i : Nat) (l : List T) : ∀ x, (∃ it ∈ enumFrom i l, x ∈ it.2.tipNames) ↔ ∃ t ∈ l, x ∈ t.tipNames := by
  induction l generalizing i with
  | nil => intro x; simp [enumFrom]
  | cons t r ih =>
    intro x
    simp only [enumFrom, List.mem_cons, exists_eq_or_imp, ih (i + 1) x]

theorem sameTaxa_perm (ts : List T) (h : sameTaxa ts = true) (t u : T) (ht : t ∈ ts) (hu : u ∈ ts) :
    t.tipNames.Perm u.tipNames := by
  cases ts with
  | nil => simp at ht
  | cons t0 r =>
    simp only [sameTaxa, List.all_eq_true, beq_iff_eq] at h
    have key : ∀ v ∈ t0 :: r, v.tipNames.Perm t0.tipNames := by
      intro v hv
      rcases List.mem_cons.1 hv with h1 | h1
      · rw [h1]
      · have := h v h1
        exact (sortStr_perm v.tipNames).symm.trans (this ▸ sortStr_perm t0.tipNames)
    exact (key t ht).trans (key u hu).symm

/-- the state-level hypotheses of `parse_plain`, from conditions on the trees -/
theorem nexusState_ok (ts : List T)
    (htips : ∀ t ∈ ts, t.tipNames.all labelOK = true ∧ hasDup t.tipNames = false ∧ t.tipNames.length ≤ 9223372036854775807)
    (hst : sameTaxa ts = true) :
    let s := stateLoop (enumFrom 0 ts) {}
    s.map.length ≤ 9223372036854775807 ∧ s.map.length = s.slice.length ∧ (∀ l ∈ s.slice, labelOK l = true) ∧
      hasDup s.slice = false ∧ ∀ t ∈ ts, okTaxa s.slice t = true := by
  intro s
  obtain ⟨hinv, hkeys⟩ := stateLoop_spec (enumFrom 0 ts) {} inv_empty
  have hk : ∀ x, x ∈ keys s ↔ ∃ t ∈ ts, x ∈ t.tipNames := by
    intro x
    rw [hkeys x, mem_enumFrom 0 ts x]
    simp [keys]
  have hlen : s.map.length = s.slice.length := by
    have := hinv.perm.length_eq
    simp only [keys, List.length_map] at this
    exact this.symm
  have hperm : ∀ t ∈ ts, (keys s).Perm t.tipNames := by
    intro t ht
    apply (List.perm_ext_iff_of_nodup hinv.nodup ((hasDup_false_iff _).1 (htips t ht).2.1)).2
    intro x
    rw [hk x]
    constructor
    · rintro ⟨u, hu, hx⟩
      exact ((sameTaxa_perm ts hst u t hu ht).mem_iff).1 hx
    · intro hx; exact ⟨t, ht, hx⟩
  refine ⟨?_, hlen, ?_, ?_, ?_⟩
  · cases ts with
    | nil => simp [s, stateLoop, enumFrom]
    | cons t0 r =>
      have := (hperm t0 (by simp)).length_eq
      simp only [keys, List.length_map] at this
      rw [this]
      exact (htips t0 (by simp)).2.2
  · intro l hl
    have := (hinv.perm.mem_iff).1 hl
    obtain ⟨t, ht, hx⟩ := (hk l).1 this
    have := (htips t ht).1
    rw [List.all_eq_true] at this
    exact this l hx
  · exact (hasDup_false_iff _).2 ((hinv.perm.nodup_iff).2 hinv.nodup)
  · intro t ht
    have hp := hinv.perm.trans (hperm t ht)
    simp only [okTaxa, List.all_eq_true]
    intro x hx
    simpa using (hp.mem_iff).2 hx

end Gotree.C13
