package c03

import (
	"errors"
	"fmt"
	"math"
	"math/rand"
	"strconv"
	"strings"

	"verifharness/core"

	"github.com/evolbioinfo/gotree/tree"
)

// badRequest = the request itself is not executable (harness bug / corrupt replay),
// as opposed to an error reported by the code under test.
type badRequest struct{ msg string }

func (b badRequest) Error() string { return b.msg }

func bad(f string, a ...interface{}) error { return badRequest{fmt.Sprintf(f, a...)} }

func parsePath(s string) ([]int, error) {
	if s == "" {
		return nil, nil
	}
	var out []int
	for _, x := range strings.Split(s, ".") {
		v, err := strconv.Atoi(x)
		if err != nil {
			return nil, err
		}
		out = append(out, v)
	}
	return out, nil
}

func parseStrList(s string) ([]string, error) {
	var out []string
	for _, x := range strings.Split(s, ",") {
		out = append(out, x)
	}
	out = out[:len(out)-1] // each item is followed by ","
	for i, x := range out {
		u, err := core.Unescape(x)
		if err != nil {
			return nil, err
		}
		out[i] = u
	}
	return out, nil
}

func flag(s string) bool { return s == "1" }

func b2s(b bool) string {
	if b {
		return "1"
	}
	return "0"
}

func buildSecond(dump string) (*tree.Tree, error) {
	n, err := core.ParseDump(dump)
	if err != nil {
		return nil, bad("second tree: %v", err)
	}
	t2, err := core.Build(n)
	if err != nil {
		return nil, bad("second tree: %v", err)
	}
	core.Safe(func() { t2.ReinitIndexes() })
	return t2, nil
}

func opKind(op string) string { return strings.SplitN(op, ":", 2)[0] }

// edits after which an applied rearrangement may still be undone (they change neither the
// nodes nor the adjacency): order of neighbours, root position, names, indexes
var _ = keepsPending
var keepsPending = map[string]bool{"sorttips": true, "rotate": true, "reroot": true, "rerootfirst": true, "reinit": true,
	"rename": true, "renameauto": true, "renameregex": true, "addquotes": true, "rmquotes": true, "shuffle": true}

// of those, the ones that also keep the names (so that the split set can be compared)
var keepsNames = map[string]bool{"sorttips": true, "rotate": true, "reroot": true, "rerootfirst": true, "reinit": true}

// applyOp of a history: NNI Apply and NNI Undo are SEPARATE steps; the Rearrangement object
// lives in the history between them.
func (h *history) applyOp(t *tree.Tree, op string) (*tree.Tree, error) {
	f := strings.Split(op, ":")
	switch f[0] {
	case "nniapply":
		if len(f) != 2 {
			return nil, bad("nniapply wants 1 argument")
		}
		k, err := strconv.Atoi(f[1])
		if err != nil {
			return nil, bad("index")
		}
		h.pending = nil
		r := &tree.NNIRearranger{}
		var all []tree.Rearrangement
		r.Rearrange(t, func(x tree.Rearrangement) bool { all = append(all, x); return true })
		if len(all) == 0 {
			return t, nil
		}
		x := all[k%len(all)]
		pre := h.cur.Dump()
		if err := x.Apply(); err != nil {
			return t, err
		}
		h.pending, h.pendingPre, h.pendingClean, h.pendingFresh = x, pre, true, true
		return t, nil
	case "nniundo":
		if h.pending == nil {
			return t, nil
		}
		x := h.pending
		h.pending = nil
		return t, x.Undo()
	}
	res, err := applyOp(t, op)
	if h.pending != nil {
		h.pendingFresh = false
		if res != t {
			h.pending = nil // the history goes on with another tree object (clone, subtree)
		} else if !keepsNames[f[0]] {
			h.pendingClean = false // anything may have happened to n1, n2 and their neighbours: Undo succeeds or refuses
		}
	}
	return res, err
}

// applyOp runs ONE public editing operation of the real library.
func applyOp(t *tree.Tree, op string) (*tree.Tree, error) {
	f := strings.Split(op, ":")
	need := func(n int) error {
		if len(f) != n+1 {
			return bad("op %q wants %d arguments", f[0], n)
		}
		return nil
	}
	switch f[0] {
	case "reroot":
		if err := need(1); err != nil {
			return nil, err
		}
		p, err := parsePath(f[1])
		if err != nil {
			return nil, bad("path")
		}
		n, _, err := core.NodeAt(t, p)
		if err != nil {
			return nil, bad("path out of range")
		}
		return t, t.Reroot(n)
	case "rerootfirst":
		return t, t.RerootFirst()
	case "outgroup":
		if err := need(3); err != nil {
			return nil, err
		}
		names, err := parseStrList(f[3])
		if err != nil {
			return nil, bad("names")
		}
		return t, t.RerootOutGroup(flag(f[1]), flag(f[2]), names...)
	case "midpoint":
		return t, t.RerootMidPoint()
	case "unroot":
		t.UnRoot()
		return t, nil
	case "prune":
		if err := need(2); err != nil {
			return nil, err
		}
		names, err := parseStrList(f[2])
		if err != nil {
			return nil, bad("names")
		}
		return t, t.RemoveTips(flag(f[1]), names...)
	case "collapselen":
		if err := need(3); err != nil {
			return nil, err
		}
		thr, err := core.ParseRat(f[1])
		if err != nil {
			return nil, bad("threshold")
		}
		t.CollapseShortBranches(thr, flag(f[2]), flag(f[3]))
		return t, nil
	case "collapsesup":
		if err := need(2); err != nil {
			return nil, err
		}
		thr, err := core.ParseRat(f[1])
		if err != nil {
			return nil, bad("threshold")
		}
		t.CollapseLowSupport(thr, flag(f[2]))
		return t, nil
	case "collapsedepth":
		if err := need(4); err != nil {
			return nil, err
		}
		lo, e1 := strconv.Atoi(f[1])
		hi, e2 := strconv.Atoi(f[2])
		if e1 != nil || e2 != nil {
			return nil, bad("depths")
		}
		return t, t.CollapseTopoDepth(lo, hi, flag(f[3]), flag(f[4]))
	case "removeedges":
		if err := need(3); err != nil {
			return nil, err
		}
		var es []*tree.Edge
		for _, ps := range strings.Split(f[3], ",") {
			if ps == "" {
				continue
			}
			p, err := parsePath(ps)
			if err != nil || len(p) == 0 {
				return nil, bad("edge path")
			}
			_, e, err := core.NodeAt(t, p)
			if err != nil {
				return nil, bad("edge path out of range")
			}
			es = append(es, e)
		}
		t.RemoveEdges(flag(f[1]), flag(f[2]), es...)
		return t, nil
	case "resolve", "rotate", "shuffle":
		if err := need(1); err != nil {
			return nil, err
		}
		seed, err := strconv.ParseInt(f[1], 10, 64)
		if err != nil {
			return nil, bad("seed")
		}
		rand.Seed(seed)
		switch f[0] {
		case "resolve":
			t.Resolve()
		case "rotate":
			t.RotateInternalNodes()
		default:
			t.ShuffleTips()
		}
		return t, nil
	case "sorttips":
		t.SortNeighborsByTips()
		return t, nil
	case "grafttree":
		if err := need(2); err != nil {
			return nil, err
		}
		name, err := core.Unescape(f[1])
		if err != nil {
			return nil, bad("name")
		}
		t2, err := buildSecond(f[2])
		if err != nil {
			return nil, err
		}
		return t, t.GraftTreeOnTip(name, t2)
	case "graftedge":
		if err := need(2); err != nil {
			return nil, err
		}
		name, err := core.Unescape(f[1])
		if err != nil {
			return nil, bad("name")
		}
		p, err := parsePath(f[2])
		if err != nil || len(p) == 0 {
			return nil, bad("edge path")
		}
		_, e, err := core.NodeAt(t, p)
		if err != nil {
			return nil, bad("edge path out of range")
		}
		n := t.NewNode()
		n.SetName(name)
		_, _, _, err = t.GraftTipOnEdge(n, e)
		return t, err
	case "merge":
		if err := need(1); err != nil {
			return nil, err
		}
		t2, err := buildSecond(f[1])
		if err != nil {
			return nil, err
		}
		return t, t.Merge(t2)
	case "identical":
		if err := need(1); err != nil {
			return nil, err
		}
		var groups [][]string
		for _, gs := range strings.Split(f[1], "+") {
			if gs == "" {
				continue
			}
			g, err := parseStrList(gs)
			if err != nil {
				return nil, bad("group")
			}
			groups = append(groups, g)
		}
		return t, t.InsertIdenticalTips(groups)
	case "removesingle":
		t.RemoveSingleNodes()
		return t, nil
	case "nni":
		if err := need(2); err != nil {
			return nil, err
		}
		k, err := strconv.Atoi(f[1])
		if err != nil {
			return nil, bad("index")
		}
		r := &tree.NNIRearranger{}
		count := 0
		r.Rearrange(t, func(tree.Rearrangement) bool { count++; return true })
		if count == 0 {
			return t, nil
		}
		k = k % count
		i := 0
		var aerr error
		r.Rearrange(t, func(x tree.Rearrangement) bool {
			if i == k {
				aerr = x.Apply()
				if aerr == nil && flag(f[2]) {
					aerr = x.Undo()
				}
				return false
			}
			i++
			return true
		})
		return t, aerr
	case "rename":
		if err := need(2); err != nil {
			return nil, err
		}
		olds, e1 := parseStrList(f[1])
		news, e2 := parseStrList(f[2])
		if e1 != nil || e2 != nil || len(olds) != len(news) {
			return nil, bad("name map")
		}
		m := map[string]string{}
		for i := range olds {
			m[olds[i]] = news[i]
		}
		return t, t.Rename(m)
	case "renameauto":
		if err := need(3); err != nil {
			return nil, err
		}
		l, err := strconv.Atoi(f[3])
		if err != nil {
			return nil, bad("length")
		}
		cur := 1
		return t, t.RenameAuto(flag(f[1]), flag(f[2]), l, &cur, map[string]string{})
	case "renameregex":
		if err := need(4); err != nil {
			return nil, err
		}
		re, e1 := core.Unescape(f[3])
		rp, e2 := core.Unescape(f[4])
		if e1 != nil || e2 != nil {
			return nil, bad("regex")
		}
		return t, t.RenameRegexp(flag(f[1]), flag(f[2]), re, rp, map[string]string{})
	case "addquotes":
		if err := need(2); err != nil {
			return nil, err
		}
		return t, t.AddQuotes(flag(f[1]), flag(f[2]), map[string]string{})
	case "rmquotes":
		if err := need(2); err != nil {
			return nil, err
		}
		return t, t.RemoveQuotes(flag(f[1]), flag(f[2]), map[string]string{})
	case "clone":
		c := t.Clone()
		if c == nil {
			return nil, errors.New("nil clone")
		}
		return c, nil
	case "subtree":
		if err := need(1); err != nil {
			return nil, err
		}
		p, err := parsePath(f[1])
		if err != nil {
			return nil, bad("path")
		}
		n, _, err := core.NodeAt(t, p)
		if err != nil {
			return nil, bad("path out of range")
		}
		s := t.SubTree(n)
		if s == nil {
			return nil, errors.New("nil subtree")
		}
		return s, nil
	case "reinit":
		return t, t.ReinitIndexes()
	case "reinitinternal":
		t.ReinitInternalIndexes()
		return t, nil
	case "cutedges":
		if err := need(1); err != nil {
			return nil, err
		}
		x, err := core.ParseRat(f[1])
		if err != nil {
			return nil, bad("length")
		}
		_, err = t.CutEdgesMaxLength(x) // returns bags of tips; writes branch ids, must leave the tree alone
		return t, err
	case "addbip":
		// AddBipartition(n, some of n's branches given by their SLOT in n.Edges(), length, support)
		if err := need(4); err != nil {
			return nil, err
		}
		p, e1 := parsePath(f[1])
		l, e2 := core.ParseRat(f[3])
		sp, e3 := core.ParseRat(f[4])
		if e1 != nil || e2 != nil || e3 != nil {
			return nil, bad("addbip")
		}
		n, _, err := core.NodeAt(t, p)
		if err != nil {
			return nil, bad("path out of range")
		}
		var es []*tree.Edge
		for _, x := range strings.Split(f[2], ",") {
			if x == "" {
				continue
			}
			i, err := strconv.Atoi(x)
			if err != nil || i < 0 || i >= len(n.Edges()) {
				return nil, bad("slot")
			}
			es = append(es, n.Edges()[i])
		}
		_, err = t.AddBipartition(n, es, l, sp)
		return t, err
	case "updatetipindex":
		return t, t.UpdateTipIndex()
	case "identicalone":
		if err := need(2); err != nil {
			return nil, err
		}
		old, e1 := core.Unescape(f[1])
		nw, e2 := core.Unescape(f[2])
		if e1 != nil || e2 != nil {
			return nil, bad("names")
		}
		var nd *tree.Node
		for _, x := range t.Tips() {
			if x.Name() == old {
				nd = x
				break
			}
		}
		if nd == nil {
			return nil, bad("no such tip")
		}
		_, err := t.InsertIdenticalTip(nd, nw)
		return t, err
	case "collapseclade":
		if err := need(3); err != nil {
			return nil, err
		}
		name, e1 := core.Unescape(f[2])
		names, e2 := parseStrList(f[3])
		if e1 != nil || e2 != nil {
			return nil, bad("names")
		}
		_, err := t.CollapseClade(flag(f[1]), name, names...)
		return t, err
	case "resolvenamed":
		t.ResolveNamedInternalNodes()
		return t, nil
	case "rotateone":
		if err := need(2); err != nil {
			return nil, err
		}
		p, e1 := parsePath(f[1])
		seed, e2 := strconv.ParseInt(f[2], 10, 64)
		if e1 != nil || e2 != nil {
			return nil, bad("rotateone")
		}
		n, _, err := core.NodeAt(t, p)
		if err != nil {
			return nil, bad("path out of range")
		}
		rand.Seed(seed)
		n.RotateNeighbors()
		return t, nil
	case "clearlengths":
		if err := need(2); err != nil {
			return nil, err
		}
		t.ClearLengths(flag(f[1]), flag(f[2]))
		return t, nil
	case "clearsupports":
		t.ClearSupports()
		return t, nil
	case "clearcomments":
		t.ClearComments()
		return t, nil
	case "annotate":
		if err := need(2); err != nil {
			return nil, err
		}
		var lines [][]string
		for _, ls := range strings.Split(f[2], "+") {
			if ls == "" {
				continue
			}
			l, err := parseStrList(ls)
			if err != nil {
				return nil, bad("line")
			}
			lines = append(lines, l)
		}
		return t, t.Annotate(lines, flag(f[1]))
	case "addlength":
		if err := need(3); err != nil {
			return nil, err
		}
		x, err := core.ParseRat(f[1])
		if err != nil {
			return nil, bad("length")
		}
		t.AddLength(x, flag(f[2]), flag(f[3]))
		return t, nil
	case "clearpvalues":
		t.ClearPvalues()
		return t, nil
	case "clearnodecomments":
		t.ClearNodeComments()
		return t, nil
	case "clearedgecomments":
		t.ClearEdgeComments()
		return t, nil
	case "cleartermedgecomments":
		t.ClearTerminalEdgeComments()
		return t, nil
	case "scalesupports":
		if err := need(1); err != nil {
			return nil, err
		}
		x, err := core.ParseRat(f[1])
		if err != nil {
			return nil, bad("factor")
		}
		t.ScaleSupports(x)
		return t, nil
	case "roundsupports":
		if err := need(1); err != nil {
			return nil, err
		}
		pr, err := strconv.Atoi(f[1])
		if err != nil {
			return nil, bad("precision")
		}
		t.RoundSupports(pr)
		return t, nil
	case "scalelengths", "roundlengths":
		if err := need(3); err != nil {
			return nil, err
		}
		if f[0] == "scalelengths" {
			x, err := core.ParseRat(f[1])
			if err != nil {
				return nil, bad("factor")
			}
			t.ScaleLengths(x, flag(f[2]), flag(f[3]))
		} else {
			pr, err := strconv.Atoi(f[1])
			if err != nil {
				return nil, bad("precision")
			}
			t.RoundLengths(pr, flag(f[2]), flag(f[3]))
		}
		return t, nil
	}
	return nil, bad("unknown op %q", f[0])
}

// drawsFor replays the seed of a randomised operation with the draw protocol of the model
// (DESIGN §4.2): rotate — every node in pre-order calls Intn(1)..Intn(len(neigh)); resolve —
// post-order, a node with more than 3 neighbours calls Perm(l) = Intn(1)..Intn(l), l = number
// of its non-parent neighbours.
func drawsFor(op string, before *core.N) string {
	f := strings.Split(op, ":")
	if len(f) == 3 && f[0] == "rotateone" {
		// Node.RotateNeighbors on the node at the path: Intn(1) … Intn(number of its neighbours)
		p, e1 := parsePath(f[1])
		seed, e2 := strconv.ParseInt(f[2], 10, 64)
		if e1 != nil || e2 != nil {
			return ""
		}
		x := before
		for _, i := range p {
			if i < 0 || i >= len(x.Kids) {
				return ""
			}
			x = x.Kids[i]
		}
		nn := len(x.Kids)
		if len(p) > 0 {
			nn++
		}
		rand.Seed(seed)
		var out []int
		for i := 0; i < nn; i++ {
			out = append(out, rand.Intn(i+1))
		}
		return "draws=" + core.IntList(out)
	}
	if len(f) != 2 || (f[0] != "rotate" && f[0] != "resolve" && f[0] != "shuffle") {
		return ""
	}
	seed, err := strconv.ParseInt(f[1], 10, 64)
	if err != nil {
		return ""
	}
	rand.Seed(seed)
	var out []int
	if f[0] == "shuffle" {
		// rand.Perm(number of tips) = Intn(1) … Intn(n)
		for i := range before.TipNames() {
			out = append(out, rand.Intn(i+1))
		}
		return "draws=" + core.IntList(out)
	}
	var rec func(x *core.N, isRoot bool)
	rec = func(x *core.N, isRoot bool) {
		nn := len(x.Kids)
		if !isRoot {
			nn++
		}
		if f[0] == "rotate" {
			for i := 0; i < nn; i++ {
				out = append(out, rand.Intn(i+1))
			}
		}
		for _, k := range x.Kids {
			rec(k, false)
		}
		if f[0] == "resolve" && nn > 3 {
			for i := 0; i < len(x.Kids); i++ {
				out = append(out, rand.Intn(i+1))
			}
		}
	}
	rec(before, true)
	return "draws=" + core.IntList(out)
}

// ---------------------------------------------------------------- generator

type pnode struct {
	n    *core.N
	path []int
}

func allNodes(root *core.N) []pnode {
	var out []pnode
	var rec func(x *core.N, p []int)
	rec = func(x *core.N, p []int) {
		out = append(out, pnode{x, append([]int(nil), p...)})
		for i, k := range x.Kids {
			rec(k, append(p, i))
		}
	}
	rec(root, nil)
	return out
}

// hasSingles: a non-root node with exactly one child, or a root with one neighbour.
func hasSingles(root *core.N) bool {
	for _, pn := range allNodes(root) {
		if len(pn.n.Kids) == 1 {
			return true
		}
	}
	return false
}

// hasInnerSingles: a NON-ROOT node with exactly one child (what the property's quantifier excludes for pruning).
func hasInnerSingles(root *core.N) bool {
	for _, pn := range allNodes(root) {
		if len(pn.path) > 0 && len(pn.n.Kids) == 1 {
			return true
		}
	}
	return false
}

func subset(g *core.G, xs []string, k int) []string {
	perm := g.R.Perm(len(xs))
	if k > len(xs) {
		k = len(xs)
	}
	out := make([]string, 0, k)
	for _, i := range perm[:k] {
		out = append(out, xs[i])
	}
	return out
}

func startTree(g *core.G) *core.N {
	o := core.DefaultOpts()
	o.MinTips, o.MaxTips = 3, 12
	if g.Chance(0.08) {
		o.MinTips, o.MaxTips = 2, 4
	}
	o.Rooted = 2
	o.Multif = 0.3
	if g.Chance(0.3) {
		o.Multif = 0.6
	}
	o.Lengths = 3
	if g.Chance(0.25) {
		o.Lengths = 2
	}
	if g.Chance(0.12) {
		o.Lengths = 0 // no branch length anywhere: the "both absent" branches of every length-fusing edit
	}
	o.Supports = 2
	o.InnerNames = 0.1
	if g.Chance(0.2) {
		o.Comments = 0.15
	}
	if g.Chance(0.15) || (o.Lengths == 0 && g.Chance(0.5)) {
		o.Singles = 0.15
	}
	n, _ := g.Tree(o)
	if g.Chance(0.08) {
		// a root with a single neighbour, as the parser delivers for "((a,b),c)r;" read from "(((a,b),c))r;"
		old := n
		old.E = core.NewE()
		old.E.Len = g.Length(&o)
		n = &core.N{Name: "rt", Kids: []*core.N{old}}
	}
	uniqueInnerNames(n)
	core.NumberEdges(n)
	return n
}

// the structured generator may draw the same inner name twice; the name index of
// Rename/InsertIdenticalTips refuses that, which would end most histories at once
func uniqueInnerNames(root *core.N) {
	seen := map[string]bool{}
	for _, pn := range allNodes(root) {
		if len(pn.n.Kids) > 0 && pn.n.Name != "" {
			for seen[pn.n.Name] {
				pn.n.Name += "x"
			}
			seen[pn.n.Name] = true
		}
	}
}

func secondTree(g *core.G, prefix string, rooted bool) *core.N {
	o := core.DefaultOpts()
	o.MinTips, o.MaxTips = 2, 5
	o.Rooted = 0
	if rooted {
		o.Rooted = 1
	}
	o.TipPrefix = prefix
	o.InnerNames = 0
	o.Lengths = 3
	n, _ := g.Tree(o)
	core.NumberEdges(n)
	return n
}

var opKinds = []string{
	"reroot", "reroot", "rerootfirst", "outgroup", "outgroup", "midpoint", "unroot", "unroot",
	"prune", "prune", "prune", "collapselen", "collapsesup", "collapsedepth", "removeedges", "removeedges",
	"resolve", "resolve", "rotate", "sorttips", "shuffle", "grafttree", "graftedge", "graftedge", "merge",
	"identical", "removesingle", "nni", "nni", "merge", "rename", "renameauto", "renameregex", "addquotes", "rmquotes",
	"clone", "subtree", "reinit", "nniapply", "nniapply", "nniapply",
	"reinitinternal", "updatetipindex", "identicalone", "cutedges", "addbip", "addbip",
	"collapseclade", "resolvenamed", "rotateone", "clearlengths", "clearsupports", "clearcomments", "scalelengths", "roundlengths",
	"annotate", "annotate", "addlength", "clearpvalues", "clearnodecomments", "clearedgecomments", "cleartermedgecomments", "scalesupports", "roundsupports",
}

// genOp draws one operation with its arguments, looking at the current tree.
func genOp(g *core.G, h *history, k int) string {
	cur := h.cur
	nodes := allNodes(cur)
	tips := cur.TipNames()
	kind := opKinds[g.Intn(len(opKinds))]
	// an applied rearrangement is waiting: undo it now, or after an edit that keeps it valid
	if h.pending != nil {
		switch r := g.Intn(10); {
		case r < 3:
			return "nniundo"
		case r < 7:
			kind = []string{"sorttips", "sorttips", "rotate", "reroot", "rerootfirst", "reinit", "renameregex", "shuffle"}[g.Intn(8)]
		}
	}
	// a root that is a tip is rare (5 % of the start trees, UnRoot of a two-tip tree): pruning it — the root
	// tip included — is the region of 0cfc52b and gets a branch of its own
	if len(cur.Kids) == 1 && !hasInnerSingles(cur) && len(tips) > 3 && g.Chance(0.2) {
		kind = "prune"
	}
	// round 7b: the ROOT TIP named to every edit that finds its node through Parent()/ParentEdge()/NodeIndex or
	// a tip look-up (on the clean code most of these are refused — a root has no parent — and the history ends;
	// a shortcut such as "a tip's only branch is its parent branch" makes them succeed on a broken heap)
	if len(cur.Kids) == 1 && cur.Name != "" && g.Chance(0.15) {
		rt := cur.Name
		switch g.Intn(6) {
		case 0:
			return "identical:" + core.StrList([]string{rt, fmt.Sprintf("i%dxr", k)})
		case 1:
			return "identical:" + core.StrList([]string{fmt.Sprintf("i%dxr", k), rt, fmt.Sprintf("i%dxs", k)})
		case 2:
			return "identicalone:" + core.Escape(rt) + ":" + fmt.Sprintf("j%d", k)
		case 3:
			return "grafttree:" + core.Escape(rt) + ":" + secondTree(g, fmt.Sprintf("g%dx", k), g.Chance(0.5)).Dump()
		case 4:
			return "collapseclade:" + b2s(g.Chance(0.5)) + ":" + fmt.Sprintf("cc%d", k) + ":" + core.StrList([]string{rt})
		default:
			return "outgroup:" + b2s(g.Chance(0.3)) + ":" + b2s(g.Chance(0.5)) + ":" + core.StrList([]string{rt})
		}
	}
	// pruning is only required to cope with trees free of single-child inner nodes
	// (a root with ONE neighbour is a tip, not a single-child inner node: pruning — of the root tip too,
	// the case repaired by 0cfc52b — is offered on such trees as long as no inner node has a single child)
	if kind == "prune" && hasInnerSingles(cur) {
		kind = "removesingle"
	}
	// (RerootOutGroup dereferences a nil node on two-tip trees: the driver counts a panic of an
	// edit on a tree with fewer than 3 tips as "not applicable", tag panic-small-tree)
	if kind == "merge" && len(cur.Kids) != 2 && g.Chance(0.8) {
		kind = "unroot"
	}
	var inner, nonroot []pnode
	for _, pn := range nodes {
		if len(pn.path) > 0 {
			nonroot = append(nonroot, pn)
		}
		nn := len(pn.n.Kids)
		if len(pn.path) > 0 {
			nn++
		}
		if nn >= 2 {
			inner = append(inner, pn)
		}
	}
	switch kind {
	case "reroot":
		if len(inner) > 0 && g.Chance(0.85) {
			return "reroot:" + pathStr(inner[g.Intn(len(inner))].path)
		}
		return "reroot:" + pathStr(nodes[g.Intn(len(nodes))].path)
	case "outgroup":
		var names []string
		r := g.Intn(10)
		switch {
		case r < 5 && len(nonroot) > 0: // a clade
			names = nonroot[g.Intn(len(nonroot))].n.Leaves()
		case r < 7 && len(nonroot) > 0: // the complement of a clade
			in := map[string]bool{}
			for _, x := range nonroot[g.Intn(len(nonroot))].n.Leaves() {
				in[x] = true
			}
			for _, x := range tips {
				if !in[x] {
					names = append(names, x)
				}
			}
		default:
			names = subset(g, tips, 1+g.Intn(3))
		}
		if g.Chance(0.1) {
			names = append(names, "absent")
		}
		return "outgroup:" + b2s(g.Chance(0.3)) + ":" + b2s(g.Chance(0.5)) + ":" + core.StrList(names)
	case "prune":
		n := len(tips)
		kk := 1
		if n > 3 && g.Chance(0.9) {
			kk = 1 + g.Intn(n-3)
		} else {
			kk = 1 + g.Intn(n+1)
		}
		names := subset(g, tips, kk)
		rev := g.Chance(0.3)
		if rev && g.Chance(0.9) {
			// keep at least three
			keep := 3 + g.Intn(n)
			names = subset(g, tips, keep)
		}
		if len(cur.Kids) == 1 && cur.Name != "" && g.Chance(0.5) {
			// the root is a tip: aim at its removal (removeTip's "the tip is the root itself" branch, 0cfc52b)
			has := false
			for _, x := range names {
				has = has || x == cur.Name
			}
			if has == rev {
				if rev {
					var kept []string
					for _, x := range names {
						if x != cur.Name {
							kept = append(kept, x)
						}
					}
					names = kept
				} else {
					names = append(names, cur.Name)
				}
			}
		}
		if g.Chance(0.1) {
			names = append(names, "absent")
		}
		return "prune:" + b2s(rev) + ":" + core.StrList(names)
	case "collapselen":
		var lens []float64
		for _, pn := range nonroot {
			lens = append(lens, pn.n.E.Len)
		}
		thr := float64(g.Intn(24)) / 8
		if len(lens) > 0 && g.Chance(0.6) {
			thr = lens[g.Intn(len(lens))]
		}
		return "collapselen:" + core.Rat(thr) + ":" + b2s(g.Chance(0.5)) + ":" + b2s(g.Chance(0.3))
	case "collapsesup":
		var sups []float64
		for _, pn := range nonroot {
			if pn.n.E.Sup != -1 {
				sups = append(sups, pn.n.E.Sup)
			}
		}
		thr := float64(g.Intn(17)) / 16
		if len(sups) > 0 && g.Chance(0.6) {
			thr = sups[g.Intn(len(sups))]
			if g.Chance(0.5) {
				thr += 1.0 / 16
			}
		}
		return "collapsesup:" + core.Rat(thr) + ":" + b2s(g.Chance(0.5))
	case "collapsedepth":
		lo := 1 + g.Intn(3)
		hi := lo + g.Intn(3)
		return fmt.Sprintf("collapsedepth:%d:%d:%s:%s", lo, hi, b2s(g.Chance(0.5)), b2s(g.Chance(0.3)))
	case "removeedges":
		var ps []string
		for _, pn := range nonroot {
			if g.Chance(0.3) {
				ps = append(ps, pathStr(pn.path))
			}
		}
		return "removeedges:" + b2s(g.Chance(0.5)) + ":" + b2s(g.Chance(0.3)) + ":" + strings.Join(ps, ",")
	case "resolve", "rotate", "shuffle":
		return fmt.Sprintf("%s:%d", kind, g.Intn(1<<30))
	case "grafttree":
		name := "absent"
		if len(tips) > 0 && g.Chance(0.92) {
			name = tips[g.Intn(len(tips))]
		}
		t2 := secondTree(g, fmt.Sprintf("g%dx", k), g.Chance(0.5))
		if g.Chance(0.05) && len(tips) > 1 {
			// a graft that shares a tip name with the host: GraftTreeOnTip does not look (its UpdateTipIndex
			// error is dropped); the heap must still be a tree
			for _, pn := range allNodes(t2) {
				if len(pn.n.Kids) == 0 {
					pn.n.Name = tips[g.Intn(len(tips))]
					break
				}
			}
		}
		return "grafttree:" + core.Escape(name) + ":" + t2.Dump()
	case "graftedge":
		if len(nonroot) == 0 {
			return "reinit"
		}
		return fmt.Sprintf("graftedge:n%d:%s", k, pathStr(nonroot[g.Intn(len(nonroot))].path))
	case "merge":
		t2 := secondTree(g, fmt.Sprintf("m%dx", k), g.Chance(0.9))
		return "merge:" + t2.Dump()
	case "identical":
		if len(tips) == 0 {
			return "reinit"
		}
		var groups []string
		ng := 1 + g.Intn(2)
		olds := subset(g, tips, ng)
		for gi, o := range olds {
			grp := []string{o}
			for j := 0; j <= g.Intn(2); j++ {
				grp = append(grp, fmt.Sprintf("i%dx%dx%d", k, gi, j))
			}
			if g.Chance(0.08) && len(tips) > 1 {
				grp = append(grp, tips[g.Intn(len(tips))])
			}
			// the existing tip is not always first
			if g.Chance(0.3) {
				grp[0], grp[len(grp)-1] = grp[len(grp)-1], grp[0]
			}
			groups = append(groups, core.StrList(grp))
		}
		return "identical:" + strings.Join(groups, "+")
	case "nni":
		return fmt.Sprintf("nni:%d:%s", g.Intn(40), b2s(g.Chance(0.3)))
	case "nniapply":
		return fmt.Sprintf("nniapply:%d", g.Intn(40))
	case "cutedges":
		return "cutedges:" + core.Rat(float64(g.Intn(24))/8)
	case "addbip":
		// a node with at least 4 neighbours; 2 … n-2 of its slots (the parent's slot may be among them)
		var cands []pnode
		for _, pn := range nodes {
			nn := len(pn.n.Kids)
			if len(pn.path) > 0 {
				nn++
			}
			if nn >= 4 {
				cands = append(cands, pn)
			}
		}
		if len(cands) == 0 {
			return "resolve:" + fmt.Sprint(g.Intn(1<<30))
		}
		pn := cands[g.Intn(len(cands))]
		nn := len(pn.n.Kids)
		if len(pn.path) > 0 {
			nn++
		}
		cnt := 2 + g.Intn(nn-3)
		if g.Chance(0.1) {
			cnt = 1 + g.Intn(nn) // also the sizes the function refuses
		}
		var slots []string
		for _, i := range g.R.Perm(nn)[:cnt] {
			slots = append(slots, strconv.Itoa(i))
		}
		return fmt.Sprintf("addbip:%s:%s:%s:%s", pathStr(pn.path), strings.Join(slots, ","), core.Rat(float64(g.Intn(16))/8), core.Rat(float64(g.Intn(17))/16))
	case "identicalone":
		if len(tips) == 0 {
			return "reinit"
		}
		return "identicalone:" + core.Escape(tips[g.Intn(len(tips))]) + ":" + fmt.Sprintf("j%d", k)
	case "collapseclade":
		var names []string
		if len(nonroot) > 0 && g.Chance(0.7) {
			names = nonroot[g.Intn(len(nonroot))].n.Leaves()
		} else {
			names = subset(g, tips, 1+g.Intn(3))
		}
		if g.Chance(0.08) {
			// the name of a node that is not a tip: no ancestor is found (an error since b687409, F97)
			for _, pn := range inner {
				if pn.n.Name != "" {
					names = append(names, pn.n.Name)
					break
				}
			}
		}
		return "collapseclade:" + b2s(g.Chance(0.5)) + ":" + fmt.Sprintf("cc%d", k) + ":" + core.StrList(names)
	case "rotateone":
		return fmt.Sprintf("rotateone:%s:%d", pathStr(nodes[g.Intn(len(nodes))].path), g.Intn(1<<30))
	case "clearlengths":
		return "clearlengths:" + b2s(g.Chance(0.6)) + ":" + b2s(g.Chance(0.6))
	case "scalelengths":
		return "scalelengths:" + []string{"1/2", "2", "3/4", "4"}[g.Intn(4)] /* not 0: -0.5*0 = -0, which a rational cannot carry */ + ":" + b2s(g.Chance(0.7)) + ":" + b2s(g.Chance(0.7))
	case "annotate":
		// 1-3 lines: [new, name of a node] or [new, tip, tip, …] (the LCA gets the name / the comment)
		comment := g.Chance(0.5)
		renamed := map[string]bool{}
		var named []string
		for _, pn := range nodes {
			if pn.n.Name != "" {
				named = append(named, pn.n.Name)
			}
		}
		var lines []string
		for i, nl := 0, 1+g.Intn(3); i < nl; i++ {
			nw := fmt.Sprintf("a%dx%d", k, i)
			var names []string
			if g.Chance(0.5) && len(tips) >= 2 {
				if len(nonroot) > 0 && g.Chance(0.6) {
					names = nonroot[g.Intn(len(nonroot))].n.Leaves()
				} else {
					names = subset(g, tips, 2+g.Intn(2))
				}
			}
			if len(names) < 2 {
				old := "absent"
				if len(names) == 1 {
					old = names[0]
				} else if len(named) > 0 && g.Chance(0.9) {
					old = named[g.Intn(len(named))]
				}
				if !comment {
					renamed[old] = true
				}
				lines = append(lines, core.StrList([]string{nw, old}))
				continue
			}
			// a list naming a tip that an earlier line of the same call has renamed finds no ancestor (the index
			// answers for the old name, the walk compares the new one): an error since b687409 (F97, before: nil
			// dereference); such lists are offered at a low rate (the history ends there)
			clash := false
			for _, x := range names {
				clash = clash || renamed[x] || x == ""
			}
			if clash && !g.Chance(0.3) {
				continue
			}
			lines = append(lines, core.StrList(append([]string{nw}, names...)))
		}
		if len(lines) == 0 {
			return "reinit"
		}
		return "annotate:" + b2s(comment) + ":" + strings.Join(lines, "+")
	case "addlength":
		// positive dyadic amounts only: sums stay exact and no length can become the sentinel -1
		return "addlength:" + []string{"1/2", "1", "1/4"}[g.Intn(3)] + ":" + b2s(g.Chance(0.7)) + ":" + b2s(g.Chance(0.7))
	case "scalesupports":
		// float64(int(1000000*(s*factor)))/1000000 is exact when s*factor is a multiple of 1/64
		fs := []string{"1/2", "2", "1/4"}[g.Intn(3)]
		fv, _ := core.ParseRat(fs)
		for _, pn := range nonroot {
			if s := pn.n.E.Sup; s != -1 {
				if v := s * fv * 64; v != math.Trunc(v) || s < 0 {
					return "clearpvalues"
				}
			}
		}
		return "scalesupports:" + fs
	case "roundsupports":
		return "roundsupports:0"
	case "roundlengths":
		// precision 0 only: other roundings leave the dyadic numbers on which the exact comparison of
		// later length sums with the models rests (checks/C03.json, assumptions)
		for _, pn := range nonroot {
			if pn.n.E.Len < 0 && pn.n.E.Len != -1 {
				// GraftTipOnEdge halves an absent length (-1) to -0.5, -0.25 …: rounding those gives the float -0,
				// which the rational dumps cannot carry
				return "clearsupports"
			}
		}
		return fmt.Sprintf("roundlengths:0:%s:%s", b2s(g.Chance(0.7)), b2s(g.Chance(0.7)))
	case "rename":
		var olds, news []string
		for _, pn := range nodes {
			if pn.n.Name != "" && g.Chance(0.3) {
				olds = append(olds, pn.n.Name)
				news = append(news, fmt.Sprintf("r%dx%d", k, len(news)))
			}
		}
		if g.Chance(0.1) {
			olds = append(olds, "absent")
			news = append(news, "never")
		}
		if g.Chance(0.05) && len(news) >= 2 {
			news[1] = news[0] // duplicate tip names: refused by the tip index
		}
		if g.Chance(0.06) && len(news) >= 1 {
			// a name with a Newick metacharacter: the writer never quotes (open finding F85,
			// class NewickUnquotedMetacharName); the history ends after such a step
			news[g.Intn(len(news))] = []string{"x,y", "x:2", "(q", "p;q", "u[v", "w)z", "k]"}[g.Intn(7)] + fmt.Sprintf("%d", k)
		}
		return "rename:" + core.StrList(olds) + ":" + core.StrList(news)
	case "renameauto":
		return fmt.Sprintf("renameauto:%s:%s:%d", b2s(g.Chance(0.5)), b2s(g.Chance(0.7)), 2+g.Intn(6))
	case "renameregex":
		pats := [][2]string{{"t", "T"}, {"^(.)", "x$1"}, {"[0-9]+$", ""}, {"x", "yy"}, {"(", ""}}
		p := pats[g.Intn(len(pats))]
		if p[0] == "(" && !g.Chance(0.2) {
			p = pats[0]
		}
		return "renameregex:" + b2s(g.Chance(0.5)) + ":" + b2s(g.Chance(0.8)) + ":" + core.Escape(p[0]) + ":" + core.Escape(p[1])
	case "addquotes", "rmquotes":
		// the library indexes name[0]: mostly nodes with a non-empty name are offered
		allNamed, tipsNamed := true, true
		for _, pn := range nodes {
			nn := len(pn.n.Kids)
			if len(pn.path) > 0 {
				nn++
			}
			if pn.n.Name == "" {
				if nn == 1 {
					tipsNamed = false
				} else {
					allNamed = false
				}
			}
		}
		_, _ = allNamed, tipsNamed
		// since 763a2ae nodes without a name are skipped: every flag combination is offered
		return kind + ":" + b2s(g.Chance(0.5)) + ":" + b2s(g.Chance(0.8))
	case "subtree":
		var cands []pnode
		minKids := 2
		if g.Chance(0.15) {
			minKids = 1 // the subtree's root is then a tip (one neighbour)
		}
		for _, pn := range nodes {
			if len(pn.n.Kids) >= minKids {
				cands = append(cands, pn)
			}
		}
		if len(cands) == 0 {
			return "clone"
		}
		return "subtree:" + pathStr(cands[g.Intn(len(cands))].path)
	}
	return kind // rerootfirst midpoint unroot sorttips removesingle clone reinit
}

func hasMetaName(root *core.N) bool {
	for _, pn := range allNodes(root) {
		if strings.ContainsAny(pn.n.Name, "()[],:;") {
			return true
		}
	}
	return false
}

func genHistory(c *core.Ctx, g *core.G, idx int) {
	start := startTree(g)
	h := newHistory(c, start)
	n := 1 + g.Intn(maxOps(c))
	if g.Chance(0.5) {
		n = maxOps(c)
	}
	for k := 1; k <= n; k++ {
		if !h.step(genOp(g, h, k)) {
			return
		}
		if hasMetaName(h.cur) {
			return // every later text would repeat the same finding
		}
	}
}
