/-
  C12 — what "most parsimonious" means.

  * A labelling `LT` gives one state to every node; it `fits` a tree when it has
    the tree's shape and every tip carries one of the states allowed there;
    `changes` counts the branches whose two ends differ.
  * `minCost` is defined by Sankoff's dynamic programme (one cost vector per
    node, `gv`/`fL`), and the per-node optimal state sets by the second Sankoff
    pass (`totA`: cost of the best labelling of the WHOLE tree given the state
    of that node).  `Proofs/C12.lean` shows that `minCost` is a lower bound of
    `changes` over all fitting labellings and is attained.
  Nothing here looks at the Fitch/Hartigan counting of the Go code.
-/
import Gotree.Model.C12

namespace Gotree.C12
open Gotree

/-- a labelling: a state at every node, in the shape of the tree -/
inductive LT where
  | node (s : Nat) (kids : List LT)
  deriving Repr, Inhabited

def LT.s : LT → Nat | .node s _ => s
def LT.kids : LT → List LT | .node _ k => k

mutual
/-- number of branches whose two ends carry different states -/
def LT.changes : LT → Nat
  | .node s ks => LT.changesL s ks
def LT.changesL (s : Nat) : List LT → Nat
  | [] => 0
  | c :: r => (if c.s = s then 0 else 1) + c.changes + LT.changesL s r
end

mutual
def LT.get : LT → List Nat → Option Nat
  | .node s _, [] => some s
  | .node _ k, i :: p => LT.getL k i p
def LT.getL : List LT → Nat → List Nat → Option Nat
  | [], _, _ => none
  | a :: _, 0, p => a.get p
  | _ :: r, i + 1, p => LT.getL r i p
end

/- the subtree addressed by a child-index path -/
mutual
def sub : T → List Nat → Option T
  | t, [] => some t
  | .node _ _ ks, i :: p => subL ks i p
def subL : Kids → Nat → List Nat → Option T
  | [], _, _ => none
  | (_, c) :: _, 0, p => sub c p
  | _ :: r, i + 1, p => subL r i p
end

def innerOpt : Option T → Bool
  | some c => !c.kids.isEmpty
  | none => false

/-- the path addresses a node that has children -/
def innerAt (t : T) (v : List Nat) : Bool := innerOpt (sub t v)

section spec
variable (k : Nat) (tv : String → Vec)

mutual
/-- the labelling has the shape of the tree, uses states `< k`, and every leaf
    carries a state of its tip set -/
def fits : T → LT → Bool
  | .node d _ [], .node s ks => ks.isEmpty && decide (s < k) && decide ((tv d.name).at s ≠ 0)
  | .node _ _ (c :: cs), .node s ks => decide (s < k) && fitsL (c :: cs) ks
def fitsL : Kids → List LT → Bool
  | [], [] => true
  | (_, c) :: r, l :: lr => fits c l && fitsL r lr
  | _, _ => false
end

/-- minimum of `h 0 … h n` -/
def minTo (h : Nat → Nat) : Nat → Nat
  | 0 => h 0
  | n + 1 => if h (n + 1) < minTo h n then h (n + 1) else minTo h n

/-- minimum of `h` over the states `0 … k-1` (`k ≥ 1`) -/
def minOver (h : Nat → Nat) : Nat := minTo h (k - 1)

/-- cost seen through one more branch: `min_t (R t + [s ≠ t])` -/
def through (R : Vec) : Vec := tab k fun s => minOver k fun t => R.at t + (if s = t then 0 else 1)

mutual
/- Sankoff, first pass.  `(gv c).at s` = least number of changes on the branch
    above `c` and inside the subtree of `c`, given state `s` at the parent of `c`. -/
def gv : T → Vec
  | .node d _ [] => tab k fun s => if (tv d.name).at s ≠ 0 then 0 else 1
  | .node _ _ (c :: cs) => through k (fL (c :: cs))
/-- `(fL kids).at t` = least number of changes below a node with these children, given its state `t` -/
def fL : Kids → Vec
  | [] => vzero k
  | (_, c) :: r => vadd k (gv c) (fL r)
end

/-- the minimum number of changes over all labellings (root = a node with children) -/
def minCost (t : T) : Nat := minOver k (fL k tv t.kids).at

mutual
/- Sankoff, second pass.  For an inner node the slice holds, per state `s`, the least
    number of changes of a labelling of the whole tree that puts `s` there; `up.at s`
    is the cost of everything outside the node's subtree (0 at the root).  A leaf keeps
    its tip set. -/
def totA (up : Vec) : T → A
  | .node d _ [] => .node (tv d.name) []
  | .node _ _ (c :: cs) => .node (vadd k (fL k tv (c :: cs)) up) (totL up (vzero k) (c :: cs))
def totL (up : Vec) (pre : Vec) : Kids → List A
  | [] => []
  | (_, c) :: r =>
    totA (through k (vadd k up (vadd k pre (fL k tv r)))) c :: totL up (vadd k pre (gv k tv c)) r
end

/-- every leaf below has a 0/1 slice with at least one state -/
def tipsOk (t : T) : Bool :=
  (leavesL t.kids).all fun n =>
    (List.range k).all (fun i => (tv n).at i ≤ 1) && (List.range k).any (fun i => (tv n).at i ≠ 0)

end spec

/-- the root is an inner node for Go (`Tip()` is "exactly one neighbour") and has something below -/
def rootOk (t : T) : Bool := t.kids.length ≥ 2

/-- the same tree re-rooted on child `i` of the root: that child becomes the root and the old
    root (with its other children) its last child — what the harness' `rerootAt` does -/
def moveRoot (t : T) (i : Nat) : T :=
  match t.kids[i]? with
  | some (e, .node d _ cks) => .node d 0 (cks ++ [(e, .node t.d 0 (t.kids.eraseIdx i))])
  | none => t

/-- re-rooting along a child-index path -/
def rerootPath : T → List Nat → T
  | t, [] => t
  | t, i :: p => rerootPath (moveRoot t i) p

/-- every node on the path exists and has children (so that the new root is not a tip) -/
def okPath : T → List Nat → Bool
  | _, [] => true
  | t, i :: p =>
    (match t.kids[i]? with
     | some (_, c) => !c.kids.isEmpty
     | none => false) && okPath (moveRoot t i) p

/- ## what an alignment character MEANS at a tip (the property: "IUPAC ambiguity codes at tips
   meaning 'any of these states'") -/

/-- intended meaning of a nucleotide alignment character: case-insensitive, `U` is `T`, and a
    character that is not an IUPAC code (`?`, `X`, `.`, `O` …: "unknown") allows any nucleotide.
    The CODE (and therefore the model, `iupac`) gives such characters the EMPTY set instead —
    finding AsrNonIupacCharEmptySet. -/
def specIupac (c : Char) : List Nat := iupacIntended c

def specAsrTipVec (m : List (String × String)) (j : Nat) (n : String) : Vec :=
  match lookup m n with
  | some sq => let codes := specIupac (sq.toList.getD j ' '); tab 6 fun i => if codes.contains i then 1 else 0
  | none => vzero 6

/-- the region of the finding: some sequence holds a character the code has no state set for -/
def hasNonIupac (seqs : List String) : Bool := seqs.any fun s => s.toList.any fun c => (iupac c).isEmpty

/- ## the oracle: evaluated on what the implementation returned -/

/-- per node (pre-order): is it a leaf of the rose tree -/
def leafFlags (t : T) : List Bool := false :: tipFlagsL t.kids

/-- states (indices `< k`) of the slice -/
def members (k : Nat) (v : Vec) : List Nat := (List.range k).filter fun i => v.at i ≠ 0

def sortNat (l : List Nat) : List Nat := l.mergeSort (fun a b => decide (a ≤ b))

def subset (a b : List Nat) : Bool := a.all b.contains

/- build a labelling from per-node singleton states (pre-order), in the shape of `t` -/
mutual
def labelOf : T → List Nat → LT × List Nat
  | .node _ _ ks, rest =>
    let r := labelOfL ks (rest.drop 1)
    (.node (rest.headD 0) r.1, r.2)
def labelOfL : Kids → List Nat → List LT × List Nat
  | [], rest => ([], rest)
  | (_, c) :: r, rest =>
    let a := labelOf c rest
    let b := labelOfL r a.2
    (a.1 :: b.1, b.2)
end

structure Report where
  /-- reported number of steps -/
  steps : Nat
  /-- reported states per node (pre-order) as indices; an unknown name is `k` -/
  sets : List (List Nat)

/-- what is wrong with a report for one character (empty = the property holds on it).
    `exact` : the sets of inner nodes must be exactly the optimal sets (plain down-pass);
    `tipsExact` : the tips must be reported with exactly their input sets (otherwise a
    non-empty subset is accepted: ACCTRAN on an ambiguous tip). -/
def reportProblems (k : Nat) (tv : String → Vec) (t : T) (exact checkInner tipsExact : Bool) (r : Report) : List String :=
  let mc := minCost k tv t
  let opt := (totA k tv (vzero k) t).flat
  let leaf := leafFlags t
  let n := leaf.length
  let p1 := if r.steps != mc then ["steps " ++ toString r.steps ++ " but the minimum is " ++ toString mc] else []
  let p2 := if r.sets.length != n then ["number of nodes"] else []
  let perNode := (List.range n).filterMap fun i =>
    let rep := sortNat (r.sets.getD i [])
    let o := opt.getD i []
    if leaf.getD i false then
      let tipset := members k o
      if tipsExact then (if rep != tipset then some ("tip " ++ toString i ++ " altered") else none)
      else (if rep.isEmpty || !subset rep tipset then some ("tip " ++ toString i ++ " altered") else none)
    else if !checkInner then none
    else
      let os := (List.range k).filter fun s => o.at s == mc
      if exact then (if rep != os then some ("node " ++ toString i ++ ": reported set is not the set of optimal states") else none)
      else (if rep.isEmpty || !subset rep os then some ("node " ++ toString i ++ ": a reported state is in no most parsimonious reconstruction") else none)
  let p4 :=
    if r.sets.length == n && r.sets.all (·.length == 1) then
      let l := (labelOf t (r.sets.map fun s => s.headD 0)).1
      if l.changes != mc then ["unambiguous output has " ++ toString l.changes ++ " changes, minimum " ++ toString mc] else []
    else []
  p1 ++ p2 ++ perNode ++ p4

/-- the same for a run WITH random resolution: steps minimal, tips as given, every state reported at an
    inner node occurs in some most parsimonious labelling; no joint claim (the draws of different nodes are
    independent).  (empty = fine)
    `exact` : the sets of inner nodes must be exactly the optimal sets (plain down-pass);
    `tipsExact` : the tips must be reported with exactly their input sets (otherwise a
    non-empty subset is accepted: ACCTRAN on an ambiguous tip). -/
def reportProblemsR (k : Nat) (tv : String → Vec) (t : T) (exact checkInner tipsExact : Bool) (r : Report) : List String :=
  let mc := minCost k tv t
  let opt := (totA k tv (vzero k) t).flat
  let leaf := leafFlags t
  let n := leaf.length
  let p1 := if r.steps != mc then ["steps " ++ toString r.steps ++ " but the minimum is " ++ toString mc] else []
  let p2 := if r.sets.length != n then ["number of nodes"] else []
  let perNode := (List.range n).filterMap fun i =>
    let rep := sortNat (r.sets.getD i [])
    let o := opt.getD i []
    if leaf.getD i false then
      let tipset := members k o
      if tipsExact then (if rep != tipset then some ("tip " ++ toString i ++ " altered") else none)
      else (if rep.isEmpty || !subset rep tipset then some ("tip " ++ toString i ++ " altered") else none)
    else if !checkInner then none
    else
      let os := (List.range k).filter fun s => o.at s == mc
      if exact then (if rep != os then some ("node " ++ toString i ++ ": reported set is not the set of optimal states") else none)
      else (if rep.isEmpty || !subset rep os then some ("node " ++ toString i ++ ": a reported state is in no most parsimonious reconstruction") else none)
  p1 ++ p2 ++ perNode


/- ## rooting on a branch = a new node with one child on that branch (`subdivide`), then `rerootPath` onto it -/

mutual
/-- a node with a single child inserted on the branch above the node addressed by the path -/
def subdivide : T → List Nat → T
  | t, [] => t
  | .node d p ks, i :: q => .node d p (subdivideL ks i q)
def subdivideL : Kids → Nat → List Nat → Kids
  | [], _, _ => []
  | (e, c) :: r, 0, [] => (e, .node ⟨"", []⟩ 0 [(EdgeD.blank, c)]) :: r
  | (e, c) :: r, 0, j :: q => (e, subdivide c (j :: q)) :: r
  | x :: r, i + 1, q => x :: subdivideL r i q
end

/- ## problems with their kind (so that a known finding can be matched by KIND and by PLACE) -/

inductive PKind where
  | steps | shape | tip (i : Nat) | inner (i : Nat) | joint
  deriving Repr, BEq

structure Problem where
  kind : PKind
  msg : String

/-- the same clauses as `reportProblems` (tips always compared exactly), each problem with its kind -/
def reportProblemsK (k : Nat) (tv : String → Vec) (t : T) (exact checkInner : Bool) (r : Report) : List Problem :=
  let mc := minCost k tv t
  let opt := (totA k tv (vzero k) t).flat
  let leaf := leafFlags t
  let n := leaf.length
  let p1 : List Problem := if r.steps != mc then [⟨.steps, "steps " ++ toString r.steps ++ " but the minimum is " ++ toString mc⟩] else []
  let p2 : List Problem := if r.sets.length != n then [⟨.shape, "number of nodes"⟩] else []
  let perNode : List Problem := (List.range n).filterMap fun i =>
    let rep := sortNat (r.sets.getD i [])
    let o := opt.getD i []
    if leaf.getD i false then
      if rep != members k o then some ⟨.tip i, "tip " ++ toString i ++ " altered"⟩ else none
    else if !checkInner then none
    else
      let os := (List.range k).filter fun s => o.at s == mc
      if exact then (if rep != os then some ⟨.inner i, "node " ++ toString i ++ ": reported set is not the set of optimal states"⟩ else none)
      else (if rep.isEmpty || !subset rep os then some ⟨.inner i, "node " ++ toString i ++ ": a reported state is in no most parsimonious reconstruction"⟩ else none)
  let p4 : List Problem :=
    if r.sets.length == n && r.sets.all (·.length == 1) then
      let l := (labelOf t (r.sets.map fun s => s.headD 0)).1
      if l.changes != mc then [⟨.joint, "unambiguous output has " ++ toString l.changes ++ " changes, minimum " ++ toString mc⟩] else []
    else []
  p1 ++ p2 ++ perNode ++ p4

/-- the tip slices as the CODE reads a nucleotide column (a character without `IupacCode` entry = no state);
    used only to decide whether a failure is the known finding AsrNonIupacCharEmptySet -/
def codeAsrTipVec (m : List (String × String)) (j : Nat) (n : String) : Vec :=
  match lookup m n with
  | some sq => let codes := iupac (sq.toList.getD j ' '); tab 6 fun i => if codes.contains i then 1 else 0
  | none => vzero 6

end Gotree.C12
