/-
  C15 — the derived state (tip index, branch bitsets) of copies and of `RemoveSingleNodes`.
  Core Lean only.
-/
import Gotree.Lemmas.C15Copy
import Gotree.Lemmas.C15Single

namespace Gotree.C15
open Gotree Gotree.C14

theorem sortN_eq_of_perm {l₁ l₂ : List String} (h : l₁.Perm l₂) : sortN l₁ = sortN l₂ := sortNames_eq_of_perm h

theorem sortN_perm (l : List String) : (sortN l).Perm l := sortNames_perm l

/-- on names without repetition the index is filled completely, in the given (sorted) order -/
theorem tipIndexFill_nodup : ∀ (l acc : List String), l.Nodup → (∀ x ∈ l, x ∉ acc) →
    tipIndexFill l acc = (acc ++ l, true)
  | [], acc, _, _ => by simp [tipIndexFill]
  | a :: r, acc, hn, hd => by
    have ha : a ∉ acc := hd a (by simp)
    have hn' := List.nodup_cons.mp hn
    simp only [tipIndexFill, List.contains_eq_mem, ha, decide_false, if_false, Bool.false_eq_true]
    rw [tipIndexFill_nodup r (acc ++ [a]) hn'.2 (fun x hx hm => by
      rcases List.mem_append.mp hm with hm | hm
      · exact hd x (List.mem_cons_of_mem _ hx) hm
      · simp at hm; subst hm; exact hn'.1 hx)]
    simp

/-- `UpdateTipIndex` on a tree with unique tip names: the sorted tip names, no error -/
theorem tipIndex_of_nodup (t : T) (h : t.tipNames.Nodup) : tipIndex t = (sortN t.tipNames, true) := by
  have := tipIndexFill_nodup (sortN t.tipNames) [] ((sortN_perm _).nodup_iff.mpr h) (fun _ _ hm => by cases hm)
  simpa [tipIndex] using this

theorem tipIndex_congr {t u : T} (h : u.tipNames.Perm t.tipNames) : tipIndex u = tipIndex t := by
  simp [tipIndex, sortN_eq_of_perm h]

theorem bitsets_congr {t u : T} (hs : u.splits = t.splits) (hn : u.tipNames = t.tipNames) : bitsets u = bitsets t := by
  simp [bitsets, tipIndex, hs, hn]

theorem zeroPpos_derived (t : T) : tipIndex (zeroPpos t) = tipIndex t ∧ bitsets (zeroPpos t) = bitsets t :=
  ⟨by simp [tipIndex, zeroPpos_tipNames], bitsets_congr (zeroPpos_splits t) (zeroPpos_tipNames t)⟩

theorem removeSingle_tipIndex' (t : T) : tipIndex (removeSingle t) = tipIndex t :=
  tipIndex_congr (removeSingle_tips' t)

end Gotree.C15
