/-
  C10 — what the property means, from the split lists only (DESIGN §3.1).

  For a reference branch with the tips `below` under it (all taxa `all`,
  `n = |all|`): its split is `below | all \ below`, its light side `L` the
  smaller of the two (`below` on a tie, as the code), `p = |L|`.
    transferDist L B n = min(|L △ B|, n − |L △ B|)
    FBP  = #{bootstrap trees having a branch with the same split} / #trees
    TBE  = 1 − mean over the trees of (min over the branches B of the tree of
               transferDist L B n) / (p − 1)
  Core Lean only (linked into the driver).
-/
import Gotree.Model.C10
import Gotree.Spec.Splits

namespace Gotree.C10
open Gotree

def diff (a b : List String) : List String := a.filter fun x => !b.contains x

/-- |L △ B| -/
def symDiff (L B : List String) : Nat := (diff L B).length + (diff B L).length

/-- number of taxa to move so that `B | rest` becomes `L | rest` (either way round) -/
def transferDist (L B : List String) (n : Nat) : Nat := min (symDiff L B) (n - symDiff L B)

/-- the light side of the split `below | all \ below` -/
def lightSide (all below : List String) : List String :=
  if below.length > all.length / 2 then diff all below else below

/-- size of the light side -/
def depth (all below : List String) : Nat := min below.length (all.length - below.length)

/-- the tree has a branch defining the split `side | all \ side` -/
def containsSplit (all side : List String) (b : T) : Bool :=
  b.splits.any fun s => sameSplit all side s.below

/-- Felsenstein's bootstrap proportion -/
def fbpSpec (all side : List String) (bs : List T) : Rat :=
  ((bs.filter (containsSplit all side)).length : Rat) / (bs.length : Rat)

/-- least transfer distance from `L` to a branch of `b`.  The fold starts at
    `|L| − 1`, the distance to the tip branch of any taxon of `L` (so the start
    value never wins against the branches when `L ⊆` tips of `b`, `|L| ≥ 1`). -/
def minTransfer (L : List String) (n : Nat) (b : T) : Nat :=
  (b.splits.map fun s => transferDist L s.below n).foldl min (L.length - 1)

/-- the plain minimum over the branches of `b` (0 for a tree without branches) -/
def minTransferPure (L : List String) (n : Nat) (b : T) : Nat :=
  match b.splits.map fun s => transferDist L s.below n with
  | [] => 0
  | x :: xs => xs.foldl min x

/-- transfer bootstrap expectation with the plain minimum (what the oracle evaluates;
    equal to `tbeSpec` on the property's inputs: theorem `tbe_spec_pure`) -/
def tbeSpecPure (all below : List String) (bs : List T) : Rat :=
  let L := lightSide all below
  1 - (((bs.map (minTransferPure L all.length)).sum : Nat) : Rat) / (bs.length : Rat) / ((L.length : Rat) - 1)

/-- transfer bootstrap expectation -/
def tbeSpec (all below : List String) (bs : List T) : Rat :=
  let L := lightSide all below
  1 - (((bs.map (minTransfer L all.length)).sum : Nat) : Rat) / (bs.length : Rat) / ((L.length : Rat) - 1)

/- ## hypotheses (evaluated and tagged by the driver) -/

def sameTaxa (r b : T) : Bool := setEq r.tipNames b.tipNames

/-- unique tip names, at least one; the root is not a tip (what the theorems need) -/
def treeOK (t : T) : Bool := reinitOk t && t.kids.length != 1

/-- … and no single-child node (a phylogeny as the property means it; gates the oracle) -/
def wfTree (t : T) : Bool := treeOK t && t.noSingle

/-- the property's quantifier: well-formed trees on the same ≥ 4 taxa, non-empty collection -/
def inputsOK (r : T) (bs : List T) : Bool :=
  wfTree r && decide (4 ≤ ntips r) && !bs.isEmpty && bs.all fun b => wfTree b && sameTaxa r b

/-- what the theorems assume: trees with unique tips whose root is not a tip, on
    the same taxa, non-empty collection -/
def hypOK (r : T) (bs : List T) : Bool :=
  treeOK r && !bs.isEmpty && bs.all fun b => treeOK b && sameTaxa r b

/-- precondition of `TBE`: the branch ids of the reference index an array of `#branches` cells -/
def idsInRange (r : T) : Bool :=
  r.splits.all fun s => decide (0 ≤ s.e.id) && decide (s.e.id < (r.splits.length : Int))

/-- the supports the definitions give, branch by branch (`Edges()` order): branches
    whose split is trivial (a tip on one side) keep what they had (FBP) / get none (TBE) -/
def fbpOf (r : T) (bs : List T) (s : SplitE) : Rat :=
  if 2 ≤ depth r.tipNames s.below then fbpSpec r.tipNames s.below bs else s.e.sup

def tbeOf (r : T) (bs : List T) (s : SplitE) : Rat :=
  if 2 ≤ depth r.tipNames s.below then tbeSpec r.tipNames s.below bs else NIL

def fbpExpected (r : T) (bs : List T) : List Rat := r.splits.map (fbpOf r bs)

def tbeExpected (r : T) (bs : List T) : List Rat := r.splits.map (tbeOf r bs)

/-- two trees present the same unrooted tree: every branch of one defines the split
    of some branch of the other (re-rooting complements a side, rotating children
    permutes the list; neither changes this relation) -/
def splitsEquiv (all : List String) (b b' : T) : Bool :=
  (b.splits.all fun s => b'.splits.any fun s' => sameSplit all s.below s'.below) &&
  (b'.splits.all fun s' => b.splits.any fun s => sameSplit all s'.below s.below)

def zipAll {α β} (f : α → β → Bool) : List α → List β → Bool
  | [], [] => true
  | a :: as, b :: bs => f a b && zipAll f as bs
  | _, _ => false

/-- gate of the oracle, in Spec's own words (no function of the model under judgement): a tree
    whose tips have distinct names, at least one -/
def specUniq (t : T) : Bool := decide t.tipNames.Nodup && !t.tipNames.isEmpty

/-- … whose root is not a tip and which has no single-child node: a phylogeny of the property -/
def specWf (t : T) : Bool := specUniq t && t.kids.length != 1 && t.noSingle

/- ## oracle: Spec predicates on the implementation's own output -/

def absR (a : Rat) : Rat := if a ≥ 0 then a else -a

/-- `a` is within one rounding of `b` (a single float64 division of exact operands) -/
def approxRel (a b : Rat) : Bool := absR (a - b) * (4503599627370496 : Rat) ≤ absR b

/-- `a` is within 4 ulp(1) of `b` (three roundings of values in [0,1]) -/
def approxAbs (a b : Rat) : Bool := absR (a - b) * (1125899906842624 : Rat) ≤ 1

def unit (x : Rat) : Bool := decide (0 ≤ x) && decide (x ≤ 1)

/-- one branch of the reference after FBP: `before` is its support before the call -/
def fbpEdgeOK (all : List String) (bs : List T) (s : SplitE) (after : Rat) : Bool :=
  if s.tip || depth all s.below ≤ 1 then after == s.e.sup
  else approxRel after (fbpSpec all s.below bs) && unit after

def tbeEdgeOK (all : List String) (bs : List T) (s : SplitE) (after : Rat) : Bool :=
  if s.tip || depth all s.below ≤ 1 then after == NIL
  else approxAbs after (tbeSpecPure all s.below bs) && unit after &&
       ((after == 1) == bs.all (containsSplit all s.below))

def fbpOK (r : T) (bs : List T) (after : List Rat) : Bool :=
  zipAll (fbpEdgeOK r.tipNames bs) r.splits after

def tbeOK (r : T) (bs : List T) (after : List Rat) : Bool :=
  zipAll (tbeEdgeOK r.tipNames bs) r.splits after

/-- transfer support is never below Felsenstein support (on the supported branches) -/
def fbpLeTbeOK (r : T) (fa ta : List Rat) : Bool :=
  zipAll (fun s (ft : Rat × Rat) => s.tip || depth r.tipNames s.below ≤ 1 ||
      decide (ft.1 * (1125899906842624 : Rat) ≤ ft.2 * (1125899906842624 : Rat) + 1))
    r.splits (fa.zip ta)

/-- the supports as a function of the unrooted split (for the invariance clause) -/
def supMap (t : T) : List (List String × Rat) := t.usplits.map fun u => (u.side, u.sup)

def supMapEq (a b : List (List String × Rat)) : Bool :=
  zipAll (fun x y => x.1 == y.1 && approxAbs x.2 y.2) a b

end Gotree.C10
