/-
  C14 round 2 — the outer loop of `CutEdgesMaxLength` on the pointer graph, part 5: the loop
  itself, by recursion on the tree.  Core Lean only.
-/
import Gotree.Lemmas.C14Cut5

namespace Gotree.C14
open Gotree Gotree.C14.Go

theorem loop_nil (g : G) (thr : Rat) (bags : List Bag) (vis : Array Bool) (c : Nat) : LoopOK g thr bags vis c [] [] := by
  refine ⟨[], vis, by simp [T.sizeL]; rfl, rfl, fun j hj => ?_, fun _ _ => rfl, LPerm.refl _⟩
  simp [Seg, T.sizeL] at hj; omega

theorem seg_cons (c : Nat) (e : EdgeD) (t : T) (r : Kids) (j : Nat) (hc : 1 ≤ c) :
    Seg c ((e, t) :: r) j ↔ (j = c - 1 ∨ Seg (c + 1) t.kids j ∨ Seg (c + t.size) r j) := by
  obtain ⟨d, pp, k⟩ := t
  simp only [Seg, sizeL_cons, size_node, T.kids_node]
  omega

theorem foldlM_range3 (g : G) (thr : Rat) (s a b : Nat) (st : List Bag × Array Bool) :
    (List.range' s (1 + (a + b))).foldlM (cutStep g thr) st =
      (cutStep g thr st s).bind fun s1 => ((List.range' (s + 1) a).foldlM (cutStep g thr) s1).bind fun s2 =>
        (List.range' (s + 1 + a) b).foldlM (cutStep g thr) s2 := by
  have : List.range' s (1 + (a + b)) = s :: (List.range' (s + 1) a ++ List.range' (s + 1 + a) b) := by
    rw [List.range'_append_1, Nat.add_comm 1 (a + b), List.range'_succ]
  rw [this, List.foldlM_cons]
  cases cutStep g thr st s with
  | error e => rfl
  | ok s1 =>
    show (List.range' (s + 1) a ++ List.range' (s + 1 + a) b).foldlM (cutStep g thr) s1 = _
    rw [List.foldlM_append]
    rfl

theorem LoopOK_perm {g : G} {thr : Rat} {bags : List Bag} {vis : Array Bool} {c : Nat} {suf : Kids}
    {ex ex' : List (List String)} (h : LoopOK g thr bags vis c suf ex) (hp : ex.Perm ex') : LoopOK g thr bags vis c suf ex' := by
  obtain ⟨nb, v', h1, h2, h3, h4, h5⟩ := h
  exact ⟨nb, v', h1, h2, h3, h4, h5.perm_right hp⟩

mutual
theorem loopT (g : G) (thr : Rat) : ∀ (t : T) (c p : Nat) (e : EdgeD) (flTop : Bool) (bags : List Bag) (vis : Array Bool),
    p < c → Sub g.nodes c (flatT (some p) c t) → Sub g.edges c (gedgesT c t) → g.edges[c - 1]? = some ⟨p, c, e⟩ →
    (flTop = false → ¬ e.len < thr) → vis.size = g.edges.size → ((leafIdxT c t).map g.name).Nodup →
    (∀ j, Seg (c + 1) t.kids j → vis.getD j false = (flTop && decide (j ∈ reachT thr c t))) →
    LoopOK g thr bags vis (c + 1) t.kids
      ((if flTop || t.kids.isEmpty then [] else optBag (comp thr t).1) ++ (comp thr t).2)
  | .node d pp k, c, p, e, flTop, bags, vis, hp, hs, he, hedge, hlong, hsz, hnm, hvis => by
    by_cases hk : k = []
    · subst hk
      simpa [comp] using loop_nil g thr bags vis (c + 1)
    · rw [flatT_node] at hs
      rw [gedgesT_node] at he
      have hnode := hs.head
      have hok := kids_ok g k (c + 1) c (by omega) hs.tail (by simpa using he)
      have hlen : (insAt ((kidIdx (c + 1) k).map fun x => (x, x - 1)) pp (p, c - 1)).length = k.length + 1 := by
        simp [insAt, kidIdx_length]; omega
      have hkl : k.length ≠ 0 := fun h0 => hk (List.length_eq_zero_iff.1 h0)
      have hpairs : (kidIdx (c + 1) k).map (fun x => (x, x - 1)) = (kidsIdx (c + 1) k).map fun x => (x.1, x.1 - 1) := by
        rw [kidIdx_eq, List.map_map]; rfl
      have hpre : LoopPre g thr c k [] k flTop vis := by
        refine ⟨rfl, hok, tip_false_of_len g c _ hnode (by rw [hlen]; omega), fun hfl => ⟨⟨hok, _, hnode, Or.inr ⟨pp, p, _, hp, ?_, hedge, hlong hfl⟩⟩, by simp⟩,
          hsz, by rw [leafIdxL_kidsIdx]; rw [leafIdxT_node_ne c d pp hk] at hnm; exact hnm, ?_⟩
        · simp only [hpairs]
        · have e0 : c + 1 + T.sizeL ([] : Kids) = c + 1 := by simp [T.sizeL]
          rw [e0]
          intro j hj
          have := hvis j hj
          simp only [reachT] at this
          exact this
      have := loopL g thr k c k [] flTop bags vis hpre
      have hke : k.isEmpty = false := by cases k <;> simp_all
      have hcomp : comp thr (.node d pp k) = compL thr k := by
        cases k with
        | nil => exact absurd rfl hk
        | cons x k => simp only [comp]
      simpa [LoopGoal, T.sizeL, hke, hcomp] using this
theorem loopL (g : G) (thr : Rat) : ∀ (suf : Kids) (p : Nat) (all pre : Kids) (fl : Bool) (bags : List Bag) (vis : Array Bool),
    LoopPre g thr p all pre suf fl vis → LoopGoal g thr p all pre suf fl bags vis
  | [], p, all, pre, fl, bags, vis, h => by
    unfold LoopGoal
    have : (if fl = true then [] else optBag (compL thr all).1) ++ (compL thr []).2 = [] := by
      cases fl with
      | true => simp [compL]
      | false =>
        have hl := (h.ctx rfl).2
        have : all = pre := by rw [h.split]; simp
        rw [this, (open_long thr pre (p + 1) hl).2.2]
        simp [optBag, compL]
    rw [this]
    exact loop_nil g thr bags vis _
  | (e, t) :: r, p, all, pre, fl, bags, vis, h => by
    unfold LoopGoal
    -- names and indices
    let c := p + 1 + T.sizeL pre
    have hc : c = p + 1 + T.sizeL pre := rfl
    rw [← hc]
    have hc1 : 1 ≤ c := by omega
    have hkidx : kidsIdx (p + 1) all = kidsIdx (p + 1) pre ++ (c, (e, t)) :: kidsIdx (c + t.size) r := by
      rw [h.split, kidsIdx_append]; simp [kidsIdx, hc]
    have hxmem : (c, (e, t)) ∈ kidsIdx (p + 1) all := by rw [hkidx]; simp
    have hx := h.kids _ hxmem
    have hedge : g.edges[c - 1]? = some ⟨p, c, e⟩ := hx.edge
    have hxn : Sub g.nodes c (flatT (some p) c t) := hx.nodes
    have hxe : Sub g.edges c (gedgesT c t) := hx.edges
    have hpc : p < c := hx.gt
    have hi : c - 1 < g.edges.size := by
      by_cases hlt : c - 1 < g.edges.size
      · exact hlt
      · rw [Array.getElem?_eq_none (by omega)] at hedge; cases hedge
    -- the segment: this branch, the branches inside `t`, the rest
    have hsz : T.sizeL ((e, t) :: r) = 1 + (T.sizeL t.kids + T.sizeL r) := by
      obtain ⟨d, pp, k⟩ := t
      rw [sizeL_cons, size_node]; simp only [T.kids_node]; omega
    have hts : t.size = 1 + T.sizeL t.kids := by obtain ⟨d, pp, k⟩ := t; rw [size_node]; simp only [T.kids_node]
    have hc2 : c - 1 + 1 = c := by omega
    have hc3 : c + T.sizeL t.kids = c + t.size - 1 := by omega
    -- the rest of the loop, given the state after this branch
    have hrest : ∀ (bags1 : List Bag) (vis1 : Array Bool) (flT flR : Bool) (sb : List Bag) (ex1 : List (List String)),
        cutStep g thr (bags, vis) (c - 1) = .ok (bags ++ sb, vis1) →
        vis1.size = vis.size → vis1.getD (c - 1) false = true →
        (∀ j, j ≠ c - 1 → ¬ Seg (c + t.size) r j → ¬ Seg (c + 1) t.kids j → vis1.getD j false = vis.getD j false) →
        (flT = false → ¬ e.len < thr) →
        (∀ j, Seg (c + 1) t.kids j → vis1.getD j false = (flT && decide (j ∈ reachT thr c t))) →
        (∀ j, Seg (c + t.size) r j → vis1.getD j false = (flR && decide (j ∈ reachL thr (c + t.size) r))) →
        (flR = false → NodeCtx g thr p all ∧ ∀ x ∈ pre ++ [(e, t)], ¬ x.1.len < thr) →
        LPerm (sb.map fun b => b.map (·.1)) ex1 →
        LoopOK g thr bags vis c ((e, t) :: r)
          (ex1 ++ (((if flT || t.kids.isEmpty then [] else optBag (comp thr t).1) ++ (comp thr t).2) ++
            ((if flR then [] else optBag (compL thr all).1) ++ (compL thr r).2))) := by
      intro bags1 vis1 flT flR sb ex1 hstep hs1 hv1 hout hlT hvT hvR hctxR hsb
      have hnmT : ((leafIdxT c t).map g.name).Nodup := by
        have := h.names
        rw [hkidx, List.flatMap_append, List.flatMap_cons, List.map_append, List.map_append] at this
        exact (List.nodup_append.1 (List.nodup_append.1 this).2.1).1
      obtain ⟨nbT, vis2, hT1, hT2, hT3, hT4, hT5⟩ :=
        loopT g thr t c p e flT (bags ++ sb) vis1 hpc hxn hxe hedge hlT (by rw [hs1, h.size]) hnmT hvT
      have hpreR : LoopPre g thr p all (pre ++ [(e, t)]) r flR vis2 := by
        have hcR : p + 1 + T.sizeL (pre ++ [(e, t)]) = c + t.size := by
          rw [sizeL_append, sizeL_cons]; simp [T.sizeL]; omega
        refine ⟨by rw [h.split]; simp, h.kids, h.notTip, hctxR, by rw [hT2, hs1, h.size], h.names, ?_⟩
        rw [hcR]
        intro j hj
        have hnT : ¬ Seg (c + 1) t.kids j := by
          simp only [Seg] at hj ⊢; omega
        rw [hT4 j hnT, hvR j hj]
      have hR := loopL g thr r p all (pre ++ [(e, t)]) flR (bags ++ sb ++ nbT) vis2 hpreR
      unfold LoopGoal at hR
      have hcR : p + 1 + T.sizeL (pre ++ [(e, t)]) = c + t.size := by
        rw [sizeL_append, sizeL_cons]; simp [T.sizeL]; omega
      rw [hcR] at hR
      obtain ⟨nbR, vis3, hR1, hR2, hR3, hR4, hR5⟩ := hR
      refine ⟨sb ++ nbT ++ nbR, vis3, ?_, by rw [hR2, hT2, hs1], ?_, ?_, ?_⟩
      · rw [hsz, foldlM_range3 g thr (c - 1) (T.sizeL t.kids) (T.sizeL r), hstep, hc2]
        have hT1' : (List.range' c (T.sizeL t.kids)).foldlM (cutStep g thr) (bags ++ sb, vis1) = .ok (bags ++ sb ++ nbT, vis2) := by
          have : c + 1 - 1 = c := by omega
          rw [this] at hT1; exact hT1
        have hR1' : (List.range' (c + T.sizeL t.kids) (T.sizeL r)).foldlM (cutStep g thr) (bags ++ sb ++ nbT, vis2) =
            .ok (bags ++ sb ++ nbT ++ nbR, vis3) := by
          have : c + t.size - 1 = c + T.sizeL t.kids := by omega
          rw [this] at hR1; exact hR1
        simp only [Except.bind, hT1']
        rw [hR1']
        simp only [List.append_assoc]
      · intro j hj
        rcases (seg_cons c e t r j hc1).1 hj with rfl | hj' | hj'
        · have n1 : ¬ Seg (c + t.size) r (c - 1) := by simp only [Seg]; omega
          have n2 : ¬ Seg (c + 1) t.kids (c - 1) := by simp only [Seg]; omega
          rw [hR4 _ n1, hT4 _ n2, hv1]
        · have n1 : ¬ Seg (c + t.size) r j := by simp only [Seg] at hj' ⊢; omega
          rw [hR4 _ n1, hT3 _ hj']
        · exact hR3 _ hj'
      · intro j hj
        have hn := (not_congr (seg_cons c e t r j hc1)).1 hj
        simp only [not_or] at hn
        rw [hR4 _ hn.2.2, hT4 _ hn.2.1, hout j hn.1 hn.2.2 hn.2.1]
      · have : ((sb ++ nbT ++ nbR).map fun b => b.map (·.1)) =
            (sb.map fun b => b.map (·.1)) ++ ((nbT.map fun b => b.map (·.1)) ++ (nbR.map fun b => b.map (·.1))) := by
          simp [List.append_assoc]
        rw [this]
        exact hsb.append (hT5.append hR5)
    -- the value of `visited` at this branch
    have hvc := h.vis (c - 1) (by simp only [Seg, ← hc]; rw [hsz]; omega)
    rw [← hc] at hvc
    by_cases hshort : e.len < thr
    · have hmem : (c - 1) ∈ reachL thr c ((e, t) :: r) := by simp [reachL, hshort]
      have hcompS : (compL thr ((e, t) :: r)).2 = (comp thr t).2 ++ (compL thr r).2 := by simp [compL, hshort]
      cases fl with
      | true =>
        -- already flooded from above or from an earlier child: skip
        have hv : vis.getD (c - 1) false = true := by rw [hvc]; simp [hmem]
        have := hrest bags vis true true [] [] (by simpa using step_skip g thr bags vis (c - 1) _ hedge hv) rfl hv
          (fun _ _ _ _ => rfl) (by simp)
          (fun j hj => by
            have := h.vis j (by rw [← hc]; exact (seg_cons c e t r j hc1).2 (Or.inr (Or.inl hj)))
            rw [← hc] at this
            rw [this]
            have r1 : j ≠ c - 1 := by simp only [Seg] at hj; omega
            have r2 : j ∉ reachL thr (c + t.size) r := fun hm => by
              have := reachL_range thr r (c + t.size) (by omega) j hm
              simp only [Seg] at hj; omega
            simp [reachL, hshort, r1, r2])
          (fun j hj => by
            have := h.vis j (by rw [← hc]; exact (seg_cons c e t r j hc1).2 (Or.inr (Or.inr hj)))
            rw [← hc] at this
            rw [this]
            have r1 : j ≠ c - 1 := by simp only [Seg] at hj; have := size_pos t; omega
            have r2 : j ∉ reachT thr c t := fun hm => by
              have := reachT_range thr t c j hm
              simp only [Seg] at hj; omega
            simp [reachL, hshort, r1, r2])
          (by simp) (LPerm.refl _)
        simpa [hcompS, List.append_assoc] using this
      | false =>
        -- the first short branch below a node that is not flooded yet: flood now
        obtain ⟨ctx, hprelong⟩ := h.ctx rfl
        obtain ⟨nd, hnd, _⟩ := ctx.node
        have hv : vis.getD (c - 1) false = false := by rw [hvc]; simp
        have hall : all ≠ [] := by rw [h.split]; simp
        have htp : NodeCtx.tipPart g p nd = [] := by
          have := h.notTip
          simp only [G.tip, hnd] at this
          simp [NodeCtx.tipPart, this]
        let l := kidsIdx (p + 1) all
        have hne1 : ∀ y ∈ kidsIdx (p + 1) pre, y.1 ≠ c := by
          intro y hy; have := kidsIdx_range pre (p + 1) y hy
          have := size_pos y.2.2; omega
        have hne2 : ∀ y ∈ kidsIdx (c + t.size) r, y.1 ≠ c := by
          intro y hy; have := kidsIdx_range r (c + t.size) y hy
          have := size_pos t; omega
        obtain ⟨hpo, hpr, hpc'⟩ := open_long thr pre (p + 1) hprelong
        have hxo : openW thr c (c, (e, t)) = [] := by simp [openW]
        have hxr : reachW thr c (c, (e, t)) = [] := by simp [reachW]
        have hlo : l.flatMap (openW thr c) = openL thr (c + t.size) r := by
          show (kidsIdx (p + 1) all).flatMap _ = _
          rw [hkidx, List.flatMap_append, List.flatMap_cons, (openW_list thr c pre (p + 1) hne1).1,
            (openW_list thr c r (c + t.size) hne2).1, hpo, hxo]; simp
        have hlr : l.flatMap (reachW thr c) = reachL thr (c + t.size) r := by
          show (kidsIdx (p + 1) all).flatMap _ = _
          rw [hkidx, List.flatMap_append, List.flatMap_cons, (openW_list thr c pre (p + 1) hne1).2,
            (openW_list thr c r (c + t.size) hne2).2, hpr, hxr]; simp
        have hrmem : ∀ x ∈ kidsIdx (c + t.size) r, x ∈ kidsIdx (p + 1) all := by
          intro x hx'; rw [hkidx]; exact List.mem_append.2 (Or.inr (List.mem_cons_of_mem _ hx'))
        have hfuel : ∀ x ∈ kidsIdx (p + 1) all, x.1 ≠ c → x.2.2.size ≤ g.nodes.size := by
          intro x hx' _
          have h1 : Sub g.nodes x.1 (flatT (some p) x.1 x.2.2) := (h.kids x hx').nodes
          have := h1.bound; rw [flatT_length] at this; omega
        have hA := flood_at g thr p all hall ctx nd hnd g.nodes.size c [] (vis.set! (c - 1) true) hpc hfuel
          (by simpa [htp] using h.names)
        rw [htp, hlo, hlr] at hA
        simp only [List.nil_append] at hA
        -- names below: the leaves of `t`, then those of the later children
        have hnames := h.names
        rw [hkidx, List.flatMap_append, List.flatMap_cons, leafIdxL_kidsIdx, leafIdxL_kidsIdx, List.map_append, List.map_append] at hnames
        have hnm2 : ((leafIdxT c t).map g.name ++ (leafIdxL (c + t.size) r).map g.name).Nodup := (List.nodup_append.1 hnames).2.1
        have hnB : ((tipPairs g (openL thr (c + t.size) r)).map (·.1) ++ (leafIdxT c t).map g.name).Nodup := by
          rw [names_of_pairs]
          have hsub : ((openL thr (c + t.size) r).map g.name ++ (leafIdxT c t).map g.name).Sublist
              ((leafIdxL (c + t.size) r).map g.name ++ (leafIdxT c t).map g.name) :=
            List.Sublist.append ((openL_sub thr r (c + t.size)).map _) (List.Sublist.refl _)
          exact hsub.nodup ((List.perm_append_comm).nodup_iff.1 hnm2)
        have htsz : t.size ≤ g.nodes.size + 1 := by
          have := hxn.bound; rw [flatT_length] at this; omega
        have hB := flood_down g thr t (g.nodes.size + 1) c p (tipPairs g (openL thr (c + t.size) r))
          (markAll (vis.set! (c - 1) true) (reachL thr (c + t.size) r)) htsz hpc hxn hxe ⟨_, hedge⟩ hnB
        have hstep := step_flood g thr bags vis (c - 1) p c e _ _ _ _ hedge hv hshort hA hB
        let bagB := tipPairs g (openL thr (c + t.size) r) ++ tipPairs g (openT thr c t)
        let visB := markAll (markAll (vis.set! (c - 1) true) (reachL thr (c + t.size) r)) (reachT thr c t)
        have hstep' : cutStep g thr (bags, vis) (c - 1) = .ok (bags ++ (if bagB.length > 0 then [bagB] else []), visB) := by
          rw [hstep]
          show Except.ok (if bagB.length > 0 then bags ++ [bagB] else bags, visB) = _
          split <;> simp
        -- reading `visited` after the two floods
        have hsz0 : (vis.set! (c - 1) true).size = g.edges.size := by simp [h.size]
        have hRb : ∀ j ∈ reachL thr (c + t.size) r, j < (vis.set! (c - 1) true).size := by
          intro j hj; rw [hsz0]
          exact reach_bound g thr p (p + 1) all r (c + t.size) (fun x hx' => h.kids x (hrmem x hx')) j hj
        have hTb : ∀ j ∈ reachT thr c t, j < (markAll (vis.set! (c - 1) true) (reachL thr (c + t.size) r)).size := by
          intro j hj; rw [markAll_size, hsz0]
          have h1 := reachT_range thr t c j hj
          have h2 := hxe.bound
          have h3 := gedgesT_length c t
          omega
        have hget : ∀ j, visB.getD j false =
            (((vis.set! (c - 1) true).getD j false || decide (j ∈ reachL thr (c + t.size) r)) || decide (j ∈ reachT thr c t)) := by
          intro j
          show (markAll _ _).getD j false = _
          rw [markAll_get _ _ j hTb, markAll_get _ _ j hRb]
        have hset : ∀ j, (vis.set! (c - 1) true).getD j false = (if j = c - 1 then true else vis.getD j false) := by
          intro j
          by_cases hj : j = c - 1
          · subst hj
            have : c - 1 < vis.size := by rw [h.size]; exact hi
            simp [Array.getD_eq_getD_getElem?, Array.set!_eq_setIfInBounds, this]
          · have hj' : ¬ c - 1 = j := fun e => hj e.symm
            simp [Array.getD_eq_getD_getElem?, Array.set!_eq_setIfInBounds, Array.getElem?_setIfInBounds, hj, hj']
        have hvfalse : ∀ j, Seg c ((e, t) :: r) j → vis.getD j false = false := by
          intro j hj
          have := h.vis j (by rw [← hc]; exact hj)
          rw [this]; simp
        have hnames2 : (bagB.map (·.1)).Perm ((compL thr all).1) := by
          show ((tipPairs g _ ++ tipPairs g _).map (·.1)).Perm _
          rw [List.map_append, names_of_pairs, names_of_pairs, openT_names g thr t c (some p) hxn,
            openL_names_kids g thr p r (c + t.size) (fun x hx' => (h.kids x (hrmem x hx')).nodes)]
          have : (compL thr all).1 = (comp thr t).1 ++ (compL thr r).1 := by
            rw [h.split, (compL_append thr pre ((e, t) :: r)).1, hpc']
            simp [compL, hshort]
          rw [this]
          exact List.perm_append_comm
        have := hrest bags visB true true (if bagB.length > 0 then [bagB] else []) (optBag (compL thr all).1) hstep'
          (by show (markAll _ _).size = _; rw [markAll_size, markAll_size]; simp)
          (by rw [hget, hset]; simp)
          (fun j hj1 hj2 hj3 => by
            rw [hget, hset]
            have r1 : j ∉ reachL thr (c + t.size) r := fun hm => hj2 (by
              have := reachL_range thr r (c + t.size) (by omega) j hm
              simp only [Seg]; omega)
            have r2 : j ∉ reachT thr c t := fun hm => hj3 (by
              have := reachT_range thr t c j hm
              simp only [Seg]; omega)
            simp [hj1, r1, r2])
          (by simp)
          (fun j hj => by
            rw [hget, hset]
            have r0 : j ≠ c - 1 := by simp only [Seg] at hj; omega
            have r1 : j ∉ reachL thr (c + t.size) r := fun hm => by
              have := reachL_range thr r (c + t.size) (by omega) j hm
              simp only [Seg] at hj; omega
            have := hvfalse j ((seg_cons c e t r j hc1).2 (Or.inr (Or.inl hj)))
            simp [r0, r1, this])
          (fun j hj => by
            rw [hget, hset]
            have r0 : j ≠ c - 1 := by simp only [Seg] at hj; have := size_pos t; omega
            have r2 : j ∉ reachT thr c t := fun hm => by
              have := reachT_range thr t c j hm
              simp only [Seg] at hj; omega
            have := hvfalse j ((seg_cons c e t r j hc1).2 (Or.inr (Or.inr hj)))
            simp [r0, r2, this])
          (by simp)
          (by rw [optBag_names]; exact LPerm.optBag hnames2)
        simpa [hcompS, List.append_assoc] using this
    · -- a branch that is not shorter than the threshold: its tips get their own bags
      have hnl : (c - 1) ∉ reachL thr c ((e, t) :: r) := by
        simp only [reachL, hshort, if_false, List.nil_append]
        intro hm
        have := reachL_range thr r (c + t.size) (by omega) _ hm
        have := size_pos t; omega
      have hv : vis.getD (c - 1) false = false := by rw [hvc]; simp [hnl]
      have hstep := step_long g thr bags vis (c - 1) p c e hedge hv hshort h.notTip
      have hcompL : (compL thr ((e, t) :: r)).2 = optBag (comp thr t).1 ++ ((comp thr t).2 ++ (compL thr r).2) := by
        simp only [compL, hshort, if_false, optBag]
        rcases comp thr t with ⟨o, cc⟩
        rcases compL thr r with ⟨o', c'⟩
        simp
      have hset : ∀ j, (vis.set! (c - 1) true).getD j false = (if j = c - 1 then true else vis.getD j false) := by
        intro j
        by_cases hj : j = c - 1
        · subst hj
          have : c - 1 < vis.size := by rw [h.size]; exact hi
          simp [Array.getD_eq_getD_getElem?, Array.set!_eq_setIfInBounds, this]
        · have hj' : ¬ c - 1 = j := fun e => hj e.symm
          simp [Array.getD_eq_getD_getElem?, Array.set!_eq_setIfInBounds, Array.getElem?_setIfInBounds, hj, hj']
      have hvj : ∀ j, Seg c ((e, t) :: r) j → vis.getD j false = (fl && decide (j ∈ reachL thr (c + t.size) r)) := by
        intro j hj
        have := h.vis j (by rw [← hc]; exact hj)
        rw [← hc] at this
        rw [this]; simp [reachL, hshort]
      -- is the node below a tip?
      obtain ⟨d, pp, k⟩ := t
      have hxn' := hxn
      rw [flatT_node] at hxn'
      have hnodec := hxn'.head
      have hlenc : (insAt ((kidIdx (c + 1) k).map fun x => (x, x - 1)) pp (p, c - 1)).length = k.length + 1 := by
        simp [insAt, kidIdx_length]; omega
      have htipc : g.tip c = k.isEmpty := by
        simp only [G.tip, hnodec, hlenc]
        cases k <;> simp
      have hnamec : g.name c = d.name := by simp [G.name, hnodec]
      have hex : LPerm ((if g.tip c then [[(g.name c, c)]] else ([] : List Bag)).map fun b => b.map (·.1))
          (if k.isEmpty then optBag (comp thr (.node d pp k)).1 else []) := by
        rw [htipc]
        cases k with
        | nil => simp [comp, optBag, hnamec]; exact LPerm.refl _
        | cons x k => simp; exact LPerm.refl _
      have := hrest bags (vis.set! (c - 1) true) false fl _ _ hstep (by simp)
        (by rw [hset]; simp) (fun j hj1 _ _ => by rw [hset]; simp [hj1]) (fun _ => hshort)
        (fun j hj => by
          rw [hset]
          have r0 : j ≠ c - 1 := by simp only [Seg] at hj; omega
          have r1 : j ∉ reachL thr (c + (T.node d pp k).size) r := fun hm => by
            have := reachL_range thr r _ (by omega) j hm
            simp only [Seg] at hj; omega
          have := hvj j ((seg_cons c e _ r j hc1).2 (Or.inr (Or.inl hj)))
          simp [r0, this, r1])
        (fun j hj => by
          rw [hset]
          have r0 : j ≠ c - 1 := by simp only [Seg] at hj; have := size_pos (T.node d pp k); omega
          have := hvj j ((seg_cons c e _ r j hc1).2 (Or.inr (Or.inr hj)))
          simp [r0, this])
        (fun hfl => ⟨(h.ctx hfl).1, fun x hx' => by
          rcases List.mem_append.1 hx' with h' | h'
          · exact (h.ctx hfl).2 x h'
          · simp only [List.mem_singleton] at h'; rw [h']; exact hshort⟩)
        hex
      rw [hcompL]
      refine LoopOK_perm this ?_
      cases hk : k.isEmpty with
      | true =>
        have : k = [] := by cases k <;> simp_all
        subst this
        simp only [T.kids_node, List.isEmpty_nil, Bool.or_true, if_true, comp, List.nil_append, List.append_nil]
        rw [List.perm_iff_count]; intro z; simp only [List.count_append]; omega
      | false =>
        simp only [T.kids_node, hk, Bool.or_false, Bool.false_eq_true, if_false, List.nil_append]
        rw [List.perm_iff_count]; intro z; simp only [List.count_append]; omega

end
end Gotree.C14
