/-
  C06 — trees whose root is itself a tip (one neighbour): `RemoveTips` with the
  proposed repair of `removeTip` (`removeTipProposed`) still returns the induced subtree,
  whether the tip root is kept or removed.  First, `Ind K` (split list with data) implies
  `RootEff K` (splits and path lengths), so that one relation suffices here.
  Core Lean only.
-/
import Gotree.Lemmas.C06DataSpec

namespace Gotree.C06
open Gotree Gotree.C14

theorem sep_of_sameSplit {K : List String} {s s' : SplitE} (h : sameSplit K s.below s'.below)
    (a b : String) (ha : a ∈ K) (hb : b ∈ K) : s.sep a b = s'.sep a b := by
  rcases h with e | e
  · have e1 := e a ha; have e2 := e b hb
    simp only [SplitE.sep, List.contains_eq_mem]
    by_cases m1 : a ∈ s'.below <;> by_cases m2 : b ∈ s'.below <;> simp_all
  · exact sep_compl e a b ha hb

theorem RootEff.refl (K : List String) (L : List SplitE) : RootEff K L L :=
  ⟨fun _ _ _ _ _ => rfl, fun h => h, fun s hs => ⟨s, hs, sameSplit.rfl' _ _⟩,
    fun s hs _ _ => ⟨s, hs, sameSplit.rfl' _ _⟩⟩

theorem RootEff.append {K : List String} {A A' B B' : List SplitE} (h : RootEff K A A') (g : RootEff K B B') :
    RootEff K (A ++ B) (A' ++ B') := by
  refine ⟨fun hl a b ha hb => ?_, fun hl s' hs' => ?_, fun s' hs' => ?_, fun s hs h1 h2 => ?_⟩
  · rw [distW_append, distW_append,
      h.dist (fun s hs => hl s (List.mem_append_left _ hs)) a b ha hb,
      g.dist (fun s hs => hl s (List.mem_append_right _ hs)) a b ha hb]
  · rcases List.mem_append.1 hs' with m | m
    · exact h.lens (fun s hs => hl s (List.mem_append_left _ hs)) s' m
    · exact g.lens (fun s hs => hl s (List.mem_append_right _ hs)) s' m
  · rcases List.mem_append.1 hs' with m | m
    · obtain ⟨s, hs, e⟩ := h.back s' m; exact ⟨s, List.mem_append_left _ hs, e⟩
    · obtain ⟨s, hs, e⟩ := g.back s' m; exact ⟨s, List.mem_append_right _ hs, e⟩
  · rcases List.mem_append.1 hs with m | m
    · obtain ⟨s', hs', e⟩ := h.fwd s m h1 h2; exact ⟨s', List.mem_append_left _ hs', e⟩
    · obtain ⟨s', hs', e⟩ := g.fwd s m h1 h2; exact ⟨s', List.mem_append_right _ hs', e⟩

/-- the relation with data implies the one about splits and path lengths -/
theorem ind_rootEff {K : List String} {L L' : List SplitE} (h : Ind K L L') : RootEff K L L' := by
  induction h with
  | refl L => exact RootEff.refl K L
  | trans _ _ ih1 ih2 => exact RootEff.trans (fun a ha => ha) ih1 ih2
  | append _ _ ih1 ih2 => exact RootEff.append ih1 ih2
  | swap A B => exact RootEff.swap K A B
  | single s s' _ _ h he =>
    have hs : sameSplit K s.below s'.below := Or.inl h
    refine ⟨fun _ a b ha hb => ?_, fun hl t ht => ?_, fun t ht => ?_, fun t ht _ _ => ?_⟩
    · simp [distW_cons, distW_nil, sep_of_sameSplit hs a b ha hb, he]
    · simp at ht; subst ht; rw [he]; exact hl s (by simp)
    · simp at ht; subst ht; exact ⟨s, by simp, hs.symm'⟩
    · simp at ht; subst ht; exact ⟨s', by simp, hs.symm'⟩
  | drop A h =>
    refine ⟨fun _ a b ha hb => ?_, fun _ t ht => (by cases ht), fun t ht => (by cases ht), fun s hs h1 _ => ?_⟩
    · rw [distW_nil, distW_both_out]
      · intro s hs; exact h s hs a ha
      · intro s hs; exact h s hs b hb
    · obtain ⟨a, ha, hm⟩ := h1
      exact absurd hm (h s hs a ha)
  | dropTop hc _ h => exact RootEff.dropTop hc [] h
  | fuse s1 s2 s' _ _ _ h1 h2 b _ he =>
    refine ⟨fun hl a c ha hc => ?_, fun _ t ht => ?_, fun t ht => ?_, fun t ht _ _ => ?_⟩
    · have l1 := hl s1 (by simp)
      have l2 := hl s2 (by simp)
      have hw : s'.e.lenOr0 = s1.e.lenOr0 + s2.e.lenOr0 := by
        rcases he with he | he
        · rw [he, fuse_lenOr0 l1 l2]
        · rw [he, fuse_lenOr0 l2 l1, Rat.add_comm]
      simp only [distW_cons, distW_nil, sep_of_sameSplit h1 a c ha hc, sep_of_sameSplit h2 a c ha hc, hw]
      split <;> simp [Rat.add_zero]
    · simp at ht; subst ht
      rcases he with he | he <;> rw [he] <;> exact fuse_lenOK _ _ _
    · simp at ht; subst ht; exact ⟨s1, by simp, h1.symm'⟩
    · simp at ht
      rcases ht with rfl | rfl
      · exact ⟨s', by simp, h1.symm'⟩
      · exact ⟨s', by simp, h2.symm'⟩

/-! ## one removal below a tip root that is kept -/

theorem length_le_one_of_all_eq {l : List String} {r : String} (hn : l.Nodup) (h : ∀ a ∈ l, a = r) :
    l.length ≤ 1 := by
  match l, hn, h with
  | [], _, _ => simp
  | [_], _, _ => simp
  | a :: b :: _, hn, h =>
    have ha := h a (by simp)
    have hb := h b (by simp)
    rw [List.nodup_cons] at hn
    exact absurd (by simp [ha, hb]) hn.1

/-- below a tip root `r`, the only branch of the root is a trivial split of any set of taxa:
    everything but `r` is below it -/
theorem lightSize_below_tip_root {K A : List String} {r : String} (hK : K.Nodup) (hA : A.Nodup)
    (h : ∀ a ∈ K, a = r ∨ a ∈ A) : ¬ 2 ≤ lightSize K A := by
  unfold lightSize
  simp only
  have c := filter_length_compl K A.contains
  have e := count_swap hK hA
  have : (K.filter fun n => !A.contains n).length ≤ 1 := by
    apply length_le_one_of_all_eq (r := r) (hK.filter _)
    intro a ha
    simp only [List.mem_filter, Bool.not_eq_true', List.contains_eq_mem, decide_eq_false_iff_not] at ha
    exact (h a ha.1).resolve_right ha.2
  omega

theorem tipNames_rt (d : NodeD) (p : Nat) (e : EdgeD) (X : T) :
    (T.node d p [(e, X)]).tipNames = d.name :: X.leaves := by
  simp [T.tipNames, T.name, leavesL]

theorem removeTip_rt_keep (x : String) (d : NodeD) (p : Nat) (e : EdgeD) (X : T) (hx : d.name ≠ x)
    (hns : X.noSingleBelow = true) (hnd : (d.name :: X.leaves).Nodup) (hcount : 3 ≤ X.leaves.length) :
    ∃ e' X', removeTip x (.node d p [(e, X)]) = .ok (.node d p [(e', X')]) ∧
      (d.name :: X'.leaves).Perm ((d.name :: X.leaves).erase x) ∧ X'.noSingleBelow = true ∧
      ∀ K : List String, K.Nodup → (∀ a ∈ K, a ∈ d.name :: X'.leaves) →
        Ind K (splitsL [(e, X)]) (splitsL [(e', X')]) := by
  have hXn : X.leaves.Nodup := (List.nodup_cons.1 hnd).2
  have hndk : (leavesL [(e, X)]).Nodup := by simpa [leavesL] using hXn
  have hl := rmKids_leaves x [(e, X)]
  have hn := rmKids_ns x [(e, X)] (by simpa [noSingleL] using hns)
  have hI := fun K (hxK : x ∉ K) => rmKids_ind K x hxK [(e, X)] hndk
  have hcond : (([(e, X)] : Kids).length == 1 && d.name == x) = false := by simp [hx]
  have herase : (d.name :: X.leaves).erase x = d.name :: X.leaves.erase x := by
    simp [hx]
  have hxK : ∀ (L : List String), L.Perm (X.leaves.erase x) → ∀ K : List String, (∀ a ∈ K, a ∈ d.name :: L) → x ∉ K := by
    intro L hL K hK hm
    rcases List.mem_cons.1 (hK x hm) with h | h
    · exact hx h.symm
    · exact (hXn.mem_erase_iff.1 (hL.mem_iff.1 h)).1 rfl
  simp only [removeTip, hcond, Bool.false_eq_true, if_false]
  simp only [leavesL_single] at hl
  cases hk : rmKids x [(e, X)] with
  | notFound =>
    rw [hk] at hl
    simp only [KOutLeaves] at hl
    refine ⟨e, X, rfl, ?_, hns, fun K _ _ => Ind.refl _⟩
    rw [herase, List.erase_of_not_mem hl]
  | set ks =>
    rw [hk] at hl hn
    obtain ⟨a1, a2, _⟩ := hl
    obtain ⟨b1, b2⟩ := hn
    match ks, b1, b2, a2, hk with
    | [(e', X')], _, b2, a2, hk =>
      simp only [leavesL_single] at a2
      refine ⟨e', X', rfl, ?_, by simpa [noSingleL] using b2, fun K _ hK => ?_⟩
      · rw [herase]; exact a2.cons _
      · have := hI K (hxK _ a2 K hK)
        rw [hk] at this; exact this
  | spl i ks ei e2 c =>
    rw [hk] at hl hn
    obtain ⟨a1, a2⟩ := hl
    obtain ⟨b1, b2, b3⟩ := hn
    match ks, b1, a2, hk with
    | [], _, a2, hk =>
      simp only [leavesL, List.nil_append] at a2
      refine ⟨_, c, rfl, ?_, b3, fun K hKn hK => ?_⟩
      · rw [herase]; exact a2.cons _
      · have := hI K (hxK _ a2 K hK)
        rw [hk] at this
        have hcn : c.leaves.Nodup := a2.nodup_iff.2 (hXn.erase x)
        have hflag : ¬ 2 ≤ lightSize K c.leaves :=
          lightSize_below_tip_root hKn hcn (fun a ha => List.mem_cons.1 (hK a ha))
        have h2 := this (decide (([] : Kids).length + 1 > 1) && !c.isLeaf) (fun h => absurd h hflag)
        simpa [splitsL_single, splitsL] using h2
  | del i ks =>
    rw [hk] at hl hn
    obtain ⟨a1, a2⟩ := hl
    obtain ⟨b1, _⟩ := hn
    match ks, b1, a2 with
    | [], _, a2 =>
      exfalso
      have : (X.leaves.erase x).length = 0 := by rw [← a2.length_eq]; simp [leavesL]
      rw [List.length_erase_of_mem a1] at this
      omega

/-! ## the tip root is removed: its neighbour takes its place -/

theorem rootAfterLoss_spec (d : NodeD) (p : Nat) (ks : Kids) (h2 : 2 ≤ ks.length) (hns : noSingleL ks = true)
    (hnd : (leavesL ks).Nodup) (hcount : 3 ≤ (leavesL ks).length) :
    ∃ t', rootAfterLoss d p ks = .ok t' ∧ t'.tipNames.Perm (leavesL ks) ∧ t'.noSingle = true ∧
      3 ≤ t'.kids.length ∧
      ∀ K : List String, (∀ a ∈ K, a ∈ leavesL ks) → Ind K (splitsL ks) t'.splits := by
  match ks, h2, hns, hnd, hcount with
  | [(e0, k0), (e1, k1)], _, hns, hnd, hcount =>
    simp only [noSingleL, Bool.and_true, Bool.and_eq_true] at hns
    simp only [leavesL, List.append_nil] at hnd hcount
    have hdis := disjoint_of_nodup_append hnd
    have n0 : k0.leaves.Nodup := (List.nodup_append.1 hnd).1
    have n1 : k1.leaves.Nodup := (List.nodup_append.1 hnd).2.1
    have hL : splitsL [(e0, k0), (e1, k1)] =
        [(⟨k0.leaves, e0, k0.isLeaf⟩ : SplitE)] ++ (k0.splitsBelow ++ ([(⟨k1.leaves, e1, k1.isLeaf⟩ : SplitE)] ++ k1.splitsBelow)) := by
      simp [splitsL]
    have hLv : leavesL [(e0, k0), (e1, k1)] = k0.leaves ++ k1.leaves := by simp [leavesL]
    rw [hL, hLv]
    by_cases h0 : k0.kids.length > 1
    · have hk0 : k0.kids ≠ [] := by intro h'; rw [h'] at h0; simp at h0
      have hlen : 3 ≤ (k0.kids ++ [(fuseEdge e0 e1 (!k1.isLeaf), reattach k1)]).length := by simp; omega
      refine ⟨T.node k0.d 0 (k0.kids ++ [(fuseEdge e0 e1 (!k1.isLeaf), reattach k1)]),
        by simp only [rootAfterLoss, h0, if_true], ?_, ?_, hlen, fun K hK => ?_⟩
      · rw [tipNames_of_ne1 _ (by simp only [T.kids_node]; omega)]
        simp [leavesL_append, leavesL_single, leaves_of_inner k0 hk0]
      · have := hns.1
        obtain ⟨d', p', k'⟩ := k0
        simp only [T.noSingleBelow, Bool.and_eq_true] at this
        simp [T.noSingle, noSingleL_append, noSingleL_single, this.2, hns.2]
      · rw [splits_node, splitsL_append, splitsL_single, ← splitsBelow_eq k0]
        simp only [reattach_leaves, reattach_isLeaf, reattach_splitsBelow]
        have hf := Ind.fuse (K := K) ⟨k0.leaves, e0, k0.isLeaf⟩ ⟨k1.leaves, e1, k1.isLeaf⟩
          ⟨k1.leaves, fuseEdge e0 e1 (!k1.isLeaf), k1.isLeaf⟩ n0 n1 n1
          (Or.inr fun a ha => hdis a (hK a ha)) (sameSplit.rfl' _ _) (!k1.isLeaf) (flag_of_leaf K k1) (Or.inl rfl)
        have := Ind.fuseRoot _ _ _ k0.splitsBelow k1.splitsBelow hf
        simpa using this
    · by_cases h1 : k1.kids.length > 1
      · have hk1 : k1.kids ≠ [] := by intro h'; rw [h'] at h1; simp at h1
        have hlen : 3 ≤ (k1.kids ++ [(fuseEdge e0 e1 (!k0.isLeaf), reattach k0)]).length := by simp; omega
        refine ⟨T.node k1.d 0 (k1.kids ++ [(fuseEdge e0 e1 (!k0.isLeaf), reattach k0)]),
          by simp only [rootAfterLoss, h0, h1, if_true, if_false], ?_, ?_, hlen, fun K hK => ?_⟩
        · rw [tipNames_of_ne1 _ (by simp only [T.kids_node]; omega)]
          have : (leavesL k1.kids ++ k0.leaves).Perm (k0.leaves ++ k1.leaves) := by
            rw [← leaves_of_inner k1 hk1]; exact List.perm_append_comm
          simpa [leavesL_append, leavesL_single] using this
        · have := hns.2
          obtain ⟨d', p', k'⟩ := k1
          simp only [T.noSingleBelow, Bool.and_eq_true] at this
          simp [T.noSingle, noSingleL_append, noSingleL_single, this.2, hns.1]
        · rw [splits_node, splitsL_append, splitsL_single, ← splitsBelow_eq k1]
          simp only [reattach_leaves, reattach_isLeaf, reattach_splitsBelow]
          have hdis' : ∀ a ∈ K, (a ∈ k1.leaves ↔ a ∉ k0.leaves) := by
            intro a ha
            have := hdis a (hK a ha)
            constructor
            · intro h h'; exact (this.1 h') h
            · intro h; exact Decidable.by_contra fun h' => h (this.2 h')
          have hf := Ind.fuse (K := K) ⟨k1.leaves, e1, k1.isLeaf⟩ ⟨k0.leaves, e0, k0.isLeaf⟩
            ⟨k0.leaves, fuseEdge e0 e1 (!k0.isLeaf), k0.isLeaf⟩ n1 n0 n0
            (Or.inr hdis') (sameSplit.rfl' _ _) (!k0.isLeaf) (flag_of_leaf K k0) (Or.inr rfl)
          have sw := Ind.swap (K := K)
            ([(⟨k0.leaves, e0, k0.isLeaf⟩ : SplitE)] ++ k0.splitsBelow)
            ([(⟨k1.leaves, e1, k1.isLeaf⟩ : SplitE)] ++ k1.splitsBelow)
          have fr := Ind.fuseRoot _ _ _ k1.splitsBelow k0.splitsBelow hf
          exact Ind.trans (by simpa [List.append_assoc] using sw) (by simpa using fr)
      · exfalso
        have e0' := kids_of_noSingle_le1 k0 hns.1 h0
        have e1' := kids_of_noSingle_le1 k1 hns.2 h1
        rw [leaves_of_leaf k0 e0', leaves_of_leaf k1 e1'] at hcount
        simp at hcount
  | a :: b :: c :: r, _, hns, _, _ =>
    refine ⟨T.node d p (a :: b :: c :: r), rfl, ?_, hns, by simp, fun K _ => Ind.refl _⟩
    rw [tipNames_of_ne1 _ (by simp)]
    exact List.Perm.refl _

theorem removeTip_rt_remove (d : NodeD) (p : Nat) (e : EdgeD) (X : T)
    (hns : X.noSingleBelow = true) (hnd : (d.name :: X.leaves).Nodup) (hcount : 3 ≤ X.leaves.length) :
    ∃ t', removeTip d.name (.node d p [(e, X)]) = .ok t' ∧ t'.tipNames.Perm X.leaves ∧ t'.noSingle = true ∧
      3 ≤ t'.kids.length ∧
      ∀ K : List String, (∀ a ∈ K, a ∈ X.leaves) → Ind K (splitsL [(e, X)]) t'.splits := by
  have hXn : X.leaves.Nodup := (List.nodup_cons.1 hnd).2
  obtain ⟨dx, px, kx⟩ := X
  have hkx : kx ≠ [] := by
    intro h0; subst h0; simp [T.leaves] at hcount
  have hlv : (T.node dx px kx).leaves = leavesL kx := leaves_node_ne dx px hkx
  simp only [T.noSingleBelow, Bool.and_eq_true, bne_iff_ne, ne_eq] at hns
  have h2 : 2 ≤ kx.length := by
    match kx, hkx, hns.1 with
    | [_], _, h => exact absurd rfl h
    | _ :: _ :: _, _, _ => simp
  rw [hlv] at hXn hcount ⊢
  obtain ⟨t', g1, g2, g3, g4, g5⟩ := rootAfterLoss_spec dx 0 kx h2 hns.2 hXn hcount
  refine ⟨t', ?_, g2, g3, g4, fun K hK => ?_⟩
  · simp [removeTip, g1]
  · have hdrop : Ind K [(⟨leavesL kx, e, (T.node dx px kx).isLeaf⟩ : SplitE)] [] :=
      Ind.dropTop _ hXn hK
    have := Ind.append hdrop (Ind.refl (K := K) (splitsL kx))
    have h1 : Ind K (splitsL [(e, T.node dx px kx)]) (splitsL kx) := by
      simpa [splitsL_single, hlv, T.splitsBelow] using this
    exact Ind.trans h1 (g5 K hK)

/-! ## the loop of `RemoveTips` on a tree whose root is a tip -/

theorem filter_erase_flag {l : List String} (hnd : l.Nodup) (n : String) (r : List String) :
    (l.erase n).filter (fun m => !r.contains m) = l.filter (fun m => !(n :: r).contains m) := by
  rw [hnd.erase_eq_filter n, List.filter_filter]
  apply List.filter_congr
  intro m _
  by_cases hmn : m = n
  · subst hmn; simp
  · have : ¬ n = m := fun h => hmn h.symm
    simp [hmn, this]

theorem removeLoop_rt : ∀ (todo : List (String × Bool)) (d : NodeD) (p : Nat) (e : EdgeD) (X : T),
    X.noSingleBelow = true → (d.name :: X.leaves).Nodup → (todo.map (·.1)).Nodup →
    (∀ n ∈ todo.map (·.1), n ∈ d.name :: X.leaves) →
    3 + (flagged todo).length ≤ (d.name :: X.leaves).length →
    ∃ t', removeLoop todo (.node d p [(e, X)]) = .ok t' ∧
      t'.tipNames.Perm ((d.name :: X.leaves).filter fun n => !(flagged todo).contains n) ∧
      t'.noSingle = true ∧ t'.tipNames.Nodup ∧
      (if (flagged todo).contains d.name then 3 ≤ t'.kids.length else t'.kids.length = 1 ∧ t'.name = d.name) ∧
      ∀ K : List String, K.Nodup → (∀ a ∈ K, a ∈ t'.tipNames) → Ind K (splitsL [(e, X)]) t'.splits
  | [], d, p, e, X, hns, hnd, _, _, _ => by
    refine ⟨_, rfl, ?_, by simpa [T.noSingle, noSingleL] using hns, by rw [tipNames_rt]; exact hnd, ?_,
      fun K _ _ => Ind.refl _⟩
    · rw [tipNames_rt]
      have : ((d.name :: X.leaves).filter fun _ => true) = d.name :: X.leaves := List.filter_eq_self.2 (by simp)
      simp [flagged, this]
    · simp [flagged, T.name]
  | (n, false) :: r, d, p, e, X, hns, hnd, htodo, hsub, hcount => by
    have hn : n ∈ d.name :: X.leaves := hsub n (by simp)
    have hf : flagged ((n, false) :: r) = flagged r := by simp [flagged]
    rw [hf] at hcount ⊢
    simp only [List.map_cons, List.nodup_cons] at htodo
    obtain ⟨t', g1, g2⟩ := removeLoop_rt r d p e X hns hnd htodo.2
      (fun m hm => hsub m (by simp at hm ⊢; exact Or.inr hm)) hcount
    refine ⟨t', ?_, g2⟩
    simp only [removeLoop, tipNames_rt]
    simp [hn, g1]
  | (n, true) :: r, d, p, e, X, hns, hnd, htodo, hsub, hcount => by
    have hn : n ∈ d.name :: X.leaves := hsub n (by simp)
    have hf : flagged ((n, true) :: r) = n :: flagged r := by simp [flagged]
    rw [hf] at hcount ⊢
    simp only [List.map_cons, List.nodup_cons] at htodo
    have hX3 : 3 ≤ X.leaves.length := by simp at hcount; omega
    have hXn : X.leaves.Nodup := (List.nodup_cons.1 hnd).2
    have hrn : d.name ∉ X.leaves := (List.nodup_cons.1 hnd).1
    by_cases hx : d.name = n
    · -- the tip root itself goes
      subst hx
      obtain ⟨t1, h1, h2, h3, h4, h5⟩ := removeTip_rt_remove d p e X hns hnd hX3
      have h41 : t1.kids.length ≠ 1 := by omega
      have hnd1 : t1.tipNames.Nodup := h2.nodup_iff.2 hXn
      have hsub1 : ∀ m ∈ r.map (·.1), m ∈ t1.tipNames := by
        intro m hm
        have hmn : m ≠ d.name := by intro h; subst h; exact htodo.1 hm
        have := hsub m (by simp at hm ⊢; exact Or.inr hm)
        exact h2.mem_iff.2 ((List.mem_cons.1 this).resolve_left hmn)
      have hc1 : 3 + (flagged r).length ≤ t1.tipNames.length := by
        rw [h2.length_eq]; simp at hcount; omega
      obtain ⟨t', g1, g2, g3, g4, g5⟩ := removeLoop_spec r t1 h41 h3 hnd1 htodo.2 hsub1 hc1
      have hI := removeLoop_ind r t1 h41 h3 hnd1 htodo.2 hsub1 hc1 t' g1
      have hU := removeLoop_unrooted r t1 h41 h3 hnd1 htodo.2 hsub1 hc1 h4 t' g1
      have herase : (d.name :: X.leaves).erase d.name = X.leaves := by simp
      refine ⟨t', ?_, ?_, g3, g5, by simp [hU], fun K _ hK => ?_⟩
      · simp only [removeLoop, tipNames_rt]
        simp [h1, g1]
      · rw [← filter_erase_flag hnd, herase]
        exact g2.trans (h2.filter _)
      · have hK1 : ∀ a ∈ K, a ∈ t1.tipNames := fun a ha => (List.mem_filter.1 (g2.mem_iff.1 (hK a ha))).1
        exact Ind.trans (h5 K (fun a ha => h2.mem_iff.1 (hK1 a ha))) (hI K hK)
    · -- a tip below the root goes, the tip root stays
      obtain ⟨e', X', h1, h2, h3, h5⟩ := removeTip_rt_keep n d p e X hx hns hnd hX3
      have hnd1 : (d.name :: X'.leaves).Nodup := h2.nodup_iff.2 (hnd.erase n)
      have hsub1 : ∀ m ∈ r.map (·.1), m ∈ d.name :: X'.leaves := by
        intro m hm
        have hmn : m ≠ n := by intro h; subst h; exact htodo.1 hm
        exact h2.mem_iff.2 ((List.mem_erase_of_ne hmn).2 (hsub m (by simp at hm ⊢; exact Or.inr hm)))
      have hc1 : 3 + (flagged r).length ≤ (d.name :: X'.leaves).length := by
        rw [h2.length_eq, List.length_erase_of_mem hn]; simp at hcount ⊢; omega
      obtain ⟨t', g1, g2, g3, g4, g5, g6⟩ := removeLoop_rt r d p e' X' h3 hnd1 htodo.2 hsub1 hc1
      refine ⟨t', ?_, ?_, g3, g4, ?_, fun K hKn hK => ?_⟩
      · simp only [removeLoop, tipNames_rt]
        simp [hn, h1, g1]
      · rw [← filter_erase_flag hnd]
        exact g2.trans (h2.filter _)
      · have : (n :: flagged r).contains d.name = (flagged r).contains d.name := by
          simp [List.contains_cons, hx]
        rw [this]; exact g5
      · have hK1 : ∀ a ∈ K, a ∈ d.name :: X'.leaves :=
          fun a ha => (List.mem_filter.1 (g2.mem_iff.1 (hK a ha))).1
        exact Ind.trans (h5 K hKn hK1) (g6 K hKn hK)

/-! ## lengths and supports when the result keeps a tip root -/

theorem nd_of_outside {K : List String} {s : SplitE} (hK : K.Nodup) (hsn : s.below.Nodup)
    (hsub : ∀ a ∈ s.below, a ∈ K) (hne : s.below ≠ []) {y : String} (hyK : y ∈ K) (hym : y ∉ s.below) :
    nd K s = true := by
  have hself : s.below.filter K.contains = s.below :=
    List.filter_eq_self.2 (fun a ha => by simpa using hsub a ha)
  rw [nd_eq, hself]
  simp only [ne_eq, decide_eq_true_eq]
  refine ⟨fun h0 => hne (List.length_eq_zero_iff.1 h0), fun hl => ?_⟩
  have c := filter_length_compl K s.below.contains
  have e := count_swap hK hsn
  rw [hself] at e
  have : y ∈ K.filter (fun n => !s.below.contains n) := by simp [hyK, hym]
  have : 1 ≤ (K.filter (fun n => !s.below.contains n)).length := List.length_pos_of_mem this
  omega

theorem nd_all_rt (t' : T) (K : List String) (h1 : t'.kids.length = 1) (hnd : t'.tipNames.Nodup)
    (hperm : t'.tipNames.Perm K) : ∀ s ∈ t'.splits, nd K s = true := by
  intro s hs
  have hK : K.Nodup := hperm.nodup_iff.1 hnd
  have hsn : s.below.Nodup := splits_below_nodup t' hnd s hs
  obtain ⟨d, p, kids⟩ := t'
  simp only [T.kids_node] at h1
  match kids, h1, hnd, hperm, hs with
  | [(e, X)], _, hnd, hperm, hs =>
    rw [tipNames_rt] at hnd hperm
    have hrn : d.name ∉ X.leaves := (List.nodup_cons.1 hnd).1
    have hb : ∀ a ∈ s.below, a ∈ X.leaves := by
      intro a ha
      have := below_subL [(e, X)] s hs a ha
      simpa [leavesL] using this
    exact nd_of_outside hK hsn (fun a ha => hperm.mem_iff.1 (List.mem_cons_of_mem _ (hb a ha)))
      (below_ne_nilL [(e, X)] s hs) (hperm.mem_iff.1 (List.mem_cons_self ..)) (fun h => hrn (hb _ h))

theorem data_of_ind_gen (t t' : T) (p : String → Bool) (hT : t.tipNames.Nodup)
    (hperm : t'.tipNames.Perm (t.tipNames.filter p))
    (hnd_all : ∀ s ∈ t'.splits, nd (t.tipNames.filter p) s = true)
    (hI : Ind (t.tipNames.filter p) t.splits t'.splits) (hg : LensGood t.splits) :
    t'.usplits.Perm ((restrictU t (t.tipNames.filter p)).filter
      (fun s => decide (2 ≤ lightSize (t.tipNames.filter p) s.side))) ∧
    t'.tipLens.Perm (((restrictU t (t.tipNames.filter p)).filter
      (fun s => decide (lightSize (t.tipNames.filter p) s.side ≤ 1))).map (fun s => (s.side, s.len))) := by
  have hK : (t.tipNames.filter p).Nodup := hT.filter _
  have hnd' : t'.tipNames.Nodup := hperm.nodup_iff.2 hK
  have hk : t.tipNames.filter (t.tipNames.filter p).contains = t.tipNames.filter p := by
    apply List.filter_congr
    intro x hx
    simp [hx]
  -- the two folds
  have hY := (ind_ueq hK hI hg).1 [] (by simp [SidesNodup]) (by intro x hx; cases hx)
  have hall : t'.splits.filter (nd (t.tipNames.filter p)) = t'.splits :=
    List.filter_eq_self.2 hnd_all
  have eY : ufoldU (UL (t.tipNames.filter p) t.splits) [] =
      (ufoldU ((t.splits.filter (nd (t.tipNames.filter p))).map (toU (t.tipNames.filter p))) []).map
        (normU (t.tipNames.filter p)) := by
    rw [← ufoldU_normU]; simp only [UL, List.map_map, List.map_nil]; rfl
  have eY' : ufoldU (UL (t.tipNames.filter p) t'.splits) [] =
      (ufoldU (t'.splits.map (toU (t.tipNames.filter p))) []).map (normU (t.tipNames.filter p)) := by
    rw [← ufoldU_normU]; simp only [UL, hall, List.map_map, List.map_nil]; rfl
  rw [eY, eY'] at hY
  have eR := restrictU_eq t (t.tipNames.filter p)
  rw [hk] at eR
  have eA : t'.usplitsAll = (ufoldU (t'.splits.map (toU (t.tipNames.filter p))) []).mergeSort uLe := by
    rw [T.usplitsAll_eq, toU_perm_all hperm]
  constructor
  · unfold T.usplits
    have hfun : (fun s : USplit => decide (2 ≤ lightSize t'.tipNames s.side)) =
        (fun s : USplit => decide (2 ≤ lightSize (t.tipNames.filter p) s.side)) := by
      funext s; rw [lightSize_perm_all hperm]
    rw [hfun, eA, eR]
    refine ((List.mergeSort_perm _ _).filter _).trans ?_
    refine List.Perm.trans ?_ ((List.mergeSort_perm _ _).filter _).symm
    rw [← filter_nt_normU, ← filter_nt_normU (t.tipNames.filter p) (ufoldU ((t.splits.filter _).map _) [])]
    exact (hY.filter _).symm
  · unfold T.tipLens
    have hfun : (fun s : USplit => decide (lightSize t'.tipNames s.side ≤ 1)) =
        (fun s : USplit => decide (lightSize (t.tipNames.filter p) s.side ≤ 1)) := by
      funext s; rw [lightSize_perm_all hperm]
    rw [hfun, eA, eR]
    refine (((List.mergeSort_perm _ _).filter _).map _).trans ?_
    refine List.Perm.trans ?_ (((List.mergeSort_perm _ _).filter _).map _).symm
    rw [← filter_triv_normU, ← filter_triv_normU (t.tipNames.filter p) (ufoldU ((t.splits.filter _).map _) [])]
    exact ((hY.filter _).map _).symm


/-! ## `RemoveTips` on any tree without single-child inner node -/

theorem wfR_iff (t : T) : wfR t = true ↔ t.tipNames.Nodup ∧ t.noSingle = true := by
  simp [wfR, uniq, hasDup_false_iff]

theorem nd_all_any (t' : T) (K : List String) (hnd : t'.tipNames.Nodup) (hperm : t'.tipNames.Perm K) :
    ∀ s ∈ t'.splits, nd K s = true := by
  by_cases h1 : t'.kids.length = 1
  · exact nd_all_rt t' K h1 hnd hperm
  · by_cases h0 : t'.kids.length = 0
    · intro s hs
      obtain ⟨d, p, k⟩ := t'
      simp only [T.kids_node, List.length_eq_zero_iff] at h0
      subst h0
      simp [T.splits, splitsL] at hs
    · exact nd_all t' K (by omega) hnd hperm

/-- everything the theorems of `Proofs/C06.lean` need about the loop, for both shapes of root -/
theorem removeTips_core (t : T) (S : List String) (rev : Bool) (hnd : t.tipNames.Nodup)
    (hns : t.noSingle = true) (h₃ : 3 ≤ (kept t S rev).length) :
    ∃ t', removeLoop (workList t S rev) t = .ok t' ∧ t'.tipNames.Perm (kept t S rev) ∧
      t'.noSingle = true ∧ t'.tipNames.Nodup ∧ rootAfterOK t S rev t' = true ∧
      Ind (kept t S rev) t.splits t'.splits := by
  have hcount : 3 + (flagged (workList t S rev)).length ≤ t.tipNames.length := by
    rw [flagged_workList]
    have := filter_length_compl t.tipNames (fun n => S.contains n != rev)
    have e : (t.tipNames.filter fun n => !(S.contains n != rev)) = kept t S rev := by
      unfold kept; apply List.filter_congr; intro n _; cases S.contains n <;> cases rev <;> rfl
    rw [e] at this
    unfold toRemove; omega
  have hmap : (workList t S rev).map (·.1) = t.tipNames := by
    simp [workList, Function.comp_def]
  have hkeptEq : (t.tipNames.filter fun n => !(toRemove t S rev).contains n) = kept t S rev := by
    unfold kept toRemove
    apply List.filter_congr
    intro n hn
    simp [hn]
    cases S.contains n <;> cases rev <;> simp
  have hKn : (kept t S rev).Nodup := hnd.filter _
  by_cases h1 : t.kids.length = 1
  · obtain ⟨d, p, kids⟩ := t
    simp only [T.kids_node] at h1
    match kids, h1, hnd, hns, hcount, hmap, hkeptEq, hKn, h₃ with
    | [(e, X)], _, hnd, hns, hcount, hmap, hkeptEq, hKn, h₃ =>
      rw [tipNames_rt] at hnd hcount hmap hkeptEq
      have hnsX : X.noSingleBelow = true := by simpa [T.noSingle, noSingleL] using hns
      obtain ⟨t', g1, g2, g3, g4, g5, g6⟩ := removeLoop_rt (workList (.node d p [(e, X)]) S rev) d p e X hnsX hnd
        (hmap ▸ hnd) (fun n hn => hmap ▸ hn) hcount
      rw [flagged_workList, hkeptEq] at g2
      refine ⟨t', g1, g2, g3, g4, ?_, g6 _ hKn (fun a ha => g2.mem_iff.2 ha)⟩
      rw [flagged_workList] at g5
      have hdn : d.name ∈ (T.node d p [(e, X)]).tipNames := by rw [tipNames_rt]; simp
      have hc : (toRemove (.node d p [(e, X)]) S rev).contains d.name =
          !(kept (.node d p [(e, X)]) S rev).contains d.name := by
        unfold toRemove kept
        rw [Bool.eq_iff_iff]
        simp only [List.contains_eq_mem, List.mem_filter, decide_eq_true_eq, Bool.not_eq_true',
          decide_eq_false_iff_not, hdn, true_and]
        cases S.contains d.name <;> cases rev <;> simp
      simp only [rootAfterOK, T.kids_node, List.length_cons, List.length_nil, Nat.zero_add, beq_self_eq_true,
        if_true, T.name, T.d_node]
      by_cases hk : (kept (.node d p [(e, X)]) S rev).contains d.name = true
      · rw [hc, hk] at g5
        simp only [Bool.not_true, Bool.false_eq_true, if_false] at g5
        have g52 : t'.d.name = d.name := g5.2
        have hkm : d.name ∈ kept (.node d p [(e, X)]) S rev := by simpa using hk
        simp [hkm, g5.1, g52]
      · have hk' : (kept (.node d p [(e, X)]) S rev).contains d.name = false := by simpa using hk
        rw [hc, hk'] at g5
        simp only [Bool.not_false, if_true] at g5
        simp only [hk', Bool.false_eq_true, if_false, decide_eq_true_eq]
        exact g5
  · have hsub : ∀ n ∈ (workList t S rev).map (·.1), n ∈ t.tipNames := fun n hn => hmap ▸ hn
    obtain ⟨t', g1, g2, g3, g4, g5⟩ := removeLoop_spec (workList t S rev) t h1 hns hnd (hmap ▸ hnd) hsub hcount
    rw [flagged_workList, hkeptEq] at g2
    have hI := removeLoop_ind (workList t S rev) t h1 hns hnd (hmap ▸ hnd) hsub hcount t' g1
      (kept t S rev) (fun a ha => g2.mem_iff.2 ha)
    have hU := removeLoop_unrooted (workList t S rev) t h1 hns hnd (hmap ▸ hnd) hsub hcount
    refine ⟨t', g1, g2, g3, g5, ?_, hI⟩
    have hb : (t.kids.length == 1) = false := by simpa using h1
    simp only [rootAfterOK, hb, Bool.false_eq_true, if_false, Bool.and_eq_true, bne_iff_ne, ne_eq,
      Bool.or_eq_true, decide_eq_true_eq]
    refine ⟨g4, ?_⟩
    by_cases h2 : t.kids.length ≤ 2
    · exact Or.inl h2
    · have := hU (by omega) t' g1
      exact Or.inr (by omega)

/-! ## a single-child node just below the root (outside the quantifier of the property) -/

theorem rmNode_notFound_of_not_mem (x : String) (t : T) (h : x ∉ t.leaves) : rmNode x t = .notFound := by
  have hl := rmNode_leaves x t
  cases hn : rmNode x t with
  | notFound => rfl
  | repl t' => rw [hn] at hl; exact absurd hl.1 h
  | gone => rw [hn] at hl; simp only [OutLeaves] at hl; rw [hl] at h; simp at h
  | splice e c => rw [hn] at hl; exact absurd hl.1 h

end Gotree.C06
