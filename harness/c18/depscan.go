package c18

// Scan of the goalign packages that gotree imports (module cache): the map-range sites and the
// other order/address/clock sources that lie in functions REACHABLE from gotree's code.
// Reachability is an over-approximation: a call through an interface (gotree only sees
// align.Alignment / align.SeqBag) reaches every goalign method of that name.

import (
	"go/ast"
	"go/build"
	"go/importer"
	"go/parser"
	"go/token"
	"go/types"
	"os"
	"os/exec"
	"path/filepath"
	"sort"
	"strings"
)

var Debug bool

// the dependency packages loaded by the last ExtractDeps
var lastDepPkgs []string

// the scanned dependencies (module cache); cobra/pflag, gonum plot, draw2d (graphics) are not scanned
var depPrefixes = []string{"github.com/evolbioinfo/goalign", "github.com/fredericlemoine/gostats", "github.com/fredericlemoine/bitset"}

func isDep(path string) bool {
	for _, p := range depPrefixes {
		if path == p || strings.HasPrefix(path, p+"/") {
			return true
		}
	}
	return false
}

type depPkg struct {
	path  string
	dir   string
	files []*ast.File
	info  *types.Info
}

func goListDir(repo, pkg string) string {
	cmd := exec.Command("go", "list", "-f", "{{.Dir}}", pkg)
	cmd.Dir = repo
	cmd.Env = append(os.Environ(), "GOFLAGS=-mod=mod", "GOPROXY=off", "GOSUMDB=off", "GOTOOLCHAIN=local")
	out, err := cmd.Output()
	if err != nil {
		return ""
	}
	return strings.TrimSpace(string(out))
}

// funcs of the dependency referenced from the repository's own code (by full name; interface methods by bare name)
func depRoots(repo string) (full map[string]bool, byName map[string]bool, imports map[string]bool, err error) {
	full, byName, imports = map[string]bool{}, map[string]bool{}, map[string]bool{}
	cwd, _ := os.Getwd()
	os.Chdir(repo)
	defer os.Chdir(cwd)
	fset := token.NewFileSet()
	imp := importer.ForCompiler(fset, "source", nil)
	ctx := build.Default
	ctx.BuildTags = append(ctx.BuildTags, "verif")
	ctx.CgoEnabled = false
	var dirs []string
	filepath.Walk(repo, func(p string, fi os.FileInfo, e error) error {
		if e == nil && fi.IsDir() {
			b := filepath.Base(p)
			if p != repo && (strings.HasPrefix(b, ".") || b == "docs" || b == "tests" || b == "images") {
				return filepath.SkipDir
			}
			dirs = append(dirs, p)
		}
		return nil
	})
	for _, dir := range dirs {
		ents, _ := os.ReadDir(dir)
		var files []*ast.File
		uses := false
		for _, e := range ents {
			n := e.Name()
			if e.IsDir() || !strings.HasSuffix(n, ".go") || strings.HasSuffix(n, "_test.go") {
				continue
			}
			if ok, _ := ctx.MatchFile(dir, n); !ok {
				continue
			}
			f, perr := parser.ParseFile(fset, filepath.Join(dir, n), nil, 0)
			if perr != nil {
				continue
			}
			for _, im := range f.Imports {
				p := strings.Trim(im.Path.Value, "\"")
				if isDep(p) {
					imports[p] = true
					uses = true
				}
			}
			files = append(files, f)
		}
		if !uses {
			continue
		}
		info := &types.Info{Uses: map[*ast.Ident]types.Object{}}
		conf := types.Config{Importer: imp, Error: func(error) {}}
		rel, _ := filepath.Rel(repo, dir)
		conf.Check("github.com/evolbioinfo/gotree/"+filepath.ToSlash(rel), fset, files, info)
		for _, o := range info.Uses {
			if fn, ok := o.(*types.Func); ok && fn.Pkg() != nil && isDep(fn.Pkg().Path()) {
				full[fn.FullName()] = true
				if sig, ok := fn.Type().(*types.Signature); ok && sig.Recv() != nil {
					if _, isIface := sig.Recv().Type().Underlying().(*types.Interface); isIface {
						byName[fn.Name()] = true
					}
				}
			}
		}
	}
	return
}

// ExtractDeps returns the sites and sources of the reachable part of the dependency.
func ExtractDeps(repo string) (sites, sources []siteRec, notes []string) {
	full, byName, imports, err := depRoots(repo)
	if err != nil {
		return nil, nil, []string{"roots: " + err.Error()}
	}
	if Debug {
		println("roots", len(full), len(byName), len(imports))
	}
	if len(imports) == 0 {
		return nil, nil, nil
	}
	// load the imported dependency packages and, transitively, the dependency packages they import
	cwd, _ := os.Getwd()
	os.Chdir(repo)
	defer os.Chdir(cwd)
	fset := token.NewFileSet()
	imp := importer.ForCompiler(fset, "source", nil)
	ctx := build.Default
	ctx.CgoEnabled = false
	pkgs := map[string]*depPkg{}
	var todo []string
	for p := range imports {
		todo = append(todo, p)
	}
	sort.Strings(todo)
	for len(todo) > 0 {
		p := todo[0]
		todo = todo[1:]
		if pkgs[p] != nil {
			continue
		}
		dir := goListDir(repo, p)
		if dir == "" {
			notes = append(notes, "cannot locate "+p)
			continue
		}
		dp := &depPkg{path: p, dir: dir, info: &types.Info{Types: map[ast.Expr]types.TypeAndValue{}, Uses: map[*ast.Ident]types.Object{},
			Defs: map[*ast.Ident]types.Object{}, Selections: map[*ast.SelectorExpr]*types.Selection{}}}
		ents, _ := os.ReadDir(dir)
		for _, e := range ents {
			n := e.Name()
			if e.IsDir() || !strings.HasSuffix(n, ".go") || strings.HasSuffix(n, "_test.go") {
				continue
			}
			if ok, _ := ctx.MatchFile(dir, n); !ok {
				continue
			}
			f, perr := parser.ParseFile(fset, filepath.Join(dir, n), nil, 0)
			if perr != nil {
				notes = append(notes, perr.Error())
				continue
			}
			for _, im := range f.Imports {
				ip := strings.Trim(im.Path.Value, "\"")
				if isDep(ip) && pkgs[ip] == nil {
					todo = append(todo, ip)
				}
			}
			dp.files = append(dp.files, f)
		}
		nerr := 0
		conf := types.Config{Importer: imp, Error: func(e error) {
			nerr++
			if nerr <= 3 {
				notes = append(notes, "type error in "+p+": "+e.Error())
			}
		}}
		conf.Check(p, fset, dp.files, dp.info)
		pkgs[p] = dp
	}
	// call graph over declarations (key = full name of the declared function; "" for package-level vars: always reachable)
	type declRec struct {
		pkg  *depPkg
		file *ast.File
		decl ast.Decl
		name string
		refs map[string]bool
		refN map[string]bool
	}
	var decls []*declRec
	byFull := map[string][]*declRec{}
	methodsByName := map[string][]*declRec{}
	var pnames []string
	for p := range pkgs {
		pnames = append(pnames, p)
	}
	sort.Strings(pnames)
	lastDepPkgs = pnames
	for _, pn := range pnames {
		dp := pkgs[pn]
		for _, f := range dp.files {
			for _, d := range f.Decls {
				r := &declRec{pkg: dp, file: f, decl: d, refs: map[string]bool{}, refN: map[string]bool{}}
				if fd, ok := d.(*ast.FuncDecl); ok {
					if o, ok := dp.info.Defs[fd.Name].(*types.Func); ok {
						r.name = o.FullName()
						byFull[r.name] = append(byFull[r.name], r)
						if fd.Recv != nil {
							methodsByName[fd.Name.Name] = append(methodsByName[fd.Name.Name], r)
						}
					}
				}
				ast.Inspect(d, func(n ast.Node) bool {
					if id, ok := n.(*ast.Ident); ok {
						if fn, ok := dp.info.Uses[id].(*types.Func); ok && fn.Pkg() != nil && isDep(fn.Pkg().Path()) {
							r.refs[fn.FullName()] = true
							if sig, ok := fn.Type().(*types.Signature); ok && sig.Recv() != nil {
								if _, isIface := sig.Recv().Type().Underlying().(*types.Interface); isIface {
									r.refN[fn.Name()] = true
								}
							}
						}
					}
					return true
				})
				decls = append(decls, r)
			}
		}
	}
	reach := map[*declRec]bool{}
	var work []*declRec
	mark := func(r *declRec) {
		if !reach[r] {
			reach[r] = true
			work = append(work, r)
		}
	}
	for _, r := range decls {
		if r.name == "" || strings.HasSuffix(r.name, ".init") {
			mark(r) // package-level variables and init functions run in every program
		}
	}
	for fn := range full {
		for _, r := range byFull[fn] {
			mark(r)
		}
	}
	for nm := range byName {
		for _, r := range methodsByName[nm] {
			mark(r)
		}
	}
	for len(work) > 0 {
		r := work[0]
		work = work[1:]
		for fn := range r.refs {
			for _, q := range byFull[fn] {
				mark(q)
			}
		}
		for nm := range r.refN {
			for _, q := range methodsByName[nm] {
				mark(q)
			}
		}
	}
	if Debug {
		println("decls", len(decls), "reachable", len(reach), "pkgs", len(pkgs))
		nall := 0
		for _, r := range decls {
			s1, _ := scanDecl(fset, r.pkg.info, r.decl, "x", "dep")
			nall += len(s1)
			if reach[r] && r.name != "" {
				println("  reach", r.name)
			}
		}
		println("map ranges in all declarations of the loaded packages:", nall)
	}
	// the sites and sources of the reachable declarations
	for _, r := range decls {
		if !reach[r] {
			continue
		}
		fname := "dep:" + strings.TrimPrefix(r.pkg.path, "github.com/") + "/" + filepath.Base(fset.Position(r.file.Pos()).Filename)
		s1, s2 := scanDecl(fset, r.pkg.info, r.decl, fname, "dep")
		sites = append(sites, s1...)
		sources = append(sources, s2...)
	}
	sort.SliceStable(sites, func(i, j int) bool {
		if sites[i].File != sites[j].File {
			return sites[i].File < sites[j].File
		}
		return sites[i].Line < sites[j].Line
	})
	sort.SliceStable(sources, func(i, j int) bool {
		if sources[i].File != sources[j].File {
			return sources[i].File < sources[j].File
		}
		return sources[i].Line < sources[j].Line
	})
	return
}
