/-
  C05 — the facts about the source that the hand-written model (Model/C05.lean, C05Orient, C05Cli, C05Index)
  relies on, as the extractor harness/c05/extract.go prints them (normal forms, see there: a > b is lt(b,a),
  the locals of a function are $1, $2, … in order of first occurrence among its comparisons, x/2.0 and x*0.5
  are x*1/2).  The theorem
  `source_facts_check` (Proofs/C05.lean) decides that the tables regenerated from the working tree
  (Gotree/Gen/C05Source.lean) are these.  Which definition of the model rests on which row:

    reaches   Reroot / RerootFirst recompute the bitsets but not the tip index (the tip set is unchanged);
              UnRoot, hence RerootOutGroup and RerootMidPoint, rebuild the tip index too; RerootOutGroup and
              RerootMidPoint re-orient (ReorderEdges) — `indexOf` of the result after every step of `runSteps`,
              `rerootO`; rotate / sort reach nothing: they permute neighbour slices only (`rot`, `sortT`).
    cmps      Reroot, reroot_nocheck: fewer than two neighbours refused (`reroot`: `< 2`; `rerootOutGroupWith`:
              `ec.2.kids.length < 2`); RerootFirst: exactly three (`firstDeg3`); UnRoot: a length / support is
              present iff `!= NIL` (`unrootLen`, `unrootSup`); LeastCommonAncestorUnrooted: no tip of the
              outgroup in the tree, monophyletic iff diff = 0 (`outgroupPlan`: "none", `f.diff != 0`);
              LeastCommonAncestorRecur: a branch counts when it holds at least one outgroup tip (`lcaKids`:
              `com > 0`); RerootOutGroup: one branch at the ancestor / exactly one branch left
              (`rootEdgeIdx`), absent length stays absent (`halfEdge`); MaxLengthPath: a later child wins only
              when STRICTLY longer (`mlpL`), RerootMidPoint: a later tip likewise (`bestCand`), the walk stops
              at the first branch that reaches half the length (`walkHalf`: `len < half`); sortNeighbors: `<` on
              the number of tips, stable (`insSorted`); the command: tip file unless "none", else the arguments
              if any (`cliTips`).
    factors   both new root branches get HALF the length (`halfEdge`), the midpoint is at HALF the longest
              path (`midpointCut`).
    commands  which method each command runs on every tree, the order remove, strict, tips (`cliRun`).
    flags     -l / -r / --strict with defaults none / false / false (`cliTips`, `cliRun`); -i / -o.
-/
namespace Gotree.C05.Source


/-- function ↦ the sinks it reaches through the static call graph of package tree -/
def reaches : List (String × List String) := [
  ("Reroot", ["ComputeDepths", "ReorderEdges", "UpdateBitSet"]),
  ("reroot_nocheck", ["ReorderEdges"]),
  ("RerootFirst", ["ComputeDepths", "ReorderEdges", "UpdateBitSet"]),
  ("UnRoot", ["ComputeDepths", "UpdateBitSet", "UpdateTipIndex"]),
  ("RerootOutGroup", ["ComputeDepths", "ReorderEdges", "UnRoot", "UpdateBitSet", "UpdateTipIndex"]),
  ("RerootMidPoint", ["ComputeDepths", "ReorderEdges", "UnRoot", "UpdateBitSet", "UpdateTipIndex"]),
  ("RotateInternalNodes", []),
  ("SortNeighborsByTips", [])
]

/-- function ↦ its comparisons (op, left, right), normalised, in source order -/
def cmps : List (String × List (String × String × String)) := [
  ("Reroot", [("lt", "$1.Nneigh()", "2")]),
  ("reroot_nocheck", [("lt", "$1.Nneigh()", "2")]),
  ("RerootFirst", [("eq", "len($1.neigh)", "3")]),
  ("UnRoot", [("ne", "$1.Length()", "NIL_LENGTH"), ("ne", "$2.Length()", "NIL_LENGTH"), ("ne", "$1.Support()", "NIL_SUPPORT"), ("ne", "$2.Support()", "NIL_SUPPORT")]),
  ("LeastCommonAncestorUnrooted", [("eq", "len($1)", "0"), ("eq", "$2", "0")]),
  ("LeastCommonAncestorRecur", [("lt", "0", "$1")]),
  ("RerootOutGroup", [("eq", "len($1.br)", "1"), ("ne", "len($1.br) - len($2)", "1"), ("ne", "$3", "NIL_LENGTH")]),
  ("MaxLengthPath", [("eq", "$1.Length()", "NIL_LENGTH"), ("lt", "$2", "$3 + $1.Length()")]),
  ("RerootMidPoint", [("lt", "$1", "$2"), ("le", "0", "$3"), ("lt", "float64($4)", "$1*1/2")]),
  ("sortNeighbors", [("lt", "$1[$2].ntips", "$1[$3].ntips")]),
  ("RotateNeighbors", []),
  ("cmd:midpointCmd", []),
  ("cmd:outgroupCmd", [("ne", "tipfile", "\"none\""), ("lt", "0", "len($1)")]),
  ("cmd:rotateRandCmd", []),
  ("cmd:rotateSortCmd", []),
  ("cmd:unrootCmd", [])
]

/-- function ↦ the constant factors of its arithmetic -/
def factors : List (String × List String) := [
  ("Reroot", []),
  ("reroot_nocheck", []),
  ("RerootFirst", []),
  ("UnRoot", []),
  ("LeastCommonAncestorUnrooted", []),
  ("LeastCommonAncestorRecur", []),
  ("RerootOutGroup", ["1/2"]),
  ("MaxLengthPath", []),
  ("RerootMidPoint", ["1/2"]),
  ("sortNeighbors", []),
  ("RotateNeighbors", []),
  ("cmd:midpointCmd", []),
  ("cmd:outgroupCmd", []),
  ("cmd:rotateRandCmd", []),
  ("cmd:rotateSortCmd", []),
  ("cmd:unrootCmd", [])
]

/-- command ↦ the methods it calls on the tree it read, and the arguments of the first one -/
def commands : List (String × List String × List String) := [
  ("midpointCmd", ["RerootMidPoint", "Newick"], []),
  ("outgroupCmd", ["RerootOutGroup", "Newick"], ["removeoutgroup", "rerootstrict", "tips..."]),
  ("rotateRandCmd", ["RotateInternalNodes", "Newick"], []),
  ("rotateSortCmd", ["SortNeighborsByTips", "Newick"], []),
  ("unrootCmd", ["UnRoot", "Newick"], [])
]

/-- (command, flag, shorthand, default, variable) -/
def flags : List (String × String × String × String × String) := [
  ("outgroupCmd", "remove-outgroup", "r", "false", "removeoutgroup"),
  ("outgroupCmd", "strict", "", "false", "rerootstrict"),
  ("outgroupCmd", "tip-file", "l", "none", "tipfile"),
  ("rerootCmd", "input", "i", "stdin", "intreefile"),
  ("rerootCmd", "output", "o", "stdout", "outtreefile"),
  ("rotateCmd", "input", "i", "stdin", "intreefile"),
  ("rotateCmd", "output", "o", "stdout", "outtreefile"),
  ("unrootCmd", "input", "i", "stdin", "intreefile"),
  ("unrootCmd", "output", "o", "stdout", "outtreefile")
]

end Gotree.C05.Source
