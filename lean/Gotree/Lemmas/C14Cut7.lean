/-
  C14 round 2 — `CutEdgesMaxLength` of the statement-level model on the pointer graph of a rose
  tree with unique tip names returns, up to the order of the bags and inside them, the bags
  of the rose-tree model, hence meets the Spec.  Core Lean only.
-/
import Gotree.Lemmas.C14Cut6

namespace Gotree.C14
open Gotree Gotree.C14.Go

/-! ## the Spec does not see the order -/

theorem PW.trans : ∀ {a b c : List (List String)}, PW a b → PW b c → PW a c
  | _, _, _, .nil, .nil => .nil
  | _, _, _, .cons h hr, .cons h' hr' => .cons (h.trans h') (PW.trans hr hr')

theorem LPerm.pw_left {a' a b : List (List String)} (h : LPerm a b) (hp : PW a' a) : LPerm a' b := by
  obtain ⟨x, px, fx⟩ := h
  obtain ⟨y, py, fy⟩ := hp.perm_right px
  exact ⟨y, py, fy.trans fx⟩

theorem PW.flatten : ∀ {a b : List (List String)}, PW a b → a.flatten.Perm b.flatten
  | _, _, .nil => List.Perm.refl _
  | _, _, .cons h hr => by simp only [List.flatten_cons]; exact h.append (PW.flatten hr)

theorem PW.mem : ∀ {a b : List (List String)}, PW a b → ∀ x ∈ a, ∃ y ∈ b, x.Perm y
  | _, _, .nil, x, hx => by cases hx
  | _, _, .cons h hr, x, hx => by
    rcases List.mem_cons.1 hx with rfl | hx
    · exact ⟨_, by simp, h⟩
    · obtain ⟨y, hy, hp⟩ := PW.mem hr x hx
      exact ⟨y, by simp [hy], hp⟩

theorem PW.mem' : ∀ {a b : List (List String)}, PW a b → ∀ y ∈ b, ∃ x ∈ a, x.Perm y
  | _, _, .nil, y, hy => by cases hy
  | _, _, .cons h hr, y, hy => by
    rcases List.mem_cons.1 hy with rfl | hy
    · exact ⟨_, by simp, h⟩
    · obtain ⟨x, hx, hp⟩ := PW.mem' hr y hy
      exact ⟨x, by simp [hx], hp⟩

theorem sameBag_LPerm {A B : List (List String)} (h : LPerm A B) (a b : String) : sameBag A a b = sameBag B a b := by
  obtain ⟨B₂, hp, hf⟩ := h
  rw [Bool.eq_iff_iff, sameBag_true_iff, sameBag_true_iff]
  constructor
  · rintro ⟨x, hx, ha, hb⟩
    obtain ⟨y, hy, hxy⟩ := hf.mem x (hp.mem_iff.1 hx)
    exact ⟨y, hy, hxy.mem_iff.1 ha, hxy.mem_iff.1 hb⟩
  · rintro ⟨y, hy, ha, hb⟩
    obtain ⟨x, hx, hxy⟩ := hf.mem' y hy
    exact ⟨x, hp.mem_iff.2 hx, hxy.mem_iff.2 ha, hxy.mem_iff.2 hb⟩

theorem cutOK_of_LPerm (thr : Rat) (t : T) {A B : List (List String)} (h : LPerm A B) (hB : cutOK thr t B = true) :
    cutOK thr t A = true := by
  simp only [cutOK, Bool.and_eq_true, List.all_eq_true, beq_iff_eq] at hB ⊢
  obtain ⟨⟨h1, h2⟩, h3⟩ := hB
  obtain ⟨B₂, hp, hf⟩ := h
  refine ⟨⟨?_, fun x hx => ?_⟩, fun a ha b hb => ?_⟩
  · rw [← h1]
    exact sortNames_eq_of_perm ((hp.flatten).trans hf.flatten)
  · obtain ⟨y, hy, hxy⟩ := hf.mem x (hp.mem_iff.1 hx)
    have := h2 y hy
    cases x with
    | nil => have := hxy.symm.eq_nil; subst this; simpa using h2 [] hy
    | cons _ _ => rfl
  · rw [sameBag_LPerm ⟨B₂, hp, hf⟩, h3 a ha b hb]

/-! ## the whole loop, root not a tip -/

theorem edges_size (t : T) : (G.ofT t).edges.size + 1 = t.size := by
  have := gedgesT_length 0 t
  simpa [G.ofT] using this

theorem cut_root_inner (thr : Rat) (d : NodeD) (pp : Nat) (ks : Kids) (hk : ks.length ≠ 1)
    (hu : (T.node d pp ks).tipNames.Nodup) :
    ∃ bags, cutEdgesMaxLength (G.ofT (.node d pp ks)) thr = .ok bags ∧
      LPerm (bags.map fun b => b.map (·.1)) (cut thr (.node d pp ks)) := by
  generalize hg : G.ofT (.node d pp ks) = g
  have hs : Sub g.nodes 0 (flatT none 0 (.node d pp ks)) := by rw [← hg]; exact Sub.whole _
  have he : Sub g.edges 0 (gedgesT 0 (.node d pp ks)) := by rw [← hg]; exact Sub.whole _
  have hes : g.edges.size = T.sizeL ks := by
    have := edges_size (.node d pp ks); rw [hg, size_node] at this; omega
  rw [flatT_node] at hs
  rw [gedgesT_node] at he
  have hnode := hs.head
  have hok := kids_ok g ks (0 + 1) 0 (by omega) hs.tail (by simpa using he)
  have hlen : ((kidIdx (0 + 1) ks).map fun c => (c, c - 1)).length = ks.length := by simp [kidIdx_length]
  have hpairs : (kidIdx (0 + 1) ks).map (fun c => (c, c - 1)) = (kidsIdx (0 + 1) ks).map fun x => (x.1, x.1 - 1) := by
    rw [kidIdx_eq, List.map_map]; rfl
  have hk' : (ks.length == 1) = false := by simpa using hk
  rw [tipNames_node, hk'] at hu
  simp only [Bool.false_eq_true, if_false, List.nil_append] at hu
  let vis0 : Array Bool := Array.replicate g.edges.size false
  have hpre : LoopPre g thr 0 ks [] ks false vis0 := by
    refine ⟨rfl, hok, tip_false_of_len g 0 _ hnode (by rw [hlen]; exact hk), fun _ => ⟨⟨hok, _, hnode, Or.inl hpairs⟩, by simp⟩,
      by simp [vis0], ?_, fun j _ => by
        simp only [vis0, Array.getD_eq_getD_getElem?, Bool.false_and]
        cases h' : (Array.replicate g.edges.size false)[j]? with
        | none => rfl
        | some b =>
          have := Array.mem_of_getElem? h'
          simp only [Array.mem_replicate] at this
          rw [this.2]; rfl⟩
    rw [leafIdxL_kidsIdx, leafIdxL_names g ks (0 + 1) 0 hs.tail]; exact hu
  have := loopL g thr ks 0 ks [] false [] vis0 hpre
  unfold LoopGoal at this
  obtain ⟨nb, v', h1, _, _, _, h5⟩ := this
  refine ⟨nb, ?_, ?_⟩
  · unfold cutEdgesMaxLength
    have hr : List.range g.edges.size = List.range' (0 + 1 + T.sizeL ([] : Kids) - 1) (T.sizeL ks) := by
      rw [List.range_eq_range', hes]; simp [T.sizeL]
    rw [hr, h1]; simp
  · have hcut : cut thr (.node d pp ks) = optBag (compL thr ks).1 ++ (compL thr ks).2 := by
      simp only [cut, T.kids_node, hk', Bool.false_eq_true, if_false, List.nil_append, optBag]
    rw [hcut]
    simpa using h5

end Gotree.C14

namespace Gotree.C14
open Gotree Gotree.C14.Go

/-! ## the whole loop, root that is a tip -/

theorem cut_root_tip (thr : Rat) (d : NodeD) (pp : Nat) (e : EdgeD) (tc : T)
    (hu : (T.node d pp [(e, tc)]).tipNames.Nodup) :
    ∃ bags, cutEdgesMaxLength (G.ofT (.node d pp [(e, tc)])) thr = .ok bags ∧
      LPerm (bags.map fun b => b.map (·.1)) (cut thr (.node d pp [(e, tc)])) := by
  generalize hg : G.ofT (.node d pp [(e, tc)]) = g
  have hs : Sub g.nodes 0 (flatT none 0 (.node d pp [(e, tc)])) := by rw [← hg]; exact Sub.whole _
  have he : Sub g.edges 0 (gedgesT 0 (.node d pp [(e, tc)])) := by rw [← hg]; exact Sub.whole _
  have hts : tc.size = 1 + T.sizeL tc.kids := by obtain ⟨d', pp', k⟩ := tc; rw [size_node]; simp only [T.kids_node]
  have hes : g.edges.size = 1 + (T.sizeL tc.kids + 0) := by
    have := edges_size (.node d pp [(e, tc)]); rw [hg, size_node, sizeL_cons] at this
    simp only [T.sizeL] at this; omega
  rw [flatT_node] at hs
  rw [gedgesT_node] at he
  have hnode := hs.head
  have hok := kids_ok g [(e, tc)] (0 + 1) 0 (by omega) hs.tail (by simpa using he)
  have hx := hok (1, (e, tc)) (by simp [kidsIdx])
  have hedge : g.edges[0]? = some ⟨0, 1, e⟩ := hx.edge
  have hxn : Sub g.nodes 1 (flatT (some 0) 1 tc) := hx.nodes
  have hxe : Sub g.edges 1 (gedgesT 1 tc) := hx.edges
  have hpairs : (kidIdx (0 + 1) [(e, tc)]).map (fun c => (c, c - 1)) = (kidsIdx (0 + 1) [(e, tc)]).map fun x => (x.1, x.1 - 1) := by
    rw [kidIdx_eq, List.map_map]; rfl
  have hname0 : g.name 0 = d.name := by simp [G.name, hnode]
  have htip0 : g.tip 0 = true := by simp [G.tip, hnode, kidIdx]
  rw [tipNames_node] at hu
  simp only [List.length_cons, List.length_nil, Nat.zero_add, beq_self_eq_true, if_true, leavesL_cons, leavesL_nil,
    List.append_nil, List.singleton_append] at hu
  have hndc : tc.leaves.Nodup := (List.nodup_cons.1 hu).2
  have hnmT : ((leafIdxT 1 tc).map g.name).Nodup := by rw [leafIdxT_names g tc 1 (some 0) hxn]; exact hndc
  let vis0 : Array Bool := Array.replicate g.edges.size false
  have hv0 : ∀ j, vis0.getD j false = false := by
    intro j
    simp only [vis0, Array.getD_eq_getD_getElem?]
    cases h' : (Array.replicate g.edges.size false)[j]? with
    | none => rfl
    | some b =>
      have := Array.mem_of_getElem? h'
      simp only [Array.mem_replicate] at this
      rw [this.2]; rfl
  have hi0 : 0 < vis0.size := by simp [vis0, hes]; omega
  have hset : ∀ j, (vis0.set! 0 true).getD j false = (if j = 0 then true else false) := by
    intro j
    by_cases hj : j = 0
    · subst hj
      simp [Array.getD_eq_getD_getElem?, Array.set!_eq_setIfInBounds, hi0]
    · have hj' : ¬ 0 = j := fun e => hj e.symm
      have := hv0 j
      simp only [Array.getD_eq_getD_getElem?] at this
      simp [Array.getD_eq_getD_getElem?, Array.set!_eq_setIfInBounds, Array.getElem?_setIfInBounds, hj, hj', this]
  have hrange : List.range g.edges.size = List.range' 0 (1 + (T.sizeL tc.kids + 0)) := by
    rw [List.range_eq_range', hes]
  have hfinish : ∀ (sb nbT : List Bag) (vis1 vis2 : Array Bool),
      cutStep g thr ([], vis0) 0 = .ok (sb, vis1) →
      (List.range' (1 + 1 - 1) (T.sizeL tc.kids)).foldlM (cutStep g thr) (sb, vis1) = .ok (sb ++ nbT, vis2) →
      cutEdgesMaxLength g thr = .ok (sb ++ nbT) := by
    intro sb nbT vis1 vis2 h1 h2
    unfold cutEdgesMaxLength
    rw [hrange, foldlM_range3 g thr 0 (T.sizeL tc.kids) 0]
    have h1' : cutStep g thr ([], Array.replicate g.edges.size false) 0 = .ok (sb, vis1) := h1
    rw [h1']
    simp only [Except.bind]
    have : (1 + 1 - 1 : Nat) = 0 + 1 := by omega
    rw [this] at h2
    rw [h2]
    simp [Except.bind, pure, Except.pure]
  have htsz : tc.size ≤ g.nodes.size + 1 := by
    have := hxn.bound; rw [flatT_length] at this; omega
  by_cases hshort : e.len < thr
  · -- the root tip is flooded together with what hangs below the short branch
    let nd0 : GNode := ⟨d.name, (kidIdx (0 + 1) [(e, tc)]).map fun c => (c, c - 1)⟩
    have hnode0 : g.nodes[0]? = some nd0 := hnode
    have ctx : NodeCtx g thr 0 [(e, tc)] := ⟨hok, nd0, hnode0, Or.inl hpairs⟩
    have htp : NodeCtx.tipPart g 0 nd0 = [(g.name 0, 0)] := by
      simp [NodeCtx.tipPart, nd0, kidIdx]
    have hA := flood_at g thr 0 [(e, tc)] (by simp) ctx nd0 hnode0 g.nodes.size 1 [] (vis0.set! 0 true) (by omega)
      (fun x hx' hne => by simp [kidsIdx] at hx'; rw [hx'] at hne; exact absurd rfl hne)
      (by rw [htp]; simp only [List.nil_append, List.map_cons, List.map_nil, leafIdxL_kidsIdx]
          rw [leafIdxL_names g [(e, tc)] (0 + 1) 0 hs.tail, hname0]
          simpa [leavesL] using hu)
    rw [htp] at hA
    have hlo : (kidsIdx (0 + 1) [(e, tc)]).flatMap (openW thr 1) = [] := by simp [kidsIdx, openW]
    have hlr : (kidsIdx (0 + 1) [(e, tc)]).flatMap (reachW thr 1) = [] := by simp [kidsIdx, reachW]
    rw [hlo, hlr] at hA
    simp only [List.nil_append, tipPairs, List.map_nil, List.append_nil, markAll, List.foldl_nil] at hA
    have hnB : (([(g.name 0, 0)] : Bag).map (·.1) ++ (leafIdxT 1 tc).map g.name).Nodup := by
      rw [leafIdxT_names g tc 1 (some 0) hxn, hname0]; simpa using hu
    have hB := flood_down g thr tc (g.nodes.size + 1) 1 0 [(g.name 0, 0)] (vis0.set! 0 true) htsz (by omega) hxn hxe
      ⟨_, hedge⟩ hnB
    have hstep := step_flood g thr [] vis0 0 0 1 e _ _ _ _ hedge (hv0 0) hshort hA hB
    let bagB : Bag := [(g.name 0, 0)] ++ tipPairs g (openT thr 1 tc)
    let visB := markAll (vis0.set! 0 true) (reachT thr 1 tc)
    have hstep' : cutStep g thr ([], vis0) 0 = .ok ([bagB], visB) := by
      rw [hstep]; rfl
    have hTb : ∀ j ∈ reachT thr 1 tc, j < (vis0.set! 0 true).size := by
      intro j hj
      have h1 := reachT_range thr tc 1 j hj
      have h2 := hxe.bound
      have h3 := gedgesT_length 1 tc
      simp [vis0]; omega
    obtain ⟨nbT, vis2, hT1, _, _, _, hT5⟩ := loopT g thr tc 1 0 e true [bagB] visB (by omega) hxn hxe hedge (by simp)
      (by show (markAll _ _).size = _; rw [markAll_size]; simp [vis0]) hnmT
      (fun j hj => by
        show (markAll _ _).getD j false = _
        rw [markAll_get _ _ j hTb, hset]
        have : j ≠ 0 := by simp only [Seg] at hj; omega
        simp [this])
    refine ⟨[bagB] ++ nbT, hfinish [bagB] nbT visB vis2 hstep' hT1, ?_⟩
    have hcut : cut thr (.node d pp [(e, tc)]) = [[d.name] ++ (comp thr tc).1] ++ (comp thr tc).2 := by
      simp [cut, compL, hshort, T.name]
    rw [hcut, List.map_append]
    refine LPerm.append ?_ (by simpa using hT5)
    have : (bagB.map fun x => x.1) = [d.name] ++ (comp thr tc).1 := by
      show ((([(g.name 0, 0)] : Bag) ++ tipPairs g (openT thr 1 tc)).map fun x => x.1) = _
      rw [List.map_append, names_of_pairs, openT_names g thr tc 1 (some 0) hxn, hname0]; rfl
    simp only [List.map_cons, List.map_nil, this]
    exact LPerm.refl _
  · -- a long branch between the root tip and the rest
    obtain ⟨d', pp', k⟩ := tc
    have hxn' := hxn
    rw [flatT_node] at hxn'
    have hnodec := hxn'.head
    have hlenc : (insAt ((kidIdx (1 + 1) k).map fun x => (x, x - 1)) pp' (0, 1 - 1)).length = k.length + 1 := by
      simp [insAt, kidIdx_length]; omega
    have htipc : g.tip 1 = k.isEmpty := by
      simp only [G.tip, hnodec, hlenc]
      cases k <;> simp
    have hnamec : g.name 1 = d'.name := by simp [G.name, hnodec]
    let sb : List Bag := [[(g.name 0, 0)]] ++ (if g.tip 1 then [[(g.name 1, 1)]] else [])
    have hstep : cutStep g thr ([], vis0) 0 = .ok (sb, vis0.set! 0 true) := by
      simp only [cutStep, hedge, hv0 0, Bool.false_eq_true, if_false, hshort, htip0, if_true, List.nil_append]
      show Except.ok _ = Except.ok _
      congr 1
      show (_, _) = (_, _)
      congr 1
      simp only [sb]
      split <;> simp
    obtain ⟨nbT, vis2, hT1, _, _, _, hT5⟩ := loopT g thr (.node d' pp' k) 1 0 e false sb (vis0.set! 0 true) (by omega) hxn hxe hedge
      (fun _ => hshort) (by simp [vis0]) hnmT
      (fun j hj => by
        rw [hset]
        have : j ≠ 0 := by simp only [Seg] at hj; omega
        simp [this])
    refine ⟨sb ++ nbT, hfinish sb nbT _ vis2 hstep hT1, ?_⟩
    have hcut : cut thr (.node d pp [(e, .node d' pp' k)]) =
        [[d.name]] ++ (optBag (comp thr (.node d' pp' k)).1 ++ (comp thr (.node d' pp' k)).2) := by
      simp only [cut, T.kids_node, List.length_cons, List.length_nil, Nat.zero_add, beq_self_eq_true, if_true, compL,
        hshort, if_false, T.name, T.d_node, optBag, List.append_nil]
      rcases comp thr (.node d' pp' k) with ⟨o, cc⟩
      simp
    rw [hcut, List.map_append]
    simp only [sb, List.map_append, List.map_cons, List.map_nil, hname0, List.append_assoc]
    refine LPerm.append (LPerm.refl _) ?_
    rw [htipc]
    cases k with
    | nil =>
      simp only [List.isEmpty_nil, if_true, List.map_cons, List.map_nil, hnamec]
      have h5 : LPerm (nbT.map fun b => b.map (·.1)) [] := by simpa [comp] using hT5
      have : optBag (comp thr (.node d' pp' [])).1 ++ (comp thr (.node d' pp' [])).2 = [[d'.name]] ++ [] := by
        simp [comp, optBag]
      rw [this]
      exact LPerm.append (LPerm.refl _) h5
    | cons x k =>
      simp only [List.isEmpty_cons, Bool.false_eq_true, if_false, List.map_nil, List.nil_append]
      simpa using hT5

end Gotree.C14

namespace Gotree.C14
open Gotree Gotree.C14.Go

theorem PW.of_map {α : Type} (f g : α → List String) (h : ∀ x, (f x).Perm (g x)) : ∀ (l : List α), PW (l.map f) (l.map g)
  | [] => .nil
  | x :: l => .cons (h x) (PW.of_map f g h l)

/-- `CutEdgesMaxLength` of the statement-level model on the pointer graph of a rose tree with
    unique tip names succeeds, and its bags are those of the rose-tree model `cut`, up to the
    order of the bags and of the tips inside a bag. -/
theorem cutGo_LPerm (thr : Rat) (t : T) (hu : t.tipNames.Nodup) :
    ∃ bags, cutGo thr t = .ok bags ∧ LPerm bags (cut thr t) := by
  obtain ⟨d, pp, ks⟩ := t
  have key : ∃ bags0, cutEdgesMaxLength (G.ofT (.node d pp ks)) thr = .ok bags0 ∧
      LPerm (bags0.map fun b => b.map (·.1)) (cut thr (.node d pp ks)) := by
    by_cases hk : ks.length = 1
    · match ks, hk with
      | [(e, tc)], _ => exact cut_root_tip thr d pp e tc hu
    · exact cut_root_inner thr d pp ks hk hu
  obtain ⟨bags0, h1, h2⟩ := key
  refine ⟨bags0.map bagNames, by simp [cutGo, h1], ?_⟩
  have hb : ∀ b : Bag, (bagNames b).Perm (b.map fun x => x.1) := fun b => by
    unfold bagNames; exact insSort_perm _ _
  exact h2.pw_left (PW.of_map bagNames (fun b : Bag => b.map fun x => x.1) hb bags0)

end Gotree.C14
