/-
  C12 — DELTRAN only removes states from the down-pass sets; leaves are never rewritten by
  DOWNPASS / DELTRAN; every slice of the down-pass is a set (0/1).
-/
import Gotree.Lemmas.C12Down

namespace Gotree.C12
open Gotree

/- the annotated subtree addressed by a path -/
mutual
def A.sub : A → List Nat → Option A
  | a, [] => some a
  | .node _ ks, i :: p => A.subL ks i p
def A.subL : List A → Nat → List Nat → Option A
  | [], _, _ => none
  | a :: _, 0, p => A.sub a p
  | _ :: r, i + 1, p => A.subL r i p
end

mutual
theorem A.get_of_sub : ∀ (a : A) (p : List Nat) (b : A), a.sub p = some b → a.get p = some b.s
  | .node s ks, [], b, h => by
    simp only [A.sub, Option.some.injEq] at h; subst h; simp [A.get, A.s]
  | .node s ks, i :: p, b, h => by
    simp only [A.sub] at h; simp only [A.get]; exact A.getL_of_subL ks i p b h
theorem A.getL_of_subL : ∀ (ks : List A) (i : Nat) (p : List Nat) (b : A), A.subL ks i p = some b →
    A.getL ks i p = some b.s
  | [], _, _, _, h => by simp [A.subL] at h
  | a :: _, 0, p, b, h => by
    simp only [A.subL] at h; simp only [A.getL]; exact A.get_of_sub a p b h
  | _ :: r, i + 1, p, b, h => by
    simp only [A.subL] at h; simp only [A.getL]; exact A.getL_of_subL r i p b h
end

section sound
variable (k : Nat)

/-- every slice of the annotated tree is a set -/
def Set01 (v : Vec) : Prop := ∀ i, i < k → v.at i ≤ 1

theorem inter_01 (s p : Vec) (hs : Set01 k s) : Set01 k (inter k s p) := by
  intro i hi
  unfold inter
  simp only []
  split
  · rw [at_tab]; split <;> (try split) <;> omega
  · exact hs i hi

theorem inter_sub (s p : Vec) (hp : Set01 k p) (i : Nat) (hi : i < k) (h : (inter k s p).at i ≠ 0) :
    s.at i ≠ 0 := by
  unfold inter at h
  simp only [] at h
  split at h
  · rw [at_tab] at h
    simp only [hi, if_true] at h
    have := hp i hi
    rw [at_vadd] at h
    simp only [hi, if_true] at h
    split at h
    · omega
    · simp at h
  · exact h

/- DELTRAN: what is reported at a node was in the slice it started from -/
mutual
theorem deltran_sub : ∀ (a : A) (par : Option Vec), (∀ pv, par = some pv → Set01 k pv) →
    (∀ v ∈ a.flat, Set01 k v) →
    ∀ (p : List Nat) (vec vec' : Vec), a.get p = some vec → (deltran k par a).get p = some vec' →
    ∀ i, i < k → vec'.at i ≠ 0 → vec.at i ≠ 0
  | .node s [], par, _, _, [], vec, vec', h, h', i, _, hne => by
    simp only [deltran, A.get, Option.some.injEq] at h h'
    subst h; subst h'; exact hne
  | .node s [], par, _, _, j :: p, vec, vec', h, _, i, _, _ => by
    simp [A.get, A.getL] at h
  | .node s (c :: cs), par, hpar, hall, [], vec, vec', h, h', i, hi, hne => by
    simp only [deltran, A.get, Option.some.injEq] at h h'
    subst h; subst h'
    match par, hpar with
    | none, _ => exact hne
    | some pv, hpar => exact inter_sub k s pv (hpar pv rfl) i hi hne
  | .node s (c :: cs), par, hpar, hall, j :: p, vec, vec', h, h', i, hi, hne => by
    simp only [deltran, A.get] at h h'
    have hs : Set01 k s := hall s (by simp [A.flat])
    have hrest : ∀ v ∈ A.flatL (c :: cs), Set01 k v :=
      fun v hv => hall v (by simp only [A.flat, List.mem_cons]; exact Or.inr hv)
    match par, h' with
    | none, h' =>
      exact deltranL_sub (c :: cs) (some s) (fun pv e => by cases e; exact hs) hrest j p vec vec' h h' i hi hne
    | some q, h' =>
      exact deltranL_sub (c :: cs) (some (inter k s q)) (fun pv e => by cases e; exact inter_01 k s q hs) hrest
        j p vec vec' h h' i hi hne
theorem deltranL_sub : ∀ (ks : List A) (par : Option Vec), (∀ pv, par = some pv → Set01 k pv) →
    (∀ v ∈ A.flatL ks, Set01 k v) →
    ∀ (j : Nat) (p : List Nat) (vec vec' : Vec), A.getL ks j p = some vec → A.getL (deltranL k par ks) j p = some vec' →
    ∀ i, i < k → vec'.at i ≠ 0 → vec.at i ≠ 0
  | [], _, _, _, _, _, _, _, h, _, _, _, _ => by simp [A.getL] at h
  | a :: r, par, hpar, hall, 0, p, vec, vec', h, h', i, hi, hne => by
    simp only [deltranL, A.getL] at h h'
    exact deltran_sub a par hpar (fun v hv => hall v (by simp only [A.flatL, List.mem_append]; exact Or.inl hv))
      p vec vec' h h' i hi hne
  | a :: r, par, hpar, hall, j + 1, p, vec, vec', h, h', i, hi, hne => by
    simp only [deltranL, A.getL] at h h'
    exact deltranL_sub r par hpar (fun v hv => hall v (by simp only [A.flatL, List.mem_append]; exact Or.inr hv))
      j p vec vec' h h' i hi hne
end

/- DELTRAN never rewrites a node without children -/
mutual
theorem deltran_leaf : ∀ (a : A) (par : Option Vec) (p : List Nat) (s : Vec),
    a.sub p = some (.node s []) → (deltran k par a).sub p = some (.node s [])
  | .node s0 [], par, [], s, h => by
    simp only [A.sub, Option.some.injEq] at h; simp [deltran, A.sub, h]
  | .node s0 [], par, j :: p, s, h => by simp [A.sub, A.subL] at h
  | .node s0 (c :: cs), par, [], s, h => by simp [A.sub] at h
  | .node s0 (c :: cs), par, j :: p, s, h => by
    simp only [A.sub] at h
    simp only [deltran, A.sub]
    exact deltranL_leaf (c :: cs) _ j p s h
theorem deltranL_leaf : ∀ (ks : List A) (par : Option Vec) (j : Nat) (p : List Nat) (s : Vec),
    A.subL ks j p = some (.node s []) → A.subL (deltranL k par ks) j p = some (.node s [])
  | [], _, _, _, _, h => by simp [A.subL] at h
  | a :: r, par, 0, p, s, h => by
    simp only [A.subL] at h; simp only [deltranL, A.subL]; exact deltran_leaf a par p s h
  | a :: r, par, j + 1, p, s, h => by
    simp only [A.subL] at h; simp only [deltranL, A.subL]; exact deltranL_leaf r par j p s h
end

variable (tv : String → Vec)

theorem cp_01 (v : Vec) : Set01 k (cp k v) := by
  intro i _
  simp only [cp]; rw [at_tab]; split <;> (try split) <;> omega

/- the down-pass: every slice is a set; a leaf keeps its tip slice; slices exist along paths -/
theorem down_flat_list : ∀ (ks : Kids),
    (∀ et ∈ ks, (∀ n ∈ et.2.leaves, leaf01 k tv n) → ∀ us, ∀ v ∈ (down k tv us et.2).flat, Set01 k v) →
    (∀ n ∈ leavesL ks, leaf01 k tv n) → ∀ us pre, ∀ v ∈ A.flatL (downL k tv us pre ks), Set01 k v
  | [], _, _, _, _, v, hv => by simp [downL, A.flatL] at hv
  | (e, c) :: r, ih, hl, us, pre, v, hv => by
    simp only [downL, A.flatL, List.mem_append] at hv
    cases hv with
    | inl h =>
      exact ih (e, c) (List.mem_cons_self ..)
        (fun n hn => hl n (by simp only [leavesL, List.mem_append]; exact Or.inl hn)) _ v h
    | inr h =>
      exact down_flat_list r (fun et het => ih et (List.mem_cons_of_mem _ het))
        (fun n hn => hl n (by simp only [leavesL, List.mem_append]; exact Or.inr hn)) us _ v h

theorem down_flat : ∀ (c : T), (∀ n ∈ c.leaves, leaf01 k tv n) → ∀ us, ∀ v ∈ (down k tv us c).flat, Set01 k v := by
  intro c
  induction c using T.induct with
  | h d p ks ih =>
    intro hl us v hv
    match ks, ih, hl, hv with
    | [], _, hl, hv =>
      simp only [down, A.flat, A.flatL, List.mem_cons, List.not_mem_nil, or_false] at hv
      subst hv
      exact hl d.name (by simp [T.leaves])
    | x :: xs, ih, hl, hv =>
      rw [leaves_node_cons] at hl
      simp only [down, A.flat, List.mem_cons] at hv
      cases hv with
      | inl h =>
        subst h
        match us with
        | none => exact cp_01 k _
        | some u => exact cp_01 k _
      | inr h => exact down_flat_list k tv (x :: xs) ih hl us _ v h

theorem down_leaf_list : ∀ (ks : Kids),
    (∀ et ∈ ks, ∀ us (p : List Nat) (d : NodeD) (pp : Nat), sub et.2 p = some (.node d pp []) →
      (down k tv us et.2).sub p = some (.node (tv d.name) [])) →
    ∀ us pre (i : Nat) (p : List Nat) (d : NodeD) (pp : Nat), subL ks i p = some (.node d pp []) →
    A.subL (downL k tv us pre ks) i p = some (.node (tv d.name) [])
  | [], _, _, _, _, _, _, _, h => by simp [subL] at h
  | (e, c) :: r, ih, us, pre, 0, p, d, pp, h => by
    simp only [subL] at h
    simp only [downL, A.subL]
    exact ih (e, c) (List.mem_cons_self ..) _ p d pp h
  | (e, c) :: r, ih, us, pre, i + 1, p, d, pp, h => by
    simp only [subL] at h
    simp only [downL, A.subL]
    exact down_leaf_list r (fun et het => ih et (List.mem_cons_of_mem _ het)) us _ i p d pp h

theorem down_leaf_sub : ∀ (c : T) us (p : List Nat) (d : NodeD) (pp : Nat), sub c p = some (.node d pp []) →
    (down k tv us c).sub p = some (.node (tv d.name) []) := by
  intro c
  induction c using T.induct with
  | h d0 p0 ks ih =>
    intro us p d pp h
    match ks, ih, p, h with
    | [], _, [], h =>
      simp only [sub, Option.some.injEq, T.node.injEq] at h
      obtain ⟨h1, _, _⟩ := h
      subst h1
      simp [down, A.sub]
    | [], _, i :: q, h => simp [sub, subL] at h
    | x :: xs, _, [], h => simp [sub] at h
    | x :: xs, ih, i :: q, h =>
      simp only [sub] at h
      simp only [down, A.sub]
      exact down_leaf_list k tv (x :: xs) ih us _ i q d pp h

theorem down_get_list : ∀ (ks : Kids),
    (∀ et ∈ ks, ∀ us (p : List Nat), (sub et.2 p).isSome = true → ((down k tv us et.2).get p).isSome = true) →
    ∀ us pre (i : Nat) (p : List Nat), (subL ks i p).isSome = true →
    (A.getL (downL k tv us pre ks) i p).isSome = true
  | [], _, _, _, _, _, h => by simp [subL] at h
  | (e, c) :: r, ih, us, pre, 0, p, h => by
    simp only [subL] at h
    simp only [downL, A.getL]
    exact ih (e, c) (List.mem_cons_self ..) _ p h
  | (e, c) :: r, ih, us, pre, i + 1, p, h => by
    simp only [subL] at h
    simp only [downL, A.getL]
    exact down_get_list r (fun et het => ih et (List.mem_cons_of_mem _ het)) us _ i p h

theorem down_get : ∀ (c : T) us (p : List Nat), (sub c p).isSome = true →
    ((down k tv us c).get p).isSome = true := by
  intro c
  induction c using T.induct with
  | h d pp ks ih =>
    intro us p h
    match ks, ih, p, h with
    | [], _, [], _ => simp [down, A.get]
    | [], _, i :: q, h => simp [sub, subL] at h
    | x :: xs, _, [], _ => simp [down, A.get]
    | x :: xs, ih, i :: q, h =>
      simp only [sub] at h
      simp only [down, A.get]
      exact down_get_list k tv (x :: xs) ih us _ i q h

end sound

end Gotree.C12
