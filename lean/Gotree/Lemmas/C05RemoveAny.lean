/-
  C05 — outgroup removed, whatever the outgroup (round 3: the case remove ∧ ¬strict ∧ not a side).
-/
import Gotree.Lemmas.C05Restr

namespace Gotree.C05
open Gotree

/-- **Outgroup removed, any outgroup** (side of a split or not, strict or not): -/
theorem outgroup_remove_any (t t' : T) (strict : Bool) (S : List String)
    (h : rerootOutGroup true strict S t = .ok t') (hu : t.tipNames.Nodup) (hg : LensGood t.splits)
    (hs : ∀ s ∈ t.splits, GoodL s.e.sup) :
    t'.tipNames.Nodup ∧ t'.tipNames ≠ [] ∧
    (∀ x ∈ t'.tipNames, x ∈ t.tipNames ∧ x ∉ outTips t S) ∧
    canonSide t.tipNames (t.tipNames.filter (fun x => !t'.tipNames.contains x)) ∈ t.usplitsAll.map (·.side) ∧
    (∀ a b, a ∈ t'.tipNames → b ∈ t'.tipNames → t'.dist a b = t.dist a b) ∧
    (∀ K : List String, K.Perm t'.tipNames → ∀ a, a ∈ t'.usplits.map (·.side) ↔
      a ∈ ((t.usplits.map (·.side)).map (fun σ => canonSide K (σ.filter K.contains))).filter
        (fun a => decide (2 ≤ lightSize K a))) ∧
    (∃ (tn : T) (rest : List SplitE), Same t tn ∧ tn.splits.Perm (rest ++ t'.splits) ∧
      ∀ s ∈ rest, (∀ x ∈ t'.tipNames, x ∈ s.below) ∨ (∀ x ∈ t'.tipNames, x ∉ s.below)) := by
  unfold rerootOutGroup rerootOutGroupWith at h
  obtain ⟨pl, hpl, h⟩ := Res.bind_ok h
  obtain ⟨ec, hec, h⟩ := Res.bind_ok h
  obtain ⟨e, c⟩ := ec
  have hk := ofOption_ok_panic hec
  simp only [if_true] at h
  split at h
  · cases h
  · rename_i hlen2
    cases h
    obtain ⟨spath, hseff, hne, _, hts, hlen, hfound, hstrict, htn, hre⟩ := outgroupPlan_ok hpl
    have S1 := unroot_same t hu hg hs
    have hu1 : (unroot t).tipNames.Nodup := S1.tips.nodup_iff.2 hu
    obtain ⟨S2, g2⟩ := rerootP_same spath (unroot t) none [] hu1 (unroot_lensGood t hg)
    rw [← hts] at S2 g2
    have hu2 : pl.ts.tipNames.Nodup := S2.tips.nodup_iff.2 hu1
    obtain ⟨S3, _⟩ := rerootP_same pl.f.p pl.ts none (rerootP (unroot t) spath none []).2.2 hu2 g2
    rw [← htn] at S3
    have ST := (S1.trans S2).trans S3
    have hu3 : pl.tn.tipNames.Nodup := ST.tips.nodup_iff.2 hu
    have hseff' : pl.seff = outTips t S := hseff.trans (effOutgroup_eq_outTips t S S1.tips)
    have hSn : pl.seff.Nodup := by rw [hseff']; exact nodup_eraseDups _
    -- the two sides of the root branch
    obtain ⟨q1, _⟩ := moveRoot_tipNames_split pl.tn pl.r e c hk
    have hAl : (aSide pl.tn pl.r).leaves = (oldRoot pl.tn pl.r).leaves := by simp [aSide, oldRoot, T.leaves_node]
    have hnd2 : (c.leaves ++ (oldRoot pl.tn pl.r).leaves).Nodup := q1.nodup_iff.2 hu3
    have hAn : (aSide pl.tn pl.r).leaves.Nodup := by rw [hAl]; exact (List.nodup_append.1 hnd2).2.1
    obtain ⟨hin, _⟩ := plan_clade hSn hne hlen hfound htn hre hAn
    have hA : ∀ x ∈ pl.seff, x ∈ (oldRoot pl.tn pl.r).leaves := by
      intro x hx; rw [← hAl]; exact hin x hx
    -- the tips of what is left
    have hckids : c.kids ≠ [] := by intro h0; rw [h0] at hlen2; simp at hlen2
    have hcl : c.leaves = leavesL c.kids := by
      obtain ⟨dc, pc, kc⟩ := c; exact leaves_of_kids hckids
    have htips : (T.node c.d 0 c.kids).tipNames = c.leaves := by
      unfold T.tipNames
      have : (c.kids.length == 1) = false := by simp; omega
      simp [this, hcl]
    have hdisj : ∀ x, x ∈ c.leaves → x ∉ (oldRoot pl.tn pl.r).leaves :=
      fun x h1 h2 => (List.nodup_append.1 hnd2).2.2 x h1 x h2 rfl
    refine ⟨?_, ?_, ?_, ?_, ?_, ?_, ?_⟩
    · rw [htips]; exact (List.nodup_append.1 hnd2).1
    · rw [htips]; exact T.leaves_ne_nil c
    · intro x hx
      rw [htips] at hx
      refine ⟨ST.tips.mem_iff.1 (q1.mem_iff.1 (List.mem_append_left _ hx)), fun hs' => ?_⟩
      rw [← hseff'] at hs'
      exact hdisj x hx (hA x hs')
    · -- what was removed is the other side of the root branch
      rw [htips]
      have hgone : (t.tipNames.filter (fun x => !c.leaves.contains x)).Perm (oldRoot pl.tn pl.r).leaves := by
        apply (List.perm_ext_iff_of_nodup (hu.filter _) (List.nodup_append.1 hnd2).2.1).2
        intro x
        simp only [List.mem_filter, Bool.not_eq_true', List.contains_eq_mem, decide_eq_false_iff_not]
        constructor
        · rintro ⟨hx, hnc⟩
          have := q1.mem_iff.2 (ST.tips.mem_iff.2 hx)
          rcases List.mem_append.1 this with h' | h'
          · exact absurd h' hnc
          · exact h'
        · intro hx
          exact ⟨ST.tips.mem_iff.1 (q1.mem_iff.1 (List.mem_append_right _ hx)), fun hc' => hdisj x hc' hx⟩
      rw [canonSide_perm_side _ hgone, ← ST.sides, mem_usplitsAll_sides]
      refine ⟨⟨c.leaves, e, c.isLeaf⟩, kid_mem_splits pl.tn pl.r e c hk, ?_⟩
      rw [canonSide_perm_all ST.tips]
      exact (canonSide_compl hu ((List.perm_append_comm.trans q1).trans ST.tips)).symm
    · intro a b ha hb
      rw [htips] at ha hb
      have hat : a ∈ t.tipNames := ST.tips.mem_iff.1 (q1.mem_iff.1 (List.mem_append_left _ ha))
      have hbt : b ∈ t.tipNames := ST.tips.mem_iff.1 (q1.mem_iff.1 (List.mem_append_left _ hb))
      rw [← ST.dist a b hat hbt]
      unfold T.dist
      rw [distW_perm _ (splits_decomp pl.tn pl.r e c hk), C14.distW_cons, C14.distW_append]
      have h0 : (SplitE.mk c.leaves e c.isLeaf).sep a b = false := by
        simp [SplitE.sep, ha, hb]
      have h1 : distW EdgeD.lenOr0 (oldRoot pl.tn pl.r).splitsBelow a b = 0 :=
        C14.distW_both_out _ _ a b (C14.out_of_sub _ a (hdisj a ha)) (C14.out_of_sub _ b (hdisj b hb))
      rw [h0, h1]
      have : (T.node c.d 0 c.kids).splits = c.splitsBelow := by
        obtain ⟨dc, pc, kc⟩ := c; simp [T.splits, T.splitsBelow_node]
      rw [this]
      simp only [Bool.false_eq_true, if_false]
      grind
    · intro K hK a
      rw [htips] at hK
      exact restrict_mem ST hu pl.r e c hk (by omega) K hK a

    · have hsp : (T.node c.d 0 c.kids).splits = c.splitsBelow := by
        obtain ⟨dc, pc, kc⟩ := c; simp [T.splits, T.splitsBelow_node]
      refine ⟨pl.tn, ⟨c.leaves, e, c.isLeaf⟩ :: (oldRoot pl.tn pl.r).splitsBelow, ST, ?_, ?_⟩
      · rw [hsp]
        exact (splits_decomp pl.tn pl.r e c hk).trans (by simp)
      · intro s hs'
        rw [htips]
        rcases List.mem_cons.1 hs' with rfl | hs'
        · exact Or.inl (fun x hx => hx)
        · exact Or.inr (fun x hx hxs => hdisj x hx (C14.below_sub _ s hs' x hxs))


end Gotree.C05
