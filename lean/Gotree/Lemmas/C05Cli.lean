/-
  C05 — the command-line loop: what is written is, tree by tree, the result of the operation.
-/
import Gotree.Model.C05Cli
import Gotree.Lemmas.C05Deg

namespace Gotree.C05
open Gotree

/-- the trees written by the loop are the results for a prefix of the input, in order; the run
    ends "ok" exactly when every tree was written -/
theorem cliLoop_spec (op : T → Res T) : ∀ (ts : List T),
    (cliLoop op ts).1.length ≤ ts.length ∧
    (∀ (i : Nat) (u : T), (cliLoop op ts).1[i]? = some u → ∃ t, ts[i]? = some t ∧ op t = .ok u) ∧
    ((cliLoop op ts).2 = "ok" ↔ (cliLoop op ts).1.length = ts.length)
  | [] => by simp [cliLoop]
  | t :: ts => by
    obtain ⟨h1, h2, h3⟩ := cliLoop_spec op ts
    cases hop : op t with
    | ok u =>
      simp only [cliLoop, hop, List.length_cons]
      refine ⟨by omega, ?_, by simpa using h3⟩
      intro i v hv
      cases i with
      | zero => simp at hv; exact ⟨t, rfl, by rw [hop, hv]⟩
      | succ i => simpa using h2 i v (by simpa using hv)
    | err m => simp [cliLoop, hop]
    | panic m => simp [cliLoop, hop]

/-- `rotate rand` writes one tree per input tree, each a rotation of it with some draws -/
theorem cliRotate_spec : ∀ (ts : List T) (draws : List Nat),
    (cliRotate ts draws).length = ts.length ∧
    ∀ (i : Nat) (u : T), (cliRotate ts draws)[i]? = some u → ∃ t ds, ts[i]? = some t ∧ u = rotate t ds
  | [], _ => by simp [cliRotate]
  | t :: ts, draws => by
    obtain ⟨h1, h2⟩ := cliRotate_spec ts (draws.drop (drawBounds true t).length)
    simp only [cliRotate, List.length_cons, h1, true_and]
    intro i u hu
    cases i with
    | zero => simp at hu; exact ⟨t, _, rfl, hu.symm⟩
    | succ i => simpa using h2 i u (by simpa using hu)

end Gotree.C05
