/-
  C11 — the collection of TBE's moved-taxa tallies (`tallyCollect`, Model/C11Tbe.lean) is a function of the
  MULTISET of the workers' messages: the own cells are looked up by branch position (distinct keys), the shared
  tallies are sums over the messages, and a sum of rationals does not depend on the order of its terms.
-/
import Gotree.Lemmas.C11Collect
import Gotree.Model.C11Tbe

namespace Gotree.C11

theorem perm_sum_map_rat {γ : Type} (g : γ → Rat) {l l' : List γ} (h : l.Perm l') :
    (l.map g).sum = (l'.map g).sum := by
  induction h with
  | nil => rfl
  | cons x _ ih => simp [ih]
  | swap x y l =>
    simp only [List.map_cons, List.sum_cons]
    rw [← Rat.add_assoc, ← Rat.add_assoc, Rat.add_comm (g y) (g x)]
  | trans _ _ ih1 ih2 => exact ih1.trans ih2

theorem tmpTotal_perm {out out' : List TallyMsg} (h : out.Perm out') (x : String) : tmpTotal out x = tmpTotal out' x := by
  unfold tmpTotal
  exact perm_sum_map_rat _ h

theorem closeTotal_perm {out out' : List TallyMsg} (h : out.Perm out') : closeTotal out = closeTotal out' := by
  unfold closeTotal
  exact perm_sum_map_nat _ h

theorem tallyCollect_perm (r : T) (acc : Gotree.C10.Acc) {out out' : List TallyMsg} (h : out.Perm out')
    (hk : (out.map (·.1)).Nodup) : tallyCollect r acc out = tallyCollect r acc out' := by
  unfold tallyCollect
  have h1 : (fun i => (out.find? (·.1 == i)).map (·.2)) = (fun i => (out'.find? (·.1 == i)).map (·.2)) := by
    funext i; rw [find_key_perm h hk i]
  have h3 : (fun x => tmpTotal out x) = (fun x => tmpTotal out' x) := by funext x; exact tmpTotal_perm h x
  simp only [h1, closeTotal_perm h]
  have h4 : ∀ x, tmpTotal out x = tmpTotal out' x := fun x => tmpTotal_perm h x
  simp only [h4]

theorem tallyItems_keys_nodup (r b : T) (cutoff : Rat) (acc : Gotree.C10.Acc) :
    (((tallyItems r acc).map (tallyItemFn r b cutoff)).map (·.1)).Nodup := by
  have : ((tallyItems r acc).map (tallyItemFn r b cutoff)).map (·.1) = (tallyItems r acc).map (·.1) := by
    simp [tallyItemFn, List.map_map, Function.comp_def]
  rw [this]
  unfold tallyItems
  rw [List.range_eq_range', map_fst_zip_range]
  exact (List.nodup_range' (step := 1) (by omega)).sublist (List.take_sublist _ _)

end Gotree.C11
