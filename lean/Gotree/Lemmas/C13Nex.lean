/-
  C13 — Nexus: scanning the document the writer emits (character level), parsing its tokens.
-/
import Gotree.Lemmas.C13

namespace Gotree.C13
open Gotree
open Nex

/- ## the lexer on words and separators -/

/-- a separator: a character that ends an identifier and is not a carriage return -/
def isSep (c : Char) : Bool := !isIdent c && c != '\r'

def sepToks (c : Char) : List Tok :=
  if isWs c then [] else if c == '\n' then [.eol] else if c == '[' then [.openbrack] else if c == ']' then [.closebrack]
  else if c == ';' then [.endcmd] else if c == '=' then [.equal] else [.comma]

theorem scanGo_cons (c : Char) (hc : c ≠ '\r') (r : Txt) (cur : Option Txt) :
    scanGo (c :: r) cur =
      if isIdent c then scanGo r (some (c :: cur.getD []))
      else flush cur ++ (sepToks c ++ scanGo r none) := by
  rw [scanGo]
  · simp only [sepToks]
    repeat' split
    all_goals simp_all
  · intro r' h; exact absurd h hc
  · intro h; exact absurd h hc

theorem scanGo_sep (s : Char) (hs : isSep s = true) (r : Txt) (cur : Option Txt) :
    scanGo (s :: r) cur = flush cur ++ (sepToks s ++ scanGo r none) := by
  simp only [isSep, Bool.and_eq_true, Bool.not_eq_true', bne_iff_ne] at hs
  rw [scanGo_cons s hs.2, hs.1]; simp

def isWord (w : Txt) : Prop := w ≠ [] ∧ ∀ c ∈ w, isIdent c = true

theorem isIdent_ne_cr {c : Char} (h : isIdent c = true) : c ≠ '\r' := by
  intro hc; subst hc; simp [isIdent] at h

/-- a run of identifier characters is accumulated -/
theorem scanGo_idents (w : Txt) (hw : ∀ c ∈ w, isIdent c = true) (r : Txt) (cur : Txt) :
    scanGo (w ++ r) (some cur) = scanGo r (some (w.reverse ++ cur)) := by
  induction w generalizing cur with
  | nil => rfl
  | cons c w ih =>
    have hc := hw c (by simp)
    rw [List.cons_append, scanGo_cons c (isIdent_ne_cr hc), hc]
    simp only [if_true, Option.getD_some]
    rw [ih (fun x hx => hw x (by simp [hx]))]
    simp

/-- a word followed by a separator is one token -/
theorem scanGo_word (w : Txt) (hw : isWord w) (s : Char) (hs : isSep s = true) (r : Txt) :
    scanGo (w ++ s :: r) none = classify (String.ofList w) :: (sepToks s ++ scanGo r none) := by
  obtain ⟨hne, hall⟩ := hw
  cases w with
  | nil => exact absurd rfl hne
  | cons c w =>
    have hc := hall c (by simp)
    rw [List.cons_append, scanGo_cons c (isIdent_ne_cr hc), hc]
    simp only [if_true, Option.getD_none]
    rw [scanGo_idents w (fun x hx => hall x (by simp [hx])), scanGo_sep s hs]
    simp [flush]

/-- pieces of a text: words and separators -/
inductive Piece where
  | w (s : Txt)
  | sep (c : Char)

def Piece.txt : Piece → Txt
  | .w s => s
  | .sep c => [c]

def Piece.toks : Piece → List Tok
  | .w s => [classify (String.ofList s)]
  | .sep c => sepToks c

def render (ps : List Piece) : Txt := ps.flatMap Piece.txt
def pieceToks (ps : List Piece) : List Tok := ps.flatMap Piece.toks

/-- well-formed piece list: every word is a word and is followed by a separator piece -/
def okPieces : List Piece → Prop
  | [] => True
  | .sep c :: r => isSep c = true ∧ okPieces r
  | .w s :: .sep c :: r => isWord s ∧ isSep c = true ∧ okPieces r
  | .w _ :: _ => False

theorem scan_pieces (ps : List Piece) (h : okPieces ps) (rest : Txt) :
    scanGo (render ps ++ rest) none = pieceToks ps ++ scanGo rest none := by
  induction ps using okPieces.induct with
  | case1 => rfl
  | case2 c r ih =>
    simp only [okPieces] at h
    simp only [render, pieceToks, List.flatMap_cons, Piece.txt, Piece.toks, List.cons_append, List.nil_append,
      List.append_assoc] at ih ⊢
    rw [scanGo_sep c h.1, ih h.2]; simp [flush]
  | case3 s c r ih =>
    simp only [okPieces] at h
    simp only [render, pieceToks, List.flatMap_cons, Piece.txt, Piece.toks, List.cons_append, List.nil_append,
      List.append_assoc] at ih ⊢
    rw [scanGo_word s h.1 c h.2.1, ih h.2.2]
  | case4 s r hr =>
    cases r with
    | nil => simp [okPieces] at h
    | cons p r' =>
      cases p with
      | w _ => simp [okPieces] at h
      | sep c => exact absurd rfl (hr c r')

theorem okPieces_append (a b : List Piece) (ha : okPieces a) (hb : okPieces b)
    (hlast : ∀ s, a.getLast? = some (.w s) → False) : okPieces (a ++ b) := by
  induction a using okPieces.induct with
  | case1 => simpa using hb
  | case2 c r ih =>
    simp only [okPieces] at ha
    simp only [List.cons_append, okPieces]
    refine ⟨ha.1, ih ha.2 ?_⟩
    intro s hs
    cases r with
    | nil => simp at hs
    | cons x r' => exact hlast s (by simpa using hs)
  | case3 s c r ih =>
    simp only [okPieces] at ha
    simp only [List.cons_append, okPieces]
    refine ⟨ha.1, ha.2.1, ih ha.2.2 ?_⟩
    intro s' hs
    cases r with
    | nil => simp at hs
    | cons x r' => exact hlast s' (by simpa using hs)
  | case4 s r hr =>
    cases r with
    | nil => exact absurd rfl (hlast s)
    | cons p r' =>
      cases p with
      | w _ => simp [okPieces] at ha
      | sep c => exact absurd rfl (hr c r')

/-- cutting a text right after a separator: the two parts are scanned independently -/
theorem scanGo_append (a : Txt) (s : Char) (hs : isSep s = true) (hcr : ∀ c ∈ a, c ≠ '\r') (rest : Txt) (cur : Option Txt) :
    scanGo (a ++ s :: rest) cur = scanGo (a ++ [s]) cur ++ scanGo rest none := by
  induction a generalizing cur with
  | nil =>
    simp only [List.nil_append]
    rw [scanGo_sep s hs, scanGo_sep s hs]
    simp [scanGo, flush]
  | cons c a ih =>
    have hc := hcr c (by simp)
    have ih' := fun cur => ih (fun x hx => hcr x (by simp [hx])) cur
    simp only [List.cons_append]
    rw [scanGo_cons c hc, scanGo_cons c hc]
    split
    · exact ih' _
    · rw [ih' none]; simp

/- ## numbers -/

theorem natTxt_digits (n : Nat) : natTxt n = Nat.toDigits 10 n := by
  simp [natTxt]

theorem natTxt_isDigit (n : Nat) : ∀ c ∈ natTxt n, c.isDigit = true := by
  intro c hc
  rw [natTxt_digits] at hc
  exact Nat.isDigit_of_mem_toDigits (by decide) (by decide) hc

theorem natTxt_ne_nil (n : Nat) : natTxt n ≠ [] := by
  rw [natTxt_digits]; exact Nat.toDigits_ne_nil

theorem isDigit_isIdent {c : Char} (h : c.isDigit = true) : isIdent c = true := by
  simp only [Char.isDigit, Bool.and_eq_true, decide_eq_true_eq] at h
  have h1 : 48 ≤ c.val.toNat := by have := h.1; simpa [UInt32.le_iff_toNat_le] using this
  have h2 : c.val.toNat ≤ 57 := by have := h.2; simpa [UInt32.le_iff_toNat_le] using this
  simp only [isIdent, isWs, Bool.and_eq_true, bne_iff_ne, ne_eq, Bool.not_eq_true', Bool.or_eq_false_iff,
    beq_eq_false_iff_ne]
  refine ⟨⟨⟨⟨⟨⟨⟨?_, ?_⟩, ?_⟩, ?_⟩, ?_⟩, ?_⟩, ?_⟩, ?_, ?_⟩ <;>
    (intro hc; subst hc; simp at h1 h2)

theorem natTxt_word (n : Nat) : isWord (natTxt n) :=
  ⟨natTxt_ne_nil n, fun c hc => isDigit_isIdent (natTxt_isDigit n c hc)⟩

theorem signSplit_digits (l : Txt) (hd : ∀ c ∈ l, c.isDigit = true) : signSplit l = (false, l) := by
  unfold signSplit
  split
  · rename_i r
    have := hd '-' (by simp)
    simp [Char.isDigit] at this
  · rename_i r
    have := hd '+' (by simp)
    simp [Char.isDigit] at this
  · rfl

theorem digitsNat_toDigits (n : Nat) : digitsNat (Nat.toDigits 10 n) = n := by
  show Nat.ofDigitChars 10 (Nat.toDigits 10 n) 0 = n
  exact Nat.ofDigitChars_ten_toDigits

theorem isInt64_natStr (n : Nat) (hn : n ≤ 9223372036854775807) : isInt64 (toString n) = true := by
  have hl : (toString n).toList = Nat.toDigits 10 n := by simp
  have hd : ∀ c ∈ Nat.toDigits 10 n, c.isDigit = true :=
    fun c hc => Nat.isDigit_of_mem_toDigits (by decide) (by decide) hc
  have hne : (Nat.toDigits 10 n).isEmpty = false := by
    cases h : Nat.toDigits 10 n with
    | nil => exact absurd h Nat.toDigits_ne_nil
    | cons _ _ => rfl
  simp only [isInt64, hl, signSplit_digits _ hd, hne, digitsNat_toDigits]
  simp [hn]
  exact hd

theorem intVal_natStr (n : Nat) : intVal (toString n) = (n : Int) := by
  have hl : (toString n).toList = Nat.toDigits 10 n := by simp
  have hd : ∀ c ∈ Nat.toDigits 10 n, c.isDigit = true :=
    fun c hc => Nat.isDigit_of_mem_toDigits (by decide) (by decide) hc
  simp [intVal, signSplit_digits _ hd, digitsNat_toDigits]

theorem classify_natTxt (n : Nat) (hn : n ≤ 9223372036854775807) :
    classify (String.ofList (natTxt n)) = .numeric (toString n) := by
  have : String.ofList (natTxt n) = toString n := by
    simp only [natTxt, String.ofList_toList]
  rw [this]
  simp only [classify, isInt64_natStr n hn, if_true]

/- ## labels -/

/-- a label that is one Nexus token and not a keyword -/
def tokLabel (s : String) : Prop := isWord s.toList ∧ keywordOf s = none

theorem classify_name (s : String) (h : keywordOf s = none) : (classify s).name? = some s := by
  unfold classify
  split
  · rfl
  · simp [h, Tok.name?]

theorem labelOK_tokLabel (s : String) (h : labelOK s = true) : tokLabel s := by
  simp only [labelOK, Bool.and_eq_true, Bool.not_eq_true', bne_iff_ne, ne_eq, Option.isNone_iff_eq_none] at h
  refine ⟨⟨?_, ?_⟩, h.2⟩
  · intro hnil
    apply h.1.1
    have : s = String.ofList s.toList := by simp
    rw [this, hnil]
  · intro c hc
    have hb : badLabelChar c = false := by
      have := h.1.2
      rw [List.any_eq_false] at this
      simpa using this c hc
    simp only [badLabelChar, Bool.or_eq_false_iff, beq_eq_false_iff_ne] at hb
    simp only [isIdent, isWs, Bool.and_eq_true, bne_iff_ne, ne_eq, Bool.not_eq_true', Bool.or_eq_false_iff,
      beq_eq_false_iff_ne]
    simp_all

/-- the label list of TAXLABELS, up to the ';' -/
theorem scan_labels (ls : List String) (h : ∀ l ∈ ls, tokLabel l) (rest : Txt) :
    scanGo (labelsText ls ++ ';' :: rest) none = ls.map classify ++ .endcmd :: scanGo rest none := by
  induction ls with
  | nil =>
    simp only [labelsText, joinMap, List.nil_append, List.map_nil]
    rw [scanGo_sep ';' (by decide)]; simp [flush, sepToks, isWs]
  | cons l ls ih =>
    have ih' := ih (fun x hx => h x (by simp [hx]))
    have hl := (h l (by simp)).1
    simp only [labelsText, joinMap, List.cons_append, List.append_assoc, List.map_cons] at ih' ⊢
    rw [scanGo_sep ' ' (by decide)]
    simp only [flush, sepToks, isWs, List.nil_append, beq_self_eq_true, Bool.true_or, if_true]
    -- the word `l` is followed by a separator: ' ' (next label) or ';'
    cases ls with
    | nil =>
      simp only [joinMap, List.nil_append, List.map_nil] at ih' ⊢
      rw [scanGo_word l.toList hl ';' (by decide)]
      simp [sepToks, isWs]
    | cons l' ls' =>
      simp only [joinMap, List.cons_append, List.append_assoc] at ih' ⊢
      rw [scanGo_word l.toList hl ' ' (by decide)]
      rw [scanGo_sep ' ' (by decide)] at ih'
      simp only [flush, sepToks, isWs, List.nil_append, beq_self_eq_true, Bool.true_or, if_true] at ih' ⊢
      rw [ih']
      simp

/- ## parsing the tokens of the document -/

theorem parseTaxlabels_labels (ls : List String) (h : ∀ l ∈ ls, keywordOf l = none) (acc : List String) (rest : List Tok) :
    parseTaxlabels (ls.map classify ++ .endcmd :: rest) acc = .ok (ls.foldl insertLabel acc, rest) := by
  induction ls generalizing acc with
  | nil => simp [parseTaxlabels]
  | cons l ls ih =>
    have ih' := fun acc => ih (fun x hx => h x (by simp [hx])) acc
    have hk := h l (by simp)
    simp only [List.map_cons, List.cons_append, List.foldl_cons]
    unfold classify
    split
    · simp only [parseTaxlabels]; exact ih' _
    · simp only [hk, parseTaxlabels]; exact ih' _

theorem parseTreeStr_append (l : List Tok) (acc s : Txt) (rest : List Tok)
    (h : parseTreeStr l acc = .ok (s, [])) : parseTreeStr (l ++ rest) acc = .ok (s, rest) := by
  fun_induction parseTreeStr l acc with
  | case1 => simp at h
  | case2 r acc => simp only [PRes.ok.injEq, Prod.mk.injEq] at h; simp [parseTreeStr, h.1, h.2]
  | case3 x r acc ih => simp only [List.cons_append, parseTreeStr]; exact ih h
  | case4 x r acc ih => simp only [List.cons_append, parseTreeStr]; exact ih h
  | case5 r acc ih => simp only [List.cons_append, parseTreeStr]; exact ih h
  | case6 r acc ih => simp only [List.cons_append, parseTreeStr]; exact ih h
  | case7 r acc ih => simp only [List.cons_append, parseTreeStr]; exact ih h
  | case8 r acc ih => simp only [List.cons_append, parseTreeStr]; exact ih h
  | case9 => simp_all

/-- the tokens of the TAXA block after `BEGIN TAXA ;` -/
def taxaToks (nS : String) (labels : List String) : List Tok :=
  [.eol, .kw .dimensions "DIMENSIONS", .kw .ntax "NTAX", .equal, .numeric nS, .endcmd, .eol, .kw .taxlabels "TAXLABELS"] ++
  labels.map classify ++ [.endcmd, .eol, .kw .end_ "END", .endcmd]

theorem parseTaxa_block (f : Nat) (nS : String) (labels : List String) (h : ∀ l ∈ labels, keywordOf l = none)
    (rest : List Tok) :
    parseTaxa (f + 6) (taxaToks nS labels ++ rest) (-1) [] =
      .ok ((intVal nS, labels.foldl insertLabel []), rest) := by
  simp only [taxaToks, List.cons_append, List.nil_append, List.append_assoc]
  simp only [parseTaxa, parseDims]
  rw [parseTaxlabels_labels labels h]

/-- the tokens of one TREE command and the line end after it -/
def treeCmdToks (name : String) (btoks : List Tok) : List Tok :=
  [.kw .tree "TREE", classify name, .equal] ++ btoks ++ [.eol]

theorem parseTrees_cmd (f : Nat) (name : String) (btoks : List Tok) (body : Txt) (rest : List Tok) (a : TreesAcc)
    (hn : keywordOf name = none) (hb : parseTreeStr btoks [] = .ok (body, []))
    (hh : btoks.head? ≠ some .openbrack) :
    parseTrees (f + 2) (treeCmdToks name btoks ++ rest) a =
      parseTrees f rest { a with trees := a.trees ++ [(name, body)] } := by
  have hp := parseTreeStr_append btoks [] body (.eol :: rest) hb
  simp only [treeCmdToks, List.cons_append, List.nil_append, List.append_assoc]
  rw [parseTrees]
  simp only [classify_name name hn]
  cases btoks with
  | nil => simp [parseTreeStr] at hb
  | cons t r =>
    cases t with
    | openbrack => exact absurd rfl hh
    | _ =>
      simp only [List.cons_append] at hp ⊢
      simp only [hp]
      rw [parseTrees]

/-- one TREE command as the writer emits it: name, tokens of the tree text, the text they rebuild -/
structure Cmd where
  name : String
  btoks : List Tok
  body : Txt

def Cmd.ok (c : Cmd) : Prop :=
  keywordOf c.name = none ∧ parseTreeStr c.btoks [] = .ok (c.body, []) ∧ c.btoks.head? ≠ some .openbrack

def cmdsToks (cs : List Cmd) : List Tok := cs.flatMap fun c => treeCmdToks c.name c.btoks

theorem parseTrees_cmds (cs : List Cmd) (h : ∀ c ∈ cs, c.ok) (f : Nat) (rest : List Tok) (a : TreesAcc) :
    parseTrees (f + 2 * cs.length) (cmdsToks cs ++ rest) a =
      parseTrees f rest { a with trees := a.trees ++ cs.map fun c => (c.name, c.body) } := by
  induction cs generalizing a with
  | nil => simp [cmdsToks]
  | cons c cs ih =>
    obtain ⟨h1, h2, h3⟩ := h c (by simp)
    have e : f + 2 * (c :: cs).length = (f + 2 * cs.length) + 2 := by simp; omega
    rw [e]
    simp only [cmdsToks, List.flatMap_cons, List.append_assoc]
    rw [parseTrees_cmd _ c.name c.btoks c.body _ a h1 h2 h3]
    have := ih (fun x hx => h x (by simp [hx])) { a with trees := a.trees ++ [(c.name, c.body)] }
    simp only [cmdsToks] at this
    rw [this]
    simp

/-- the TREES block without a translate table, after `BEGIN TREES ;` -/
theorem parseTrees_block (cs : List Cmd) (h : ∀ c ∈ cs, c.ok) (f : Nat) (hf : 2 * cs.length + 2 ≤ f)
    (rest : List Tok) (a : TreesAcc) :
    parseTrees f (.eol :: (cmdsToks cs ++ .kw .end_ "END" :: .endcmd :: rest)) a =
      .ok ({ a with trees := a.trees ++ cs.map fun c => (c.name, c.body) }, rest) := by
  obtain ⟨g, rfl⟩ : ∃ g, f = (g + 1 + 2 * cs.length) + 1 := ⟨f - (2 * cs.length + 2), by omega⟩
  rw [parseTrees]
  rw [parseTrees_cmds cs h (g + 1)]
  rw [parseTrees]

/-- the whole document after the `#NEXUS` token (no translate table) -/
def docToks (nS : String) (labels : List String) (cs : List Cmd) : List Tok :=
  [.eol, .kw .begin_ "BEGIN", .kw .taxa "TAXA", .endcmd] ++ taxaToks nS labels ++
  [.eol, .kw .begin_ "BEGIN", .kw .trees "TREES", .endcmd, .eol] ++ cmdsToks cs ++
  [.kw .end_ "END", .endcmd, .eol]

theorem parseLoop_doc (nS : String) (labels : List String) (cs : List Cmd)
    (hl : ∀ l ∈ labels, keywordOf l = none) (hc : ∀ c ∈ cs, c.ok) (f : Nat) (hf : 2 * cs.length + 10 ≤ f) :
    parseLoop f (docToks nS labels cs) {} =
      .ok { ntax := intVal nS, taxlabels := some (labels.foldl insertLabel []),
            trees := some (cs.map fun c => (c.name, c.body)), transl := none } := by
  obtain ⟨g, rfl⟩ : ∃ g, f = g + 2 * cs.length + 10 := ⟨f - (2 * cs.length + 10), by omega⟩
  simp only [docToks, List.cons_append, List.nil_append, List.append_assoc]
  rw [parseLoop, parseLoop]
  simp only []
  have e1 : g + 2 * cs.length + 8 = (g + 2 * cs.length + 2) + 6 := by omega
  rw [e1, parseTaxa_block _ nS labels hl]
  simp only []
  rw [parseLoop, parseLoop]
  simp only []
  rw [parseTrees_block cs hc _ (by omega)]
  simp only [List.nil_append]
  rw [parseLoop, parseLoop]
  simp

/- ## the name of a tree (`tree<id>`) is not a keyword -/

theorem upper_digit (c : Char) (h : c.isDigit = true) : upperGo c = c := by
  simp only [Char.isDigit, Bool.and_eq_true, decide_eq_true_eq, ge_iff_le] at h
  have h2 : c.val ≤ '9'.val := h.2
  unfold upperGo
  have a1 : c ≠ 'ı' := by intro hc; subst hc; revert h2; decide
  have a2 : c ≠ 'ſ' := by intro hc; subst hc; revert h2; decide
  simp only [beq_iff_eq, a1, a2, if_false]
  unfold Char.toUpper
  have : ¬ ('a'.val ≤ c.val ∧ c.val ≤ 'z'.val) := by
    intro hh
    have h3 := UInt32.le_trans hh.1 h2
    revert h3; decide
  split
  · rename_i hh; exact absurd hh this
  · rfl

/-- `lit` is not "TREE" followed by at least one digit -/
def notTreeDigits (lit : String) : Bool :=
  lit.toList.take 4 != "TREE".toList || lit.toList.length == 4 ||
  (match lit.toList.drop 4 with | c :: _ => !c.isDigit | [] => false)

theorem kw_treeName (id : Nat) : keywordOf ("tree" ++ toString id) = none := by
  have hd : ∀ c ∈ Nat.toDigits 10 id, c.isDigit = true :=
    fun c hc => Nat.isDigit_of_mem_toDigits (by decide) (by decide) hc
  have hup : String.ofList (("tree" ++ toString id).toList.map upperGo) = String.ofList ("TREE".toList ++ Nat.toDigits 10 id) := by
    congr 1
    simp only [String.toList_append, List.map_append, Nat.toString_eq_repr, Nat.toList_repr]
    congr 1
    exact (List.map_congr_left (fun c hc => upper_digit c (hd c hc))).trans (List.map_id _)
  unfold keywordOf
  rw [hup]
  have key : ∀ lit : String, notTreeDigits lit = true →
      String.ofList ("TREE".toList ++ Nat.toDigits 10 id) = lit → False := by
    intro lit hlit heq
    have h2 := congrArg String.toList heq
    simp only [String.toList_ofList] at h2
    simp only [notTreeDigits, Bool.or_eq_true, bne_iff_ne, ne_eq, beq_iff_eq] at hlit
    rcases hlit with (h | h) | h
    · apply h; rw [← h2]; simp
    · have := congrArg List.length h2
      rw [h] at this
      have hne := Nat.toDigits_ne_nil (b := 10) (n := id)
      cases hh : Nat.toDigits 10 id with
      | nil => exact hne hh
      | cons _ _ => rw [hh] at this; simp at this
    · have h3 : Nat.toDigits 10 id = lit.toList.drop 4 := by rw [← h2]; simp
      rw [← h3] at h
      cases hh : Nat.toDigits 10 id with
      | nil => rw [hh] at h; simp at h
      | cons c r =>
        rw [hh] at h
        have := hd c (by rw [hh]; simp)
        simp [this] at h
  split <;> first | rfl | (rename_i heq; exfalso; exact key _ (by decide) heq)

/- ## scanning literal chunks and tree lines -/

/-- a chunk without carriage return that ends with a separator -/
def endsSepNoCR (lit : Txt) : Bool :=
  lit.all (· != '\r') && (match lit.getLast? with | some s => isSep s | none => false)

theorem scanGo_lit (lit X : Txt) (h : endsSepNoCR lit = true) (cur : Option Txt) :
    scanGo (lit ++ X) cur = scanGo lit cur ++ scanGo X none := by
  simp only [endsSepNoCR, Bool.and_eq_true, List.all_eq_true, bne_iff_ne, ne_eq] at h
  cases hl : lit.getLast? with
  | none => rw [hl] at h; simp at h
  | some s =>
    rw [hl] at h
    have hne : lit ≠ [] := by intro hn; rw [hn] at hl; simp at hl
    have hgl : lit.getLast hne = s := by
      have := List.getLast?_eq_some_getLast hne
      rw [hl] at this; injection this with this; exact this.symm
    have hd : lit.dropLast ++ [s] = lit := by rw [← hgl]; exact List.dropLast_concat_getLast hne
    have hcr : ∀ c ∈ lit.dropLast, c ≠ '\r' := fun c hc => h.1 c (by rw [← hd]; simp [hc])
    rw [← hd, List.append_assoc, List.singleton_append, scanGo_append _ s h.2 hcr X cur]

theorem ofList_tree_nat (id : Nat) : String.ofList (litTree2 ++ natTxt id) = "tree" ++ toString id := by
  apply String.toList_inj.1
  simp [natTxt, litTree2]

theorem scan_treeLine (C : NewickCodec) (id : Nat) (t : T) (body : Txt) (hb : C.write t = body ++ [';'])
    (hcr : ∀ c ∈ body, c ≠ '\r') (rest : Txt) :
    scanGo (treeLine C id t ++ rest) none =
      treeCmdToks ("tree" ++ toString id) (scanGo (body ++ [';']) none) ++ scanGo rest none := by
  have e : treeLine C id t ++ rest =
      litTree1 ++ ((litTree2 ++ natTxt id) ++ ' ' :: (litEq ++ (body ++ ';' :: ('\n' :: rest)))) := by
    simp only [treeLine, hb, List.append_assoc, List.cons_append, List.nil_append]
  rw [e, scanGo_lit _ _ (by decide)]
  have hw : isWord (litTree2 ++ natTxt id) := by
    refine ⟨by simp [litTree2], ?_⟩
    intro c hc
    have ht : ∀ c ∈ litTree2, isIdent c = true := by decide
    rcases List.mem_append.1 hc with h | h
    · exact ht c h
    · exact (natTxt_word id).2 c h
  rw [scanGo_word _ hw ' ' (by decide), scanGo_lit _ _ (by decide), scanGo_append body ';' (by decide) hcr,
    scanGo_sep '\n' (by decide), ofList_tree_nat]
  have k1 : scanGo litTree1 none = [.kw .tree "TREE"] := by decide
  have k2 : scanGo litEq none = [.equal] := by decide
  rw [k1, k2]
  simp [treeCmdToks, sepToks, isWs, flush]

/-- a word followed by a text that starts with a separator -/
theorem scanGo_word' (w : Txt) (hw : isWord w) (s : Char) (hs : isSep s = true) (X : Txt) :
    scanGo (w ++ s :: X) none = classify (String.ofList w) :: scanGo (s :: X) none := by
  rw [scanGo_word w hw s hs, scanGo_sep s hs]; simp [flush]

theorem scan_taxlabels (ls : List String) (h : ∀ l ∈ ls, tokLabel l) (rest : Txt) :
    scanGo (litTaxlabels ++ (labelsText ls ++ ';' :: rest)) none =
      .kw .taxlabels "TAXLABELS" :: (ls.map classify ++ .endcmd :: scanGo rest none) := by
  have hw : isWord litTaxlabels := ⟨by decide, by decide⟩
  have hc : classify (String.ofList litTaxlabels) = .kw .taxlabels "TAXLABELS" := by decide
  cases ls with
  | nil =>
    simp only [labelsText, joinMap, List.nil_append]
    rw [scanGo_word' _ hw ';' (by decide), hc]
    have := scan_labels [] (by simp) rest
    simp only [labelsText, joinMap, List.nil_append] at this
    rw [this]
  | cons l ls =>
    have := scan_labels (l :: ls) h rest
    simp only [labelsText, joinMap, List.cons_append] at this ⊢
    rw [scanGo_word' _ hw ' ' (by decide), hc, this]

/- ## the writer's loop -/

theorem writeLoop_fst (C : NewickCodec) (tr : Bool) (its : List (Nat × T)) (s : WState) (buf : Txt) :
    (writeNexusLoop C tr its s buf).1 = stateLoop its s := by
  induction its generalizing s buf with
  | nil => rfl
  | cons it r ih => simp only [writeNexusLoop, writeNexusStep, stateLoop]; exact ih _ _

def plainLines (C : NewickCodec) : List (Nat × T) → Txt
  | [] => []
  | it :: r => treeLine C it.1 it.2 ++ plainLines C r

theorem writeLoop_plain_snd (C : NewickCodec) (its : List (Nat × T)) (s : WState) (buf : Txt) :
    (writeNexusLoop C false its s buf).2 = buf ++ plainLines C its := by
  induction its generalizing s buf with
  | nil => simp [writeNexusLoop, plainLines]
  | cons it r ih =>
    simp only [writeNexusLoop, writeNexusStep, plainLines]
    rw [ih]
    simp [writtenTree]

/-- the document without translate table, for a taxa count, a label list and the trees -/
def plainDoc (C : NewickCodec) (n : Nat) (labels : List String) (its : List (Nat × T)) : Txt :=
  lit1 ++ (natTxt n ++ ';' :: (lit2a ++ (litTaxlabels ++
    (labelsText labels ++ ';' :: (lit3a ++ (plainLines C its ++ lit4))))))

theorem writeNexus_plain_eq (C : NewickCodec) (its : List (Nat × T)) :
    writeNexus C false its = plainDoc C (stateLoop its {}).map.length (stateLoop its {}).slice its := by
  have h1 := writeLoop_fst C false its {} []
  have h2 := writeLoop_plain_snd C its {} []
  unfold writeNexus plainDoc
  simp only [h1, h2, Bool.false_eq_true, if_false, List.nil_append]

theorem treeNexus_eq (C : NewickCodec) (t : T) :
    treeNexus C t = plainDoc C t.tipNames.length t.tipNames [(1, t)] := by
  simp [treeNexus, plainDoc, plainLines]

/-- the TREE commands of the document -/
def cmdOf (C : NewickCodec) (it : Nat × T) : Cmd :=
  ⟨"tree" ++ toString it.1, scanGo (C.write it.2) none, (C.write it.2).dropLast⟩

theorem scan_lines (C : NewickCodec) (its : List (Nat × T))
    (h : ∀ it ∈ its, ∃ body, C.write it.2 = body ++ [';'] ∧ ∀ c ∈ body, c ≠ '\r') (rest : Txt) :
    scanGo (plainLines C its ++ rest) none = cmdsToks (its.map (cmdOf C)) ++ scanGo rest none := by
  induction its with
  | nil => simp [cmdsToks, plainLines]
  | cons it r ih =>
    obtain ⟨body, hb, hcr⟩ := h it (by simp)
    obtain ⟨id, t⟩ := it
    simp only [plainLines, List.append_assoc, List.map_cons, cmdsToks]
    rw [scan_treeLine C id t body hb hcr, ih (fun x hx => h x (by simp [hx]))]
    simp [cmdOf, cmdsToks, hb]

theorem scan_plainDoc (C : NewickCodec) (n : Nat) (labels : List String) (its : List (Nat × T))
    (hn : n ≤ 9223372036854775807)
    (hl : ∀ l ∈ labels, tokLabel l)
    (h : ∀ it ∈ its, ∃ body, C.write it.2 = body ++ [';'] ∧ ∀ c ∈ body, c ≠ '\r') :
    scan (plainDoc C n labels its) =
      .kw .nexus "#NEXUS" :: docToks (toString n) labels (its.map (cmdOf C)) := by
  unfold scan plainDoc
  rw [scanGo_lit lit1 _ (by decide),
    scanGo_word _ (natTxt_word _) ';' (by decide), classify_natTxt _ hn,
    scanGo_lit lit2a _ (by decide), scan_taxlabels _ hl, scanGo_lit lit3a _ (by decide), scan_lines C its h]
  have k1 : scanGo lit1 none = [.kw .nexus "#NEXUS", .eol, .kw .begin_ "BEGIN", .kw .taxa "TAXA", .endcmd, .eol,
      .kw .dimensions "DIMENSIONS", .kw .ntax "NTAX", .equal] := by decide
  have k2 : scanGo lit2a none = [.eol] := by decide
  have k3 : scanGo lit3a none = [.eol, .kw .end_ "END", .endcmd, .eol, .kw .begin_ "BEGIN", .kw .trees "TREES", .endcmd, .eol] := by decide
  have k4 : scanGo lit4 none = [.kw .end_ "END", .endcmd, .eol] := by decide
  rw [k1, k2, k3, k4]
  simp [docToks, taxaToks, sepToks, isWs]

/- ## from the tokens to the trees -/

theorem classify_ne_loneCR (s : String) : classify s ≠ .loneCR := by
  unfold classify
  split
  · simp
  · split <;> simp

theorem parseTreeStr_noCR (l : List Tok) (acc s : Txt) (r : List Tok) (h : parseTreeStr l acc = .ok (s, r)) (hr : .loneCR ∉ r) :
    .loneCR ∉ l := by
  fun_induction parseTreeStr l acc with
  | case1 => simp at h
  | case2 r' acc => simp only [PRes.ok.injEq, Prod.mk.injEq] at h; rw [← h.2] at hr; simpa using hr
  | case3 x r' acc ih => simpa using ih h
  | case4 x r' acc ih => simpa using ih h
  | case5 r' acc ih => simpa using ih h
  | case6 r' acc ih => simpa using ih h
  | case7 r' acc ih => simpa using ih h
  | case8 r' acc ih => simpa using ih h
  | case9 => simp at h

theorem cmdsToks_length (cs : List Cmd) : 2 * cs.length ≤ (cmdsToks cs).length := by
  induction cs with
  | nil => simp [cmdsToks]
  | cons c r ih =>
    simp only [cmdsToks, List.flatMap_cons, List.length_append, List.length_cons, treeCmdToks] at ih ⊢
    omega

theorem hasDup_not_mem (acc : List String) (a : String) (r : List String) (h : hasDup (acc ++ a :: r) = false) : a ∉ acc := by
  induction acc with
  | nil => simp
  | cons x acc ih =>
    simp only [List.cons_append, hasDup, Bool.or_eq_false_iff] at h
    intro hm
    rcases List.mem_cons.1 hm with h1 | h1
    · subst h1
      have := h.1
      simp at this
    · exact ih h.2 h1

theorem foldl_insertLabel (l acc : List String) (h : hasDup (acc ++ l) = false) :
    l.foldl insertLabel acc = acc ++ l := by
  induction l generalizing acc with
  | nil => simp
  | cons a r ih =>
    have hn := hasDup_not_mem acc a r h
    have : insertLabel acc a = acc ++ [a] := by
      unfold insertLabel
      simp [hn]
    simp only [List.foldl_cons, this]
    rw [ih (acc ++ [a]) (by simpa using h)]
    simp

mutual
theorem leaves_strip : ∀ t : T, (strip t).leaves = t.leaves
  | .node d p [] => by simp [strip, stripL, T.leaves]
  | .node d p (k :: ks) => by
    obtain ⟨e, t⟩ := k
    have := leavesL_strip ((e, t) :: ks)
    simp only [strip, stripL, T.leaves] at this ⊢
    exact this
theorem leavesL_strip : ∀ k : Kids, leavesL (stripL k) = leavesL k
  | [] => rfl
  | (e, t) :: r => by
    simp only [stripL, leavesL]
    rw [leaves_strip t, leavesL_strip r]
end

theorem stripL_length (k : Kids) : (stripL k).length = k.length := by
  induction k with
  | nil => rfl
  | cons x r ih => obtain ⟨e, t⟩ := x; simp [stripL, ih]

theorem tipNames_strip (t : T) : (strip t).tipNames = t.tipNames := by
  cases t with
  | node d p k =>
    simp only [strip, T.tipNames, T.kids_node, T.name, T.d_node, stripL_length, leavesL_strip]
    rfl

theorem tipNames_of_strip_eq (a b : T) (h : strip a = strip b) : a.tipNames = b.tipNames := by
  rw [← tipNames_strip a, h, tipNames_strip]

theorem buildTrees_plain (C : NewickCodec) (L : NewickLaws C) (labs : List String) (its : List (Nat × T))
    (hw : ∀ it ∈ its, L.wf it.2 = true) (ht : ∀ it ∈ its, okTaxa labs it.2 = true) :
    buildTrees C none (some labs) ((its.map (cmdOf C)).map fun c => (c.name, c.body)) =
      some (its.map fun it => ("tree" ++ toString it.1, L.norm it.2)) := by
  induction its with
  | nil => rfl
  | cons it r ih =>
    have h1 := hw it (by simp)
    have h2 := ht it (by simp)
    obtain ⟨body, hb, _⟩ := L.write_shape it.2 h1
    have hp : C.parse ((C.write it.2).dropLast ++ [';']) = some (L.norm it.2) := by
      rw [hb]; simp only [List.dropLast_concat]; rw [← hb]; exact L.parse_write it.2 h1
    have htn : (L.norm it.2).tipNames = it.2.tipNames := tipNames_of_strip_eq _ _ (L.norm_strip it.2 h1)
    simp only [okTaxa] at h2
    have := ih (fun x hx => hw x (by simp [hx])) (fun x hx => ht x (by simp [hx]))
    show buildTrees C none (some labs) (("tree" ++ toString it.1, (C.write it.2).dropLast) ::
      ((r.map (cmdOf C)).map fun c => (c.name, c.body))) = _
    simp only [buildTrees, hp, htn, h2, Bool.not_true, Bool.false_eq_true, if_false, this, List.map_cons]

theorem cmdOf_ok (C : NewickCodec) (it : Nat × T) (h : treeTextOK (C.write it.2) = true) : (cmdOf C it).ok := by
  simp only [treeTextOK, Bool.and_eq_true, bne_iff_ne, ne_eq] at h
  refine ⟨kw_treeName it.1, ?_, h.1⟩
  simp only [cmdOf]
  have h2 := h.2
  unfold scan at h2
  split at h2
  · rename_i s heq
    simp only [beq_iff_eq] at h2
    rw [heq, h2]
  · simp at h2

/-- `Nex.parse` on a document without translate table -/
theorem parse_plainDoc (C : NewickCodec) (L : NewickLaws C) (n : Nat) (labels : List String) (its : List (Nat × T))
    (hn : n ≤ 9223372036854775807)
    (hlen : n = labels.length)
    (hl : ∀ l ∈ labels, tokLabel l)
    (hnd : hasDup labels = false)
    (hw : ∀ it ∈ its, L.wf it.2 = true)
    (hs : ∀ it ∈ its, treeTextOK (C.write it.2) = true)
    (ht : ∀ it ∈ its, okTaxa labels it.2 = true) :
    Nex.parse C (plainDoc C n labels its) = .ok (its.map fun it => ("tree" ++ toString it.1, L.norm it.2)) := by
  have hbody : ∀ it ∈ its, ∃ body, C.write it.2 = body ++ [';'] ∧ ∀ c ∈ body, c ≠ '\r' := by
    intro it hit
    obtain ⟨body, hb, hc⟩ := L.write_shape it.2 (hw it hit)
    exact ⟨body, hb, fun c hc' => (hc c hc').2.1⟩
  have hcs : ∀ c ∈ its.map (cmdOf C), c.ok := by
    intro c hc
    obtain ⟨it, hit, rfl⟩ := List.mem_map.1 hc
    exact cmdOf_ok C it (hs it hit)
  have hkw : ∀ l ∈ labels, keywordOf l = none := fun l hl' => (hl l hl').2
  have hscan := scan_plainDoc C n labels its hn hl hbody
  have hnocr : (scan (plainDoc C n labels its)).contains .loneCR = false := by
    rw [hscan]
    rw [List.contains_eq_mem, decide_eq_false_iff_not]
    intro hm
    simp only [docToks, taxaToks, List.mem_cons, List.mem_append, List.mem_map, List.not_mem_nil, reduceCtorEq,
      false_or, or_false] at hm
    rcases hm with ⟨l, _, h⟩ | hm
    · exact classify_ne_loneCR l h
    · simp only [cmdsToks, List.mem_flatMap] at hm
      obtain ⟨c, hc, hm⟩ := hm
      have hok := hcs c hc
      simp only [treeCmdToks, List.mem_append, List.mem_cons, List.not_mem_nil, or_false, reduceCtorEq, false_or] at hm
      rcases hm with h | h
      · exact classify_ne_loneCR _ h.symm
      · exact parseTreeStr_noCR _ _ _ _ hok.2.1 (by simp) h
  unfold Nex.parse
  rw [hscan] at hnocr
  simp only [hscan, hnocr, Bool.false_eq_true, if_false]
  rw [parseLoop_doc _ _ _ hkw hcs _ (by
    have := cmdsToks_length (its.map (cmdOf C))
    simp only [docToks, taxaToks, List.length_append, List.length_cons, List.length_nil, List.length_map] at this ⊢
    omega)]
  have hfold : labels.foldl insertLabel [] = labels := by
    rw [foldl_insertLabel _ [] (by simpa using hnd)]; simp
  simp only [intVal_natStr, hfold, Option.getD_some, hlen]
  simp only [bne_self_eq_false, Bool.and_false, Bool.false_eq_true, if_false]
  rw [buildTrees_plain C L _ its hw ht]

/-- `Nex.parse` on the document written without translate table, in terms of the final label state -/
theorem parse_plain (C : NewickCodec) (L : NewickLaws C) (its : List (Nat × T))
    (hn : (stateLoop its {}).map.length ≤ 9223372036854775807)
    (hlen : (stateLoop its {}).map.length = (stateLoop its {}).slice.length)
    (hl : ∀ l ∈ (stateLoop its {}).slice, tokLabel l)
    (hnd : hasDup (stateLoop its {}).slice = false)
    (hw : ∀ it ∈ its, L.wf it.2 = true)
    (hs : ∀ it ∈ its, treeTextOK (C.write it.2) = true)
    (ht : ∀ it ∈ its, okTaxa (stateLoop its {}).slice it.2 = true) :
    Nex.parse C (writeNexus C false its) = .ok (its.map fun it => ("tree" ++ toString it.1, L.norm it.2)) := by
  rw [writeNexus_plain_eq]
  exact parse_plainDoc C L _ _ its hn hlen hl hnd hw hs ht

/-- `Tree.Nexus()` read back: one tree named tree1 -/
theorem parse_treeNexus (C : NewickCodec) (L : NewickLaws C) (t : T)
    (hw : L.wf t = true) (hs : treeTextOK (C.write t) = true) (ht : tipsOK t = true) :
    Nex.parse C (treeNexus C t) = .ok [("tree1", L.norm t)] := by
  simp only [tipsOK, Bool.and_eq_true, Bool.not_eq_true', decide_eq_true_eq, List.all_eq_true] at ht
  have := parse_plainDoc C L t.tipNames.length t.tipNames [(1, t)] ht.2 rfl
    (fun l hl => labelOK_tokLabel l (ht.1.1 l hl)) ht.1.2
    (by intro it hit; simp at hit; subst hit; exact hw)
    (by intro it hit; simp at hit; subst hit; exact hs)
    (by
      intro it hit; simp at hit; subst hit
      simp only [okTaxa, List.all_eq_true]
      exact fun x hx => by simpa using hx)
  rw [treeNexus_eq, this]
  have : "tree" ++ Nat.repr 1 = "tree1" := by decide
  simp [this]

end Gotree.C13
