// Package c12: parsimony reconstruction (acr, asr) is optimal.
package c12

import (
	"fmt"
	"os"
	"sort"
	"strings"
	"time"

	"verifharness/core"

	"github.com/evolbioinfo/goalign/align"
	"github.com/evolbioinfo/gotree/acr"
	"github.com/evolbioinfo/gotree/asr"
	"github.com/evolbioinfo/gotree/io/newick"
	"github.com/evolbioinfo/gotree/tree"
)

var algoNames = []string{"deltran", "acctran", "downpass", "none"}

func algoIndex(s string) int {
	for i, a := range algoNames {
		if a == s {
			return i
		}
	}
	return -1
}

// ---- harness-side re-rooting (does not use the code under test) ----

func zeroPPos(n *core.N) {
	n.PPos = 0
	for _, k := range n.Kids {
		zeroPPos(k)
	}
}

// rerootAt returns a copy of the tree re-rooted at the node reached by path (an inner node).
func rerootAt(root *core.N, path []int) *core.N {
	r := root.Clone()
	zeroPPos(r)
	for _, i := range path {
		child := r.Kids[i]
		r.Kids = append(append([]*core.N(nil), r.Kids[:i]...), r.Kids[i+1:]...)
		r.E = child.E
		child.E = nil
		child.Kids = append(child.Kids, r)
		r = child
	}
	return r
}

// innerPaths lists the paths of the non-root nodes that have children, pre-order.
func innerPaths(root *core.N) [][]int {
	var out [][]int
	for _, p := range root.Paths() {
		if len(p) == 0 {
			continue
		}
		if x := root.At(p); x != nil && len(x.Kids) > 0 {
			out = append(out, p)
		}
	}
	return out
}

// rerootChoices: up to three inner nodes, chosen deterministically (so that a replay is exact).
func rerootChoices(root *core.N) [][]int {
	if len(root.Kids) < 2 {
		return nil
	}
	ps := innerPaths(root)
	if len(ps) <= 3 {
		return ps
	}
	return [][]int{ps[0], ps[len(ps)/2], ps[len(ps)-1]}
}

// ---- ACR ----

func sortedMap(m map[string]string) (keys, vals []string) {
	for k := range m {
		keys = append(keys, k)
	}
	sort.Strings(keys)
	for _, k := range keys {
		vals = append(vals, m[k])
	}
	return
}

func toMap(keys, vals []string) map[string]string {
	m := map[string]string{}
	for i := range keys {
		if i < len(vals) {
			m[keys[i]] = vals[i]
		}
	}
	return m
}

func copyMap(m map[string]string) map[string]string {
	c := map[string]string{}
	for k, v := range m {
		c[k] = v
	}
	return c
}

func doAcr(c *core.Ctx, n *core.N, tips map[string]string, algo int) {
	keys, vals := sortedMap(tips)
	in := []string{n.Dump(), core.StrList(keys), core.StrList(vals), algoNames[algo]}
	t, err := core.Build(n)
	if err != nil {
		panic(err)
	}
	var statemap map[string]string
	var nsteps int
	var rerr error
	if p, msg := core.Safe(func() { statemap, nsteps, rerr = acr.ParsimonyAcr(t, copyMap(tips), algo, false) }); p {
		c.Emit("C12.acr", append(in, "panic:"+core.Escape(msg), "", "", "", "", "", "")...)
		return
	}
	if rerr != nil {
		c.Emit("C12.acr", append(in, "err", "", "", "", "", "", "")...)
		return
	}
	after, wf := core.Alpha(t)
	if !wf.OK() {
		c.Emit("C12.acr", append(in, "panic:malformed-"+core.Escape(strings.Join(wf.Problems, ";")), "", "", "", "", "", "")...)
		return
	}
	mk, mv := sortedMap(statemap)
	// the same character on re-rooted copies
	var rr []int
	var rrp strings.Builder
	for _, p := range rerootChoices(n) {
		rrp.WriteString(core.IntList(p))
		rrp.WriteByte(';')
		t2, err := core.Build(rerootAt(n, p))
		if err != nil {
			panic(err)
		}
		s2 := -1
		if p, _ := core.Safe(func() {
			var e2 error
			_, s2, e2 = acr.ParsimonyAcr(t2, copyMap(tips), algo, false)
			if e2 != nil {
				s2 = -1
			}
		}); p {
			s2 = -2
		}
		rr = append(rr, s2)
	}
	c.Emit("C12.acr", append(in, "ok", fmt.Sprint(nsteps), after.Dump(), core.StrList(mk), core.StrList(mv), core.IntList(rr), rrp.String())...)
}

var statePool = []string{"A", "B", "C", "D", "E", "F", "s10", "s9", "Z", "a"}

func treeOpts(g *core.G) core.TreeOpts {
	o := core.DefaultOpts()
	o.Lengths = 2
	o.Supports = 0
	o.InnerNames = 0.25
	o.Multif = 0.35
	o.MaxDeg = 6
	if g.Chance(0.15) {
		o.Singles = 0.15
	}
	if g.Chance(0.1) {
		o.MaxTips = 30
	}
	if bigTrees && g.Chance(0.04) { // thorough tier: deep recursions
		o.MaxTips = 90
	}
	return o
}

// bigTrees is switched on by Run in the thorough tier.
var bigTrees = false

// drawTree draws a tree; rarely one whose root has a single neighbour (a "tip" for Go).
func drawTree(c *core.Ctx, o core.TreeOpts) *core.N {
	n, _ := c.G.Tree(o)
	if c.G.Chance(0.03) {
		e := core.NewE()
		e.Len = 1
		n.E = e
		n = &core.N{Name: "", Kids: []*core.N{n}}
		if c.G.Chance(0.5) {
			n.Name = "rt"
		}
	}
	return n
}

// assign draws one state per tip: independent, or copied along the tip order (clustered).
func assign(g *core.G, tips []string, states []string) map[string]string {
	m := map[string]string{}
	clustered := g.Chance(0.5)
	prev := states[g.Intn(len(states))]
	for _, t := range tips {
		if !clustered || g.Chance(0.4) {
			prev = states[g.Intn(len(states))]
		}
		m[t] = prev
	}
	return m
}

func acrCase(c *core.Ctx) {
	g := c.G
	n := drawTree(c, treeOpts(g))
	k := 1 + g.Intn(6)
	if g.Chance(0.1) {
		k = 1 + g.Intn(len(statePool))
	}
	perm := g.R.Perm(len(statePool))
	states := make([]string, k)
	for i := range states {
		states[i] = statePool[perm[i]]
	}
	tips := assign(g, n.TipNames(), states)
	if g.Chance(0.15) { // entries for names that are not in the tree, possibly with further states
		for i := 0; i < 1+g.Intn(3); i++ {
			tips[fmt.Sprintf("x%d", i)] = statePool[g.Intn(len(statePool))]
		}
	}
	if g.Chance(0.04) { // a tip without state
		tn := n.TipNames()
		delete(tips, tn[g.Intn(len(tn))])
	}
	algo := g.Intn(3)
	if g.Chance(0.05) {
		algo = 3
	}
	doAcr(c, n, tips, algo)
}

// ---- ASR ----

const plainChars = "ACGT"
const iupacChars = "RYSWKMBDHVN"

func columnMap(names, seqs []string, j int) map[string]string {
	m := map[string]string{}
	for i, nm := range names {
		m[nm] = string(seqs[i][j])
	}
	return m
}

func isPlain(seqs []string) bool {
	for _, s := range seqs {
		for i := 0; i < len(s); i++ {
			if !strings.ContainsRune("ACGT-", rune(s[i])) {
				return false
			}
		}
	}
	return true
}

func mkAlign(names, seqs []string) (align.Alignment, error) {
	a := align.NewAlign(align.NUCLEOTIDS)
	for i, nm := range names {
		if err := a.AddSequence(nm, seqs[i], ""); err != nil {
			return nil, err
		}
	}
	return a, nil
}

func nodeComments(n *core.N, out *[]string) {
	cm := ""
	if len(n.Comments) > 0 {
		cm = n.Comments[len(n.Comments)-1]
	}
	*out = append(*out, cm)
	for _, k := range n.Kids {
		nodeComments(k, out)
	}
}

func doAsr(c *core.Ctx, n *core.N, names, seqs []string, algo int) {
	in := []string{n.Dump(), core.StrList(names), core.StrList(seqs), algoNames[algo]}
	fail := func(outcome string) {
		c.Emit("C12.asr", append(in, outcome, "", "", "", "")...)
	}
	t, err := core.Build(n)
	if err != nil {
		panic(err)
	}
	a, err := mkAlign(names, seqs)
	if err != nil {
		fail("err")
		return
	}
	var nsteps []int
	var rerr error
	if p, msg := core.Safe(func() { nsteps, rerr = asr.ParsimonyAsr(t, a, algo, false) }); p {
		fail("panic:" + core.Escape(msg))
		return
	}
	if rerr != nil {
		fail("err")
		return
	}
	after, wf := core.Alpha(t)
	if !wf.OK() {
		fail("panic:malformed")
		return
	}
	var rr strings.Builder
	for _, p := range rerootChoices(n) {
		t2, err := core.Build(rerootAt(n, p))
		if err != nil {
			panic(err)
		}
		var s2 []int
		a2, _ := mkAlign(names, seqs)
		core.Safe(func() {
			var e2 error
			s2, e2 = asr.ParsimonyAsr(t2, a2, algo, false)
			if e2 != nil {
				s2 = nil
			}
		})
		rr.WriteString(core.IntList(s2))
		rr.WriteByte(';')
	}
	// site by site: the single-character implementation on every column
	var cols [][]string
	if isPlain(seqs) && len(seqs) > 0 {
		for j := 0; j < len(seqs[0]); j++ {
			t3, err := core.Build(n)
			if err != nil {
				panic(err)
			}
			var st int
			var e3 error
			if p, _ := core.Safe(func() { _, st, e3 = acr.ParsimonyAcr(t3, columnMap(names, seqs, j), algo, false) }); p || e3 != nil {
				cols = append(cols, []string{"-1"})
				continue
			}
			a3, _ := core.Alpha(t3)
			col := []string{fmt.Sprint(st)}
			nodeComments(a3, &col)
			cols = append(cols, col)
		}
	}
	c.Emit("C12.asr", append(in, "ok", core.IntList(nsteps), after.Dump(), rr.String(), core.StrLists(cols))...)
}

func asrCase(c *core.Ctx) {
	g := c.G
	o := treeOpts(g)
	if o.MaxTips > 16 {
		o.MaxTips = 16
	}
	if g.Chance(0.2) {
		o.Comments = 0.2
	}
	if g.Chance(0.3) { // polytomies of high degree
		o.Multif = 0.8
		o.MaxDeg = 7
	}
	n := drawTree(c, o)
	names := n.TipNames()
	sort.Strings(names)
	L := 1 + g.Intn(5)
	mode := g.Intn(4) // 0 plain, 1 plain with gaps, 2-3 IUPAC
	if mode == 3 {
		mode = 2
	}
	seqs := make([]string, len(names))
	cols := make([][]byte, L)
	for j := 0; j < L; j++ {
		col := make([]byte, len(names))
		nst := 1 + g.Intn(4)
		prev := plainChars[g.Intn(nst)]
		clustered := g.Chance(0.5)
		for i := range col {
			if !clustered || g.Chance(0.4) {
				prev = plainChars[g.Intn(nst)]
			}
			col[i] = prev
			if mode >= 1 && g.Chance(0.12) {
				col[i] = '-'
			}
			if mode == 2 && g.Chance(0.25) {
				col[i] = iupacChars[g.Intn(len(iupacChars))]
			}
		}
		cols[j] = col
	}
	for i := range names {
		b := make([]byte, L)
		for j := 0; j < L; j++ {
			b[j] = cols[j][i]
		}
		seqs[i] = string(b)
	}
	if g.Chance(0.04) && len(names) > 0 {
		i := g.Intn(len(names))
		names = append(names[:i:i], names[i+1:]...)
		seqs = append(seqs[:i:i], seqs[i+1:]...)
	}
	algo := g.Intn(3)
	doAsr(c, n, names, seqs, algo)
}

// ---- CLI tier: the gotree binary built from the working tree ----

func readFile(p string) string {
	b, err := os.ReadFile(p)
	if err != nil {
		return ""
	}
	return string(b)
}

// parseOutTree reads the Newick the binary wrote and returns its dump.
func parseOutTree(s string) (string, bool) {
	t, err := newick.NewParser(strings.NewReader(s)).Parse()
	if err != nil {
		return "", false
	}
	a, wf := core.Alpha(t)
	if !wf.OK() {
		return "", false
	}
	return a.Dump(), true
}

func cliAcr(c *core.Ctx, n *core.N, tips map[string]string, algo int) {
	keys, vals := sortedMap(tips)
	in := []string{n.Dump(), core.StrList(keys), core.StrList(vals), algoNames[algo]}
	fail := func(outcome string) { c.Emit("C12.acrcli", append(in, outcome, "", "", "", "", "", "")...) }
	t, err := core.Build(n)
	if err != nil {
		panic(err)
	}
	var sb strings.Builder
	for i, k := range keys {
		sep := "\t"
		if i%2 == 1 {
			sep = ","
		}
		sb.WriteString(k + sep + vals[i] + "\n")
	}
	treef := c.TmpFile(t.Newick() + "\n")
	statef := c.TmpFile(sb.String())
	outt, outs, outr := c.TmpFile(""), c.TmpFile(""), c.TmpFile("")
	r := c.RunCLI("", 30*time.Second, "acr", "-i", treef, "--states", statef, "--algo", algoNames[algo],
		"-o", outt, "--out-steps", outs, "--out-states", outr)
	defer func() {
		for _, f := range []string{treef, statef, outt, outs, outr} {
			os.Remove(f)
		}
	}()
	if r.Timeout {
		fail("panic:timeout")
		return
	}
	steps := strings.TrimSpace(strings.TrimPrefix(strings.TrimSpace(readFile(outs)), "steps"))
	if r.Exit != 0 || steps == "" {
		if strings.Contains(r.Stderr, "panic") || strings.Contains(r.Stderr, "goroutine") {
			fail("panic:" + core.Escape(r.Stderr[:min(len(r.Stderr), 200)]))
		} else {
			fail("err")
		}
		return
	}
	dump, ok := parseOutTree(readFile(outt))
	if !ok {
		fail("panic:unreadable-output-tree")
		return
	}
	var mk, mv []string
	for _, l := range strings.Split(strings.TrimRight(readFile(outr), "\n"), "\n") {
		if l == "" {
			continue
		}
		i := strings.Index(l, ",")
		if i < 0 {
			fail("panic:bad-states-line")
			return
		}
		mk = append(mk, l[:i])
		mv = append(mv, l[i+1:])
	}
	c.Emit("C12.acrcli", append(in, "ok", steps, dump, core.StrList(mk), core.StrList(mv), "", "")...)
}

func cliAsr(c *core.Ctx, n *core.N, names, seqs []string, algo int, phylip bool) {
	in := []string{n.Dump(), core.StrList(names), core.StrList(seqs), algoNames[algo]}
	fail := func(outcome string) { c.Emit("C12.asrcli", append(in, outcome, "", "", "", "")...) }
	t, err := core.Build(n)
	if err != nil {
		panic(err)
	}
	var sb strings.Builder
	if phylip {
		L := 0
		if len(seqs) > 0 {
			L = len(seqs[0])
		}
		fmt.Fprintf(&sb, " %d %d\n", len(names), L)
		for i, nm := range names {
			fmt.Fprintf(&sb, "%s  %s\n", nm, seqs[i])
		}
	} else {
		for i, nm := range names {
			fmt.Fprintf(&sb, ">%s\n%s\n", nm, seqs[i])
		}
	}
	treef := c.TmpFile(t.Newick() + "\n")
	alnf := c.TmpFile(sb.String())
	outt, outl := c.TmpFile(""), c.TmpFile("")
	args := []string{"asr", "-i", treef, "-a", alnf, "--algo", algoNames[algo], "-o", outt, "--log", outl}
	if phylip {
		args = append(args, "-p")
	}
	r := c.RunCLI("", 30*time.Second, args...)
	defer func() {
		for _, f := range []string{treef, alnf, outt, outl} {
			os.Remove(f)
		}
	}()
	if r.Timeout {
		fail("panic:timeout")
		return
	}
	logl := strings.TrimSpace(readFile(outl))
	if r.Exit != 0 || !strings.HasPrefix(logl, "steps") {
		if strings.Contains(r.Stderr, "panic") || strings.Contains(r.Stderr, "goroutine") {
			fail("panic:" + core.Escape(r.Stderr[:min(len(r.Stderr), 200)]))
		} else {
			fail("err")
		}
		return
	}
	var steps strings.Builder
	for _, x := range strings.Fields(strings.TrimPrefix(logl, "steps")) {
		steps.WriteString(x + ",")
	}
	dump, ok := parseOutTree(readFile(outt))
	if !ok {
		fail("panic:unreadable-output-tree")
		return
	}
	c.Emit("C12.asrcli", append(in, "ok", steps.String(), dump, "", "")...)
}

func cliCase(c *core.Ctx, i int) {
	g := c.G
	o := treeOpts(g)
	o.Singles = 0
	o.MinTips = 5
	o.MaxTips = 14
	n, _ := g.Tree(o)
	if i%2 == 0 {
		k := 2 + g.Intn(3)
		perm := g.R.Perm(len(statePool))
		states := make([]string, k)
		for j := range states {
			states[j] = statePool[perm[j]]
		}
		tips := assign(g, n.TipNames(), states)
		if g.Chance(0.05) {
			tn := n.TipNames()
			delete(tips, tn[g.Intn(len(tn))])
		}
		cliAcr(c, n, tips, g.Intn(4))
		return
	}
	names := n.TipNames()
	sort.Strings(names)
	L := 1 + g.Intn(4)
	seqs := make([]string, len(names))
	amb := g.Chance(0.5)
	for i := range names {
		b := make([]byte, L)
		for j := range b {
			b[j] = plainChars[g.Intn(1+g.Intn(4))]
			if g.Chance(0.1) {
				b[j] = '-'
			}
			if amb && g.Chance(0.2) {
				b[j] = iupacChars[g.Intn(len(iupacChars))]
			}
		}
		seqs[i] = string(b)
	}
	cliAsr(c, n, names, seqs, g.Intn(3), g.Chance(0.3))
}

// ---- replay ----

func parseList(s string) []string {
	var out []string
	for _, x := range strings.Split(s, ",") {
		u, err := core.Unescape(x)
		if err != nil {
			panic(err)
		}
		out = append(out, u)
	}
	if len(out) > 0 {
		out = out[:len(out)-1]
	}
	return out
}

// Replay re-executes request lines (the recorded outputs are ignored).
func Replay(c *core.Ctx, lines []string) {
	for _, l := range lines {
		f := strings.Split(l, "\t")
		if len(f) < 5 {
			continue
		}
		n, err := core.ParseDump(f[1])
		if err != nil {
			panic(err)
		}
		algo := algoIndex(f[4])
		if algo < 0 {
			continue
		}
		switch f[0] {
		case "C12.acr":
			doAcr(c, n, toMap(parseList(f[2]), parseList(f[3])), algo)
		case "C12.asr":
			doAsr(c, n, parseList(f[2]), parseList(f[3]), algo)
		case "C12.acrcli":
			if c.Gotree != "" {
				cliAcr(c, n, toMap(parseList(f[2]), parseList(f[3])), algo)
			}
		case "C12.asrcli":
			if c.Gotree != "" {
				cliAsr(c, n, parseList(f[2]), parseList(f[3]), algo, false)
			}
		}
	}
}

// Run generates the cases of C12.
func Run(c *core.Ctx) {
	if c.Arg != "" {
		Replay(c, core.ReadRequests(c.Arg))
		return
	}
	bigTrees = !c.Quick()
	n := c.Scale(600, 15000)
	for i := 0; i < n; i++ {
		if i%3 == 2 {
			asrCase(c)
		} else {
			acrCase(c)
		}
	}
	if c.Gotree != "" {
		m := c.Scale(160, 2000)
		for i := 0; i < m; i++ {
			cliCase(c, i)
		}
	}
}

var _ = tree.NewTree
