/-
  C12 — corresponding slices of the ACR run and of the ASR run on an unambiguous column are
  printed as the same set of state names.
-/
import Gotree.Lemmas.C12UnambDel

namespace Gotree.C12
open Gotree

theorem mem_rawNames (alpha : List String) (v : Vec) (x : String) :
    x ∈ (List.range alpha.length).filterMap (fun i => if v.at i > 0 then alpha[i]? else none) ↔
    ∃ i, i < alpha.length ∧ v.at i ≠ 0 ∧ alpha[i]? = some x := by
  simp only [List.mem_filterMap, List.mem_range]
  constructor
  · rintro ⟨i, hi, h⟩
    by_cases hv : v.at i > 0
    · simp only [hv, if_true] at h
      exact ⟨i, hi, by omega, h⟩
    · simp [hv] at h
  · rintro ⟨i, hi, hv, h⟩
    refine ⟨i, hi, ?_⟩
    have : v.at i > 0 := by omega
    simp [this, h]

/-- same members -/
def SameSet (a b : List String) : Prop := ∀ x, x ∈ a ↔ x ∈ b

theorem stateNames_same (alpha1 alpha2 : List String) (v1 v2 : Vec)
    (h : ∀ x, x ∈ (List.range alpha1.length).filterMap (fun i => if v1.at i > 0 then alpha1[i]? else none) ↔
              x ∈ (List.range alpha2.length).filterMap (fun i => if v2.at i > 0 then alpha2[i]? else none)) :
    SameSet (stateNames alpha1 v1) (stateNames alpha2 v2) := by
  unfold stateNames
  simp only []
  generalize (List.range alpha1.length).filterMap (fun i => if v1.at i > 0 then alpha1[i]? else none) = l1 at h
  generalize (List.range alpha2.length).filterMap (fun i => if v2.at i > 0 then alpha2[i]? else none) = l2 at h
  cases l1 with
  | nil =>
    cases l2 with
    | nil => intro x; simp
    | cons y r => have := (h y).mpr (by simp); simp at this
  | cons y r =>
    cases l2 with
    | nil => have := (h y).mp (by simp); simp at this
    | cons z r2 => intro x; simpa using h x

theorem getElem?_of_getD {l : List String} {i : Nat} {x : String} (hi : i < l.length) (h : l.getD i "" = x) :
    l[i]? = some x := by
  rw [List.getD_eq_getElem?_getD, List.getElem?_eq_getElem hi] at h
  rw [List.getElem?_eq_getElem hi]
  simpa using h

theorem getD_of_getElem? {l : List String} {i : Nat} {x : String} (h : l[i]? = some x) : l.getD i "" = x := by
  rw [List.getD_eq_getElem?_getD, h]; rfl

/-- names of corresponding slices (ACR alphabet of the column vs A C G T - *) -/
theorem names_rel (m : List (String × String)) (j : Nat) (hp : plainCol m j = true) (v1 v2 : Vec)
    (hk : 0 < (alphabet ((colMap m j).map (·.2))).length)
    (hrel : Rel 6 (colEnc (alphabet ((colMap m j).map (·.2)))) (colDec (alphabet ((colMap m j).map (·.2)))) v1 v2) :
    SameSet (stateNames (alphabet ((colMap m j).map (·.2))) v1) (stateNames asrAlphabet v2) := by
  have C := col_coding m j hp hk
  apply stateNames_same
  intro x
  rw [mem_rawNames, mem_rawNames]
  constructor
  · rintro ⟨i, hi, hv, hx⟩
    obtain ⟨c, hc, he⟩ := col_entry m j hp i hi
    have hxe : x = String.singleton c := by
      have := getD_of_getElem? hx; rw [he] at this; exact this.symm
    refine ⟨colEnc _ i, C.henc i hi, ?_, ?_⟩
    · rw [hrel.at_enc C i hi]; exact hv
    · apply getElem?_of_getD (C.henc i hi)
      simp only [colEnc, he, (plain_facts c hc).2.1, hxe]
  · rintro ⟨b, hb, hv, hx⟩
    have hb6 : b < 6 := hb
    have hr := hrel b hb6
    by_cases hin : colEnc (alphabet ((colMap m j).map (·.2))) (colDec (alphabet ((colMap m j).map (·.2))) b) = b
    · simp only [hin, if_true] at hr
      have hd := C.hdec b hb6
      obtain ⟨c, hc, he⟩ := col_entry m j hp _ hd
      refine ⟨_, hd, by rw [← hr]; exact hv, ?_⟩
      apply getElem?_of_getD hd
      rw [he]
      have hxb := getD_of_getElem? hx
      rw [← hxb, ← hin]
      simp only [colEnc, he, (plain_facts c hc).2.1]
    · simp only [hin, if_false] at hr
      exact absurd hr hv

/- the slices of two corresponding annotated trees, in pre-order -/
inductive RelList (R : Vec → Vec → Prop) : List Vec → List Vec → Prop
  | nil : RelList R [] []
  | cons {a b : Vec} {l1 l2 : List Vec} : R a b → RelList R l1 l2 → RelList R (a :: l1) (b :: l2)

theorem RelList.append {R : Vec → Vec → Prop} : ∀ {a1 a2 b1 b2 : List Vec},
    RelList R a1 a2 → RelList R b1 b2 → RelList R (a1 ++ b1) (a2 ++ b2)
  | _, _, _, _, .nil, h => by simpa using h
  | _, _, _, _, .cons h t, h2 => by simpa using RelList.cons h (RelList.append t h2)

section flat
variable {k2 : Nat} {enc dec : Nat → Nat}

mutual
theorem RelA.flat : ∀ (a1 a2 : A), RelA k2 enc dec a1 a2 → RelList (Rel k2 enc dec) a1.flat a2.flat
  | .node s1 ks1, .node s2 ks2, h => by
    simp only [RelA] at h
    simp only [A.flat]
    exact RelList.cons h.1 (RelAL.flatL ks1 ks2 h.2)
theorem RelAL.flatL : ∀ (l1 l2 : List A), RelAL k2 enc dec l1 l2 → RelList (Rel k2 enc dec) (A.flatL l1) (A.flatL l2)
  | [], [], _ => by simp only [A.flatL]; exact RelList.nil
  | [], _ :: _, h => by simp [RelAL] at h
  | _ :: _, [], h => by simp [RelAL] at h
  | a1 :: r1, a2 :: r2, h => by
    simp only [RelAL] at h
    simp only [A.flatL]
    exact RelList.append (RelA.flat a1 a2 h.1) (RelAL.flatL r1 r2 h.2)
end

end flat

/-- lists of name sets that agree entry by entry -/
inductive SameSets : List (List String) → List (List String) → Prop
  | nil : SameSets [] []
  | cons {a b : List String} {l1 l2 : List (List String)} : SameSet a b → SameSets l1 l2 → SameSets (a :: l1) (b :: l2)

theorem sameSets_of_rel (m : List (String × String)) (j : Nat) (hp : plainCol m j = true)
    (hk : 0 < (alphabet ((colMap m j).map (·.2))).length) : ∀ (l1 l2 : List Vec),
    RelList (Rel 6 (colEnc (alphabet ((colMap m j).map (·.2)))) (colDec (alphabet ((colMap m j).map (·.2))))) l1 l2 →
    SameSets (l1.map (stateNames (alphabet ((colMap m j).map (·.2))))) (l2.map (stateNames asrAlphabet))
  | _, _, .nil => by simpa using SameSets.nil
  | _, _, .cons h t => by
    simp only [List.map_cons]
    exact SameSets.cons (names_rel m j hp _ _ hk h) (sameSets_of_rel m j hp hk _ _ t)

/- ## the name→states map of ACR -/

theorem mem_insertKV {β : Type} (kv x : String × β) : ∀ l : List (String × β),
    x ∈ insertKV kv l → x = kv ∨ x ∈ l
  | [], h => by simp only [insertKV, List.mem_cons, List.not_mem_nil, or_false] at h; exact Or.inl h
  | y :: r, h => by
    unfold insertKV at h
    split at h
    · simp only [List.mem_cons] at h ⊢
      rcases h with h | h | h
      · exact Or.inl h
      · exact Or.inr (Or.inl h)
      · exact Or.inr (Or.inr h)
    · split at h
      · simp only [List.mem_cons] at h ⊢
        rcases h with h | h
        · exact Or.inl h
        · exact Or.inr (Or.inr h)
      · simp only [List.mem_cons] at h ⊢
        rcases h with h | h
        · exact Or.inr (Or.inl h)
        · rcases mem_insertKV kv x r h with h' | h'
          · exact Or.inl h'
          · exact Or.inr (Or.inr h')

theorem mem_foldl_insertKV {β : Type} (x : String × β) : ∀ (es acc : List (String × β)),
    x ∈ es.foldl (fun acc kv => insertKV kv acc) acc → x ∈ es ∨ x ∈ acc
  | [], acc, h => Or.inr (by simpa using h)
  | e :: r, acc, h => by
    simp only [List.foldl_cons] at h
    rcases mem_foldl_insertKV x r _ h with h' | h'
    · exact Or.inl (List.mem_cons_of_mem _ h')
    · rcases mem_insertKV e x acc h' with h'' | h''
      · exact Or.inl (by rw [h'']; exact List.mem_cons_self ..)
      · exact Or.inr h''

end Gotree.C12
