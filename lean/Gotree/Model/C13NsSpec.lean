/-
  C13 — a SPECIFICATION of the Nextstrain document (decoded JSON, as far as gotree reads it: node name,
  `node_attrs.div`, children) that describes a given tree: the divergence of a node is the divergence of
  its parent plus the length of the branch between them.  gotree has no Nextstrain writer; this is what
  the harness builds (`nsOf` in harness/c13/c13.go) and what theorem `nextstrain_reads_tree` is about.
  Core Lean only.
-/
import Gotree.Model.C13

namespace Gotree.C13
open Gotree

mutual
def nsOf : Rat → T → Ns.Node
  | div, .node d _ k => .mk d.name div (nsKids div k)
def nsKids : Rat → Kids → List Ns.Node
  | _, [] => []
  | div, (e, t) :: r => nsOf (div + e.len) t :: nsKids div r
end

mutual
/-- what a Nextstrain document can carry: every tip has a name, no branch has a support -/
def nsNodeOK : T → Bool
  | .node d _ k => (match k with | [] => d.name != "" | _ :: _ => true) && nsKidsOK k
def nsKidsOK : Kids → Bool
  | [] => true
  | (e, t) :: r => e.sup == NIL && nsNodeOK t && nsKidsOK r
end

mutual
def nsEq : Ns.Node → Ns.Node → Bool
  | .mk n d k, .mk n' d' k' => n == n' && d == d' && nsEqL k k'
def nsEqL : List Ns.Node → List Ns.Node → Bool
  | [], [] => true
  | x :: r, y :: s => nsEq x y && nsEqL r s
  | _, _ => false
end

end Gotree.C13
