/-
  C20 — what "unbiased" means, with no probability theory (DESIGN §3.5):

  * an outcome table `draw list ↦ outcome` over the *whole* draw space is uniform
    when every element of the outcome space occurs, and all occur equally often
    (`uniformFibres`);
  * the outcome spaces: `k`-subsets of the items, slot assignments, permutations,
    labelled binary topologies (`validTopology`), with their sizes
    (`choose`, `n^k`, `fact`, `dfact`).

  These predicates are evaluated by the driver on the implementation's own
  outcomes; the theorems of `Proofs/C20.lean` state them for the model.
-/
import Gotree.Model.C20

namespace Gotree.C20
open Gotree

/-- strictly increasing -/
def sortedLt : List Nat → Bool
  | [] => true
  | [_] => true
  | a :: b :: r => decide (a < b) && sortedLt (b :: r)

/-- `S` is a `k`-element subset of `{0, …, n-1}`, written as its increasing list -/
def isSortedSubset (S : List Nat) (k n : Nat) : Bool := S.length == k && S.all (· < n) && sortedLt S

def choose : Nat → Nat → Nat
  | _, 0 => 1
  | 0, _ + 1 => 0
  | n + 1, k + 1 => choose n k + choose n (k + 1)

/-- insertion sort (structural, so that `decide` can evaluate it; used on short lists only) -/
def insertBy (le : α → α → Bool) (a : α) : List α → List α
  | [] => [a]
  | b :: r => if le a b then a :: b :: r else b :: insertBy le a r

def isort (le : α → α → Bool) (l : List α) : List α := l.foldr (insertBy le) []

/-- the same number as `choose n k`, computed by the product formula (the driver needs it for n = 100) -/
def chooseFast (n k : Nat) : Nat := (List.range k).foldl (fun acc i => acc * (n - i) / (i + 1)) 1

def sortNat (l : List Nat) : List Nat := isort (fun a b => decide (a ≤ b)) l

/-- indicator vector of the set of the elements of `R` inside `{0, …, n-1}` -/
def indicator (n : Nat) (R : List Nat) : List Bool := (List.range n).map fun x => R.contains x

/-- `s` is (the indicator vector of) a `k`-element subset of `{0, …, n-1}` -/
def isSubsetK (s : List Bool) (k n : Nat) : Bool := s.length == n && s.count true == k

/-- lexicographic `≤` -/
def leLex : List Nat → List Nat → Bool
  | [], _ => true
  | _ :: _, [] => false
  | a :: as, b :: bs => if a < b then true else if b < a then false else leLex as bs

def sortClusters (l : List (List Nat)) : List (List Nat) := isort leLex l

/-- An outcome in canonical form (a list of lists of numbers). -/
abbrev Outcome := List (List Nat)

def leLex2 : Outcome → Outcome → Bool
  | [], _ => true
  | _ :: _, [] => false
  | a :: as, b :: bs => if a == b then leLex2 as bs else leLex a b

/-- lengths of the runs of equal neighbours -/
def runLengths [BEq α] : List α → List Nat
  | [] => []
  | a :: r => go a 1 r
where
  go (cur : α) (c : Nat) : List α → List Nat
    | [] => [c]
    | b :: r => if b == cur then go cur (c + 1) r else c :: go b 1 r

/-- number of occurrences of every outcome that occurs (outcomes in canonical form) -/
def fibreSizes (outs : List Outcome) : List Nat := runLengths (outs.mergeSort leLex2)

/-- Uniform over an outcome space of `m` elements: all `m` occur, equally often. -/
def uniformFibres (outs : List Outcome) (m : Nat) : Bool :=
  let f := fibreSizes outs
  f.length == m && f.all (· == f.headD 0)

/-! ### outcome spaces -/

/-- `sel` (indices) is a duplicate-free choice of `min k n` of the `n` items -/
def validSubset (k n : Nat) (sel : List Nat) : Bool :=
  sel.length == min k n && sel.all (· < n) && (sortNat sel).eraseDups.length == sel.length

/-- with replacement: `k` slots, each holding one of the `n` items -/
def validSlots (k n : Nat) (sel : List Nat) : Bool :=
  sel.length == k && sel.all (· < n)

def isPermOfRange (n : Nat) (p : List Nat) : Bool := sortNat p == List.range n

def isPermOf (a b : List String) : Bool :=
  a.mergeSort (fun x y => decide (x ≤ y)) == b.mergeSort (fun x y => decide (x ≤ y))

/-- two clusters are nested or disjoint -/
def compatible (a b : List Nat) : Bool :=
  a.all b.contains || b.all a.contains || a.all (fun x => !b.contains x)

/-- `cl` (canonical: each cluster sorted) is the cluster set of a binary tree on the
    tips `0 … n-1`: rooted — `2n-2` distinct proper clusters of `{0..n-1}`; unrooted,
    seen from tip 0 — `2n-3` distinct clusters of `{1..n-1}`; pairwise nested or
    disjoint; all singletons present.  (A laminar family of that size is maximal,
    i.e. the tree is binary.) -/
def validTopology (rooted : Bool) (n : Nat) (cl : List (List Nat)) : Bool :=
  let lo := if rooted then 0 else 1
  let tips := List.range' lo (n - lo)
  cl.length == (if rooted then 2 * n - 2 else 2 * n - 3) &&
  cl.all (fun c => !c.isEmpty && sortNat c == c && c.eraseDups.length == c.length && c.all tips.contains) &&
  (sortClusters cl).eraseDups.length == cl.length &&
  tips.all (fun x => cl.contains [x]) &&
  (!rooted || !cl.contains tips) &&
  cl.all (fun a => cl.all fun b => compatible a b)

/-- number of labelled binary topologies on `n ≥ 2` tips: `(2n-3)!!` rooted, `(2n-5)!!` unrooted -/
def numTopologies (rooted : Bool) (n : Nat) : Nat := if rooted then dfact (n - 1) else dfact (n - 2)

/-! ### binary topologies, independently of any construction order -/

/-- a rooted binary tree with numbered tips -/
inductive BT where
  | tip (i : Nat)
  | node (l r : BT)
  deriving Repr

def BT.leaves : BT → List Nat
  | .tip i => [i]
  | .node l r => l.leaves ++ r.leaves

/-- the cluster (sorted list of tip numbers) of a set of leaves among the tips `0 … m-1` -/
def clOf (m : Nat) (ls : List Nat) : List Nat := (List.range m).filter ls.contains

/-- the clusters of all subtrees (the tree itself first) -/
def BT.clusters (m : Nat) : BT → List (List Nat)
  | .tip i => [clOf m [i]]
  | .node l r => clOf m (l.leaves ++ r.leaves) :: (l.clusters m ++ r.clusters m)

/-- `bt` is an unrooted binary topology on the tips `0 … n-1`, seen from tip 0: a binary tree
    whose leaves are exactly `1 … n-1`, each once.  Its branches are the clusters of its
    subtrees (the whole tree = the branch of tip 0). -/
def BT.isUnrootedOn (bt : BT) (n : Nat) : Prop := bt.leaves.Perm (List.range' 1 (n - 1))

/-! ### marginal frequencies over seeds (model-free statistical oracle; supporting evidence)

  What the property predicts for simple events, whatever the algorithm: an item is among the `k`
  selected of `n` with probability `k/n`; a slot (with replacement) holds a given item with
  probability `1/n`; a given name lands on a given tip (a given neighbour on a given position) with
  probability `1/n`; two given tips form a cherry of a uniform unrooted binary tree on `n ≥ 4`
  labelled tips with probability `1/(2n-5)` (`(2n-7)!!` of the `(2n-5)!!` trees).  The number of
  seeds, among `N`, on which the event happens is then `Bin(N, a/b)`. -/

/-- `P(X ≤ c)·b^N` for `X ~ Bin(N, a/b)` (`0 < a < b`), as a natural number -/
def binomLowerNumP (N a b c : Nat) : Nat :=
  -- Σ_{i ≤ c} C(N,i)·a^i·(b-a)^(N-i)
  let rec go (i : Nat) (fuel : Nat) (term : Nat) (acc : Nat) : Nat :=
    match fuel with
    | 0 => acc
    | fuel + 1 =>
      -- next term: C(N,i+1)·a^(i+1)·(b-a)^(N-i-1) = term·(N-i)·a / ((i+1)·(b-a))   (exact)
      go (i + 1) fuel (term * (N - i) * a / ((i + 1) * (b - a))) (acc + term)
  go 0 (min c N + 1) ((b - a) ^ N) 0

/-- neither tail of the count `c` is below `10⁻¹²` -/
def tailsOK (N a b c : Nat) : Bool :=
  let tot := b ^ N
  binomLowerNumP N a b c * 1000000000000 ≥ tot &&
  (c == 0 || (tot - binomLowerNumP N a b (c - 1)) * 1000000000000 ≥ tot)

/-- event probability `a/b` and number of events (cells) per kind of selection -/
def margSpec (what : String) (k n : Nat) : Option (Nat × Nat × Nat) :=
  match what with
  | "sample" | "tips" | "tipsR" | "tipsT" => if 0 < k && k < n then some (k, n, n) else none
  | "replace" => if 2 ≤ n then some (1, n, k * n) else none
  | "shuffle" | "shuffleR" | "shuffleT" | "rotate" => if 2 ≤ n then some (1, n, n * n) else none
  | "utreeU" => if 4 ≤ n then some (1, 2 * n - 5, n * (n - 1) / 2) else none
  | _ => none

/-- all counts are within the exact binomial bounds (it is enough to test the extremes) -/
def margOK (N a b : Nat) (counts : List Nat) : Bool :=
  counts.all (· ≤ N) && tailsOK N a b (counts.foldl min N) && tailsOK N a b (counts.foldl max 0)

/-! ### reading the shape of a generated tree: `((0,1),2)` ↦ clusters -/

structure ShapeSt where
  stack : List (List (List Nat)) := []
  num : Option Nat := none
  clusters : List (List Nat) := []
  rootDeg : Nat := 0
  leaves : List Nat := []
  ok : Bool := true

def ShapeSt.flush (s : ShapeSt) : ShapeSt :=
  match s.num, s.stack with
  | some v, f :: r => { s with num := none, stack := (f ++ [[v]]) :: r, clusters := s.clusters ++ [[v]] }
  | some _, [] => { s with ok := false }
  | none, _ => s

def shapeStep (s : ShapeSt) (c : Char) : ShapeSt :=
  if c.isDigit then { s with num := some (s.num.getD 0 * 10 + (c.toNat - 48)) }
  else if c == '(' then { s with stack := [] :: s.stack }
  else if c == ',' then s.flush
  else if c == ')' then
    let s := s.flush
    match s.stack with
    | f :: p :: r =>
      let S := sortNat f.flatten
      { s with stack := (p ++ [S]) :: r, clusters := s.clusters ++ [S] }
    | [f] => { s with stack := [], rootDeg := f.length, leaves := sortNat f.flatten }
    | [] => { s with ok := false }
  else { s with ok := false }

/-- clusters below every non-root node, degree of the root, all leaves -/
def parseShape (str : String) : Option (List (List Nat) × Nat × List Nat) :=
  let s := str.toList.foldl shapeStep {}
  if s.ok && s.stack.isEmpty && s.num.isNone && s.rootDeg > 0 then some (s.clusters, s.rootDeg, s.leaves) else none

/-- the clusters seen from tip 0 (unrooted trees): a side containing 0 is replaced by its complement -/
def awayFrom0 (leaves : List Nat) (cl : List (List Nat)) : List (List Nat) :=
  cl.map fun c => if c.contains 0 then leaves.filter (fun x => !c.contains x) else c

end Gotree.C20
