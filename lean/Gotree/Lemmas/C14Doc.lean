/-
  C14 round 3 — the documented Spec of the cut (`cutSpecOK`, no arithmetic on the sentinel of an
  absent length) is implied by the characterisation `cutOK` that the models are proved to meet.
  Core Lean only.
-/
import Gotree.Lemmas.C14Cut7

namespace Gotree.C14
open Gotree

theorem shortDoc_sound {thr : Rat} {e : EdgeD} {v : Bool} (h : shortDoc thr e = some v) : decide (e.len < thr) = v := by
  unfold shortDoc at h
  by_cases hn : e.len = NIL
  · simp only [hn, beq_self_eq_true, if_true] at h
    by_cases hp : 0 < thr
    · simp only [hp, if_true, Option.some.injEq] at h
      rw [← h, hn]
      have : NIL < thr := by unfold NIL; grind
      simpa using this
    · simp [hp] at h
  · have : (e.len == NIL) = false := by simpa using hn
    simp only [this, Bool.false_eq_true, if_false, Option.some.injEq] at h
    exact h

/-- whenever the documentation decides whether two tips belong together, the characterisation
    by raw lengths (what the code computes) decides the same -/
theorem pathShortDoc_sound {thr : Rat} {t : T} {a b : String} {v : Bool} (h : pathShortDoc thr t a b = some v) :
    pathShort thr t a b = v := by
  unfold pathShortDoc at h
  simp only at h
  unfold pathShort
  split at h
  · rename_i hany
    simp only [Option.some.injEq] at h
    rw [← h]
    simp only [List.any_eq_true, List.mem_filter, beq_iff_eq] at hany
    obtain ⟨s, ⟨hs, hsep⟩, hd⟩ := hany
    have := shortDoc_sound hd
    rw [List.all_eq_false]
    exact ⟨s, hs, by simp [hsep, this]⟩
  · split at h
    · rename_i hall
      simp only [Option.some.injEq] at h
      rw [← h, List.all_eq_true]
      intro s hs
      by_cases hsep : s.sep a b = true
      · simp only [List.all_eq_true, List.mem_filter, beq_iff_eq] at hall
        have := shortDoc_sound (hall s ⟨hs, hsep⟩)
        simp [hsep, this]
      · simp [hsep]
    · cases h

theorem cutSpecOK_of_cutOK (thr : Rat) (t : T) (bags : List (List String)) (h : cutOK thr t bags = true) :
    cutSpecOK thr t bags = true := by
  simp only [cutOK, Bool.and_eq_true, List.all_eq_true, beq_iff_eq] at h
  simp only [cutSpecOK, Bool.and_eq_true, List.all_eq_true, beq_iff_eq]
  refine ⟨h.1, fun a ha b hb => ?_⟩
  cases hd : pathShortDoc thr t a b with
  | none => rfl
  | some v => simp only [beq_iff_eq]; rw [h.2 a ha b hb, pathShortDoc_sound hd]

end Gotree.C14
