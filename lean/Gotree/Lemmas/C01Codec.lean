/-
  C01 — a lawful `FloatCodec` (non-vacuity of the hypotheses of the C01 theorems).

  `ratCodec` writes a rational as  [-]<numerator>r<denominator>  in decimal digits, represents EVERY
  rational (`dom = fun _ => true`), and satisfies the four laws — proved here, no axiom.  It is not the
  codec of the Go code (that one is `goCodec`, whose laws are the stated trust in `strconv`, exercised by
  the C01.float stream on every run); it shows that the theorems are not vacuous.
-/
import Gotree.Lemmas.C01

namespace Gotree.Newick

def rMark (c : Char) : Bool := c.isDigit || c == '-' || c == 'r'

def rfmt (x : Rat) : List Char :=
  (if x.num < 0 then ['-'] else []) ++ (Nat.toDigits 10 x.num.natAbs ++ 'r' :: Nat.toDigits 10 x.den)

def risFloat (l : List Char) : Bool := !l.isEmpty && l.all rMark

def rparse (l : List Char) : Option Rat :=
  let neg := l.head? == some '-'
  let body := if neg then l.tail else l
  let a := body.takeWhile Char.isDigit
  let b := (body.dropWhile Char.isDigit).drop 1
  let n : Int := (Nat.ofDigitChars 10 a 0 : Nat)
  some (mkRat (if neg then -n else n) (Nat.ofDigitChars 10 b 0))

theorem digit_numClean (c : Char) (hd : c.isDigit = true) : numClean c = true := by
  simp only [numClean, Bool.not_eq_true', Bool.or_eq_false_iff, beq_eq_false_iff_ne, ne_eq]
  refine ⟨⟨⟨⟨⟨⟨⟨⟨⟨⟨⟨?_, ?_⟩, ?_⟩, ?_⟩, ?_⟩, ?_⟩, ?_⟩, ?_⟩, ?_⟩, ?_⟩, ?_⟩, ?_⟩ <;>
    (intro h; subst h; revert hd; decide)

theorem digits_all (n : Nat) : (Nat.toDigits 10 n).all Char.isDigit = true := by
  rw [List.all_eq_true]
  intro c hc
  exact Nat.isDigit_of_mem_toDigits (b := 10) (by decide) (by decide) hc

theorem rfmt_all (p : Char → Bool) (hd : ∀ c, c.isDigit = true → p c = true) (hm : p '-' = true) (hr : p 'r' = true)
    (x : Rat) : (rfmt x).all p = true := by
  have h1 := all_imp _ p _ (digits_all x.num.natAbs) hd
  have h2 := all_imp _ p _ (digits_all x.den) hd
  unfold rfmt
  split <;> simp [List.all_append, h1, h2, hm, hr]

theorem head_digits (n : Nat) : ∃ c w, Nat.toDigits 10 n = c :: w ∧ c.isDigit = true := by
  cases h : Nat.toDigits 10 n with
  | nil => exact absurd h Nat.toDigits_ne_nil
  | cons c w =>
    refine ⟨c, w, rfl, ?_⟩
    have hm : c ∈ Nat.toDigits 10 n := by rw [h]; exact List.mem_cons_self ..
    exact Nat.isDigit_of_mem_toDigits (b := 10) (by decide) (by decide) hm

theorem rparse_body (a b : Nat) :
    Nat.ofDigitChars 10 ((Nat.toDigits 10 a ++ 'r' :: Nat.toDigits 10 b).takeWhile Char.isDigit) 0 = a ∧
    Nat.ofDigitChars 10 (((Nat.toDigits 10 a ++ 'r' :: Nat.toDigits 10 b).dropWhile Char.isDigit).drop 1) 0 = b := by
  rw [takeWhile_append_stop _ _ 'r' _ (digits_all a) (by decide), dropWhile_append_stop _ _ 'r' _ (digits_all a) (by decide)]
  simp

theorem rparse_rfmt (x : Rat) : rparse (rfmt x) = some x := by
  obtain ⟨c, w, hcw, hc⟩ := head_digits x.num.natAbs
  obtain ⟨h1, h2⟩ := rparse_body x.num.natAbs x.den
  by_cases hneg : x.num < 0
  · have hf : rfmt x = '-' :: (Nat.toDigits 10 x.num.natAbs ++ 'r' :: Nat.toDigits 10 x.den) := by simp [rfmt, hneg]
    simp only [rparse, hf, List.head?_cons, beq_self_eq_true, if_true, List.tail_cons, h1, h2]
    have : -((x.num.natAbs : Nat) : Int) = x.num := by omega
    rw [this, Rat.mkRat_self]
  · have hf : rfmt x = Nat.toDigits 10 x.num.natAbs ++ 'r' :: Nat.toDigits 10 x.den := by simp [rfmt, hneg]
    have hhead : ((Nat.toDigits 10 x.num.natAbs ++ 'r' :: Nat.toDigits 10 x.den).head? == some '-') = false := by
      rw [hcw]
      simp only [List.cons_append, List.head?_cons]
      cases hx : (some c == some '-') with
      | false => rfl
      | true =>
        simp at hx; subst hx; revert hc; decide
    simp only [rparse, hf, hhead, Bool.false_eq_true, if_false, h1, h2]
    have : ((x.num.natAbs : Nat) : Int) = x.num := by omega
    rw [this, Rat.mkRat_self]

/-- A lawful codec representing every rational. -/
def ratCodec : FloatCodec where
  fmt := rfmt
  isFloat := risFloat
  parse := rparse
  dom := fun _ => true
  fmt_clean := by
    intro x _
    refine ⟨?_, rfmt_all numClean digit_numClean (by decide) (by decide) x⟩
    unfold rfmt
    split <;> simp
  fmt_isFloat := by
    intro x _
    have h := rfmt_all rMark (fun c hc => by simp [rMark, hc]) (by decide) (by decide) x
    have hne : (rfmt x).isEmpty = false := by
      unfold rfmt; split <;> simp
    simp [risFloat, h, hne]
  parse_fmt := fun x _ => rparse_rfmt x
  isFloat_noSlash := by
    intro l h
    simp only [risFloat, Bool.and_eq_true] at h
    exact all_imp _ _ l h.2 (fun c hc => by
      simp only [rMark, Bool.or_eq_true, beq_iff_eq] at hc
      rcases hc with (hc | hc) | hc
      · cases hx : (c != '/') with
        | true => rfl
        | false => simp at hx; subst hx; revert hc; decide
      · subst hc; decide
      · subst hc; decide)

end Gotree.Newick
