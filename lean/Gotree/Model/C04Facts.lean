/-
  C04 — the facts about the source that the hand-written model and the harness copy silently, spelled
  out so that they can be compared with the tables regenerated from the source on every run
  (`lean/Gotree/Gen/C04Facts.lean`, written by `harness/c04/extract.go`; decided in `Proofs/C04.lean`).
  Core Lean only.
-/
import Gotree.Model.C04
import Gotree.Model.C04HM

namespace Gotree.C04.Facts
open Gotree.C04

def all4 : List String := ["UpdateTipIndex", "ClearBitSets", "UpdateBitSet", "ComputeEdgeHashes"]
def internal3 : List String := ["ClearBitSets", "UpdateBitSet", "ComputeEdgeHashes"]

/-- Which index routines each edit of the histories runs by itself — what `ownRecompute` of the harness
    assumes when it reads the indexes straight after the edit, and what `reinitLit3` /
    `reinitInternalLit` are models of.  (`⊆`: the edit must reach AT LEAST these.) -/
def assumedReach : List (String × List String) := [
  ("Tree.ReinitIndexes", all4),                 -- script step `reinit`            : model `reinitLit3`
  ("Tree.ReinitInternalIndexes", internal3),    -- script step `internal`          : model `reinitInternalLit`
  ("Tree.ShuffleTips", all4),                   -- `shuffle`
  ("Tree.UnRoot", all4),                        -- `unroot`
  ("Tree.RemoveTips", all4),                    -- `remove`  (UpdateTipIndex + ReinitInternalIndexes)
  ("Tree.Reroot", internal3),                   -- `reroot`
  ("Tree.Resolve", internal3),                  -- `resolve`
  ("Tree.CollapseShortBranches", internal3),    -- `collapse` (through RemoveEdges)
  ("Tree.RemoveEdges", internal3),
  ("Tree.RemoveSingleNodes", internal3),        -- `singles`
  ("Tree.RerootMidPoint", internal3),           -- `midpoint`
  ("Tree.RerootOutGroup", internal3),           -- `outgroup`
  ("Tree.Clone", ["UpdateTipIndex"])]           -- `clone` (the copy's tip index; bitsets are copied)

def lookup (tbl : List (String × List String)) (k : String) : Option (List String) :=
  (tbl.find? fun r => r.1 == k).map (·.2)

/-- every assumed row is in the regenerated table with at least the assumed routines -/
def reachOK (tbl : List (String × List String)) : Bool :=
  assumedReach.all fun r =>
    match lookup tbl r.1 with
    | some got => r.2.all fun x => got.contains x
    | none => false

/-- The one-line decisions of the source the model copies (skeleton = if-conditions, return expressions,
    assignments as printed by go/printer), next to the Lean definition that is their model. -/
def assumedFacts : List (String × List String) := [
  -- `HM.new`: size 0 means one bucket
  ("NewHashMap", ["if size == 0", "set size = 1", "ret &HashMap{ mapArray: make([]Bucket, size), capacity: size, loadfactor: loadfactor, total: 0, }"]),
  -- `goPolicy` (`>=`, float64 product) and `HM.rehash` (`2 * m.cap`, re-insertion of every bucket of the old array)
  ("HashMap.rehash", ["if float64(em.total) >= float64(em.capacity)*em.loadfactor", "set newcapacity := em.capacity * 2", "set newmap := make([]Bucket, newcapacity)", "range _, b of em.mapArray", "set em.capacity = newcapacity", "set em.mapArray = newmap"]),
  -- `fnv1a`
  ("tax_hash", ["set h := fnv.New64a()", "call h.Write([]byte(s))", "ret h.Sum64()"]),
  -- `dumpBitSetL` (Model/C04Dump.lean): positions Len-1 .. 0, then a dot (since 405e36d)
  ("Edge.DumpBitSet", ["if e.bitset == nil", "ret \"nil\"", "var var s strings.Builder", "for i := e.bitset.Len(); i > 0; i--", "if e.bitset.Test(i - 1)", "call s.WriteByte('1')", "else", "call s.WriteByte('0')", "call s.WriteByte('.')", "ret s.String()"]),
  -- `EdgeIdx.equals`
  ("Edge.HashEquals", ["ret e.bitset.EqualOrComplement(h.(*Edge).bitset)"]),
  -- `EdgeIdx.sameBipartition`
  ("Edge.SameBipartition", ["if e.HashCode() != e2.HashCode()", "ret false", "ret e.bitset.EqualOrComplement(e2.bitset)"]),
  -- `Quartet.hashCode` (Model/C04Q.lean): the five compare-and-swap steps, then the polynomial in 31
  ("Quartet.HashCode", ["set i1, i2, i3, i4 := int(q.T1), int(q.T2), int(q.T3), int(q.T4)", "if i2 < i1", "set i1, i2 = i2, i1", "if i4 < i3", "set i3, i4 = i4, i3", "if i3 < i1", "set i1, i3 = i3, i1", "if i4 < i2", "set i2, i4 = i4, i2", "if i3 < i2", "set i3, i2 = i2, i3", "var var hashCode uint64 = 1", "set hashCode = 31*(31*(31*(31+uint64(i1))+uint64(i2))+uint64(i3)) + uint64(i4)", "ret hashCode"]),
  -- `Quartet.hashEquals`
  ("Quartet.HashEquals", ["set q2 := h.(*Quartet)", "ret q.Compare(q2) != QUARTET_DIFF"]),
  -- `indexQuartets`: every quartet put with itself as value; the capacity the driver replaces by 128 (theorem `indexQuartets_plain_map`: immaterial)
  ("Tree.IndexQuartets", ["set index := hashmap.NewHashMap(12800000, .75)", "set n := 0", "call t.Quartets(specific, func(q *Quartet) { n++ index.PutValue(q, q) })", "ret index"]),
  -- `sortNames`: bytewise order of the names
  ("Tree.SortedTips", ["set tips := t.Tips()", "call sort.Slice(tips, func(i, j int) bool { return strings.Compare(tips[i].Name(), tips[j].Name()) < 0 })", "ret strings.Compare(tips[i].Name(), tips[j].Name()) < 0", "ret tips"]),
  -- `reinitInternalLit`: width of the bitsets = size of the tip index, empty index = error
  ("Tree.ClearBitSets", ["set length := uint(len(t.tipIndex))", "if length == 0", "call t.clearBitSetsRecur(nil, nil, length)", "ret nil"]),
  -- `statsSplits` (Model/C04Dump.lean): ReinitIndexes (its error is the command's), header from the last sorted tip to the first, one line per branch of Edges()
  ("cmd.splitsCmd.RunE", ["var var f *os.File", "var var treefile goio.Closer", "var var treechan <-chan tree.Trees", "if f, err = openWriteFile(outtreefile); err != nil", "call io.LogError(err)", "ret ", "if treefile, treechan, err = readTrees(intreefile); err != nil", "call io.LogError(err)", "ret ", "range t of treechan", "if t.Err != nil", "call io.LogError(t.Err)", "ret t.Err", "if err = t.Tree.ReinitIndexes(); err != nil", "call io.LogError(err)", "ret ", "call f.WriteString(\"Tree\\t\")", "set tips := t.Tree.SortedTips()", "for i := len(tips) - 1; i >= 0; i--", "if i < len(tips)-1", "call f.WriteString(\"|\")", "call f.WriteString(tips[i].Name())", "call f.WriteString(\"\\n\")", "range _, e of t.Tree.Edges()", "call f.WriteString(fmt.Sprintf(\"%d\\t\", t.Id))", "call f.WriteString(e.DumpBitSet() + \"\\n\")", "ret "])]

/-- the keys whose regenerated skeleton differs from the assumed one (or is missing) -/
def factsDiff (tbl : List (String × List String)) : List String :=
  assumedFacts.filterMap fun r => if lookup tbl r.1 == some r.2 then none else some r.1

/-! ### semantic rows: Go expressions evaluated on probes -/

/-- a Go expression as the extractor hands it over (selectors reduced to their field name) -/
inductive GExpr where
  | var (n : String)
  | lit (v : Int)
  | bin (op : String) (a b : GExpr)
  | un (op : String) (a : GExpr)
  | call1 (f : String) (a : GExpr)
  | call2 (f : String) (a b : GExpr)
  | other (s : String)
  deriving Repr

def b2i (b : Bool) : Int := if b then 1 else 0

/-- value of an expression over integers (`true` = 1); `u64`: `+ - *` wrap around 2^64 as on `uint64`.
    `none`: something the evaluator does not know (the row then fails). -/
def GExpr.eval (u64 : Bool) (env : String → Option Int) : GExpr → Option Int
  | .var n => env n
  | .lit v => some v
  | .other _ => none
  | .un op a =>
    match a.eval u64 env with
    | none => none
    | some x => if op == "!" then some (b2i (x == 0)) else if op == "-" then some (-x) else none
  | .call1 f a =>      -- conversions
    if f == "uint64" || f == "int" || f == "uint" || f == "float64" then a.eval u64 env else none
  | .call2 f a b =>
    match a.eval u64 env, b.eval u64 env with
    | some x, some y => if f == "Min" then some (min x y) else if f == "Max" then some (max x y) else none
    | _, _ => none
  | .bin op a b =>
    match a.eval u64 env, b.eval u64 env with
    | some x, some y =>
      let w (z : Int) : Int := if u64 then z % 18446744073709551616 else z
      if op == "+" then some (w (x + y)) else if op == "-" then some (w (x - y)) else if op == "*" then some (w (x * y))
      else if op == "&" then some ((x.toNat &&& y.toNat : Nat) : Int)
      else if op == "==" then some (b2i (x == y)) else if op == "!=" then some (b2i (x != y))
      else if op == "<" then some (b2i (x < y)) else if op == "<=" then some (b2i (x ≤ y))
      else if op == ">" then some (b2i (x > y)) else if op == ">=" then some (b2i (x ≥ y))
      else if op == "&&" then some (b2i (x != 0 && y != 0)) else if op == "||" then some (b2i (x != 0 || y != 0))
      else none
    | _, _ => none

def envOf (l : List (String × Int)) (n : String) : Option Int := (l.find? fun p => p.1 == n).map (·.2)

def semLookup (tbl : List (String × GExpr)) (k : String) : GExpr := ((tbl.find? fun r => r.1 == k).map (·.2)).getD (.other "missing")

/-- value of a decision list (first condition that holds) -/
def chainEval (u64 : Bool) (env : String → Option Int) : List (GExpr × GExpr) → Option Int
  | [] => none
  | (c, v) :: r =>
    match c.eval u64 env with
    | some 0 => chainEval u64 env r
    | some _ => v.eval u64 env
    | none => none

def pairs3 (a b c : List Int) : List (Int × Int × Int) := a.flatMap fun x => b.flatMap fun y => c.map fun z => (x, y, z)

/-- `indexFor` of the source = `indexFor` of the model, on every probe (capacities >= 1) -/
def indexForOK (e : GExpr) : Bool :=
  ([0, 1, 5, 6, 255, 12345678901234567890, 18446744073709551615] : List Nat).all fun h =>
    ([1, 2, 3, 5, 7, 8, 10, 128, 1000] : List Nat).all fun cap =>
      e.eval true (envOf [("hashcode", h), ("capacity", cap)]) == some ((indexFor (UInt64.ofNat h) cap : Nat) : Int)

/-- the guard and the value of `Edge.TopoDepth` = `EdgeIdx.topoDepth` -/
def topoDepthOK (guard ret : GExpr) : Bool :=
  ([0, 1, 2, 3, 7] : List Nat).all fun nl => ([0, 1, 2, 3, 7] : List Nat).all fun nr =>
    let env := envOf [("ntaxleft", nl), ("ntaxright", nr)]
    let m := (EdgeIdx.topoDepth ⟨[], nl, nr, 0, 0⟩).map fun (x : Nat) => (x : Int)
    match guard.eval false env with
    | some 0 => ret.eval false env == m && m.isSome
    | some _ => m.isNone
    | none => false

/-- the filter of `EdgeIndex.Edges` = `eiKeep` -/
def edgesKeepOK (e : GExpr) : Bool :=
  (pairs3 [0, 1, 2, 3, 5] [-1, 0, 1, 2, 3, 5] [0, 1, 2, 3, 5]).all fun (c, mn, mx) =>
    e.eval false (envOf [("Count", c), ("minCount", mn), ("maxCount", mx)]) == some (b2i (eiKeep mn mx ⟨c, 0⟩))

/-- the decision list of `Edge.HashCode` = `EdgeIdx.hashCode` (uint64 products included) -/
def hashCodeOK (chain : List (GExpr × GExpr)) : Bool :=
  ([1, 2, 3] : List Nat).all fun nl => ([1, 2, 3] : List Nat).all fun nr =>
    ([3, 9223372036854775813, 18446744073709551615] : List Nat).all fun hl =>
      ([7, 9223372036854775809, 18446744073709551557] : List Nat).all fun hr =>
        chainEval true (envOf [("ntaxleft", nl), ("ntaxright", nr), ("hashcodeleft", hl), ("hashcoderight", hr)]) chain ==
          some (((EdgeIdx.hashCode ⟨[], nl, nr, UInt64.ofNat hl, UInt64.ofNat hr⟩).toNat : Nat) : Int)

end Gotree.C04.Facts
