/-
  C15 — the statements the edit operations of tree/tree.go are made of, as heap programs
  (layout of `C15HeapCopy.lean`: Tree [root, tip index]; Node [comment array, neigh array,
  br array]; Edge [left, right, comment array, bitset]; an array cell holds its elements).

  | Go statement                                             | program            |
  |----------------------------------------------------------|--------------------|
  | e.length = x, e.support = x, n.name = s, n.id = i, n.depth = d, n.comment = n.comment[:0] (slice header) | `setScalar`  |
  | n.comment = append(n.comment, c)   within capacity       | `setScalar` on the array cell |
  | … beyond capacity (new backing array)                    | `appendRealloc`    |
  | n.neigh[i] = m, n.br[i] = e, delNeighbor, copy(…)         | `setElems`         |
  | e.left = a; e.right = b; e.Inverse()                      | `setRefs`          |
  | t.root = n                                                | `setRefs` on []    |
  | t.NewNode(), t.NewEdge(), ConnectNodes                    | `newNode`, `newEdgeBetween` |

  `Reroot` = `t.root = n` + `Inverse` on the branches of the path; `removeTip`, `RemoveEdges`
  (CollapseShortBranches, CollapseLowSupport), `Resolve`, `GraftTipOnEdge`, `InsertIdenticalTip`,
  `removeSingleNodesRecur`, the NNI `Apply`, `RotateNeighbors`, `ShuffleTips`, `Rename` are
  sequences of these statements whose operands are found by navigation from the receiver
  (`t.Root()`, `n.neigh[i]`, `n.br[i]`, `e.left`, `e.right`, the tip index) — which is all the
  frame theorem (Lemmas/C15HeapProg.lean) needs: `progs_frame` holds for EVERY list of such programs, so no particular
  decomposition has to be trusted.  Core Lean only.
-/
import Gotree.Model.C15Heap

namespace Gotree.C15.Heap

/-- store into the non-reference part of the cell at path `p` -/
def setScalar (p : List Nat) (v : Nat) : H → List Op := fun _ => [.setData (.path p) v]

/-- replace the reference fields / the elements of the cell at `p` by cells found at the paths `l` -/
def setRefs (p : List Nat) (l : List (List Nat)) : H → List Op := fun _ => [.setPtrs (.path p) (l.map .path)]

abbrev setElems := setRefs

/-- `x.f = append(x.f, y)` with a new backing array: allocate it, fill it with the old elements
    (`n` of them) and the new one, and store it in reference field `f` (of `nf`) of the struct at `owner` -/
def appendRealloc (owner : List Nat) (f nf n : Nat) (y : List Nat) : H → List Op := fun _ =>
  [.alloc,
   .setPtrs (.fresh 0) ((List.range n).map (fun i => Src.path (owner ++ [f, i])) ++ [.path y]),
   .setPtrs (.path owner) ((List.range nf).map fun j => if j = f then Src.fresh 0 else Src.path (owner ++ [j]))]

/-- `t.NewNode()` hung as a new last neighbour of the node at `parent` (which has `n` neighbours),
    through a new branch: `ConnectNodes(parent, NewNode())` with reallocation of both slices -/
def connectNewNode (parent : List Nat) (n : Nat) : H → List Op := fun _ =>
  [.alloc, .alloc, .alloc, .alloc,          -- node struct, its comment / neigh / br arrays   (fresh 0..3)
   .alloc, .alloc,                          -- edge struct, its comment array                 (fresh 4, 5)
   .alloc, .alloc,                          -- the parent's new neigh / br arrays             (fresh 6, 7)
   .setPtrs (.fresh 0) [.fresh 1, .fresh 2, .fresh 3],
   .setPtrs (.fresh 2) [.path parent],
   .setPtrs (.fresh 3) [.fresh 4],
   .setPtrs (.fresh 4) [.path parent, .fresh 0, .fresh 5],
   .setPtrs (.fresh 6) ((List.range n).map (fun i => Src.path (parent ++ [1, i])) ++ [.fresh 0]),
   .setPtrs (.fresh 7) ((List.range n).map (fun i => Src.path (parent ++ [2, i])) ++ [.fresh 4]),
   .setPtrs (.path parent) [.path (parent ++ [0]), .fresh 6, .fresh 7]]

/-- `SetLength` on the branch to the `i`-th neighbour of the node at `n` -/
def setLength (n : List Nat) (i : Nat) (v : Nat) : H → List Op := setScalar (n ++ [2, i]) v

/-- `SetName` -/
def setName (n : List Nat) (v : Nat) : H → List Op := setScalar n v

/-- `AddComment` within capacity: the write goes into the (possibly shared!) backing array -/
def addCommentInPlace (n : List Nat) (v : Nat) : H → List Op := setScalar (n ++ [0]) v

/-- `delNeighbor(i)` on the node at `n` with `k` neighbours: both slices lose element `i` -/
def delNeighbor (n : List Nat) (k i : Nat) : H → List Op := fun _ =>
  [.setPtrs (.path (n ++ [1])) (((List.range k).filter (· ≠ i)).map fun j => Src.path (n ++ [1, j])),
   .setPtrs (.path (n ++ [2])) (((List.range k).filter (· ≠ i)).map fun j => Src.path (n ++ [2, j]))]

/-- `e.Inverse()` on the branch at `e` -/
def inverse (e : List Nat) : H → List Op := setRefs e [e ++ [1], e ++ [0], e ++ [2], e ++ [3]]

/-- `t.root = n` -/
def setRoot (n : List Nat) : H → List Op := setRefs [] [n, [1]]

/-- one step of `Reroot` towards the `i`-th neighbour of the root: new root, branch turned round -/
def rerootStep (i : Nat) : List (H → List Op) := [inverse [0, 2, i], setRoot [0, 1, i]]

/-- `removeTip` when the parent (at `p`, `k ≥ 4` neighbours, or the root with `k ≥ 3`) keeps enough
    neighbours: the tip at slot `i` is cut off (`delNeighbor`; the tip's own cells become garbage) -/
def removeTipSimple (p : List Nat) (k i : Nat) : List (H → List Op) := [delNeighbor p k i]

/-- `x[i] = y` for the array cell at `arr` (its current length is read from the heap: reads are free) -/
def setElemAt (r : Addr) (arr : List Nat) (i : Nat) (y : List Nat) : H → List Op := fun h =>
  match follow h r arr with
  | some a => [.setPtrs (.path arr) ((List.range (h.ptrs a).length).map fun j => if j = i then Src.path y else Src.path (arr ++ [j]))]
  | none => []

/-- `removeTip` when the parent `n` (the `a`-th neighbour of `g`) is left with two neighbours — `g` and
    the sibling at slot `sib` of `n` — and is suppressed: the branch `g`–`n` is kept and now ends at the
    sibling (`e.right = sibling`), its length becomes `len` (the sum); `g.neigh[a] = sibling`; the sibling's
    slot `back` (where `n` was) now holds `g` and that branch -/
def removeTipFuse (r : Addr) (g : List Nat) (a sib back : Nat) (len : Nat) : List (H → List Op) :=
  let n := g ++ [1, a]
  let s := n ++ [1, sib]
  let e := g ++ [2, a]
  -- order matters: every path is resolved in the heap as the earlier statements left it
  [ setElemAt r (s ++ [1]) back g,                      -- sibling.neigh[back] = g
    setElemAt r (s ++ [2]) back e,                      -- sibling.br[back]    = e
    setRefs e [e ++ [0], s, e ++ [2], e ++ [3]],        -- e.right = sibling
    setScalar e len,                                    -- e.length = sum
    setElemAt r (g ++ [1]) a (e ++ [1]) ]               -- g.neigh[a] = sibling (= e.right now)

/-- `RemoveEdges` on one inner branch (CollapseShortBranches / CollapseLowSupport): the child `m` (slot `i`
    of `n` at `p`, which has `k` neighbours; `m` has `km` neighbours, its parent at slot `up`) disappears:
    its other branches are turned towards `n` and appended, with their far ends, to `n`'s slices (with
    reallocation), then `m` is cut off -/
def collapseEdge (p : List Nat) (k i km up : Nat) : List (H → List Op) :=
  let m := p ++ [1, i]
  (((List.range km).filter (· ≠ up)).zipIdx).flatMap (fun (j, done) =>
    [ setRefs (m ++ [2, j]) [p, m ++ [2, j, 1], m ++ [2, j, 2], m ++ [2, j, 3]],   -- e.left = n
      appendRealloc p 1 3 (k + done) (m ++ [1, j]),                                 -- n.neigh = append(n.neigh, c)
      appendRealloc p 2 3 (k + done) (m ++ [2, j]) ])                               -- n.br = append(n.br, e)
  ++ [delNeighbor p k i]

/-- `Reroot(n)` for the node at heap path `[0] ++ steps` (pairs `1, slot` from the root node): every
    branch of the path is turned round (`ReorderEdges`), then `t.root = n`.  The branch of step `j` is
    `br[slot j]` of the `j`-th node of the path; all paths are taken from the OLD root, so the turns come
    first. -/
def rerootProgs : List Nat → List (H → List Op)
  | slots =>
    let rec go : List Nat → List Nat → List (H → List Op)
      | _, [] => []
      | node, s :: rest => inverse (node ++ [2, s]) :: go (node ++ [1, s]) rest
    let target := slots.foldl (fun p s => p ++ [1, s]) [0]
    go [0] slots ++ [setRoot target]

/-! ### the anchored operations of C15, statement by statement

  The edited tree and an argument tree hang below a frame cell: `[0]` = Tree struct of the receiver,
  `[1]` = Tree struct of the argument; `[0, 0]` = root node of the receiver.  `NewNode` takes 4 cells
  (struct, comment / neigh / br arrays), `NewEdge` 3 (struct, comment array, "no bitset"). -/

def elems (arr : List Nat) (n : Nat) : List Src := (List.range n).map fun j => Src.path (arr ++ [j])

def elemsSet (arr : List Nat) (n i : Nat) (y : Src) : List Src :=
  (List.range n).map fun j => if j = i then y else Src.path (arr ++ [j])

def newNodeOps (k : Nat) : List Op :=
  [.alloc, .alloc, .alloc, .alloc, .setPtrs (.fresh k) [.fresh (k + 1), .fresh (k + 2), .fresh (k + 3)]]

def newEdgeOps (k : Nat) (left right : Src) : List Op :=
  [.alloc, .alloc, .alloc, .setPtrs (.fresh k) [left, right, .fresh (k + 1), .fresh (k + 2)]]

/-- `GraftTreeOnTip` (tree.go:2233): `parN` = heap path of the tip's parent (which has `kn` neighbours),
    `idx` = slot of the tip there, `tr` = root node of the graft (which has `kt` neighbours):
    `parE.setRight(tr); parN.neigh[idx] = tr; tr.addChild(parN, parE)` -/
def graftProg (parN : List Nat) (kn idx : Nat) (tr : List Nat) (kt : Nat) : H → List Op := fun _ =>
  let parE := parN ++ [2, idx]
  [ .setPtrs (.path parE) [.path (parE ++ [0]), .path tr, .path (parE ++ [2]), .path (parE ++ [3])],
    .setPtrs (.path (parN ++ [1])) (elemsSet (parN ++ [1]) kn idx (.path tr)),
    .setPtrs (.path (tr ++ [1])) (elems (tr ++ [1]) kt ++ [.path parN]),
    .setPtrs (.path (tr ++ [2])) (elems (tr ++ [2]) kt ++ [.path parE]) ]

/-- `Merge` (tree.go:1830), both roots having two neighbours: `newroot := t.NewNode();
    t.ConnectNodes(newroot, t.Root()); t.ConnectNodes(newroot, t2.Root()); t.SetRoot(newroot)` -/
def mergeProg : H → List Op := fun _ =>
  let r1 := [0, 0]
  let r2 := [1, 0]
  newNodeOps 0 ++ newEdgeOps 4 (.fresh 0) (.path r1) ++ newEdgeOps 7 (.fresh 0) (.path r2) ++
  [ .setPtrs (.fresh 2) [.path r1, .path r2], .setPtrs (.fresh 3) [.fresh 4, .fresh 7],
    .setPtrs (.path (r1 ++ [1])) (elems (r1 ++ [1]) 2 ++ [.fresh 0]), .setPtrs (.path (r1 ++ [2])) (elems (r1 ++ [2]) 2 ++ [.fresh 4]),
    .setPtrs (.path (r2 ++ [1])) (elems (r2 ++ [1]) 2 ++ [.fresh 0]), .setPtrs (.path (r2 ++ [2])) (elems (r2 ++ [2]) 2 ++ [.fresh 7]),
    .setPtrs (.path [0]) [.fresh 0, .path [0, 1]] ]

/-- `InsertIdenticalTip`, zero-length branch (tree.go:2188–2192): `newtip := NewNode(); e1 := ConnectNodes(parent, newtip)` -/
def insertZeroProg (parN : List Nat) (kn : Nat) : H → List Op := fun _ =>
  newNodeOps 0 ++ newEdgeOps 4 (.path parN) (.fresh 0) ++
  [ .setPtrs (.path (parN ++ [1])) (elems (parN ++ [1]) kn ++ [.fresh 0]),
    .setPtrs (.path (parN ++ [2])) (elems (parN ++ [2]) kn ++ [.fresh 4]),
    .setPtrs (.fresh 2) [.path parN], .setPtrs (.fresh 3) [.fresh 4] ]

/-- `InsertIdenticalTip`, the cherry (tree.go:2193–2221); `idx` = slot of the tip `n` in its parent
    (`e_ind`), the tip's own slot for its parent is 0 (`n_ind`: a tip has one neighbour) -/
def insertCherryProg (parN : List Nat) (kn idx : Nat) : H → List Op := fun _ =>
  let n := parN ++ [1, idx]
  let parE := parN ++ [2, idx]
  -- fresh: 0..3 newtip, 4..7 newinternal, 8..10 newedge, 11..13 newedge1
  newNodeOps 0 ++ newNodeOps 4 ++ newEdgeOps 8 (.fresh 4) (.fresh 0) ++ newEdgeOps 11 (.fresh 4) (.path n) ++
  [ .setPtrs (.fresh 2) [.fresh 4], .setPtrs (.fresh 3) [.fresh 8],                                   -- newtip.neigh / br
    -- n.neigh[0] = newinternal ; n.br[0] = newedge1   (before parN.neigh[idx] changes what `n` means)
    .setPtrs (.path (n ++ [1])) [.fresh 4], .setPtrs (.path (n ++ [2])) [.fresh 11],
    -- newinternal: [newtip, parent, n] / [newedge, parentedge, newedge1]
    .setPtrs (.fresh 6) [.fresh 0, .path parN, .path n], .setPtrs (.fresh 7) [.fresh 8, .path parE, .fresh 11],
    -- parentedge.setRight(newinternal) ; parentnode.neigh[e_ind] = newinternal
    .setPtrs (.path parE) [.path (parE ++ [0]), .fresh 4, .path (parE ++ [2]), .path (parE ++ [3])],
    .setPtrs (.path (parN ++ [1])) (elemsSet (parN ++ [1]) kn idx (.fresh 4)) ]

def elemsWithout (arr : List Nat) (n i : Nat) : List Src :=
  ((List.range n).filter (· ≠ i)).map fun j => Src.path (arr ++ [j])

/- `RemoveSingleNodes` / `removeSingleNodesRecur` (tree.go:1280–1347), one program per removed node, in the
   order of the code (post-order).  `P` = heap path of `previous`, which has `kn` neighbours throughout (one
   child leaves, its child arrives); the `i`-th child sits at slot `slot … i − removed` when its turn comes.
   Per removal: `child.neigh[idx] = previous; child.br[idx].left = previous;` then `delNeighbor` on both
   slices of `previous` and `addChild(child, br)` — written as one store per slice, `br` first because the
   branch is found through `previous.neigh`. -/
mutual
def rsProgs : T → List Nat → Bool → List (H → List Op)
  | .node _ pp kids, P, isRoot => rsKidsProgs kids P isRoot pp 0 0 (kids.length + if isRoot then 0 else 1)
def rsKidsProgs : Kids → List Nat → Bool → Nat → Nat → Nat → Nat → List (H → List Op)
  | [], _, _, _, _, _, _ => []
  | (_, t) :: rest, P, isRoot, pp, i, removed, kn =>
    let cs := slot isRoot pp i - removed
    let cur := P ++ [1, cs]
    let inner := rsProgs t cur false
    match (rsNode fuseLenGo t).kids with
    | [(_, x)] =>
      let xs := slot false (rsNode fuseLenGo t).ppos 0
      let xp := cur ++ [1, xs]
      let ex := cur ++ [2, xs]
      let prog : H → List Op := fun _ =>
        [ .setPtrs (.path (xp ++ [1])) (elemsSet (xp ++ [1]) (x.kids.length + 1) x.ppos (.path P)),
          .setPtrs (.path ex) [.path P, .path (ex ++ [1]), .path (ex ++ [2]), .path (ex ++ [3])],
          .setPtrs (.path (P ++ [2])) (elemsWithout (P ++ [2]) kn cs ++ [.path ex]),
          .setPtrs (.path (P ++ [1])) (elemsWithout (P ++ [1]) kn cs ++ [.path xp]) ]
      inner ++ [prog] ++ rsKidsProgs rest P isRoot pp (i + 1) (removed + 1) kn
    | _ => inner ++ rsKidsProgs rest P isRoot pp (i + 1) removed kn
end

/-- `RemoveTips(false, name)` → `removeTip` (tree.go:299) for a tip whose parent `I` is not the root.
    `I` at heap path `ip = pp ++ [1, sI]` has `kI` neighbours, the tip sits at slot `sTip`.
    Case 3 (`kI ≥ 4`): only `internal.delNeighbor(tip)`.
    Case 2 (`kI = 3`), branches oriented parent → `I` → child: `I` is left with its parent `pp` (which has
    `kP` neighbours) and one child `ch` (at slot `sc` of `I` once the tip is gone; `ch` has `kC` neighbours,
    `I` at its slot `bc`): `n1.delNeighbor(I); n2.delNeighbor(I); e = ConnectNodes(parent, child)` — the new
    branch and the two nodes are appended at the END of each other's slices. -/
def removeTipProgs (pp : List Nat) (kP sI kI sTip sc kC bc : Nat) : List (H → List Op) :=
  let ip := pp ++ [1, sI]
  if kI ≥ 4 then [delNeighbor ip kI sTip]
  else
    let ch := ip ++ [1, sc]
    [ delNeighbor ip kI sTip,
      fun _ =>
        [ .alloc, .alloc, .alloc,
          .setPtrs (.fresh 0) [.path pp, .path ch, .fresh 1, .fresh 2],
          .setPtrs (.path (ch ++ [2])) (elemsWithout (ch ++ [2]) kC bc ++ [.fresh 0]),
          .setPtrs (.path (ch ++ [1])) (elemsWithout (ch ++ [1]) kC bc ++ [.path pp]),
          .setPtrs (.path (pp ++ [2])) (elemsWithout (pp ++ [2]) kP sI ++ [.fresh 0]),
          .setPtrs (.path (pp ++ [1])) (elemsWithout (pp ++ [1]) kP sI ++ [.path ch]) ] ]

end Gotree.C15.Heap
