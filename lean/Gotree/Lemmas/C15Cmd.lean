/-
  C15 — lemmas about the whole-input command models (Model/C15Cmd.lean): the group file format
  reads back what was written; the tree loop prints a prefix.
-/
import Gotree.Model.C15Cmd

namespace Gotree.C15
open Gotree

theorem splitC_ne_nil (c : Char) (l : List Char) : splitC c l ≠ [] := by
  cases l with
  | nil => simp [splitC]
  | cons x r =>
    rw [splitC]
    split
    · simp
    · cases splitC c r <;> simp [consHead]

theorem splitC_cons_eq (c : Char) (r : List Char) : splitC c (c :: r) = [] :: splitC c r := by
  rw [splitC]; simp

theorem splitC_cons_ne (c x : Char) (r : List Char) (h : (x == c) = false) :
    splitC c (x :: r) = consHead x (splitC c r) := by
  rw [splitC]; simp [h]

theorem splitC_of_not_mem (c : Char) (l : List Char) (h : c ∉ l) : splitC c l = [l] := by
  induction l with
  | nil => rfl
  | cons x r ih =>
    have hx : (x == c) = false := by
      simp only [List.mem_cons, not_or] at h
      have h1 := h.1
      simp only [beq_eq_false_iff_ne, ne_eq]
      exact fun e => h1 e.symm
    have hr : c ∉ r := fun hm => h (List.mem_cons_of_mem _ hm)
    rw [splitC_cons_ne c x r hx, ih hr]; rfl

theorem splitC_append (c : Char) (l r : List Char) (h : c ∉ l) :
    splitC c (l ++ c :: r) = l :: splitC c r := by
  induction l with
  | nil => exact splitC_cons_eq c r
  | cons x l ih =>
    have hx : (x == c) = false := by
      simp only [List.mem_cons, not_or] at h
      have h1 := h.1
      simp only [beq_eq_false_iff_ne, ne_eq]
      exact fun e => h1 e.symm
    have hr : c ∉ l := fun hm => h (List.mem_cons_of_mem _ hm)
    show splitC c (x :: (l ++ c :: r)) = _
    rw [splitC_cons_ne c x _ hx, ih hr]; rfl

/-- `strings.Split(strings.Join(items, ","), ",") = items` for items free of the separator -/
theorem splitC_joinC (c : Char) (items : List (List Char)) (hne : items ≠ [])
    (h : ∀ i ∈ items, c ∉ i) : splitC c (joinC c items) = items := by
  induction items with
  | nil => exact absurd rfl hne
  | cons a r ih =>
    cases r with
    | nil => simpa [joinC] using splitC_of_not_mem c a (h a (by simp))
    | cons b r' =>
      show splitC c (a ++ c :: joinC c (b :: r')) = _
      rw [splitC_append c a _ (h a (by simp)), ih (by simp) (fun i hi => h i (List.mem_cons_of_mem _ hi))]

theorem joinC_not_mem (c d : Char) (items : List (List Char)) (hd : d ≠ c) (h : ∀ i ∈ items, d ∉ i) :
    d ∉ joinC c items := by
  induction items with
  | nil => simp [joinC]
  | cons a r ih =>
    cases r with
    | nil => simpa [joinC] using h a (by simp)
    | cons b r' =>
      show d ∉ a ++ c :: joinC c (b :: r')
      simp only [List.mem_append, List.mem_cons, not_or]
      exact ⟨h a (by simp), hd, ih (fun i hi => h i (List.mem_cons_of_mem _ hi))⟩

theorem dropCR_of_not_mem (l : List Char) (h : '\r' ∉ l) : dropCR l = l := by
  unfold dropCR
  split
  · rename_i hl
    have : l.getLast? = some '\r' := by simpa using hl
    exact absurd (List.mem_of_getLast? this) h
  · rfl

/-- lines each followed by "\n" are read back one by one -/
theorem readLines_terminated (ls : List (List Char)) (h : ∀ l ∈ ls, '\n' ∉ l ∧ '\r' ∉ l) :
    readLines (ls.flatMap fun l => l ++ ['\n']) = ls := by
  have key : ∀ ls : List (List Char), (∀ l ∈ ls, '\n' ∉ l) →
      splitC '\n' (ls.flatMap fun l => l ++ ['\n']) = ls ++ [[]] := by
    intro ls
    induction ls with
    | nil => intro _; rfl
    | cons a r ih =>
      intro h
      have : (List.flatMap (fun l => l ++ ['\n']) (a :: r)) = a ++ '\n' :: (r.flatMap fun l => l ++ ['\n']) := by
        simp [List.flatMap_cons]
      rw [this, splitC_append _ _ _ (h a (by simp)), ih (fun l hl => h l (List.mem_cons_of_mem _ hl))]
      rfl
  unfold readLines readLinesBy
  rw [key ls (fun l hl => (h l hl).1)]
  simp only [List.dropLast_concat, List.getLast?_concat, List.append_nil]
  induction ls with
  | nil => rfl
  | cons a r ih =>
    simp only [List.map_cons]
    rw [dropCR_of_not_mem a (h a (by simp)).2, ih (fun l hl => h l (List.mem_cons_of_mem _ hl))]

/-- a text without "\n" is one unterminated line: delivered unless it is empty — or, in the code as it is,
    fills the buffer exactly -/
theorem readLinesBy_unterminated (d : Bool) (l : List Char) (h : '\n' ∉ l) (hne : l ≠ []) :
    readLinesBy d l = if d && l.length % bufSize == 0 then [] else [l] := by
  unfold readLinesBy
  rw [splitC_of_not_mem _ _ h]
  cases l with
  | nil => exact absurd rfl hne
  | cons x r => simp

theorem cleanName_spec {n : String} (h : cleanName n = true) :
    ',' ∉ n.toList ∧ '\n' ∉ n.toList ∧ '\r' ∉ n.toList := by
  simpa [cleanName, and_assoc] using h

/-- the group file format is faithful: what `renderGroups` writes, `readIdenticalGroupFile` reads -/
theorem readGroupFile_render' (gs : List (List String)) (hne : ∀ g ∈ gs, g ≠ [])
    (hc : ∀ g ∈ gs, ∀ n ∈ g, cleanName n = true) : readGroupFile (renderGroups gs) = gs := by
  unfold readGroupFile readGroupFileBy renderGroups
  show List.map _ (readLines _) = gs
  rw [String.toList_ofList]
  have e : (gs.flatMap fun g => joinC ',' (g.map String.toList) ++ ['\n']) =
      ((gs.map fun g => joinC ',' (g.map String.toList)).flatMap fun l => l ++ ['\n']) := by
    simp [List.flatMap_map]
  rw [e, readLines_terminated]
  · rw [List.map_map]
    conv => rhs; rw [← List.map_id gs]
    apply List.map_congr_left
    intro g hg
    simp only [Function.comp, id]
    rw [splitC_joinC]
    · simp [List.map_map, Function.comp_def, String.ofList_toList]
    · simpa using hne g hg
    · intro i hi
      simp only [List.mem_map] at hi
      obtain ⟨n, hn, rfl⟩ := hi
      exact (cleanName_spec (hc g hg n hn)).1
  · intro l hl
    simp only [List.mem_map] at hl
    obtain ⟨g, hg, rfl⟩ := hl
    constructor
    · apply joinC_not_mem _ _ _ (by decide)
      intro i hi
      simp only [List.mem_map] at hi
      obtain ⟨n, hn, rfl⟩ := hi
      exact (cleanName_spec (hc g hg n hn)).2.1
    · apply joinC_not_mem _ _ _ (by decide)
      intro i hi
      simp only [List.mem_map] at hi
      obtain ⟨n, hn, rfl⟩ := hi
      exact (cleanName_spec (hc g hg n hn)).2.2

theorem repopulateLoop_length (gs : List (List String)) (ts : List T) :
    (repopulateLoop gs ts).1.length ≤ ts.length ∧
    ((repopulateLoop gs ts).2 = true → (repopulateLoop gs ts).1.length = ts.length) := by
  induction ts with
  | nil => simp [repopulateLoop]
  | cons t r ih =>
    unfold repopulateLoop
    split
    · simp
    · split
      · simp only [List.length_cons]
        exact ⟨by omega, fun h => by rw [ih.2 h]⟩
      · simp

/-- on exit 0 every input tree was printed, and each printed tree is `InsertIdenticalTips` of its input -/
theorem repopulateLoop_ok (gs : List (List String)) (ts outs : List T)
    (h : repopulateLoop gs ts = (outs, true)) :
    outs.length = ts.length ∧ ∀ p ∈ ts.zip outs, insertIdentical true p.1 gs = (p.2, none) := by
  induction ts generalizing outs with
  | nil =>
    simp [repopulateLoop] at h
    subst h
    simp
  | cons t r ih =>
    unfold repopulateLoop at h
    split at h
    · simp at h
    · split at h
      · rename_i t' hi
        simp only [Prod.mk.injEq] at h
        obtain ⟨h1, h2⟩ := h
        subst h1
        obtain ⟨hl, hz⟩ := ih _ (Prod.ext rfl h2)
        refine ⟨by simp [hl], ?_⟩
        intro p hp
        simp only [List.zip_cons_cons, List.mem_cons] at hp
        rcases hp with rfl | hp
        · exact hi
        · exact hz p hp
      · simp at h

/-- groups accepted for every tree of the input: exit 0 -/
theorem repopulateLoop_accepts (gs : List (List String)) (ts : List T)
    (h : ∀ t ∈ ts, (tipIndex t).2 = true ∧ (insertIdentical true t gs).2 = none) :
    (repopulateLoop gs ts).2 = true := by
  induction ts with
  | nil => rfl
  | cons t r ih =>
    obtain ⟨h1, h2⟩ := h t (by simp)
    unfold repopulateLoop
    simp only [h1, Bool.not_true, Bool.false_eq_true, if_false]
    rcases hi : insertIdentical true t gs with ⟨t', _ | m⟩
    · simpa using ih (fun t ht => h t (List.mem_cons_of_mem _ ht))
    · rw [hi] at h2; simp at h2

end Gotree.C15
