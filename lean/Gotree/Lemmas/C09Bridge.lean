/-
  C09 — bridge between the vocabulary of the theorems (`C09.count`: naive table over
  the branch lists of the unrooted trees, bitsets up to complement) and the Spec the
  oracle evaluates (`C09S.count`: over `T.usplitsAll`, canonical sides).
-/
import Gotree.Lemmas.C09Invariance

namespace Gotree.C09
open Gotree

/-! ## sorted lists of names -/

theorem sortS_perm (l : List String) : (sortS l).Perm l := List.mergeSort_perm l _

theorem sortS_sorted (l : List String) : (sortS l).Pairwise (fun a b => decide (a ≤ b) = true) := by
  unfold sortS
  apply List.pairwise_mergeSort
  · intro a b c h1 h2
    simp only [decide_eq_true_eq] at h1 h2 ⊢
    exact String.le_trans h1 h2
  · intro a b
    simp only [Bool.or_eq_true, decide_eq_true_eq]
    exact String.le_total a b

/-- two lists without repetition and with the same elements have the same sorted form -/
theorem sortS_eq_of_mem {a b : List String} (ha : a.Nodup) (hb : b.Nodup) (h : ∀ x, x ∈ a ↔ x ∈ b) :
    sortS a = sortS b := by
  have hp : (sortS a).Perm (sortS b) :=
    (sortS_perm a).trans (((List.perm_ext_iff_of_nodup ha hb).2 h).trans (sortS_perm b).symm)
  apply List.Perm.eq_of_pairwise (le := fun a b => decide (a ≤ b) = true) _ (sortS_sorted a) (sortS_sorted b) hp
  intro x y _ _ h1 h2
  simp only [decide_eq_true_eq] at h1 h2
  exact String.le_antisymm h1 h2

theorem mem_sortS {l : List String} {x : String} : x ∈ sortS l ↔ x ∈ l := (sortS_perm l).mem_iff

/-! ## the least taxon -/

theorem foldl_min_spec : ∀ (r : List String) (a : String),
    let m := r.foldl (fun m x => if x < m then x else m) a
    (m = a ∨ m ∈ r) ∧ m ≤ a ∧ ∀ x ∈ r, m ≤ x
  | [], a => by simp
  | b :: r, a => by
    simp only [List.foldl_cons]
    have ih := foldl_min_spec r (if b < a then b else a)
    simp only at ih
    obtain ⟨i1, i2, i3⟩ := ih
    by_cases hba : b < a
    · simp only [hba, if_true] at i1 i2 i3 ⊢
      refine ⟨?_, ?_, ?_⟩
      · rcases i1 with h | h
        · exact Or.inr (by rw [h]; simp)
        · exact Or.inr (by simp [h])
      · exact String.le_trans i2 (String.not_lt.1 (String.lt_asymm hba))
      · intro x hx
        rcases List.mem_cons.1 hx with rfl | hx
        · exact i2
        · exact i3 x hx
    · simp only [hba, if_false] at i1 i2 i3 ⊢
      refine ⟨?_, i2, ?_⟩
      · rcases i1 with h | h
        · exact Or.inl h
        · exact Or.inr (by simp [h])
      · intro x hx
        rcases List.mem_cons.1 hx with rfl | hx
        · exact String.le_trans i2 (String.not_lt.1 hba)
        · exact i3 x hx

theorem minS_spec {l : List String} {m : String} (h : minS l = some m) : m ∈ l ∧ ∀ x ∈ l, m ≤ x := by
  cases l with
  | nil => simp [minS] at h
  | cons a r =>
    simp only [minS, Option.some.injEq] at h
    have := foldl_min_spec r a
    simp only at this
    rw [h] at this
    obtain ⟨i1, i2, i3⟩ := this
    refine ⟨?_, ?_⟩
    · rcases i1 with h1 | h1
      · simp [h1]
      · simp [h1]
    · intro x hx
      rcases List.mem_cons.1 hx with rfl | hx
      · exact i2
      · exact i3 x hx

theorem minS_ne_none {l : List String} (h : l ≠ []) : ∃ m, minS l = some m := by
  cases l with
  | nil => exact absurd rfl h
  | cons a r => exact ⟨_, rfl⟩

/-- the least taxon only depends on the set of taxa -/
theorem minS_of_mem {l l' : List String} {m m' : String} (h : ∀ x, x ∈ l ↔ x ∈ l')
    (hm : minS l = some m) (hm' : minS l' = some m') : m = m' := by
  obtain ⟨a1, a2⟩ := minS_spec hm
  obtain ⟨b1, b2⟩ := minS_spec hm'
  exact String.le_antisymm (a2 m' ((h m').2 b1)) (b2 m ((h m).1 a1))

/-! ## canonical sides -/

theorem mem_complS {all side : List String} {x : String} : x ∈ complS all side ↔ x ∈ all ∧ ¬ x ∈ side := by
  unfold complS; simp [List.mem_filter]

/-- `canonSide` written with membership tests on the side itself -/
theorem canonSide_eq (all X : List String) (m : String) (hm : minS all = some m) (hmall : m ∈ all) :
    canonSide all X = if m ∈ X then sortS (complS all (sortS (X.filter all.contains)))
      else sortS (X.filter all.contains) := by
  unfold canonSide
  simp only [hm]
  have : (sortS (X.filter all.contains)).contains m = decide (m ∈ X) := by
    rw [Bool.eq_iff_iff]
    simp only [List.contains_eq_mem, decide_eq_true_eq, mem_sortS, List.mem_filter]
    exact ⟨fun h => h.1, fun h => ⟨h, hmall⟩⟩
  rw [this]
  by_cases h : m ∈ X <;> simp [h]

/-- two sides have the same canonical form iff they are sides of the same bipartition -/
theorem canonSide_eq_iff (all all' X Y : List String) (hall : all.Nodup) (hall' : all'.Nodup)
    (hmem : ∀ x, x ∈ all ↔ x ∈ all') (hne : all ≠ []) (hX : X.Nodup) (hY : Y.Nodup) :
    canonSide all X = canonSide all' Y ↔ SameSide all X Y := by
  obtain ⟨m, hm⟩ := minS_ne_none hne
  have hne' : all' ≠ [] := by
    intro h
    obtain ⟨x, hx⟩ := List.exists_mem_of_ne_nil _ hne
    have := (hmem x).1 hx
    rw [h] at this; cases this
  obtain ⟨m', hm'⟩ := minS_ne_none hne'
  have hmm : m = m' := minS_of_mem hmem hm hm'
  subst hmm
  have hmall := (minS_spec hm).1
  have hmall' := (minS_spec hm').1
  rw [canonSide_eq all X m hm hmall, canonSide_eq all' Y m hm' hmall']
  -- members of the four candidate lists
  have mX : ∀ x, x ∈ sortS (X.filter all.contains) ↔ x ∈ X ∧ x ∈ all := fun x => by
    rw [mem_sortS, List.mem_filter]; simp
  have mY : ∀ x, x ∈ sortS (Y.filter all'.contains) ↔ x ∈ Y ∧ x ∈ all := fun x => by
    rw [mem_sortS, List.mem_filter]; simp [hmem]
  have mXc : ∀ x, x ∈ sortS (complS all (sortS (X.filter all.contains))) ↔ x ∈ all ∧ ¬ x ∈ X := fun x => by
    rw [mem_sortS, mem_complS, mX]
    exact ⟨fun ⟨h1, h2⟩ => ⟨h1, fun hx => h2 ⟨hx, h1⟩⟩, fun ⟨h1, h2⟩ => ⟨h1, fun hx => h2 hx.1⟩⟩
  have mYc : ∀ x, x ∈ sortS (complS all' (sortS (Y.filter all'.contains))) ↔ x ∈ all ∧ ¬ x ∈ Y := fun x => by
    rw [mem_sortS, mem_complS, mY, ← hmem]
    exact ⟨fun ⟨h1, h2⟩ => ⟨h1, fun hx => h2 ⟨hx, h1⟩⟩, fun ⟨h1, h2⟩ => ⟨h1, fun hx => h2 hx.1⟩⟩
  have ndX : (sortS (X.filter all.contains)).Nodup := (sortS_perm _).nodup_iff.2 (hX.filter _)
  have ndY : (sortS (Y.filter all'.contains)).Nodup := (sortS_perm _).nodup_iff.2 (hY.filter _)
  have ndXc : (sortS (complS all (sortS (X.filter all.contains)))).Nodup :=
    (sortS_perm _).nodup_iff.2 (hall.filter _)
  have ndYc : (sortS (complS all' (sortS (Y.filter all'.contains)))).Nodup :=
    (sortS_perm _).nodup_iff.2 (hall'.filter _)
  -- sorted lists are equal iff they have the same members
  have key : ∀ {a b : List String}, a.Nodup → b.Nodup → a.Pairwise (fun a b => decide (a ≤ b) = true) →
      b.Pairwise (fun a b => decide (a ≤ b) = true) → (a = b ↔ ∀ x, x ∈ a ↔ x ∈ b) := by
    intro a b ha hb sa sb
    constructor
    · intro h x; rw [h]
    · intro h
      apply List.Perm.eq_of_pairwise (le := fun a b => decide (a ≤ b) = true) _ sa sb
        ((List.perm_ext_iff_of_nodup ha hb).2 h)
      intro x y _ _ h1 h2
      simp only [decide_eq_true_eq] at h1 h2
      exact String.le_antisymm h1 h2
  by_cases h1 : m ∈ X <;> by_cases h2 : m ∈ Y
  · simp only [h1, h2, if_true]
    rw [key ndXc ndYc (sortS_sorted _) (sortS_sorted _)]
    constructor
    · intro h
      left
      intro a ha
      have := h a
      rw [mXc, mYc] at this
      constructor
      · intro hx; apply Classical.byContradiction; intro hy; exact (this.2 ⟨ha, hy⟩).2 hx
      · intro hy; apply Classical.byContradiction; intro hx; exact (this.1 ⟨ha, hx⟩).2 hy
    · rintro (h | h)
      · intro x; rw [mXc, mYc]
        exact ⟨fun ⟨ha, hx⟩ => ⟨ha, fun hy => hx ((h x ha).2 hy)⟩, fun ⟨ha, hy⟩ => ⟨ha, fun hx => hy ((h x ha).1 hx)⟩⟩
      · exact absurd h2 ((h m hmall).1 h1)
  · simp only [h1, h2, if_true, if_false]
    rw [key ndXc ndY (sortS_sorted _) (sortS_sorted _)]
    constructor
    · intro h
      right
      intro a ha
      have := h a
      rw [mXc, mY] at this
      constructor
      · intro hx hy; exact (this.2 ⟨hy, ha⟩).2 hx
      · intro hy; apply Classical.byContradiction; intro hx; exact hy (this.1 ⟨ha, hx⟩).1
    · rintro (h | h)
      · exact absurd ((h m hmall).1 h1) h2
      · intro x; rw [mXc, mY]
        exact ⟨fun ⟨ha, hx⟩ => ⟨by
          apply Classical.byContradiction; intro hy; exact hx ((h x ha).2 hy), ha⟩,
          fun ⟨hy, ha⟩ => ⟨ha, fun hx => (h x ha).1 hx hy⟩⟩
  · simp only [h1, h2, if_true, if_false]
    rw [key ndX ndYc (sortS_sorted _) (sortS_sorted _)]
    constructor
    · intro h
      right
      intro a ha
      have := h a
      rw [mX, mYc] at this
      constructor
      · intro hx; exact (this.1 ⟨hx, ha⟩).2
      · intro hy; exact (this.2 ⟨ha, hy⟩).1
    · rintro (h | h)
      · exact absurd ((h m hmall).2 h2) h1
      · intro x; rw [mX, mYc]
        exact ⟨fun ⟨hx, ha⟩ => ⟨ha, (h x ha).1 hx⟩, fun ⟨ha, hy⟩ => ⟨(h x ha).2 hy, ha⟩⟩
  · simp only [h1, h2, if_false]
    rw [key ndX ndY (sortS_sorted _) (sortS_sorted _)]
    constructor
    · intro h
      left
      intro a ha
      have := h a
      rw [mX, mY] at this
      exact ⟨fun hx => (this.1 ⟨hx, ha⟩).1, fun hy => (this.2 ⟨hy, ha⟩).1⟩
    · rintro (h | h)
      · intro x; rw [mX, mY]
        exact ⟨fun ⟨hx, ha⟩ => ⟨(h x ha).1 hx, ha⟩, fun ⟨hy, ha⟩ => ⟨(h x ha).2 hy, ha⟩⟩
      · exact absurd ((h m hmall).2 h2) h1

/-! ## the sides stored in `T.usplitsAll` -/

theorem mem_sides_insertU (s : USplit) : ∀ (l : List USplit) (c : List String),
    c ∈ (insertU s l).map (·.side) ↔ c = s.side ∨ c ∈ l.map (·.side)
  | [], c => by simp [insertU]
  | x :: r, c => by
    unfold insertU
    by_cases h : (x.side == s.side) = true
    · have hx : x.side = s.side := by simpa using h
      simp only [h, if_true, List.map_cons, List.mem_cons]
      constructor
      · rintro (h1 | h1)
        · exact Or.inl (h1.trans hx)
        · exact Or.inr (Or.inr h1)
      · rintro (h1 | h1 | h1)
        · exact Or.inl (h1.trans hx.symm)
        · exact Or.inl h1
        · exact Or.inr h1
    · simp only [h, Bool.false_eq_true, if_false, List.map_cons, List.mem_cons, mem_sides_insertU s r c]
      constructor
      · rintro (h1 | h1 | h1)
        · exact Or.inr (Or.inl h1)
        · exact Or.inl h1
        · exact Or.inr (Or.inr h1)
      · rintro (h1 | h1 | h1)
        · exact Or.inr (Or.inl h1)
        · exact Or.inl h1
        · exact Or.inr (Or.inr h1)

theorem mem_sides_foldl (all : List String) : ∀ (L : List SplitE) (acc : List USplit) (c : List String),
    c ∈ (L.foldl (fun acc s => insertU ⟨canonSide all s.below, s.e.len, s.e.sup⟩ acc) acc).map (·.side) ↔
      (∃ s ∈ L, canonSide all s.below = c) ∨ c ∈ acc.map (·.side)
  | [], acc, c => by simp
  | s :: L, acc, c => by
    rw [List.foldl_cons, mem_sides_foldl all L _ c, mem_sides_insertU]
    constructor
    · rintro (⟨s', hs', h⟩ | h | h)
      · exact Or.inl ⟨s', by simp [hs'], h⟩
      · exact Or.inl ⟨s, by simp, h.symm⟩
      · exact Or.inr h
    · rintro (⟨s', hs', h⟩ | h)
      · rcases List.mem_cons.1 hs' with rfl | hs'
        · exact Or.inr (Or.inl h.symm)
        · exact Or.inl ⟨s', hs', h⟩
      · exact Or.inr (Or.inr h)

/-- a canonical side is in `usplitsAll` iff some branch of the tree has it -/
theorem usplitsAll_any (t : T) (c : List String) :
    t.usplitsAll.any (·.side == c) = true ↔ ∃ s ∈ t.splits, canonSide t.tipNames s.below = c := by
  unfold T.usplitsAll
  simp only [List.any_eq_true, beq_iff_eq]
  have hm : ∀ (l : List USplit), (∃ x ∈ l.mergeSort (fun a b => decide (toString a.side ≤ toString b.side)), x.side = c) ↔
      c ∈ l.map (·.side) := by
    intro l
    simp only [List.mem_map]
    constructor
    · rintro ⟨x, hx, h⟩; exact ⟨x, (List.mergeSort_perm l _).mem_iff.1 hx, h⟩
    · rintro ⟨x, hx, h⟩; exact ⟨x, (List.mergeSort_perm l _).mem_iff.2 hx, h⟩
  rw [hm, mem_sides_foldl]
  simp

/-! ## `unroot` and the bipartitions of a tree -/

/-- some branch of the list has the bipartition `k | tips \ k` -/
def HasBip (tips : List String) (L : List SplitE) (k : List String) : Prop :=
  ∃ s ∈ L, SameSide tips s.below k

theorem unroot_of_ne2 (t : T) (h : t.kids.length ≠ 2) : unroot t = t := by
  cases t with
  | node d p k =>
    match k, h with
    | [], _ => rfl
    | [(_, .node _ _ _)], _ => rfl
    | (_, .node _ _ _) :: (_, .node _ _ _) :: _ :: _, _ => rfl

theorem hasBip_unroot (t : T) (k : List String) (hnd : t.tipNames.Nodup) :
    HasBip t.tipNames t.splits k ↔ HasBip t.tipNames (unroot t).splits k := by
  by_cases h2 : t.kids.length = 2
  · cases t with
    | node d p kids =>
      match kids, h2 with
      | [(e1, .node d1 p1 k1), (e2, .node d2 p2 k2)], _ =>
        have htn : (T.node d p [(e1, .node d1 p1 k1), (e2, .node d2 p2 k2)]).tipNames =
            (T.node d1 p1 k1).leaves ++ (T.node d2 p2 k2).leaves := by
          simp [T.tipNames, leavesL]
        rw [htn] at hnd ⊢
        have hnd' := List.nodup_append.1 hnd
        -- the two root branches are the two sides of one bipartition
        have hcomp : SameSide ((T.node d1 p1 k1).leaves ++ (T.node d2 p2 k2).leaves)
            (T.node d2 p2 k2).leaves (T.node d1 p1 k1).leaves := by
          right
          intro a ha
          constructor
          · intro h2 h1; exact hnd'.2.2 a h1 a h2 rfl
          · intro h1
            rcases List.mem_append.1 ha with h | h
            · exact absurd h h1
            · exact h
        have hsp : (T.node d p [(e1, .node d1 p1 k1), (e2, .node d2 p2 k2)]).splits =
            (⟨(T.node d1 p1 k1).leaves, e1, (T.node d1 p1 k1).isLeaf⟩ :: splitsL k1) ++
            (⟨(T.node d2 p2 k2).leaves, e2, (T.node d2 p2 k2).isLeaf⟩ :: splitsL k2) := by
          simp [T.splits, splitsL, T.splitsBelow]
        rw [hsp]
        by_cases hk1 : k1 = []
        · subst hk1
          have hun : (unroot (T.node d p [(e1, .node d1 p1 []), (e2, .node d2 p2 k2)])).splits =
              splitsL k2 ++ [⟨(T.node d1 p1 []).leaves, ⟨if e1.len != NIL || e2.len != NIL then max0 e1.len + max0 e2.len else NIL,
                NIL, NIL, [], -1⟩, true⟩] := by
            simp [unroot, T.splits, splitsL_append, splitsL, T.leaves, T.isLeaf, T.splitsBelow]
          rw [hun]
          have hs0 : splitsL ([] : Kids) = [] := rfl
          rw [hs0]
          constructor
          · rintro ⟨s, hs, hss⟩
            rcases List.mem_append.1 hs with h | h
            · have h' : s = ⟨(T.node d1 p1 []).leaves, e1, (T.node d1 p1 []).isLeaf⟩ := by simpa using h
              subst h'
              exact ⟨_, List.mem_append_right _ (List.mem_singleton.2 rfl), hss⟩
            · rcases List.mem_cons.1 h with rfl | h
              · exact ⟨_, List.mem_append_right _ (List.mem_singleton.2 rfl), (hcomp.symm').trans' hss⟩
              · exact ⟨s, List.mem_append_left _ h, hss⟩
          · rintro ⟨s, hs, hss⟩
            rcases List.mem_append.1 hs with h | h
            · exact ⟨s, List.mem_append_right _ (List.mem_cons_of_mem _ h), hss⟩
            · simp only [List.mem_singleton] at h; subst h
              exact ⟨_, List.mem_append_left _ List.mem_cons_self, hss⟩
        · have hne : k1.isEmpty = false := by
            cases k1 with
            | nil => exact absurd rfl hk1
            | cons _ _ => rfl
          have hun : (unroot (T.node d p [(e1, .node d1 p1 k1), (e2, .node d2 p2 k2)])).splits =
              splitsL k1 ++ (⟨(T.node d2 p2 k2).leaves,
                ⟨if e1.len != NIL || e2.len != NIL then max0 e1.len + max0 e2.len else NIL,
                 if !k1.isEmpty && !k2.isEmpty && (e1.sup != NIL || e2.sup != NIL)
                   then maxR (max0 e1.sup) (max0 e2.sup) else NIL, NIL, [], -1⟩,
                (T.node d2 p2 k2).isLeaf⟩ :: splitsL k2) := by
            simp only [unroot, hne, Bool.false_eq_true, if_false, T.splits, T.kids_node, splitsL_append,
              splitsBelow_node, splitsL, List.append_nil]
            congr 2
            cases k2 <;> rfl
          rw [hun]
          constructor
          · rintro ⟨s, hs, hss⟩
            rcases List.mem_append.1 hs with h | h
            · rcases List.mem_cons.1 h with rfl | h
              · exact ⟨_, List.mem_append_right _ List.mem_cons_self, hcomp.trans' hss⟩
              · exact ⟨s, List.mem_append_left _ h, hss⟩
            · rcases List.mem_cons.1 h with rfl | h
              · exact ⟨_, List.mem_append_right _ List.mem_cons_self, hss⟩
              · exact ⟨s, List.mem_append_right _ (List.mem_cons_of_mem _ h), hss⟩
          · rintro ⟨s, hs, hss⟩
            rcases List.mem_append.1 hs with h | h
            · exact ⟨s, List.mem_append_left _ (List.mem_cons_of_mem _ h), hss⟩
            · rcases List.mem_cons.1 h with rfl | h
              · exact ⟨_, List.mem_append_right _ List.mem_cons_self, hss⟩
              · exact ⟨s, List.mem_append_right _ (List.mem_cons_of_mem _ h), hss⟩
  · rw [unroot_of_ne2 t h2]

/-! ## bitsets and sides -/

theorem eqc_bits_iff (univ k b : List String) : Eqc univ (bits univ k) (bits univ b) ↔ SameSide univ b k := by
  constructor
  · rintro (h | h)
    · left
      intro a ha
      have h1 : a ∈ bits univ k ↔ a ∈ bits univ b := by rw [h]
      rw [mem_bits, mem_bits] at h1
      exact ⟨fun hb => (h1.2 ⟨ha, hb⟩).2, fun hk => (h1.1 ⟨ha, hk⟩).2⟩
    · right
      intro a ha
      have h1 : a ∈ bits univ k ↔ a ∈ compl univ (bits univ b) := by rw [h]
      rw [mem_bits, mem_compl, mem_bits] at h1
      constructor
      · intro hb hk
        exact (h1.1 ⟨ha, hk⟩).2 ⟨ha, hb⟩
      · intro hnk
        apply Classical.byContradiction
        intro hnb
        exact hnk (h1.2 ⟨ha, fun h => hnb h.2⟩).2
  · rintro (h | h)
    · left
      unfold bits
      apply List.filter_congr
      intro a ha
      rw [Bool.eq_iff_iff]
      simp only [List.contains_eq_mem, decide_eq_true_eq]
      exact (h a ha).symm
    · apply bits_compl
      intro a ha
      constructor
      · intro hk hb; exact (h a ha).1 hb hk
      · intro hnb
        apply Classical.byContradiction
        intro hnk
        exact hnb ((h a ha).2 hnk)

theorem hasSplit_iff (univ : List String) (u : T) (key : List String) :
    hasSplit univ u key = true ↔ ∃ s ∈ u.splits, Eqc univ key (bits univ s.below) := by
  unfold hasSplit edgeKeys
  simp only [List.any_eq_true, List.mem_map]
  constructor
  · rintro ⟨kl, ⟨s, hs, rfl⟩, h⟩; exact ⟨s, hs, (eqc_iff _ _ _).1 h⟩
  · rintro ⟨s, hs, h⟩; exact ⟨_, ⟨s, hs, rfl⟩, (eqc_iff _ _ _).2 h⟩

theorem leavesL_nodup_of_tipNames {t : T} (h : t.tipNames.Nodup) : (leavesL t.kids).Nodup := by
  unfold T.tipNames at h
  exact (List.nodup_append.1 h).2.1

/-- one tree: the Spec's test "the canonical side is in `usplitsAll`" is the model's
    test "some branch of the unrooted tree has that bitset up to complement" -/
theorem spec_has_iff (univ taxa : List String) (t : T) (k : List String)
    (hk : k.Nodup) (hnd : t.tipNames.Nodup) (hne : t.tipNames ≠ []) (htaxa : taxa.Nodup)
    (hmem : ∀ x, x ∈ t.tipNames ↔ x ∈ taxa) (hut : ∀ a, a ∈ univ ↔ a ∈ taxa) :
    t.usplitsAll.any (·.side == canonSide taxa k) = hasSplit univ (unroot t) (bits univ k) := by
  rw [Bool.eq_iff_iff, usplitsAll_any, hasSplit_iff]
  have hmu : ∀ a, a ∈ t.tipNames ↔ a ∈ univ := fun a => (hmem a).trans (hut a).symm
  have h1 : (∃ s ∈ t.splits, canonSide t.tipNames s.below = canonSide taxa k) ↔ HasBip t.tipNames t.splits k := by
    unfold HasBip
    constructor
    · rintro ⟨s, hs, h⟩
      refine ⟨s, hs, ?_⟩
      have hsnd : s.below.Nodup := (below_sublist_L t.kids s hs).nodup (leavesL_nodup_of_tipNames hnd)
      exact (canonSide_eq_iff t.tipNames taxa s.below k hnd htaxa hmem hne hsnd hk).1 h
    · rintro ⟨s, hs, h⟩
      refine ⟨s, hs, ?_⟩
      have hsnd : s.below.Nodup := (below_sublist_L t.kids s hs).nodup (leavesL_nodup_of_tipNames hnd)
      exact (canonSide_eq_iff t.tipNames taxa s.below k hnd htaxa hmem hne hsnd hk).2 h
  rw [h1, hasBip_unroot t k hnd]
  unfold HasBip
  constructor
  · rintro ⟨s, hs, h⟩
    exact ⟨s, hs, (eqc_bits_iff univ k s.below).2 (SameSide.of_mem_iff hmu h)⟩
  · rintro ⟨s, hs, h⟩
    exact ⟨s, hs, SameSide.of_mem_iff (fun a => (hmu a).symm) ((eqc_bits_iff univ k s.below).1 h)⟩

/-- the Spec's count of a canonical side is the model's count of the bitset -/
theorem spec_count_eq (ts : List T) (k : List String) (hk : k.Nodup)
    (hnd : ∀ t ∈ ts, t.tipNames.Nodup) (hne : ∀ t ∈ ts, t.tipNames ≠ [])
    (hmem : ∀ t ∈ ts, ∀ x, x ∈ t.tipNames ↔ x ∈ C09S.taxa ts)
    (hut : ∀ a, a ∈ univOf ts ↔ a ∈ C09S.taxa ts) (htaxa : (C09S.taxa ts).Nodup)
    (hns : ∀ t ∈ ts, okBelowL t.kids = true) :
    C09S.count ts (canonSide (C09S.taxa ts) k) = count ts (bits (univOf ts) k) := by
  unfold C09S.count count countM trees
  rw [← List.countP_eq_length_filter, List.countP_map]
  apply List.countP_congr
  intro t ht
  have := spec_has_iff (univOf ts) (C09S.taxa ts) t k hk (hnd t ht) (hne t ht) htaxa (hmem t ht) hut
  simp only [Function.comp, norm_of_noSingles t (hns t ht)]
  rw [this]

/-! ## the hypotheses of the bridge from the domain -/

theorem unroot_tipNames_perm (t : T) (h3 : 3 ≤ (unroot t).kids.length) : (unroot t).tipNames.Perm t.tipNames := by
  by_cases h2 : t.kids.length = 2
  · cases t with
    | node d p kids =>
      match kids, h2 with
      | [(e1, .node d1 p1 k1), (e2, .node d2 p2 k2)], _ =>
        have htn : (T.node d p [(e1, .node d1 p1 k1), (e2, .node d2 p2 k2)]).tipNames =
            (T.node d1 p1 k1).leaves ++ (T.node d2 p2 k2).leaves := by
          simp [T.tipNames, leavesL]
        rw [htn]
        by_cases hk1 : k1 = []
        · subst hk1
          have hun : unroot (T.node d p [(e1, .node d1 p1 []), (e2, .node d2 p2 k2)]) =
              .node d2 0 (k2 ++ [(⟨if e1.len != NIL || e2.len != NIL then max0 e1.len + max0 e2.len else NIL,
                NIL, NIL, [], -1⟩, .node d1 0 [])]) := by
            simp [unroot]
          rw [hun] at h3 ⊢
          simp only [T.kids_node, List.length_append, List.length_cons, List.length_nil] at h3
          have hk2 : k2 ≠ [] := by intro h; rw [h] at h3; simp at h3
          rw [tipNames_eq_leaves _ (by simp only [T.kids_node, List.length_append, List.length_cons, List.length_nil]; omega)]
          simp only [T.kids_node, leavesL_append, leavesL_cons, leaves_node_ne _ _ _ hk2]
          simp only [T.leaves, leavesL, List.append_nil]
          exact List.perm_append_comm
        · have hne : k1.isEmpty = false := by
            cases k1 with
            | nil => exact absurd rfl hk1
            | cons _ _ => rfl
          have hun : ∃ e3, unroot (T.node d p [(e1, .node d1 p1 k1), (e2, .node d2 p2 k2)]) =
              .node d1 0 (k1 ++ [(e3, .node d2 k2.length k2)]) := by
            refine ⟨⟨if e1.len != NIL || e2.len != NIL then max0 e1.len + max0 e2.len else NIL,
              if !k1.isEmpty && !k2.isEmpty && (e1.sup != NIL || e2.sup != NIL)
                then maxR (max0 e1.sup) (max0 e2.sup) else NIL, NIL, [], -1⟩, ?_⟩
            simp only [unroot, hne, Bool.false_eq_true, if_false]
          obtain ⟨e3, hun⟩ := hun
          rw [hun] at h3 ⊢
          rw [tipNames_eq_leaves _ (by simp only [T.kids_node] at h3 ⊢; omega)]
          simp only [T.kids_node, leavesL_append, leavesL_cons, leaves_node_ne _ _ _ hk1]
          have : (T.node d2 k2.length k2).leaves = (T.node d2 p2 k2).leaves := by cases k2 <;> rfl
          rw [this]
          simp [leavesL]
  · rw [unroot_of_ne2 t h2]

/-- for a collection of the domain the hypotheses of `spec_count_eq` hold -/
theorem bridge_hyps (ts : List T) (hd : Dom ts) (hns : ∀ t ∈ ts, okBelowL t.kids = true) :
    (∀ t ∈ ts, t.tipNames.Nodup) ∧ (∀ t ∈ ts, t.tipNames ≠ []) ∧
    (∀ t ∈ ts, ∀ x, x ∈ t.tipNames ↔ x ∈ C09S.taxa ts) ∧
    (∀ a, a ∈ univOf ts ↔ a ∈ C09S.taxa ts) ∧ (C09S.taxa ts).Nodup := by
  obtain ⟨t0, r, rfl⟩ : ∃ t0 r, ts = t0 :: r := by
    cases ts with
    | nil => exact absurd rfl hd.ne
    | cons a b => exact ⟨a, b, rfl⟩
  have hu : ∀ t ∈ t0 :: r, unroot t ∈ trees (t0 :: r) := fun t ht =>
    List.mem_map.2 ⟨t, ht, norm_of_noSingles t (hns t ht)⟩
  have hperm : ∀ t ∈ t0 :: r, (unroot t).tipNames.Perm t.tipNames :=
    fun t ht => unroot_tipNames_perm t (hd.deg _ (hu t ht))
  have hutn : ∀ t ∈ t0 :: r, (unroot t).tipNames = leavesL (unroot t).kids := fun t ht =>
    tipNames_eq_leaves _ (by have := hd.deg _ (hu t ht); omega)
  have hnd : ∀ t ∈ t0 :: r, t.tipNames.Nodup := fun t ht =>
    (hperm t ht).nodup_iff.1 (by rw [hutn t ht]; exact hd.nodup _ (hu t ht))
  have hmem0 : ∀ t ∈ t0 :: r, ∀ x, x ∈ t.tipNames ↔ x ∈ leavesL (unroot t0).kids := fun t ht x => by
    rw [← (hperm t ht).mem_iff, hutn t ht]
    have h0 : norm (t0 :: r).head! = unroot t0 := norm_of_noSingles t0 (hns t0 (by simp))
    rw [← h0]
    exact (hd.same _ (hu t ht)).mem_iff
  have htaxa : ∀ x, x ∈ C09S.taxa (t0 :: r) ↔ x ∈ leavesL (unroot t0).kids := hmem0 t0 (by simp)
  refine ⟨hnd, ?_, ?_, ?_, hnd t0 (by simp)⟩
  · intro t ht h
    have h3 := hd.deg _ (hu t ht)
    have hl := leavesL_len (unroot t).kids
    have : (leavesL (unroot t).kids).length = 0 := by
      rw [← hutn t ht, (hperm t ht).length_eq, h]; rfl
    omega
  · intro t ht x
    rw [hmem0 t ht, htaxa]
  · intro a
    show a ∈ sortN (norm t0).tipNames ↔ _
    rw [norm_of_noSingles t0 (hns t0 (by simp)), (sortN_perm _).mem_iff, hutn t0 (by simp), htaxa]

end Gotree.C09
