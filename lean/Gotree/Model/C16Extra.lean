/-
  C16 — the remaining constructors of `tree/treegen.go`: StarTreeFromName, StarTreeFromTree,
  BipartitionTree, EdgeTree (the last one on an indexed tree and one of its branches).
  Core Lean only.
-/
import Gotree.Model.C16

namespace Gotree.C16
open Gotree

/-- a star whose root carries the given (length, name) pairs, in this order -/
def starOf (l : List (Rat × String)) : T :=
  .node newNodeD 0 (l.map fun x => (newEdge x.1, T.leaf x.2))

/-- the final `ReinitIndexes` whose error IS returned (StarTreeFromTree, BipartitionTree) -/
def finishChecked (t : T) : Res Out :=
  match updateTipIndex t with
  | none => .err "Cannot create a tip index when several tips have the same name"
  | some ix => .ok ⟨t, some ix⟩

/-- `StarTreeFromName(names...)`: `StarTree(len(names))`, then the tips are renamed in `Tips()` order
    and `ReinitIndexes` is called again, its error ignored -/
def starFromNames (names : List String) : Res Out :=
  if names.length < 2 then .err errStar
  else .ok (finishOut (starOf (names.map fun x => (1, x))))

/-- `StarTreeFromTree(t)`: one tip per terminal branch of `t` (`TipEdges()` order), with its name
    and length; the error of the final `ReinitIndexes` is returned -/
def starFromTree (t : T) : Res Out :=
  let tes := t.splits.filter (·.tip)
  if tes.length < 2 then .err errStar
  else finishChecked (starOf (tes.map fun s => (s.e.len, s.below.headD "")))

def errBipLen : String := "Left and Right tip sets must have length > 1"
def errBipCommon : String := "One or more tips are common between left set and right set"

/-- the tree with a single inner branch: root `n2` carries the inner node `n` (first neighbour) and
    the left tips, `n` carries the right tips; all lengths 1 -/
def twoStar (left right : List String) : T :=
  .node newNodeD 0 ((newEdge 1, .node newNodeD 0 (right.map fun x => (newEdge 1, T.leaf x))) ::
    left.map fun x => (newEdge 1, T.leaf x))

/-- `BipartitionTree(leftTips, rightTips)` -/
def bipartitionTree (left right : List String) : Res Out :=
  if left.length ≤ 1 || right.length ≤ 1 then .err errBipLen
  else if right.any left.contains then .err errBipCommon
  else finishChecked (twoStar left right)

/-- `EdgeTree(t, e, nil)` for the `k`-th branch of an indexed tree `t` with unique tip names: the tips
    whose bit is set in the bitset of `e` (those below it) go to the right, the others to the left,
    both in `AllTipNames()` order; `ReinitIndexes` at the end, error ignored -/
def edgeTree (t : T) (k : Nat) : Res Out :=
  match t.splits[k]? with
  | none => .panic "no such branch"
  | some s =>
    let all := t.tipNames
    .ok (finishOut (twoStar (all.filter fun x => !s.below.contains x) (all.filter fun x => s.below.contains x)))

end Gotree.C16
