/-
  C15 — `InsertIdenticalTips` as a whole: the invariant carried over the insertions.
  Core Lean only.
-/
import Gotree.Lemmas.C15Insert

namespace Gotree.C15
open Gotree Gotree.C14

theorem insertOne_ok {t t' : T} {tips : List String} {old new : String} (h : insertOne t tips old new = .ok t') :
    new ∉ tips ∧ ∃ k', insKids (t.kids.length == 1) old new t.kids = some k' ∧ t' = .node t.d t.ppos k' := by
  unfold insertOne at h
  split at h
  · cases h
  · rename_i hc
    split at h
    · rename_i k hk
      injection h with h
      exact ⟨by simpa using hc, k, hk, h.symm⟩
    · cases h

/-- what one insertion does, under the invariant -/
structure Step (t t' : T) (old new : String) : Prop where
  out : ∀ a b, a ≠ new → b ≠ new → t'.dist a b = t.dist a b
  twin : ∀ x, x ≠ new → t'.dist new x = t.dist old x
  perm : t'.tipNames.Perm (new :: t.tipNames)
  old_mem : old ∈ t.tipNames

theorem insertOne_step {t t' : T} {tips : List String} {old new : String} (h : insertOne t tips old new = .ok t')
    (hu : t.tipNames.Nodup) (hsub : ∀ x ∈ t.tipNames, x ∈ tips) : Step t t' old new := by
  obtain ⟨hnew, k', hk, rfl⟩ := insertOne_ok h
  have hnt : new ∉ t.tipNames := fun hx => hnew (hsub _ hx)
  have hnl : new ∉ leavesL t.kids := fun hx => hnt (by rw [tipNames_def]; exact List.mem_append_right _ hx)
  have hul : (leavesL t.kids).Nodup := by rw [tipNames_def] at hu; exact (List.nodup_append.mp hu).2.1
  have hold : old ∈ leavesL t.kids := insKids_old_mem _ _ hk
  have hperm := insKids_perm _ _ hk
  have hlen : (leavesL k').length = (leavesL t.kids).length + 1 := by simpa using hperm.length_eq
  have hpos : 0 < (leavesL t.kids).length := List.length_pos_of_mem hold
  have hge := insKids_length_ge hk
  have hk0 : t.kids ≠ [] := (insKids_ne hk).1
  have hk0' : 0 < t.kids.length := by
    cases hh : t.kids with
    | nil => exact absurd hh hk0
    | cons a b => simp
  refine ⟨fun a b ha hb => insKids_dist_out _ _ hk a b ha hb, fun x hx => insKids_dist_new _ _ hk hul hnl x hx, ?_,
    by rw [tipNames_def]; exact List.mem_append_right _ hold⟩
  simp only [T.tipNames, T.kids_node, T.name, T.d_node]
  by_cases h1 : t.kids.length = 1
  · match hkk : t.kids, h1 with
    | [(e, c)], _ =>
      rw [hkk] at hk hperm
      have hk' : insKids true old new [(e, c)] = some k' := by simpa using hk
      have := insKids_length hk'
      simp only [this, List.length_cons, List.length_nil, beq_self_eq_true, if_true, List.singleton_append]
      exact (hperm.cons _).trans (List.Perm.swap _ _ _)
  · have h2 : k'.length ≠ 1 := by omega
    simp only [beq_iff_eq, h1, h2, if_false, List.nil_append]
    exact hperm

/-! ### the scan of one group -/

theorem scanGroup_spec (tips : List String) : ∀ (r : List String) (old : String) (news : List String) (o : String) (ns : List String),
    "" ∉ r → scanGroup tips r old news = .ok (o, ns) →
    (old ≠ "" → o = old) ∧ (old = "" → o ∈ r ∧ o ∈ tips) ∧
    ∃ add, ns = news ++ add ∧ (∀ x ∈ add, x ∈ r ∧ x ∉ tips) ∧ ∀ x ∈ r, x = o ∨ x ∈ add
  | [], old, news, o, ns, _, h => by
    simp only [scanGroup] at h
    split at h
    · cases h
    · rename_i hne
      injection h with h
      injection h with h1 h2
      refine ⟨fun _ => h1.symm, fun h0 => absurd (by simp [h0]) hne, [], by simp [h2], by simp, by simp⟩
  | name :: r, old, news, o, ns, hr, h => by
    have hname : name ≠ "" := fun h0 => hr (by simp [h0])
    have hr' : "" ∉ r := fun h0 => hr (by simp [h0])
    simp only [scanGroup] at h
    split at h
    · rename_i hc
      simp only [Bool.and_eq_true, beq_iff_eq, List.contains_eq_mem, decide_eq_true_eq] at hc
      obtain ⟨h1, h2, add, ha, hb, hc'⟩ := scanGroup_spec tips r name news o ns hr' h
      have ho := h1 hname
      refine ⟨fun hne => absurd hc.2 hne, fun _ => ⟨by simp [ho], by rw [ho]; exact hc.1⟩, add, ha,
        fun x hx => ⟨List.mem_cons_of_mem _ (hb x hx).1, (hb x hx).2⟩, fun x hx => ?_⟩
      rcases List.mem_cons.mp hx with rfl | hx
      · exact Or.inl ho.symm
      · exact hc' x hx
    · rename_i hc
      split at h
      · cases h
      · rename_i hc2
        have hnt : name ∉ tips := by
          intro hin
          by_cases ho : old = ""
          · exact hc (by simp [hin, ho])
          · exact hc2 (by simp [hin, ho])
        obtain ⟨h1, h2, add, ha, hb, hc'⟩ := scanGroup_spec tips r old (news ++ [name]) o ns hr' h
        refine ⟨h1, fun h0 => ⟨List.mem_cons_of_mem _ (h2 h0).1, (h2 h0).2⟩, name :: add, by simp [ha], fun x hx => ?_, fun x hx => ?_⟩
        · rcases List.mem_cons.mp hx with rfl | hx
          · exact ⟨by simp, hnt⟩
          · exact ⟨List.mem_cons_of_mem _ (hb x hx).1, (hb x hx).2⟩
        · rcases List.mem_cons.mp hx with rfl | hx
          · exact Or.inr (by simp)
          · rcases hc' x hx with h | h
            · exact Or.inl h
            · exact Or.inr (List.mem_cons_of_mem _ h)

/-! ### the invariant -/

structure Inv (t0 t : T) (tips : List String) (A : List String) (Z : List (List String)) : Prop where
  nodup : t.tipNames.Nodup
  tips_iff : ∀ x, x ∈ tips ↔ x ∈ t.tipNames
  keep : ∀ a ∈ t0.tipNames, ∀ b ∈ t0.tipNames, t.dist a b = t0.dist a b
  sub : ∀ a ∈ t0.tipNames, a ∈ t.tipNames
  only : ∀ x ∈ t.tipNames, x ∈ t0.tipNames ∨ x ∈ A
  zero : ∀ g ∈ Z, ∀ x ∈ g, ∀ y ∈ g, t.dist x y = 0 ∧ x ∈ t.tipNames

theorem dist_comm' (t : T) (a b : String) : t.dist a b = t.dist b a := distW_comm _ _ a b

theorem insertNews_inv {t0 : T} {A : List String} {Z : List (List String)} {old : String} :
    ∀ (news : List String) (t : T) (tips : List String) (S : List String) (t' : T) (tips' : List String),
    Inv t0 t tips A Z → old ∈ S → (∀ x ∈ S, ∀ y ∈ S, t.dist x y = 0) → (∀ x ∈ S, x ∈ t.tipNames) →
    (∀ x ∈ news, x ∈ A) →
    insertNews old news t tips = (t', tips', none) →
    Inv t0 t' tips' A Z ∧ (∀ x ∈ S ++ news, ∀ y ∈ S ++ news, t'.dist x y = 0) ∧ (∀ x ∈ S ++ news, x ∈ t'.tipNames)
  | [], t, tips, S, t', tips', hI, _, hz, hm, _, h => by
    simp only [insertNews] at h
    injection h with h1 h2
    injection h2 with h2 _
    subst h1; subst h2
    simpa using ⟨hI, hz, hm⟩
  | n :: r, t, tips, S, t', tips', hI, hold, hz, hm, hA, h => by
    simp only [insertNews] at h
    split at h
    · rename_i t1 h1
      have hsub : ∀ x ∈ t.tipNames, x ∈ tips := fun x hx => (hI.tips_iff x).mpr hx
      have st := insertOne_step h1 hI.nodup hsub
      have hn : n ∉ t.tipNames := fun hx => (insertOne_ok h1).1 (hsub _ hx)
      have mem1 : ∀ x, x ∈ t1.tipNames ↔ x = n ∨ x ∈ t.tipNames := fun x => by rw [st.perm.mem_iff]; simp
      have ne_of : ∀ x ∈ t.tipNames, x ≠ n := fun x hx h0 => hn (h0 ▸ hx)
      have hI1 : Inv t0 t1 (tips ++ [n]) A Z := by
        refine ⟨?_, fun x => ?_, fun a ha b hb => ?_, fun a ha => ?_, fun x hx => ?_, fun g hg x hx y hy => ?_⟩
        · exact st.perm.nodup_iff.mpr (List.nodup_cons.mpr ⟨hn, hI.nodup⟩)
        · rw [mem1, List.mem_append, hI.tips_iff]; simp [or_comm]
        · rw [st.out a b (ne_of a (hI.sub a ha)) (ne_of b (hI.sub b hb))]; exact hI.keep a ha b hb
        · exact (mem1 a).mpr (Or.inr (hI.sub a ha))
        · rcases (mem1 x).mp hx with rfl | hx
          · exact Or.inr (hA _ (by simp))
          · exact hI.only x hx
        · obtain ⟨h0, hx'⟩ := hI.zero g hg x hx y hy
          have hy' := (hI.zero g hg y hy x hx).2
          exact ⟨by rw [st.out x y (ne_of x hx') (ne_of y hy')]; exact h0, (mem1 x).mpr (Or.inr hx')⟩
      have hz1 : ∀ x ∈ S ++ [n], ∀ y ∈ S ++ [n], t1.dist x y = 0 := by
        intro x hx y hy
        simp only [List.mem_append, List.mem_singleton] at hx hy
        rcases hx with hx | rfl <;> rcases hy with hy | rfl
        · rw [st.out x y (ne_of x (hm x hx)) (ne_of y (hm y hy))]; exact hz x hx y hy
        · rw [dist_comm', st.twin x (ne_of x (hm x hx))]; exact hz old hold x hx
        · rw [st.twin y (ne_of y (hm y hy))]; exact hz old hold y hy
        · exact distW_self _ _ _
      have hm1 : ∀ x ∈ S ++ [n], x ∈ t1.tipNames := by
        intro x hx
        simp only [List.mem_append, List.mem_singleton] at hx
        rcases hx with hx | rfl
        · exact (mem1 x).mpr (Or.inr (hm x hx))
        · exact (mem1 _).mpr (Or.inl rfl)
      have := insertNews_inv r t1 (tips ++ [n]) (S ++ [n]) t' tips' hI1 (by simp [hold]) hz1 hm1
        (fun x hx => hA x (List.mem_cons_of_mem _ hx)) h
      simpa [List.append_assoc] using this
    · injection h with _ h2
      injection h2 with _ h3
      cases h3

theorem insertGroups_inv {t0 : T} {A : List String} :
    ∀ (gs : List (List String)) (Z : List (List String)) (t : T) (tips : List String) (t' : T),
    Inv t0 t tips A Z → (∀ g ∈ gs, "" ∉ g) → (∀ g ∈ gs, ∀ x ∈ g, x ∈ A) →
    insertGroups gs t tips = (t', none) → ∃ tips', Inv t0 t' tips' A (Z ++ gs)
  | [], Z, t, tips, t', hI, _, _, h => by
    simp only [insertGroups] at h
    injection h with h1 _
    subst h1
    exact ⟨tips, by simpa using hI⟩
  | g :: gs, Z, t, tips, t', hI, hne, hA, h => by
    simp only [insertGroups] at h
    split at h
    · injection h with _ h2; cases h2
    · split at h
      · injection h with _ h2; cases h2
      · rename_i old news hscan
        obtain ⟨_, h2, add, ha, hb, hc⟩ := scanGroup_spec tips g "" [] old news (hne g (by simp)) hscan
        have hold := h2 rfl
        simp only [List.nil_append] at ha
        subst ha
        split at h
        · rename_i t1 tips1 hnews
          have hot : old ∈ t.tipNames := (hI.tips_iff old).mp hold.2
          obtain ⟨hI1, hz1, hm1⟩ := insertNews_inv news t tips [old] t1 tips1 hI (by simp)
            (fun x hx y hy => by
              simp only [List.mem_singleton] at hx hy; subst hx; subst hy; exact distW_self _ _ _)
            (fun x hx => by simp only [List.mem_singleton] at hx; subst hx; exact hot)
            (fun x hx => hA g (by simp) x (hb x hx).1) hnews
          have hI2 : Inv t0 t1 tips1 A (Z ++ [g]) := by
            refine ⟨hI1.nodup, hI1.tips_iff, hI1.keep, hI1.sub, hI1.only, fun g' hg' x hx y hy => ?_⟩
            rcases List.mem_append.mp hg' with hg' | hg'
            · exact hI1.zero g' hg' x hx y hy
            · simp only [List.mem_singleton] at hg'
              subst hg'
              have mx : x ∈ [old] ++ news := by rcases hc x hx with h | h <;> simp [h]
              have my : y ∈ [old] ++ news := by rcases hc y hy with h | h <;> simp [h]
              exact ⟨hz1 x mx y my, hm1 x mx⟩
          obtain ⟨tips', hfin⟩ := insertGroups_inv gs (Z ++ [g]) t1 tips1 t' hI2
            (fun g' hg' => hne g' (List.mem_cons_of_mem _ hg')) (fun g' hg' => hA g' (List.mem_cons_of_mem _ hg')) h
          exact ⟨tips', by simpa [List.append_assoc] using hfin⟩
        · rename_i hsome
          injection h with _ h2
          cases h2

theorem insertIdentical_ok {idx : Bool} {t t' : T} {groups : List (List String)}
    (h : insertIdentical idx t groups = (t', none)) : insertGroups groups t (if idx then t.tipNames else []) = (t', none) := by
  unfold insertIdentical at h
  split at h
  · injection h with _ h2; cases h2
  · exact h

end Gotree.C15
