/-
  C17 — the two neighbours proposed for one branch, in the `Apart` form (the two case analyses
  are in `C17TwinApartRoot` and `C17TwinApartInner`, compiled in parallel).
-/
import Gotree.Lemmas.C17TwinApartRoot
import Gotree.Lemmas.C17TwinApartInner

namespace Gotree.C17
open Gotree Gotree.C17.Spec

theorem local_twin_apart {path : List Nat} {isRoot : Bool} {p1 : Nat} {k1 : Kids} {j : Nat}
    {e : EdgeD} {d2 : NodeD} {p2 : Nat} {u v : EdgeD × T} (d1 : NodeD)
    (s : Site path isRoot p1 k1 j e d2 p2 u v) : LocalTwinApart path d1 isRoot p1 k1 j p2 := by
  obtain ⟨eu, tu⟩ := u
  obtain ⟨ev, tv⟩ := v
  exact site_cases s (LocalTwinApart path d1)
    (fun y z p1 hp2 => local_twin_apart_root path d1 d2 e eu ev tu tv y z p1 p2 hp2)
    (fun y hp1 hp2 => local_twin_apart_nonroot path d1 d2 e eu ev tu tv y p1 p2 hp1 hp2)

/-- lifting for two rewritings of the same tree at the same path -/
theorem apart_lift2 (Z : List String) (isRoot : Bool) (f1 f2 : T → Option T) : ∀ (q : List Nat) (t t1 t2 S : T),
    subAt q t = some S → modAt q f1 t = some t1 → modAt q f2 t = some t2 → (leavesL t1.kids).Nodup →
    (∀ S1 S2, f1 S = some S1 → f2 S = some S2 →
      RL S1 S2 ∧ (∀ x ∈ Z, x ∈ leavesL S1.kids) ∧ ∃ cb, Apart Z cb isRoot (splitsL S1.kids) (splitsL S2.kids)) →
    RL t1 t2 ∧ (∀ x ∈ Z, x ∈ leavesL t1.kids) ∧ ∃ cb, Apart Z cb isRoot (splitsL t1.kids) (splitsL t2.kids) := by
  intro q
  induction q with
  | nil =>
    intro t t1 t2 S hs h1 h2 _ hr
    simp only [subAt, Option.some.injEq] at hs
    subst hs
    exact hr t1 t2 (by simpa [modAt] using h1) (by simpa [modAt] using h2)
  | cons i q ih =>
    intro t t1 t2 S hs h1 h2 hnd hr
    obtain ⟨d, pp, k⟩ := t
    simp only [subAt] at hs
    cases hki : k[i]? with
    | none => simp [hki] at hs
    | some ec =>
      obtain ⟨e, c⟩ := ec
      simp only [hki] at hs
      simp only [modAt, hki] at h1 h2
      cases hm1 : modAt q f1 c with
      | none => simp [hm1] at h1
      | some c1 =>
        cases hm2 : modAt q f2 c with
        | none => simp [hm2] at h2
        | some c2 =>
          simp only [hm1, Option.some.injEq] at h1
          simp only [hm2, Option.some.injEq] at h2
          subst h1
          subst h2
          simp only [T.kids_node] at hnd ⊢
          have hi : i < k.length := (List.getElem?_eq_some_iff.mp hki).1
          have hk1 : (k.set i (e, c1))[i]? = some (e, c1) := by simp [hi]
          obtain ⟨hl, hZ, cb, hA⟩ := ih c c1 c2 S hs hm1 hm2 (nodup_leavesL_kids e c1 _ i hk1 hnd) hr
          have hZc : ∀ x ∈ Z, x ∈ c1.leaves := fun x hx => mem_leaves_of_mem_leavesL_kids (hZ x hx)
          refine ⟨⟨by simp, fun _ => rfl, leavesL_set2 c1 c2 e hl.leaves_perm k i⟩, ?_, cb, ?_⟩
          · intro x hx
            exact (leaves_sublist_leavesL e c1 _ i hk1).subset (hZc x hx)
          · have := apart_up c1 c2 e hA hZc hl.leaves_perm hl.isLeaf_eq (k.set i (e, c1)) i hk1 hnd
            simpa [List.set_set] using this

end Gotree.C17
