/-
  C09 — the float64 product `cutoff*float64(nbtrees)` of tree/algo.go:353, exactly.

  The threshold handed to `Consensus` is a float64, i.e. a rational `c`; the number of trees
  `n` is exact in float64; Go computes the correctly rounded (round-to-nearest-even) product
  and truncates it.  `roundF64` is that rounding on rationals (normal range, which is where
  `c·n` with `1/2 ≤ c ≤ 1` lives), `floatCut` the truncated rounded product.  It differs
  from the exact `floorCut c n = ⌊c·n⌋` exactly when the product rounds *up* to an integer
  (`c = 6004799503160661/2^53 = fl(2/3)`, `n = 3`: the exact product is `2 - 3·2^-53`, the
  float64 product `2`): then a bipartition present in exactly that many trees, whose frequency
  is above the threshold, is not selected by the code.  `consensusFloat` is `consensus` with
  that cut (the code before the repair a53968e of this defect); the theorems of Proofs/C09.lean are
  about `consensus` (exact cut).  Core Lean only.
-/
import Gotree.Model.C09

namespace Gotree.C09
open Gotree

def pow2 (e : Int) : Rat :=
  if e ≥ 0 then ((2 ^ e.toNat : Nat) : Rat) else 1 / ((2 ^ (-e).toNat : Nat) : Rat)

/-- round half to even -/
def rne (s : Rat) : Int :=
  let m := s.floor
  let r := s - (m : Rat)
  if r > 1/2 || (r == 1/2 && m % 2 == 1) then m + 1 else m

/-- the binary exponent `e` of the last place of a positive rational `q = s·2^e` whose
    significand `s` lies in `[2^52, 2^53)` (normalisation through `Nat.log2`) -/
def expoOf (q : Rat) : Int :=
  let e0 : Int := (Nat.log2 q.num.toNat : Int) - (Nat.log2 q.den : Int) - 52
  let s0 := q / pow2 e0
  if s0 ≥ 9007199254740992 then e0 + 1 else if s0 < 4503599627370496 then e0 - 1 else e0

/-- `q` rounded half to even on the grid `2^e`: for `e ≤ 0` the grid is `1/Q`, `Q = 2^(-e)`, for
    `e > 0` it is `P = 2^e`.  The guard of the last branch restates the normalisation `2^52 ≤ q/2^e`
    of `expoOf`; it always holds there (not proved — the `else` is never taken; it returns `q` so
    that `roundF64_ge_nat` / `roundF64_le_nat` hold without the `Nat.log2` facts). -/
def roundAt (q : Rat) (e : Int) : Rat :=
  if e ≤ 0 then
    ((rne (q * ((2 ^ (-e).toNat : Nat) : Rat)) : Int) : Rat) / ((2 ^ (-e).toNat : Nat) : Rat)
  else
    if (4503599627370496 : Rat) ≤ q / ((2 ^ e.toNat : Nat) : Rat) then
      ((rne (q / ((2 ^ e.toNat : Nat) : Rat)) : Int) : Rat) * ((2 ^ e.toNat : Nat) : Rat)
    else q

/-- the float64 nearest to a positive rational (ties to even; normal range, no overflow).
    Checked against Go's own product on every case (driver: TIE). -/
def roundF64 (q : Rat) : Rat :=
  if q ≤ 0 then 0 else roundAt q (expoOf q)

/-- `int(cutoff*float64(nbtrees))` for a rounding `rnd` of the product -/
def floatCutG (rnd : Rat → Rat) (c : Rat) (n : Nat) : Nat := (rnd (c * (n : Rat))).floor.toNat

/-- `int(cutoff*float64(nbtrees))` as Go computes it -/
def floatCut (c : Rat) (n : Nat) : Nat := floatCutG roundF64 c n

/-- the cut after the repair: `m := int(c*n); if FMA(c, n, -m) < 0 { m-- }` (FMA gives the sign of
    the exact `c·n - m`), for a rounding `rnd` of the product -/
def fmaCutG (rnd : Rat → Rat) (c : Rat) (n : Nat) : Nat :=
  let m := floatCutG rnd c n
  if c * (n : Rat) - (m : Rat) < 0 then m - 1 else m

def fmaCut (c : Rat) (n : Nat) : Nat := fmaCutG roundF64 c n

/-- the body of `Consensus` with the cut as a parameter (`consensusCore` is the instance `floorCut`) -/
def consensusCoreCut (cut : Rat → Nat → Nat) (unr rs : Bool) (ord : List Entry → List Entry)
    (ts : List T) (c : Rat) : Out :=
  if ts.any (fun t => t.kids.length < 2) then .unsupported
  else match countAll unr rs ts with
    | .error w => .err w
    | .ok none => .err "empty"
    | .ok (some cn) =>
      let sel := selectEntries (cut c cn.n) cn.n (ord cn.idx)
      match applyAll cn.alltips cn.n (starOf cn.first) sel with
      | .ok r => .ok r
      | .error w => .err w

def consensusCut (cut : Rat → Nat → Nat) (ord : List Entry → List Entry) (ts : List T) (c : Rat) : Out :=
  if c < 1/2 || c > 1 then .err "range"
  else consensusCoreCut cut true true ord (ts.map rerootTip) c

/-- `Consensus` with the float64 product (the code as long as tree/algo.go:353 truncates the
    rounded product) -/
def consensusFloat (ord : List Entry → List Entry) (ts : List T) (c : Rat) : Out :=
  consensusCut floatCut ord ts c

/-- THE SWITCH: the cut of the code as it is now: `fmaCut` since the repair a53968e
    (`minCount--` when `math.FMA(cutoff, n, -minCount) < 0`), which is the exact floor
    (`fma_cut_exact`); it was `floatCut` before.  Used by the driver's tie model and by the
    literal model. -/
def cutNow : Rat → Nat → Nat := fmaCut

def consensusNow (ord : List Entry → List Entry) (ts : List T) (c : Rat) : Out :=
  consensusCut cutNow ord ts c

/-! ## thresholds that are not finite numbers -/

/-- a float64 threshold: a finite number (its exact rational value), NaN, or ±Inf -/
inductive Thr where
  | fin (c : Rat)
  | nan
  | inf (neg : Bool)
  deriving Repr

/-- `Consensus` on any float64 threshold.  Since def0221 the range check is
    `!(cutoff >= 0.5 && cutoff <= 1)`, which a NaN fails like an infinity. -/
def consensusThr (ord : List Entry → List Entry) (ts : List T) : Thr → Out
  | .fin c => consensusNow ord ts c
  | .nan => .err "range"
  | .inf _ => .err "range"

/-- before def0221: the check `cutoff < 0.5 || cutoff > 1` is false for NaN, and
    `int(NaN*float64(n))` is the least int64, so every bipartition of the index was selected -/
def consensusThrPinnedNaN (ord : List Entry → List Entry) (ts : List T) : Thr → Out
  | .nan => consensusCoreCut (fun _ _ => 0) true true ord (ts.map rerootTip) 0
  | t => consensusThr ord ts t

/-- the special values of `strconv.ParseFloat`: "nan" (no sign), and optionally signed "inf" /
    "infinity", whatever the case of the letters -/
def parseSpecial (s : String) : Option Thr :=
  let cs := s.toList.map Char.toLower
  if cs == "nan".toList then some .nan else
  let (neg, r) := match cs with
    | '+' :: r => (false, r)
    | '-' :: r => (true, r)
    | r => (false, r)
  if r == "inf".toList || r == "infinity".toList then some (.inf neg) else none

/-- the text of `-f` as `cmd/consensus.go` reads it, special values included (`parseCutoff`
    is the finite decimal part) -/
def parseCutoffThr (s : String) : Option Thr :=
  match parseSpecial s with
  | some t => some t
  | none => (parseCutoff s).map .fin

/-- the threshold `Consensus` is called with (absent flag: the default 0.5) -/
def cliCutoffThr (ftext : Option String) : Option Thr :=
  match ftext with
  | none => some (.fin (1/2))
  | some s => parseCutoffThr s

end Gotree.C09
