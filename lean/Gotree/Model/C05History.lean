/-
  C05 — hypotheses of the theorem about histories (`history_preserves`), as a Bool the driver evaluates:
  no step removes tips, and the tree BEFORE every step has lengths and supports absent or non-negative
  (`lensOK`, `supsOK`: UnRoot clamps negative values).  Core Lean only.
-/
import Gotree.Model.C05Index
import Gotree.Spec.C05

namespace Gotree.C05
open Gotree

/-- the step removes no tip -/
def Step.keeps : Step → Bool
  | .outgroup true _ _ => false
  | _ => true

def historyOK : List Step → T → Bool
  | [], _ => true
  | s :: r, t =>
    lensOK t && supsOK t && s.keeps &&
      (match s.apply t with
       | .ok u => historyOK r u
       | _ => true)

end Gotree.C05
