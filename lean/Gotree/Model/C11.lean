/-
  C11 — the worker pools of gotree as a labelled transition system (DESIGN §3.6, App. F).

  Code modelled (as it is NOW in /repo):
    tree/algo.go    Compare, CompareWeighted : `cpus` workers `for treeV := range compTrees { …; stats <- rec }; wg.Done()`
                                              + one closer `wg.Wait(); close(stats)`
    support/fbp.go  FBP                      : `cpus` workers with `defer wg.Done()`, `return` on an erroneous tree
                                              (the error goes to the shared cell `err` under a mutex), sends on
                                              `foundEdges`, closer `wg.Wait(); close(foundEdges)`, collector = caller
    support/tbe.go  TBE                      : per bootstrap tree, `cpu` workers `for e := range edgechan {…}; wg.Done()`

  The *shape* of each pool — which exits of the worker leave without `wg.Done`, which captured
  variables are written and under which synchronisation — is not copied by hand: it is the
  `PoolFacts` extracted from the source on every run (`Gotree/Gen/C11Goroutines.lean`, written by
  harness/c11/extract.go).  The LTS is parametric in it.

  One step = one channel operation / one `Done` / the `close` of one goroutine.  A schedule is a
  list of (goroutine index, choice); no fairness is assumed.  Goroutines: the `w` workers, the
  closer (`wg.Wait(); close(out)`), and the producer that sends the items on the input channel
  (capacity `cap`; 0 = unbuffered: send and receive are one rendezvous step) and closes it at the end — ReadMultiTrees for
  the commands, the edge feeder of TBE, the caller otherwise.  A worker at the head of its loop
  blocks while the input channel is empty and open.  The consumer of the result channel is always
  ready (Compare: the caller ranges over `stats`; FBP: the caller ranges over `foundEdges`), so a
  send is one step.

  Core Lean only: this file is linked into the driver.
-/
namespace Gotree.C11

/-! ## The extracted facts (types of the regenerated table) -/

/-- synchronisation dominating a write to a captured variable -/
inductive Sync where
  | none          -- nothing: a data race as soon as two workers run
  | mutex         -- a `sync.Mutex`/`RWMutex` is held (Lock … Unlock around the write, or Lock + defer Unlock)
  | atomic        -- the write is a `sync/atomic` call
  | itemIndexed   -- element of a shared slice whose index is computed from the item the worker received
                  -- (each item is received by exactly one worker: disjoint cells)
  deriving DecidableEq, Repr, Inhabited

structure Write where
  var : String      -- the captured variable (as named in the goroutine)
  how : String      -- assign / elem / field / incdec / atomic, and the call chain when the write is inside a callee
  sync : Sync
  line : Nat
  deriving DecidableEq, Repr

/-- one read or write of a captured variable by a goroutine; `form`: whole (the variable itself), elem,
    field, deref.  For a read `mutex` means "some lock, read or write, is held". -/
structure Access where
  var : String
  form : String
  write : Bool
  sync : Sync
  line : Nat
  deriving DecidableEq, Repr

inductive ExitKind where
  | rangeEnd   -- the `for … range ch` loop ends (channel closed and drained) and the function falls off its end
  | ret        -- a `return` inside the loop body
  | brk        -- a `break` out of the loop inside the loop body
  deriving DecidableEq, Repr

structure Exit where
  kind : ExitKind
  line : Nat
  done : Bool       -- `wg.Done()` is reached on this path (directly, or by `defer`)
  deriving DecidableEq, Repr

/-- What the LTS needs to know about one pool. -/
structure PoolFacts where
  exits : List Exit
  writes : List Write
  producerLeaks : List Nat    -- exit paths of the goroutine feeding the input channel that skip its `close`
  deriving DecidableEq, Repr

/-- One `go func` literal of the source, as the extractor saw it. -/
structure Goroutine where
  file : String
  fn : String                 -- enclosing function
  line : Nat
  rangesOver : String         -- channel the body ranges over ("" = none)
  counted : Bool              -- a pool worker: ranges over a channel in a function that owns a WaitGroup
  exits : List Exit
  writes : List Write
  sends : List (String × Nat)           -- channel, line
  closes : List (String × Nat × Bool)   -- channel, line, "a `wg.Wait()` precedes the close in this goroutine"
  accesses : List Access                -- writes, and the reads of the variables some goroutine of the function writes
  multi : Bool                          -- started inside a loop: several instances run concurrently
  waits : Bool                          -- calls `wg.Wait()`
  addOK : Bool                          -- `wg.Add(1)` precedes the `go` statement in its block, or `wg.Add(N)` the loop `i < N`
  returnsBeforeClose : List Nat         -- `return`s located before the `close(ch)` this goroutine is responsible for
  unfollowed : List String        -- calls involving captured variables the extractor did not follow (trusted)
  deriving DecidableEq, Repr

/-- the facts of a worker goroutine; the producer of its input channel is outside (the caller) -/
def Goroutine.facts (g : Goroutine) : PoolFacts := ⟨g.exits, g.writes, []⟩

/-- a goroutine that feeds a channel must close it on every path: the `return`s before its `close`,
    or its own line when it closes nothing -/
def Goroutine.producerLeaks (g : Goroutine) : List Nat := if g.closes.isEmpty then [g.line] else g.returnsBeforeClose

/-- the facts of a pool fed by the goroutine `p` (ReadMultiTrees for the commands, the edge feeder of TBE) -/
def Goroutine.factsWithProducer (g p : Goroutine) : PoolFacts := ⟨g.exits, g.writes, p.producerLeaks⟩

def PoolFacts.exitsWithoutDone (F : PoolFacts) : List Exit := F.exits.filter (fun e => !e.done)

def Write.unsync (w : Write) : Bool := match w.sync with | .none => true | _ => false

def PoolFacts.unsyncSharedWrites (F : PoolFacts) : List Write := F.writes.filter Write.unsync

def Exit.isRangeEnd (e : Exit) : Bool := match e.kind with | .rangeEnd => true | _ => false

/-- leaving the range loop normally reaches `wg.Done` -/
def PoolFacts.rangeEndDone (F : PoolFacts) : Bool := F.exits.all (fun e => !e.isRangeEnd || e.done)

/-- the `return`/`break` statements inside the loop body -/
def PoolFacts.earlyExits (F : PoolFacts) : List Exit := F.exits.filter (fun e => !e.isRangeEnd)

/-- two accesses that may run concurrently are ordered by their synchronisation: both under a lock,
    both atomic, or both to cells owned through the received item -/
def Sync.compatible : Sync → Sync → Bool
  | .mutex, .mutex => true
  | .atomic, .atomic => true
  | .itemIndexed, .itemIndexed => true
  | _, _ => false

/-- a write and a read touch the same memory: a write of the whole variable meets every read of it;
    otherwise element meets element, field meets field, pointee meets pointee -/
def Access.overlaps (w r : Access) : Bool :=
  w.var == r.var && (w.form == "whole" || w.form == r.form)

/-- races visible in the table: a write by one goroutine and a read or write by another goroutine of the
    same function (or by another instance of the same `go` statement when it is started in a loop, or by
    the part of the function itself that runs meanwhile) of overlapping memory without compatible
    synchronisation: (variable, line of the write, line of the other access) -/
def racePairs (gs : List Goroutine) : List (String × Nat × Nat) :=
  gs.flatMap fun g1 => gs.flatMap fun g2 =>
    if g1.file == g2.file && g1.fn == g2.fn && (g1.line != g2.line || g1.multi) then
      (g1.accesses.filter (·.write)).flatMap fun w =>
        ((g2.accesses.filter fun r => w.overlaps r && !w.sync.compatible r.sync)).map fun r => (w.var, w.line, r.line)
    else []

def Goroutine.exitsWithoutDone (g : Goroutine) : List Exit := if g.counted then g.facts.exitsWithoutDone else []
def Goroutine.unsyncSharedWrites (g : Goroutine) : List Write := g.facts.unsyncSharedWrites

/-- the part of the facts the LTS depends on -/
structure Shape where
  rangeEndDone : Bool      -- leaving the range loop normally reaches `wg.Done`
  early : List Bool        -- one entry per `return`/`break` in the loop body: does it reach `wg.Done`
  pureCompute : Bool       -- no unsynchronised write to a captured variable
  producerCloses : Bool    -- the goroutine feeding the input channel closes it on every exit path
  deriving DecidableEq, Repr

def PoolFacts.shape (F : PoolFacts) : Shape :=
  ⟨F.rangeEndDone, F.earlyExits.map (·.done), F.unsyncSharedWrites.isEmpty, F.producerLeaks.isEmpty⟩

/-- the two shapes the driver runs (proved equal to the extracted ones in Proofs/C11.lean) -/
def shapeRecord : Shape := ⟨true, [], true, true⟩        -- Compare, CompareWeighted, TBE fan-out: one record per item
def shapeStop : Shape := ⟨true, [true], true, true⟩      -- FBP: leaves on an erroneous item, with Done

/-! ## The transition system -/

/-- control point of one worker goroutine -/
inductive Phase (α β : Type) where
  | idle                      -- at the head of `for x := range in`
  | holding (x : α)           -- received `x`
  | computed (x : α) (y : β)  -- result computed, about to send it
  | exiting                   -- left the loop on a path that reaches `wg.Done()`, not yet executed
  | finished                  -- `wg.Done()` executed, goroutine gone
  | leaked                    -- goroutine gone without `wg.Done()`
  deriving Repr

structure PState (α β : Type) where
  pending : List α           -- items the producer goroutine has not sent yet
  prod : Bool                -- the producer goroutine is still running
  srcOpen : Bool             -- the input channel is not closed yet
  cap : Nat                  -- capacity of the input channel (0 = unbuffered: rendezvous)
  inp : List α               -- items sitting in the input channel
  workers : List (Phase α β)
  wg : Nat                   -- WaitGroup counter
  out : List β               -- results received by the consumer (most recent first)
  done : List α              -- ghost: the items whose result was sent
  dropped : List α           -- items on which a worker left the loop (their error went to the shared cell)
  errSet : Bool              -- the shared error cell has been written
  closed : Bool              -- the result channel is closed
  panicked : Bool            -- a send on the closed result channel happened
  deriving Repr

variable {α β : Type}

/-- `w` workers started (`wg.Add(1)` before each `go`), the closer waiting, the producer about to
    send the items of `inp` one by one on a channel of capacity `cap` and then close it. -/
def init (w cap : Nat) (inp : List α) : PState α β :=
  { pending := inp, prod := true, srcOpen := true, cap := cap, inp := [], workers := List.replicate w .idle, wg := w, out := [], done := [], dropped := [],
    errSet := false, closed := false, panicked := false }

/-- One step of goroutine `i` (`i < #workers`: worker `i`; `i = #workers`: the closer
    `wg.Wait(); close(out)`; `i = #workers + 1`: the producer of the input channel), `c` resolving the remaining choice (which early exit is taken;
    with unsynchronised shared scratch: whose data the result is computed from).
    `none` = that goroutine cannot move (blocked or gone). -/
def stepFn (F : Shape) (f : α → β) (stops : α → Bool) (s : PState α β) (i c : Nat) : Option (PState α β) :=
  if s.panicked then none else
  match s.workers[i]? with
  | some .idle =>
    match s.inp with
    | x :: r => some { s with inp := r, workers := s.workers.set i (.holding x) }
    | [] =>
      if s.cap = 0 ∧ s.prod = true then
        -- unbuffered input channel (capacity 0): the producer's send and this receive are one step
        match s.pending with
        | x :: r => some { s with pending := r, workers := s.workers.set i (.holding x) }
        | [] => none            -- nothing offered: the producer is about to close
      else if s.srcOpen then none    -- blocked on the empty, open channel
      else some { s with workers := s.workers.set i (if F.rangeEndDone then .exiting else .leaked) }
  | some (.holding x) =>
    if stops x && !F.early.isEmpty then
      match F.early[c]? with
      | some e => some { s with workers := s.workers.set i (if e then .exiting else .leaked),
                                dropped := x :: s.dropped, errSet := true }
      | none => none
    else if c = 0 then some { s with workers := s.workers.set i (.computed x (f x)) }
    else if F.pureCompute then none
    else match s.workers[c - 1]? with
      | some (.holding x') => some { s with workers := s.workers.set i (.computed x (f x')) }
      | _ => none
  | some (.computed x y) =>
    if s.closed then some { s with panicked := true }
    else some { s with out := y :: s.out, done := x :: s.done, workers := s.workers.set i .idle }
  | some .exiting => some { s with wg := s.wg - 1, workers := s.workers.set i .finished }
  | some .finished => none
  | some .leaked => none
  | none =>
    if i = s.workers.length then
      if s.wg = 0 ∧ s.closed = false then some { s with closed := true } else none
    else if i = s.workers.length + 1 ∧ s.prod = true then
      match s.pending with
      | x :: r => if s.inp.length < s.cap then some { s with pending := r, inp := s.inp ++ [x] } else none
      | [] => if F.producerCloses then some { s with prod := false, srcOpen := false }
              else some { s with prod := false }    -- returns without `close`: the workers wait forever
    else none

/-- The interleaving relation: any enabled goroutine may move. -/
def Step (F : PoolFacts) (f : α → β) (stops : α → Bool) (s s' : PState α β) : Prop :=
  ∃ i c, stepFn F.shape f stops s i c = some s'

inductive Reachable (F : PoolFacts) (f : α → β) (stops : α → Bool) (s₀ : PState α β) : PState α β → Prop where
  | refl : Reachable F f stops s₀ s₀
  | step {s s'} : Reachable F f stops s₀ s → Step F f stops s s' → Reachable F f stops s₀ s'

def Terminal (F : PoolFacts) (f : α → β) (stops : α → Bool) (s : PState α β) : Prop :=
  ∀ s', ¬ Step F f stops s s'

/-! ## Running it (what the driver executes) -/

/-- follow a schedule; entries naming a goroutine that cannot move are skipped -/
def exec (F : Shape) (f : α → β) (stops : α → Bool) : List (Nat × Nat) → PState α β → PState α β
  | [], s => s
  | (i, c) :: r, s =>
    match stepFn F f stops s i c with
    | some s' => exec F f stops r s'
    | none => exec F f stops r s

/-- first goroutine among `0 … n` that can move (choice 0) -/
def firstEnabled (F : Shape) (f : α → β) (stops : α → Bool) (s : PState α β) : Nat → Option (PState α β)
  | 0 => stepFn F f stops s 0 0
  | n + 1 =>
    match firstEnabled F f stops s n with
    | some s' => some s'
    | none => stepFn F f stops s (n + 1) 0

/-- run on until nothing moves (fuel: the measure `mu` bounds the length of every run, Lemmas/C11.lean `stepFn_mu`) -/
def drain (F : Shape) (f : α → β) (stops : α → Bool) : Nat → PState α β → PState α β
  | 0, s => s
  | fuel + 1, s =>
    match firstEnabled F f stops s (s.workers.length + 1) with
    | some s' => drain F f stops fuel s'
    | none => s

def Phase.weight : Phase α β → Nat
  | .idle => 2 | .holding _ => 4 | .computed _ _ => 3 | .exiting => 1 | .finished => 0 | .leaked => 0

def sumMap (g : Phase α β → Nat) : List (Phase α β) → Nat
  | [] => 0
  | p :: r => g p + sumMap g r

/-- the termination measure of App. F (weights corrected so that a send decreases it too) -/
def mu (s : PState α β) : Nat :=
  3 * s.inp.length + 4 * s.pending.length + sumMap Phase.weight s.workers + (if s.closed then 0 else 1) +
    (if s.panicked then 0 else 1) + (if s.prod then 1 else 0)

/-- a whole run: the given schedule first, then on to a state where nothing moves -/
def runToEnd (F : Shape) (f : α → β) (stops : α → Bool) (w cap : Nat) (inp : List α) (sched : List (Nat × Nat)) : PState α β :=
  let s := exec F f stops sched (init w cap inp)
  drain F f stops (mu s) s

end Gotree.C11
