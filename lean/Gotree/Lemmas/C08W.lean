/-
  C08 — `CompareWeighted`: the loops in closed form and their relation to the Spec's
  weighted terms.  Core Lean only.
-/
import Gotree.Lemmas.C08

namespace Gotree.C08.Canon
open Gotree Gotree.C08 List

/-- length found in an index for the split of a branch -/
def hitLen (idx : Index) (all : List String) (e : SplitE) : Option Rat :=
  (value idx (key all e)).map (·.len)

theorem wLoop1_noSC (idx : Index) (allc : List String) (tips : Bool) (l : List SplitE) (same : Bool) :
    wLoop1 idx allc tips false l same =
      ((l.filter (counted tips)).filterMap (fun e => (hitLen idx allc e).map (fun rl => rl - e.e.len)),
       ((l.filter (counted tips)).filter (fun e => (hitLen idx allc e).isNone)).map (·.e.len),
       same && (l.filter (counted tips)).all (fun e => hitLen idx allc e == some e.e.len)) := by
  induction l generalizing same with
  | nil => simp [wLoop1]
  | cons e r ih =>
    unfold wLoop1
    cases hc : counted tips e with
    | false => simp only [Bool.false_eq_true, if_false, filter_cons, hc]; exact ih same
    | true =>
      simp only [if_true, filter_cons, hc, Bool.and_false, Bool.false_eq_true, if_false]
      cases hv : value idx (key allc e) with
      | none =>
        simp only [ih]
        simp [hitLen, hv]
      | some info =>
        simp only [ih]
        simp [hitLen, hv, Bool.and_assoc]

theorem wLoop2_noSC (idx : Index) (allr : List String) (tips : Bool) (l : List SplitE) (same : Bool) :
    wLoop2 idx allr tips false l same =
      (((l.filter (counted tips)).filter (fun e => (hitLen idx allr e).isNone)).map (·.e.len),
       same && (l.filter (counted tips)).all (fun e => (hitLen idx allr e).isSome)) := by
  induction l generalizing same with
  | nil => simp [wLoop2]
  | cons e r ih =>
    unfold wLoop2
    cases hc : counted tips e with
    | false => simp only [Bool.false_eq_true, if_false, filter_cons, hc]; exact ih same
    | true =>
      simp only [if_true, filter_cons, hc, Bool.false_eq_true, if_false]
      cases hv : value idx (key allr e) with
      | none =>
        simp only [ih]
        simp [hitLen, hv]
      | some info =>
        simp only [ih]
        simp [hitLen, hv]

/-- with the shortcut the first loop returns the same flag -/
theorem wLoop1_SC_flag (idx : Index) (allc : List String) (tips : Bool) (l : List SplitE) (same : Bool) :
    (wLoop1 idx allc tips true l same).2.2 =
      (same && (l.filter (counted tips)).all (fun e => hitLen idx allc e == some e.e.len)) := by
  induction l generalizing same with
  | nil => simp [wLoop1]
  | cons e r ih =>
    unfold wLoop1
    cases hc : counted tips e with
    | false => simp only [Bool.false_eq_true, if_false, filter_cons, hc]; exact ih same
    | true =>
      simp only [if_true, filter_cons, hc, Bool.and_true]
      cases hv : value idx (key allc e) with
      | none => simp [hitLen, hv]
      | some info =>
        by_cases hl : info.len = e.e.len
        · simp [hitLen, hv, hl, ih]
        · have : (info.len != e.e.len) = true := by simpa using hl
          simp [hitLen, hv, hl, this]

theorem wLoop2_SC_flag (idx : Index) (allr : List String) (tips : Bool) (l : List SplitE) (same : Bool) :
    (wLoop2 idx allr tips true l same).2 =
      (same && (l.filter (counted tips)).all (fun e => (hitLen idx allr e).isSome)) := by
  induction l generalizing same with
  | nil => simp [wLoop2]
  | cons e r ih =>
    unfold wLoop2
    cases hc : counted tips e with
    | false => simp only [Bool.false_eq_true, if_false, filter_cons, hc]; exact ih same
    | true =>
      simp only [if_true, filter_cons, hc]
      cases hv : value idx (key allr e) with
      | none => simp [hitLen, hv]
      | some info => simp [hitLen, hv, ih]

/-- the identity flag of a weighted record -/
def wflag : Res WStats → Res Bool
  | .ok s => .ok s.same
  | .err => .err
  | .refErr => .refErr

/-- the shortcut never changes the weighted identity flag -/
theorem compareWeighted_shortcut_flag (r c : T) (tips : Bool) :
    wflag (compareWeighted r c tips true) = wflag (compareWeighted r c tips false) := by
  unfold compareWeighted
  cases h1 : reinitOk r <;> cases h2 : reinitOk c <;>
    cases h3 : compareTipIndexes r.tipNames c.tipNames <;> simp [wflag]
  have e1 := wLoop1_SC_flag (buildIndex r.tipNames r.splits) c.tipNames tips c.splits true
  have e2 := wLoop2_SC_flag (buildIndex c.tipNames c.splits) r.tipNames tips r.splits
    (wLoop1 (buildIndex r.tipNames r.splits) c.tipNames tips true c.splits true).2.2
  rw [e2, e1, wLoop1_noSC, wLoop2_noSC]

/-! ## generic helpers -/

theorem filterMap_congr' {α β : Type} {f g : α → Option β} {l : List α} (h : ∀ x ∈ l, f x = g x) :
    l.filterMap f = l.filterMap g := by
  induction l with
  | nil => rfl
  | cons a r ih =>
    simp only [filterMap_cons, h a (by simp)]
    rw [ih (fun x hx => h x (by simp [hx]))]

theorem nodup_map_inj {α β : Type} {f : α → β} {l : List α} (h : (l.map f).Nodup) {a b : α}
    (ha : a ∈ l) (hb : b ∈ l) (e : f a = f b) : a = b := by
  induction l with
  | nil => cases ha
  | cons x r ih =>
    have h' : f x ∉ r.map f ∧ (r.map f).Nodup := nodup_cons.mp h
    rcases mem_cons.mp ha with ha | ha <;> rcases mem_cons.mp hb with hb | hb
    · rw [ha, hb]
    · exfalso; apply h'.1; rw [← ha, e]; exact mem_map.mpr ⟨b, hb, rfl⟩
    · exfalso; apply h'.1; rw [← hb, ← e]; exact mem_map.mpr ⟨a, ha, rfl⟩
    · exact ih h'.2 ha hb

theorem find_side_perm {u u' : List USplit} (h : u ~ u') (hn : (u.map (·.side)).Nodup) (k : List String) :
    u.find? (·.side == k) = u'.find? (·.side == k) := by
  cases hf : u.find? (·.side == k) with
  | none =>
    rw [find?_eq_none] at hf
    symm
    rw [find?_eq_none]
    exact fun x hx => hf x (h.mem_iff.mpr hx)
  | some x =>
    have hx : x ∈ u := mem_of_find?_eq_some hf
    have hxk : (x.side == k) = true := find?_some (p := fun z : USplit => z.side == k) hf
    cases hf' : u'.find? (·.side == k) with
    | none =>
      rw [find?_eq_none] at hf'
      exact absurd hxk (hf' x (h.mem_iff.mp hx))
    | some y =>
      have hy : y ∈ u := h.mem_iff.mpr (mem_of_find?_eq_some hf')
      have hyk : (y.side == k) = true := find?_some (p := fun z : USplit => z.side == k) hf'
      simp only [beq_iff_eq] at hxk hyk
      congr 1
      exact nodup_map_inj hn hx hy (hxk.trans hyk.symm)

theorem filterMap_inter {α β : Type} [BEq α] [LawfulBEq α] (h : α → Option β) (a b : List α)
    (hb : ∀ k ∈ a, k ∉ b → h k = none) : a.filterMap h = (interG a b).filterMap h := by
  unfold interG
  rw [filterMap_filter]
  apply filterMap_congr'
  intro x hx
  by_cases hc : b.contains x = true
  · rw [if_pos hc]
  · rw [if_neg hc]
    exact hb x hx (fun hm => hc (contains_iff_mem.mpr hm))

/-! ## lengths by canonical side -/

theorem lenOf_map (all : List String) (l : List SplitE) (k : List String) :
    lenOf (l.map (usOf all)) k = (l.find? (fun e => canonSide all e.below == k)).map (·.e.len) := by
  unfold lenOf
  rw [find?_map, Option.map_map]
  rfl

theorem lenOf_map_mem (all : List String) (l : List SplitE)
    (hn : (l.map fun s => canonSide all s.below).Nodup) (e : SplitE) (he : e ∈ l) :
    lenOf (l.map (usOf all)) (canonSide all e.below) = some e.e.len := by
  rw [lenOf_map]
  cases hf : l.find? (fun x => canonSide all x.below == canonSide all e.below) with
  | none =>
    rw [find?_eq_none] at hf
    exact absurd (by simp) (hf e he)
  | some x =>
    have hx : x ∈ l := mem_of_find?_eq_some hf
    have hxk := find?_some hf
    simp only [beq_iff_eq] at hxk
    rw [nodup_map_inj hn hx he hxk]
    rfl

theorem lenOf_map_notin (all : List String) (l : List SplitE) (k : List String)
    (h : k ∉ l.map fun s => canonSide all s.below) : lenOf (l.map (usOf all)) k = none := by
  rw [lenOf_map]
  have : l.find? (fun e => canonSide all e.below == k) = none := by
    rw [find?_eq_none]
    intro x hx hk
    simp only [beq_iff_eq] at hk
    exact h (mem_map.mpr ⟨x, hx, hk⟩)
  rw [this]; rfl

/-! ## the weighted record against the Spec -/

theorem mem_S_iff (t : T) (tips : Bool) (ht : good t = true) (k : List String) :
    k ∈ S tips t ↔ k ∈ (t.splits.filter (counted tips)).map (fun s => canonSide t.tipNames s.below) := by
  obtain ⟨_, _, h3, h4, _⟩ := good_parts ht
  exact (S_perm t tips h3 h4).mem_iff

/-- a counted branch of `c` is found in the index of `r` iff its split is a split of `r` that counts -/
theorem hit_iff_S (r c : T) (tips : Bool) (hT : sameTaxa r c = true) (hr : good r = true) (hc : good c = true)
    (e : SplitE) (he : e ∈ c.splits) (hcnt : counted tips e = true) :
    (hitLen (buildIndex r.tipNames r.splits) c.tipNames e).isSome
      = (S tips r).contains (canonSide c.tipNames e.below) := by
  unfold hitLen
  rw [Option.isSome_map]
  cases tips with
  | false =>
    have htip : e.tip = false := by simpa [counted] using hcnt
    rw [← okE_iff_mem r c false hT hr hc e he hcnt]
    simp [okE, htip]
  | true =>
    rw [Bool.eq_iff_iff, contains_iff_mem, mem_S_iff r true hr, value_buildIndex_isSome]
    have : r.splits.filter (counted true) = r.splits := filter_eq_self.mpr (fun a _ => counted_true a)
    rw [this]
    rfl

theorem keys_nodup (t : T) (ht : good t = true) :
    (t.splits.map fun s => canonSide t.tipNames s.below).Nodup := by
  obtain ⟨_, _, h3, _, _⟩ := good_parts ht
  simpa [keysNodup] using h3

/-- the index of a tree returns, for the split of one of its own branches, that branch's length -/
theorem hit_own (t : T) (ht : good t = true) (s : SplitE) (hs : s ∈ t.splits) :
    hitLen (buildIndex t.tipNames t.splits) t.tipNames s = some s.e.len := by
  unfold hitLen buildIndex
  exact value_buildFrom_len t.tipNames t.splits 0 [] s (keys_nodup t ht) hs

theorem onlyLens_perm (a b : T) (tips : Bool) (ha : good a = true) :
    onlyLens (U tips a) (U tips b) ~
      ((a.splits.filter (counted tips)).filter
        (fun s => !(S tips b).contains (canonSide a.tipNames s.below))).map (·.e.len) := by
  obtain ⟨_, _, h3, h4, _⟩ := good_parts ha
  unfold onlyLens
  refine (((U_perm a tips h3 h4).filter _).map _).trans ?_
  rw [filter_map, map_map]
  exact Perm.refl _

/-- the terms specific to one tree, as the model computes them, are the Spec's -/
theorem only_model_spec (a b : T) (tips : Bool) (hT : sameTaxa b a = true) (ha : good a = true) (hb : good b = true) :
    ((a.splits.filter (counted tips)).filter
        (fun e => (hitLen (buildIndex b.tipNames b.splits) a.tipNames e).isNone)).map (·.e.len)
      ~ onlyLens (U tips a) (U tips b) := by
  refine Perm.trans (Perm.of_eq ?_) (onlyLens_perm a b tips ha).symm
  congr 1
  apply filter_congr
  intro e he
  obtain ⟨he1, he2⟩ := mem_filter.mp he
  have := hit_iff_S b a tips hT hb ha e he1 he2
  rw [← this]
  cases hitLen (buildIndex b.tipNames b.splits) a.tipNames e <;> rfl

/-- the difference term of a canonical side: length in `r` minus length in `c` -/
def diffAt (r c : T) (tips : Bool) (k : List String) : Option Rat :=
  ((value (buildIndex r.tipNames r.splits) k).map (·.len)).bind fun a =>
    (lenOf ((c.splits.filter (counted tips)).map (usOf c.tipNames)) k).map fun b => a - b

theorem sub_keys_nodup (t : T) (tips : Bool) (ht : good t = true) :
    ((t.splits.filter (counted tips)).map fun s => canonSide t.tipNames s.below).Nodup :=
  (keys_nodup t ht).sublist (filter_sublist.map _)

theorem common_model (r c : T) (tips : Bool) (hc : good c = true) :
    (c.splits.filter (counted tips)).filterMap
        (fun e => (hitLen (buildIndex r.tipNames r.splits) c.tipNames e).map (fun rl => rl - e.e.len))
      = ((c.splits.filter (counted tips)).map (fun s => canonSide c.tipNames s.below)).filterMap (diffAt r c tips) := by
  rw [filterMap_map]
  apply filterMap_congr'
  intro e he
  simp only [Function.comp, diffAt]
  rw [lenOf_map_mem c.tipNames _ (sub_keys_nodup c tips hc) e he]
  unfold hitLen key
  cases value (buildIndex r.tipNames r.splits) (canonSide c.tipNames e.below) <;> rfl

theorem common_spec (r c : T) (tips : Bool) (hr : good r = true) (hc : good c = true) :
    commonDiffs (U tips r) (U tips c) ~
      ((r.splits.filter (counted tips)).map (fun s => canonSide r.tipNames s.below)).filterMap (diffAt r c tips) := by
  obtain ⟨_, _, hr3, hr4, _⟩ := good_parts hr
  obtain ⟨_, _, hc3, hc4, _⟩ := good_parts hc
  unfold commonDiffs
  refine ((U_perm r tips hr3 hr4).filterMap _).trans (Perm.of_eq ?_)
  rw [filterMap_map, filterMap_map]
  apply filterMap_congr'
  intro s hs
  have hs1 := (mem_filter.mp hs).1
  simp only [Function.comp, diffAt]
  have hown := hit_own r hr s hs1
  unfold hitLen key at hown
  rw [hown]
  -- the Spec looks the side up in `U tips c`, a permutation of the list used by `diffAt`
  have hfind : lenOf (U tips c) (usOf r.tipNames s).side
      = lenOf ((c.splits.filter (counted tips)).map (usOf c.tipNames)) (canonSide r.tipNames s.below) := by
    unfold lenOf
    rw [find_side_perm (U_perm c tips hc3 hc4) (S_nodup c tips hc3 hc4)]
    rfl
  rw [hfind]
  rfl

theorem common_perm (r c : T) (tips : Bool) (hT : sameTaxa r c = true) (hr : good r = true) (hc : good c = true) :
    (c.splits.filter (counted tips)).filterMap
        (fun e => (hitLen (buildIndex r.tipNames r.splits) c.tipNames e).map (fun rl => rl - e.e.len))
      ~ commonDiffs (U tips r) (U tips c) := by
  rw [common_model r c tips hc]
  refine Perm.trans ?_ (common_spec r c tips hr hc).symm
  have hRn := sub_keys_nodup r tips hr
  have hCn := sub_keys_nodup c tips hc
  rw [filterMap_inter (diffAt r c tips) _ ((r.splits.filter (counted tips)).map (fun s => canonSide r.tipNames s.below)),
      filterMap_inter (diffAt r c tips) ((r.splits.filter (counted tips)).map (fun s => canonSide r.tipNames s.below))
        ((c.splits.filter (counted tips)).map (fun s => canonSide c.tipNames s.below))]
  · exact (inter_perm_comm hCn hRn).filterMap _
  · -- a side of `r` that is no side of `c` has no length in `c`
    intro k _ hk
    unfold diffAt
    rw [lenOf_map_notin c.tipNames _ k hk]
    cases (value (buildIndex r.tipNames r.splits) k).map (·.len) <;> rfl
  · -- a side of `c` that is no side of `r` is not found in the index of `r`
    intro k hk hnk
    obtain ⟨e, he, rfl⟩ := mem_map.mp hk
    obtain ⟨he1, he2⟩ := mem_filter.mp he
    have h1 := hit_iff_S r c tips hT hr hc e he1 he2
    have h2 : (S tips r).contains (canonSide c.tipNames e.below) = false := by
      rw [Bool.eq_false_iff]; intro hcon
      exact hnk ((mem_S_iff r tips hr _).mp (contains_iff_mem.mp hcon))
    rw [h2] at h1
    unfold diffAt
    unfold hitLen key at h1
    cases hv : (value (buildIndex r.tipNames r.splits) (canonSide c.tipNames e.below)).map (·.len) with
    | none => rfl
    | some a => rw [hv] at h1; cases h1

theorem rat_sub_eq_zero {a b : Rat} : a - b = 0 ↔ a = b := by
  constructor
  · intro h; grind
  · intro h; rw [h]; grind

/-- the weighted identity flag -/
theorem wsame_eq (r c : T) (tips : Bool) (hT : sameTaxa r c = true) (hr : good r = true) (hc : good c = true) :
    ((c.splits.filter (counted tips)).all
        (fun e => hitLen (buildIndex r.tipNames r.splits) c.tipNames e == some e.e.len) &&
      (r.splits.filter (counted tips)).all
        (fun e => (hitLen (buildIndex c.tipNames c.splits) r.tipNames e).isSome))
      = wSame r c tips := by
  have hcp := common_perm r c tips hT hr hc
  rw [Bool.eq_iff_iff]
  unfold wSame sameSplits diffL
  rw [← hcp.all_eq]
  simp only [Bool.and_eq_true, all_eq_true, beq_iff_eq, isEmpty_iff, filter_eq_nil_iff, Bool.not_eq_true',
    Bool.not_eq_false, contains_iff_mem, mem_filterMap, Option.map_eq_some_iff]
  have hRmem : ∀ s, s ∈ r.splits.filter (counted tips) →
      ((hitLen (buildIndex c.tipNames c.splits) r.tipNames s).isSome = true ↔ canonSide r.tipNames s.below ∈ S tips c) := by
    intro s hs
    obtain ⟨h1, h2⟩ := mem_filter.mp hs
    rw [hit_iff_S c r tips (sameTaxa_symm r c hT) hc hr s h1 h2, contains_iff_mem]
  have hCmem : ∀ e, e ∈ c.splits.filter (counted tips) →
      ((hitLen (buildIndex r.tipNames r.splits) c.tipNames e).isSome = true ↔ canonSide c.tipNames e.below ∈ S tips r) := by
    intro e he
    obtain ⟨h1, h2⟩ := mem_filter.mp he
    rw [hit_iff_S r c tips hT hr hc e h1 h2, contains_iff_mem]
  constructor
  · rintro ⟨h1, h2⟩
    refine ⟨⟨?_, ?_⟩, ?_⟩
    · intro k hk
      obtain ⟨s, hs, rfl⟩ := mem_map.mp ((mem_S_iff r tips hr k).mp hk)
      exact (hRmem s hs).mp (h2 s hs)
    · intro k hk
      obtain ⟨e, he, rfl⟩ := mem_map.mp ((mem_S_iff c tips hc k).mp hk)
      exact (hCmem e he).mp (by rw [h1 e he]; rfl)
    · rintro d ⟨e, he, a, ha, rfl⟩
      rw [h1 e he] at ha
      cases ha
      exact rat_sub_eq_zero.mpr rfl
  · rintro ⟨⟨h1, h2⟩, h3⟩
    constructor
    · intro e he
      have hsome := (hCmem e he).mpr (h2 _ ((mem_S_iff c tips hc _).mpr (mem_map.mpr ⟨e, he, rfl⟩)))
      cases hv : hitLen (buildIndex r.tipNames r.splits) c.tipNames e with
      | none => rw [hv] at hsome; cases hsome
      | some a =>
        have := h3 (a - e.e.len) ⟨e, he, a, hv, rfl⟩
        rw [rat_sub_eq_zero.mp this]
    · intro s hs
      exact (hRmem s hs).mpr (h1 _ ((mem_S_iff r tips hr _).mpr (mem_map.mpr ⟨s, hs, rfl⟩)))

/-- `weighted_terms` under the semantic hypotheses -/
theorem compareWeighted_noSC_of_good (r c : T) (tips : Bool) (hT : sameTaxa r c = true)
    (hr : good r = true) (hc : good c = true) :
    ∃ w, compareWeighted r c tips false = .ok w ∧
      w.tree1 ~ onlyLens (U tips r) (U tips c) ∧ w.tree2 ~ onlyLens (U tips c) (U tips r) ∧
      w.common ~ commonDiffs (U tips r) (U tips c) ∧ w.same = wSame r c tips := by
  obtain ⟨hr1, hr2, _, _, _⟩ := good_parts hr
  obtain ⟨hc1, _, _, _, _⟩ := good_parts hc
  have hperm := perm_of_sameTaxa r c hT (nodup_of_uniqueTips r hr1) (nodup_of_uniqueTips c hc1)
  have h1 := reinitOk_of_good hr
  have h2 := reinitOk_of_good hc
  have h3 := compareTipIndexes_of_perm hperm hr2
  unfold compareWeighted
  simp only [h1, h2, h3, Bool.not_true, Bool.false_eq_true, if_false, wLoop1_noSC, wLoop2_noSC, Bool.true_and]
  refine ⟨_, rfl, ?_, ?_, ?_, ?_⟩
  · exact only_model_spec r c tips (sameTaxa_symm r c hT) hr hc
  · exact only_model_spec c r tips hT hc hr
  · exact common_perm r c tips hT hr hc
  · exact wsame_eq r c tips hT hr hc

/-! ## CommonEdges / FindEdge -/

theorem commonLoop_closed (all1 all2 : List String) (tips : Bool) (edges2 l : List SplitE) (acc : Nat × Nat) :
    commonLoop all1 all2 tips edges2 l acc =
      (acc.1 + l.countP (counted tips),
       acc.2 + l.countP (fun e => counted tips e && findEdge all1 all2 e edges2)) := by
  induction l generalizing acc with
  | nil => simp [commonLoop]
  | cons e r ih =>
    obtain ⟨t1, co⟩ := acc
    unfold commonLoop
    cases hc : counted tips e with
    | false => simp only [Bool.false_eq_true, if_false]; rw [ih]; simp [hc]
    | true =>
      simp only [if_true]
      rw [ih]
      cases hf : findEdge all1 all2 e edges2 <;> simp [hc, hf] <;> omega

/-- the linear search succeeds exactly when the split is a split of the other tree that counts -/
theorem findEdge_iff_S (r c : T) (tips : Bool) (hT : sameTaxa r c = true) (hr : good r = true) (hc : good c = true)
    (e : SplitE) (he : e ∈ r.splits) (hcnt : counted tips e = true) :
    findEdge r.tipNames c.tipNames e c.splits = (S tips c).contains (canonSide r.tipNames e.below) := by
  obtain ⟨hr1, _, _, hr4, _⟩ := good_parts hr
  obtain ⟨hc1, _, _, hc4, _⟩ := good_parts hc
  have hperm := perm_of_sameTaxa r c hT (nodup_of_uniqueTips r hr1) (nodup_of_uniqueTips c hc1)
  rw [Bool.eq_iff_iff, contains_iff_mem, mem_S_iff c tips hc]
  unfold findEdge key
  simp only [any_eq_true, Bool.and_eq_true, beq_iff_eq, mem_map, mem_filter]
  constructor
  · rintro ⟨e2, he2, ht, hk⟩
    refine ⟨e2, ⟨he2, ?_⟩, hk.symm⟩
    unfold counted at hcnt ⊢
    rw [← ht]; exact hcnt
  · rintro ⟨e2, ⟨he2, _⟩, hk⟩
    refine ⟨e2, he2, ?_, hk.symm⟩
    have h1 := (all_eq_true.mp hr4) e he
    have h2 := (all_eq_true.mp hc4) e2 he2
    simp only [beq_iff_eq] at h1 h2
    rw [h1, h2, ← hk, lightSize_perm hperm]

theorem commonEdges_of_good (r c : T) (tips : Bool) (hT : sameTaxa r c = true)
    (hr : good r = true) (hc : good c = true) :
    commonEdges r c tips =
      .ok (((diffL (S tips r) (S tips c)).length : Int), ((interL (S tips r) (S tips c)).length : Int)) := by
  obtain ⟨hr1, hr2, hr3, hr4, _⟩ := good_parts hr
  obtain ⟨hc1, _, _, _, _⟩ := good_parts hc
  have hperm := perm_of_sameTaxa r c hT (nodup_of_uniqueTips r hr1) (nodup_of_uniqueTips c hc1)
  have h3 := compareTipIndexes_of_perm hperm hr2
  unfold commonEdges
  simp only [h3, Bool.not_true, Bool.false_eq_true, if_false, commonLoop_closed, Nat.zero_add]
  have hR := S_length r tips hr
  have e1 := length_inter_add_diff (S tips r) (S tips c)
  have hco : r.splits.countP (fun e => counted tips e && findEdge r.tipNames c.tipNames e c.splits)
      = (interG (S tips r) (S tips c)).length := by
    have e1 : r.splits.countP (fun e => counted tips e && findEdge r.tipNames c.tipNames e c.splits)
        = ((r.splits.filter (counted tips)).filter
            (fun e => (S tips c).contains (canonSide r.tipNames e.below))).length := by
      rw [countP_eq_length_filter, filter_filter]
      congr 1
      apply filter_congr
      intro e he
      cases hcnt : counted tips e with
      | false => simp
      | true => rw [findEdge_iff_S r c tips hT hr hc e he hcnt]; simp
    rw [e1]
    have e2 : (interG ((r.splits.filter (counted tips)).map (fun s => canonSide r.tipNames s.below)) (S tips c)).length
        = ((r.splits.filter (counted tips)).filter
            (fun e => (S tips c).contains (canonSide r.tipNames e.below))).length := by
      unfold interG
      rw [filter_map, length_map]
      rfl
    rw [← e2]
    exact (inter_perm (S_perm r tips hr3 hr4).symm (Perm.refl _)).length_eq
  rw [diffL_eq, interL_eq]
  refine congrArg Res.ok ?_
  simp only [Prod.mk.injEq]
  constructor <;> omega

/-! ## what the command prints -/

theorem perm_sum_rat {a b : List Rat} (h : a ~ b) : a.sum = b.sum := by
  induction h with
  | nil => rfl
  | cons x _ ih => simp only [sum_cons, ih]
  | swap x y l => simp only [sum_cons]; grind
  | trans _ _ ih1 ih2 => exact ih1.trans ih2

/-- the Spec's weighted Robinson-Foulds distance and the radicand of the branch score -/
def wrfSpec (r c : T) (tips : Bool) : Rat :=
  ((commonDiffs (U tips r) (U tips c)).map absR).sum + (onlyLens (U tips r) (U tips c)).sum +
    (onlyLens (U tips c) (U tips r)).sum

def kf2Spec (r c : T) (tips : Bool) : Rat :=
  ((commonDiffs (U tips r) (U tips c)).map fun d => d * d).sum +
    ((onlyLens (U tips r) (U tips c)).map fun d => d * d).sum +
    ((onlyLens (U tips c) (U tips r)).map fun d => d * d).sum

theorem sums_of_perm (w : WStats) (r c : T) (tips : Bool)
    (h1 : w.tree1 ~ onlyLens (U tips r) (U tips c)) (h2 : w.tree2 ~ onlyLens (U tips c) (U tips r))
    (h3 : w.common ~ commonDiffs (U tips r) (U tips c)) :
    wrf w = wrfSpec r c tips ∧ kf2 w = kf2Spec r c tips := by
  unfold wrf kf2 wrfSpec kf2Spec
  rw [perm_sum_rat (h3.map absR), perm_sum_rat h1, perm_sum_rat h2,
    perm_sum_rat (h3.map fun d => d * d), perm_sum_rat (h1.map fun d => d * d),
    perm_sum_rat (h2.map fun d => d * d)]
  exact ⟨rfl, rfl⟩

end Gotree.C08.Canon
