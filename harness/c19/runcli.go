package c19

import (
	"bytes"
	"context"
	"os"
	"os/exec"
	"path/filepath"
	"strings"
	"time"

	"verifharness/core"
)

// runIn is core.Ctx.RunCLI with a working directory (the outputs a command writes under a
// default name, e.g. `divide`, land in a directory of their own).
func runIn(c *core.Ctx, dir, stdin string, timeout time.Duration, args ...string) core.CLIResult {
	ctx, cancel := context.WithTimeout(context.Background(), timeout)
	defer cancel()
	bin := c.Gotree
	if abs, err := filepath.Abs(bin); err == nil {
		bin = abs
	}
	cmd := exec.CommandContext(ctx, bin, args...)
	cmd.Dir = dir
	cmd.Stdin = strings.NewReader(stdin)
	var so, se bytes.Buffer
	cmd.Stdout = &so
	cmd.Stderr = &se
	cmd.Env = append(append(os.Environ(), "GOMEMLIMIT=2GiB"), extraEnv...)
	err := cmd.Run()
	r := core.CLIResult{Stdout: so.String(), Stderr: se.String()}
	if ctx.Err() == context.DeadlineExceeded {
		r.Timeout = true
		r.Exit = -1
		return r
	}
	if err != nil {
		if ee, ok := err.(*exec.ExitError); ok {
			r.Exit = ee.ExitCode()
		} else {
			r.Exit = -2
		}
	}
	return r
}
