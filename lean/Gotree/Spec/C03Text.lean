/-
  C03 — the hypotheses under which the reference reader re-reads the writer's text
  (`write_describes`), as Boolean predicates the driver evaluates (tag `hyp-textwf`).
  Core Lean only.
-/
import Gotree.Spec.C03
import Gotree.Model.C01

namespace Gotree.C03
open Gotree Gotree.Newick

def notMeta (l : List Char) : Bool := l.all (fun c => !isMeta c)


def commentOK3 (c : String) : Bool := c.toList.all (· != ']')


/- ## the hypotheses on names, comments and numbers -/

/-- the text of a number: no metacharacter, no '/', and it denotes the value (within float64 printing) -/
def numTextOK (C : Codec) (q : Rat) : Bool :=
  notMeta (C.fmt q) && (C.fmt q).all (· != '/') && decOK (String.ofList (C.fmt q)) q

/-- a node and the branch above it can be told apart in the text -/
def decorWF (C : Codec) (d : NodeD) (e : EdgeD) : Bool :=
  notMeta d.name.toList && d.comments.all commentOK3 && e.comments.all commentOK3 &&
  (e.len == NIL || numTextOK C e.len) && (e.len != NIL || e.comments.isEmpty) &&
  (d.name != "" || e.sup == NIL || (numTextOK C e.sup && (e.pval == NIL || numTextOK C e.pval)))

mutual
def textWFsub (C : Codec) : T → Bool
  | .node _ _ k => textWFL C k
def textWFL (C : Codec) : Kids → Bool
  | [] => true
  | (e, t) :: r => decorWF C t.d e && textWFsub C t && textWFL C r
end

/-- the whole tree: the root has no branch above it -/
def textWF (C : Codec) (t : T) : Bool :=
  notMeta t.d.name.toList && t.d.comments.all commentOK3 && textWFsub C t


end Gotree.C03
