import Driver.Proto
import Gotree.Spec.C05
import Gotree.Model.C05Cli
import Gotree.Model.C05Orient
import Gotree.Model.C05Index
import Gotree.Model.C05History

namespace Gotree.Driver.C05
open Gotree Gotree.Driver Gotree.C05

/-- `obs_C05` (DESIGN §4.2): tip set, unrooted splits with (length, support), tip branch
    lengths, distance matrix, number of neighbours of the root (rooted / unrooted / rooted at a tip —
    which node `UnRoot` keeps as root when a root child is a tip shows here); with `root`: the tip sets of the root's children, the root
    branch lengths and the root-to-tip distances. -/
def showU (l : List USplit) : String :=
  joinTerm ";" (l.map fun s => showStrList s.side ++ ":" ++ showRat s.len ++ ":" ++ showRat s.sup)

def obs (root : Bool) (u : T) : String :=
  let tips := sortS u.tipNames
  showStrList tips ++ "|" ++ showU u.usplits ++ "|" ++
    joinTerm ";" (u.tipLens.map fun p => showStrList p.1 ++ ":" ++ showRat p.2) ++ "|" ++
    showRatMatrix u.distMatrix.2 ++ "|deg" ++ toString u.kids.length ++
    (if root then
      "|" ++ joinTerm ";" (sortStrings (u.kids.map fun k => showStrList (sortS k.2.leaves) ++ ":" ++ showRat k.1.len ++ ":" ++ showRat k.1.sup)) ++
      "|" ++ showRatList (tips.map u.rootDist)
     else "")

def parseBool : String → Option Bool
  | "1" => some true | "0" => some false | _ => none

def startsWith (s p : String) : Bool := p.toList.isPrefixOf s.toList

structure Case where
  t : T                         -- before
  model : Res T
  outcome : String              -- ok | err | panic:… | malformed:…
  after : String                -- dump or ""
  root : Bool                   -- compare the root-dependent part of the observation
  small : Bool                  -- outside the property's quantifier (< 3 tips)
  tags : List String
  /-- oracle on a successful result; `some msg` = violated -/
  okOracle : T → Option String
  /-- oracle on a refusal; `some msg` = must not have been refused -/
  errOracle : Option String

def judge (c : Case) : Verdict :=
  let uniq := C05.uniq c.t
  let tags := c.tags ++ tagIf uniq "uniq" ++ tagIf c.t.rooted "rooted" ++ tagIf (c.t.kids.length == 1) "roottip" ++
    tagIf (c.t.kids.length > 3) "multiroot" ++ tagIf (!c.t.binary) "multif" ++
    tagIf (c.t.edges.any (·.len == 0)) "zerolen" ++ tagIf (c.t.edges.any (·.len == NIL)) "nolen" ++
    tagIf c.small "small" ++ tagIf (!c.t.noSingle) "singles" ++ tagIf c.t.noSingle "hyp-nosingle" ++ tagIf (lensOK c.t) "hyp-lensok" ++ tagIf (supsOK c.t) "hyp-supsok" ++ tagIf (keysOK c.t) "hyp-keysok" ++ tagIf (plainNames c.t) "hyp-plainnames" ++ tagIf (allLens c.t) "hyp-alllens" ++ tagIf (branchesDistinct c.t) "hyp-branchesdistinct" ++ ["model-" ++ c.model.cls]
  if !uniq then ⟨.pass, "skip-dupnames" :: tags, ""⟩ else
  if startsWith c.outcome "malformed" then ⟨.oracle, tags, "heap malformed after the operation: " ++ c.outcome⟩ else
  if startsWith c.outcome "panic" then
    if c.small then
      (match c.model with
       | .panic _ => ⟨.pass, "panic-small" :: tags, ""⟩
       | _ => ⟨.tie, tags, "implementation panics, model says " ++ c.model.cls⟩)
    else ⟨.oracle, tags, c.outcome⟩
  else if c.outcome == "err" then
    if c.small then
      (match c.model with
       | .err _ => ⟨.pass, "refused" :: tags, ""⟩
       | m => ⟨.tie, tags, "implementation refuses (tree outside the quantifier), model says " ++ m.cls⟩)
    else
    match c.errOracle with
    | some msg => ⟨.oracle, tags, msg⟩
    | none =>
      match c.model with
      | .err _ => ⟨.pass, "refused" :: tags, ""⟩
      | m => ⟨.tie, tags, "implementation refuses, model says " ++ m.cls⟩
  else if c.outcome == "ok" then
    match T.undump c.after with
    | none => bad "C05: after dump"
    | some u =>
      let changed := c.after != c.t.dump
      let tags := tags ++ tagIf changed "nontrivial"
      if c.small then
        -- outside the property's quantifier (< 3 tips): no oracle, but the model must still follow the code
        (match c.model with
         | .ok m =>
           if obs c.root m != obs c.root u then ⟨.tie, tags, "model obs " ++ obs c.root m⟩
           else ⟨.pass, tags ++ tagIf (m.dump == c.after) "exact" ++ tagIf (m.dump != c.after) "inexact", ""⟩
         | m => ⟨.tie, tags, "implementation succeeds (tree outside the quantifier), model says " ++ m.cls⟩)
      else
      match c.okOracle u with
      | some msg => ⟨.oracle, tags, msg⟩
      | none =>
        match c.model with
        | .ok m =>
          if obs c.root m != obs c.root u then ⟨.tie, tags, "model obs " ++ obs c.root m⟩
          else ⟨.pass, tags ++ tagIf (m.dump == c.after) "exact" ++ tagIf (m.dump != c.after) "inexact", ""⟩
        | m => ⟨.tie, tags, "implementation succeeds, model says " ++ m.cls⟩
  else bad ("C05: outcome " ++ c.outcome)

def presMsg (t u : T) : Option String :=
  if !(sameTips t u) then some "tip set changed"
  else if !(sameSplits t u) then some "splits / lengths / supports changed"
  else if !(sameDists t u) then some "tip-to-tip distances changed"
  else none

/-- classifier of the finding about RerootMidPoint (narrow: operation midpoint, the model
    says the chosen longest path is walked from the wrong end — `midpointStale`, which needs a
    zero-length branch —, and the wrong observation is distances / lengths or the halfway
    clause, not the tip set) -/
def midClass (t u : T) : String :=
  if midpointStale t && sameTips t u then "(region of the repaired defect MidpointZeroLengthFarEnd, 23d32a8) " else ""

/-- the oracle on a successful outgroup rooting (library call and every tree written by the command) -/
def outgroupOkMsg (t : T) (rm strict : Bool) (S : List String) (u : T) : Option String :=
  let side := isSide t S
  let s := outTips t S
  if strict && !side then some "non-monophyletic outgroup accepted in strict mode"
  else if rm then
    (if side && !(removedOK t s u) then some "outgroup removed: the rest is not the restriction of the tree"
     else if !(removedAnyOK t s u) then
       some "outgroup removed: what is left is not the tree restricted to the surviving tips (lengths, supports), or the removed tips are not one side of a split containing the outgroup"
     else none)
  else match presMsg t u with
    | some m => some m
    | none =>
      if side then
        (if branchesDistinct t then
           (if cladeOK t S u then none else some "outgroup is not a root clade cut at half the branch")
         else if cladeWeak t S u then none else some "outgroup is not a root clade on two equal branches")
      else (if insideOK t S u then none else some "outgroup not inside one root clade")


/-- `i.j.k` -/
def parseDots (s : String) : Option (List Nat) :=
  if s == "" then some [] else (s.splitOn ".").mapM (·.toNat?)

/-- one step of a history (harness/c05/index.go) -/
def parseStep (s : String) : Option Step :=
  match s.splitOn ":" with
  | ["reroot", p] => (parseDots p).map .reroot
  | ["unroot"] => some .unroot
  | ["outgroup", rm, st, names] =>
    match parseBool rm, parseBool st, (names.splitOn "+").mapM unescape with
    | some rm, some st, some S => some (.outgroup rm st S)
    | _, _, _ => none
  | ["midpoint"] => some .midpoint
  | ["sort"] => some .sort
  | ["rerootfirst"] => some .rerootFirst
  | ["rotate", _seed, ds] => (parseDots ds).map .rotate
  | _ => none

def stepTag : Step → String
  | .reroot _ => "reroot" | .unroot => "unroot" | .outgroup true _ _ => "outgroup-remove" | .outgroup false _ _ => "outgroup"
  | .midpoint => "midpoint" | .sort => "sort" | .rerootFirst => "rerootfirst" | .rotate _ => "rotate"

/-- bitset of a branch: `n` or `<length>:<b.b.b>` -/
def parseBits (s : String) : Option (Option (Nat × List Nat)) :=
  if s == "n" then some none else
  match s.splitOn ":" with
  | [l, b] => match l.toNat?, parseDots b with
    | some l, some b => some (some (l, b))
    | _, _ => none
  | _ => none

def sortNat (l : List Nat) : List Nat := l.mergeSort (fun a b => decide (a ≤ b))

/-- the index observation for the tie: independent of the order of tips and branches (child order is not
    part of `obs_C05`): the count, the number of every tip by name, the bitsets as a sorted list -/
def canonIndex (names : List String) (nb : Int) (ids : List Int) (bits : List (Option (Nat × List Nat))) : String :=
  toString nb ++ "|" ++ joinTerm "," (sortStrings ((List.zip names ids).map fun p => escape p.1 ++ "=" ++ toString p.2)) ++ "|" ++
    joinTerm ";" (sortStrings (bits.map fun b => match b with | none => "n" | some (l, s) => toString l ++ ":" ++ toString (sortNat s)))

/-- the index observation, set bits as sets -/
def showIndex (nb : Int) (ids : List Int) (bits : List (Option (Nat × List Nat))) : String :=
  toString nb ++ "|" ++ toString ids ++ "|" ++
    joinTerm ";" (bits.map fun b => match b with | none => "n" | some (l, s) => toString l ++ ":" ++ toString (sortNat s))

def handle (op : String) (f : List String) : Verdict :=
  match op, f with
  | "reroot", [dump, ps, outcome, after] =>
    match T.undump dump, parseNatList ps with
    | some t, some path =>
      let small := t.tipNames.length < 3
      let target := nodeAt t path
      let inner := match target with
        | some n => (if path.isEmpty then n.kids.length else n.kids.length + 1) ≥ 2
        | none => false
      judge { t := t, model := reroot t path, outcome := outcome, after := after, root := true, small := small,
              tags := ["op-reroot"] ++ tagIf inner "inner-target" ++ tagIf (!inner) "tip-target" ++ tagIf (path.length ≥ 2) "deep" ++ tagIf (path.length == 1) "single-move",
              okOracle := (fun u => if !inner then some "rerooted on a tip" else presMsg t u),
              errOracle := if inner then some "inner node refused as new root" else none }
    | _, _ => bad "C05.reroot fields"
  | "unroot", [dump, outcome, after] =>
    match T.undump dump with
    | some t =>
      judge { t := t, model := .ok (unroot t), outcome := outcome, after := after, root := false,
              small := t.tipNames.length < 3, tags := ["op-unroot"],
              -- (a root child with exactly two neighbours becomes a root with two neighbours again: only
              --  without such nodes must the result have a root of degree ≠ 2)
              okOracle := (fun u => if u.rooted && t.noSingle && u.tipNames.length ≥ 3 then some "still rooted" else presMsg t u),
              errOracle := some "unroot failed" }
    | none => bad "C05.unroot fields"
  | "outgroup", [dump, rms, sts, ss, kind, outcome, after] =>
    match T.undump dump, parseBool rms, parseBool sts, parseStrList ss with
    | some t, some rm, some strict, some S =>
      let side := isSide t S
      let s := outTips t S
      let tags := ["op-outgroup", "kind-" ++ kind] ++ tagIf rm "remove" ++ tagIf strict "strict" ++ tagIf side "side" ++
        tagIf (s.length != S.length) "absent-names" ++ tagIf (rm && !strict && !side) "remove-nonside" ++
        tagIf (side && (sideLen t s == some 0)) "zero-cut" ++ tagIf (side && (sideLen t s == some NIL)) "nolen-cut"
      -- a refusal: `after` = "E" escaped message "|" state the tree was left in (dump, or "!" = malformed)
      let refused := outcome == "err"
      let (emsg, estate) := if refused then (match after.splitOn "|" with | [m, st] => (m, st) | _ => (after, "")) else ("", "")
      let cause := refusalCause t rm strict S
      let several := (emsg.splitOn "Several%20possible%20branches").length > 1
      -- the recorded deviation (narrow): non-strict mode, the outgroup is not a side, no other cause of
      -- refusal applies, the ancestor of the outgroup has several branches without outgroup tips, and the
      -- code refuses with its "Several possible branches for root placement" error
      let polytomy := refused && !strict && !side && cause.isNone && ancestorAmbiguous t S && several
      let tags := tags ++ tagIf (!side && !s.isEmpty && ancestorAmbiguous t S) "ancestor-multifurcating" ++
        tagIf (refused && cause == some "strict-nonside") "nontrivial" ++
        (if refused then [if t.tipNames.length < 3 then "refused-small" else match cause with | some c => "refused-" ++ c | none => if polytomy then "refused-polytomy" else "refused-unexplained"] else []) ++
        tagIf (refused && rm && (match T.undump estate with | some u => u.tipNames.length != t.tipNames.length | none => false)) "refused-after-deleting"
      -- a refusal without removal must leave the tree itself as it was (it may have been unrooted / re-rooted)
      let stateMsg : Option String :=
        if !refused || rm || estate == "" then none
        else if estate == "!" then some "after the refusal the tree is not well formed any more"
        else match T.undump estate with
          | some u => (presMsg t u).map ("after the refusal: " ++ ·)
          | none => some "after the refusal: unreadable state"
      judge { t := t, model := rerootOutGroup rm strict S t, outcome := outcome, after := after, root := true,
              small := t.tipNames.length < 3, tags := tags,
              okOracle := (fun u => outgroupOkMsg t rm strict S u),
              errOracle := (match cause with
                | some _ => stateMsg
                | none =>
                  if polytomy then
                    some ("class=OutgroupNonStrictMultifurcationRefused non-strict outgroup rooting refused (\"Several possible branches for root placement\"): the ancestor of the outgroup is a multifurcation, the statement requires the outgroup to end up inside one root clade")
                  else some ("outgroup rooting refused (" ++ emsg ++ ") although the statement requires it to succeed: the outgroup " ++
                    (if side then "is one side of a split with at least two tips on the other side" else "is not a side, non-strict mode"))) }
    | _, _, _, _ => bad "C05.outgroup fields"
  | "midpoint", [dump, outcome, after] =>
    match T.undump dump with
    | some t =>
      let positive := allLens t && diam t > 0
      -- which of several longest paths is cut is the implementation's choice: the tie compares
      -- the unrooted observation; the root position is pinned by the oracle (`halfwayOK`)
      -- … but when the longest path is unique there is no choice: then the root position (root clades, root
      -- branch data, root-to-tip distances) is part of the tie as well
      let tips := sortS t.tipNames
      let D := diam t
      let nmax := (tips.map fun a => (tips.filter fun b => decide (a < b) && t.dist a b == D).length).sum
      judge { t := t, model := rerootMidPoint t, outcome := outcome, after := after, root := nmax == 1,
              small := t.tipNames.length < 3,
              tags := ["op-midpoint"] ++ tagIf positive "positive" ++ tagIf (allLens t && diam t == 0) "allzero" ++ tagIf (midpointStale t) "stale-farend" ++ tagIf (nmax == 1) "unique-longest" ++ tagIf (nmax > 1) "tied-longest" ++
                tagIf (match rerootMidPoint t with | .ok m => m.kids.any (·.1.len == 0) && diam t > 0 | _ => false) "mid-root-on-node" ++
                tagIf (match rerootMidPoint t with | .ok m => nmax == 1 && m.kids.any (fun k => k.1.len == 0 && k.1.sup != NIL) | _ => false) "mid-on-node-unique-supported",
              okOracle := (fun u =>
                match presMsg t u with
                | some m => some (midClass t u ++ m)
                | none => if halfwayOK t u then none else some (midClass t u ++ "root not halfway along a longest path")),
              errOracle := if positive then some "midpoint refused although a positive path exists" else none }
    | none => bad "C05.midpoint fields"
  | "rotate", [dump, _seed, ds, sync, outcome, after] =>
    match T.undump dump, parseNatList ds with
    | some t, some draws =>
      let bounds := drawBounds true t
      let protoOK := draws.length == bounds.length && (List.zipWith (fun d b => decide (d < b)) draws bounds).all id
      if !protoOK then ⟨.tie, ["op-rotate"], "draw protocol: model expects bounds " ++ toString bounds⟩ else
      if sync != "1" then ⟨.tie, ["op-rotate"], "the implementation did not consume exactly the modelled draws"⟩ else
      judge { t := t, model := .ok (rotate t draws), outcome := outcome, after := after, root := false,
              small := t.tipNames.length < 3, tags := ["op-rotate"],
              okOracle := (fun u => presMsg t u), errOracle := some "rotate failed" }
    | _, _ => bad "C05.rotate fields"
  | "sort", [dump, outcome, after] =>
    match T.undump dump with
    | some t =>
      judge { t := t, model := .ok (sortT t), outcome := outcome, after := after, root := false,
              small := t.tipNames.length < 3, tags := ["op-sort"],
              okOracle := (fun u => presMsg t u), errOracle := some "sort failed" }
    | none => bad "C05.sort fields"
  | "rerootfirst", [dump, outcome, after] =>
    match T.undump dump with
    | some t =>
      let has3 := (firstDeg3 true t).isSome
      judge { t := t, model := rerootFirst t, outcome := outcome, after := after, root := true,
              small := t.tipNames.length < 3, tags := ["op-rerootfirst"] ++ tagIf has3 "has-deg3",
              okOracle := (fun u => if u.kids.length != 3 then some "the new root does not have three neighbours" else presMsg t u),
              errOracle := if has3 then some "a node with three neighbours exists" else none }
    | none => bad "C05.rerootfirst fields"
  | "orient", [dump, ps, f1, revs, f2, pars, pars0] =>
    match T.undump dump, parseNatList ps, parseIntList revs, parseStrList pars, parseStrList pars0 with
    | some t, some path, some rev, some parents, some parents0 =>
      let o1 := setRootO (orient t) path none
      let r := o1.reorder
      let showF (l : List Bool) : String := String.join (l.map fun b => if b then "1" else "0")
      let tags := ["op-orient"] ++ tagIf (!rev.isEmpty) "nontrivial" ++ tagIf (path.length ≥ 2) "deep"
      -- oracle (C03's clause, observed here): after ReorderEdges every branch points away from the root and
      -- Parent() is the parent for every node but the root
      if f2.toList.any (· != '1') then ⟨.oracle, tags, "a branch does not point away from the root after ReorderEdges"⟩ else
      if parents.head? != some "none" || (parents.drop 1).any (· != "parent") then
        ⟨.oracle, tags, "Parent()/ParentEdge() do not answer the parent after ReorderEdges"⟩ else
      if o1.parents none != parents0 then ⟨.tie, tags, "Parent() after SetRoot, before ReorderEdges: model " ++ showStrList (o1.parents none)⟩ else
      if showF o1.flags != f1 then ⟨.tie, tags, "orientation after SetRoot: model " ++ showF o1.flags⟩ else
      if r.2.map (·.id) != rev then ⟨.tie, tags, "reversed branches: model " ++ toString (r.2.map (·.id))⟩ else
      if showF r.1.flags != f2 || r.1.parents none != parents then ⟨.tie, tags, "after ReorderEdges the model differs"⟩ else
      ⟨.pass, tags, ""⟩
    | _, _, _, _, _ => bad "C05.orient fields"
  | "cli", [kind, dumps, rms, sts, argss, files, _seed, ds, cls, outs] =>
    let k? : Option CliKind := match kind with
      | "outgroup-args" => some .outgroup | "outgroup-file" => some .outgroup | "outgroup-none" => some .outgroup | "outgroup-stdin" => some .outgroup
      | "midpoint" => some .midpoint | "unroot" => some .unroot
      | "rotate-rand" => some .rotateRand | "rotate-sort" => some .rotateSort | _ => none
    match k?, (splitTerm "|" dumps).mapM T.undump, parseBool rms, parseBool sts, parseStrList argss,
        (if files == "-" then some none else (parseStrList (dropFirst files)).map some), parseNatList ds,
        (splitTerm "|" outs).mapM T.undump with
    | some k, some trees, some rm, some strict, some args, some file, some draws, some us =>
      -- "err-several" = exit status ≠ 0 with the message "Several possible branches for root placement"
      let several := cls == "err-several"
      let cls := if several then "err" else cls
      let (ms, mcls) := cliRun k rm strict file args draws trees
      let tags := ["cli", "cli-" ++ kind] ++ tagIf (trees.length > 1) "cli-multi" ++ tagIf (!us.isEmpty) "nontrivial" ++
        tagIf (trees.all (·.uniqueTips)) "uniq" ++ ["cli-" ++ cls]
      if !(trees.all fun t => C05.uniq t) then ⟨.pass, "skip-dupnames" :: tags, ""⟩ else
      if cls == "timeout" || cls == "badoutput" then ⟨.oracle, tags, "command " ++ cls⟩ else
      if cls == "panic" && trees.all (fun t => t.tipNames.length ≥ 3) then ⟨.oracle, tags, "command panics"⟩ else
      -- oracle: every tree written is the corresponding input tree (when nothing is removed)
      let bad := (List.zip trees us).filter fun p => !(k == .outgroup && rm) && p.1.tipNames.length ≥ 3 && !(preserved p.1 p.2)
      if !bad.isEmpty then ⟨.oracle, tags, "a written tree is not the input tree"⟩ else
      let tips := match cliTips file args with | .ok l => l | _ => []
      -- oracle: the clauses of the property on every tree written (clade / inside / removed / halfway)
      let msgs := (List.zip trees us).filterMap fun p =>
        if p.1.tipNames.length < 3 then none
        else if k == .outgroup then outgroupOkMsg p.1 rm strict tips p.2
        else if k == .midpoint then (if halfwayOK p.1 p.2 then none else some "root not halfway along a longest path")
        else none
      if let m :: _ := msgs then ⟨.oracle, tags, "a written tree: " ++ m⟩ else
      -- oracle: the command may stop on a tree only for a cause of refusal the statement allows
      let stopped : Option T := if k == .outgroup && cls == "err" && (match cliTips file args with | .ok _ => true | _ => false) then trees[us.length]? else none
      let stopMsg : Option String := match stopped with
        | some t =>
          if t.tipNames.length < 3 then none else
          (match refusalCause t rm strict tips with
           | some _ => none
           | none =>
             if !strict && !(isSide t tips) && ancestorAmbiguous t tips && several then
               some "class=OutgroupNonStrictMultifurcationRefused the command stops on a tree where the ancestor of the (non-monophyletic) outgroup is a multifurcation, non-strict mode"
             else some "the command refuses a tree although the statement requires the rooting to succeed")
        | none => none
      let tags := tags ++ (match stopped with
        | some t => if t.tipNames.length < 3 then [] else [match refusalCause t rm strict tips with | some c => "refused-" ++ c | none => if !strict && !(isSide t tips) && ancestorAmbiguous t tips && several then "refused-polytomy" else "refused-unexplained"]
        | none => [])
      if let some m := stopMsg then ⟨.oracle, tags, m⟩ else
      if mcls != cls then ⟨.tie, tags, "command ends with " ++ cls ++ ", model says " ++ mcls⟩ else
      if ms.length != us.length then ⟨.tie, tags, "command wrote " ++ toString us.length ++ " trees, model " ++ toString ms.length⟩ else
      let root := k != .midpoint
      if (List.zip ms us).any (fun p => obs root p.1 != obs root p.2) then ⟨.tie, tags, "a written tree differs from the model's"⟩
      else ⟨.pass, tags, ""⟩
    | _, _, _, _, _, _, _, _ => bad "C05.cli fields"
  | "index", [dump, stepss, dones, outcome, after, nbs, idss, bitss, stales, trails] =>
    match T.undump dump, (splitTerm ";" stepss).mapM parseStep, dones.toNat?, parseStrList stales, (splitTerm "|" trails).mapM T.undump with
    | some t, some steps, some done, some stale, some trail =>
      -- oracle on every step of the history, between the implementation's own trees before and after it
      let stepMsgs := (List.zip steps (List.zip (t :: trail) trail)).filterMap fun (s, b, a) =>
        if !(C05.uniq b) || b.tipNames.length < 3 then none else
        (match s with
         | .outgroup rm st S => outgroupOkMsg b rm st S a
         | .midpoint => (match presMsg b a with | some m => some m | none => if halfwayOK b a then none else some "root not halfway along a longest path")
         | _ => presMsg b a).map fun m => "step " ++ stepTag s ++ " of the history: " ++ m
      let tags := ["op-index", "steps-" ++ toString steps.length] ++ (steps.map fun s => "step-" ++ stepTag s).eraseDups ++
        tagIf (C05.uniq t) "uniq" ++ tagIf t.rooted "rooted" ++ tagIf (!t.noSingle) "singles" ++ tagIf (t.kids.length == 1) "roottip" ++
        tagIf (steps.all (·.keeps)) "history-keeps" ++ tagIf (historyOK steps t) "hyp-historyok"
      if !(C05.uniq t) then ⟨.pass, "skip-dupnames" :: tags, ""⟩ else
      let (mdone, mres) := runSteps steps t
      if startsWith outcome "malformed" then ⟨.oracle, tags, "heap malformed after the history: " ++ outcome⟩ else
      if let m :: _ := stepMsgs then ⟨.oracle, tags, m⟩ else
      if startsWith outcome "panic" then
        (match mres with
         | .panic _ => if t.tipNames.length < 3 then ⟨.pass, "panic-small" :: tags, ""⟩ else ⟨.oracle, tags, outcome⟩
         | _ => ⟨.oracle, tags, outcome⟩)
      else if outcome == "err" then
        -- refusals are judged by the single-operation cases; here the model only has to follow
        (match mres with
         | .err _ => if mdone == done then ⟨.pass, "refused" :: tags, ""⟩ else ⟨.tie, tags, "history refused at step " ++ toString done ++ ", model at step " ++ toString mdone⟩
         | m => ⟨.tie, tags, "history refused at step " ++ toString done ++ ", model says " ++ m.cls⟩)
      else
      match T.undump after, nbs.toInt?, parseIntList idss, (splitTerm ";" bitss).mapM parseBits with
      | some u, some nb, some ids, some bits =>
        let tags := tags ++ tagIf (after != dump) "nontrivial" ++ tagIf (u.tipNames.length != t.tipNames.length) "tips-removed"
        -- oracle: a history that removes nothing leaves the tree itself as it was (`history_preserves`)
        let keepMsg : Option String :=
          if steps.all (·.keeps) && t.tipNames.length ≥ 3 then (presMsg t u).map ("after the history: " ++ ·) else none
        if let some m := keepMsg then ⟨.oracle, tags, m⟩ else
        -- oracle, on the implementation's own tree and indexes
        if !(indexOK u nb ids bits stale) then
          ⟨.oracle, tags, "after the history the indexes are not those of the tree: NbTips/TipIndex/bitsets read " ++ showIndex nb ids bits ++
            (if stale.isEmpty then "" else " stale names " ++ showStrList stale) ++ ", the tree requires " ++
            (let ix := indexOf u; showIndex ix.nb (ix.ids.map Int.ofNat) (ix.bits.map some))⟩
        else
        match mres with
        | .ok m =>
          if obs true m != obs true u then ⟨.tie, tags, "model obs after the history " ++ obs true m⟩ else
          let ix := indexOf m
          if canonIndex m.tipNames ix.nb (ix.ids.map Int.ofNat) (ix.bits.map some) != canonIndex u.tipNames nb ids bits then
            ⟨.tie, tags, "model index " ++ canonIndex m.tipNames ix.nb (ix.ids.map Int.ofNat) (ix.bits.map some)⟩
          else ⟨.pass, tags ++ tagIf (m.dump == after) "exact" ++ tagIf (m.dump != after) "inexact", ""⟩
        | m => ⟨.tie, tags, "history succeeds, model says " ++ m.cls⟩
      | _, _, _, _ => bad "C05.index observation fields"
    | _, _, _, _, _ => bad "C05.index fields"
  | _, _ => bad ("C05: unknown op " ++ op)

end Gotree.Driver.C05
