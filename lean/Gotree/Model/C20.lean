/-
  C20 — executable model of the randomised selections of gotree, with the draws
  made explicit (DESIGN §3.5): every function takes the list of integers that
  `math/rand` handed to the Go code, in call order.

    cmd/sample.go:43-60   reservoir of trees, without replacement      `reservoir`
    cmd/sample.go:61-79   reservoir of trees, with replacement         `sampleReplace`
    cmd/prune.go:35       randomTips (same loop over `tr.Tips()`)      `randomTips`
    math/rand Perm        inside-out Fisher-Yates                      `goPerm`
    tree/tree.go:1024     ShuffleTips                                  `shuffleTips`
    tree/node.go:222      RotateNeighbors                              `rotate`, `rotateNode`, `rotateAll`
    tree/treegen.go:19    RandomUniformBinaryTree                      `utree` (topology as clusters)

  Next to each function stands its *draw script*: the bounds `k` of the
  successive `rand.Intn(k)` calls (`0` stands for one `rand.Float64()` call).
  The harness replays that script on a twin source seeded like the global one.
  Core Lean only (linked into the driver).
-/
import Gotree.Model.Core

namespace Gotree.C20
open Gotree

/-! ## draw spaces -/

/-- All draw lists for the bounds given in *reverse* call order (last call first). -/
def spaceR : List Nat → List (List Nat)
  | [] => [[]]
  | b :: bs => (spaceR bs).flatMap fun ds => (List.range b).map fun j => ds ++ [j]

/-- All draw lists `d` with `d.length = bs.length` and `d[i] < bs[i]`, in lexicographic order. -/
def space (bs : List Nat) : List (List Nat) := spaceR bs.reverse

/-- `d` is a possible result list of the calls `Intn(bs[0]), Intn(bs[1]), …`. -/
def inBounds : List Nat → List Nat → Bool
  | [], [] => true
  | b :: bs, j :: ds => decide (j < b) && inBounds bs ds
  | _, _ => false

def fact : Nat → Nat
  | 0 => 1
  | n + 1 => (n + 1) * fact n

/-- `dfact m = (2m-1)!! = 1·3·…·(2m-1)` -/
def dfact : Nat → Nat
  | 0 => 1
  | m + 1 => (2 * m + 1) * dfact m

/-! ## reservoir without replacement (cmd/sample.go:43-60, cmd/prune.go randomTips) -/

/-- `j := rand.Intn(..); if j < k { out[j] = x }` -/
def resStep (k : Nat) (res : List α) (x : α) (j : Nat) : List α :=
  if j < k then res.set j x else res

/-- The loop; `i` is `totaltrees` (resp. the index of the tip), `res` the filled part of
    `outtrees` (`outtrees[:totaltrees]` is what the code keeps when fewer than `k` items came). -/
def resLoop (k : Nat) : List α → Nat → List α → List Nat → List α
  | [], _, res, _ => res
  | x :: xs, i, res, ds =>
    if i < k then resLoop k xs (i + 1) (res ++ [x]) ds
    else match ds with
      | [] => res
      | j :: ds' => resLoop k xs (i + 1) (resStep k res x j) ds'

def reservoir (k : Nat) (items : List α) (draws : List Nat) : List α :=
  resLoop k items 0 [] draws

/-- Bounds of the `Intn` calls: item `i ≥ k` draws `Intn(bound i)`.
    The code as it is now: `bound = (· + 1)`; before 1a7ed4d / cc52c59: `bound = id`. -/
def resScript (bound : Nat → Nat) (k n : Nat) : List Nat := (List.range' k (n - k)).map bound

/-- `randomTips(tr, k)`: the reservoir over `tr.Tips()` names. -/
def randomTips (t : T) (k : Nat) (draws : List Nat) : List String :=
  reservoir k t.tipNames draws

/-- Which tips `gotree prune` hands to `RemoveTips` (cmd/prune.go RunE), by order of priority:
    `-f` tip file > `-c` compared tree (the tips of the input that it lacks, `specificTips`) >
    `--random k` with `k > 0` (`randomTips`) > the names on the command line.  Only the third
    branch draws. -/
def pruneSelection (tipfile : Option (List String)) (comp : Option (List String)) (random : Int)
    (args : List String) (t : T) (draws : List Nat) : List String :=
  match tipfile with
  | some l => l
  | none =>
    match comp with
    | some ctips => t.tipNames.filter fun x => !ctips.contains x
    | none => if random > 0 then randomTips t random.toNat draws else args

/-- `gotree prune --random k` (k > 0) on a file of several trees: `randomTips` on each tree in turn, the
    draws running on; tree `i` with `nᵢ` tips makes `nᵢ - k` draws -/
def pruneRandomCmd (k : Nat) : List T → List Nat → List (List String)
  | [], _ => []
  | t :: ts, ds =>
    let m := t.tipNames.length - k
    randomTips t k (ds.take m) :: pruneRandomCmd k ts (ds.drop m)

def pruneRandomCmdScript (k : Nat) (ts : List T) : List Nat :=
  ts.flatMap fun t => resScript (· + 1) k t.tipNames.length

def pruneSelectionScript (tipfile comp : Bool) (random : Int) (n : Nat) : List Nat :=
  if !tipfile && !comp && random > 0 then resScript (· + 1) random.toNat n else []

/-! ## reservoir with replacement (cmd/sample.go:61-79) -/

/-- `for j := 0; j < numtrees; j++ { r := rand.Intn(totaltrees); if r == 0 { out[j] = t } }` -/
def replRow (x : α) : List (Option α) → List Nat → List (Option α) × List Nat
  | [], ds => ([], ds)
  | s :: ss, [] => (s :: ss, [])
  | s :: ss, r :: ds =>
    let p := replRow x ss ds
    ((if r == 0 then some x else s) :: p.1, p.2)

def replLoop : List α → List (Option α) → List Nat → List (Option α)
  | [], out, _ => out
  | x :: xs, out, ds =>
    let p := replRow x out ds
    replLoop xs p.1 p.2

/-- `outtrees := make([]*tree.Tree, numtrees)` (all nil), then the loop. -/
def sampleReplace (k : Nat) (items : List α) (draws : List Nat) : List (Option α) :=
  replLoop items (List.replicate k none) draws

/-- item `t` (0-based) makes `k` calls `Intn(t+1)` -/
def replScript (k n : Nat) : List Nat := (List.range n).flatMap fun t => List.replicate k (t + 1)

/-! ## the `gotree sample` command as a whole (cmd/sample.go RunE) -/

inductive CmdRes (α : Type) where
  | ok (out : List α)      -- exit 0, these trees written (one Newick line each)
  | err                    -- an error is logged and returned, nothing is written
  | panic                  -- the process dies
  deriving Repr, BEq

/-- `k` = `--nbtrees`; `opened` = `readTrees` could open the input; `items` = what the reader's
    channel delivers, in order: a tree (`some`) or an error (`none`; the reader stops there —
    an input holding no tree at all is delivered as one error, `EOF`).
    a negative `k` is refused first (`negative` = what then happens); the first
    error item makes the command return before anything is written; with `--replace` a slot that
    was never filled is `nil` and `t.Newick()` dereferences it. -/
def sampleCmdWith (negative : CmdRes α) (k : Int) (replace : Bool) (opened : Bool) (items : List (Option α))
    (draws : List Nat) : CmdRes α :=
  if k < 0 then negative
  else if !opened then .err
  else if items.any (·.isNone) then .err
  else
    let good := items.filterMap id
    if replace then
      let out := sampleReplace k.toNat good draws
      if out.any (·.isNone) then .panic else .ok (out.filterMap id)
    else .ok (reservoir k.toNat good draws)

/-- the command as it is now (4c7dd84): a negative `--nbtrees` is reported as an error before anything else -/
def sampleCmd (k : Int) (replace : Bool) (opened : Bool) (items : List (Option α)) (draws : List Nat) : CmdRes α :=
  sampleCmdWith .err k replace opened items draws

/-- before 4c7dd84: `make([]*tree.Tree, numtrees)` with a negative size killed the process -/
def sampleCmdPinned (k : Int) (replace : Bool) (opened : Bool) (items : List (Option α)) (draws : List Nat) : CmdRes α :=
  sampleCmdWith .panic k replace opened items draws

/-- the draws a successful run makes -/
def sampleCmdScript (k : Int) (replace : Bool) (n : Nat) : List Nat :=
  if replace then replScript k.toNat n else resScript (· + 1) k.toNat n

/-! ## rand.Perm (Go 1.23 math/rand/rand.go:229) and ShuffleTips -/

/-- `j := r.Intn(i+1); m[i] = m[j]; m[j] = i` with `i = m.length`; the array is
    zero-initialised, which is what `getD j 0` reads when `j = i`. -/
def permStep (m : List Nat) (j : Nat) : List Nat := (m ++ [m.getD j 0]).set j m.length

def goPerm (draws : List Nat) : List Nat := draws.foldl permStep []

def permScript (n : Nat) : List Nat := (List.range n).map (· + 1)

/-- `Tree.AllTipNames()` (tree.go:548, after 9642e30): the names of the tips in the order of `Tips()`;
    a root with one neighbour is a tip too and the walk goes on below it. -/
def allTipNames (t : T) : List String :=
  (if t.kids.length == 1 then [t.name] else []) ++ leavesL t.kids

/-- before 9642e30: a root with one neighbour was reported and the walk stopped there -/
def allTipNamesPinned (t : T) : List String :=
  if t.kids.length == 1 then [t.name] else leavesL t.kids

/-- Names of `t.Tips()` after `ShuffleTips`: `tips[i].SetName(names[perm[i]])` for
    `i < len(names)`, the other tips keep their name. -/
def shuffleTipsWith (allNames : T → List String) (t : T) (draws : List Nat) : List String :=
  let names := allNames t
  let tips := t.tipNames
  let p := goPerm (draws.take names.length)
  (p.map fun q => names.getD q "") ++ tips.drop p.length

def shuffleTips (t : T) (draws : List Nat) : List String := shuffleTipsWith allTipNames t draws

/-- `ShuffleTips` before 9642e30 (tip-rooted tree: only the root's own name is "shuffled") -/
def shuffleTipsPinned (t : T) (draws : List Nat) : List String := shuffleTipsWith allTipNamesPinned t draws

def shuffleScript (t : T) : List Nat := permScript (allTipNames t).length

/-! ## RotateNeighbors (tree/node.go:222) -/

def swapAt (a : List α) (i j : Nat) : List α :=
  match a[i]?, a[j]? with
  | some x, some y => (a.set i y).set j x
  | _, _ => a

/-- `for i := range neigh { j := rand.Intn(i+1); swap(i, j) }` -/
def rotLoop : List Nat → Nat → List α → List α
  | [], _, a => a
  | j :: ds, i, a => rotLoop ds (i + 1) (swapAt a i j)

def rotate (a : List α) (draws : List Nat) : List α := rotLoop (draws.take a.length) 0 a

def rotScript (len : Nat) : List Nat := (List.range len).map (· + 1)

/-! ## RotateNeighbors / RotateInternalNodes on the rose tree (tree/tree.go:1037) -/

/-- neighbours of a node: `none` is the parent (at position `ppos`) -/
def neighOf (isRoot : Bool) (t : T) : List (Option (EdgeD × T)) :=
  if isRoot then t.kids.map some
  else (t.kids.take t.ppos).map some ++ [none] ++ (t.kids.drop t.ppos).map some

def ofNeigh (isRoot : Bool) (t : T) (ng : List (Option (EdgeD × T))) : T :=
  .node t.d (if isRoot then t.ppos else ng.idxOf none) (ng.filterMap id)

def rotateNode (isRoot : Bool) (t : T) (draws : List Nat) : T :=
  ofNeigh isRoot t (rotate (neighOf isRoot t) draws)

def degOf (isRoot : Bool) (t : T) : Nat := t.kids.length + (if isRoot then 0 else 1)

/-- apply `f` to the node at the child-index path -/
def atPath (fuel : Nat) (f : Bool → T → T) (isRoot : Bool) (t : T) : List Nat → T
  | [] => f isRoot t
  | i :: p =>
    match fuel with
    | 0 => t
    | fuel + 1 =>
      .node t.d t.ppos (t.kids.mapIdx fun q et => if q == i then (et.1, atPath fuel f false et.2 p) else et)

def subAt : T → List Nat → Option T
  | t, [] => some t
  | t, i :: p => match t.kids[i]? with
    | some et => subAt et.2 p
    | none => none
termination_by _ p => p.length

/- `RotateInternalNodes`: every node of `Nodes()` (pre-order of the tree as it was), tips included -/
mutual
def rotAllT (isRoot : Bool) : T → List Nat → T × List Nat
  | .node d p kids, ds =>
    let deg := kids.length + (if isRoot then 0 else 1)
    let r := rotAllL kids (ds.drop deg)
    (rotateNode isRoot (.node d p r.1) (ds.take deg), r.2)
def rotAllL : Kids → List Nat → Kids × List Nat
  | [], ds => ([], ds)
  | (e, t) :: r, ds =>
    let a := rotAllT false t ds
    let b := rotAllL r a.2
    ((e, a.1) :: b.1, b.2)
end

mutual
def rotAllScriptT (isRoot : Bool) : T → List Nat
  | .node _ _ kids => rotScript (kids.length + (if isRoot then 0 else 1)) ++ rotAllScriptL kids
def rotAllScriptL : Kids → List Nat
  | [] => []
  | (_, t) :: r => rotAllScriptT false t ++ rotAllScriptL r
end

/- the numbers of neighbours of the nodes, in `Nodes()` order -/
mutual
def degsT (isRoot : Bool) : T → List Nat
  | .node _ _ kids => (kids.length + (if isRoot then 0 else 1)) :: degsL kids
def degsL : Kids → List Nat
  | [] => []
  | (_, t) :: r => degsT false t ++ degsL r
end

/-- give the neighbours of one node the arrangement `p` (a list of old positions) -/
def permNode (isRoot : Bool) (t : T) (p : List Nat) : T :=
  ofNeigh isRoot t (p.map fun q => (neighOf isRoot t).getD q none)

/- give every node, in `Nodes()` order, the arrangement listed for it -/
mutual
def applyPermsT (isRoot : Bool) : T → List (List Nat) → T × List (List Nat)
  | .node d p kids, ps =>
    let r := applyPermsL kids (ps.drop 1)
    (permNode isRoot (.node d p r.1) (ps.headD []), r.2)
def applyPermsL : Kids → List (List Nat) → Kids × List (List Nat)
  | [], ps => ([], ps)
  | (e, t) :: r, ps =>
    let a := applyPermsT false t ps
    let b := applyPermsL r a.2
    ((e, a.1) :: b.1, b.2)
end

/-- `gotree rotate rand` (cmd/rotate_rand.go): `RotateInternalNodes` on every tree of the input,
    in file order, the draws running on from one tree to the next -/
def rotateRandCmd : List T → List Nat → List T
  | [], _ => []
  | t :: ts, ds =>
    let r := rotAllT true t ds
    r.1 :: rotateRandCmd ts r.2

def rotateRandScript (ts : List T) : List Nat := ts.flatMap (rotAllScriptT true)

/- what a Newick round trip keeps of a tree: everything but parent positions and branch ids -/
mutual
def nwViewT : T → T
  | .node d _ k => .node d 0 (nwViewL k)
def nwViewL : Kids → Kids
  | [] => []
  | (e, t) :: r => ({ e with id := -1 }, nwViewT t) :: nwViewL r
end

/-! ## RandomUniformBinaryTree (tree/treegen.go:19): the topology

  A branch is represented by its *cluster*: the numbers of the tips on its `right`
  side (away from the node `n2` the construction starts from, which is `Tip0`
  itself in the unrooted case).  `GraftTipOnEdge(n, e)` turns `e = (l, r)` into
  `(l, new)`, and adds `newedge = (new, n)` and `newedge2 = (new, r)`: the new tip
  joins the cluster of `e` and of every branch above it, and the two appended
  branches carry `{i}` and the old cluster of `e`.  Tips are added in increasing
  order, so every cluster stays sorted.
-/

def subset (b s : List Nat) : Bool := b.all s.contains

def graft (edges : List (List Nat)) (i j : Nat) : List (List Nat) :=
  match edges[j]? with
  | none => edges
  | some b => (edges.map fun s => if subset b s then s ++ [i] else s) ++ [[i], b]

/-- `edges` after the first iteration (`case 0`): one branch Tip0–Tip1, or for a
    rooted tree the two branches from the unnamed root to Tip1 and to Tip0. -/
def utreeInit (rooted : Bool) : List (List Nat) := if rooted then [[1], [0]] else [[1]]

def utreeLoop : List Nat → Nat → List (List Nat) → List (List Nat)
  | [], _, e => e
  | j :: ds, i, e => utreeLoop ds (i + 1) (graft e i j)

/-- clusters of the branches, in the order of the `edges` slice, for `n = draws.length + 2` tips -/
def utree (rooted : Bool) (draws : List Nat) : List (List Nat) := utreeLoop draws 2 (utreeInit rooted)

/-- `Intn(len(edges))` for tips `2 … n-1`: `len(edges) = 2i-3` (unrooted), `2i-2` (rooted) -/
def utreeBounds (rooted : Bool) (n : Nat) : List Nat :=
  (List.range' 2 (n - 2)).map fun i => if rooted then 2 * i - 2 else 2 * i - 3

/-- the full call script, `0` = one `rand.Float64()` (branch lengths through `gostats.Exp`) -/
def utreeScript (rooted : Bool) (n : Nat) : List Nat :=
  (if rooted then [0, 0] else [0]) ++ (utreeBounds rooted n).flatMap fun b => [b, 0, 0, 0]

/-! ## commands that treat several trees in one run: the draws run on from tree to tree -/

/-- cut a draw list into consecutive segments of the given lengths -/
def segments : List Nat → List Nat → List (List Nat)
  | [], _ => []
  | k :: ks, ds => ds.take k :: segments ks (ds.drop k)

/-- `RotateInternalNodes` seen node by node: `degs` = the numbers of neighbours of the nodes of
    `Nodes()`; the arrangement of the neighbour positions of every node -/
def rotAllPerms (degs : List Nat) (draws : List Nat) : List (List Nat) :=
  ((segments degs draws).zip degs).map fun p => rotate (List.range p.2) p.1

def rotAllPermScript (degs : List Nat) : List Nat := degs.flatMap rotScript

/-- `gotree generate uniformtree -n N -l n [-r]` (cmd/uniformtree.go): `N` calls of
    `RandomUniformBinaryTree`; the clusters of each tree -/
def uniformTreeCmd (N n : Nat) (rooted : Bool) (draws : List Nat) : List (List (List Nat)) :=
  (segments (List.replicate N (n - 2)) draws).map (utree rooted)

def uniformTreeCmdScript (N n : Nat) (rooted : Bool) : List Nat :=
  (List.replicate N (utreeScript rooted n)).flatten

/-- `gotree shuffletips` on a file of trees: the tip names of each tree after `ShuffleTips` -/
def shuffleTipsCmd : List T → List Nat → List (List String)
  | [], _ => []
  | t :: ts, ds =>
    let k := (allTipNames t).length
    shuffleTips t (ds.take k) :: shuffleTipsCmd ts (ds.drop k)

def shuffleTipsCmdScript (ts : List T) : List Nat := ts.flatMap shuffleScript

/-! ## RandomUniformBinaryTree, pointer level (fidelity figure only)

  The same function followed statement by statement on a small heap: node ids, for every
  node its ordered neighbour slice, and the `edges` slice as (left, right) pairs.  Read back
  as a rose tree it is compared with the α dump of the generated tree (names, neighbour
  order, parent positions; branch data blanked).  The theorems are about `utree`; this
  second model only documents how far the code is followed (tag `alpha-exact`). -/

structure UHeap where
  names : List String := []
  neigh : List (List Nat) := []
  edges : List (Nat × Nat) := []
  root : Nat := 0

/-- `t.NewNode()` + `SetName` -/
def UHeap.newNode (h : UHeap) (name : String) : UHeap × Nat :=
  ({ h with names := h.names ++ [name], neigh := h.neigh ++ [[]] }, h.names.length)

/-- `a.addChild(b, e)`: append to the neighbour slice -/
def UHeap.addChild (h : UHeap) (a b : Nat) : UHeap :=
  { h with neigh := h.neigh.set a (h.neigh.getD a [] ++ [b]) }

/-- `t.ConnectNodes(parent, child)` -/
def UHeap.connect (h : UHeap) (p c : Nat) : UHeap := (h.addChild p c).addChild c p

/-- `x.neigh[index of old] = new` -/
def UHeap.replaceNeigh (h : UHeap) (x old new : Nat) : UHeap :=
  { h with neigh := h.neigh.set x ((h.neigh.getD x []).map fun y => if y == old then new else y) }

/-- `GraftTipOnEdge(n, edges[j])` followed by the two appends -/
def UHeap.graft (h : UHeap) (tip j : Nat) : UHeap :=
  match h.edges[j]? with
  | none => h
  | some (l, r) =>
    let (h, nw) := h.newNode ""
    let h := h.addChild nw tip
    let h := h.addChild tip nw
    let h := h.addChild nw l
    let h := h.replaceNeigh l r nw
    let h := h.addChild nw r
    let h := h.replaceNeigh r l nw
    { h with edges := h.edges.set j (l, nw) ++ [(nw, tip), (nw, r)] }

def uheapInit (rooted : Bool) : UHeap :=
  let (h, n) := ({} : UHeap).newNode "Tip1"
  let (h, n2) := h.newNode (if rooted then "" else "Tip0")
  let h := h.connect n2 n
  let h := { h with edges := [(n2, n)] }
  let h := if rooted then
      let (h, n3) := h.newNode "Tip0"
      let h := h.connect n2 n3
      { h with edges := h.edges ++ [(n2, n3)] }
    else h
  { h with root := n2 }

def uheapLoop : List Nat → Nat → UHeap → UHeap
  | [], _, h => h
  | j :: ds, i, h =>
    let (h, n) := h.newNode ("Tip" ++ toString i)
    uheapLoop ds (i + 1) (h.graft n j)

/-- first node of `Nodes()` (pre-order from `v`) having three neighbours -/
def UHeap.firstDeg3 (h : UHeap) : Nat → Nat → Option Nat → Option Nat
  | 0, _, _ => none
  | f + 1, v, par =>
    let ns := h.neigh.getD v []
    if ns.length == 3 then some v
    else (ns.filter fun x => some x != par).findSome? fun c => h.firstDeg3 f c (some v)

/-- read the heap as a rose tree from node `v` -/
def UHeap.toT (h : UHeap) : Nat → Nat → Option Nat → T
  | 0, v, _ => .node ⟨h.names.getD v "", []⟩ 0 []
  | f + 1, v, par =>
    let ns := h.neigh.getD v []
    let ppos := match par with
      | some p => ns.idxOf p
      | none => 0
    .node ⟨h.names.getD v "", []⟩ ppos
      ((ns.filter fun x => some x != par).map fun c => (EdgeD.blank, h.toT f c (some v)))

/-- the generated tree (branch data blank); unrooted: `RerootFirst` moves the root pointer only -/
def utreeT (rooted : Bool) (draws : List Nat) : T :=
  let h := uheapLoop draws 2 (uheapInit rooted)
  let fuel := h.names.length + 1
  let root := if rooted then h.root else (h.firstDeg3 fuel h.root none).getD h.root
  h.toT fuel root none

/- branch data and comments blanked -/
mutual
def stripT : T → T
  | .node d p k => .node ⟨d.name, []⟩ p (stripL k)
def stripL : Kids → Kids
  | [] => []
  | (_, t) :: r => (EdgeD.blank, stripT t) :: stripL r
end

/-! ## RandomUniformBinaryTree on the rose tree

  The same function followed on the rose tree rooted at `n2` (the node the construction starts
  from).  A value model has no pointers: the branch `edges[j]` is designated by its cluster
  (`utree` keeps, for every entry of the `edges` slice, the cluster of that branch), and
  `GraftTipOnEdge` rewrites the unique branch that has this cluster: the new inner node gets
  the neighbours `[n, lnode, rnode]`, i.e. parent position 1 and the children `[n, rnode]`.
  `Lemmas/C20Rose.lean` proves that the clusters of the branches of this tree are, at every
  step, exactly the list `utree` keeps; the driver compares the tree with the α dump. -/

def tipName (i : Nat) : String := "Tip" ++ toString i

/-- the cluster (sorted tip numbers) of a set of tip names, among the tips `0 … m-1` -/
def clN (m : Nat) (S : List String) : List Nat := (List.range m).filter fun q => S.contains (tipName q)

mutual
/-- `GraftTipOnEdge(x, e)` where `e` is the branch whose cluster (among `m` tips) is `b` -/
def roseGraft (m : Nat) (b : List Nat) (x : String) : T → T
  | .node d p ks => .node d p (roseGraftL m b x ks)
def roseGraftL (m : Nat) (b : List Nat) (x : String) : Kids → Kids
  | [] => []
  | (e, c) :: r =>
    if clN m c.leaves == b then
      (e, .node ⟨"", []⟩ 1 [(EdgeD.blank, T.leaf x), (EdgeD.blank, c)]) :: r
    else if subset b (clN m c.leaves) then (e, roseGraft m b x c) :: r
    else (e, c) :: roseGraftL m b x r
end

/-- the tree after the first iteration, rooted at `n2` -/
def roseInit (rooted : Bool) : T :=
  if rooted then .node ⟨"", []⟩ 0 [(EdgeD.blank, T.leaf (tipName 1)), (EdgeD.blank, T.leaf (tipName 0))]
  else .node ⟨tipName 0, []⟩ 0 [(EdgeD.blank, T.leaf (tipName 1))]

/-- the loop: the tree and the clusters of the `edges` slice side by side -/
def roseLoop : List Nat → Nat → T × List (List Nat) → T × List (List Nat)
  | [], _, s => s
  | j :: ds, i, (t, E) =>
    roseLoop ds (i + 1) (roseGraft i (E.getD j []) (tipName i) t, graft E i j)

/-- the tree before `RerootFirst`, rooted at `n2` -/
def roseTree (rooted : Bool) (draws : List Nat) : T :=
  (roseLoop draws 2 (roseInit rooted, utreeInit rooted)).1

/-- `RerootFirst` on a tree whose root is the tip `Tip0`: the first node with three neighbours
    is the root's only neighbour; the root pointer moves there, no neighbour order changes:
    the old root becomes the child at the position the parent had -/
def roseReroot : T → T
  | .node d _ [(e, .node dc pc kc)] =>
    if kc.length == 2 then .node dc 0 (kc.take pc ++ (e, .node d 0 []) :: kc.drop pc)
    else .node d 0 [(e, .node dc pc kc)]
  | t => t

/-- the generated tree (branch data blank) -/
def roseFinal (rooted : Bool) (draws : List Nat) : T :=
  if rooted then roseTree rooted draws else roseReroot (roseTree rooted draws)

end Gotree.C20
