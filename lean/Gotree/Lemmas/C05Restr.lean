/-
  C05 — outgroup removed: the split set of what is left is the restriction of the split set.
-/
import Gotree.Lemmas.C05Half

namespace Gotree.C05
open Gotree

/-- number of taxa of `all` on a side -/
def sz (all A : List String) : Nat := (A.filter all.contains).length

theorem lightSize_eq (all A : List String) : lightSize all A = min (sz all A) (all.length - sz all A) := rfl

theorem length_filter_mem {all B : List String} (hn : all.Nodup) (hB : B.Nodup) (hsub : ∀ x ∈ B, x ∈ all) :
    (all.filter B.contains).length = B.length := by
  apply List.Perm.length_eq
  apply (List.perm_ext_iff_of_nodup (hn.filter _) hB).2
  intro x
  simp only [List.mem_filter, List.contains_eq_mem, decide_eq_true_eq]
  exact ⟨fun h => h.2, fun h => ⟨hsub x h, h⟩⟩

theorem length_filter_compl (all : List String) (p : String → Bool) :
    (all.filter (fun x => !p x)).length + (all.filter p).length = all.length := by
  induction all with
  | nil => rfl
  | cons a l ih => by_cases h : p a <;> simp [List.filter_cons, h] <;> omega

/-- the canonical side has the size of the side or of its complement -/
theorem sz_canonSide {all A : List String} (hn : all.Nodup) (hA : A.Nodup) :
    sz all (canonSide all A) = sz all A ∨ sz all (canonSide all A) = all.length - sz all A := by
  have hfn : (A.filter all.contains).Nodup := hA.filter _
  have hsub : ∀ x ∈ sortS (A.filter all.contains), x ∈ all := by
    intro x hx; have := (List.mem_filter.1 (mem_sortS.1 hx)).2; simpa using this
  have h1 : sz all (sortS (A.filter all.contains)) = sz all A := by
    unfold sz
    rw [List.filter_eq_self.2 (fun x hx => by simpa using hsub x hx), (sortS_perm _).length_eq]
  have h2 : sz all (sortS (complS all (sortS (A.filter all.contains)))) = all.length - sz all A := by
    unfold sz
    have hall : ∀ x ∈ sortS (complS all (sortS (A.filter all.contains))), all.contains x = true := by
      intro x hx
      have := mem_sortS.1 hx
      simp only [complS, List.mem_filter] at this
      simpa using this.1
    rw [List.filter_eq_self.2 hall, (sortS_perm _).length_eq]
    have hc := length_filter_compl all (sortS (A.filter all.contains)).contains
    have hm := length_filter_mem hn ((sortS_perm _).nodup_iff.2 hfn) hsub
    rw [(sortS_perm _).length_eq] at hm
    simp only [complS]
    omega
  unfold canonSide
  cases minS all with
  | none => exact Or.inl h1
  | some m =>
    simp only
    split
    · exact Or.inr h2
    · exact Or.inl h1

theorem lightSize_canonSide {all A : List String} (hn : all.Nodup) (hA : A.Nodup) :
    lightSize all (canonSide all A) = lightSize all A := by
  have hle : sz all A ≤ all.length := by
    unfold sz
    have hfn : (A.filter all.contains).Nodup := hA.filter _
    exact hfn.length_le_of_subset (fun x hx => by simpa using (List.mem_filter.1 hx).2)
  rw [lightSize_eq, lightSize_eq]
  rcases sz_canonSide hn hA with h | h <;> rw [h] <;> omega


theorem sortS_nodup {l : List String} (h : l.Nodup) : (sortS l).Nodup := (sortS_perm l).nodup_iff.2 h

theorem canonSide_nodup {all A : List String} (hn : all.Nodup) (hA : A.Nodup) : (canonSide all A).Nodup := by
  unfold canonSide
  cases minS all with
  | none => exact sortS_nodup (hA.filter _)
  | some m =>
    simp only
    split
    · exact sortS_nodup (hn.filter _)
    · exact sortS_nodup (hA.filter _)

/-- membership in a canonical side: the side itself or its complement -/
theorem mem_canonSide_cases (all A : List String) :
    (∀ x, x ∈ canonSide all A ↔ x ∈ A ∧ x ∈ all) ∨ (∀ x, x ∈ canonSide all A ↔ x ∈ all ∧ x ∉ A) := by
  cases hm : minS all with
  | none =>
    left; intro x
    unfold canonSide; simp [hm, mem_sortS, List.mem_filter]
  | some m =>
    by_cases h : m ∈ A ∧ m ∈ all
    · right; intro x; exact mem_canonSide_compl hm h x
    · left; intro x; exact mem_canonSide_same hm h x

/-- **restriction of a side that lies inside the kept taxa** -/
theorem restrict_inside {all K below : List String} (hK : K.Nodup) (hKs : ∀ x ∈ K, x ∈ all)
    (hb : below.Nodup) (hbs : ∀ x ∈ below, x ∈ K) (hn : all.Nodup) :
    canonSide K ((canonSide all below).filter K.contains) = canonSide K below := by
  have hσn : ((canonSide all below).filter K.contains).Nodup := (canonSide_nodup hn hb).filter _
  rcases mem_canonSide_cases all below with h | h
  · apply canonSide_perm_side
    apply (List.perm_ext_iff_of_nodup hσn hb).2
    intro x
    simp only [List.mem_filter, List.contains_eq_mem, decide_eq_true_eq, h]
    exact ⟨fun hx => hx.1.1, fun hx => ⟨⟨hx, hKs x (hbs x hx)⟩, hbs x hx⟩⟩
  · apply canonSide_compl hK
    have hnd : ((canonSide all below).filter K.contains ++ below).Nodup := by
      rw [List.nodup_append]
      refine ⟨hσn, hb, ?_⟩
      intro a ha b hb' hab
      subst hab
      simp only [List.mem_filter, h] at ha
      exact ha.1.2 hb'
    apply (List.perm_ext_iff_of_nodup hnd hK).2
    intro x
    simp only [List.mem_append, List.mem_filter, List.contains_eq_mem, decide_eq_true_eq, h]
    constructor
    · rintro (hx | hx)
      · exact hx.2
      · exact hbs x hx
    · intro hx
      by_cases hxb : x ∈ below
      · exact Or.inr hxb
      · exact Or.inl ⟨⟨hKs x hx, hxb⟩, hx⟩

/-- a side with all of the kept taxa, or none of them, restricts to a trivial split -/
theorem restrict_trivial {all K below : List String} (hK : K.Nodup) (hb : below.Nodup) (hn : all.Nodup)
    (hKs : ∀ x ∈ K, x ∈ all)
    (h : (∀ x ∈ K, x ∈ below) ∨ (∀ x ∈ K, x ∉ below)) :
    lightSize K (canonSide K ((canonSide all below).filter K.contains)) = 0 := by
  have hσn : ((canonSide all below).filter K.contains).Nodup := (canonSide_nodup hn hb).filter _
  rw [lightSize_canonSide hK hσn, lightSize_eq]
  -- the restricted side is everything or nothing
  have hall_or_none : (∀ x ∈ K, x ∈ (canonSide all below).filter K.contains) ∨
      (∀ x ∈ K, x ∉ (canonSide all below).filter K.contains) := by
    rcases mem_canonSide_cases all below with hm | hm <;> rcases h with h | h
    · left; intro x hx; simp only [List.mem_filter, hm]; exact ⟨⟨h x hx, hKs x hx⟩, by simpa using hx⟩
    · right; intro x hx hx'; simp only [List.mem_filter, hm] at hx'; exact h x hx hx'.1.1
    · right; intro x hx hx'; simp only [List.mem_filter, hm] at hx'; exact hx'.1.2 (h x hx)
    · left; intro x hx; simp only [List.mem_filter, hm]; exact ⟨⟨hKs x hx, h x hx⟩, by simpa using hx⟩
  have hsub : ∀ x ∈ (canonSide all below).filter K.contains, x ∈ K := by
    intro x hx; simpa using (List.mem_filter.1 hx).2
  have hszeq : sz K ((canonSide all below).filter K.contains) = ((canonSide all below).filter K.contains).length := by
    unfold sz
    rw [List.filter_eq_self.2 (fun x hx => by simpa using hsub x hx)]
  rw [hszeq]
  rcases hall_or_none with h1 | h1
  · have : ((canonSide all below).filter K.contains).length = K.length := by
      apply List.Perm.length_eq
      exact (List.perm_ext_iff_of_nodup hσn hK).2 (fun x => ⟨hsub x, h1 x⟩)
    omega
  · have : (canonSide all below).filter K.contains = [] := by
      apply List.eq_nil_iff_forall_not_mem.2
      intro x hx; exact h1 x (hsub x hx) hx
    rw [this]; simp


end Gotree.C05
