/-
  C17 — heap-level model (DESIGN §11, stretch item S1) of the LOCAL pointer surgery of
  `nni.Apply` / `nni.Undo` (tree/rearrange.go:86-234): records for the six nodes an `nni`
  remembers, each with its `neigh` and `br` slices, and records for the five branches between
  them with `left`/`right`.  Everything else of the tree is outside: the other neighbours and
  branches of the four outer nodes are opaque identities (`ext k`).

  `applyP` / `undoP` follow the Go statements one by one (NodeIndex searches, reads of
  `Edges()[i]`, `Inverse`, the eight slice writes, `setLeft`/`setRight`).
  `Lemmas/C17HeapSim.lean` proves that on every well-formed piece they keep the pairing
  `neigh[i]`↔`br[i]`, symmetric adjacency and the number of parent branches of every node
  (orientation away from the root), and that their abstraction is `applyH`/`undoH` of
  `Model/C17.lean`, hence `apply`/`undo` on `T`.  Core Lean only.
-/
import Gotree.Model.C17

namespace Gotree.C17
open Gotree

/-- node identities: the six of the `nni`, or something outside the piece -/
inductive PId
  | n (r : Ref)
  | ext (k : Nat)
  deriving DecidableEq, Repr

/-- branch identities: the central branch, the branches to the four outer nodes, or outside -/
inductive EId
  | e0
  | eo (r : Ref)      -- the branch joining the outer node `r` to its centre node
  | ext (k : Nat)
  deriving DecidableEq, Repr

structure PNode where
  neigh : List PId
  br : List EId

structure PEdge where
  left : PId
  right : PId

/-- the piece of the heap -/
structure PHeap where
  node : Ref → PNode
  edge : EId → PEdge

def updN (f : Ref → PNode) (x : Ref) (v : PNode) : Ref → PNode := fun y => if y = x then v else f y
def updE (f : EId → PEdge) (x : EId) (v : PEdge) : EId → PEdge := fun y => if y = x then v else f y

/-- `Node.NodeIndex` -/
def nodeIndex : List PId → PId → Option Nat
  | [], _ => none
  | y :: l, x => if y = x then some 0 else (nodeIndex l x).map (· + 1)

/-- `e.setLeft(m)` if `e.Left() == old` else `e.setRight(m)` (rearrange.go:145-154, 220-229) -/
def reattach (e : PEdge) (old new : PId) : PEdge :=
  if e.left = old then ⟨new, e.right⟩ else ⟨e.left, new⟩

/-- `nni.Apply` after the `applied` test, statement by statement -/
def applyP (h : PHeap) (cross : Bool) : Option PHeap :=
  let N1 := h.node .n1
  let N2 := h.node .n2
  match nodeIndex N1.neigh (.n .n2) with                  -- n1n2index
  | none => none
  | some n1n2index =>
  match nodeIndex N1.neigh (.n .b) with                   -- n12index
  | none => none
  | some n12index =>
  match nodeIndex (h.node .b).neigh (.n .n1) with         -- n1index
  | none => none
  | some n1index =>
  let x : Ref := if cross then .c else .d                 -- n22node
  match nodeIndex N2.neigh (.n x) with                    -- n22index
  | none => none
  | some n22index =>
  match nodeIndex (h.node x).neigh (.n .n2) with          -- n2index
  | none => none
  | some n2index =>
  match N1.br[n12index]?, N2.br[n22index]?, N1.br[n1n2index]? with
  | some e1, some e2, some ec =>
    -- if e1.Right() == n.n1 || e2.Right() == n.n2 { n.n1.Edges()[n1n2index].Inverse() }   (48c858a)
    let edge1 := if (h.edge e1).right = .n .n1 ∨ (h.edge e2).right = .n .n2 then updE h.edge ec ⟨(h.edge ec).right, (h.edge ec).left⟩ else h.edge
    -- n1.Edges()[n12index] = e2 ; n1.Neigh()[n12index] = n22node
    let node1 := updN h.node .n1 ⟨N1.neigh.set n12index (.n x), N1.br.set n12index e2⟩
    -- n22node.Neigh()[n2index] = n1
    let node2 := updN node1 x ⟨(node1 x).neigh.set n2index (.n .n1), (node1 x).br⟩
    -- n2.Edges()[n22index] = e1 ; n2.Neigh()[n22index] = n1_2
    let node3 := updN node2 .n2 ⟨N2.neigh.set n22index (.n .b), N2.br.set n22index e1⟩
    -- n1_2.Neigh()[n1index] = n2
    let node4 := updN node3 .b ⟨(node3 .b).neigh.set n1index (.n .n2), (node3 .b).br⟩
    let edge2 := updE edge1 e1 (reattach (edge1 e1) (.n .n1) (.n .n2))
    let edge3 := updE edge2 e2 (reattach (edge2 e2) (.n .n2) (.n .n1))
    some ⟨node4, edge3⟩
  | _, _, _ => none

/-- `nni.Undo` after the `applied` test, statement by statement -/
def undoP (h : PHeap) (cross : Bool) : Option PHeap :=
  let N1 := h.node .n1
  let N2 := h.node .n2
  match nodeIndex N1.neigh (.n .n2) with                  -- n1n2index
  | none => none
  | some n1n2index =>
  match nodeIndex N2.neigh (.n .b) with                   -- n12index
  | none => none
  | some n12index =>
  match nodeIndex (h.node .b).neigh (.n .n2) with         -- n2index
  | none => none
  | some n2index =>
  let x : Ref := if cross then .c else .d                 -- n11node
  match nodeIndex N1.neigh (.n x) with                    -- n11index
  | none => none
  | some n11index =>
  match nodeIndex (h.node x).neigh (.n .n1) with          -- n1index
  | none => none
  | some n1index =>
  match N1.br[n11index]?, N2.br[n12index]?, N1.br[n1n2index]? with
  | some e1, some e2, some ec =>
    -- if e2.Right() == n.n2 || e1.Right() == n.n1 { n.n1.Edges()[n1n2index].Inverse() }   (48c858a)
    let edge1 := if (h.edge e2).right = .n .n2 ∨ (h.edge e1).right = .n .n1 then updE h.edge ec ⟨(h.edge ec).right, (h.edge ec).left⟩ else h.edge
    -- n1.Edges()[n11index] = e2 ; n1.Neigh()[n11index] = n1_2
    let node1 := updN h.node .n1 ⟨N1.neigh.set n11index (.n .b), N1.br.set n11index e2⟩
    -- n1_2.Neigh()[n2index] = n1
    let node2 := updN node1 .b ⟨(node1 .b).neigh.set n2index (.n .n1), (node1 .b).br⟩
    -- n2.Edges()[n12index] = e1 ; n2.Neigh()[n12index] = n11node
    let node3 := updN node2 .n2 ⟨N2.neigh.set n12index (.n x), N2.br.set n12index e1⟩
    -- n11node.Neigh()[n1index] = n2
    let node4 := updN node3 x ⟨(node3 x).neigh.set n1index (.n .n2), (node3 x).br⟩
    let edge2 := updE edge1 e1 (reattach (edge1 e1) (.n .n1) (.n .n2))
    let edge3 := updE edge2 e2 (reattach (edge2 e2) (.n .n2) (.n .n1))
    some ⟨node4, edge3⟩
  | _, _, _ => none

/- ## what a well-formed heap promises, on the piece -/

def PEdge.joins (e : PEdge) (x y : PId) : Bool := (e.left == x && e.right == y) || (e.left == y && e.right == x)

def allRefs : List Ref := [.n1, .n2, .a, .b, .c, .d]

def EId.isLocal : EId → Bool
  | .ext _ => false
  | _ => true

/-- `neigh` and `br` are parallel, and `br[i]` joins the node and `neigh[i]` (for the branches of the piece) -/
def pairing (h : PHeap) : Bool :=
  allRefs.all fun x =>
    (h.node x).neigh.length == (h.node x).br.length &&
    ((h.node x).neigh.zip (h.node x).br).all fun (y, e) => !e.isLocal || (h.edge e).joins (.n x) y

/-- symmetric adjacency with the same branch, between the six nodes -/
def symmetric (h : PHeap) : Bool :=
  allRefs.all fun x =>
    ((h.node x).neigh.zip (h.node x).br).all fun (y, e) =>
      match y with
      | .ext _ => true
      | .n r => ((h.node r).neigh.zip (h.node r).br).any fun (y', e') => y' == .n x && e' == e

/-- number of branches of the piece that enter `x` (its parent branches) -/
def incoming (h : PHeap) (x : Ref) : Nat :=
  ((h.node x).br.filter fun e => e.isLocal && (h.edge e).right == .n x).length

end Gotree.C17
