// vh — the verification harness: runs the real gotree code on generated cases
// and prints one case line per case for the Lean driver.
//
//	vh <property> [-seed N] [-tier quick|thorough] [-gotree path] [-tmp dir] [-arg s]
package main

import (
	"bufio"
	"flag"
	"fmt"
	"os"

	"verifharness/core"
)

func main() {
	if len(os.Args) < 2 {
		fmt.Fprintln(os.Stderr, "usage: vh <property> [flags]")
		os.Exit(2)
	}
	prop := os.Args[1]
	fs := flag.NewFlagSet("vh", flag.ExitOnError)
	seed := fs.Int64("seed", 1, "PRNG seed")
	tier := fs.String("tier", "quick", "quick|thorough")
	gotree := fs.String("gotree", "", "gotree binary")
	tmp := fs.String("tmp", os.TempDir(), "scratch dir")
	arg := fs.String("arg", "", "extra argument")
	repo := fs.String("repo", "/repo", "repository under test")
	outdir := fs.String("out", "", "output directory (gen-tables)")
	fs.Parse(os.Args[2:])
	if prop == "gen-tables" {
		genTables(*repo, *outdir)
		return
	}
	run, ok := runners[prop]
	if !ok {
		fmt.Fprintln(os.Stderr, "unknown property", prop)
		os.Exit(2)
	}
	w := bufio.NewWriterSize(os.Stdout, 1<<20)
	defer w.Flush()
	c := &core.Ctx{G: core.NewG(*seed), Seed: *seed, Tier: *tier, W: w, Gotree: *gotree, Tmp: *tmp, Arg: *arg, Repo: *repo}
	run(c)
}

func genTables(repo, out string) {
	os.MkdirAll(out, 0755)
	failed := false
	for name, g := range tableGens {
		if err := g(repo, out); err != nil {
			fmt.Fprintf(os.Stderr, "table generator %s: %v\n", name, err)
			failed = true
		}
	}
	if failed {
		os.Exit(1)
	}
}
