package core

import (
	"bufio"
	"bytes"
	"context"
	"fmt"
	"os"
	"os/exec"
	"path/filepath"
	"strings"
	"time"
)

// Ctx is what a property runner gets.
type Ctx struct {
	G      *G
	Seed   int64
	Tier   string // quick | thorough
	W      *bufio.Writer
	Gotree string // path of the gotree binary built from the working tree ("" = no CLI tier)
	Tmp    string // scratch directory (under /verif/.build)
	Arg    string // optional argument (replay file …)
	Repo   string // path of the repository under test
	nfile  int
}

func (c *Ctx) Quick() bool { return c.Tier != "thorough" }

// Scale picks the number of cases by tier.
func (c *Ctx) Scale(quick, thorough int) int {
	if c.Quick() {
		return quick
	}
	return thorough
}

// Emit writes one case line.
func (c *Ctx) Emit(op string, fields ...string) {
	for _, f := range fields {
		if strings.ContainsAny(f, "\t\n") {
			panic("field contains tab/newline: " + f)
		}
	}
	c.W.WriteString(op)
	for _, f := range fields {
		c.W.WriteByte('\t')
		c.W.WriteString(f)
	}
	c.W.WriteByte('\n')
}

// Safe runs f and turns a panic into a value.
func Safe(f func()) (panicked bool, msg string) {
	defer func() {
		if r := recover(); r != nil {
			panicked = true
			msg = fmt.Sprint(r)
		}
	}()
	f()
	return
}

// StrList encodes a list of strings (each item followed by ",").
func StrList(l []string) string {
	var b strings.Builder
	for _, s := range l {
		b.WriteString(Escape(s))
		b.WriteByte(',')
	}
	return b.String()
}

func StrLists(l [][]string) string {
	var b strings.Builder
	for _, s := range l {
		b.WriteString(StrList(s))
		b.WriteByte(';')
	}
	return b.String()
}

func RatList(l []float64) string {
	var b strings.Builder
	for _, f := range l {
		b.WriteString(Rat(f))
		b.WriteByte(',')
	}
	return b.String()
}

func RatMatrix(m [][]float64) string {
	var b strings.Builder
	for _, r := range m {
		b.WriteString(RatList(r))
		b.WriteByte(';')
	}
	return b.String()
}

func IntList(l []int) string {
	var b strings.Builder
	for _, f := range l {
		fmt.Fprintf(&b, "%d,", f)
	}
	return b.String()
}

// Dumps joins several dumps, each followed by "|".
func Dumps(ns []*N) string {
	var b strings.Builder
	for _, n := range ns {
		b.WriteString(n.Dump())
		b.WriteByte('|')
	}
	return b.String()
}

// TmpFile writes content to a fresh scratch file.
func (c *Ctx) TmpFile(content string) string {
	c.nfile++
	p := filepath.Join(c.Tmp, fmt.Sprintf("f%d_%d.txt", os.Getpid(), c.nfile))
	if err := os.WriteFile(p, []byte(content), 0644); err != nil {
		panic(err)
	}
	return p
}

// CLIResult is the outcome of one run of the gotree binary.
type CLIResult struct {
	Stdout, Stderr string
	Exit           int
	Timeout        bool
}

// RunCLI runs the gotree binary built from the working tree.
func (c *Ctx) RunCLI(stdin string, timeout time.Duration, args ...string) CLIResult {
	ctx, cancel := context.WithTimeout(context.Background(), timeout)
	defer cancel()
	cmd := exec.CommandContext(ctx, c.Gotree, args...)
	cmd.Stdin = strings.NewReader(stdin)
	var so, se bytes.Buffer
	cmd.Stdout = &so
	cmd.Stderr = &se
	cmd.Env = append(os.Environ(), "GOMEMLIMIT=2GiB")
	err := cmd.Run()
	r := CLIResult{Stdout: so.String(), Stderr: se.String()}
	if ctx.Err() == context.DeadlineExceeded {
		r.Timeout = true
		r.Exit = -1
		return r
	}
	if err != nil {
		if ee, ok := err.(*exec.ExitError); ok {
			r.Exit = ee.ExitCode()
		} else {
			r.Exit = -2
		}
	}
	return r
}

// ReadRequests reads the request lines of a corpus / replay file (# = comment).
func ReadRequests(path string) []string {
	b, err := os.ReadFile(path)
	if err != nil {
		panic(err)
	}
	var out []string
	for _, l := range strings.Split(string(b), "\n") {
		if l == "" || strings.HasPrefix(l, "#") {
			continue
		}
		out = append(out, l)
	}
	return out
}
