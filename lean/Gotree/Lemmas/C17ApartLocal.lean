/-
  C17 — `Apart` at every site, by cases on the slot configuration (the two case analyses are
  in `C17ApartLocalRoot` and `C17ApartLocalInner`, compiled in parallel).
-/
import Gotree.Lemmas.C17ApartLocalRoot
import Gotree.Lemmas.C17ApartLocalInner

namespace Gotree.C17
open Gotree Gotree.C17.Spec

/-- at every site: `Apart`, the site being the leaves below the upper end -/
theorem local_apart {path : List Nat} {isRoot : Bool} {p1 : Nat} {k1 : Kids} {j : Nat}
    {e : EdgeD} {d2 : NodeD} {p2 : Nat} {u v : EdgeD × T} (d1 : NodeD) (cross : Bool)
    (s : Site path isRoot p1 k1 j e d2 p2 u v) : LocalApart path d1 cross isRoot p1 k1 j p2 := by
  obtain ⟨eu, tu⟩ := u
  obtain ⟨ev, tv⟩ := v
  exact site_cases s (LocalApart path d1 cross)
    (fun y z p1 hp2 => local_apart_root path d1 d2 cross e eu ev tu tv y z p1 p2 hp2)
    (fun y hp1 hp2 => local_apart_nonroot path d1 d2 cross e eu ev tu tv y p1 p2 hp1 hp2)

/-- the child index of the lower end, recovered from what the NNI remembers -/
def lowIdx (r : NNI) (S : T) : Nat :=
  if r.path.isEmpty then r.i1 else if r.i1 < S.ppos then r.i1 else r.i1 - 1

theorem lowIdx_newNNI (path : List Nat) (isRoot : Bool) (hroot : isRoot = path.isEmpty) (d1 : NodeD) (p1 j p2 : Nat)
    (k1 : Kids) (cross : Bool) : lowIdx (newNNI path isRoot p1 j p2 cross) (.node d1 p1 k1) = j := by
  unfold lowIdx newNNI
  simp only [T.ppos_node, ← hroot]
  cases isRoot with
  | true => simp
  | false =>
    simp only [Bool.false_eq_true, if_false]
    by_cases h : j < p1
    · simp [h]
    · simp only [h, if_false]
      have : ¬ (j + 1 < p1) := by omega
      simp [this]

end Gotree.C17
