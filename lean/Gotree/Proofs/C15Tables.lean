/-
  C15 — the property theorems that depend on the tables regenerated from the source
  (`Gotree.Gen.C15Fields`: table (d) fields/copies; `Gotree.Gen.C15Guards`: table (e) sentinels and guard
  constants), and on the model functions instantiated with table (d) (`clone`, `subTree`, `cliSubtree`,
  `cliSubtreeAll` of `Gotree/Model/C15Gen.lean`).  Round 7b: kept apart from `Proofs/C15.lean` so that nothing
  another property imports depends on a `Gen` module of C15.  Nothing outside C15 may import this file.
  Every `theorem` here is audited with `#print axioms` by bin/check, like those of `Proofs/C15.lean`.
-/
import Gotree.Proofs.C15
import Gotree.Model.C15Gen
import Gotree.Gen.C15Guards
import Gotree.Model.C15Guards

namespace Gotree.C15
open Gotree Gotree.C14


/-! ## table (d): decided on the table regenerated from the source -/

/-- every field the α dump / the Newick writer reads is copied by `CopyNode` / `CopyEdge`
    (hypothesis of `clone_eq`; broken by reverting b0dbbc9 = F20) -/
theorem table_observable_copied : allObservableFieldsCopied Gotree.Gen.C15.fields = true := by decide

/-- table (d), round 6: EVERY field of `Node`, `Edge` and `Tree` found in the source has a reviewed policy
    (`fieldPolicy`: must be copied / structural, rebuilt with copies / recomputed by the copy), no reviewed
    field is missing from the source, and every must-copy field — `rootdepth` (8aafdfc), depths, tip counts,
    hash codes, bitset included — is copied -/
theorem table_all_fields_reviewed : allFieldsReviewed Gotree.Gen.C15.fields = true := by decide

/-- pinned variant (before 8aafdfc): `CopyNode` without `rootdepth` — the decision fails -/
theorem table_rootdepth_pinned_fails :
    allFieldsReviewed (Gotree.Gen.C15.fields.map fun f =>
      if f.owner == "Node" && f.name == "rootdepth" then { f with treat := .notCopied } else f) = false := by decide

/-- ★ every slice / pointer / map field of a copied node or branch is freshly allocated (or left
    at the fresh value of `NewNode`/`NewEdge` and filled by `ConnectNodes` with copies only):
    no cell of the copy is a cell of the source, so no edit of one can write into the other
    (the frame argument is at field granularity — DESIGN §6 C15) -/
theorem copy_fresh : allRefFieldsFresh Gotree.Gen.C15.fields Gotree.Gen.C15.recurFacts = true := by decide

/-- table (d) read as a copy plan: none of the three reference fields CopyNode / CopyEdge assign
    (node comments, branch comments, bitset) is shared — decided on the regenerated table -/
theorem clone_plan_fresh : Heap.planOf Gotree.Gen.C15.fields = Heap.Plan.none := by decide

/-- ★ independence of copies on the heap: `Clone` / `SubTree` (the heap program `Heap.cloneOps`, driven
    by the regenerated table) builds the copy of the tree `t` found at path `sp` of the source in
    cells of its own; then under ANY history of heap edits of the copy the source keeps every cell
    content and its set of cells, and under any history of heap edits of the source the copy does.
    This closes `twin_unchanged_partial` for all edits that are heap programs. -/
theorem twin_unchanged (t : T) (sp : List Nat) (src : Heap.Addr) (h0 : Heap.H) (hsrc : Heap.Alloc h0 src)
    (progs : List (Heap.H → List Heap.Op)) :
    let h1 := Heap.exec src h0.next (Heap.cloneOps Gotree.Gen.C15.fields t sp) h0
    let cp := h0.next
    (Heap.SameOn h0 h1 src ∧ Heap.Disjoint h1 cp src) ∧
    (Heap.SameOn h1 (Heap.run (progs.map (Heap.runProg cp)) h1) src ∧
      Heap.Disjoint (Heap.run (progs.map (Heap.runProg cp)) h1) cp src) ∧
    (Heap.SameOn h1 (Heap.run (progs.map (Heap.runProg src)) h1) cp ∧
      Heap.Disjoint (Heap.run (progs.map (Heap.runProg src)) h1) src cp) :=
  Heap.clone_then_edit_frame _ clone_plan_fresh t sp src h0 hsrc progs

/-- … the same for `SubTree` at any node (`b` = the node is the root of the source; it only matters
    for where the source's cells are read) -/
theorem twin_unchanged_subtree (t : T) (sp : List Nat) (b : Bool) (src : Heap.Addr) (h0 : Heap.H)
    (hsrc : Heap.Alloc h0 src) (progs : List (Heap.H → List Heap.Op)) :
    let h1 := Heap.exec src h0.next (Heap.cloneOpsAt Gotree.Gen.C15.fields t sp b) h0
    let cp := h0.next
    (Heap.SameOn h0 h1 src ∧ Heap.Disjoint h1 cp src) ∧
    (Heap.SameOn h1 (Heap.run (progs.map (Heap.runProg cp)) h1) src ∧
      Heap.Disjoint (Heap.run (progs.map (Heap.runProg cp)) h1) cp src) ∧
    (Heap.SameOn h1 (Heap.run (progs.map (Heap.runProg src)) h1) cp ∧
      Heap.Disjoint (Heap.run (progs.map (Heap.runProg src)) h1) src cp) :=
  Heap.subtree_then_edit_frame _ clone_plan_fresh t sp b src h0 hsrc progs

/-- `(a,b);` on the heap: Tree struct 13 [root 0, tip index 12]; root 0 [comments 1, neigh 2, br 3];
    tips 4 and 8; branches 14 and 17 [left, right, comments, bitset] -/
def exCells : List (Nat × List Nat) :=
  [(13, [0, 12]), (12, []), (0, [1, 2, 3]), (1, []), (2, [4, 8]), (3, [14, 17]),
   (4, [5, 6, 7]), (5, []), (6, [0]), (7, [14]), (8, [9, 10, 11]), (9, []), (10, [0]), (11, [17]),
   (14, [0, 4, 15, 16]), (15, []), (16, []), (17, [0, 8, 18, 19]), (18, []), (19, [])]

def exTree : T := .node ⟨"", []⟩ 0 [(EdgeD.blank, T.leaf "a"), (EdgeD.blank, T.leaf "b")]

/- a whole run of the copy program on that heap (kernel-evaluated): 18 cells are allocated (20 … 37), the
   copy's root 20 is wired [21, 22, 23], its neighbours are the two new tips 27 and 34, the first new branch
   24 joins 20 and 27; the structure below 20 is the structure below the source's root 0 up to renaming;
   and no cell of the source has changed -/
example :
    let h0 := Heap.ofCells exCells
    let h1 := Heap.exec 13 h0.next (Heap.cloneOpsAt Gotree.Gen.C15.fields exTree [0] true) h0
    h0.next = 20 ∧ h1.next = 38 ∧ h1.ptrs 20 = [21, 22, 23] ∧ h1.ptrs 22 = [27, 34] ∧ h1.ptrs 24 = [20, 27, 25, 26] ∧
    Heap.isoFrom h1 20 exCells 0 = true ∧ (List.range 20).all (fun a => h1.ptrs a == h0.ptrs a) = true := by
  decide +kernel

/-- pinned variant of the plan (own breakage "CopyNode shares the comment slice"): the copy stores a
    path INTO THE SOURCE for its comment array, so the copy program is not one that stores only its
    own cells -/
theorem clone_plan_shared_fails :
    Heap.planOf (Gotree.Gen.C15.fields.map fun f =>
      if f.owner == "Node" && f.name == "comment" then { f with treat := .shared } else f) ≠ Heap.Plan.none ∧
    (Heap.copyNodeOps ⟨true, false, false⟩ (T.leaf "a") [0] true none 0).1.any (fun o => !o.freshRefs) = true := by
  decide

/-- ★ … in particular for the table of the current source -/
theorem clone_eq (t : T) : clone t = zeroPpos t := cloneBy_eq _ table_observable_copied t

/-- nothing any enumeration or text reads depends on the parent positions: same split list
    (names below every branch, branch data incl. comments), same tips, same node names in
    pre-order, same distances -/
theorem clone_same_observations (t : T) :
    (clone t).splits = t.splits ∧ (clone t).tipNames = t.tipNames ∧ (clone t).nodeNames = t.nodeNames ∧
    (clone t).d = t.d ∧ ∀ a b, (clone t).dist a b = t.dist a b := by
  rw [clone_eq]
  exact ⟨zeroPpos_splits t, zeroPpos_tipNames t, zeroPpos_nodeNames t, zeroPpos_d t, zeroPpos_dist t⟩

/-- ★ "same text, including comments": for the writer model of C01 (`Newick.write`, any float codec),
    the Newick text of the clone is the text of its source (the writer never reads a parent position) -/
theorem clone_same_text (C : Newick.Codec) (t : T) : Newick.write C (clone t) = Newick.write C t := by
  rw [clone_eq, write_zeroPpos]

/-- … and likewise the text of an extracted subtree is the text of what hangs below the node -/
theorem subtree_same_text (C : Newick.Codec) (t : T) (path : List Nat) (n sub : T)
    (hn : nodeAt t path = some n) (hs : subTree t path = some sub) : Newick.write C sub = Newick.write C n := by
  have hsub : sub = zeroPpos n := by
    simp only [subTree, subTreeBy, hn, Option.map_some, Option.some.injEq] at hs
    rw [← hs]; exact copyRecBy_eq table_observable_copied n
  rw [hsub, write_zeroPpos]

/-- the derived state of a clone: `UpdateTipIndex` gives the clone the tip ids of its source, and the
    bitsets `CopyEdge` clones are the ones `ReinitIndexes` would compute on the clone -/
theorem clone_derived (t : T) : tipIndex (clone t) = tipIndex t ∧ bitsets (clone t) = bitsets t := by
  rw [clone_eq]; exact zeroPpos_derived t

/-- the model's clone meets the Spec used as oracle -/
theorem cloneOK_holds (t : T) : cloneOK t (clone t) = true := by
  have : zeroPpos (clone t) = zeroPpos t := by rw [clone_eq, zeroPpos_idem]
  simp only [cloneOK, this]
  exact beq_refl_T _

/-- pinned variant (F20, before b0dbbc9): `CopyEdge` without the comments -/
def pinnedFields : Table :=
  Gotree.Gen.C15.fields.map fun f => if f.owner == "Edge" && f.name == "comment" then { f with treat := .notCopied } else f

def witnessF20 : T :=
  .node ⟨"", []⟩ 0 [(⟨1, NIL, NIL, ["c"], 0⟩, T.leaf "a"), (⟨1, NIL, NIL, [], 1⟩, T.leaf "b")]

theorem clone_pinned_fails :
    allObservableFieldsCopied pinnedFields = false ∧ (cloneBy pinnedFields witnessF20).edges ≠ witnessF20.edges := by
  decide +kernel

/-! ## SubTree -/

/-- ★ the subtree extracted at a node: path lengths between the leaves below that node are
    those of the source tree (unique tip names) -/
theorem subtree_dist (t : T) (path : List Nat) (n sub : T) (hn : nodeAt t path = some n)
    (hs : subTree t path = some sub) (hu : t.tipNames.Nodup) (a b : String)
    (ha : a ∈ leavesL n.kids) (hb : b ∈ leavesL n.kids) : sub.dist a b = t.dist a b := by
  have hsub : sub = zeroPpos n := by
    simp only [subTree, subTreeBy, hn, Option.map_some, Option.some.injEq] at hs
    rw [← hs]; exact copyRecBy_eq table_observable_copied n
  have hk : (leavesL t.kids).Nodup := by
    rw [tipNames_def] at hu; exact (List.nodup_append.mp hu).2.1
  rw [hsub, zeroPpos_dist, dist_def, dist_def]
  exact nodeAt_dist EdgeD.lenOr0 path t n hn hk a b ha hb

/-- ★ … and its tips are exactly the leaves below the node (plus the node itself when it has a
    single child: a root with one neighbour is a tip) -/
theorem subtree_tips (t : T) (path : List Nat) (n sub : T) (hn : nodeAt t path = some n)
    (hs : subTree t path = some sub) : sub.tipNames = subTips n ∧ zeroPpos sub = zeroPpos n := by
  have hsub : sub = zeroPpos n := by
    simp only [subTree, subTreeBy, hn, Option.map_some, Option.some.injEq] at hs
    rw [← hs]; exact copyRecBy_eq table_observable_copied n
  rw [hsub, zeroPpos_tipNames, zeroPpos_idem]
  exact ⟨rfl, rfl⟩

/-- … of an extracted subtree (`ReinitIndexes`): those of what hangs below the node, read as a tree -/
theorem subtree_derived (t : T) (path : List Nat) (n sub : T) (hn : nodeAt t path = some n)
    (hs : subTree t path = some sub) : tipIndex sub = tipIndex n ∧ bitsets sub = bitsets n := by
  have h := (subtree_tips t path n sub hn hs).2
  have h1 := zeroPpos_derived sub
  have h2 := zeroPpos_derived n
  rw [h] at h1
  exact ⟨h1.1.symm.trans h2.1, h1.2.symm.trans h2.2⟩

/-- … with the branch data of the source -/
theorem subtree_edges (t : T) (path : List Nat) (n sub : T) (hn : nodeAt t path = some n)
    (hs : subTree t path = some sub) : sub.splits = n.splits := by
  have := (subtree_tips t path n sub hn hs).2
  rw [← zeroPpos_splits sub, this, zeroPpos_splits]

/-- the model's subtree meets the Spec used as oracle -/
theorem subTreeOK_holds (t : T) (path : List Nat) (n sub : T) (hn : nodeAt t path = some n)
    (hs : subTree t path = some sub) (hu : t.tipNames.Nodup) : subTreeOK t n sub = true := by
  simp only [subTreeOK, Bool.and_eq_true]
  refine ⟨sameNames_of_perm (by rw [(subtree_tips t path n sub hn hs).1]), distAgree_of fun a ha b hb => ?_⟩
  exact (subtree_dist t path n sub hn hs hu a b ha hb).symm

/-- `gotree subtree -n '^name$'` prints something only when exactly one node carries the name and it
    is not a tip; then it prints the copy of what hangs below it -/
theorem cliSubtree_spec (t : T) (name : String) (sub : T) (h : cliSubtree t name = some sub) :
    ∃ n, nodesNamed t name = [(false, n)] ∧ zeroPpos sub = zeroPpos n := by
  unfold cliSubtree cliSubtreeBy at h
  split at h
  · rename_i n hn
    injection h with h
    exact ⟨n, hn, by rw [← h, copyRecBy_eq table_observable_copied, zeroPpos_idem]⟩
  · cases h

example : (insertIdentical true witnessF37 [["c", "n1", "n2"], ["m", "a"]]).2 = none ∧
    (insertIdentical true witnessF37 [["c", "n1", "n2"], ["m", "a"]]).1.tipNames = ["m", "a", "b", "n1", "c", "n2", "d"] := by
  decide +kernel
example : okTips (graft true witnessF37 "b" exXY) = ["a", "x", "y", "c", "d"] := by decide +kernel
example : okTips (merge true true witnessF37 exXY) = ["a", "b", "c", "d", "x", "y"] := by decide +kernel
example : (subTree witnessF37 [1, 0]).map T.tipNames = some ["c", "d"] ∧
    (nodeAt witnessF37 [1, 0]).map (fun n => leavesL n.kids) = some ["c", "d"] := by decide +kernel

/-- `gotree subtree` on several trees prints at most one tree per input tree, each the subtree of a node of
    some input tree with that name -/
theorem cliSubtreeAll_length (ts : List T) (name : String) : (cliSubtreeAll ts name).length ≤ ts.length := by
  unfold cliSubtreeAll
  exact List.length_filterMap_le _ _

/-! ## table (e), round 7: sentinels and guard constants regenerated from the source -/

/-- the sentinels of tree/edge.go are the ones of the model (`NIL`, `EdgeD.blank`, `zeroEdge`) -/
theorem sentinels_check :
    Gotree.Gen.C15.sentinels = expectedSentinels ∧ modelSentinels = expectedSentinels := by decide +kernel

/-- every comparison with a constant in Rooted, Tip, Merge, InsertIdenticalTips, InsertIdenticalTip and
    removeSingleNodesRecur, and every constant given to SetLength / math.Max there, is the one the model
    was written from (`Model/C15Guards.lean` names the model definition behind each row).  A changed
    operator or constant (`> 1` → `> 2`, `== 0.0` → `<= 0.0`, `Max(0, …)` → `Max(1, …)`) breaks this decision;
    the failing input is then searched by the oracle as usual. -/
theorem guards_check : Gotree.Gen.C15.guards = expectedGuards := by decide +kernel

end Gotree.C15
