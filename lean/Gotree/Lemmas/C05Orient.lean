/-
  C05 — orientation: after `Reroot` every branch points away from the root, `ReorderEdges`
  reports exactly the branches it had to invert, `Parent()` is the parent.
-/
import Gotree.Model.C05Orient
import Gotree.Lemmas.C05

namespace Gotree.C05
open Gotree

theorem eraseL_eq_map : ∀ (k : OKids), eraseL k = k.map (fun x => (x.1.e, x.2.erase))
  | [] => rfl
  | (oe, t) :: r => by simp [eraseL, eraseL_eq_map r]

theorem OT.erase_kids (o : OT) : o.erase.kids = eraseL o.kids := by cases o; simp [OT.erase, OT.kids]
theorem OT.erase_ppos (o : OT) : o.erase.ppos = o.ppos := by cases o; simp [OT.erase, OT.ppos]
theorem OT.erase_d (o : OT) : o.erase.d = o.d := by cases o; simp [OT.erase, OT.d]

mutual
theorem erase_orient : ∀ (t : T), (orient t).erase = t
  | .node d p k => by simp [orient, OT.erase, eraseL_orientL k]
theorem eraseL_orientL : ∀ (k : Kids), eraseL (orientL k) = k
  | [] => rfl
  | (e, t) :: r => by simp [orientL, eraseL, erase_orient t, eraseL_orientL r]
end

mutual
/-- `ReorderEdges` leaves a heap in which every branch points away from the root -/
theorem reorder_fst : ∀ (o : OT), o.reorder.1 = orient o.erase
  | .node d p k => by simp [OT.reorder, OT.erase, orient, reorderL_fst k]
theorem reorderL_fst : ∀ (k : OKids), (reorderL k).1 = orientL (eraseL k)
  | [] => rfl
  | (oe, t) :: r => by simp [reorderL, eraseL, orientL, reorder_fst t, reorderL_fst r]
end

mutual
/-- … and reports exactly the branches that did not, in the order of `Edges()` -/
theorem reorder_snd : ∀ (o : OT), o.reorder.2 = o.wrong
  | .node d p k => by simp [OT.reorder, OT.wrong, reorderL_snd k]
theorem reorderL_snd : ∀ (k : OKids), (reorderL k).2 = wrongL k
  | [] => rfl
  | (oe, t) :: r => by simp [reorderL, wrongL, reorder_snd t, reorderL_snd r]
end

mutual
theorem wrong_orient : ∀ (t : T), (orient t).wrong = []
  | .node d p k => by simp [orient, OT.wrong, wrongL_orientL k]
theorem wrongL_orientL : ∀ (k : Kids), wrongL (orientL k) = []
  | [] => rfl
  | (e, t) :: r => by simp [orientL, wrongL, wrong_orient t, wrongL_orientL r]
end

mutual
theorem flags_orient : ∀ (t : T), ∀ f ∈ (orient t).flags, f = true
  | .node d p k => by simpa [orient, OT.flags] using flagsL_orientL k
theorem flagsL_orientL : ∀ (k : Kids), ∀ f ∈ flagsL (orientL k), f = true
  | [] => by simp [orientL, flagsL]
  | (e, t) :: r => by
    intro f hf
    simp only [orientL, flagsL, List.mem_cons, List.mem_append] at hf
    rcases hf with rfl | hf | hf
    · rfl
    · exact flags_orient t f hf
    · exact flagsL_orientL r f hf
end

theorem map_eraseIdx' {α β : Type} (f : α → β) : ∀ (l : List α) (i : Nat), (l.eraseIdx i).map f = (l.map f).eraseIdx i
  | [], _ => by simp
  | a :: l, 0 => by simp
  | a :: l, i + 1 => by simp [map_eraseIdx' f l i]

/-- `t.root = child` changes no tree: forgetting the orientation gives the root move -/
theorem erase_moveRootO (o : OT) (i : Nat) : (moveRootO o i).erase = moveRoot o.erase i := by
  obtain ⟨d, p, kids⟩ := o
  simp only [moveRootO, OT.erase, moveRoot, eraseL_eq_map, List.getElem?_map]
  cases hk : kids[i]? with
  | none => simp [OT.erase, eraseL_eq_map]
  | some x =>
    obtain ⟨oe, ⟨dc, pc, kc⟩⟩ := x
    simp only [Option.map_some, OT.erase, eraseL_eq_map, insertAt, List.map_append, List.map_cons,
      List.map_take, List.map_drop, map_eraseIdx']

theorem erase_setRootO : ∀ (path : List Nat) (o : OT) (adj : Option Nat) (back : List Nat),
    (setRootO o path adj).erase = (rerootP o.erase path adj back).1
  | [], o, adj, back => by simp [setRootO, rerootP_nil]
  | i :: rest, o, adj, back => by
    simp only [setRootO]
    cases hk : o.kids[adjIdx adj i]? with
    | none =>
      have : o.erase.kids[adjIdx adj i]? = none := by
        rw [OT.erase_kids, eraseL_eq_map, List.getElem?_map, hk]; rfl
      rw [rerootP_cons_none _ i rest adj back this]
    | some x =>
      obtain ⟨oe, c⟩ := x
      have : o.erase.kids[adjIdx adj i]? = some (oe.e, c.erase) := by
        rw [OT.erase_kids, eraseL_eq_map, List.getElem?_map, hk]; rfl
      rw [rerootP_cons_some _ i rest adj back oe.e c.erase this]
      simp only
      rw [erase_setRootO rest _ _ (backStep back (adjIdx adj i) (min c.erase.ppos c.erase.kids.length)),
        erase_moveRootO, OT.erase_ppos, OT.erase_kids, eraseL_eq_map, List.length_map]

/-- **After `Reroot` every branch points away from the root**: `t.root = n; ReorderEdges(n)` on a
    correctly oriented heap gives the correctly oriented heap of the re-rooted tree. -/
theorem rerootO_oriented (t : T) (path : List Nat) : (rerootO t path).1 = orient (rerootP t path none []).1 := by
  unfold rerootO
  rw [reorder_fst, erase_setRootO path (orient t) none [], erase_orient]

/-- the branches `ReorderEdges` reports are exactly those that pointed the wrong way after
    `t.root = n` -/
theorem rerootO_reversed (t : T) (path : List Nat) : (rerootO t path).2 = (setRootO (orient t) path none).wrong := by
  unfold rerootO; exact reorder_snd _

mutual
theorem parents_orient : ∀ (t : T), ∀ s ∈ (orient t).parents (some true), s = "parent"
  | .node d p k => by
    intro s hs
    simp only [orient, OT.parents, List.mem_cons] at hs
    rcases hs with rfl | hs
    · simp [parentClass, parentCount, filter_orientL k]
    · exact parentsL_orientL k s hs
theorem parentsL_orientL : ∀ (k : Kids), ∀ s ∈ parentsL (orientL k), s = "parent"
  | [] => by simp [orientL, parentsL]
  | (e, t) :: r => by
    intro s hs
    simp only [orientL, parentsL, List.mem_append] at hs
    rcases hs with hs | hs
    · exact parents_orient t s hs
    · exact parentsL_orientL r s hs
theorem filter_orientL : ∀ (k : Kids), (orientL k).filter (fun x => !x.1.fwd) = []
  | [] => rfl
  | (e, t) :: r => by simp [orientL, filter_orientL r]
end

/-- in a correctly oriented heap `Parent()` / `ParentEdge()` answer the parent for every node but
    the root, which has none -/
theorem parents_of_oriented (t : T) :
    ∃ rest, (orient t).parents none = "none" :: rest ∧ ∀ s ∈ rest, s = "parent" := by
  obtain ⟨d, p, k⟩ := t
  refine ⟨parentsL (orientL k), ?_, parentsL_orientL k⟩
  simp [orient, OT.parents, parentClass, parentCount, filter_orientL k]

end Gotree.C05
