/-
  C16 — the facts about the source that the hand-written model assumes, in the form the extractor
  `harness/c16/extract.go` regenerates them (`Gotree/Gen/C16Source.lean`), what they must be
  (`expected…`), and what the guard rows MEAN (`firstFiring`: the answer of the leading `if … return
  nil, errors.New(…)` statements of a generator for a size and a rootedness).  Core Lean only.
-/
import Gotree.Model.C16
import Gotree.Spec.C16Cli

namespace Gotree.C16
open Gotree

inductive Cmp where
  | lt | le | gt | ge | eq | ne | other
  deriving DecidableEq, Repr

/-- one leading rejection of a generator: `if size OP k [&& rooted | && !rooted] { return nil, errors.New(msg) }` -/
structure Guard where
  fn : String
  op : Cmp
  k : Int
  rooted : Option Bool
  msg : String
  raw : String
  deriving DecidableEq, Repr

structure Rate where
  fn : String
  value : Option (Nat × Nat)
  deriving DecidableEq, Repr

structure Flag where
  file : String
  owner : String
  kind : String
  var : String
  long : String
  short : String
  dflt : String
  dfltInt : Option Int
  deriving DecidableEq, Repr

structure Fact where
  file : String
  what : String
  value : String
  deriving DecidableEq, Repr

def Cmp.holds (c : Cmp) (n k : Int) : Bool :=
  match c with
  | .lt => decide (n < k) | .le => decide (n ≤ k) | .gt => decide (n > k) | .ge => decide (n ≥ k)
  | .eq => decide (n = k) | .ne => decide (n ≠ k) | .other => false

def Guard.fires (g : Guard) (n : Int) (rooted : Bool) : Bool :=
  g.op.holds n g.k && (match g.rooted with | none => true | some b => rooted == b)

/-- the message of the first guard of the list that fires -/
def firstFiring (gs : List Guard) (n : Int) (rooted : Bool) : Option String :=
  (gs.find? fun g => g.fires n rooted).map (·.msg)

def GenKind.goName : GenKind → String
  | .uniform => "RandomUniformBinaryTree" | .yule => "RandomYuleBinaryTree"
  | .caterpillar => "RandomCaterpillarBinaryTree" | .balanced => "RandomBalancedBinaryTree"
  | .star => "StarTree"

def guardsOf (tbl : List Guard) (fn : String) : List Guard := tbl.filter fun g => g.fn == fn

/-- the guards the model was written from -/
def expectedGuards : List Guard := [
  ⟨"RandomUniformBinaryTree", .lt, 3, none, errLess3All, "nbtips < 3"⟩,
  ⟨"RandomYuleBinaryTree", .lt, 3, none, errLess3All, "nbtips < 3"⟩,
  ⟨"RandomCaterpillarBinaryTree", .lt, 3, none, errLess3All, "nbtips < 3"⟩,
  ⟨"RandomBalancedBinaryTree", .lt, 1, none, errDepth, "depth < 1"⟩,
  ⟨"RandomBalancedBinaryTree", .lt, 2, some false, errDepthU, "depth < 2 && !rooted"⟩,
  ⟨"StarTree", .lt, 2, none, errStar, "nbtips < 2"⟩,
  ⟨"AllTopologies", .lt, 3, some false, errTopoU, "nbTips < 3 && !rooted"⟩,
  ⟨"AllTopologies", .lt, 2, some true, errTopoR, "nbTips < 2 && rooted"⟩,
  ⟨"AllTopologies", .other, 0, none, errTopoNames, "len(tipNames) > 0 && len(tipNames) != nbTips"⟩]

/-- the table without the source text of the conditions (a rewrite `!(nbtips >= 3)` is another row;
    `3 > nbtips` is reported as `other`) -/
def Guard.sem (g : Guard) : Guard := { g with raw := "" }

/-- every `gostats.Exp` of the generators is called with rate 10 (`lambda := 1.0 / 0.1`; the command
    `startree` with `1.0 / startreeLengthMean`): the harness replays the draws with this rate -/
def expectedRates : List Rate := [
  ⟨"RandomUniformBinaryTree", some (10, 1)⟩, ⟨"RandomYuleBinaryTree", some (10, 1)⟩,
  ⟨"RandomCaterpillarBinaryTree", some (10, 1)⟩, ⟨"randomBalancedBinaryTreeRecur", some (10, 1)⟩,
  ⟨"cmd/startree.go", some (10, 1)⟩]

/-- the options of `gotree generate …` (cmd/generate.go and the six command files) -/
def expectedFlags : List Flag := [
  ⟨"generate.go", "generateCmd.PersistentFlags", "Int", "generateNbTrees", "--nbtrees", "-n", "1", some 1⟩,
  ⟨"generate.go", "generateCmd.PersistentFlags", "String", "generateOutputfile", "--output", "-o", "stdout", none⟩,
  ⟨"generate.go", "generateCmd.PersistentFlags", "Bool", "generateRooted", "--rooted", "-r", "false", none⟩,
  ⟨"uniformtree.go", "uniformtreeCmd.PersistentFlags", "Int", "generateNbTips", "--nbtips", "-l", "10", some 10⟩,
  ⟨"yuletree.go", "yuletreeCmd.PersistentFlags", "Int", "generateNbTips", "--nbtips", "-l", "10", some 10⟩,
  ⟨"caterpillartree.go", "caterpilartreeCmd.PersistentFlags", "Int", "generateNbTips", "--nbtips", "-l", "10", some 10⟩,
  ⟨"balancedtree.go", "balancedtreeCmd.PersistentFlags", "Int", "generateDepth", "--depth", "-d", "3", some 3⟩,
  ⟨"startree.go", "startreeCmd.PersistentFlags", "Int", "generateNbTips", "--nbtips", "-l", "10", some 10⟩,
  ⟨"topologies.go", "topologiesCmd.PersistentFlags", "Int", "generateNbTips", "--nbtips", "-l", "10", some 10⟩,
  ⟨"topologies.go", "topologiesCmd.PersistentFlags", "String", "generateIntreeFile", "--input", "-i", "none", none⟩]

/-- which field of the request a variable of cmd/generate.go is -/
def varKind (v : String) : FlagKind :=
  if v == "generateNbTrees" then .nbtrees
  else if v == "generateOutputfile" then .output
  else if v == "generateRooted" then .rooted
  else if v == "generateNbTips" || v == "generateDepth" then .size
  else .unknown

/-- a row of the flag table agrees with the option model `flagKind` / `GenReq.default`: both spellings
    denote the field of the row's variable, and the default is the model's default -/
def Flag.agrees (f : Flag) : Bool :=
  let balanced := f.file == "balancedtree.go"
  let k := varKind f.var
  flagKind balanced f.long == k && flagKind balanced f.short == k &&
  (match k with
   | .nbtrees => f.dfltInt == some (GenReq.default balanced).nbtrees
   | .output => f.dflt == (GenReq.default balanced).output
   | .rooted => f.dflt == (if (GenReq.default balanced).rooted then "true" else "false")
   | .size => f.dfltInt == some (GenReq.default balanced).size
   | _ => false)

/-- the rows of the random generators (topologies' `-i` is not an option of `parseGenArgs`) -/
def genFlags (tbl : List Flag) : List Flag := tbl.filter fun f => f.var != "generateIntreeFile"

def expectedCalls : List Fact := [
  ⟨"generate.go", "use", "generate"⟩,
  ⟨"uniformtree.go", "call", "RandomUniformBinaryTree"⟩, ⟨"uniformtree.go", "use", "uniformtree"⟩, ⟨"uniformtree.go", "entry", "RunE"⟩,
  ⟨"yuletree.go", "call", "RandomYuleBinaryTree"⟩, ⟨"yuletree.go", "use", "yuletree"⟩, ⟨"yuletree.go", "entry", "RunE"⟩,
  ⟨"caterpillartree.go", "call", "RandomCaterpillarBinaryTree"⟩, ⟨"caterpillartree.go", "use", "caterpillartree"⟩, ⟨"caterpillartree.go", "entry", "RunE"⟩,
  ⟨"balancedtree.go", "call", "RandomBalancedBinaryTree"⟩, ⟨"balancedtree.go", "use", "balancedtree"⟩, ⟨"balancedtree.go", "entry", "RunE"⟩,
  ⟨"startree.go", "call", "StarTree"⟩, ⟨"startree.go", "use", "startree"⟩, ⟨"startree.go", "entry", "RunE"⟩,
  ⟨"topologies.go", "use", "topologies"⟩, ⟨"topologies.go", "entry", "RunE"⟩, ⟨"topologies.go", "call", "AllTopologies"⟩]

/-- `output != "stdout" && output != "-"` in the five commands that open the file themselves -/
def expectedOutputs : List Fact :=
  ["uniformtree.go", "yuletree.go", "caterpillartree.go", "balancedtree.go", "startree.go"].flatMap fun f =>
    [⟨f, "!=", "stdout"⟩, ⟨f, "!=", "-"⟩]

/-- order-insensitive comparison of fact lists -/
def sameFacts (a b : List Fact) : Bool := a.all b.contains && b.all a.contains && a.length == b.length

end Gotree.C16
