/-
  C10 — the facts about the Go source that the hand-written model (Model/C10.lean,
  Model/C10Cancel.lean) assumes, as data.  `Gotree.Gen.C10.facts` (Gen/C10Facts.lean) is regenerated
  from the working tree on every run by harness/c10/extract.go (`vh gen-tables`, go/ast);
  `expected` below is what the model was written against; the theorem `sourceFactsCheck` of
  Proofs/C10.lean re-decides `facts = expected`.  When it fails the driver still runs: the change
  is first looked for through the oracle on generated inputs.
  Core Lean only.
-/
namespace Gotree.C10

structure Facts where
  /-- function ↦ its comparisons (nil tests left out), in source order, as shapes: operators, literals,
      conversions and upper-case constants kept, any other operand `_` -/
  cmps : List (String × List String)
  /-- function ↦ the set of its numeric literals (sorted) -/
  lits : List (String × List String)
  /-- [command function, callee, arguments…] in source order -/
  calls : List (List String)
  /-- [flag, shorthand, default] -/
  flags : List (List String)
  /-- [constant, value] -/
  consts : List (List String)
  deriving DecidableEq, Repr

/-- what the model was written against.  Where each row lives in the model:
    FBP `cpus < 1` → `atLeastOne`; `td > 1` (with `!Right().Tip()`) → `supported`;
    MinTransferDist `p == 1` (and the literal of `p - 1`) → `minTransferDist`; `ops_zeros… < ops_ones…` → `minTransferFull`;
    speciesToMoveRecursive → `stmNode`; minTransferDistRecur `r > ntips/2` → `lightOf`,
    `d > ntips/2` → `edgeDist`, `d < *dist`, `d <= *dist`, `d == 1` → `visitEdge` / `visitFull`;
    TBE `cpu < 1` → `atLeastOne`, `p > 1` → `tbeEdge`, `p >= mindepth`, the literals of `1.0/distcutoff + 1.0`, `nbranchclose > 0`,
    `* 100.0 / float64(nboot)` … → `minDepth`, `logStep`, `tbeLog`; ReformatAvgDistance → `tbeLog.raw`;
    NormalizeTransferDistancesByDepth → `normalize`; UpdateTaxaMoveArrays → `logStep`;
    calls: the readers → `cliReference` / `cliStream`, `refTree.ReinitIndexes` before `support.TBE` → `tbe` (vs `tbeNotIndexed`),
    `rootCpus` → `fbpCfg` / `tbeCfg`, `nil` Supporter → `fbp` / `tbe` (a Supporter: `fbpS` / `tbeS`), the raw tree is written first;
    flags: what harness/c10 passes and leaves out (`--dist-cutoff` 0.3 is the value of the library cases);
    consts: `NIL` of Model/Core.lean. -/
def expected : Facts := {
  cmps := [
    ("FBP", ["_ < 1", "_ > _", "_ < _", "_ > 1"]),
    ("MinTransferDist", ["_ == 1", "_ < _"]),
    ("speciesToMoveRecursive", ["_ == _", "_ == 0", "_ == 1", "_ == _", "_ == 0", "_ != _"]),
    ("minTransferDistRecur", ["_ > _ / 2", "_ != _", "_ > _ / 2", "_ < _", "_ <= _", "_ == 1"]),
    ("TBE", ["_ < 1", "_ < _", "_ > 1", "_ >= _", "_ > 0"]),
    ("ReformatAvgDistance", ["_ != NIL_SUPPORT"]),
    ("NormalizeTransferDistancesByDepth", ["_ != NIL_SUPPORT"]),
    ("UpdateTaxaMoveArrays", ["_ <= _", "_ >= _"])
  ],
  lits := [
    ("FBP", ["0", "0.75", "1", "100", "2"]),
    ("MinTransferDist", ["0", "1", "2"]),
    ("speciesToMoveRecursive", ["0", "1"]),
    ("minTransferDistRecur", ["0", "1", "2"]),
    ("TBE", ["0", "0.0", "0.75", "1", "1.0", "10", "100.0", "2"]),
    ("ReformatAvgDistance", []),
    ("NormalizeTransferDistancesByDepth", ["1", "1.0"]),
    ("UpdateTaxaMoveArrays", ["1.0"])
  ],
  calls := [
    ["classical", "readTree", "supportIntree"],
    ["classical", "readTrees", "supportBoottrees"],
    ["classical", "support.FBP", "refTree", "boottreechan", "rootCpus", "nil"],
    ["classical", "supportOut.WriteString", "refTree.Newick() + \"\\n\""],
    ["booster", "readTree", "supportIntree"],
    ["booster", "readTrees", "supportBoottrees"],
    ["booster", "refTree.ReinitIndexes"],
    ["booster", "support.TBE", "refTree", "boottreechan", "rootCpus", "rawSupportOutputFile != \"none\"", "movedtaxa", "taxperbranches", "boosterdistcutoff", "supportLog", "nil"],
    ["booster", "rawSupportOut.WriteString", "rawtree.Newick() + \"\\n\""],
    ["booster", "supportOut.WriteString", "refTree.Newick() + \"\\n\""]
  ],
  flags := [
    ["reftree", "i", "\"stdin\""],
    ["bootstrap", "b", "\"none\""],
    ["out", "o", "\"stdout\""],
    ["log-file", "l", "\"stderr\""],
    ["silent", "", "false"],
    ["moved-taxa", "", "false"],
    ["per-branches", "", "false"],
    ["out-raw", "r", "\"none\""],
    ["dist-cutoff", "", "0.3"],
    ["threads", "t", "1"]
  ],
  consts := [
    ["NIL_SUPPORT", "-1.0"]
  ] }

end Gotree.C10
