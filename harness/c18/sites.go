package c18

// Correspondence of the site models (Model/C18.lean) with the real code: for every
// map-range site whose effect can be observed, the harness hands the driver the
// entries of the real map IN THE ORDER GO ITERATED THEM and what the real code
// produced; the driver runs the model body on those entries and compares.
//
// case line:  C18.site-<name> <files> <params> <entries> <impl>
//   files   = input files (replay re-executes from them)
//   entries = StrLists, one list [key, value…] per map entry
//   impl    = StrList of what the implementation produced

import (
	"bufio"
	"fmt"
	"math/rand"
	"os"
	"path/filepath"
	"sort"
	"strings"
	"time"

	"verifharness/core"

	"github.com/evolbioinfo/goalign/align"
	"github.com/evolbioinfo/gotree/acr"
	"github.com/evolbioinfo/gotree/asr"
	"github.com/evolbioinfo/gotree/io/nexus"
	"github.com/evolbioinfo/gotree/io/utils"
	"github.com/evolbioinfo/gotree/mutations"
	"github.com/evolbioinfo/gotree/tree"
)

// the lines of a file as a line reader sees them (a final newline ends the last line, it does not start another)
func fileLines(s string) []string {
	if s == "" {
		return nil
	}
	return strings.Split(strings.TrimSuffix(s, "\n"), "\n")
}

func lines(s string) []string {
	if s == "" {
		return nil
	}
	l := strings.SplitAfter(s, "\n")
	if l[len(l)-1] == "" {
		l = l[:len(l)-1]
	}
	return l
}

// run the binary once in a fresh directory; returns stdout and the named output files
func cliOnce(c *core.Ctx, files map[string]string, outs []string, args ...string) (string, map[string]string, int) {
	dir := filepath.Join(c.Tmp, fmt.Sprintf("c18s_%d", os.Getpid()))
	os.MkdirAll(dir, 0755)
	defer os.RemoveAll(dir)
	for name, content := range files {
		os.WriteFile(filepath.Join(dir, "in_"+name), []byte(content), 0644)
	}
	a := make([]string, len(args))
	for i, x := range args {
		x = strings.ReplaceAll(x, "@in:", dir+"/in_")
		x = strings.ReplaceAll(x, "@out:", dir+"/out_")
		a[i] = x
	}
	res := c.RunCLI("", 60*time.Second, a...)
	got := map[string]string{}
	for _, o := range outs {
		b, _ := os.ReadFile(filepath.Join(dir, "out_"+o))
		got[o] = string(b)
	}
	return res.Stdout, got, res.Exit
}

func siteCase(c *core.Ctx, name string, files map[string]string, params []string) {
	var entries [][]string
	var impl []string
	p, msg := core.Safe(func() {
		switch name {
		case "tipbag":
			t := parseTree(files["tree"])
			tb := tree.NewTipBag()
			for _, n := range t.Tips() {
				tb.AddTip(n)
			}
			// entries: the tips in the order of a fresh map iteration (simulated by Go itself below)
			m := map[string]int{}
			for i, n := range t.Tips() {
				m[n.Name()] = i
			}
			for k, v := range m {
				entries = append(entries, []string{k, fmt.Sprint(v)})
			}
			for _, n := range tb.Tips() {
				impl = append(impl, fmt.Sprint(m[n.Name()]))
			}
		case "updatetipindex":
			t := parseTree(files["tree"])
			// the index before the call, in map order
			m := map[string]int{}
			for _, nm := range t.AllTipNames() {
				if i, err := t.TipIndex(nm); err == nil {
					m[nm] = i
				}
			}
			for k, v := range m {
				entries = append(entries, []string{k, fmt.Sprint(v)})
			}
			// parameters: the sorted tips the function will insert
			params = nil
			for _, n := range t.SortedTips() {
				params = append(params, n.Name())
			}
			err := t.UpdateTipIndex()
			if err != nil {
				impl = []string{"err"}
			} else {
				impl = []string{"ok"}
				for _, nm := range params {
					i, e := t.TipIndex(nm)
					if e != nil {
						i = -1
					}
					impl = append(impl, fmt.Sprint(i))
				}
			}
		case "comparetipindexes":
			t := parseTree(files["tree"])
			t2 := parseTree(files["tree2"])
			t.UpdateTipIndex()
			t2.UpdateTipIndex()
			m := map[string]bool{}
			for _, nm := range t.AllTipNames() {
				m[nm] = true
			}
			for k := range m {
				entries = append(entries, []string{k, "1"})
			}
			params = t2.AllTipNames()
			impl = []string{fmt.Sprint(t.CompareTipIndexes(t2) == nil)}
			// Merge: only the disjointness loop is observed (the message of the loop's error)
			t.ReinitIndexes()
			t2.ReinitIndexes()
			merr := "nil"
			if t.Rooted() && t2.Rooted() {
				if err := t.Merge(t2); err != nil {
					merr = err.Error()
				}
				impl = append(impl, fmt.Sprint(!strings.Contains(merr, "common tip names")))
			} else {
				impl = append(impl, "unrooted")
			}
		case "rename":
			t := parseTree(files["tree"])
			nm := parseMap(files["map"])
			for k, v := range nm {
				entries = append(entries, []string{k, v})
			}
			params = nil
			for _, n := range t.Nodes() {
				if n.Tip() {
					params = append(params, "T:"+n.Name())
				} else {
					params = append(params, "I:"+n.Name())
				}
			}
			nodes := t.Nodes()
			err := t.Rename(nm)
			if err != nil {
				impl = []string{"err"}
			} else {
				impl = []string{"ok"}
				for _, n := range nodes {
					impl = append(impl, n.Name())
				}
			}
		case "acrstates":
			t := parseTree(files["tree"])
			st := parseMap(files["states"])
			sm, _, err := acr.ParsimonyAcr(t, st, algoOf(params[0]), false)
			if err != nil {
				panic(err)
			}
			for k, v := range sm {
				entries = append(entries, []string{k, v})
			}
			_, outs, _ := cliOnce(c, files, []string{"states"}, "acr", "-i", "@in:tree", "--states", "@in:states", "--algo", params[0], "--out-states", "@out:states", "-o", "@out:tree", "--out-steps", "@out:steps")
			impl = lines(outs["states"])
		case "namemap":
			id := 1
			nm := map[string]string{}
			for _, l := range strings.Split(strings.TrimSpace(files["tree"]), "\n") {
				t := parseTree(l)
				if err := t.RenameAuto(false, true, 6, &id, nm); err != nil {
					panic(err)
				}
			}
			for k, v := range nm {
				entries = append(entries, []string{k, v})
			}
			_, outs, _ := cliOnce(c, files, []string{"map"}, "rename", "-i", "@in:tree", "-a", "-l", "6", "-m", "@out:map", "-o", "@out:tree")
			impl = lines(outs["map"])
		case "comparetips":
			t := parseTree(files["tree"])
			m := map[string]bool{}
			for _, l := range strings.Split(files["tips"], "\n") {
				if l != "" {
					m[l] = true
				}
			}
			for k := range m {
				entries = append(entries, []string{k, "true"})
			}
			params = t.AllTipNames()
			so, _, _ := cliOnce(c, files, nil, "compare", "tips", "-i", "@in:tree", "-f", "@in:tips")
			impl = lines(so) // the whole standard output
		case "mutations":
			t := parseTree(files["tree"])
			a := parseAlign(files["align"])
			var ml *mutations.MutationList
			var err error
			args := []string{"compute", "mutations", "-i", "@in:tree", "-a", "@in:align"}
			if params[0] == "eems" {
				ml, err = mutations.CountEEMs(t, a)
				args = append(args, "--eems")
			} else {
				ml, err = mutations.CountMutations(t, a)
			}
			if err != nil {
				panic(err)
			}
			for k, m := range ml.Mutations {
				entries = append(entries, []string{k, fmt.Sprint(m.AlignmentSite), fmt.Sprint(m.BranchIndex), m.ChildNodeName,
					string(rune(m.ParentCharacter)), string(rune(m.ChildCharacter)), fmt.Sprint(m.NumTips), fmt.Sprint(m.NumTipsWithChildCharacter), fmt.Sprint(m.NumEEM)})
			}
			so, _, _ := cliOnce(c, files, nil, args...)
			l := lines(so)
			if len(l) > 0 {
				impl = l[1:] // header
			}
		case "rf":
			ref := parseTree(files["tree"])
			ch := utils.ReadMultiTrees(bufio.NewReader(strings.NewReader(files["multi"])), utils.FORMAT_NEWICK)
			stats, err := tree.Compare(ref, ch, false, false, 3)
			if err != nil {
				panic(err)
			}
			for st := range stats {
				if st.Err != nil {
					panic(st.Err)
				}
				entries = append(entries, []string{fmt.Sprint(st.Id), fmt.Sprint(st.Tree1 + st.Tree2)})
			}
			so, _, _ := cliOnce(c, files, nil, "compare", "trees", "-i", "@in:tree", "-c", "@in:multi", "--rf", "-t", "3")
			impl = lines(so)
		case "asrtip":
			t := parseTree(files["tree"])
			a := parseAlign(files["align"])
			alpha := a.AlphabetCharacters()
			kind := "aa"
			if a.Alphabet() == align.NUCLEOTIDS {
				kind = "nucl"
			}
			params = []string{string(alpha), kind}
			// charToIndex as ParsimonyAsr builds it, listed in the order Go iterates it
			c2i := map[uint8]int{}
			for i, ch := range append(append([]uint8{}, alpha...), '-', '*') {
				c2i[ch] = i
			}
			for k, v := range c2i {
				entries = append(entries, []string{string(rune(k)), fmt.Sprint(v)})
			}
			if _, err := asr.ParsimonyAsr(t, a, asr.ALGO_DOWNPASS, false); err != nil {
				panic(err)
			}
			seen := map[byte]string{}
			var order []byte
			for _, tip := range t.Tips() {
				seq, _ := a.GetSequenceChar(tip.Name())
				if len(tip.Comments()) == 0 {
					continue
				}
				groups := splitGroups(tip.Comments()[len(tip.Comments())-1]) // asr appends its comment after those of the input
				for j, ch := range seq {
					g := "MISSING"
					if j < len(groups) {
						g = groups[j]
					}
					if old, ok := seen[ch]; !ok {
						seen[ch] = g
						order = append(order, ch)
					} else if old != g {
						seen[ch] = "INCONSISTENT(" + old + "/" + g + ")"
					}
				}
			}
			for _, ch := range order {
				impl = append(impl, string(rune(ch))+"="+seen[ch])
			}
		case "nexusframe":
			// WriteNexus: everything but the TREE lines, from the tip names of the trees in traversal order
			translate := len(params) > 0 && params[0] == "translate"
			for i, l := range strings.Split(strings.TrimSpace(files["tree"]), "\n") {
				t := parseTree(l)
				entries = append(entries, append([]string{fmt.Sprint(i)}, t.AllTipNames()...))
			}
			ch := utils.ReadMultiTrees(bufio.NewReader(strings.NewReader(files["tree"])), utils.FORMAT_NEWICK)
			out, err := nexus.WriteNexus(ch, translate)
			if err != nil {
				panic(err)
			}
			for _, l := range lines(out) {
				if !strings.HasPrefix(l, "  TREE ") {
					impl = append(impl, l)
				}
			}
		case "append":
			// mutations.MutationList.Append called directly: files m and l hold "key<TAB>site" lines
			mk := func(txt string) *mutations.MutationList {
				ml := mutations.NewMutationList()
				for _, ln := range strings.Split(txt, "\n") {
					cc := strings.Split(ln, "\t")
					if len(cc) == 2 {
						var site int
						fmt.Sscanf(cc[1], "%d", &site)
						ml.Mutations[cc[0]] = mutations.Mutation{AlignmentSite: site, ParentCharacter: 'A', ChildCharacter: 'C'}
					}
				}
				return ml
			}
			m, l := mk(files["m"]), mk(files["l"])
			params = nil
			for k, v := range m.Mutations {
				params = append(params, fmt.Sprintf("%s=%d", k, v.AlignmentSite))
			}
			for k, v := range l.Mutations {
				entries = append(entries, []string{k, fmt.Sprint(v.AlignmentSite)})
			}
			// io.LogError writes to stderr: silence it for the expected error
			olderr := os.Stderr
			if devnull, e := os.OpenFile(os.DevNull, os.O_WRONLY, 0); e == nil {
				os.Stderr = devnull
				defer func() { devnull.Close() }()
			}
			err := m.Append(l)
			os.Stderr = olderr
			if err != nil {
				impl = []string{"err"}
			} else {
				impl = []string{"ok"}
				var ks []string
				for k := range m.Mutations {
					ks = append(ks, k)
				}
				sort.Strings(ks)
				for _, k := range ks {
					impl = append(impl, fmt.Sprintf("%s=%d", k, m.Mutations[k].AlignmentSite))
				}
			}
		case "acralphabet":
			// a star tree with one tip per distinct state: after the up-pass alone (ALGO_NONE) the root
			// carries every state, written in the order of the alphabet
			st := parseMap(files["states"])
			rep := map[string]string{}
			var tipnames []string
			for tip := range st {
				tipnames = append(tipnames, tip)
			}
			sort.Strings(tipnames)
			var reps []string
			for _, tip := range tipnames {
				if _, ok := rep[st[tip]]; !ok {
					rep[st[tip]] = tip
					reps = append(reps, tip)
				}
			}
			if len(reps) < 3 {
				panic("fewer than 3 states")
			}
			t := parseTree("(" + strings.Join(reps, ",") + ");")
			for k, v := range st {
				entries = append(entries, []string{k, v})
			}
			if _, _, err := acr.ParsimonyAcr(t, st, acr.ALGO_NONE, false); err != nil {
				panic(err)
			}
			impl = strings.Split(t.Root().Comments()[0], "|")
		case "eems":
			// mutations.CountEEMs: the records kept per (site, parent, child), branch and child node name included
			t := parseTree(files["tree"])
			a := parseAlign(files["align"])
			ml, err := mutations.CountEEMs(t, a)
			if err != nil {
				panic(err)
			}
			n, wf := core.Alpha(t) // after the call: the branch ids are those CountEEMs has set
			if !wf.OK() {
				panic("malformed")
			}
			params = []string{n.Dump()}
			for _, nd := range t.Nodes() {
				seq, ok := a.GetSequenceChar(nd.Name())
				if !ok {
					panic("no sequence for " + nd.Name())
				}
				entries = append(entries, []string{nd.Name(), string(seq)})
			}
			for k, m := range ml.Mutations {
				impl = append(impl, fmt.Sprintf("%s %d %d %s %d", k, m.AlignmentSite, m.BranchIndex, m.ChildNodeName, m.NumEEM))
			}
			sort.Strings(impl)
		case "chardist":
			// CountMutations on a tree whose nodes are all named: per mutation record, the number of tips
			// below and how many of them carry the child character (= the merged character distributions)
			t := parseTree(files["tree"])
			a := parseAlign(files["align"])
			n, wf := core.Alpha(t)
			if !wf.OK() {
				panic("malformed")
			}
			params = []string{n.Dump()}
			// entries: node name -> sequence
			for _, nd := range t.Nodes() {
				seq, ok := a.GetSequenceChar(nd.Name())
				if !ok {
					panic("no sequence for " + nd.Name())
				}
				entries = append(entries, []string{nd.Name(), string(seq)})
			}
			ml, err := mutations.CountMutations(t, a)
			if err != nil {
				panic(err)
			}
			for _, m := range ml.Mutations {
				impl = append(impl, fmt.Sprintf("%d %s %c %c %d %d", m.AlignmentSite, m.ChildNodeName, m.ParentCharacter, m.ChildCharacter, m.NumTips, m.NumTipsWithChildCharacter))
			}
			sort.Strings(impl)
		case "readmap":
			// cmd/root.go readMapFile, then Tree.Rename, through `gotree rename -m file [-r]`
			t := parseTree(files["tree"])
			for _, l := range fileLines(files["map"]) {
				entries = append(entries, []string{l})
			}
			mode := "forward"
			if len(params) > 0 && params[0] == "revert" {
				mode = "revert"
			}
			params = []string{mode}
			for _, n := range t.Nodes() {
				if n.Tip() {
					params = append(params, "T:"+n.Name())
				} else {
					params = append(params, "I:"+n.Name())
				}
			}
			args := []string{"rename", "-i", "@in:tree", "-m", "@in:map"}
			if mode == "revert" {
				args = append(args, "-r")
			}
			so, _, exit := cliOnce(c, files, nil, args...)
			if exit != 0 {
				impl = []string{"err"}
			} else {
				impl = []string{"ok"}
				for _, n := range parseTree(strings.TrimSpace(so)).Nodes() {
					impl = append(impl, n.Name())
				}
			}
		case "tipstates":
			// cmd/acr.go parseTipStates through `gotree acr --algo none`: the state written on every tip of the output tree
			t := parseTree(files["tree"])
			params = t.AllTipNames()
			for _, l := range fileLines(files["states"]) {
				entries = append(entries, []string{l})
			}
			_, outs, exit := cliOnce(c, files, []string{"tree"}, "acr", "-i", "@in:tree", "--states", "@in:states", "--algo", "none", "--out-states", "@out:states", "-o", "@out:tree", "--out-steps", "@out:steps")
			if exit != 0 {
				impl = []string{"err"}
			} else {
				// the state acr wrote on each tip (its last comment: acr appends after the comments of the input)
				for _, tip := range parseTree(strings.TrimSpace(outs["tree"])).SortedTips() {
					st := "NOCOMMENT"
					if cm := tip.Comments(); len(cm) > 0 {
						st = cm[len(cm)-1]
					}
					impl = append(impl, tip.Name()+","+st+"\n")
				}
			}
		case "renameauto":
			// cmd/rename.go --auto [--internal] [--tips=false] -l L -m map: names written per tree, then the map file
			which, L := params[0], params[1]
			joined := func(newick string) string {
				var nms []string
				for _, n := range parseTree(newick).Nodes() {
					nms = append(nms, n.Name())
				}
				return strings.Join(nms, "|")
			}
			for i, l := range strings.Split(strings.TrimSpace(files["tree"]), "\n") {
				e := []string{fmt.Sprint(i)}
				for _, n := range parseTree(l).Nodes() {
					if n.Tip() {
						e = append(e, "T:"+n.Name())
					} else {
						e = append(e, "I:"+n.Name())
					}
				}
				entries = append(entries, e)
			}
			args := []string{"rename", "-i", "@in:tree", "-a", "-l", L, "-m", "@out:map", "-o", "@out:tree"}
			if which == "internal" || which == "both" {
				args = append(args, "--internal")
			}
			if which == "internal" {
				args = append(args, "--tips=false")
			}
			_, outs, exit := cliOnce(c, files, []string{"map", "tree"}, args...)
			for _, l := range fileLines(outs["tree"]) {
				impl = append(impl, joined(l))
			}
			if exit != 0 {
				impl = append(impl, "--failed--")
			} else {
				impl = append(append(impl, "--map--"), lines(outs["map"])...)
			}
		default:
			panic("unknown site case " + name)
		}
	})
	if p {
		c.Emit("C18.site-"+name, encFiles(files), core.StrList(params), "", core.StrList([]string{"PANIC", msg}))
		return
	}
	c.Emit("C18.site-"+name, encFiles(files), core.StrList(params), core.StrLists(entries), core.StrList(impl))
}

// the per-site groups of an ancestral sequence comment: a character or a {…} set
func splitGroups(s string) []string {
	var out []string
	for i := 0; i < len(s); i++ {
		if s[i] == '{' {
			j := strings.IndexByte(s[i:], '}')
			if j < 0 {
				out = append(out, s[i:])
				break
			}
			out = append(out, s[i:i+j+1])
			i += j
		} else {
			out = append(out, s[i:i+1])
		}
	}
	return out
}

func dupTip(newick string) string {
	t := parseTree(newick)
	tips := t.Tips()
	if len(tips) >= 2 {
		tips[1].SetName(tips[0].Name())
	}
	return t.Newick()
}

// correspondence cases for the site models
func siteCases(c *core.Ctx, in *inputs) {
	_ = rand.Int
	algo := []string{"acctran", "deltran", "downpass"}[c.G.Intn(3)]
	siteCase(c, "tipbag", map[string]string{"tree": in.tree}, nil)
	siteCase(c, "updatetipindex", map[string]string{"tree": in.tree}, nil)
	siteCase(c, "updatetipindex", map[string]string{"tree": dupTip(in.tree)}, nil)
	siteCase(c, "comparetipindexes", map[string]string{"tree": in.tree, "tree2": in.tree2}, nil)
	siteCase(c, "comparetipindexes", map[string]string{"tree": in.rooted, "tree2": in.rooted2}, nil)
	siteCase(c, "comparetipindexes", map[string]string{"tree": in.rooted, "tree2": in.rooted}, nil)
	siteCase(c, "comparetipindexes", map[string]string{"tree": in.tree, "tree2": in.rooted}, nil)
	siteCase(c, "rename", map[string]string{"tree": in.tree, "map": in.mapfile + "absent\tzzz\n"}, nil)
	siteCase(c, "rename", map[string]string{"tree": in.named, "map": in.mapfile + "I1\tinner1\nI2\tinner2\n"}, nil)
	siteCase(c, "rename", map[string]string{"tree": in.tree, "map": in.chainmap}, nil)
	siteCase(c, "rename", map[string]string{"tree": dupTip(in.tree), "map": in.mapfile}, nil)                                // two nodes with one name: NewNodeIndex refuses
	siteCase(c, "rename", map[string]string{"tree": in.tree, "map": in.tips[0] + "\tsame\n" + in.tips[1] + "\tsame\n"}, nil) // two tips get one name: UpdateTipIndex refuses
	siteCase(c, "asrtip", map[string]string{"tree": in.tree, "align": in.protein}, nil)
	siteCase(c, "acralphabet", map[string]string{"states": in.states}, nil)
	siteCase(c, "acralphabet", map[string]string{"states": in.statesCI}, nil)
	siteCase(c, "nexusframe", map[string]string{"tree": in.multi}, []string{"translate"})
	siteCase(c, "nexusframe", map[string]string{"tree": in.numeric}, []string{"translate"})
	siteCase(c, "nexusframe", map[string]string{"tree": in.tree + "\n" + in.tree2 + "\n" + in.rooted2 + "\n"}, []string{"translate"})
	siteCase(c, "nexusframe", map[string]string{"tree": in.multi}, []string{"plain"})
	siteCase(c, "chardist", map[string]string{"tree": in.named, "align": in.anc}, nil)
	siteCase(c, "eems", map[string]string{"tree": in.named, "align": in.anc}, nil)
	{
		// Append: key-disjoint maps, and maps sharing one or several keys
		var mb, lb, lb2 strings.Builder
		for i := 0; i < 10; i++ {
			fmt.Fprintf(&mb, "m%d\t%d\n", i, i)
			fmt.Fprintf(&lb, "l%d\t%d\n", i, 100+i)
			fmt.Fprintf(&lb2, "l%d\t%d\n", i, 100+i)
		}
		fmt.Fprintf(&lb2, "m%d\t7\nm%d\t8\n", c.G.Intn(5), 5+c.G.Intn(5))
		siteCase(c, "append", map[string]string{"m": mb.String(), "l": lb.String()}, nil)
		siteCase(c, "append", map[string]string{"m": mb.String(), "l": lb2.String()}, nil)
		siteCase(c, "append", map[string]string{"m": "", "l": lb.String()}, nil)
	}
	siteCase(c, "asrtip", map[string]string{"tree": in.rooted, "align": in.nucl}, nil)
	if c.Gotree != "" {
		// the readers: repeated keys (the last line wins), --revert on non-injective and chained maps, a malformed line
		// somewhere in the file, two tips renamed alike
		ml := fileLines(in.mapfile)
		rep2 := in.mapfile + fmt.Sprintf("%s\tagain_%d\n%s\tagain2\n", in.tips[c.G.Intn(len(in.tips))], c.G.Intn(100), in.tips[0])
		k := c.G.Intn(len(ml))
		bad := strings.Join(ml[:k], "\n") + "\n" + []string{"no_tab_here", "a\tb\tc", ""}[c.G.Intn(3)] + "\n" + strings.Join(ml[k:], "\n") + "\n"
		siteCase(c, "readmap", map[string]string{"tree": in.tree, "map": rep2}, []string{"forward"})
		siteCase(c, "readmap", map[string]string{"tree": in.tree, "map": in.dupmap}, []string{"revert"})
		siteCase(c, "readmap", map[string]string{"tree": in.tree, "map": in.chainmap}, []string{"revert"})
		siteCase(c, "readmap", map[string]string{"tree": in.named, "map": in.mapfile + "I1\tinner1\nI1\tinner1b\n"}, []string{"forward"})
		siteCase(c, "readmap", map[string]string{"tree": in.tree, "map": bad}, []string{[]string{"forward", "revert"}[c.G.Intn(2)]})
		siteCase(c, "readmap", map[string]string{"tree": in.tree, "map": in.mapfile + in.tips[1] + "\tnew_" + in.tips[0] + "\n"}, []string{"forward"})
		sl := fileLines(in.states)
		commas := strings.ReplaceAll(strings.Join(sl[:len(sl)/2], "\n"), "\t", ",") + "\n" + strings.Join(sl[len(sl)/2:], "\n") + "\n"
		siteCase(c, "tipstates", map[string]string{"tree": in.tree, "states": in.states}, nil)
		siteCase(c, "tipstates", map[string]string{"tree": in.tree, "states": commas + in.tips[2] + ",ZZ\n" + in.tips[2] + "\tE\n"}, nil)
		siteCase(c, "tipstates", map[string]string{"tree": in.tree, "states": in.states + in.tips[0] + "\tA,B\n"}, nil)
		siteCase(c, "tipstates", map[string]string{"tree": in.tree, "states": strings.Join(sl[1:], "\n") + "\n"}, nil) // a tip without a state
		siteCase(c, "renameauto", map[string]string{"tree": in.multi}, []string{"tips", "3"})                          // -l below 5 is raised to 5
		siteCase(c, "renameauto", map[string]string{"tree": in.multi}, []string{"both", []string{"6", "7", "10"}[c.G.Intn(3)]})
		siteCase(c, "renameauto", map[string]string{"tree": in.named + "\n" + in.rooted + "\n" + in.tree + "\n"}, []string{"internal", "5"})
		siteCase(c, "renameauto", map[string]string{"tree": in.tree + "\n" + dupTip(in.tree) + "\n" + in.rooted + "\n"}, []string{"tips", "8"}) // the second tree fails
		siteCase(c, "acrstates", map[string]string{"tree": in.tree, "states": in.states}, []string{algo})
		siteCase(c, "namemap", map[string]string{"tree": in.multi}, nil)
		siteCase(c, "comparetips", map[string]string{"tree": in.tree, "tips": in.tiplist}, nil)
		siteCase(c, "mutations", map[string]string{"tree": in.named, "align": in.anc}, []string{"all"})
		siteCase(c, "mutations", map[string]string{"tree": in.named, "align": in.anc}, []string{"eems"})
		siteCase(c, "rf", map[string]string{"tree": in.tree, "multi": in.multi}, nil)
	}
}

func replaySite(c *core.Ctx, f []string) {
	if len(f) < 3 {
		return
	}
	siteCase(c, strings.TrimPrefix(f[0], "C18.site-"), decFiles(f[1]), decList(f[2]))
}
