// Package c19: omitted option = documented default.
//
// flagdump.go — table (a) of DESIGN §4.1.  The harness binary links
// github.com/evolbioinfo/gotree/cmd, so by the time any code of this package
// runs every init() of the package under test has registered its flags on the
// live cmd.RootCmd tree.  Table walks that tree and returns one row per
// (command, flag).  GenTables writes the rows as Lean data.
//
// NOTE on `repo`: GenTables receives the path of the repository but the flag
// state comes from the package that is linked into this very binary.
// bin/check rebuilds vh from VERIF_REPO (go.mod `replace` => that path) before
// it calls `vh gen-tables`, so the two are the same tree (the path is deliberately not written
// into the generated file, so that the file only changes when the table does).
package c19

import (
	"fmt"
	"os"
	"path/filepath"
	"reflect"
	"regexp"
	"sort"
	"strings"

	"github.com/evolbioinfo/gotree/cmd"
	"github.com/spf13/cobra"
	"github.com/spf13/pflag"
)

// Row is one registered flag of one command, read before any parsing.
type Row struct {
	Path       string // "gotree compute consensus"
	Flag       string // long name
	Short      string // shorthand ("" if none)
	Persistent bool
	Var        int    // identity of the bound variable, renumbered 0,1,2… in first-seen order
	Type       string // pflag.Value.Type()
	Def        string // pflag.Flag.DefValue: what the help text prints as "(default …)"
	Cur        string // Value.String() now: what the command uses when the option is omitted
	Usage      string // help sentence (free text)
	UsageDef   string // a default claimed in the free text ("… (default: 0.5)"), "" if none is recognised
	Hidden     bool
	NoOptDef   string
	GoVar      string // name of the bound Go variable, when the source pass (initorder.go) found the registration

	flag *pflag.Flag
	cmd  *cobra.Command
}

// varPointer is the identity of the storage a pflag.Value writes to.
//
// The scalar values of pflag are named pointer types (`type stringValue string`,
// value of type *stringValue converted from the *string the caller gave), so the
// pointer inside the interface is the address of the caller's variable.  The slice
// / map values are pointers to a struct {value *[]T; changed bool}: the address of
// the caller's variable is the `value` field.  Anything else (a custom Value):
// the pointer inside the interface if there is one, else 0 (= "unknown", which is
// given a fresh id of its own so that it can never be said to be shared).
func varPointer(v pflag.Value) uintptr {
	rv := reflect.ValueOf(v)
	if rv.Kind() != reflect.Ptr {
		return 0
	}
	if rv.Elem().Kind() == reflect.Struct {
		f := rv.Elem().FieldByName("value")
		if f.IsValid() && f.Kind() == reflect.Ptr {
			return f.Pointer()
		}
	}
	return rv.Pointer()
}

var usageDefRe = regexp.MustCompile(`(?i)\(?\bdefault(?:s to| is| value|:|=)?\s*:?\s*([^\s,;)]+)\)?`)

// usageDefault extracts a default claimed by the free text of the usage sentence.
func usageDefault(u string) string {
	m := usageDefRe.FindStringSubmatch(u)
	if m == nil {
		return ""
	}
	return strings.Trim(m[1], "\"'`.")
}

// Table walks the live command tree.  Order: commands depth first, children in
// name order; for each command its persistent flags, then its local flags, each
// set in name order (pflag.VisitAll) — independent of the order in which the
// init() functions ran.
func Table() []Row {
	var rows []Row
	ids := map[uintptr]int{}
	next := 0
	var walk func(c *cobra.Command)
	walk = func(c *cobra.Command) {
		seen := map[*pflag.Flag]bool{}
		add := func(persistent bool) func(f *pflag.Flag) {
			return func(f *pflag.Flag) {
				if seen[f] {
					return
				}
				seen[f] = true
				p := varPointer(f.Value)
				id, ok := ids[p]
				if !ok || p == 0 {
					id = next
					next++
					if p != 0 {
						ids[p] = id
					}
				}
				rows = append(rows, Row{
					Path: c.CommandPath(), Flag: f.Name, Short: f.Shorthand, Persistent: persistent,
					Var: id, Type: f.Value.Type(), Def: f.DefValue, Cur: f.Value.String(),
					Usage: f.Usage, UsageDef: usageDefault(f.Usage), Hidden: f.Hidden, NoOptDef: f.NoOptDefVal,
					flag: f, cmd: c,
				})
			}
		}
		c.PersistentFlags().VisitAll(add(true))
		c.Flags().VisitAll(add(false))
		subs := append([]*cobra.Command(nil), c.Commands()...)
		sort.SliceStable(subs, func(i, j int) bool { return subs[i].Name() < subs[j].Name() })
		for _, s := range subs {
			walk(s)
		}
	}
	walk(cmd.RootCmd)
	return rows
}

func leanStr(s string) string {
	var b strings.Builder
	b.WriteByte('"')
	for _, r := range s {
		switch {
		case r == '"':
			b.WriteString("\\\"")
		case r == '\\':
			b.WriteString("\\\\")
		case r == '\n':
			b.WriteString("\\n")
		case r == '\t':
			b.WriteString("\\t")
		case r < 32 || r == 127:
			fmt.Fprintf(&b, "\\x%02x", r)
		default:
			b.WriteRune(r)
		}
	}
	b.WriteByte('"')
	return b.String()
}

// ChunkSize rows per Lean definition (and per `decide`).
const ChunkSize = 40

// GenTables writes lean/Gotree/Gen/C19Flags.lean.
func GenTables(repo, out string) error {
	rows := Table()
	if len(rows) == 0 {
		return fmt.Errorf("c19: the command tree has no flag at all")
	}
	var b strings.Builder
	b.WriteString("-- GENERATED by harness/c19/flagdump.go (`vh gen-tables`) from the live cmd.RootCmd of the\n")
	b.WriteString("-- gotree package linked into the harness; do not edit.  One row per (command, flag):\n")
	b.WriteString("-- path, flag, shorthand, persistent?, variable id, type, DefValue, Value.String() before parsing.\n")
	b.WriteString("import Gotree.Model.C19\n\nnamespace Gotree.Gen.C19Flags\nopen Gotree.C19\n\n")
	n := 0
	for i := 0; i < len(rows); i += ChunkSize {
		j := i + ChunkSize
		if j > len(rows) {
			j = len(rows)
		}
		fmt.Fprintf(&b, "def chunk%d : List Row := [\n", n)
		for k := i; k < j; k++ {
			r := rows[k]
			sep := ","
			if k == j-1 {
				sep = ""
			}
			fmt.Fprintf(&b, "  ⟨%s, %s, %s, %v, %d, %s, %s, %s⟩%s\n", leanStr(r.Path), leanStr(r.Flag), leanStr(r.Short),
				r.Persistent, r.Var, leanStr(r.Type), leanStr(r.Def), leanStr(r.Cur), sep)
		}
		b.WriteString("]\n\n")
		n++
	}
	b.WriteString("def chunks : List (List Row) := [")
	for i := 0; i < n; i++ {
		if i > 0 {
			b.WriteString(", ")
		}
		fmt.Fprintf(&b, "chunk%d", i)
	}
	b.WriteString("]\n\n")
	b.WriteString("def table : List Row := chunks.flatten\n\n")
	b.WriteString("/-- rows whose help sentence itself claims a numeric / boolean default (free text), with the claim -/\n")
	b.WriteString("def usageClaims : List (Row × String) := [")
	first := true
	for _, r := range rows {
		if cl := comparableClaim(r); cl != "" {
			if !first {
				b.WriteString(",")
			}
			first = false
			fmt.Fprintf(&b, "\n  (⟨%s, %s, %s, %v, %d, %s, %s, %s⟩, %s)", leanStr(r.Path), leanStr(r.Flag), leanStr(r.Short),
				r.Persistent, r.Var, leanStr(r.Type), leanStr(r.Def), leanStr(r.Cur), leanStr(cl))
		}
	}
	b.WriteString("]\n\n")
	fmt.Fprintf(&b, "def nrows : Nat := %d\n\nend Gotree.Gen.C19Flags\n", len(rows))
	p := filepath.Join(out, "C19Flags.lean")
	if old, err := os.ReadFile(p); err != nil || string(old) != b.String() { // unchanged: keep the mtime so that lake does not rebuild
		if err := os.WriteFile(p, []byte(b.String()), 0644); err != nil {
			return err
		}
	}
	return genWrites(repo, out)
}

// genWrites writes lean/Gotree/Gen/C19Writes.lean: table (e), the assignments to option variables
// made after parsing (writes.go; read off the SOURCE of `repo`, unlike the flag table).
func genWrites(repo, out string) error {
	ws, problems := optionWrites(repo)
	var b strings.Builder
	b.WriteString("-- GENERATED by harness/c19/writes.go (`vh gen-tables`) from the source of cmd/*.go; do not edit.\n")
	b.WriteString("-- One row per assignment `v = …` to a flag-bound package variable inside a command body or a helper it calls.\n")
	b.WriteString("import Gotree.Model.C19Glue\n\nnamespace Gotree.Gen.C19Writes\nopen Gotree.C19.Glue\n\n")
	b.WriteString("def writes : List OptWrite := [")
	for i, w := range ws {
		if i > 0 {
			b.WriteString(",")
		}
		fmt.Fprintf(&b, "\n  ⟨%s, %s, %s, %s⟩", leanStr(w.Path), leanStr(w.GoVar), leanStr(w.File), leanStr(w.Rhs))
	}
	b.WriteString("]\n\n")
	fmt.Fprintf(&b, "def problems : List String := [")
	for i, p := range problems {
		if i > 0 {
			b.WriteString(", ")
		}
		b.WriteString(leanStr(p))
	}
	b.WriteString("]\n\nend Gotree.Gen.C19Writes\n")
	p := filepath.Join(out, "C19Writes.lean")
	if old, err := os.ReadFile(p); err != nil || string(old) != b.String() {
		if err := os.WriteFile(p, []byte(b.String()), 0644); err != nil {
			return err
		}
	}
	return genChanged(repo, out)
}

// genChanged writes lean/Gotree/Gen/C19Changed.lean: table (f), the `Changed` tests (changed.go).
func genChanged(repo, out string) error {
	cs, problems := changedSites(repo)
	var b strings.Builder
	b.WriteString("-- GENERATED by harness/c19/changed.go (`vh gen-tables`) from the source of cmd/*.go; do not edit.\n")
	b.WriteString("-- One row per test of whether an option was GIVEN (Flags().Changed(\"x\"), Flag(\"x\").Changed, …) in a command body.\n")
	b.WriteString("import Gotree.Model.C19Glue\n\nnamespace Gotree.Gen.C19Changed\nopen Gotree.C19.Glue\n\n")
	b.WriteString("def sites : List ChangedSite := [")
	for i, c := range cs {
		if i > 0 {
			b.WriteString(",")
		}
		fmt.Fprintf(&b, "\n  ⟨%s, %s, %s⟩", leanStr(c.Path), leanStr(c.Flag), leanStr(c.File))
	}
	b.WriteString("]\n\ndef problems : List String := [")
	for i, p := range problems {
		if i > 0 {
			b.WriteString(", ")
		}
		b.WriteString(leanStr(p))
	}
	b.WriteString("]\n\nend Gotree.Gen.C19Changed\n")
	p := filepath.Join(out, "C19Changed.lean")
	if old, err := os.ReadFile(p); err != nil || string(old) != b.String() {
		if err := os.WriteFile(p, []byte(b.String()), 0644); err != nil {
			return err
		}
	}
	return genSentinels(repo, out)
}

// genSentinels writes lean/Gotree/Gen/C19Sentinels.lean: table (g), the literals the shared option
// glue compares option values with (sentinels.go).
func genSentinels(repo, out string) error {
	rows, problems := sentinelRows(repo)
	var b strings.Builder
	b.WriteString("-- GENERATED by harness/c19/sentinels.go (`vh gen-tables`) from cmd/root.go and io/utils/readfiles.go; do not edit.\n")
	b.WriteString("-- One row per comparison of an option value with a literal in the shared glue: (site, operator | constant, literal).\n")
	b.WriteString("import Gotree.Model.C19IO\n\nnamespace Gotree.Gen.C19Sentinels\nopen Gotree.C19.IO\n\n")
	b.WriteString("def rows : List SentinelRow := [")
	for i, r := range rows {
		if i > 0 {
			b.WriteString(",")
		}
		fmt.Fprintf(&b, "\n  ⟨%s, %s, %s⟩", leanStr(r.Site), leanStr(r.Op), leanStr(r.Lit))
	}
	b.WriteString("]\n\ndef problems : List String := [")
	for i, p := range problems {
		if i > 0 {
			b.WriteString(", ")
		}
		b.WriteString(leanStr(p))
	}
	b.WriteString("]\n\nend Gotree.Gen.C19Sentinels\n")
	p := filepath.Join(out, "C19Sentinels.lean")
	if old, err := os.ReadFile(p); err == nil && string(old) == b.String() {
		return nil
	}
	return os.WriteFile(p, []byte(b.String()), 0644)
}
