/-
  C04 — model of the split indexes of `tree.Tree`
  (tree/tree.go: UpdateTipIndex, ClearBitSets, UpdateBitSet/fillRightBitSet, ReinitIndexes;
   tree/edge_hash.go: ComputeEdgeHashes (right pass, then left pass), HashCode, HashEquals;
   tree/edge.go: TopoDepth, SameBipartition, NumTipsLeft/Right).

  `uint64` is `UInt64` (wrap-around additions and products), `fnv.New64a` is a
  parameter `H : String → UInt64` (the driver instantiates it with `fnv1a`), the
  external `bitset.BitSet` is a `List Bool` (DESIGN §3.4).  Core Lean only.
-/
import Gotree.Model.Core

namespace Gotree.C04
open Gotree

/-- FNV-1a, 64 bits (Go `hash/fnv` `New64a`): offset basis 14695981039346656037,
    prime 1099511628211, `hash = (hash XOR byte) * prime` for every byte. -/
def fnv1a (s : String) : UInt64 :=
  s.toUTF8.foldl (fun h b => (h ^^^ b.toUInt64) * 1099511628211) 14695981039346656037

/-- What `ReinitIndexes` leaves on one `Edge` (edge.go:25-29). -/
structure EdgeIdx where
  bits : List Bool
  nleft : Nat
  nright : Nat
  hleft : UInt64
  hright : UInt64
  deriving DecidableEq, Repr

/-- `SortedTips`: `sort.Slice` with `strings.Compare(a,b) < 0`. -/
def sortNames (l : List String) : List String := l.mergeSort (fun a b => decide (a ≤ b))

/-- a fresh `bitset.New(n)` in which the bits `ids` have been `Set` -/
def mkBits (n : Nat) (ids : List Nat) : List Bool := (List.range n).map fun i => ids.contains i

/- `computeEdgeHashesRightRecur(cur, prev, e)` for `e ≠ nil`: what it leaves in
   `(e.hashcoderight, e.ntaxright)`.  A non-root node is a tip iff it has no child. -/
mutual
def rightT (H : String → UInt64) : T → UInt64 × Nat
  | .node d _ [] => (H d.name, 1)
  | .node _ _ (k :: ks) => rightL H (k :: ks)
def rightL (H : String → UInt64) : Kids → UInt64 × Nat
  | [] => (0, 0)
  | (_, t) :: r => ((rightT H t).1 + (rightL H r).1, (rightT H t).2 + (rightL H r).2)
end

/- `computeEdgeHashesLeftRecur` (pre-order) merged with the bitsets of
   `fillRightBitSet`, one `EdgeIdx` per branch in `Edges()` order.

   `up`  = what the branches leaving the current node get from *above* it: the
           `(hashcodeleft, ntaxleft)` of the branch to its parent, or, for the root,
           its own name hash and 1 when it is a tip (single neighbour), else (0,0);
   `acc` = sum of `(hashcoderight, ntaxright)` of the siblings already passed.
   (Go adds the neighbours of `prev` in slice order, the parent at position `ppos`
   among them; the sum does not depend on that order, so `ppos` is not used.) -/
mutual
def idxT (H : String → UInt64) (rank : String → Nat) (n : Nat) (up : UInt64 × Nat) : T → List EdgeIdx
  | .node _ _ k => idxL H rank n up (0, 0) k
def idxL (H : String → UInt64) (rank : String → Nat) (n : Nat) (up acc : UInt64 × Nat) : Kids → List EdgeIdx
  | [] => []
  | (_, t) :: r =>
    { bits := mkBits n (t.leaves.map rank)
      nleft := up.2 + acc.2 + (rightL H r).2
      nright := (rightT H t).2
      hleft := up.1 + acc.1 + (rightL H r).1
      hright := (rightT H t).1 } ::
    (idxT H rank n (up.1 + acc.1 + (rightL H r).1, up.2 + acc.2 + (rightL H r).2) t ++
     idxL H rank n up (acc.1 + (rightT H t).1, acc.2 + (rightT H t).2) r)
end

inductive Res (α : Type) where
  | ok (a : α)
  | err (msg : String)
  deriving Repr

/-- what the left pass adds for a root that is a tip (fix 6e33baa) -/
def rootUp (H : String → UInt64) (t : T) : UInt64 × Nat :=
  if t.kids.length == 1 then (H t.name, 1) else (0, 0)

/-- `ReinitIndexes`: the tip names by rank and one `EdgeIdx` per branch
    (`Edges()` order = order of `T.splits`). -/
def reinit (H : String → UInt64) (t : T) : Res (List String × List EdgeIdx) :=
  let sorted := sortNames t.tipNames
  if !(decide sorted.Nodup) then .err "Cannot create a tip index when several tips have the same name"
  else if sorted.length == 0 then .err "No tips in the index, tip name index is not initialized"
  else .ok (sorted, idxL H (fun x => sorted.idxOf x) sorted.length (rootUp H t) (0, 0) t.kids)

/-- the index record of branch number `i` (position in `Edges()` / `T.splits`) after `ReinitIndexes` -/
def indexOf (H : String → UInt64) (t : T) (i : Nat) : Option EdgeIdx :=
  match reinit H t with
  | .ok r => r.2[i]?
  | .err _ => none

/-- The pinned code before fix 6e33baa: the right pass dereferences the nil branch of a
    root that is a tip, and the left pass forgets that tip. -/
def reinitPinned (H : String → UInt64) (t : T) : Option (Res (List String × List EdgeIdx)) :=
  if t.kids.length == 1 then none else some (reinit H t)

/-- `Edge.HashCode` (edge_hash.go:84) -/
def EdgeIdx.hashCode (e : EdgeIdx) : UInt64 :=
  if e.nleft == e.nright then e.hleft * e.hright
  else if e.nleft < e.nright then e.hleft
  else e.hright

/-- `BitSet.EqualOrComplement` : `Equal` (same length, same bits) or `ComplementTest` -/
def bitsEqualOrComplement (a b : List Bool) : Bool :=
  a == b || a.map (!·) == b

/-- `Edge.HashEquals` -/
def EdgeIdx.equals (a b : EdgeIdx) : Bool := bitsEqualOrComplement a.bits b.bits

/-- `Edge.SameBipartition` -/
def EdgeIdx.sameBipartition (a b : EdgeIdx) : Bool :=
  a.hashCode == b.hashCode && bitsEqualOrComplement a.bits b.bits

/-- `Edge.FindEdge(edges)` (edge.go:288) on indexed branches, each with the flag "its lower node is a
    tip": `none` is the error "bitset of 0...000", `some true` a non-nil result.  (The Go function
    returns the receiver itself when a branch of `edges` matches; its only caller tests for nil.) -/
def findEdge (e : EdgeIdx) (tip : Bool) (es : List (EdgeIdx × Bool)) : Option Bool :=
  if e.bits.all (!·) then none else
  let rec go : List (EdgeIdx × Bool) → Option Bool
    | [] => some false
    | (e2, tip2) :: r =>
      if tip != tip2 then go r
      else if e.hashCode != e2.hashCode then go r
      else if bitsEqualOrComplement e.bits e2.bits then (if e2.bits.all (!·) then none else some true)
      else go r
  go es

/-- `Edge.TopoDepth` : `none` is the error "subtree sizes not computed" -/
def EdgeIdx.topoDepth (e : EdgeIdx) : Option Nat :=
  if e.nleft == 0 || e.nright == 0 then none else some (min e.nleft e.nright)

end Gotree.C04
