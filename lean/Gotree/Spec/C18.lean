/-
  C18 — what determinism means on the implementation's own output (the oracle), and the list of
  map-range sites for which Proofs/C18.lean holds a permutation-invariance theorem.
  Core Lean only.
-/
import Gotree.Model.C18
import Gotree.Gen.C18Sites

namespace Gotree.C18

/-- all runs of one request produced the same bytes (each run is represented by the digest of its
    stdout + output files, or of the canonical print of the returned values) -/
def oneOutput : List String → Bool
  | [] => true
  | r :: rs => rs.all (· == r)

/-- threaded commands: a run is its list of records (lines, each carrying its tree id);
    the only permitted difference between runs is the order of the records -/
def sameUpToRecordOrder : List (List String) → Bool
  | [] => true
  | r :: rs => rs.all (fun x => sortS x == sortS r)

/-- first field of a record (the tree id) -/
def recordId (line : String) : String := (line.splitOn "\t").headD ""

/-- a per-tree record: a line whose first TAB field is a number (the tree identifier) -/
def isRecord (line : String) : Bool := (recordId line).toNat?.isSome

/-- within one run no two per-tree records carry the same tree id -/
def recordsKeyed (run : List String) : Bool :=
  let ids := (run.filter isRecord).map recordId
  ids.eraseDups.length == ids.length

/-- the lines that are not per-tree records (exit status, header, anything without a numeric id) must
    come out identically, in the same order, in every run: only id-carrying records may move -/
def nonRecordsFixed : List (List String) → Bool
  | [] => true
  | r :: rs => rs.all (fun x => x.filter (fun l => !isRecord l) == r.filter (fun l => !isRecord l))

/-- the property on one request: `runs` = per run, the list of output items -/
def deterministic (threaded : Bool) (runs : List (List String)) : Bool :=
  oneOutput (runs.map (fun r => String.intercalate "\n" r)) ||
  (threaded && sameUpToRecordOrder runs && runs.all recordsKeyed && nonRecordsFixed runs)

/-- what the extractor must find in its synthetic self-test package (harness/c18/extract.go `SelfTest`):
    one of every construct of table (c), none for a range over a slice or a write to os.Stderr -/
def selfTestExpected : String :=
  "address@F clock@F[if len(s) == 0] goroutine@F maprange@F maprange@T.Keys pid@F pointerarg@F pointerarg@F pointerfmt@F reflectmap@F seed@F[if len(s) == 0] select@F"

/-! ### "all commands": the runnable commands of the live command tree and the run templates -/

/-- commands (paths below `gotree`) exercised by at least one run template of harness/c18/templates.go;
    the driver checks on every run (`C18.commands`) that the harness really has a template for each -/
def templateCommands : List String := [
  "acr",
  "annotate",
  "asr",
  "brlen add",
  "brlen clear",
  "brlen cut",
  "brlen round",
  "brlen scale",
  "brlen set",
  "brlen setmin",
  "brlen setrand",
  "collapse clade",
  "collapse depth",
  "collapse length",
  "collapse name",
  "collapse single",
  "collapse support",
  "comment clear",
  "comment transfer",
  "compare edges",
  "compare tips",
  "compare trees",
  "compute bipartitiontree",
  "compute consensus",
  "compute edgetrees",
  "compute mutations",
  "compute roccurve",
  "compute support booster",
  "compute support classical",
  "compute support fbp",
  "compute support tbe",
  "divide",
  "draw cyjs",
  "draw png",
  "draw svg",
  "draw text",
  "generate balancedtree",
  "generate caterpillartree",
  "generate startree",
  "generate topologies",
  "generate uniformtree",
  "generate yuletree",
  "graft",
  "labels",
  "ltt",
  "matrix",
  "merge",
  "nni",
  "prune",
  "reformat newick",
  "reformat nexus",
  "reformat phyloxml",
  "rename",
  "repopulate",
  "reroot midpoint",
  "reroot outgroup",
  "resolve",
  "resolve named",
  "rotate rand",
  "rotate sort",
  "sample",
  "shuffletips",
  "stats",
  "stats edges",
  "stats monophyletic",
  "stats nodes",
  "stats rooted",
  "stats splits",
  "stats tips",
  "subtree",
  "support clear",
  "support round",
  "support scale",
  "support setrand",
  "unroot",
  "version"]

/-- runnable commands without a run template, each with its reason -/
def omittedCommands : List (String × String) := [
  ("download itol", "needs the iTOL server (network); package download is excluded and reviewed (excluded_sites_reviewed)"),
  ("download ncbitax", "needs the NCBI ftp server (network); its map file is written in map order (ncbiMapLines_order_matters), not reachable offline"),
  ("download panther", "needs the PantherDB server (network)"),
  ("upload itol", "needs the iTOL server (network)")]

/-- commands of the regenerated table that have neither a template nor a reason (must be empty) -/
def uncoveredCommands : List String :=
  Gen.C18Sites.commands.filter (fun c => !(templateCommands.contains c) && !((omittedCommands.map (·.1)).contains c))

/-! ### what the observable sites must produce, stated on the map itself (pairs sorted, no loop) -/

/-- the lines of a map in key order -/
def specSortedLines {V} (fmt : String → V → Option String) (entries : List (String × V)) : List String :=
  (entries.mergeSort (fun a b => decide (a.1 ≤ b.1))).filterMap (fun e => fmt e.1 e.2)

def specSortedLinesI (fmt : Int → Int → String) (entries : List (Int × Int)) : List String :=
  (entries.mergeSort (fun a b => decide (a.1 ≤ b.1))).map (fun e => fmt e.1 e.2)

/-- `UpdateTipIndex`: an error iff two tips share a name, else the index of a tip is its rank among the sorted names -/
def specTipIndex (sortedNames : List String) : Option (List (String × Nat)) :=
  if sortedNames.eraseDups.length != sortedNames.length then none else some sortedNames.zipIdx

/-- `CompareTipIndexes`: both non-empty, same size, every tip of the first known to the second -/
def specSameTips (mine other : List String) : Bool :=
  mine.length != 0 && other.length != 0 && mine.length == other.length && mine.all (other.contains ·)

def specDisjoint (mine other : List String) : Bool := mine.all (fun k => !(other.contains k))

/-- `Rename`: every node whose name is a key of the map gets the mapped name -/
def specRename (names : List String) (m : List (String × String)) : List String :=
  names.map (fun n => if n == "" then n else (m.lookup n).getD n)

/- `CountMutations` at one site, stated on the leaves (no accumulation of maps): for every non-root node
   whose character differs from its parent's, the number of leaves below it and how many of them carry its character -/
mutual
def specMutNode (charOf : String → Char) (prev : Option Char) : T → List MutObs
  | .node d _ kids =>
    let cur := charOf d.name
    let below := (T.node d 0 kids).leaves
    let own := match prev with
      | some p => if p != cur then [⟨d.name, p, cur, below.length, (below.filter (fun n => charOf n == cur)).length⟩] else []
      | none => []
    specMutKids charOf cur kids ++ own
def specMutKids (charOf : String → Char) (cur : Char) : Kids → List MutObs
  | [] => []
  | (_, t) :: r => specMutNode charOf (some cur) t ++ specMutKids charOf cur r
end

/-- keys (file:declaration:fingerprint#ordinal) of the map-range sites that have a
    `site_…_perm_invariant` theorem in Proofs/C18.lean (`provedSites_keys` there), in table order -/
def provedSiteKeys : List String := [
  "acr/parsimony.go:ParsimonyAcr:466da4eec245#1",
  "cmd/acr.go:acrCmd:69d303350f73#1",
  "cmd/comparetips.go:difftipsCmd:b9b06c89dc0d#1",
  "cmd/comparetrees.go:compareTreesCmd:f5977218f020#1",
  "cmd/extractmutations.go:sortedMutationKeys:cff9c655e428#1",
  "cmd/rename.go:writeNameMap:fec59d425afe#1",
  "mutations/counteems.go:CountEEMs:6958822e76a2#1",
  "mutations/countmutations.go:countMutationSiteBranch:f14ba4b390f3#1",
  "mutations/mutations.go:MutationList.Append:7cd4e9aa30b3#1",
  "tree/tipbags.go:TipBag.Tips:9479da34ef3f#1",
  "tree/tree.go:Tree.UpdateTipIndex:105ae1ebc217#1",
  "tree/tree.go:Tree.CompareTipIndexes:77f5fc7a8940#1",
  "tree/tree.go:Tree.Rename:ea9659a5edb0#1",
  "tree/tree.go:Tree.Merge:c3180b3fd5e1#1"]

/-- ONE table for the three things that must go together: the key of a site in the regenerated table, the
    model function that stands for its loop, and the `C18.site-<case>` correspondence case in which the driver
    runs that function against the real code.  Proofs/C18.lean `siteProofs` carries, per row, the function
    itself and its invariance proof, and `siteProofs_table` decides that its (key, model, case) columns are
    this table; the driver tags every site case with the key found here. -/
def siteCaseTable : List (String × String × String) := [
  ("acr/parsimony.go:ParsimonyAcr:466da4eec245#1", "acrAlphabet", "acralphabet"),
  ("cmd/acr.go:acrCmd:69d303350f73#1", "acrStateLines", "acrstates"),
  ("cmd/comparetips.go:difftipsCmd:b9b06c89dc0d#1", "compareTipsOutput", "comparetips"),
  ("cmd/comparetrees.go:compareTreesCmd:f5977218f020#1", "rfLines", "rf"),
  ("cmd/extractmutations.go:sortedMutationKeys:cff9c655e428#1", "sortedMutationKeys+mutationLines", "mutations"),
  ("cmd/rename.go:writeNameMap:fec59d425afe#1", "nameMapLines", "namemap"),
  ("mutations/counteems.go:CountEEMs:6958822e76a2#1", "eemRecords (inside countEEMs)", "eems"),
  ("mutations/countmutations.go:countMutationSiteBranch:f14ba4b390f3#1", "charDist (inside countMutationsSite)", "chardist"),
  ("mutations/mutations.go:MutationList.Append:7cd4e9aa30b3#1", "mutAppend", "append"),
  ("tree/tipbags.go:TipBag.Tips:9479da34ef3f#1", "tipBagTips", "tipbag"),
  ("tree/tree.go:Tree.UpdateTipIndex:105ae1ebc217#1", "updateTipIndex", "updatetipindex"),
  ("tree/tree.go:Tree.CompareTipIndexes:77f5fc7a8940#1", "compareTipIndexes", "comparetipindexes"),
  ("tree/tree.go:Tree.Rename:ea9659a5edb0#1", "renameFull", "rename"),
  ("tree/tree.go:Tree.Merge:c3180b3fd5e1#1", "mergeDisjointLoop", "comparetipindexes")]

/-- the table keys a correspondence case exercises -/
def keysOfCase (case : String) : List String := (siteCaseTable.filter (·.2.2 == case)).map (·.1)

/-- sites of the excluded packages (draw, download, upload: graphical output / network access,
    DESIGN §3.7), reviewed by hand: (key, disposition) -/
def reviewedExcludedSites : List (String × String) := [
  ("download/itol.go:ItolImageDownloader.Download:bf5edd0f2625#1", "key-disjoint form.Add; url.Values.Encode sorts by key: order-insensitive"),
  ("download/ncbitax.go:NcbiTreeDownloader.writeMapfile:2739ff9ba6c0#1", "ORDER-SENSITIVE: lines written while ranging (ncbiMapLines_order_matters); needs the NCBI server, not reachable offline"),
  ("draw/pngtreedrawer.go:pngTreeDrawer.initFonts:e33ec2aad504#1", "key-disjoint inserts into the font cache, then look-ups only: proved, site_drawFonts_perm_invariant (the draw commands are run by the templates)")]

/-- the other sources of order / address / clock dependence of the regenerated table, each reviewed:
    (key = kind:file:declaration:fingerprint of the statement and of its guard conditions, disposition) -/
def reviewedSources : List (String × String) := [
  ("clock:cmd/booster.go:booster:304a237a3599#1", "start / date of the support log (log file or stderr), not a result: log output is excluded from the comparison"),
  ("clock:cmd/booster.go:writeLogBooster:4e85acf6e2fc#1", "start / date of the support log (log file or stderr), not a result: log output is excluded from the comparison"),
  ("clock:cmd/classical.go:classical:304a237a3599#1", "start / date of the support log (log file or stderr), not a result: log output is excluded from the comparison"),
  ("clock:cmd/classical.go:writeLogClassical:3f05ebd3c590#1", "start / date of the support log (log file or stderr), not a result: log output is excluded from the comparison"),
  ("ncpu:cmd/comparetrees.go:compareTreesCmd:013217eae3c4#1", "number of CPUs bounds / defaults the thread count: a configuration, results do not depend on it (C11; threaded templates compared up to record order)"),
  ("goroutine:cmd/edgetrees.go:edgeTreesCmd:09feb6e48e62#1", "feeder: sends the branches (with their index in Edges() order) into a channel, or the single deepest one; closes it"),
  ("goroutine:cmd/edgetrees.go:edgeTreesCmd:b19aa2b52636#1", "workers, one record per inner BRANCH (not per tree), NO identifier in the record: with -o prefix each record goes to its own file named by the branch index; on the standard output a single worker is started (bce88dc), so the records come in branch order. Templates edgetrees-stdout-t1/2/8, -text-t2/8, -prefix-t8 must be byte-identical"),
  ("goroutine:cmd/roccurve.go:roccurveCmd:4dca40930559#1", "feeder: the branches of the input tree in Edges() order, then close"),
  ("goroutine:cmd/roccurve.go:roccurveCmd:19216fcf4960#1", "workers: one (found, length, support, pvalue) tuple per inner branch into a channel; the consumer only increments integer counters per threshold (commutative), the table is written after the last result: no record order is observable (template roccurve with -t 1/3/8, byte-identical)"),
  ("goroutine:cmd/roccurve.go:roccurveCmd:84b8c3268ba0#1", "closer: waits for the workers, closes the result channel"),
  ("goroutine:io/utils/readtrees.go:ReadMultiTrees:a11ae6a04cd1#1", "producer: parses the trees of the file one after the other and sends them with increasing Id: file order, a single goroutine"),
  ("goroutine:support/fbp.go:FBP:c94cbae84d45#1", "workers: per bootstrap tree, send the indices of the reference branches found; the consumer increments one integer counter per branch (commutative); supports are computed after the channel is closed: order not observable (templates support-fbp/classical -t 1/3/8, byte-identical)"),
  ("goroutine:support/fbp.go:FBP:74626dd7456e#1", "closer: waits for the workers, closes the channel of found branches"),
  ("goroutine:support/tbe.go:TBE:1826107bfbbf#1", "feeder, once per bootstrap tree (the trees themselves are handled sequentially, in file order): the reference branches into a channel"),
  ("goroutine:support/tbe.go:TBE:81287eead8a3#1", "workers: each reference branch is taken by exactly one worker per bootstrap tree and only its own support cell is incremented, so every floating-point sum is accumulated in bootstrap-file order whatever the schedule; shared counters under a mutex feed the log only (templates support-tbe/booster -t 1/3/8 byte-identical; the --moved-taxa / --per-branches tables are compared without their Date line, template support-tbe-moved)"),
  ("goroutine:tree/algo.go:Compare:3d0d12c86811#1", "workers: one BipartitionStats per compared TREE, carrying the tree Id, in completion order; cmd/comparetrees.go prints id-carrying records (default, --binary: threaded templates compared up to record order) or collects and sorts by id (--rf, site rfLines)"),
  ("goroutine:tree/algo.go:Compare:947ece0fc3e4#1", "closer: waits for the workers, closes the stats channel"),
  ("goroutine:tree/algo.go:CompareWeighted:dddd5128146b#1", "workers: one weighted stats record per compared TREE, carrying the tree Id, in completion order; printed with its id (template compare-trees-weighted, compared up to record order)"),
  ("goroutine:tree/algo.go:CompareWeighted:947ece0fc3e4#1", "closer: waits for the workers, closes the stats channel"),
  ("clock:cmd/root.go:RootCmd:ab7a011c28c6#1", "clock read only under `if seed == -1` (no seed given): outside the property (precondition seed ≠ -1)"),
  ("seed:cmd/root.go:RootCmd:3ef41f0bea2f#1", "rand.Seed(seed) in PersistentPreRun: the single global source is seeded from --seed before every command"),
  ("ncpu:cmd/root.go:init:013217eae3c4#1", "number of CPUs bounds / defaults the thread count: a configuration, results do not depend on it (C11; threaded templates compared up to record order)"),
  ("ncpu:support/fbp.go:FBP:013217eae3c4#1", "number of CPUs bounds / defaults the thread count: a configuration, results do not depend on it (C11; threaded templates compared up to record order)")]

def coreSites : List Gen.C18Sites.Site := Gen.C18Sites.sites.filter (·.scope == "core")
def excludedSites : List Gen.C18Sites.Site := Gen.C18Sites.sites.filter (·.scope != "core")

/-- sites of the regenerated table without a theorem, and theorems without a site (both must be empty) -/
def unprovedSites : List Gen.C18Sites.Site :=
  coreSites.filter (fun s => !(provedSiteKeys.contains s.key)) ++
  excludedSites.filter (fun s => !((reviewedExcludedSites.map (·.1)).contains s.key))

/-- verification hook code: files built only with the tag `verif` (not part of a normal build).
    `cmd/export_verif.go` exports two functions to the harness; `tree/yield_verif.go` is the scheduling
    point `VerifYield` (an EMPTY function without the tag: tree/yield_noverif.go), whose call statements
    the extractor drops from every fingerprint. -/
def reviewedHookFiles : List String := ["cmd/export_verif.go", "tree/yield_verif.go"]

/-- the sources found in hook files (scope "hook"): allowed there and only there -/
def reviewedHookSources : List (String × String) := [
  ("env:tree/yield_verif.go:init:54e70b8806f5#1", "GOTREE_VERIF_YIELD read once at start-up: chooses between Gosched and a short sleep at the scheduling points; never reaches a result")]

def hookSources : List Gen.C18Sites.Site := Gen.C18Sites.sources.filter (·.scope == "hook")

def unreviewedSources : List Gen.C18Sites.Site :=
  Gen.C18Sites.sources.filter (fun s => s.scope != "hook" && !((reviewedSources.map (·.1)).contains s.key))

def staleSources : List String :=
  (reviewedSources.map (·.1)).filter (fun k => !((Gen.C18Sites.sources.map (·.key)).contains k))

/-- the random source is seeded at exactly one place, unconditionally (cmd/root.go, PersistentPreRun) -/
def seedSites : List Gen.C18Sites.Site := Gen.C18Sites.sources.filter (·.kind == "seed")

/-- clock reads that can reach the seed: those of cmd/root.go -/
def clockSeedSites : List Gen.C18Sites.Site :=
  Gen.C18Sites.sources.filter (fun s => s.kind == "clock" && s.file == "cmd/root.go")

/-- the commands whose code reads the thread count (`rootCpus`, the value of -t): file of package cmd,
    command path, and the run template that must exist with -t ≥ 2 -/
def threadCommands : List (String × String × String) := [
  ("cmd/booster.go", "compute support booster", "support-booster"),
  ("cmd/booster.go", "compute support tbe", "support-tbe"),
  ("cmd/classical.go", "compute support classical", "support-classical"),
  ("cmd/classical.go", "compute support fbp", "support-fbp"),
  ("cmd/comparetrees.go", "compare trees", "compare-trees-tips"),
  ("cmd/edgetrees.go", "compute edgetrees", "edgetrees-stdout-t8"),
  ("cmd/roccurve.go", "compute roccurve", "roccurve")]

/-! ### the seeding hook reaches every command (cobra runs only the NEAREST persistent pre-run hook) -/

/-- last word of a command path -/
def lastWord (p : String) : String := String.ofList (p.toList.reverse.takeWhile (· != ' ')).reverse

/-- runnable commands of the live command tree whose nearest persistent pre-run hook is not the root's
    (`Gen.C18Sites.preRunHidden`) and whose hook does not call `RootCmd.PersistentPreRun` itself
    (`Gen.C18Sites.preRunHooks`, read from the source): for them `rand.Seed(seed)` is never executed — must be empty -/
def commandsNotSeeded : List (String × String) :=
  Gen.C18Sites.preRunHidden.filter (fun r =>
    !(Gen.C18Sites.preRunHooks.any (fun h => h.2.1 == lastWord r.2 && h.2.2)))

def staleProofs : List String :=
  provedSiteKeys.filter (fun k => !((coreSites.map (·.key)).contains k)) ++
  (reviewedExcludedSites.map (·.1)).filter (fun k => !((excludedSites.map (·.key)).contains k))

end Gotree.C18
