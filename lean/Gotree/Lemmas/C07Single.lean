/-
  C07 — what `RemoveEdges` does WITHOUT `removeRoot` on an ARBITRARY tree (single-child inner nodes
  allowed, rooted or not): since fix 82ce8b8 the only protected branches are the two branches of a root
  that has exactly two neighbours; everything else follows the criterion.  (Before that fix any end
  point with exactly two neighbours protected the branch: pinned variant in Model/C07.lean.)
-/
import Gotree.Lemmas.C07Proof

namespace Gotree.C07
open Gotree

/-- below the root `removeRoot` plays no role -/
theorem contractT_nonroot_rr (rr rt : Bool) (id : Int) (c : T) :
    contractT rr rt id false c = contractT true rt id false c := by
  cases c with
  | node d p k => rw [contractT_node, contractT_node]; simp

/-- one iteration below the root, on any subtree, whatever `removeRoot` -/
theorem contractT_obs_nonroot {β : Type} (f : List String → β) (hf : PermInv f) (rr rt : Bool) (id : Int) (c : T) :
    (obsT f (contractT rr rt id false c)).Perm ((obsT f c).filterMap (stepO rt id)) := by
  rw [contractT_nonroot_rr]
  exact contractT_obs f hf true rt id c (Or.inl rfl)

/-- observation with the protection flag: the branches hanging off the node whose child list this is
    carry `pd`, everything below carries `false` -/
def obsGL {β : Type} (f : List String → β) (pd : Bool) : Kids → List (Obs β × Bool)
  | [] => []
  | (e, c) :: r => ((f c.leaves, e, c.isLeaf, c.d), pd) :: ((obsT f c).map (fun x => (x, false)) ++ obsGL f pd r)

/-- the whole tree: the root branches are PROTECTED iff the root has exactly two neighbours -/
def obsGRoot {β : Type} (f : List String → β) (t : T) : List (Obs β × Bool) := obsGL f (t.kids.length == 2) t.kids

theorem obsGL_append {β : Type} (f : List String → β) (b : Bool) (x y : Kids) :
    obsGL f b (x ++ y) = obsGL f b x ++ obsGL f b y := by
  induction x with
  | nil => simp [obsGL]
  | cons a r ih => obtain ⟨e, t⟩ := a; simp [obsGL, ih]

/-- forgetting the flag gives the plain observation -/
theorem obsGL_fst {β : Type} (f : List String → β) (b : Bool) : ∀ k : Kids, (obsGL f b k).map Prod.fst = obsL f k
  | [] => by simp [obsGL, obsL]
  | (e, c) :: r => by
    have h2 := obsGL_fst f b r
    simp only [obsGL, obsL, List.map_cons, List.map_append, List.map_map, h2]
    congr 2
    induction (obsT f c) with
    | nil => rfl
    | cons a l ih => simp [ih]

theorem obsGL_false {β : Type} (f : List String → β) : ∀ k : Kids, obsGL f false k = (obsL f k).map (fun x => (x, false))
  | [] => by simp [obsGL, obsL]
  | (e, c) :: r => by
    have h2 := obsGL_false f r
    simp only [obsGL, obsL, List.map_cons, List.map_append, h2]

/-- one iteration, on a flagged branch: a tip branch stays (length 0 with `removeTips`), a protected
    branch stays untouched, any other inner branch carrying the id disappears -/
def stepG {β : Type} (rt : Bool) (id : Int) (x : Obs β × Bool) : Option (Obs β × Bool) :=
  if x.1.2.1.id == id then
    (if x.1.2.2.1 then some ((x.1.1, (if rt then zeroLen x.1.2.1 else x.1.2.1), x.1.2.2.1, x.1.2.2.2), x.2)
     else if x.2 then some x else none)
  else some x

theorem stepG_false {β : Type} (rt : Bool) (id : Int) (l : List (Obs β)) :
    (l.map (fun x => (x, false))).filterMap (stepG rt id) = (l.filterMap (stepO rt id)).map (fun x => (x, false)) := by
  rw [List.filterMap_map, List.map_filterMap]
  apply filterMap_congr'
  intro x _
  obtain ⟨b, e, tip, d⟩ := x
  simp only [Function.comp, stepG, stepO]
  by_cases hid : (e.id == id) = true
  · cases tip <;> simp [hid]
  · simp [hid]

/-- the children of the root, without `removeRoot` -/
theorem contractL_root_obsG {β : Type} (f : List String → β) (hf : PermInv f) (rt : Bool) (id : Int) (deg : Nat) :
    ∀ k : Kids, (deg ≠ 1 ∨ k = []) →
      (obsGL f (deg == 2) (newKids false rt id deg k)).Perm ((obsGL f (deg == 2) k).filterMap (stepG rt id))
  | [] => by intro _; simp [newKids_nil, obsGL]
  | (e, c) :: r => by
    intro hd1
    have hdeg : deg ≠ 1 := by
      rcases hd1 with h1 | h1
      · exact h1
      · cases h1
    have hdegb : (deg == 1) = false := by simpa using hdeg
    have h1 := contractT_obs_nonroot f hf false rt id c
    have h1' : ((obsT f (contractT false rt id false c)).map (fun x => (x, false))).Perm
        (((obsT f c).map (fun x => (x, false))).filterMap (stepG rt id)) := by
      rw [stepG_false]; exact h1.map _
    have h2 := contractL_root_obsG f hf rt id deg r (Or.inl hdeg)
    have hl := contractT_leaves false rt id false c
    have hfl : f (contractT false rt id false c).leaves = f c.leaves := hf _ _ hl.1
    have hd := contractT_d false rt id false c
    unfold newKids at h2 ⊢
    rw [contractL_cons, hdegb, Bool.or_false]
    by_cases hid : (e.id == id) = true
    · rw [if_pos hid]
      by_cases hleaf : c.isLeaf = true
      · rw [if_pos hleaf]
        simp only [stayKids_some, List.cons_append, obsGL, List.filterMap_cons, List.filterMap_append]
        simp only [stepG, hid, hleaf, if_true, hfl, hl.2, hd]
        exact List.Perm.cons _ (h1'.append h2)
      · rw [if_neg hleaf]
        by_cases hskip : (!false && deg == 2) = true
        · rw [if_pos hskip]
          have hprot : (deg == 2) = true := by simpa using hskip
          simp only [stayKids_some, List.cons_append, obsGL, List.filterMap_cons, List.filterMap_append]
          simp only [stepG, hid, hleaf, if_true, Bool.false_eq_true, if_false, hfl, hl.2, hd, hprot]
          rw [hprot] at h2
          exact List.Perm.cons _ (h1'.append h2)
        · rw [if_neg hskip]
          have hns : (deg == 2) = false := by simpa using hskip
          simp only [stayKids_none, obsGL_append, obsGL, List.filterMap_cons, List.filterMap_append]
          simp only [stepG, hid, hleaf, if_true, Bool.false_eq_true, if_false, hns]
          rw [hns, obsGL_append] at h2
          rw [obsGL_false f (contractT false rt id false c).kids, obsL_kids_eq]
          exact (List.perm_append_comm_assoc _ _ _).trans (h1'.append h2)
    · rw [if_neg hid]
      simp only [stayKids_some, List.cons_append, obsGL, List.filterMap_cons, List.filterMap_append]
      simp only [stepG, hid, Bool.false_eq_true, if_false, hfl, hl.2, hd]
      exact List.Perm.cons _ (h1'.append h2)

/-- at the root: two children stay two (both branches protected), three or more only grow -/
theorem contractT_root_two (rt : Bool) (id : Int) (t : T) (h1 : t.kids.length ≠ 1) :
    ((contractT false rt id true t).kids.length == 2) = (t.kids.length == 2) ∧
    (contractT false rt id true t).kids.length ≠ 1 := by
  cases t with
  | node d p k =>
    match k, h1 with
    | [], _ => simp [contractT_kids, newKids_nil]
    | [(e1, c1), (e2, c2)], _ => rw [contractT_rooted]; simp
    | a :: b :: c :: r, _ =>
      rw [contractT_kids]
      have := contractL_len (false || !true) rt id ((a :: b :: c :: r).length + (if true = true then 0 else 1)) (a :: b :: c :: r)
      generalize newKids (false || !true) rt id ((a :: b :: c :: r).length + (if true = true then 0 else 1)) (a :: b :: c :: r) = nk at this ⊢
      simp only [List.length_cons, T.kids_node] at this ⊢
      have e1 : (r.length + 1 + 1 + 1 == 2) = false := by simp
      have e2 : (nk.length == 2) = false := by
        have : nk.length ≠ 2 := by omega
        simpa using this
      rw [e1, e2]
      exact ⟨rfl, by omega⟩

theorem contractT_root_obsG {β : Type} (f : List String → β) (hf : PermInv f) (rt : Bool) (id : Int) (t : T)
    (h1 : t.kids.length ≠ 1) :
    (obsGRoot f (contractT false rt id true t)).Perm ((obsGRoot f t).filterMap (stepG rt id)) := by
  unfold obsGRoot
  rw [(contractT_root_two rt id t h1).1]
  cases t with
  | node d p k =>
    rw [contractT_kids]
    simp only [T.kids_node, if_true, Nat.add_zero, Bool.not_true, Bool.or_false] at h1 ⊢
    exact contractL_root_obsG f hf rt id k.length k (Or.inl h1)

/-- the successive iterations on one flagged branch -/
def stepAllG {β : Type} (rt : Bool) : List Int → Obs β × Bool → Option (Obs β × Bool)
  | [], x => some x
  | id :: ids, x => (stepG rt id x).bind (stepAllG rt ids)

theorem removeEdges_obsG {β : Type} (f : List String → β) (hf : PermInv f) (rt : Bool) :
    ∀ (ids : List Int) (t : T), t.kids.length ≠ 1 →
      (obsGRoot f (removeEdges false rt ids t)).Perm ((obsGRoot f t).filterMap (stepAllG rt ids))
  | [], t, _ => by
    have : (stepAllG rt [] : Obs β × Bool → Option (Obs β × Bool)) = some := by funext x; rfl
    simp [removeEdges, this]
  | id :: ids, t, h => by
    rw [removeEdges_cons]
    have ih := removeEdges_obsG f hf rt ids _ (contractT_root_two rt id t h).2
    have h1 := contractT_root_obsG f hf rt id t h
    refine ih.trans ?_
    refine (h1.filterMap _).trans ?_
    rw [List.filterMap_filterMap]
    apply List.Perm.of_eq
    congr 1

theorem stepAllG_char {β : Type} (rt : Bool) : ∀ (ids : List Int) (x : Obs β × Bool),
    stepAllG rt ids x =
      if x.1.2.1.id ∈ ids then
        (if x.1.2.2.1 then some ((x.1.1, (if rt then zeroLen x.1.2.1 else x.1.2.1), x.1.2.2.1, x.1.2.2.2), x.2)
         else if x.2 then some x else none)
      else some x
  | [], x => by simp [stepAllG]
  | id :: ids, x => by
    obtain ⟨⟨b, e, tip, d⟩, prot⟩ := x
    simp only [stepAllG, stepG]
    by_cases hid : e.id = id
    · subst hid
      cases tip with
      | false =>
        cases prot with
        | false => simp
        | true =>
          simp only [beq_self_eq_true, if_true, Bool.false_eq_true, if_false, Option.bind_some, List.mem_cons, true_or]
          rw [stepAllG_char rt ids]
          simp
      | true =>
        simp only [beq_self_eq_true, if_true, Option.bind_some, List.mem_cons, true_or]
        rw [stepAllG_char rt ids]
        cases rt <;> simp [zeroLen_id, zeroLen_idem]
    · have : (e.id == id) = false := by simpa using hid
      simp only [this, Bool.false_eq_true, if_false, Option.bind_some, List.mem_cons, hid, false_or]
      rw [stepAllG_char rt ids]

/-- what happens to a flagged branch under a selection, without `removeRoot` -/
def keepG {β : Type} (selV : β × EdgeD × Bool → Bool) (rt : Bool) (x : Obs β × Bool) : Option (Obs β × Bool) :=
  if selV (x.1.1, x.1.2.1, x.1.2.2.1) then
    (if x.1.2.2.1 then some ((x.1.1, (if rt then zeroLen x.1.2.1 else x.1.2.1), x.1.2.2.1, x.1.2.2.2), x.2)
     else if x.2 then some x else none)
  else some x

theorem selG_congr {β : Type} (f : List String → β)
    (sel : SplitE → Bool) (selV : β × EdgeD × Bool → Bool) (rt : Bool) (t : T)
    (hsel : ∀ s ∈ t.splits, sel s = selV (f s.below, s.e, s.tip))
    (hid : uniqueIds t = true) :
    (obsGRoot f t).filterMap (stepAllG rt ((t.splits.filter sel).map (·.e.id))) = (obsGRoot f t).filterMap (keepG selV rt) := by
  apply filterMap_congr'
  intro x hx
  rw [stepAllG_char]
  unfold keepG
  have hnd : (t.splits.map (·.e.id)).Nodup := by simpa [uniqueIds] using hid
  have hx1 : x.1 ∈ obsT f t := by
    rw [obsT_kids, ← obsGL_fst f (t.kids.length == 2) t.kids]
    exact List.mem_map.mpr ⟨x, hx, rfl⟩
  obtain ⟨s0, hs0, he0⟩ := obs_partner f t x.1 hx1
  have he : s0.e = x.1.2.1 := by injection he0 with _ h2; injection h2
  have key : (x.1.2.1.id ∈ List.map (fun s => s.e.id) (List.filter sel t.splits)) ↔ selV (x.1.1, x.1.2.1, x.1.2.2.1) = true := by
    constructor
    · intro hm
      obtain ⟨s, hsf, hsid⟩ := List.mem_map.mp hm
      have hsm := (List.mem_filter.mp hsf)
      have : s = s0 := eq_of_nodup_map (·.e.id) t.splits hnd s hsm.1 s0 hs0 (by rw [hsid, he])
      rw [← he0, ← hsel s0 hs0, ← this]; exact hsm.2
    · intro hv
      refine List.mem_map.mpr ⟨s0, List.mem_filter.mpr ⟨hs0, ?_⟩, by rw [he]⟩
      rw [hsel s0 hs0, he0]; exact hv
  by_cases hv : selV (x.1.1, x.1.2.1, x.1.2.2.1) = true
  · rw [if_pos (key.mpr hv), if_pos hv]
  · rw [if_neg (fun hm => hv (key.mp hm)), if_neg hv]

end Gotree.C07

namespace Gotree.C07
open Gotree

/- ## a root that is a tip (single neighbour): its branch is a terminal branch -/

/-- the loop seen from inside the subtree hanging off a tip-root (or any non-root node) -/
def belowAllR (rr rt : Bool) (ids : List Int) (c : T) : T :=
  ids.foldl (fun c id => contractT rr rt id false c) c

theorem nNone_take1 (a : EdgeD × T) (p : Nat) : nNone (List.take p [some a]) = 0 := by
  match p with
  | 0 => rfl
  | (n + 1) => simp [nNone]

theorem contractT_tiproot (rr rt : Bool) (id : Int) (d : NodeD) (p : Nat) (e : EdgeD) (c : T) :
    contractT rr rt id true (.node d p [(e, c)]) =
      .node d p [(if e.id == id && rt then zeroLen e else e, contractT rr rt id false c)] := by
  rw [contractT_node]
  simp only [contractL_cons, contractL, List.length_cons, List.length_nil, if_true]
  have h1 : ((0 + 1 + 0 : Nat) == 1) = true := rfl
  cases hid : (e.id == id) <;> cases rt <;> simp [h1, hid, nNone_take1, stayKids]

theorem removeEdges_tiproot (rr rt : Bool) (d : NodeD) (p : Nat) : ∀ (ids : List Int) (e : EdgeD) (c : T),
    removeEdges rr rt ids (.node d p [(e, c)]) =
      .node d p [(if e.id ∈ ids ∧ rt = true then zeroLen e else e, belowAllR rr rt ids c)]
  | [], e, c => by simp [removeEdges, belowAllR]
  | id :: ids, e, c => by
    rw [removeEdges_cons, contractT_tiproot, removeEdges_tiproot rr rt d p ids]
    have : belowAllR rr rt ids (contractT rr rt id false c) = belowAllR rr rt (id :: ids) c := rfl
    rw [this]
    congr 2
    by_cases h1 : e.id = id
    · subst h1
      cases rt <;> simp [zeroLen_id, zeroLen_idem]
    · have : (e.id == id) = false := by simpa using h1
      simp [this, h1]

theorem belowAllR_obs {β : Type} (f : List String → β) (hf : PermInv f) (rr rt : Bool) :
    ∀ (ids : List Int) (c : T), (obsT f (belowAllR rr rt ids c)).Perm ((obsT f c).filterMap (stepAllO rt ids))
  | [], c => by
    have : (stepAllO rt [] : Obs β → Option (Obs β)) = some := by funext x; rfl
    simp [belowAllR, this]
  | id :: ids, c => by
    have ih := belowAllR_obs f hf rr rt ids (contractT rr rt id false c)
    have h1 := contractT_obs_nonroot f hf rr rt id c
    show (obsT f (belowAllR rr rt ids (contractT rr rt id false c))).Perm _
    refine ih.trans ?_
    refine (h1.filterMap _).trans ?_
    rw [List.filterMap_filterMap]
    apply List.Perm.of_eq
    congr 1

theorem belowAllR_leaves (rr rt : Bool) : ∀ (ids : List Int) (c : T),
    (belowAllR rr rt ids c).leaves.Perm c.leaves ∧ (belowAllR rr rt ids c).isLeaf = c.isLeaf ∧ (belowAllR rr rt ids c).d = c.d
  | [], c => by simp [belowAllR]
  | id :: ids, c => by
    have ih := belowAllR_leaves rr rt ids (contractT rr rt id false c)
    have h1 := contractT_leaves rr rt id false c
    exact ⟨ih.1.trans h1.1, ih.2.1.trans h1.2, ih.2.2.trans (contractT_d rr rt id false c)⟩

end Gotree.C07
