/-
  C10 lemmas, part E: the supports depend on a bootstrap tree only through its
  set of splits (so not on its rooting nor on the order of its children).
-/
import Gotree.Lemmas.C10Ineq

namespace Gotree.C10
open Gotree

/-! ## `sameSplit` is an equivalence on subsets of the taxa -/

theorem sameSplit_symm {all a b : List String} (hb : ∀ x ∈ b, x ∈ all)
    (h : sameSplit all a b = true) : sameSplit all b a = true := by
  rw [sameSplit_iff] at h ⊢
  rcases h with h | h
  · left; intro x; exact (h x).symm
  · right
    intro x
    constructor
    · intro hxb
      exact ⟨hb x hxb, fun hxa => ((h x).1 hxa).2 hxb⟩
    · rintro ⟨hall, hxa⟩
      by_cases hxb : x ∈ b
      · exact hxb
      · exact absurd ((h x).2 ⟨hall, hxb⟩) hxa

theorem sameSplit_trans {all a b c : List String} (hc : ∀ x ∈ c, x ∈ all)
    (h₁ : sameSplit all a b = true) (h₂ : sameSplit all b c = true) : sameSplit all a c = true := by
  rw [sameSplit_iff] at h₁ h₂ ⊢
  rcases h₁ with h₁ | h₁ <;> rcases h₂ with h₂ | h₂
  · left; intro x; exact (h₁ x).trans (h₂ x)
  · right; intro x; exact (h₁ x).trans (h₂ x)
  · right
    intro x
    rw [h₁ x]
    constructor
    · rintro ⟨ha, hnb⟩; exact ⟨ha, fun hxc => hnb ((h₂ x).2 hxc)⟩
    · rintro ⟨ha, hnc⟩; exact ⟨ha, fun hxb => hnc ((h₂ x).1 hxb)⟩
  · left
    intro x
    rw [h₁ x]
    constructor
    · rintro ⟨ha, hnb⟩
      by_cases hxc : x ∈ c
      · exact hxc
      · exact absurd ((h₂ x).2 ⟨ha, hxc⟩) hnb
    · intro hxc
      exact ⟨hc x hxc, fun hxb => ((h₂ x).1 hxb).2 hxc⟩

/-! ## the transfer distance depends on the bootstrap branch through its split -/

theorem transferDist_congr {all L B B' : List String} (ha : all.Nodup) (hL : L.Nodup) (hB : B.Nodup)
    (hB' : B'.Nodup) (hLs : ∀ x ∈ L, x ∈ all) (hBs : ∀ x ∈ B, x ∈ all) (hBs' : ∀ x ∈ B', x ∈ all)
    (h : sameSplit all B B' = true) : transferDist L B all.length = transferDist L B' all.length := by
  unfold transferDist
  have hle := symDiff_le hL hB hLs hBs
  have hle' := symDiff_le hL hB' hLs hBs'
  have a1 := length_diff_add_inter L B
  have a2 := length_diff_add_inter B L
  have a3 := inter_length_comm hL hB
  have b1 := length_diff_add_inter L B'
  have b2 := length_diff_add_inter B' L
  have b3 := inter_length_comm hL hB'
  rcases sameSplit_iff.1 h with h | h
  · have e1 : diff L B = diff L B' := by
      unfold diff; apply List.filter_congr; intro x _
      have : B.contains x = B'.contains x := by
        rw [Bool.eq_iff_iff]; simpa using h x
      rw [this]
    have e2 : (diff B L).length = (diff B' L).length :=
      setEq_length (nodup_diff _ hB) (nodup_diff _ hB') (fun x => by
        rw [mem_diff, mem_diff, h x])
    unfold symDiff
    rw [e1, e2]
  · have e1 : diff L B = inter L B' := by
      unfold diff inter; apply List.filter_congr; intro x hx
      have : (!B.contains x) = B'.contains x := by
        rw [Bool.eq_iff_iff]
        simp only [Bool.not_eq_true', List.contains_eq_mem, decide_eq_false_iff_not, decide_eq_true_eq]
        constructor
        · intro hnb
          by_cases hb' : x ∈ B'
          · exact hb'
          · exact absurd ((h x).2 ⟨hLs x hx, hb'⟩) hnb
        · intro hb' hb
          exact ((h x).1 hb).2 hb'
      rw [this]
    have e2 : B.length = all.length - B'.length := by
      have e := setEq_length hB (nodup_diff B' ha) (fun x => by rw [mem_diff]; exact h x)
      rw [length_diff_of_subset ha hB' hBs'] at e
      exact e
    have hlen' := nodup_subset_length_le hB' hBs'
    have e1' : (diff L B).length = (inter L B').length := by rw [e1]
    unfold symDiff at hle hle' ⊢
    omega

/-! ## folds of `min` over lists with the same values -/

theorem foldl_min_mem (l : List Nat) (a : Nat) : l.foldl min a = a ∨ l.foldl min a ∈ l := by
  induction l generalizing a with
  | nil => exact Or.inl rfl
  | cons x l ih =>
    simp only [List.foldl_cons]
    rcases ih (min a x) with h | h
    · rw [h]
      by_cases hx : a ≤ x
      · left; omega
      · right; rw [show min a x = x by omega]; exact List.mem_cons_self ..
    · right; exact List.mem_cons_of_mem _ h

theorem foldl_min_le_of (l l' : List Nat) (a : Nat) (h : ∀ x ∈ l, ∃ y ∈ l', y ≤ x) :
    l'.foldl min a ≤ l.foldl min a := by
  rcases foldl_min_mem l a with e | e
  · rw [e]; exact foldl_min_le l' a
  · obtain ⟨y, hy, hyx⟩ := h _ e
    exact Nat.le_trans (foldl_min_le_mem l' a y hy) hyx

/-! ## a bootstrap tree counts through its split set only -/

theorem splitsEquiv_facts {all : List String} {b b' : T} (h : splitsEquiv all b b' = true) :
    (∀ s ∈ b.splits, ∃ s' ∈ b'.splits, sameSplit all s.below s'.below = true) ∧
    (∀ s' ∈ b'.splits, ∃ s ∈ b.splits, sameSplit all s'.below s.below = true) := by
  simpa [splitsEquiv, List.all_eq_true, List.any_eq_true] using h

theorem containsSplit_of_equiv {all side : List String} {b b' : T}
    (hb' : ∀ s' ∈ b'.splits, ∀ x ∈ s'.below, x ∈ all)
    (h : ∀ s ∈ b.splits, ∃ s' ∈ b'.splits, sameSplit all s.below s'.below = true)
    (hc : containsSplit all side b = true) : containsSplit all side b' = true := by
  unfold containsSplit at hc ⊢
  rw [List.any_eq_true] at hc ⊢
  obtain ⟨s, hs, h1⟩ := hc
  obtain ⟨s', hs', h2⟩ := h s hs
  exact ⟨s', hs', sameSplit_trans (hb' s' hs') h1 h2⟩

theorem containsSplit_equiv {r b b' : T} (side : List String) (hb : treeOK b = true) (hb' : treeOK b' = true)
    (hT : sameTaxa r b = true) (hT' : sameTaxa r b' = true)
    (h : splitsEquiv r.tipNames b b' = true) :
    containsSplit r.tipNames side b = containsSplit r.tipNames side b' := by
  obtain ⟨_, _, _, hbs⟩ := treeOK_facts b hb
  obtain ⟨_, _, _, hbs'⟩ := treeOK_facts b' hb'
  have t := sameTaxa_iff.1 hT
  have t' := sameTaxa_iff.1 hT'
  obtain ⟨h1, h2⟩ := splitsEquiv_facts h
  rw [Bool.eq_iff_iff]
  exact ⟨containsSplit_of_equiv (fun s' hs' x hx => (t' x).2 ((hbs' s' hs').2 x hx)) h1,
    containsSplit_of_equiv (fun s hs x hx => (t x).2 ((hbs s hs).2 x hx)) h2⟩

theorem minTransfer_equiv {r b b' : T} (L : List String) (hr : r.tipNames.Nodup) (hL : L.Nodup)
    (hLs : ∀ x ∈ L, x ∈ r.tipNames) (hb : treeOK b = true) (hb' : treeOK b' = true)
    (hT : sameTaxa r b = true) (hT' : sameTaxa r b' = true)
    (h : splitsEquiv r.tipNames b b' = true) :
    minTransfer L r.tipNames.length b = minTransfer L r.tipNames.length b' := by
  obtain ⟨_, _, _, hbs⟩ := treeOK_facts b hb
  obtain ⟨_, _, _, hbs'⟩ := treeOK_facts b' hb'
  have t := sameTaxa_iff.1 hT
  have t' := sameTaxa_iff.1 hT'
  obtain ⟨h1, h2⟩ := splitsEquiv_facts h
  unfold minTransfer
  apply Nat.le_antisymm
  · apply foldl_min_le_of
    intro x hx
    obtain ⟨s', hs', rfl⟩ := List.mem_map.1 hx
    obtain ⟨s, hs, hss⟩ := h2 s' hs'
    refine ⟨_, List.mem_map.2 ⟨s, hs, rfl⟩, Nat.le_of_eq ?_⟩
    exact (transferDist_congr hr hL (hbs' s' hs').1 (hbs s hs).1 hLs
      (fun x hx => (t' x).2 ((hbs' s' hs').2 x hx)) (fun x hx => (t x).2 ((hbs s hs).2 x hx)) hss).symm
  · apply foldl_min_le_of
    intro x hx
    obtain ⟨s, hs, rfl⟩ := List.mem_map.1 hx
    obtain ⟨s', hs', hss⟩ := h1 s hs
    refine ⟨_, List.mem_map.2 ⟨s', hs', rfl⟩, Nat.le_of_eq ?_⟩
    exact (transferDist_congr hr hL (hbs s hs).1 (hbs' s' hs').1 hLs
      (fun x hx => (t x).2 ((hbs s hs).2 x hx)) (fun x hx => (t' x).2 ((hbs' s' hs').2 x hx)) hss).symm

/-! ## collections presented otherwise, tree by tree -/

/-- `bs'` is `bs` with every tree presented otherwise -/
def Repres (all : List String) : List T → List T → Prop
  | [], [] => True
  | b :: bs, b' :: bs' => splitsEquiv all b b' = true ∧ Repres all bs bs'
  | _, _ => False

theorem repres_length {all : List String} : ∀ {bs bs' : List T}, Repres all bs bs' → bs.length = bs'.length
  | [], [], _ => rfl
  | _ :: bs, _ :: bs', h => by simp [repres_length (bs := bs) (bs' := bs') h.2]
  | [], _ :: _, h => by cases h
  | _ :: _, [], h => by cases h

theorem repres_filter_length {all : List String} (P : T → Bool) : ∀ {bs bs' : List T},
    Repres all bs bs' →
    (∀ b ∈ bs, ∀ b' ∈ bs', splitsEquiv all b b' = true → P b = P b') →
    (bs.filter P).length = (bs'.filter P).length
  | [], [], _, _ => rfl
  | b :: bs, b' :: bs', h, hp => by
    have e := hp b (List.mem_cons_self ..) b' (List.mem_cons_self ..) h.1
    have ih := repres_filter_length P (bs := bs) (bs' := bs') h.2
      (fun x hx y hy => hp x (List.mem_cons_of_mem _ hx) y (List.mem_cons_of_mem _ hy))
    simp only [List.filter_cons, e]
    split <;> simp [ih]
  | [], _ :: _, h, _ => by cases h
  | _ :: _, [], h, _ => by cases h

theorem repres_map_sum {all : List String} (m : T → Nat) : ∀ {bs bs' : List T},
    Repres all bs bs' →
    (∀ b ∈ bs, ∀ b' ∈ bs', splitsEquiv all b b' = true → m b = m b') →
    (bs.map m).sum = (bs'.map m).sum
  | [], [], _, _ => rfl
  | b :: bs, b' :: bs', h, hp => by
    have e := hp b (List.mem_cons_self ..) b' (List.mem_cons_self ..) h.1
    have ih := repres_map_sum m (bs := bs) (bs' := bs') h.2
      (fun x hx y hy => hp x (List.mem_cons_of_mem _ hx) y (List.mem_cons_of_mem _ hy))
    simp [e, ih]
  | [], _ :: _, h, _ => by cases h
  | _ :: _, [], h, _ => by cases h

theorem expected_repres (r : T) (bs bs' : List T) (h : hypOK r bs = true) (h' : hypOK r bs' = true)
    (hrep : Repres r.tipNames bs bs') :
    fbpExpected r bs = fbpExpected r bs' ∧ tbeExpected r bs = tbeExpected r bs' := by
  obtain ⟨hr, _, hb⟩ := hypOK_facts h
  obtain ⟨_, _, hb'⟩ := hypOK_facts h'
  obtain ⟨hrn, _, _, hrs⟩ := treeOK_facts r hr
  constructor
  · unfold fbpExpected
    apply List.map_congr_left
    intro s _
    unfold fbpOf fbpSpec
    rw [repres_length hrep, repres_filter_length _ hrep (fun b hbm b' hbm' he =>
      containsSplit_equiv s.below (hb b hbm).1 (hb' b' hbm').1 (hb b hbm).2 (hb' b' hbm').2 he)]
  · unfold tbeExpected
    apply List.map_congr_left
    intro s hs
    unfold tbeOf tbeSpec
    simp only []
    obtain ⟨hsn, hss⟩ := hrs s hs
    rw [repres_length hrep, repres_map_sum _ hrep (fun b hbm b' hbm' he =>
      minTransfer_equiv _ hrn (lightSide_nodup hrn hsn) (lightSide_subset hss)
        (hb b hbm).1 (hb' b' hbm').1 (hb b hbm).2 (hb' b' hbm').2 he)]

/-! ## the reference presented otherwise -/

theorem sameSplit_congr_all {all all' a c : List String} (h : ∀ x, x ∈ all ↔ x ∈ all') :
    sameSplit all a c = sameSplit all' a c := by
  rw [Bool.eq_iff_iff, sameSplit_iff, sameSplit_iff]
  simp only [h]

theorem symDiff_comm (a b : List String) : symDiff a b = symDiff b a := by
  unfold symDiff; omega

theorem transferDist_comm (a b : List String) (n : Nat) : transferDist a b n = transferDist b a n := by
  unfold transferDist; rw [symDiff_comm]

theorem transferDist_congr_left {all L L' B : List String} (ha : all.Nodup) (hL : L.Nodup)
    (hL' : L'.Nodup) (hB : B.Nodup) (hLs : ∀ x ∈ L, x ∈ all) (hLs' : ∀ x ∈ L', x ∈ all)
    (hBs : ∀ x ∈ B, x ∈ all) (h : sameSplit all L L' = true) :
    transferDist L B all.length = transferDist L' B all.length := by
  rw [transferDist_comm L, transferDist_comm L']
  exact transferDist_congr ha hB hL hL' hBs hLs hLs' h

theorem depth_of_sameSplit {all a a' : List String} (hall : all.Nodup) (ha : a.Nodup) (ha' : a'.Nodup)
    (has : ∀ x ∈ a, x ∈ all) (has' : ∀ x ∈ a', x ∈ all) (h : sameSplit all a a' = true) :
    depth all a = depth all a' := by
  unfold depth
  have l1 := nodup_subset_length_le ha has
  have l2 := nodup_subset_length_le ha' has'
  rcases sameSplit_iff.1 h with h | h
  · rw [setEq_length ha ha' h]
  · have e := setEq_length ha (nodup_diff a' hall) (fun x => by rw [mem_diff]; exact h x)
    rw [length_diff_of_subset hall ha' has'] at e
    omega

/-- the same unrooted reference, the same branch: the same two supports -/
theorem spec_reference_equiv (r r' : T) (bs : List T) (h : hypOK r bs = true) (hr' : treeOK r' = true)
    (hT : sameTaxa r r' = true) (s s' : SplitE) (hs : s ∈ r.splits) (hs' : s' ∈ r'.splits)
    (hss : sameSplit r.tipNames s.below s'.below = true) :
    depth r.tipNames s.below = depth r'.tipNames s'.below ∧
    fbpSpec r.tipNames s.below bs = fbpSpec r'.tipNames s'.below bs ∧
    tbeSpec r.tipNames s.below bs = tbeSpec r'.tipNames s'.below bs := by
  obtain ⟨hr, _, hb⟩ := hypOK_facts h
  obtain ⟨hrn, _, _, hrs⟩ := treeOK_facts r hr
  obtain ⟨hrn', _, _, hrs'⟩ := treeOK_facts r' hr'
  have t := sameTaxa_iff.1 hT
  obtain ⟨hsn, hsub⟩ := hrs s hs
  obtain ⟨hsn', hsub'0⟩ := hrs' s' hs'
  have hsub' : ∀ x ∈ s'.below, x ∈ r.tipNames := fun x hx => (t x).2 (hsub'0 x hx)
  have hlen : r.tipNames.length = r'.tipNames.length := setEq_length hrn hrn' t
  have hd : depth r.tipNames s.below = depth r'.tipNames s'.below := by
    rw [depth_of_sameSplit hrn hsn hsn' hsub hsub' hss]
    unfold depth; rw [hlen]
  -- the light sides define the same split
  have hLn := lightSide_nodup hrn hsn
  have hLs := lightSide_subset hsub
  have hLn' := lightSide_nodup hrn' hsn'
  have hLs'0 := lightSide_subset hsub'0
  have hLs' : ∀ x ∈ lightSide r'.tipNames s'.below, x ∈ r.tipNames := fun x hx => (t x).2 (hLs'0 x hx)
  have hLL : sameSplit r.tipNames (lightSide r.tipNames s.below) (lightSide r'.tipNames s'.below) = true := by
    have a1 : sameSplit r.tipNames (lightSide r.tipNames s.below) s'.below = true := by
      rw [sameSplit_lightSide s'.below hsub hsub']; exact hss
    have a2 : sameSplit r'.tipNames (lightSide r'.tipNames s'.below) s'.below = true := by
      rw [sameSplit_lightSide s'.below hsub'0 hsub'0]
      rw [sameSplit_iff]; left; intro x; exact Iff.rfl
    rw [← sameSplit_congr_all t] at a2
    exact sameSplit_trans hLs' a1 (sameSplit_symm hsub' a2)
  have hLlen : (lightSide r.tipNames s.below).length = (lightSide r'.tipNames s'.below).length := by
    rw [lightSide_length hrn hsn hsub, lightSide_length hrn' hsn' hsub'0, hd]
  have hc : ∀ b ∈ bs, containsSplit r.tipNames s.below b = containsSplit r'.tipNames s'.below b := by
    intro b hbm
    obtain ⟨_, _, _, hbs⟩ := treeOK_facts b (hb b hbm).1
    have tb := sameTaxa_iff.1 (hb b hbm).2
    unfold containsSplit
    rw [Bool.eq_iff_iff, List.any_eq_true, List.any_eq_true]
    constructor
    · rintro ⟨c, hc, h1⟩
      have hcs : ∀ x ∈ c.below, x ∈ r.tipNames := fun x hx => (tb x).2 ((hbs c hc).2 x hx)
      refine ⟨c, hc, ?_⟩
      rw [← sameSplit_congr_all t]
      exact sameSplit_trans hcs (sameSplit_symm hsub' hss) h1
    · rintro ⟨c, hc, h1⟩
      have hcs : ∀ x ∈ c.below, x ∈ r.tipNames := fun x hx => (tb x).2 ((hbs c hc).2 x hx)
      rw [← sameSplit_congr_all t] at h1
      exact ⟨c, hc, sameSplit_trans hcs hss h1⟩
  have hm : ∀ b ∈ bs, minTransfer (lightSide r.tipNames s.below) r.tipNames.length b =
      minTransfer (lightSide r'.tipNames s'.below) r'.tipNames.length b := by
    intro b hbm
    obtain ⟨_, _, _, hbs⟩ := treeOK_facts b (hb b hbm).1
    have tb := sameTaxa_iff.1 (hb b hbm).2
    unfold minTransfer
    rw [hLlen]
    congr 1
    apply List.map_congr_left
    intro c hc
    have hcs : ∀ x ∈ c.below, x ∈ r.tipNames := fun x hx => (tb x).2 ((hbs c hc).2 x hx)
    rw [← hlen]
    exact transferDist_congr_left hrn hLn hLn' (hbs c hc).1 hLs hLs' hcs hLL
  refine ⟨hd, ?_, ?_⟩
  · unfold fbpSpec
    rw [List.filter_congr hc]
  · unfold tbeSpec
    simp only []
    rw [List.map_congr_left hm, hLlen]

/-! ## the cap `p - 1` of the fold is the distance to a tip branch of the light side -/

mutual
theorem exists_tip_entry : ∀ (t : T), ∀ x ∈ t.leaves, t.kids ≠ [] → ∃ s ∈ t.splitsBelow, s.below = [x]
  | .node _ _ [], _, _, h => by simp at h
  | .node _ _ (k :: ks), x, hx, _ => by
    simpa [T.splitsBelow] using exists_tip_entryL (k :: ks) x (by simpa [T.leaves] using hx)
theorem exists_tip_entryL : ∀ (k : Kids), ∀ x ∈ leavesL k, ∃ s ∈ splitsL k, s.below = [x]
  | [], _, hx => by simp [leavesL] at hx
  | (e, t) :: r, x, hx => by
    simp only [leavesL, List.mem_append] at hx
    simp only [splitsL, List.mem_cons, List.mem_append]
    rcases hx with hx | hx
    · cases t with
      | node d pp kk =>
        cases kk with
        | nil =>
          have : x = d.name := by simpa [T.leaves] using hx
          exact ⟨_, Or.inl rfl, by simp [T.leaves, this]⟩
        | cons a b =>
          obtain ⟨s, hs, e'⟩ := exists_tip_entry (.node d pp (a :: b)) x hx (by simp)
          exact ⟨s, Or.inr (Or.inl hs), e'⟩
    · obtain ⟨s, hs, e'⟩ := exists_tip_entryL r x hx
      exact ⟨s, Or.inr (Or.inr hs), e'⟩
end

theorem transferDist_tip {L : List String} (hL : L.Nodup) (x : String) (hx : x ∈ L) (n : Nat) :
    transferDist L [x] n ≤ L.length - 1 := by
  unfold transferDist symDiff
  have h1 := length_diff_add_inter L [x]
  have h2 := inter_length_comm hL (List.nodup_cons.2 ⟨by simp, List.nodup_nil⟩ : [x].Nodup)
  have h3 : (inter [x] L).length = 1 := by simp [inter, hx]
  have h4 : diff [x] L = [] := by simp [diff, hx]
  rw [h4]
  simp only [List.length_nil, Nat.add_zero]
  omega

theorem foldl_min_cap (a x : Nat) (xs : List Nat) (h : ∃ y ∈ x :: xs, y ≤ a) :
    (x :: xs).foldl min a = xs.foldl min x := by
  apply Nat.le_antisymm
  · rcases foldl_min_mem xs x with e | e
    · rw [e]; exact foldl_min_le_mem (x :: xs) a x (List.mem_cons_self ..)
    · exact foldl_min_le_mem (x :: xs) a _ (List.mem_cons_of_mem _ e)
  · have key : ∀ y ∈ x :: xs, xs.foldl min x ≤ y := by
      intro y hy
      rcases List.mem_cons.1 hy with rfl | hy
      · exact foldl_min_le xs y
      · exact foldl_min_le_mem xs x y hy
    rcases foldl_min_mem (x :: xs) a with e | e
    · obtain ⟨y, hy, hya⟩ := h
      rw [e]; exact Nat.le_trans (key y hy) hya
    · exact key _ e

theorem minTransfer_eq_pure {b : T} {L : List String} (n : Nat) (hb : treeOK b = true) (hL : L.Nodup)
    (hLs : ∀ x ∈ L, x ∈ b.tipNames) (hne : L ≠ []) : minTransfer L n b = minTransferPure L n b := by
  obtain ⟨_, ht, _, _⟩ := treeOK_facts b hb
  obtain ⟨x, hx⟩ := List.exists_mem_of_ne_nil L hne
  have hxl : x ∈ leavesL b.kids := by rw [← ht]; exact hLs x hx
  obtain ⟨s, hs, hsb⟩ := exists_tip_entryL b.kids x hxl
  have hmem : transferDist L [x] n ∈ b.splits.map fun s => transferDist L s.below n :=
    List.mem_map.2 ⟨s, hs, by rw [hsb]⟩
  unfold minTransfer minTransferPure
  generalize (b.splits.map fun s => transferDist L s.below n) = l at hmem
  cases l with
  | nil => cases hmem
  | cons y ys => exact foldl_min_cap _ y ys ⟨_, hmem, transferDist_tip hL x hx n⟩

theorem tbeSpec_eq_pure (r : T) (bs : List T) (h : hypOK r bs = true) (s : SplitE) (hs : s ∈ r.splits)
    (h2 : 2 ≤ depth r.tipNames s.below) :
    tbeSpec r.tipNames s.below bs = tbeSpecPure r.tipNames s.below bs := by
  obtain ⟨hr, _, hb⟩ := hypOK_facts h
  obtain ⟨hrn, _, _, hrs⟩ := treeOK_facts r hr
  obtain ⟨hsn, hss⟩ := hrs s hs
  have hLl := lightSide_length hrn hsn hss
  have hne : lightSide r.tipNames s.below ≠ [] := by
    intro e; rw [e] at hLl; simp at hLl; omega
  unfold tbeSpec tbeSpecPure
  simp only []
  rw [List.map_congr_left (fun b hbm => minTransfer_eq_pure r.tipNames.length (hb b hbm).1
    (lightSide_nodup hrn hsn)
    (fun x hx => (sameTaxa_iff.1 (hb b hbm).2 x).1 (lightSide_subset hss x hx)) hne)]

end Gotree.C10
