/-
  C12 — the ASR entry point meets the hypotheses of the theorems on every column whose characters
  are keys of `align.IupacCode` (upper-case IUPAC codes and `-`); the other characters are the open
  finding F59 (AsrNonIupacCharEmptySet).
-/
import Gotree.Lemmas.C12Names

namespace Gotree.C12
open Gotree

theorem iupac_lt6 (c : Char) (i : Nat) (h : i ∈ iupac c) : i < 6 := by
  unfold iupac at h
  split at h <;> simp at h <;> omega

theorem iupacIntended_lt6 (c : Char) (i : Nat) (h : i ∈ iupacIntended c) : i < 6 := by
  unfold iupacIntended at h
  simp only [] at h
  by_cases hu : (c.toUpper == 'U') = true
  · simp [hu] at h; omega
  · cases hi : iupac c.toUpper with
    | nil => simp [hu, hi] at h; omega
    | cons a r =>
      simp only [hu, hi] at h
      exact iupac_lt6 c.toUpper i (by rw [hi]; simpa using h)

theorem iupacIntended_ne (c : Char) : iupacIntended c ≠ [] := by
  unfold iupacIntended
  simp only []
  by_cases hu : (c.toUpper == 'U') = true
  · simp [hu]
  · cases hi : iupac c.toUpper with
    | nil => simp [hu]
    | cons a r => simp [hu]

theorem asrCodes_lt6 (c : Char) (i : Nat) (h : i ∈ asrCodes c) : i < 6 := by
  unfold asrCodes at h
  split at h
  · exact iupacIntended_lt6 c i h
  · exact iupac_lt6 c i h

theorem asrCodes_ne (c : Char) (h : (iupac c).isEmpty = false) : asrCodes c ≠ [] := by
  unfold asrCodes
  split
  · exact iupacIntended_ne c
  · intro e; simp [e] at h

/-- every sequence has, at column `j`, a character `align.IupacCode` knows -/
def iupacCol (m : List (String × String)) (j : Nat) : Bool :=
  m.all fun kv => !(iupac (kv.2.toList.getD j ' ')).isEmpty

theorem lookup_iupac (m : List (String × String)) (j : Nat) (n sq : String) (h : lookup m n = some sq)
    (hp : iupacCol m j = true) : (iupac (sq.toList.getD j ' ')).isEmpty = false := by
  unfold lookup at h
  cases hf : m.find? (·.1 == n) with
  | none => simp [hf] at h
  | some kv =>
    simp only [hf, Option.map_some, Option.some.injEq] at h
    subst h
    have hm := List.mem_of_find?_eq_some hf
    simp only [iupacCol, List.all_eq_true] at hp
    have := hp kv hm
    simpa using this

theorem asr_hyps (t : T) (m : List (String × String)) (j : Nat) (hr : rootOk t = true)
    (hall : (t.tipNames.all fun n => (lookup m n).isSome) = true) (hp : iupacCol m j = true) :
    tipsOk 6 (asrTipVec m j) t = true := by
  have hlen : ¬ t.kids.length = 1 := by
    simp only [rootOk, decide_eq_true_eq] at hr; omega
  have hnames : t.tipNames = leavesL t.kids := by simp [T.tipNames, hlen]
  rw [hnames] at hall
  simp only [List.all_eq_true] at hall
  simp only [tipsOk, List.all_eq_true, Bool.and_eq_true, List.any_eq_true, decide_eq_true_eq, List.mem_range]
  intro n hn
  cases hl : lookup m n with
  | none => have := hall n hn; simp [hl] at this
  | some sq =>
    have hne := asrCodes_ne _ (lookup_iupac m j n sq hl hp)
    simp only [asrTipVec, hl]
    generalize sq.toList.getD j ' ' = c at *
    constructor
    · intro i hi
      simp only [at_tab, hi, if_true]
      split <;> omega
    · cases hc : asrCodes c with
      | nil => exact absurd hc hne
      | cons a r =>
        have ha : a < 6 := asrCodes_lt6 c a (by rw [hc]; simp)
        exact ⟨a, ha, by simp [at_tab, ha]⟩

/- ## protein alignments -/

/-- every sequence has, at column `j`, an amino acid, `-`, `*`, or the "any amino acid" code `X` -/
def aaCol (m : List (String × String)) (j : Nat) : Bool :=
  m.all fun kv => kv.2.toList.getD j ' ' == 'X' || aaChars.contains (kv.2.toList.getD j ' ')

theorem aaCodes_lt22 (c : Char) (i : Nat) (h : i ∈ aaCodes c) : i < 22 := by
  unfold aaCodes at h
  split at h
  · simp only [List.mem_range] at h; omega
  · split at h
    · rename_i hc
      simp only [List.mem_cons, List.not_mem_nil, or_false] at h
      subst h
      have : aaChars.findIdx (· == c) < aaChars.length :=
        List.findIdx_lt_length_of_exists ⟨c, by simpa using hc, by simp⟩
      simpa [aaChars] using this
    · simp at h

theorem aaCodes_ne (c : Char) (h : (c == 'X' || aaChars.contains c) = true) : aaCodes c ≠ [] := by
  unfold aaCodes
  split
  · simp
  · rename_i hx
    have : aaChars.contains c = true := by
      cases hxx : (c == 'X') with
      | true => exact absurd hxx hx
      | false => simpa [hxx] using h
    have hm : c ∈ aaChars := by simpa using this
    simp [hm]

theorem lookup_aa (m : List (String × String)) (j : Nat) (n sq : String) (h : lookup m n = some sq)
    (hp : aaCol m j = true) :
    (sq.toList.getD j ' ' == 'X' || aaChars.contains (sq.toList.getD j ' ')) = true := by
  unfold lookup at h
  cases hf : m.find? (·.1 == n) with
  | none => simp [hf] at h
  | some kv =>
    simp only [hf, Option.map_some, Option.some.injEq] at h
    subst h
    have hm := List.mem_of_find?_eq_some hf
    simp only [aaCol, List.all_eq_true] at hp
    exact hp kv hm

theorem asrProt_hyps (t : T) (m : List (String × String)) (j : Nat) (hr : rootOk t = true)
    (hall : (t.tipNames.all fun n => (lookup m n).isSome) = true) (hp : aaCol m j = true) :
    tipsOk 22 (aaTipVec m j) t = true := by
  have hlen : ¬ t.kids.length = 1 := by
    simp only [rootOk, decide_eq_true_eq] at hr; omega
  have hnames : t.tipNames = leavesL t.kids := by simp [T.tipNames, hlen]
  rw [hnames] at hall
  simp only [List.all_eq_true] at hall
  simp only [tipsOk, List.all_eq_true, Bool.and_eq_true, List.any_eq_true, decide_eq_true_eq, List.mem_range]
  intro n hn
  cases hl : lookup m n with
  | none => have := hall n hn; simp [hl] at this
  | some sq =>
    have hne := aaCodes_ne _ (lookup_aa m j n sq hl hp)
    simp only [aaTipVec, hl]
    generalize sq.toList.getD j ' ' = c at *
    constructor
    · intro i hi
      simp only [at_tab, hi, if_true]
      split <;> omega
    · cases hc : aaCodes c with
      | nil => exact absurd hc hne
      | cons a r =>
        have ha : a < 22 := aaCodes_lt22 c a (by rw [hc]; simp)
        exact ⟨a, ha, by simp [at_tab, ha]⟩

end Gotree.C12
