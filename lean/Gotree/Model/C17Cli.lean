/-
  C17 — `cmd/nni.go` as a pure function: the loop over the records of the input (a tree, or
  the error the reader attached to the record), writing every neighbour of every tree, stopping
  with an error at the first bad record (commit 9333707) or failed rearrangement.
  Core Lean only.
-/
import Gotree.Model.C17

namespace Gotree.C17
open Gotree

/-- records of `utils.ReadMultiTrees`: `some t`, or `none` for a record that carries an error.
    Result: the trees written, in order, and whether the command ends with an error. -/
def cliRun : List (Option T) → List T × Bool
  | [] => ([], false)
  | none :: _ => ([], true)
  | some t :: rest =>
    match enumerate t with
    | none => ([], true)
    | some (ns, _) =>
      let r := cliRun rest
      (ns ++ r.1, r.2)

/-- the exit status (`cmd.Execute`: 1 when `RunE` returns an error) -/
def cliExit (recs : List (Option T)) : Nat := if (cliRun recs).2 then 1 else 0

/-- number of lines on standard output: one per tree written, plus — `cmd.Execute` prints the
    error with `fmt.Println` — one line for the error message -/
def cliLines (recs : List (Option T)) : Nat := (cliRun recs).1.length + (if (cliRun recs).2 then 1 else 0)

end Gotree.C17
