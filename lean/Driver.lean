-- GENERATED
import Driver.Proto
import Driver.C04
import Driver.C14
