/-
  C07 — the theorems about the table regenerated from the Go source (`Gotree/Gen/C07Sites.lean`).
  Kept apart from Proofs/C07.lean (which other properties import): nothing outside C07 imports this file
  or any module importing the generated table, so a table broken by a code change stops this file only.
-/
import Gotree.Proofs.C07
import Gotree.Lemmas.C07Sites
import Gotree.Gen.C07Sites

namespace Gotree.C07
open Gotree

/-! ## The table regenerated from the Go source (`harness/c07/extract.go` → `Gotree/Gen/C07Sites.lean`)

  `sites_*_check`: the facts of the source, re-read on every run, are the ones the model was written from
  (`Sites.exp…` in Model/C07Sites.lean), up to the direction in which a comparison is written.
  `sites_sel…`, `sites_guards`, `contractL_follows_guards`, `sites_resolve_threshold`, `sites_cmd_defaults`:
  what those facts MEAN — the conditions of the table, evaluated, are the selectors and the branch decisions
  of the model, for all inputs.  When a decision fails the driver still runs (it does not import the table)
  and the oracle looks for a concrete failing input. -/

open Sites Gen.C07Sites in
theorem sites_selectors_check :
    Gen.C07Sites.selLen.norm = expSelLen ∧ Gen.C07Sites.selSup.norm = expSelSup ∧
    Gen.C07Sites.selDepth.norm = expSelDepth ∧
    Gen.C07Sites.depthErr.norm = expDepthErr ∧ depthValue = expDepthValue ∧ removeArgs = expRemoveArgs := by
  decide +kernel

open Sites Gen.C07Sites in
/-- the guards of `RemoveEdges` found in the source decide like the model on EVERY reachable probe (flags ×
    degrees 0..4 of `e.Left()` now and of the root at entry): a semantic decision — an equivalent rewrite of
    the conditions (the root's degree read once before the loop, a comparison turned round, `len(Neigh())` for
    `Nneigh()`) stays green, a different decision on some probe does not. -/
theorem sites_removeEdges_probes : guardsAgree guards = true := by decide +kernel

open Sites Gen.C07Sites in
theorem sites_resolve_check :
    resolveConds.map Ex.norm = expResolveConds ∧ resolveSets = expResolveSets ∧
    resolveReads = expResolveReads ∧ resolveTop = expResolveTop := by decide +kernel

open Sites Gen.C07Sites in
/-- the three sentinels are `-1`, the model's `NIL` -/
theorem sites_consts_check :
    (["NIL_SUPPORT", "NIL_LENGTH", "NIL_PVALUE"].all fun n => (consts.lookup n).bind litRat? == some NIL) = true := by
  decide +kernel

open Sites Gen.C07Sites in
theorem sites_accessors_check : accessors = expAccessors ∧ tipDef.norm = expTipDef := by decide +kernel

open Sites in
/-- `Node.Tip()` as found in the source: a node is a tip iff it has exactly one neighbour — the reading
    `βGuard` gives to `$e.Left().Tip()` (a root with one neighbour IS a tip) and `T.isLeaf` to `$e.Right().Tip()` -/
theorem sites_tip (deg : Nat) : eval (ρDeg deg) βNone Gen.C07Sites.tipDef = some (deg == 1) := by
  rw [← eval_norm, sites_accessors_check.2]; exact tip_expected deg

open Sites Gen.C07Sites in
theorem sites_cmds_check : cmds = expCmds := by decide +kernel

open Sites in
/-- `CollapseShortBranches`: the condition found in the source IS `selLen` -/
theorem sites_selLen (l : Rat) (s : SplitE) :
    eval (ρLen l s) βNone Gen.C07Sites.selLen = some (selLen l s) := by
  rw [← eval_norm, sites_selectors_check.1]; exact selLen_expected l s

open Sites in
/-- `CollapseLowSupport`: the condition found in the source, with the value of `NIL_SUPPORT` found in the
    source, IS `selSup` -/
theorem sites_selSup (x : Rat) (s : SplitE) :
    eval (ρSup Gen.C07Sites.consts x s) βNone Gen.C07Sites.selSup = some (selSup x s) := by
  rw [← eval_norm, sites_selectors_check.2.1]
  refine selSup_expected _ x s ?_
  have h := sites_consts_check
  simp only [List.all_cons, List.all_nil, Bool.and_true, Bool.and_eq_true, beq_iff_eq] at h
  exact h.1

open Sites in
/-- `CollapseTopoDepth`: the condition found in the source, on the value of `TopoDepth`, IS `selDepth` -/
theorem sites_selDepth (total : Nat) (mn mx : Int) (s : SplitE) :
    eval (ρDepth (topoDepth total s) mn mx) βNone Gen.C07Sites.selDepth = some (selDepth total mn mx s) := by
  rw [← eval_norm, sites_selectors_check.2.2.1]; exact selDepth_expected total mn mx s

open Sites in
/-- `Edge.TopoDepth`: the error condition found in the source, on the sizes stored on a branch, IS `staleErr` -/
theorem sites_depthErr (stored : List (Int × Nat × Nat)) (s : SplitE) :
    eval (ρSizes (storedSizes stored s.e.id)) βNone Gen.C07Sites.depthErr = some (staleErr stored s) := by
  rw [← eval_norm, sites_selectors_check.2.2.2.1]; exact depthErr_expected _

open Sites in
/-- `RemoveEdges`: the two guards found in the source, run in their order, decide like the model -/
theorem sites_guards (hform : Gen.C07Sites.guards.map Guard.norm = expGuards)
    (rr rt childTip : Bool) (deg : Nat) (atRoot : Bool) :
    fateOfGuards Gen.C07Sites.guards rr rt childTip deg atRoot = fateOfModel rr rt childTip deg atRoot := by
  rw [← fateOfGuards_norm, hform]; exact fate_expected rr rt childTip deg atRoot

open Sites in
/-- … and `contractL` does to the branch carrying `id` what the guards of the source say: kept (length 0
    under `removeTips`) when an end point is a tip, kept when it is a root branch of a degree-2 root and
    `removeRoot` is off, contracted otherwise (`none` = `delNeighbor`). -/
theorem contractL_follows_guards (hform : Gen.C07Sites.guards.map Sites.Guard.norm = Sites.expGuards) (rr rt isRoot : Bool) (id : Int) (deg : Nat) (e : EdgeD) (c : T) (r : Kids)
    (h : (e.id == id) = true) :
    (contractL (rr || !isRoot) rt id deg ((e, c) :: r)).1.head? =
      match fateOfGuards Gen.C07Sites.guards rr rt c.isLeaf deg isRoot with
      | .tip z => some (some (if z then zeroLen e else e, contractT (rr || !isRoot) rt id false c))
      | .rootBranch => some (some (e, contractT (rr || !isRoot) rt id false c))
      | .contracted => some none
      | .unknown => none := by
  rw [sites_guards hform]
  unfold fateOfModel
  rw [contractL]
  simp only [h, if_true]
  generalize (c.isLeaf || deg == 1) = b1
  generalize (!(rr || !isRoot) && deg == 2) = b2
  cases b1 <;> cases b2 <;> rfl

open Sites in
/-- `resolveRecur`: the test found in the source (`len(current.Neigh()) > 3`, the same text for the `if`
    and for the `for`) is the one of `resolveNode` — a node with at most three neighbours is left as it is
    and draws nothing. -/
theorem sites_resolve_threshold (isRoot : Bool) (d : NodeD) (p : Nat) (k : Kids) (ds : List Nat) :
    Gen.C07Sites.resolveConds.getD 1 (.atom "") = Gen.C07Sites.resolveConds.getD 4 (.atom "") ∧
    (eval (ρNeigh (k.length + (if isRoot then 0 else 1))) βNone (Gen.C07Sites.resolveConds.getD 1 (.atom "")) = some false →
      resolveNode isRoot d p k ds = some (.node d p k, ds)) := by
  have h1 : (Gen.C07Sites.resolveConds.getD 1 (.atom "")).norm = .cmp "<" "3" "len($0.Neigh())" := by
    decide +kernel
  refine ⟨by decide +kernel, fun h => ?_⟩
  rw [← eval_norm, h1, resolveCond_expected] at h
  have hle : k.length + (if isRoot then 0 else 1) ≤ 3 := by
    have := Option.some.inj h
    simp at this; omega
  unfold resolveNode
  simp only [hle, if_true]

open Sites in
/-- the commands: omitting every option is giving each the default the source registers for it -/
theorem sites_cmd_defaults (recs : List Rec) :
    Gen.C07Sites.cmds.map Cmd.defaults = [[some 0, some 0, some 0], [some 0, some 0], [some 0, some 0, some 0, some 0], []] ∧
    cmdLength {} recs = cmdLength { l := some 0, root := false, tips := false } recs ∧
    cmdSupport {} recs = cmdSupport { s := some 0, root := false } recs ∧
    cmdDepth {} recs = cmdDepth { mn := some 0, mx := some 0, root := false, tips := false } recs := by
  refine ⟨by rw [sites_cmds_check]; decide +kernel, rfl, rfl, rfl⟩

/-- the hypotheses of the table theorems are met by concrete values: a root branch of a rooted tree without
    `--root` is kept, the same branch under `--root` is contracted, a terminal branch is zeroed by `--tips` -/
example : Sites.fateOfGuardsP Gen.C07Sites.guards ⟨false, false, false, 2, true, 2⟩ = .rootBranch ∧
    Sites.fateOfGuardsP Gen.C07Sites.guards ⟨true, false, false, 2, true, 2⟩ = .contracted ∧
    Sites.fateOfGuardsP Gen.C07Sites.guards ⟨false, true, true, 3, false, 3⟩ = .tip true ∧
    200 ≤ Sites.probes.length := by decide +kernel

end Gotree.C07
